package main

// Part (b): hostile bytes.  Deterministic enumeration of (decoder, context,
// input) cases and the oracle applied to each.

import (
	"bytes"
	"encoding/binary"
	"fmt"
	"io"
	"runtime"
	"strings"

	"github.com/btcsuite/btcd/btcutil/v2"
	"github.com/btcsuite/btcd/wire/v2"

	rw "verif/ref/refwire"
)

// allocFactor x MaxMessagePayload is the allocation bound for one decode call.
// The property only says "a fixed multiple"; the largest pre-allocation the
// anchored limits permit is maxTxOutPerMessage x (sizeof(TxOut)+8) = 4.44 x
// MaxMessagePayload (measured: 149,130,840 bytes for a 10 byte input), so the
// bound is the next integer.
const allocFactor = 5
const allocBound = allocFactor * wire.MaxMessagePayload

var subst8 = []byte{0x00, 0x01, 0x7f, 0x80, 0xfc, 0xfd, 0xfe, 0xff}

// Counts / lengths a hostile input may claim: CompactSize boundaries and every
// count limit visible in the anchored code, at and one past.
var claimVals = []uint64{0, 1, 2, 0xfc, 0xfd, 0xffff, 0x10000,
	256, 257, 500, 501, 512, 513, 520, 521, 1000, 1001, 2000, 2001, 36000, 36001,
	50000, 50001, 100000, 100001, 262144, 262145, 400001, 400002, 818401, 818402,
	3728271, 3728272, 4000000, 4000001, 4194304, 4194305, 33554432, 33554433,
	0x7fffffff, 0x80000000, 0xffffffff, 0x100000000, 1 << 62, 1<<63 - 1, 1 << 63, 0xffffffffffffffff}

// Seeds after the first few of a decoder only get the CompactSize boundaries
// and the integer extremes (the limit claims allocate up to 149 MB each).
var claimValsSmall = []uint64{0, 1, 2, 0xfc, 0xfd, 0xffff, 0x10000, 0xffffffff, 0x100000000, 0xffffffffffffffff}

var frameLenVals = []uint32{0, 1, 4000000, 4000001, 33554432, 33554433, 0x7fffffff, 0x80000000, 0xffffffff}

// hgroup is one unit of hostile work: a decoder, a context and either the set
// of short strings or the neighbourhood of one valid encoding.
type hgroup struct {
	dec   string // "msg:<cmd>" | "txloc" | "header" | "btcutil.tx" | "btcutil.block" | "frame" | "varint" | "varstring" | "varbytes"
	c     rw.Ctx
	kind  string // "short01" | "short2" | "seed" | "reframe"
	first byte   // short2: first byte
	seed  []byte
	spans []rw.Span
	cmd   string // frame/reframe: command of the framed message
	label string
	// allClaims: rewrite every count field to every value of claimVals
	// (otherwise claimValsSmall)
	allClaims bool
}

func (g *hgroup) id() string {
	return fmt.Sprintf("%s/pver=%d/%s", g.dec, g.c.Pver, encName(g.c))
}

func hostileCtxs(cmd string) []rw.Ctx {
	switch cmd {
	case "version":
		return []rw.Ctx{{Pver: 70000}, {Pver: 70001}}
	case "addr":
		return []rw.Ctx{{Pver: 31401}, {Pver: 31402}}
	case "ping":
		return []rw.Ctx{{Pver: 60000}, {Pver: 60001}}
	case "pong":
		return []rw.Ctx{{Pver: 60001}}
	case "tx", "block":
		return []rw.Ctx{{Pver: 0}, {Pver: 0, Witness: true}, {Pver: 70016}, {Pver: 70016, Witness: true}}
	}
	return []rw.Ctx{{Pver: 70016}}
}

// hostileGroups builds the full deterministic work list.
func hostileGroups(full bool) []hgroup {
	var gs []hgroup
	addShort := func(dec string, c rw.Ctx) {
		gs = append(gs, hgroup{dec: dec, c: c, kind: "short01"})
		for f := 0; f < 256; f++ {
			gs = append(gs, hgroup{dec: dec, c: c, kind: "short2", first: byte(f)})
		}
	}
	// Every count limit is claimed in every count field of the first seeds of
	// each decoder; for transactions (whose limit claims allocate up to 149 MB
	// a piece) that is the witness carrying seed, for blocks the empty block
	// and the block holding that transaction.
	nSeeds := map[string]int{}
	addSeed := func(dec string, c rw.Ctx, seed []byte, spans []rw.Span, label string) {
		g := hgroup{dec: dec, c: c, kind: "seed", seed: seed, spans: spans, label: label}
		n := nSeeds[g.id()]
		nSeeds[g.id()]++
		switch dec {
		case "msg:tx", "btcutil.tx":
			g.allClaims = n == 1
		case "msg:block", "btcutil.block", "txloc":
			g.allClaims = n == 0 || n == 2
		default:
			g.allClaims = n < 3
		}
		if full {
			g.allClaims = true
		}
		gs = append(gs, g)
	}
	for _, cmd := range allCmds {
		m := rw.ByCmd(cmd)
		dom := domain(cmd, false, false)
		hc := hostileCtxs(cmd)
		for ci, c := range hc {
			if m.Defined(c.Pver) != rw.Yes {
				continue
			}
			// the contexts of version and addr only differ behind the first
			// two bytes: their short strings are run in the last context only
			if !(cmd == "version" || cmd == "addr") || ci == len(hc)-1 {
				addShort("msg:"+cmd, c)
			}
			nframe := 0
			for i := range dom {
				if !dom[i].seed {
					continue
				}
				b, sp := rw.Encode(m.Fields, dom[i].v, c)
				addSeed("msg:"+cmd, c, b, sp, dom[i].label)
				if c.Pver != 0 && nframe < 2 {
					nframe++
					fr := rw.Frame(uint32(wire.MainNet), cmd, b)
					gs = append(gs, hgroup{dec: "frame", c: c, kind: "seed", seed: fr, spans: frameSpans(len(b)), cmd: cmd, label: dom[i].label})
					gs = append(gs, hgroup{dec: "frame", c: c, kind: "reframe", seed: b, spans: sp, cmd: cmd, label: dom[i].label, allClaims: full || nframe == 2})
					// BIP324 plaintext of the same message, offered both as an
					// exact-capacity slice and as a sub-slice of a larger buffer
					hdr := rw.V2Header(cmd)
					v2 := rw.FrameV2(cmd, b)
					v2sp := []rw.Span{{Off: 0, Len: len(hdr), Path: "v2-message-type"}}
					for _, x := range sp {
						x.Off += len(hdr)
						v2sp = append(v2sp, x)
					}
					for _, d := range []string{"framev2", "framev2-sub"} {
						gs = append(gs, hgroup{dec: d, c: c, kind: "seed", seed: v2, spans: v2sp, cmd: cmd, label: dom[i].label, allClaims: full || nframe == 2})
					}
				}
				if c.Pver == 0 {
					switch cmd {
					case "tx":
						addSeed("btcutil.tx", c, b, sp, dom[i].label)
					case "block":
						addSeed("btcutil.block", c, b, sp, dom[i].label)
						if c.Witness {
							addSeed("txloc", c, b, sp, dom[i].label)
						}
					}
				}
			}
		}
	}
	addShort("frame", rw.Ctx{Pver: 70016})
	addShort("framev2", rw.Ctx{Pver: 70016})
	addShort("framev2-sub", rw.Ctx{Pver: 70016})
	addShort("framev2", rw.Ctx{Pver: 70016, Witness: true})
	addShort("txloc", rw.Ctx{Witness: true})
	addShort("btcutil.tx", rw.Ctx{Witness: true})
	addShort("btcutil.block", rw.Ctx{Witness: true})
	addShort("header", rw.Ctx{})
	for _, h := range hdrDom {
		b, sp := rw.Encode(rw.HeaderFields, h, rw.Ctx{})
		addSeed("header", rw.Ctx{}, b, sp, "header")
	}
	for _, d := range []string{"varint", "varstring", "varbytes"} {
		addShort(d, rw.Ctx{})
	}
	for _, v := range compactDom {
		b := rw.CompactSize(v)
		addSeed("varint", rw.Ctx{}, b, []rw.Span{{Off: 0, Len: len(b), Class: rw.ClassCount, Val: v}}, "varint")
	}
	for _, n := range []int{0, 1, 0xfc, 0xfd} {
		l := rw.CompactSize(uint64(n))
		b := append(append([]byte(nil), l...), pattern(n, 0x41, 1)...)
		sp := []rw.Span{{Off: 0, Len: len(l), Class: rw.ClassCount, Val: uint64(n)}, {Off: len(l), Len: n}}
		addSeed("varstring", rw.Ctx{}, b, sp, "varstring")
		addSeed("varbytes", rw.Ctx{}, b, sp, "varbytes")
	}
	return gs
}

func frameSpans(payloadLen int) []rw.Span {
	return []rw.Span{
		{Off: 0, Len: 4, Path: "magic"},
		{Off: 4, Len: 12, Path: "command"},
		{Off: 16, Len: 4, Path: "length", Class: rw.ClassCount, Val: uint64(payloadLen)},
		{Off: 20, Len: 4, Path: "checksum"},
	}
}

// mutants enumerates the inputs of a group in a fixed order; f returns false
// to stop.  The slice passed to f is only valid during the call.
func mutants(g *hgroup, full bool, f func(k int, in []byte) bool) {
	k := 0
	emit := func(in []byte) bool {
		ok := f(k, in)
		k++
		return ok
	}
	switch g.kind {
	case "short01":
		if !emit(nil) {
			return
		}
		for a := 0; a < 256; a++ {
			if !emit([]byte{byte(a)}) {
				return
			}
		}
		return
	case "short2":
		for b := 0; b < 256; b++ {
			if !emit([]byte{g.first, byte(b)}) {
				return
			}
		}
		return
	case "reframe":
		// payload mutants re-framed with a correct length and checksum:
		// truncations, claimed counts, non-minimal CompactSizes
		wrap := func(p []byte) bool { return emit(rw.Frame(uint32(wire.MainNet), g.cmd, p)) }
		payloadMutants(g.seed, g.spans, false, false, g.allClaims, wrap)
		return
	}
	seed := g.seed
	if !emit(seed) {
		return
	}
	ok := true
	payloadMutants(seed, g.spans, true, full, g.allClaims, func(in []byte) bool {
		ok = emit(in)
		return ok
	})
	if !ok {
		return
	}
	if strings.HasPrefix(g.dec, "framev2") {
		payload := seed[len(rw.V2Header(g.cmd)):]
		// every short id, known or not, in front of this payload
		for id := 1; id < 256; id++ {
			if !emit(append([]byte{byte(id)}, payload...)) {
				return
			}
		}
		// long form with well formed and malformed commands
		cmds := [][]byte{
			[]byte(g.cmd),                              // long form even if a short id exists
			append([]byte(g.cmd), 0, 'x'),              // embedded NUL
			append(append([]byte(g.cmd), 0), g.cmd...), // embedded NUL, again
			append([]byte{0}, []byte(g.cmd)...),        // leading NUL
			append([]byte(g.cmd), ' '),                 // non-NUL padding
			[]byte("versionversi"),                     // 12 bytes without NUL
			{0xff, 0xfe, 0xfd},                         // invalid UTF-8
			{},                                         // empty command
			[]byte(strings.ToUpper(g.cmd)),
			[]byte("wtxidrelay"), []byte("sendaddrv2"), []byte("verack"), []byte("version"),
			[]byte("cmpctblock"), []byte("sendcmpct"), // BIP324 ids this package does not implement
		}
		for _, cm := range cmds {
			h := make([]byte, 13)
			copy(h[1:], cm)
			for i := len(cm) + 1; i < 13 && bytes.HasSuffix(cm, []byte{' '}); i++ {
				h[i] = ' ' // space padded instead of NUL padded
			}
			full13 := append(h, payload...)
			// the 13 byte type prefix cut at every length, with and without payload
			for n := 1; n <= 13; n++ {
				if !emit(full13[:n]) {
					return
				}
			}
			if !emit(full13) {
				return
			}
		}
		return
	}
	if g.dec == "frame" {
		buf := make([]byte, len(seed))
		// length field values
		plen := uint32(len(seed) - 24)
		vals := append([]uint32{plen - 1, plen + 1}, frameLenVals...)
		for _, v := range vals {
			copy(buf, seed)
			binary.LittleEndian.PutUint32(buf[16:20], v)
			if !emit(buf) {
				return
			}
		}
		// other networks' magic
		for _, n := range []wire.BitcoinNet{wire.TestNet, wire.TestNet3, wire.TestNet4, wire.SigNet, wire.SimNet, 0, 0xffffffff} {
			copy(buf, seed)
			binary.LittleEndian.PutUint32(buf[0:4], uint32(n))
			if !emit(buf) {
				return
			}
		}
		// malformed commands
		cmds := [][]byte{
			[]byte("versionversi"),              // 12 bytes, no NUL, unknown
			[]byte("versionversion"),            // over-long: spills into the length field
			append([]byte(g.cmd), 0, 'x'),       // NUL inside
			{0xff, 0xfe, 0xfd},                  // invalid UTF-8
			{0xc3, 0x28},                        // invalid UTF-8 sequence
			{},                                  // empty
			[]byte(strings.ToUpper(g.cmd)),      // wrong case
			append([]byte{0}, []byte(g.cmd)...), // leading NUL
			[]byte("wtxidrelay"),                // another command with this payload
			[]byte("sendaddrv2 "),
		}
		for _, cm := range cmds {
			copy(buf, seed)
			for i := 4; i < 16; i++ {
				buf[i] = 0
			}
			copy(buf[4:], cm) // an over-long command overwrites the length field
			if !emit(buf) {
				return
			}
		}
	}
}

// payloadMutants: truncations, single substitutions, CompactSize rewrites
// (claimed values, non-minimal widths), one trailing byte; with pairs the
// 2-deviation mutants inside count / flag fields.
func payloadMutants(seed []byte, spans []rw.Span, subst, pairs, allClaims bool, emit func([]byte) bool) {
	claims := claimValsSmall
	if allClaims {
		claims = claimVals
	}
	for n := 0; n < len(seed); n++ {
		if !emit(seed[:n]) {
			return
		}
	}
	buf := make([]byte, len(seed))
	if subst {
		for i := range seed {
			for _, v := range subst8 {
				if seed[i] == v {
					continue
				}
				copy(buf, seed)
				buf[i] = v
				if !emit(buf) {
					return
				}
			}
		}
	}
	var countBytes []int
	for _, sp := range spans {
		if sp.Class != rw.ClassCount && sp.Class != rw.ClassFlag {
			continue
		}
		for i := 0; i < sp.Len; i++ {
			countBytes = append(countBytes, sp.Off+i)
		}
		if sp.Class != rw.ClassCount || sp.Path == "length" {
			continue
		}
		sp := sp
		splice := func(enc []byte) bool {
			out := make([]byte, 0, len(seed)+9)
			out = append(out, seed[:sp.Off]...)
			out = append(out, enc...)
			out = append(out, seed[sp.Off+sp.Len:]...)
			return emit(out)
		}
		for _, w := range []int{3, 5, 9} { // non-minimal encodings of the same value
			if w <= sp.Len {
				continue
			}
			if enc, ok := rw.CompactSizeWide(sp.Val, w); ok {
				if !splice(enc) {
					return
				}
			}
		}
		for _, v := range claims {
			if v == sp.Val {
				continue
			}
			if !splice(rw.CompactSize(v)) {
				return
			}
		}
	}
	if !emit(append(append([]byte(nil), seed...), 0x00)) {
		return
	}
	if !pairs {
		return
	}
	for _, i := range countBytes {
		for v := 0; v < 256; v++ {
			if seed[i] == byte(v) {
				continue
			}
			copy(buf, seed)
			buf[i] = byte(v)
			if !emit(buf) {
				return
			}
		}
	}
	for a := 0; a < len(countBytes); a++ {
		for b := a + 1; b < len(countBytes); b++ {
			i, j := countBytes[a], countBytes[b]
			for _, x := range subst8 {
				for _, y := range subst8 {
					if seed[i] == x || seed[j] == y {
						continue
					}
					copy(buf, seed)
					buf[i], buf[j] = x, y
					if !emit(buf) {
						return
					}
				}
			}
		}
	}
}

// ---------------------------------------------------------------------------
// running one case

type dres struct {
	err      error
	panicked string
	consumed int
	value    interface{}
	locs     []wire.TxLoc
	payload  []byte
	moved    int // frame: how far the reader really moved
}

// decodeOnce calls the decoder under test.  Nothing but the decoder call (and
// the allocation of its receiver / reader) happens here: the caller measures
// TotalAlloc around it.
func decodeOnce(dec string, c rw.Ctx, in []byte) (res dres) {
	defer func() {
		if p := recover(); p != nil {
			res.panicked = fmt.Sprint(p)
		}
	}()
	switch {
	case strings.HasPrefix(dec, "msg:"):
		cmd := dec[4:]
		m := emptyMessage(cmd)
		buf := bytes.NewBuffer(in)
		if c.Pver == 0 && cmd == "tx" {
			t := m.(*wire.MsgTx)
			if c.Witness {
				res.err = t.Deserialize(buf)
			} else {
				res.err = t.DeserializeNoWitness(buf)
			}
		} else if c.Pver == 0 && cmd == "block" {
			b := m.(*wire.MsgBlock)
			if c.Witness {
				res.err = b.Deserialize(buf)
			} else {
				res.err = b.DeserializeNoWitness(buf)
			}
		} else {
			res.err = m.BtcDecode(buf, c.Pver, wireEnc(c))
		}
		res.consumed = len(in) - buf.Len()
		res.value = m
	case dec == "txloc":
		var b wire.MsgBlock
		buf := bytes.NewBuffer(in)
		res.locs, res.err = b.DeserializeTxLoc(buf)
		res.consumed = len(in) - buf.Len()
		res.value = &b
	case dec == "header":
		var h wire.BlockHeader
		rd := bytes.NewReader(in)
		res.err = h.Deserialize(rd)
		res.consumed = len(in) - rd.Len()
		res.value = &h
	case dec == "btcutil.tx":
		t, err := btcutil.NewTxFromBytes(in)
		res.err, res.value, res.consumed = err, t, len(in)
	case dec == "btcutil.block":
		b, err := btcutil.NewBlockFromBytes(in)
		res.err, res.value, res.consumed = err, b, len(in)
	case dec == "frame":
		rd := bytes.NewReader(in)
		n, m, pl, err := wire.ReadMessageWithEncodingN(rd, c.Pver, wire.MainNet, wireEnc(c))
		res.err, res.value, res.payload, res.consumed = err, m, pl, n
		res.moved = len(in) - rd.Len()
	case dec == "framev2":
		// exact capacity: a read past len(in) panics instead of silently
		// seeing bytes of the caller's buffer
		p := make([]byte, len(in))
		copy(p, in)
		m, pl, err := wire.ReadV2MessageN(p[:len(p):len(p)], c.Pver, wireEnc(c))
		res.err, res.value, res.payload, res.consumed = err, m, pl, len(in)
	case dec == "framev2-sub":
		// a prefix of a larger buffer whose tail holds foreign bytes
		p := make([]byte, len(in)+64)
		copy(p, in)
		for i := len(in); i < len(p); i++ {
			p[i] = 0x61 + byte(i%7)
		}
		m, pl, err := wire.ReadV2MessageN(p[:len(in)], c.Pver, wireEnc(c))
		res.err, res.value, res.payload, res.consumed = err, m, pl, len(in)
	case dec == "varint":
		rd := bytes.NewReader(in)
		v, err := wire.ReadVarInt(rd, c.Pver)
		res.err, res.value, res.consumed = err, v, len(in)-rd.Len()
	case dec == "varstring":
		rd := bytes.NewReader(in)
		v, err := wire.ReadVarString(rd, c.Pver)
		res.err, res.value, res.consumed = err, v, len(in)-rd.Len()
	case dec == "varbytes":
		rd := bytes.NewReader(in)
		v, err := wire.ReadVarBytes(rd, c.Pver, wire.MaxMessagePayload, "hostile")
		res.err, res.value, res.consumed = err, v, len(in)-rd.Len()
	default:
		panic("unknown decoder " + dec)
	}
	return
}

func totalAlloc() uint64 {
	var ms runtime.MemStats
	runtime.ReadMemStats(&ms)
	return ms.TotalAlloc
}

func isEOF(err error) bool {
	return err == io.EOF || err == io.ErrUnexpectedEOF
}

// caseResult is what one hostile case yields.
type caseResult struct {
	fs       []finding
	accepted bool
	eof      bool
	alloc    uint64
}

// evalCase runs one hostile case: decode with allocation measurement, then the
// oracle.  Must run in a process without other allocating goroutines.
func evalCase(dec string, c rw.Ctx, in []byte) (cr caseResult) {
	before := totalAlloc()
	res := decodeOnce(dec, c, in)
	after := totalAlloc()
	cr.alloc = after - before
	bad := func(kind, format string, a ...interface{}) {
		cr.fs = append(cr.fs, finding{kind, fmt.Sprintf(format, a...)})
	}
	if res.panicked != "" {
		bad("panic", "decoder panicked: %s", res.panicked)
		return
	}
	if cr.alloc > allocBound {
		bad("alloc", "decoding a %d byte input allocated %d bytes = %.2f x MaxMessagePayload (bound %d x)", len(in), cr.alloc, float64(cr.alloc)/float64(wire.MaxMessagePayload), allocFactor)
	}
	if res.err != nil {
		cr.eof = isEOF(res.err)
		return
	}
	cr.accepted = true
	func() {
		defer func() {
			if p := recover(); p != nil {
				bad("panic-after-accept", "panic while re-encoding / inspecting the accepted value: %v", p)
			}
		}()
		cr.fs = append(cr.fs, canon(dec, c, in, &res)...)
	}()
	return
}

// canon is the oracle for accepted inputs: re-encoding the decoded value
// yields exactly the consumed bytes, modulo the documented exemptions.
func canon(dec string, c rw.Ctx, in []byte, res *dres) (fs []finding) {
	bad := func(kind, format string, a ...interface{}) {
		fs = append(fs, finding{kind, fmt.Sprintf(format, a...)})
	}
	if res.consumed < 0 || res.consumed > len(in) || (dec == "frame" && res.moved != res.consumed) {
		bad("consumed", "reported %d bytes read but the reader moved by %d (input %d bytes)", res.consumed, res.moved, len(in))
		return
	}
	used := in[:res.consumed]
	switch {
	case strings.HasPrefix(dec, "msg:"):
		return canonMsg(dec[4:], c, used, res.value.(wire.Message))
	case dec == "txloc":
		b := res.value.(*wire.MsgBlock)
		fs = canonMsg("block", rw.Ctx{Witness: true}, used, b)
		off := 80 + len(rw.CompactSize(uint64(len(b.Transactions))))
		if len(res.locs) != len(b.Transactions) {
			bad("txloc", "%d locations for %d transactions", len(res.locs), len(b.Transactions))
			return
		}
		for i, l := range res.locs {
			e := rw.EncodeTxBytes(txFromWire(b.Transactions[i]), true)
			if l.TxStart != off || l.TxLen != len(e) || l.TxStart+l.TxLen > len(used) || !bytes.Equal(used[l.TxStart:l.TxStart+l.TxLen], e) {
				bad("txloc", "tx %d reported at (%d,%d), its serialisation is %d bytes at %d", i, l.TxStart, l.TxLen, len(e), off)
				return
			}
			off += len(e)
		}
	case dec == "header":
		h := res.value.(*wire.BlockHeader)
		re := rw.EncodeBytes(rw.HeaderFields, headerFromWire(h), c)
		if !bytes.Equal(re, used) {
			bad("noncanonical-accept", "header re-encodes differently: %s", firstDiff(re, used))
		}
		if hh := h.BlockHash(); hh != rw.DSha256(used) {
			bad("BlockHash", "BlockHash of decoded header is not the hash of the consumed bytes")
		}
	case dec == "btcutil.tx":
		t := res.value.(*btcutil.Tx)
		fs = canonMsg("tx", rw.Ctx{Witness: true}, used, t.MsgTx())
		tr := txFromWire(t.MsgTx())
		if want := rw.TxID(tr); *t.Hash() != want {
			bad("btcutil.Tx.Hash", "%x want %x", t.Hash()[:], want[:])
		}
		if want := rw.DSha256(used); *t.WitnessHash() != want {
			bad("btcutil.Tx.WitnessHash", "%x want %x", t.WitnessHash()[:], want[:])
		}
	case dec == "btcutil.block":
		b := res.value.(*btcutil.Block)
		fs = canonMsg("block", rw.Ctx{Witness: true}, used, b.MsgBlock())
		if got, err := b.Bytes(); err != nil || !bytes.Equal(got, used) {
			bad("btcutil.Block.Bytes", "err=%v", err)
		}
		if len(used) >= 80 {
			if want := rw.DSha256(used[:80]); *b.Hash() != want {
				bad("btcutil.Block.Hash", "%x want %x", b.Hash()[:], want[:])
			}
		}
		for i, ut := range b.Transactions() {
			tr := txFromWire(b.MsgBlock().Transactions[i])
			if want := rw.TxID(tr); *ut.Hash() != want {
				bad("btcutil.Block.Tx.Hash", "tx %d: %x want %x", i, ut.Hash()[:], want[:])
			}
			if want := rw.WTxID(tr); *ut.WitnessHash() != want {
				bad("btcutil.Block.Tx.WitnessHash", "tx %d: %x want %x", i, ut.WitnessHash()[:], want[:])
			}
		}
	case dec == "frame":
		m := res.value.(wire.Message)
		if res.consumed != 24+len(res.payload) {
			bad("frame-n", "read %d bytes, payload %d", res.consumed, len(res.payload))
			return
		}
		want := rw.Frame(uint32(wire.MainNet), m.Command(), res.payload)
		if !bytes.Equal(want, used) {
			bad("noncanonical-accept", "accepted frame is not magic|command|length|checksum|payload of the returned message: %s", firstDiff(want, used))
			return
		}
		fs = append(fs, canonMsg(m.Command(), c, res.payload, m)...)
		var buf bytes.Buffer
		n, err := wire.WriteMessageWithEncodingN(&buf, m, c.Pver, wire.MainNet, wireEnc(c))
		if err != nil {
			if !reencodeExempt(m, c) {
				bad("reframe-error", "WriteMessageWithEncodingN cannot re-send an accepted message: %v", err)
			}
		} else if strictCanon(m.Command(), c, res.payload, m) && (n != len(used) || !bytes.Equal(buf.Bytes(), used)) {
			// only demanded where no exemption of canonMsg applies
			bad("reframe", "re-framing the accepted message: %s", firstDiff(buf.Bytes(), used))
		}
	case strings.HasPrefix(dec, "framev2"):
		m := res.value.(wire.Message)
		cmd := m.Command()
		hl := 1
		if len(used) == 0 {
			bad("v2-header", "accepted an empty plaintext")
			return
		}
		if used[0] == 0 {
			hl = 13
			if len(used) < 13 {
				bad("v2-header", "accepted a %d byte plaintext in the 13 byte long form", len(used))
				return
			}
			if got := string(bytes.TrimRight(used[1:13], "\x00")); got != cmd {
				bad("v2-header", "long form command %q decoded as %q", got, cmd)
				return
			}
		} else if id, ok := rw.V2ShortID[cmd]; !ok || id != used[0] {
			bad("v2-header", "short id %d decoded as %q (BIP324 assigns %d, known=%v)", used[0], cmd, id, ok)
			return
		}
		if !bytes.Equal(res.payload, used[hl:]) {
			bad("v2-payload", "returned payload is not the plaintext behind the message type: %s", firstDiff(res.payload, used[hl:]))
			return
		}
		fs = append(fs, canonMsg(cmd, c, res.payload, m)...)
		if strictCanon(cmd, c, res.payload, m) && bytes.Equal(used, rw.FrameV2(cmd, res.payload)) {
			var buf bytes.Buffer
			n, err := wire.WriteV2MessageN(&buf, m, c.Pver, wireEnc(c))
			if err != nil {
				if !reencodeExempt(m, c) {
					bad("reframe-error", "WriteV2MessageN cannot re-send an accepted message: %v", err)
				}
			} else if n != len(used) || !bytes.Equal(buf.Bytes(), used) {
				bad("reframe", "re-framing the accepted v2 message: %s", firstDiff(buf.Bytes(), used))
			}
		}
	case dec == "varint":
		if re := rw.CompactSize(res.value.(uint64)); !bytes.Equal(re, used) {
			bad("noncanonical-accept", "ReadVarInt accepted %x for %d whose encoding is %x", used, res.value.(uint64), re)
		}
	case dec == "varstring":
		s := res.value.(string)
		re := append(rw.CompactSize(uint64(len(s))), s...)
		if !bytes.Equal(re, used) {
			bad("noncanonical-accept", "ReadVarString: %s", firstDiff(re, used))
		}
	case dec == "varbytes":
		s := res.value.([]byte)
		re := append(rw.CompactSize(uint64(len(s))), s...)
		if !bytes.Equal(re, used) {
			bad("noncanonical-accept", "ReadVarBytes: %s", firstDiff(re, used))
		}
	}
	return
}

// reencodeExempt: accepted values btcd's own encoder refuses although the
// decoder took them.  Only one such asymmetry exists: an addr message with
// more than one entry below protocol version 209 (the decoder does not look
// at the version, the encoder enforces the historical single-address rule).
func reencodeExempt(m wire.Message, c rw.Ctx) bool {
	if a, ok := m.(*wire.MsgAddr); ok && c.Pver < rw.VerMultiAddr && len(a.AddrList) > 1 {
		return true
	}
	return false
}

// strictCanon: the payload is byte-for-byte the reference encoding of the
// decoded value (no exemption in play).
func strictCanon(cmd string, c rw.Ctx, payload []byte, m wire.Message) bool {
	got, err := fromWire(m)
	if err != nil {
		return false
	}
	re := rw.EncodeBytes(rw.ByCmd(cmd).Fields, got, c)
	return bytes.Equal(re, payload)
}

// canonMsg: canonicity of one accepted message payload.
//
// Exemptions (information the protocol legitimately does not preserve):
//   - version: the decoder accepts payloads that end after addr_recv,
//     addr_from, nonce, user_agent or start_height (old peers); missing fields
//     take defaults, so only the consumed prefix is demanded.  The relay byte
//     is a bool: any non-zero byte means true and re-encodes as 0x01.  Below
//     BIP37 (70001) a trailing relay byte is consumed but is not part of that
//     version's layout.
//   - addrv2: entries with unknown network ids, I2P/CJDNS, and IPv4-mapped /
//     OnionCat IPv6 are dropped (BIP155); the re-encoding must equal the input
//     with exactly those entries removed.
//   - addr below version 209 with more than one entry: btcd's encoder refuses
//     it (see reencodeExempt); the reference re-encoding is still demanded.
func canonMsg(cmd string, c rw.Ctx, used []byte, m wire.Message) (fs []finding) {
	bad := func(kind, format string, a ...interface{}) {
		fs = append(fs, finding{kind, fmt.Sprintf(format, a...)})
	}
	lay := rw.ByCmd(cmd)
	got, ferr := fromWire(m)
	if ferr != nil {
		bad("decoded-value", "accepted value cannot be interpreted: %v", ferr)
		return
	}
	refRe := rw.EncodeBytes(lay.Fields, got, c)
	switch {
	case cmd == "version":
		if why := versionCanon(used, refRe, c); why != "" {
			bad("noncanonical-accept", "version: %s; consumed %s re-encoding %s", why, short(used), short(refRe))
		}
	case cmd == "addrv2" && addrV2Claimed(used) != uint64(len(got.L("addr_list"))):
		rec, n, err := rw.Decode(lay.Fields, used, c)
		if err != nil || n != len(used) {
			bad("noncanonical-accept", "addrv2: the reference parser cannot split the accepted payload (err=%v, %d of %d bytes)", err, n, len(used))
			return
		}
		kept := []Rec{}
		for _, e := range rec.L("addr_list") {
			if !rw.AddrV2Ignorable(e.U("network_id"), e.B("addr")) {
				kept = append(kept, e)
			}
		}
		if diff := rw.EqualOnWire(lay.Fields, Rec{"addr_list": kept}, got, c); diff != "" {
			bad("addrv2-skip", "entries kept by the decoder differ from the input minus ignorable entries at %s", diff)
		}
	default:
		if !bytes.Equal(refRe, used) {
			bad("noncanonical-accept", "%s: decoded value re-encodes to different bytes: %s", cmd, firstDiff(refRe, used))
		}
	}
	reB, err, pn := implEncode(m, c)
	switch {
	case pn != "":
		bad("panic-encode", "BtcEncode of an accepted value panicked: %s", pn)
	case err != nil:
		if !reencodeExempt(m, c) {
			bad("reencode-error", "%s: BtcEncode refuses a value BtcDecode accepted: %v", cmd, err)
		}
	case !bytes.Equal(reB, refRe):
		bad("reencode-layout", "%s: BtcEncode of the accepted value differs from the reference layout: %s", cmd, firstDiff(reB, refRe))
	}
	switch v := m.(type) {
	case *wire.MsgTx:
		if got := v.SerializeSize(); c.Witness && got != len(used) {
			bad("SerializeSize", "accepted tx: SerializeSize %d, consumed %d", got, len(used))
		}
		if got := v.SerializeSizeStripped(); !c.Witness && got != len(used) {
			bad("SerializeSizeStripped", "accepted tx: SerializeSizeStripped %d, consumed %d", got, len(used))
		}
	case *wire.MsgBlock:
		if got := v.SerializeSize(); c.Witness && got != len(used) {
			bad("Block.SerializeSize", "accepted block: SerializeSize %d, consumed %d", got, len(used))
		}
		if got := v.SerializeSizeStripped(); !c.Witness && got != len(used) {
			bad("Block.SerializeSizeStripped", "accepted block: SerializeSizeStripped %d, consumed %d", got, len(used))
		}
	}
	return
}

func addrV2Claimed(b []byte) uint64 {
	r, _, err := rw.Decode([]rw.F{{Name: "n", K: rw.KCompact}}, b, rw.Ctx{})
	if err != nil {
		return ^uint64(0)
	}
	return r.U("n")
}

func versionCanon(used, refRe []byte, c rw.Ctx) string {
	n, full := len(used), len(refRe)
	relay := c.Pver >= rw.VerBIP37
	switch {
	case n == full && !relay:
		if !bytes.Equal(used, refRe) {
			return firstDiff(refRe, used)
		}
	case n == full && relay:
		if !bytes.Equal(used[:n-1], refRe[:n-1]) {
			return firstDiff(refRe, used)
		}
		if (used[n-1] != 0) != (refRe[n-1] == 1) {
			return "relay flag changed"
		}
	case n == full+1 && !relay:
		if !bytes.Equal(used[:full], refRe) {
			return firstDiff(refRe, used[:full])
		}
	case n < full:
		if !bytes.Equal(used, refRe[:n]) {
			return firstDiff(refRe[:n], used)
		}
	default:
		return fmt.Sprintf("consumed %d bytes but the value encodes to %d", n, full)
	}
	return ""
}
