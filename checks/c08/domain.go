package main

// Value domains for part (a): for every message type a product of small
// per-field domains (simplest first) plus boundary counts / lengths.

import (
	rw "verif/ref/refwire"
)

// valCase is one message value.
type valCase struct {
	cmd   string
	v     Rec
	gen   func() Rec // big values are built when they are run
	di    int        // index in domain(cmd)
	label string
	// lenient: the value is outside a limit that btcd (not the protocol
	// documents) imposes, so btcd may refuse to encode or decode it; if it
	// does not refuse, every other demand still applies.
	lenient bool
	// big values are only run in a reduced set of contexts.
	big bool
	// small values double as seeds of the hostile neighbourhoods.
	seed bool
}

var (
	h0 = make([]byte, 32)
	h1 = pattern(32, 1, 1)
	hf = fill(32, 0xff)
)

func pattern(n int, start, step byte) []byte {
	b := make([]byte, n)
	v := start
	for i := range b {
		b[i] = v
		v += step
	}
	return b
}

func fill(n int, v byte) []byte {
	b := make([]byte, n)
	for i := range b {
		b[i] = v
	}
	return b
}

var hashDom = [][]byte{h0, h1, hf}

func hashN(n int) [][]byte {
	out := make([][]byte, n)
	for i := range out {
		out[i] = pattern(32, byte(i), byte(i>>8)+1)
	}
	return out
}

// ----- net addresses

var ip4mapped = append(append(make([]byte, 10), 0xff, 0xff), 127, 0, 0, 1)
var ip6 = pattern(16, 0x20, 1)

func naRec(time, services uint64, ip []byte, port uint64) Rec {
	return Rec{"time": time, "services": services, "ip": ip, "port": port}
}

var naDom = []Rec{
	naRec(0, 0, make([]byte, 16), 0),
	naRec(0xffffffff, 0xffffffffffffffff, fill(16, 0xff), 0xffff),
	naRec(0x495fab29, 1, ip4mapped, 8333),
	naRec(0x80000000, 0x409, ip6, 0x0100),
	naRec(0x495fab2a, 0x409, ip4mapped, 8334), // even port: 16-byte Go form (see naToWire)
}

// ----- block headers

func hdrRec(ver uint64, prev, merkle []byte, ts, bits, nonce uint64) Rec {
	return Rec{"version": ver, "prev_block": prev, "merkle_root": merkle, "timestamp": ts, "bits": bits, "nonce": nonce}
}

var hdrDom = []Rec{
	hdrRec(1, h0, h1, 0x495fab29, 0x1d00ffff, 0x7c2bac1d),
	hdrRec(0, h0, h0, 0, 0, 0),
	hdrRec(0xffffffff, hf, hf, 0xffffffff, 0xffffffff, 0xffffffff),
	hdrRec(0x20000000, h1, hf, 0x80000000, 0x207fffff, 1),
}

// ----- transactions

func txin(hash []byte, idx uint64, script []byte, seq uint64, wit [][]byte) Rec {
	return Rec{"prev_hash": hash, "prev_index": idx, "script": script, "sequence": seq, "witness": wit}
}

func txout(val uint64, pk []byte) Rec { return Rec{"value": val, "pk_script": pk} }

func txRec(ver uint64, vin, vout []Rec, lock uint64) Rec {
	if vin == nil {
		vin = []Rec{}
	}
	if vout == nil {
		vout = []Rec{}
	}
	return Rec{"version": ver, "vin": vin, "vout": vout, "lock_time": lock}
}

type inShape struct {
	hash   []byte
	idx    uint64
	script []byte
	seq    uint64
}

var inShapes = []inShape{
	{h0, 0, nil, 0xffffffff},
	{h1, 0xffffffff, []byte{0x51}, 0},
	{hf, 1, pattern(0xfc, 0, 1), 0xfffffffe},
	{h1, 0x80000000, pattern(0xfd, 7, 3), 0x80000000},
}

func items(n, l int) [][]byte {
	out := make([][]byte, n)
	for i := range out {
		out[i] = pattern(l, byte(i+1), 1)
	}
	return out
}

var witShapes = [][][]byte{
	nil,
	{{}},
	{{0x01}},
	{pattern(0xfc, 1, 1)},
	{pattern(0xfd, 2, 1)},
	{{}, {0xaa, 0xbb}, {}},
}

var outShapes = []Rec{
	txout(0, nil),
	txout(0xffffffffffffffff, []byte{0x6a}),
	txout(0x7fffffffffffffff, pattern(0xfc, 3, 1)),
	txout(0x8000000000000000, pattern(0xfd, 4, 1)),
}

var verLock = [][2]uint64{{1, 0}, {2, 0xffffffff}, {0xffffffff, 1}, {0, 0x80000000}}

func mkIn(s, w int) Rec {
	sh := inShapes[s]
	return txin(sh.hash, sh.idx, sh.script, sh.seq, witShapes[w])
}

// txDomain enumerates transaction records.  full selects the thorough size.
func txDomain(full bool) []Rec {
	var out []Rec
	var inLists [][]Rec
	inLists = append(inLists, []Rec{})
	for s := range inShapes {
		for w := range witShapes {
			inLists = append(inLists, []Rec{mkIn(s, w)})
		}
	}
	// two inputs: all shape pairs over a reduced witness set, all witness
	// pairs over a reduced shape set
	ws2 := []int{0, 1, 2, 5}
	for s1 := range inShapes {
		for s2 := range inShapes {
			for _, w1 := range ws2 {
				for _, w2 := range ws2 {
					if !full && s1 > 1 && s2 > 1 {
						continue
					}
					inLists = append(inLists, []Rec{mkIn(s1, w1), mkIn(s2, w2)})
				}
			}
		}
	}
	for w1 := range witShapes {
		for w2 := range witShapes {
			inLists = append(inLists, []Rec{mkIn(0, w1), mkIn(1, w2)})
		}
	}
	// three inputs: witness presence pattern over minimal shapes
	for m := 0; m < 27; m++ {
		ws := []int{0, 1, 2}
		inLists = append(inLists, []Rec{mkIn(0, ws[m%3]), mkIn(1, ws[(m/3)%3]), mkIn(0, ws[(m/9)%3])})
	}
	var outLists [][]Rec
	outLists = append(outLists, []Rec{})
	for o := range outShapes {
		outLists = append(outLists, []Rec{outShapes[o]})
	}
	for o1 := range outShapes {
		for o2 := range outShapes {
			if !full && o1 > 1 && o2 > 1 {
				continue
			}
			outLists = append(outLists, []Rec{outShapes[o1], outShapes[o2]})
		}
	}
	vls := verLock
	if !full {
		vls = verLock[:2]
	}
	for _, vl := range vls {
		for _, il := range inLists {
			for _, ol := range outLists {
				out = append(out, txRec(vl[0], il, ol, vl[1]))
			}
		}
	}
	return out
}

func nIns(n int, lastWit [][]byte) []Rec {
	l := make([]Rec, n)
	for i := range l {
		l[i] = txin(h0, uint64(i), nil, 0xffffffff, nil)
	}
	if n > 0 && lastWit != nil {
		l[n-1] = txin(h0, uint64(n-1), nil, 0xffffffff, lastWit)
	}
	return l
}

func nOuts(n int) []Rec {
	l := make([]Rec, n)
	for i := range l {
		l[i] = txout(uint64(i), nil)
	}
	return l
}

// txBoundary: counts and lengths at the CompactSize boundaries (generators,
// the values are large).
func txBoundary(full bool) []func() Rec {
	var out []func() Rec
	for _, n := range []int{0xfc, 0xfd, 0xffff, 0x10000} {
		n := n
		out = append(out,
			func() Rec { return txRec(1, nIns(n, nil), nOuts(1), 0) },
			func() Rec { return txRec(1, nIns(1, nil), nOuts(n), 0) },
			func() Rec { return txRec(2, nIns(1, items(n, 0)), nOuts(1), 0) })
		if full || n < 0xffff {
			out = append(out,
				func() Rec { return txRec(1, nIns(n, [][]byte{{1}}), nOuts(1), 0) },
				func() Rec { return txRec(2, nIns(2, items(n, 1)), nOuts(0), 7) })
		}
	}
	for _, l := range []int{0xffff, 0x10000} {
		l := l
		out = append(out,
			func() Rec { return txRec(1, []Rec{txin(h1, 0, pattern(l, 0, 1), 0, nil)}, nOuts(1), 0) },
			func() Rec { return txRec(1, nIns(1, nil), []Rec{txout(1, pattern(l, 0, 1))}, 0) },
			func() Rec { return txRec(1, nIns(1, [][]byte{pattern(l, 0, 1)}), nOuts(1), 0) })
	}
	return out
}

// a few small transactions used inside blocks and as hostile seeds
func smallTxs() []Rec {
	return []Rec{
		txRec(1, nIns(1, nil), nOuts(1), 0),
		txRec(2, []Rec{mkIn(1, 2)}, []Rec{outShapes[1]}, 0xffffffff),
		txRec(1, []Rec{mkIn(0, 0), mkIn(1, 5)}, []Rec{outShapes[0], outShapes[1]}, 5),
		txRec(1, []Rec{}, []Rec{}, 0),
		txRec(1, []Rec{}, []Rec{outShapes[1]}, 0),
		txRec(2, []Rec{mkIn(1, 1), mkIn(0, 0), mkIn(0, 2)}, []Rec{outShapes[1]}, 9),
	}
}

// ----- the per message domains

func invList(n int, types []uint64) []Rec {
	l := make([]Rec, n)
	for i := range l {
		l[i] = Rec{"type": types[i%len(types)], "hash": pattern(32, byte(i), byte(i>>8)+1)}
	}
	return l
}

var invTypes = []uint64{1, 2, 3, 0x40000001, 0x40000002, 0x40000003, 0, 4, 0xffffffff}

func addrV2Rec(time, services uint64, id uint64, addr []byte, port uint64) Rec {
	return Rec{"time": time, "services": services, "network_id": id, "addr": addr, "port": port}
}

var compactDom = []uint64{0, 1, 0xfc, 0xfd, 0xffff, 0x10000, 0xffffffff, 0x100000000, 0xffffffffffffffff}

// domain returns the value cases of one message type.
func domain(cmd string, full, withBig bool) []valCase {
	var out []valCase
	add := func(label string, v Rec) { out = append(out, valCase{cmd: cmd, v: v, label: label}) }
	addSeed := func(label string, v Rec) { out = append(out, valCase{cmd: cmd, v: v, label: label, seed: true}) }
	addLenient := func(label string, v Rec) { out = append(out, valCase{cmd: cmd, v: v, label: label, lenient: true}) }
	addBig := func(label string, gen func() Rec, lenient bool) {
		if withBig {
			out = append(out, valCase{cmd: cmd, gen: gen, label: label, lenient: lenient, big: true})
		}
	}
	u32 := []uint64{0, 1, 0x7fffffff, 0x80000000, 0xffffffff}
	u64 := []uint64{0, 1, 0x7fffffffffffffff, 0x8000000000000000, 0xffffffffffffffff}
	lens := []int{0, 1, 2, 0xfc, 0xfd}

	switch cmd {
	case "verack", "getaddr", "mempool", "filterclear", "sendheaders", "sendaddrv2", "wtxidrelay":
		addSeed("empty", Rec{})

	case "version":
		mk := func(ver, svc, ts uint64, ar, af Rec, nonce uint64, ua []byte, h, relay uint64) Rec {
			return Rec{"version": ver, "services": svc, "timestamp": ts, "addr_recv": ar, "addr_from": af,
				"nonce": nonce, "user_agent": ua, "start_height": h, "relay": relay}
		}
		base := mk(70016, 0x409, 0x495fab29, naDom[2], naDom[0], 0x1122334455667788, []byte("/btcwire:0.5.0/"), 700000, 1)
		addSeed("base", base)
		addSeed("minimal", mk(0, 0, 0, naDom[0], naDom[0], 0, nil, 0, 0))
		uas := [][]byte{nil, []byte("/btcwire:0.5.0/"), pattern(256, 0x20, 1)}
		for _, ver := range []uint64{0, 70016, 0xffffffff} {
			for _, svc := range []uint64{0, 0x409, 0xffffffffffffffff} {
				for _, ts := range []uint64{0, 0xffffffff, 0xffffffffffffffff} {
					for _, ar := range naDom[:3] {
						for _, af := range []Rec{naDom[0], naDom[3]} {
							for _, nonce := range []uint64{0, 0xffffffffffffffff} {
								for _, ua := range uas {
									for _, h := range []uint64{0, 0xffffffff} {
										for relay := uint64(0); relay < 2; relay++ {
											add("product", mk(ver, svc, ts, ar, af, nonce, ua, h, relay))
										}
									}
								}
							}
						}
					}
				}
			}
		}
		with := func(k string, v interface{}) Rec {
			r := Rec{}
			for kk, vv := range base {
				r[kk] = vv
			}
			r[k] = v
			return r
		}
		for b := uint(0); b < 64; b++ {
			add("service-bit", with("services", uint64(1)<<b))
		}
		for _, ts := range []uint64{1, 0x7fffffff, 0x80000000, 0x100000000, 0x7fffffffffffffff, 0x8000000000000000} {
			add("timestamp", with("timestamp", ts))
		}
		for _, v := range u32 {
			add("version-field", with("version", v))
			add("height", with("start_height", v))
		}
		for _, v := range u64 {
			add("nonce", with("nonce", v))
		}
		for _, n := range []int{1, 2, 0xfc, 0xfd, 255, 256} { // MaxUserAgentLen = 256
			add("ua-len", with("user_agent", pattern(n, 0x30, 1)))
		}
		addLenient("ua-len-max+1", with("user_agent", pattern(257, 0x30, 1)))
		for _, na := range naDom {
			add("addr_recv", with("addr_recv", na))
			add("addr_from", with("addr_from", na))
		}

	case "addr":
		for _, n := range []int{0, 1, 2, 3} {
			for rot := 0; rot < len(naDom); rot++ {
				l := make([]Rec, n)
				for i := range l {
					l[i] = naDom[(i+rot)%len(naDom)]
				}
				c := valCase{cmd: cmd, v: Rec{"addr_list": l}, label: "small", seed: rot < 2}
				out = append(out, c)
			}
		}
		for _, n := range []int{0xfc, 0xfd, 1000} { // MaxAddrPerMsg = 1000
			l := make([]Rec, n)
			for i := range l {
				l[i] = naRec(uint64(i), uint64(i)*3, pattern(16, byte(i), 1), uint64(i&0xffff))
			}
			addBig("count", func() Rec { return Rec{"addr_list": l} }, false)
		}
		{
			l := make([]Rec, 1001)
			for i := range l {
				l[i] = naDom[i%4]
			}
			addBig("count-max+1", func() Rec { return Rec{"addr_list": l} }, true)
		}

	case "addrv2":
		legal := []struct {
			id   uint64
			addr []byte
		}{{1, []byte{127, 0, 0, 1}}, {2, ip6}, {3, pattern(10, 0x61, 1)}, {4, pattern(32, 0x41, 1)},
			{1, []byte{0, 0, 0, 0}}, {2, fill(16, 0xff)}, {4, fill(32, 0)}}
		for _, a := range legal {
			for _, svc := range compactDom {
				for _, tp := range [][2]uint64{{0, 0}, {0xffffffff, 0xffff}, {0x495fab29, 8333}} {
					c := valCase{cmd: cmd, v: Rec{"addr_list": []Rec{addrV2Rec(tp[0], svc, a.id, a.addr, tp[1])}}, label: "one"}
					c.seed = svc == 0xfd && tp[1] == 8333
					out = append(out, c)
				}
			}
		}
		for _, n := range []int{0, 2, 3, 4} {
			l := make([]Rec, n)
			for i := range l {
				a := legal[i%4]
				l[i] = addrV2Rec(uint64(i), compactDom[i%len(compactDom)], a.id, a.addr, uint64(i))
			}
			c := valCase{cmd: cmd, v: Rec{"addr_list": l}, label: "small", seed: n != 3}
			out = append(out, c)
		}
		for _, n := range []int{0xfc, 0xfd, 1000} { // MaxV2AddrPerMsg = 1000
			l := make([]Rec, n)
			for i := range l {
				a := legal[i%4]
				l[i] = addrV2Rec(uint64(i), uint64(i), a.id, a.addr, uint64(i&0xffff))
			}
			addBig("count", func() Rec { return Rec{"addr_list": l} }, false)
		}
		{
			l := make([]Rec, 1001)
			for i := range l {
				l[i] = addrV2Rec(1, 1, 1, []byte{1, 2, 3, 4}, 1)
			}
			addBig("count-max+1", func() Rec { return Rec{"addr_list": l} }, true)
		}

	case "getblocks", "getheaders":
		for _, ver := range []uint64{0, 70016, 0xffffffff} {
			for _, n := range []int{0, 1, 2} {
				for _, stop := range hashDom {
					c := valCase{cmd: cmd, v: Rec{"version": ver, "locator": hashN(n), "hash_stop": stop}, label: "small"}
					c.seed = ver == 70016 && &stop[0] == &h1[0]
					out = append(out, c)
				}
			}
		}
		for _, n := range []int{0xfc, 0xfd, 500} { // MaxBlockLocatorsPerMsg = 500
			addBig("count", func() Rec { return Rec{"version": uint64(70016), "locator": hashN(n), "hash_stop": h0} }, false)
		}
		addBig("count-max+1", func() Rec { return Rec{"version": uint64(70016), "locator": hashN(501), "hash_stop": h0} }, true)

	case "inv", "getdata", "notfound":
		for _, n := range []int{0, 1, 2, 3} {
			for rot := 0; rot < len(invTypes); rot++ {
				ts := append(append([]uint64(nil), invTypes[rot:]...), invTypes[:rot]...)
				c := valCase{cmd: cmd, v: Rec{"inventory": invList(n, ts)}, label: "small", seed: rot < 2 && n < 3}
				out = append(out, c)
			}
		}
		for _, n := range []int{0xfc, 0xfd, 50000} { // MaxInvPerMsg = 50000
			addBig("count", func() Rec { return Rec{"inventory": invList(n, invTypes)} }, false)
		}
		addBig("count-max+1", func() Rec { return Rec{"inventory": invList(50001, invTypes)} }, true)

	case "headers":
		for _, n := range []int{0, 1, 2, 3} {
			for rot := 0; rot < len(hdrDom); rot++ {
				l := make([]Rec, n)
				for i := range l {
					l[i] = hdrDom[(i+rot)%len(hdrDom)]
				}
				c := valCase{cmd: cmd, v: Rec{"headers": l}, label: "small", seed: rot < 2 && n < 3}
				out = append(out, c)
			}
		}
		for _, n := range []int{0xfc, 0xfd, 2000} { // MaxBlockHeadersPerMsg = 2000
			l := make([]Rec, n)
			for i := range l {
				l[i] = hdrRec(uint64(i), hashN(1)[0], h1, uint64(i), 0x1d00ffff, uint64(i)*7)
			}
			addBig("count", func() Rec { return Rec{"headers": l} }, false)
		}
		{
			l := make([]Rec, 2001)
			for i := range l {
				l[i] = hdrDom[i%4]
			}
			addBig("count-max+1", func() Rec { return Rec{"headers": l} }, true)
		}

	case "ping", "pong":
		for _, v := range u64 {
			c := valCase{cmd: cmd, v: Rec{"nonce": v}, label: "nonce", seed: v == 1 || v == 0xffffffffffffffff}
			out = append(out, c)
		}
		addSeed("nonce", Rec{"nonce": uint64(0x1122334455667788)})

	case "filteradd":
		for _, n := range []int{0, 1, 2, 0xfc, 0xfd, 520} { // MaxFilterAddDataSize = 520
			c := valCase{cmd: cmd, v: Rec{"data": pattern(n, 1, 1)}, label: "len", seed: n <= 0xfd}
			out = append(out, c)
		}
		addLenient("len-max+1", Rec{"data": pattern(521, 1, 1)})

	case "filterload":
		for _, n := range []int{0, 1, 2, 0xfc, 0xfd, 36000} { // MaxFilterLoadFilterSize
			for _, hf := range []uint64{0, 1, 50} { // MaxFilterLoadHashFuncs = 50
				for _, tw := range []uint64{0, 0xffffffff} {
					for _, fl := range []uint64{0, 1, 2, 3, 0xff} {
						c := valCase{cmd: cmd, v: Rec{"filter": pattern(n, 9, 1), "n_hash_funcs": hf, "n_tweak": tw, "n_flags": fl}, label: "product"}
						c.seed = n <= 2 && hf == 1 && fl <= 1 || (n == 0xfd && hf == 50 && tw == 0 && fl == 2)
						out = append(out, c)
					}
				}
			}
		}
		addLenient("filter-max+1", Rec{"filter": pattern(36001, 9, 1), "n_hash_funcs": uint64(1), "n_tweak": uint64(0), "n_flags": uint64(0)})
		addLenient("hashfuncs-max+1", Rec{"filter": pattern(3, 9, 1), "n_hash_funcs": uint64(51), "n_tweak": uint64(0), "n_flags": uint64(0)})
		addLenient("hashfuncs-u32max", Rec{"filter": pattern(3, 9, 1), "n_hash_funcs": uint64(0xffffffff), "n_tweak": uint64(0), "n_flags": uint64(0)})

	case "merkleblock":
		for hi, h := range hdrDom {
			for _, total := range []uint64{0, 1, 0xffffffff} {
				for _, n := range []int{0, 1, 2} {
					for _, fl := range lens {
						c := valCase{cmd: cmd, v: Rec{"header": h, "total_transactions": total, "hashes": hashN(n), "flags": pattern(fl, 0x55, 1)}, label: "product"}
						c.seed = hi == 0 && total == 1 && fl <= 2
						out = append(out, c)
					}
				}
			}
		}
		for _, n := range []int{0xfc, 0xfd, 0xffff, 0x10000} {
			addBig("hashes", func() Rec {
				return Rec{"header": hdrDom[0], "total_transactions": uint64(n), "hashes": hashN(n), "flags": pattern(n/8+1, 0, 1)}
			}, false)
		}
		// maxTxPerBlock = 4000000/10+1 = 400001, maxFlagsPerMerkleBlock = 50000
		addBig("hashes-max", func() Rec {
			return Rec{"header": hdrDom[0], "total_transactions": uint64(400001), "hashes": hashN(400001), "flags": pattern(50000, 0, 1)}
		}, false)
		addBig("hashes-max+1", func() Rec {
			return Rec{"header": hdrDom[0], "total_transactions": uint64(400002), "hashes": hashN(400002), "flags": []byte{1}}
		}, true)
		addBig("flags-max+1", func() Rec {
			return Rec{"header": hdrDom[0], "total_transactions": uint64(1), "hashes": hashN(1), "flags": pattern(50001, 0, 1)}
		}, true)

	case "reject":
		cmds := [][]byte{nil, []byte("tx"), []byte("block"), []byte("version"), []byte("abcdefghijkl"), pattern(0xfd, 0x61, 0)}
		for _, m := range cmds {
			for _, code := range []uint64{0, 0x01, 0x10, 0x43, 0xff} {
				for _, rl := range lens {
					for hi, h := range hashDom {
						c := valCase{cmd: cmd, v: Rec{"message": m, "ccode": code, "reason": pattern(rl, 0x41, 1), "data": h}, label: "product"}
						c.seed = len(m) <= 7 && code == 0x10 && rl <= 2 && hi == 1
						out = append(out, c)
					}
				}
			}
		}
		for code := uint64(0); code < 256; code++ {
			add("ccode", Rec{"message": []byte("tx"), "ccode": code, "reason": []byte("r"), "data": h1})
		}
		for _, n := range []int{0xffff, 0x10000} {
			addBig("reason-len", func() Rec {
				return Rec{"message": []byte("block"), "ccode": uint64(1), "reason": pattern(n, 0, 1), "data": h1}
			}, false)
			addBig("message-len", func() Rec { return Rec{"message": pattern(n, 0x61, 0), "ccode": uint64(1), "reason": nil, "data": h0} }, false)
		}
		// ReadVarString accepts up to MaxMessagePayload = 32 MiB
		addBig("reason-len-max", func() Rec {
			return Rec{"message": []byte("x"), "ccode": uint64(1), "reason": make([]byte, 32<<20), "data": h0}
		}, false)
		addBig("reason-len-max+1", func() Rec {
			return Rec{"message": []byte("x"), "ccode": uint64(1), "reason": make([]byte, 32<<20+1), "data": h0}
		}, true)

	case "feefilter":
		for _, v := range u64 {
			c := valCase{cmd: cmd, v: Rec{"feerate": v}, label: "feerate", seed: v == 1}
			out = append(out, c)
		}
		addSeed("feerate", Rec{"feerate": uint64(1000)})

	case "getcfilters", "getcfheaders":
		for _, ft := range []uint64{0, 1, 0xff} {
			for _, sh := range u32 {
				for hi, h := range hashDom {
					c := valCase{cmd: cmd, v: Rec{"filter_type": ft, "start_height": sh, "stop_hash": h}, label: "product"}
					c.seed = ft == 0 && sh == 1 && hi == 1
					out = append(out, c)
				}
			}
		}

	case "getcfcheckpt":
		for _, ft := range []uint64{0, 1, 0xff} {
			for hi, h := range hashDom {
				c := valCase{cmd: cmd, v: Rec{"filter_type": ft, "stop_hash": h}, label: "product", seed: ft == 0 && hi == 1}
				out = append(out, c)
			}
		}

	case "cfilter":
		for _, ft := range []uint64{0, 1, 0xff} {
			for hi, h := range hashDom {
				for _, n := range lens {
					c := valCase{cmd: cmd, v: Rec{"filter_type": ft, "block_hash": h, "filter_bytes": pattern(n, 1, 1)}, label: "product"}
					c.seed = ft == 0 && hi == 1
					out = append(out, c)
				}
			}
		}
		for _, n := range []int{0xffff, 0x10000, 256 * 1024} { // MaxCFilterDataSize = 256 KiB
			addBig("len", func() Rec { return Rec{"filter_type": uint64(0), "block_hash": h1, "filter_bytes": pattern(n, 1, 1)} }, false)
		}
		addBig("len-max+1", func() Rec {
			return Rec{"filter_type": uint64(0), "block_hash": h1, "filter_bytes": pattern(256*1024+1, 1, 1)}
		}, true)

	case "cfheaders":
		for _, ft := range []uint64{0, 0xff} {
			for hi, h := range hashDom {
				for _, n := range []int{0, 1, 2} {
					c := valCase{cmd: cmd, v: Rec{"filter_type": ft, "stop_hash": h, "previous_filter_header": hashDom[(hi+1)%3], "filter_hashes": hashN(n)}, label: "product"}
					c.seed = ft == 0 && hi == 1
					out = append(out, c)
				}
			}
		}
		for _, n := range []int{0xfc, 0xfd, 2000} { // MaxCFHeadersPerMsg = 2000
			addBig("count", func() Rec {
				return Rec{"filter_type": uint64(0), "stop_hash": h1, "previous_filter_header": h0, "filter_hashes": hashN(n)}
			}, false)
		}
		addBig("count-max+1", func() Rec {
			return Rec{"filter_type": uint64(0), "stop_hash": h1, "previous_filter_header": h0, "filter_hashes": hashN(2001)}
		}, true)

	case "cfcheckpt":
		for _, ft := range []uint64{0, 0xff} {
			for hi, h := range hashDom {
				for _, n := range []int{0, 1, 2} {
					c := valCase{cmd: cmd, v: Rec{"filter_type": ft, "stop_hash": h, "filter_headers": hashN(n)}, label: "product", seed: ft == 0 && hi == 1}
					out = append(out, c)
				}
			}
		}
		for _, n := range []int{0xfc, 0xfd, 0xffff, 0x10000, 100000} { // maxCFHeadersLen = 100000
			addBig("count", func() Rec { return Rec{"filter_type": uint64(0), "stop_hash": h1, "filter_headers": hashN(n)} }, false)
		}
		addBig("count-max+1", func() Rec { return Rec{"filter_type": uint64(0), "stop_hash": h1, "filter_headers": hashN(100001)} }, true)

	case "tx":
		for i, t := range smallTxs() {
			c := valCase{cmd: cmd, v: Rec{"tx": t}, label: "small", seed: true}
			_ = i
			out = append(out, c)
		}
		for _, t := range txDomain(full) {
			add("product", Rec{"tx": t})
		}
		for _, g := range txBoundary(full) {
			g := g
			addBig("boundary", func() Rec { return Rec{"tx": g()} }, false)
		}

	case "block":
		stx := smallTxs()
		lists := [][]Rec{{}, {stx[0]}, {stx[1]}, {stx[0], stx[1]}, {stx[2], stx[0], stx[5]}, {stx[3]}, {stx[0], stx[4]}, {stx[1], stx[1], stx[1]}}
		for hi, h := range hdrDom {
			for li, l := range lists {
				c := valCase{cmd: cmd, v: Rec{"header": h, "txns": l}, label: "small", seed: hi == 0 && li < 6}
				out = append(out, c)
			}
		}
		for _, n := range []int{0xfc, 0xfd} {
			l := make([]Rec, n)
			for i := range l {
				l[i] = stx[i%3]
			}
			addBig("count", func() Rec { return Rec{"header": hdrDom[0], "txns": l} }, false)
		}
	}
	return out
}

var allCmds = func() []string {
	var l []string
	for _, m := range rw.Messages {
		l = append(l, m.Cmd)
	}
	return l
}()
