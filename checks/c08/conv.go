package main

// Conversions between btcd's wire types and refwire's generic records.  This
// is harness glue: it only moves field values across, it never computes a
// layout.

import (
	"encoding/base32"
	"fmt"
	"net"
	"strings"
	"time"

	"github.com/btcsuite/btcd/chainhash/v2"
	"github.com/btcsuite/btcd/wire/v2"

	rw "verif/ref/refwire"
)

type Rec = rw.Rec

func u(v uint64) uint64 { return v }

func hashOf(b []byte) chainhash.Hash {
	var h chainhash.Hash
	copy(h[:], b)
	return h
}

func hashPtrs(l [][]byte) []*chainhash.Hash {
	out := make([]*chainhash.Hash, len(l))
	backing := make([]chainhash.Hash, len(l))
	for i, b := range l {
		copy(backing[i][:], b)
		out[i] = &backing[i]
	}
	return out
}

func hashBytes(l []*chainhash.Hash) [][]byte {
	out := make([][]byte, len(l))
	for i, h := range l {
		out[i] = append([]byte(nil), h[:]...)
	}
	return out
}

func cp(b []byte) []byte { return append([]byte(nil), b...) }

// --- block header

func headerToWire(r Rec) wire.BlockHeader {
	return wire.BlockHeader{
		Version:    int32(uint32(r.U("version"))),
		PrevBlock:  hashOf(r.B("prev_block")),
		MerkleRoot: hashOf(r.B("merkle_root")),
		Timestamp:  time.Unix(int64(uint32(r.U("timestamp"))), 0),
		Bits:       uint32(r.U("bits")),
		Nonce:      uint32(r.U("nonce")),
	}
}

func headerFromWire(h *wire.BlockHeader) Rec {
	return Rec{
		"version":     uint64(uint32(h.Version)),
		"prev_block":  cp(h.PrevBlock[:]),
		"merkle_root": cp(h.MerkleRoot[:]),
		"timestamp":   uint64(uint32(h.Timestamp.Unix())),
		"bits":        uint64(h.Bits),
		"nonce":       uint64(h.Nonce),
	}
}

// --- transactions

func txToWire(r Rec) *wire.MsgTx {
	tx := &wire.MsgTx{Version: int32(uint32(r.U("version"))), LockTime: uint32(r.U("lock_time"))}
	for _, in := range r.L("vin") {
		ti := &wire.TxIn{
			PreviousOutPoint: wire.OutPoint{Hash: hashOf(in.B("prev_hash")), Index: uint32(in.U("prev_index"))},
			SignatureScript:  cp(in.B("script")),
			Sequence:         uint32(in.U("sequence")),
		}
		if w := in.BL("witness"); len(w) > 0 {
			ti.Witness = make(wire.TxWitness, len(w))
			for j := range w {
				ti.Witness[j] = cp(w[j])
			}
		}
		tx.TxIn = append(tx.TxIn, ti)
	}
	for _, out := range r.L("vout") {
		tx.TxOut = append(tx.TxOut, &wire.TxOut{Value: int64(out.U("value")), PkScript: cp(out.B("pk_script"))})
	}
	return tx
}

func txFromWire(tx *wire.MsgTx) Rec {
	vin := make([]Rec, 0, len(tx.TxIn))
	for _, ti := range tx.TxIn {
		var w [][]byte
		for _, it := range ti.Witness {
			w = append(w, cp(it))
		}
		vin = append(vin, Rec{
			"prev_hash":  cp(ti.PreviousOutPoint.Hash[:]),
			"prev_index": uint64(ti.PreviousOutPoint.Index),
			"script":     cp(ti.SignatureScript),
			"sequence":   uint64(ti.Sequence),
			"witness":    w,
		})
	}
	vout := make([]Rec, 0, len(tx.TxOut))
	for _, to := range tx.TxOut {
		vout = append(vout, Rec{"value": uint64(to.Value), "pk_script": cp(to.PkScript)})
	}
	return Rec{"version": uint64(uint32(tx.Version)), "vin": vin, "vout": vout, "lock_time": uint64(tx.LockTime)}
}

func blockToWire(r Rec) *wire.MsgBlock {
	b := &wire.MsgBlock{Header: headerToWire(r.R("header"))}
	for _, t := range r.L("txns") {
		b.Transactions = append(b.Transactions, txToWire(t))
	}
	return b
}

func blockFromWire(b *wire.MsgBlock) Rec {
	txns := make([]Rec, 0, len(b.Transactions))
	for _, t := range b.Transactions {
		txns = append(txns, txFromWire(t))
	}
	return Rec{"header": headerFromWire(&b.Header), "txns": txns}
}

// --- net addresses

// naToWire builds the Go value of an abstract address record.  One 16-byte
// wire field has several Go representations and all must encode alike: an
// IPv4-mapped address is given in Go's 4-byte form when the port is odd
// (net.IP{a,b,c,d}, To4(), the address of an IPv4 TCP connection) and in the
// 16-byte form otherwise; the all-zero address with no services is a nil IP.
func naToWire(r Rec, withTime bool) wire.NetAddress {
	ip := net.IP(cp(r.B("ip")))
	if len(ip) == 16 {
		v4 := ip[10] == 0xff && ip[11] == 0xff
		zero := true
		for i, b := range ip {
			if i < 10 && b != 0 {
				v4 = false
			}
			if b != 0 {
				zero = false
			}
		}
		switch {
		case v4 && r.U("port")%2 == 1:
			ip = net.IP{ip[12], ip[13], ip[14], ip[15]}
		case zero && r.U("services") == 0:
			ip = nil
		}
	}
	na := wire.NetAddress{
		Services: wire.ServiceFlag(r.U("services")),
		IP:       ip,
		Port:     uint16(r.U("port")),
	}
	if withTime {
		na.Timestamp = time.Unix(int64(uint32(r.U("time"))), 0)
	}
	return na
}

func naFromWire(na *wire.NetAddress) Rec {
	ip := make([]byte, 16)
	if na.IP != nil {
		copy(ip, na.IP.To16())
	}
	return Rec{
		"time":     uint64(uint32(na.Timestamp.Unix())),
		"services": uint64(na.Services),
		"ip":       ip,
		"port":     uint64(na.Port),
	}
}

// addrV2Parts recovers network id and raw address of a decoded BIP155 entry
// through the exported API only (the concrete address types are unexported).
func addrV2Parts(na *wire.NetAddressV2) (uint8, []byte, error) {
	if na.Addr == nil {
		return 0, nil, fmt.Errorf("nil Addr")
	}
	nw := na.Addr.Network()
	if len(nw) != 1 {
		return 0, nil, fmt.Errorf("unexpected Network() %q", nw)
	}
	id := nw[0]
	switch id {
	case 1, 2:
		l := na.ToLegacy()
		if l == nil {
			return 0, nil, fmt.Errorf("ToLegacy nil for id %d", id)
		}
		return id, cp(l.IP), nil
	case 3:
		l := na.ToLegacy()
		if l == nil || len(l.IP) != 16 {
			return 0, nil, fmt.Errorf("ToLegacy unusable for torv2")
		}
		return id, cp(l.IP[6:]), nil
	case 4:
		s := strings.TrimSuffix(na.Addr.String(), ".onion")
		raw, err := base32.StdEncoding.DecodeString(strings.ToUpper(s))
		if err != nil || len(raw) != 35 {
			return 0, nil, fmt.Errorf("cannot decode torv3 string %q", s)
		}
		return id, raw[:32], nil
	}
	return 0, nil, fmt.Errorf("unexpected network id %d", id)
}

// --- messages

// emptyMessage is the harness's own command -> type table.
func emptyMessage(cmd string) wire.Message {
	switch cmd {
	case "version":
		return &wire.MsgVersion{}
	case "verack":
		return &wire.MsgVerAck{}
	case "getaddr":
		return &wire.MsgGetAddr{}
	case "addr":
		return &wire.MsgAddr{}
	case "addrv2":
		return &wire.MsgAddrV2{}
	case "getblocks":
		return &wire.MsgGetBlocks{}
	case "inv":
		return &wire.MsgInv{}
	case "getdata":
		return &wire.MsgGetData{}
	case "notfound":
		return &wire.MsgNotFound{}
	case "block":
		return &wire.MsgBlock{}
	case "tx":
		return &wire.MsgTx{}
	case "getheaders":
		return &wire.MsgGetHeaders{}
	case "headers":
		return &wire.MsgHeaders{}
	case "ping":
		return &wire.MsgPing{}
	case "pong":
		return &wire.MsgPong{}
	case "mempool":
		return &wire.MsgMemPool{}
	case "filteradd":
		return &wire.MsgFilterAdd{}
	case "filterclear":
		return &wire.MsgFilterClear{}
	case "filterload":
		return &wire.MsgFilterLoad{}
	case "merkleblock":
		return &wire.MsgMerkleBlock{}
	case "reject":
		return &wire.MsgReject{}
	case "sendheaders":
		return &wire.MsgSendHeaders{}
	case "feefilter":
		return &wire.MsgFeeFilter{}
	case "getcfilters":
		return &wire.MsgGetCFilters{}
	case "getcfheaders":
		return &wire.MsgGetCFHeaders{}
	case "getcfcheckpt":
		return &wire.MsgGetCFCheckpt{}
	case "cfilter":
		return &wire.MsgCFilter{}
	case "cfheaders":
		return &wire.MsgCFHeaders{}
	case "cfcheckpt":
		return &wire.MsgCFCheckpt{}
	case "sendaddrv2":
		return &wire.MsgSendAddrV2{}
	case "wtxidrelay":
		return &wire.MsgWTxIdRelay{}
	}
	panic("emptyMessage: unknown command " + cmd)
}

func invToWire(r Rec) []*wire.InvVect {
	l := r.L("inventory")
	out := make([]*wire.InvVect, len(l))
	backing := make([]wire.InvVect, len(l))
	for i, e := range l {
		backing[i].Type = wire.InvType(uint32(e.U("type")))
		copy(backing[i].Hash[:], e.B("hash"))
		out[i] = &backing[i]
	}
	return out
}

func invFromWire(l []*wire.InvVect) Rec {
	out := make([]Rec, len(l))
	for i, iv := range l {
		out[i] = Rec{"type": uint64(iv.Type), "hash": cp(iv.Hash[:])}
	}
	return Rec{"inventory": out}
}

// toWire builds the btcd message for a record.
func toWire(cmd string, r Rec) wire.Message {
	switch cmd {
	case "version":
		return &wire.MsgVersion{
			ProtocolVersion: int32(uint32(r.U("version"))),
			Services:        wire.ServiceFlag(r.U("services")),
			Timestamp:       time.Unix(int64(r.U("timestamp")), 0),
			AddrYou:         naToWire(r.R("addr_recv"), false),
			AddrMe:          naToWire(r.R("addr_from"), false),
			Nonce:           r.U("nonce"),
			UserAgent:       string(r.B("user_agent")),
			LastBlock:       int32(uint32(r.U("start_height"))),
			DisableRelayTx:  r.U("relay") == 0,
		}
	case "addr":
		m := &wire.MsgAddr{}
		for _, e := range r.L("addr_list") {
			na := naToWire(e, true)
			m.AddrList = append(m.AddrList, &na)
		}
		return m
	case "addrv2":
		m := &wire.MsgAddrV2{}
		for _, e := range r.L("addr_list") {
			na := wire.NetAddressV2FromBytes(time.Unix(int64(uint32(e.U("time"))), 0),
				wire.ServiceFlag(e.U("services")), cp(e.B("addr")), uint16(e.U("port")))
			m.AddrList = append(m.AddrList, na)
		}
		return m
	case "getblocks":
		return &wire.MsgGetBlocks{ProtocolVersion: uint32(r.U("version")),
			BlockLocatorHashes: hashPtrs(r.BL("locator")), HashStop: hashOf(r.B("hash_stop"))}
	case "getheaders":
		return &wire.MsgGetHeaders{ProtocolVersion: uint32(r.U("version")),
			BlockLocatorHashes: hashPtrs(r.BL("locator")), HashStop: hashOf(r.B("hash_stop"))}
	case "inv":
		return &wire.MsgInv{InvList: invToWire(r)}
	case "getdata":
		return &wire.MsgGetData{InvList: invToWire(r)}
	case "notfound":
		return &wire.MsgNotFound{InvList: invToWire(r)}
	case "block":
		return blockToWire(r)
	case "tx":
		return txToWire(r.R("tx"))
	case "headers":
		m := &wire.MsgHeaders{}
		l := r.L("headers")
		backing := make([]wire.BlockHeader, len(l))
		for i, e := range l {
			backing[i] = headerToWire(e)
			m.Headers = append(m.Headers, &backing[i])
		}
		return m
	case "ping":
		return &wire.MsgPing{Nonce: r.U("nonce")}
	case "pong":
		return &wire.MsgPong{Nonce: r.U("nonce")}
	case "filteradd":
		return &wire.MsgFilterAdd{Data: cp(r.B("data"))}
	case "filterload":
		return &wire.MsgFilterLoad{Filter: cp(r.B("filter")), HashFuncs: uint32(r.U("n_hash_funcs")),
			Tweak: uint32(r.U("n_tweak")), Flags: wire.BloomUpdateType(uint8(r.U("n_flags")))}
	case "merkleblock":
		return &wire.MsgMerkleBlock{Header: headerToWire(r.R("header")), Transactions: uint32(r.U("total_transactions")),
			Hashes: hashPtrs(r.BL("hashes")), Flags: cp(r.B("flags"))}
	case "reject":
		m := &wire.MsgReject{Cmd: string(r.B("message")), Code: wire.RejectCode(uint8(r.U("ccode"))),
			Reason: string(r.B("reason"))}
		if d := r.B("data"); len(d) == 32 {
			copy(m.Hash[:], d)
		}
		return m
	case "feefilter":
		return &wire.MsgFeeFilter{MinFee: int64(r.U("feerate"))}
	case "getcfilters":
		return &wire.MsgGetCFilters{FilterType: wire.FilterType(uint8(r.U("filter_type"))),
			StartHeight: uint32(r.U("start_height")), StopHash: hashOf(r.B("stop_hash"))}
	case "getcfheaders":
		return &wire.MsgGetCFHeaders{FilterType: wire.FilterType(uint8(r.U("filter_type"))),
			StartHeight: uint32(r.U("start_height")), StopHash: hashOf(r.B("stop_hash"))}
	case "getcfcheckpt":
		return &wire.MsgGetCFCheckpt{FilterType: wire.FilterType(uint8(r.U("filter_type"))),
			StopHash: hashOf(r.B("stop_hash"))}
	case "cfilter":
		return &wire.MsgCFilter{FilterType: wire.FilterType(uint8(r.U("filter_type"))),
			BlockHash: hashOf(r.B("block_hash")), Data: cp(r.B("filter_bytes"))}
	case "cfheaders":
		return &wire.MsgCFHeaders{FilterType: wire.FilterType(uint8(r.U("filter_type"))),
			StopHash: hashOf(r.B("stop_hash")), PrevFilterHeader: hashOf(r.B("previous_filter_header")),
			FilterHashes: hashPtrs(r.BL("filter_hashes"))}
	case "cfcheckpt":
		return &wire.MsgCFCheckpt{FilterType: wire.FilterType(uint8(r.U("filter_type"))),
			StopHash: hashOf(r.B("stop_hash")), FilterHeaders: hashPtrs(r.BL("filter_headers"))}
	case "verack", "getaddr", "mempool", "filterclear", "sendheaders", "sendaddrv2", "wtxidrelay":
		return emptyMessage(cmd)
	}
	panic("toWire: unknown command " + cmd)
}

// fromWire turns a btcd message into a record.  An error means the harness
// cannot interpret the value (reported as a violation by the caller since a
// decoder produced it).
func fromWire(m wire.Message) (Rec, error) {
	switch v := m.(type) {
	case *wire.MsgVersion:
		relay := uint64(1)
		if v.DisableRelayTx {
			relay = 0
		}
		a, b := naFromWire(&v.AddrYou), naFromWire(&v.AddrMe)
		return Rec{
			"version":      uint64(uint32(v.ProtocolVersion)),
			"services":     uint64(v.Services),
			"timestamp":    uint64(v.Timestamp.Unix()),
			"addr_recv":    a,
			"addr_from":    b,
			"nonce":        v.Nonce,
			"user_agent":   []byte(v.UserAgent),
			"start_height": uint64(uint32(v.LastBlock)),
			"relay":        relay,
		}, nil
	case *wire.MsgAddr:
		l := make([]Rec, 0, len(v.AddrList))
		for _, na := range v.AddrList {
			l = append(l, naFromWire(na))
		}
		return Rec{"addr_list": l}, nil
	case *wire.MsgAddrV2:
		l := make([]Rec, 0, len(v.AddrList))
		for _, na := range v.AddrList {
			id, addr, err := addrV2Parts(na)
			if err != nil {
				return nil, err
			}
			l = append(l, Rec{"time": uint64(uint32(na.Timestamp.Unix())), "services": uint64(na.Services),
				"network_id": uint64(id), "addr": addr, "port": uint64(na.Port)})
		}
		return Rec{"addr_list": l}, nil
	case *wire.MsgGetBlocks:
		return Rec{"version": uint64(v.ProtocolVersion), "locator": hashBytes(v.BlockLocatorHashes), "hash_stop": cp(v.HashStop[:])}, nil
	case *wire.MsgGetHeaders:
		return Rec{"version": uint64(v.ProtocolVersion), "locator": hashBytes(v.BlockLocatorHashes), "hash_stop": cp(v.HashStop[:])}, nil
	case *wire.MsgInv:
		return invFromWire(v.InvList), nil
	case *wire.MsgGetData:
		return invFromWire(v.InvList), nil
	case *wire.MsgNotFound:
		return invFromWire(v.InvList), nil
	case *wire.MsgBlock:
		return blockFromWire(v), nil
	case *wire.MsgTx:
		return Rec{"tx": txFromWire(v)}, nil
	case *wire.MsgHeaders:
		l := make([]Rec, 0, len(v.Headers))
		for _, h := range v.Headers {
			l = append(l, headerFromWire(h))
		}
		return Rec{"headers": l}, nil
	case *wire.MsgPing:
		return Rec{"nonce": v.Nonce}, nil
	case *wire.MsgPong:
		return Rec{"nonce": v.Nonce}, nil
	case *wire.MsgFilterAdd:
		return Rec{"data": cp(v.Data)}, nil
	case *wire.MsgFilterLoad:
		return Rec{"filter": cp(v.Filter), "n_hash_funcs": uint64(v.HashFuncs), "n_tweak": uint64(v.Tweak), "n_flags": uint64(v.Flags)}, nil
	case *wire.MsgMerkleBlock:
		return Rec{"header": headerFromWire(&v.Header), "total_transactions": uint64(v.Transactions),
			"hashes": hashBytes(v.Hashes), "flags": cp(v.Flags)}, nil
	case *wire.MsgReject:
		return Rec{"message": []byte(v.Cmd), "ccode": uint64(v.Code), "reason": []byte(v.Reason), "data": cp(v.Hash[:])}, nil
	case *wire.MsgFeeFilter:
		return Rec{"feerate": uint64(v.MinFee)}, nil
	case *wire.MsgGetCFilters:
		return Rec{"filter_type": uint64(v.FilterType), "start_height": uint64(v.StartHeight), "stop_hash": cp(v.StopHash[:])}, nil
	case *wire.MsgGetCFHeaders:
		return Rec{"filter_type": uint64(v.FilterType), "start_height": uint64(v.StartHeight), "stop_hash": cp(v.StopHash[:])}, nil
	case *wire.MsgGetCFCheckpt:
		return Rec{"filter_type": uint64(v.FilterType), "stop_hash": cp(v.StopHash[:])}, nil
	case *wire.MsgCFilter:
		return Rec{"filter_type": uint64(v.FilterType), "block_hash": cp(v.BlockHash[:]), "filter_bytes": cp(v.Data)}, nil
	case *wire.MsgCFHeaders:
		return Rec{"filter_type": uint64(v.FilterType), "stop_hash": cp(v.StopHash[:]),
			"previous_filter_header": cp(v.PrevFilterHeader[:]), "filter_hashes": hashBytes(v.FilterHashes)}, nil
	case *wire.MsgCFCheckpt:
		return Rec{"filter_type": uint64(v.FilterType), "stop_hash": cp(v.StopHash[:]), "filter_headers": hashBytes(v.FilterHeaders)}, nil
	case *wire.MsgVerAck, *wire.MsgGetAddr, *wire.MsgMemPool, *wire.MsgFilterClear, *wire.MsgSendHeaders,
		*wire.MsgSendAddrV2, *wire.MsgWTxIdRelay:
		return Rec{}, nil
	}
	return nil, fmt.Errorf("fromWire: unknown message type %T", m)
}
