package main

// Worker processes for part (b).  Each worker is a separate OS process running
// a single goroutine (GOMAXPROCS=1) so that the runtime.MemStats.TotalAlloc
// delta around a decode call is that call's allocation, with a lowered address
// space limit so that a really unbounded allocation kills the worker instead
// of the machine.  The parent turns a dead worker into a violation for the
// case that was running (after confirming it three times in fresh processes).

import (
	"bufio"
	"crypto/sha256"
	"encoding/hex"
	"encoding/json"
	"fmt"
	"os"
	"os/exec"
	"runtime"
	"runtime/debug"
	"strconv"
	"strings"
	"sync"
	"syscall"
	"time"

	"verif/engine/ev"
	rw "verif/ref/refwire"
)

const workerAddressSpace = 12 << 30 // RLIMIT_AS of a worker

// a single decode call that has not returned after this long is treated like a
// crash (the worker is killed, the case confirmed in fresh processes)
const stuckAfter = 3 * time.Minute

type decStat struct {
	Cases         int64   `json:"cases"`
	Accepted      int64   `json:"accepted"`
	RejectedEOF   int64   `json:"rejected_short_input"`
	RejectedOther int64   `json:"rejected_by_check"`
	AllocSum      uint64  `json:"alloc_sum_bytes"`
	MaxAlloc      uint64  `json:"max_alloc_bytes"`
	MaxAllocX     float64 `json:"max_alloc_x_MaxMessagePayload"`
	MaxAllocInput string  `json:"max_alloc_input"`
}

type violOut struct {
	Key    string      `json:"key"`
	What   string      `json:"what"`
	Replay interface{} `json:"replay"`
}

type bReplay struct {
	Part    string `json:"part"`
	Dec     string `json:"dec"`
	Pver    uint32 `json:"pver"`
	Witness bool   `json:"witness"`
	Input   string `json:"input_hex"`
}

type workerResult struct {
	Done      bool                `json:"done"`
	Broken    string              `json:"broken,omitempty"`
	Evals     int64               `json:"evals"`
	Groups    int                 `json:"groups"`
	PerDec    map[string]*decStat `json:"per_decoder"`
	Viol      []violOut           `json:"violations"`
	ViolCount int                 `json:"violation_count"`
	Samples   []interface{}       `json:"samples"`
}

func limitAddressSpace() {
	var lim syscall.Rlimit
	if err := syscall.Getrlimit(syscall.RLIMIT_AS, &lim); err == nil {
		if lim.Cur == ^uint64(0) || lim.Cur > workerAddressSpace {
			lim.Cur = workerAddressSpace
			syscall.Setrlimit(syscall.RLIMIT_AS, &lim)
		}
	}
}

func selfExe() string {
	if p, err := os.Executable(); err == nil {
		return p
	}
	return os.Args[0]
}

func kindsOf(fs []finding) string {
	var k []string
	for _, f := range fs {
		k = append(k, f.kind)
	}
	return strings.Join(k, ",")
}

func caseKey(dec string, c rw.Ctx, in []byte) [16]byte {
	w := byte(0)
	if c.Witness {
		w = 1
	}
	buf := make([]byte, 0, len(dec)+8+len(in))
	buf = append(buf, dec...)
	buf = append(buf, '|', byte(c.Pver), byte(c.Pver>>8), byte(c.Pver>>16), byte(c.Pver>>24), w, '|')
	buf = append(buf, in...)
	h := sha256.Sum256(buf)
	var k [16]byte
	copy(k[:], h[:])
	return k
}

func inputID(in []byte) string {
	if len(in) <= 24 {
		return hex.EncodeToString(in)
	}
	return fmt.Sprintf("%s..#%s/len=%d", hex.EncodeToString(in[:8]), hash8(in), len(in))
}

// warmUp makes the allocation numbers independent of process history: btcd
// keeps a pool with one 4 MiB script slab per concurrent transaction decode.
func warmUp() {
	b := rw.EncodeTxBytes(smallTxs()[0], true)
	for i := 0; i < 3; i++ {
		decodeOnce("msg:tx", rw.Ctx{Witness: true}, b)
		decodeOnce("msg:block", rw.Ctx{Witness: true}, make([]byte, 81))
	}
	runtime.GC()
}

// workerMain runs shard i of n and writes <out>.json / <out>.keys.
func workerMain(spec, out string, full bool) {
	runtime.GOMAXPROCS(1)
	debug.SetGCPercent(200)
	limitAddressSpace()
	var i, n int
	fmt.Sscanf(spec, "%d/%d", &i, &n)
	resumeG, resumeK := -1, -1
	if s := os.Getenv("C08_RESUME"); s != "" {
		fmt.Sscanf(s, "%d,%d", &resumeG, &resumeK)
	}
	mf, err := os.OpenFile(out+".marker", os.O_RDWR|os.O_CREATE, 0o644)
	if err != nil {
		fmt.Fprintln(os.Stderr, "worker: marker:", err)
		os.Exit(3)
	}
	mf.Truncate(16)
	marker, err := syscall.Mmap(int(mf.Fd()), 0, 16, syscall.PROT_READ|syscall.PROT_WRITE, syscall.MAP_SHARED)
	if err != nil {
		fmt.Fprintln(os.Stderr, "worker: mmap:", err)
		os.Exit(3)
	}
	put32 := func(off int, v uint32) {
		marker[off], marker[off+1], marker[off+2], marker[off+3] = byte(v), byte(v>>8), byte(v>>16), byte(v>>24)
	}
	kf, err := os.OpenFile(out+".keys", os.O_WRONLY|os.O_CREATE|os.O_APPEND, 0o644)
	if err != nil {
		fmt.Fprintln(os.Stderr, "worker: keys:", err)
		os.Exit(3)
	}
	kw := bufio.NewWriterSize(kf, 1<<20)

	warmUp()
	res := &workerResult{PerDec: map[string]*decStat{}}
	groups := hostileGroups(full)
	violPerKind := map[string]int{}
	for gi := range groups {
		if gi%n != i || gi < resumeG {
			continue
		}
		g := &groups[gi]
		res.Groups++
		st := res.PerDec[g.dec]
		if st == nil {
			st = &decStat{}
			res.PerDec[g.dec] = st
		}
		mutants(g, full, func(k int, in []byte) bool {
			if gi == resumeG && k <= resumeK {
				return true
			}
			put32(0, uint32(gi))
			put32(4, uint32(k))
			put32(8, 1)
			cr := evalCase(g.dec, g.c, in)
			put32(8, 0)
			res.Evals++
			st.Cases++
			switch {
			case cr.accepted:
				st.Accepted++
			case cr.eof:
				st.RejectedEOF++
			default:
				st.RejectedOther++
			}
			st.AllocSum += cr.alloc
			if cr.alloc > st.MaxAlloc {
				st.MaxAlloc = cr.alloc
				st.MaxAllocX = float64(cr.alloc) / float64(32<<20)
				st.MaxAllocInput = fmt.Sprintf("pver=%d/%s %s", g.c.Pver, encName(g.c), short(in))
			}
			if cr.accepted || !cr.eof {
				key := caseKey(g.dec, g.c, in)
				kw.Write(key[:])
			}
			if len(res.Samples) < 3 && cr.accepted && g.kind == "seed" && k > len(g.seed)+5 {
				res.Samples = append(res.Samples, map[string]interface{}{"part": "b", "decoder": g.id(), "input": short(in), "verdict": "accepted, canonical"})
			}
			if len(cr.fs) > 0 {
				// confirm before reporting
				inCopy := append([]byte(nil), in...)
				for rep := 0; rep < 2; rep++ {
					cr2 := evalCase(g.dec, g.c, inCopy)
					if kindsOf(cr2.fs) != kindsOf(cr.fs) {
						res.Broken = fmt.Sprintf("verdict of %s on %s flipped between runs: %q vs %q", g.id(), short(inCopy), kindsOf(cr.fs), kindsOf(cr2.fs))
						return false
					}
				}
				for _, f := range cr.fs {
					res.ViolCount++
					vk := g.dec + "/" + f.kind
					violPerKind[vk]++
					if violPerKind[vk] > 4 || len(res.Viol) >= 60 {
						continue
					}
					res.Viol = append(res.Viol, violOut{
						Key:    fmt.Sprintf("b/%s/%s/%s", g.id(), f.kind, inputID(inCopy)),
						What:   fmt.Sprintf("%s on input %s (%s neighbourhood of a %q encoding): %s", g.id(), short(inCopy), g.kind, g.label, f.what),
						Replay: bReplay{Part: "b", Dec: g.dec, Pver: g.c.Pver, Witness: g.c.Witness, Input: hex.EncodeToString(inCopy)},
					})
				}
			}
			return true
		})
		if res.Broken != "" {
			break
		}
	}
	kw.Flush()
	kf.Close()
	res.Done = true
	b, _ := json.Marshal(res)
	if err := os.WriteFile(out+".json", b, 0o644); err != nil {
		fmt.Fprintln(os.Stderr, "worker: result:", err)
		os.Exit(3)
	}
	os.Exit(0)
}

// singleMain evaluates exactly one hostile case in this (fresh) process.
func singleMain(specPath, out string) {
	runtime.GOMAXPROCS(1)
	limitAddressSpace()
	var rp bReplay
	b, err := os.ReadFile(specPath)
	if err != nil || json.Unmarshal(b, &rp) != nil {
		os.Exit(3)
	}
	in, _ := hex.DecodeString(rp.Input)
	warmUp()
	c := rw.Ctx{Pver: rp.Pver, Witness: rp.Witness}
	cr := evalCase(rp.Dec, c, in)
	type outT struct {
		Kinds string   `json:"kinds"`
		What  []string `json:"what"`
		Alloc uint64   `json:"alloc"`
	}
	o := outT{Kinds: kindsOf(cr.fs), Alloc: cr.alloc}
	for _, f := range cr.fs {
		o.What = append(o.What, f.kind+": "+f.what)
	}
	jb, _ := json.Marshal(o)
	os.WriteFile(out, jb, 0o644)
	os.Exit(0)
}

// runSingle runs one hostile case in a fresh process.  crashed is true when
// the process died without producing a result.
func runSingle(rp bReplay, tmp string, tag string) (kinds string, what []string, crashed bool, stderrTail string) {
	spec := fmt.Sprintf("%s/single-%s.spec", tmp, tag)
	out := fmt.Sprintf("%s/single-%s.out", tmp, tag)
	os.Remove(out)
	b, _ := json.Marshal(rp)
	os.WriteFile(spec, b, 0o644)
	cmd := exec.Command(selfExe())
	cmd.Env = append(os.Environ(), "C08_SINGLE="+spec, "C08_OUT="+out)
	var eb strings.Builder
	cmd.Stderr = &tailWriter{b: &eb}
	if err := cmd.Start(); err != nil {
		return "", nil, true, "cannot start: " + err.Error()
	}
	done := make(chan struct{})
	go func() {
		select {
		case <-done:
		case <-time.After(stuckAfter):
			eb.WriteString("killed: no result after " + stuckAfter.String() + " (decoder does not terminate)\n")
			cmd.Process.Kill()
		}
	}()
	cmd.Wait()
	close(done)
	ob, err := os.ReadFile(out)
	if err != nil {
		return "", nil, true, eb.String()
	}
	var o struct {
		Kinds string   `json:"kinds"`
		What  []string `json:"what"`
	}
	json.Unmarshal(ob, &o)
	return o.Kinds, o.What, false, ""
}

type tailWriter struct{ b *strings.Builder }

func (t *tailWriter) Write(p []byte) (int, error) {
	if t.b.Len() < 4000 {
		t.b.Write(p)
	}
	return len(p), nil
}

func firstLines(s string, n int) string {
	l := strings.Split(s, "\n")
	if len(l) > n {
		l = l[:n]
	}
	return strings.Join(l, " | ")
}

// runWorkers drives part (b) from the parent and merges the results.
func runWorkers(r *ev.Run, full bool, nWorkers int, tmp string) map[string]*decStat {
	groups := hostileGroups(full)
	merged := map[string]*decStat{}
	var mu sync.Mutex
	var wg sync.WaitGroup
	tier := "quick"
	if full {
		tier = "thorough"
	}
	for w := 0; w < nWorkers; w++ {
		wg.Add(1)
		go func(w int) {
			defer wg.Done()
			out := fmt.Sprintf("%s/worker-%d", tmp, w)
			resume := ""
			crashes := 0
			for {
				os.Remove(out + ".json")
				cmd := exec.Command(selfExe(), tier)
				cmd.Env = append(os.Environ(), fmt.Sprintf("C08_WORKER=%d/%d", w, nWorkers), "C08_OUT="+out, "C08_RESUME="+resume, "GODEBUG=madvdontneed=0")
				var eb strings.Builder
				cmd.Stderr = &tailWriter{b: &eb}
				if err := cmd.Start(); err != nil {
					r.Broken("cannot start worker %d: %v", w, err)
				}
				done := make(chan struct{})
				go func() { // watchdog: the same case in flight for too long
					var last [12]byte
					since := time.Now()
					for {
						select {
						case <-done:
							return
						case <-time.After(5 * time.Second):
						}
						mb, err := os.ReadFile(out + ".marker")
						if err != nil || len(mb) < 12 {
							continue
						}
						var cur [12]byte
						copy(cur[:], mb)
						if cur != last {
							last, since = cur, time.Now()
						} else if cur[8] == 1 && time.Since(since) > stuckAfter {
							eb.WriteString("killed: one decode call did not return within " + stuckAfter.String() + "\n")
							cmd.Process.Kill()
							return
						}
					}
				}()
				runErr := cmd.Wait()
				close(done)
				jb, err := os.ReadFile(out + ".json")
				var res workerResult
				if err == nil && json.Unmarshal(jb, &res) == nil && res.Done {
					mu.Lock()
					mergeResult(r, &res, merged)
					mu.Unlock()
					if res.Broken != "" {
						r.Broken("worker %d: %s", w, res.Broken)
					}
					return
				}
				// the worker died: find the case that was running
				mb, merr := os.ReadFile(out + ".marker")
				if merr != nil || len(mb) < 12 {
					r.Broken("worker %d died (%v) without a marker: %s", w, runErr, firstLines(eb.String(), 6))
				}
				gi := int(uint32(mb[0]) | uint32(mb[1])<<8 | uint32(mb[2])<<16 | uint32(mb[3])<<24)
				k := int(uint32(mb[4]) | uint32(mb[5])<<8 | uint32(mb[6])<<16 | uint32(mb[7])<<24)
				inflight := mb[8] == 1
				if !inflight || gi >= len(groups) {
					r.Broken("worker %d died outside a decode call (%v): %s", w, runErr, firstLines(eb.String(), 6))
				}
				g := &groups[gi]
				var input []byte
				mutants(g, full, func(kk int, in []byte) bool {
					if kk == k {
						input = append([]byte(nil), in...)
						return false
					}
					return true
				})
				rp := bReplay{Part: "b", Dec: g.dec, Pver: g.c.Pver, Witness: g.c.Witness, Input: hex.EncodeToString(input)}
				nCrash := 0
				tail := eb.String()
				for rep := 0; rep < 3; rep++ {
					_, _, crashed, t := runSingle(rp, tmp, fmt.Sprintf("w%d-%d", w, rep))
					if crashed {
						nCrash++
						tail = t
					}
				}
				if nCrash != 3 {
					r.Broken("worker %d died on %s input %s but the crash reproduced %d/3 times: %s", w, g.id(), short(input), nCrash, firstLines(eb.String(), 6))
				}
				r.Violation(fmt.Sprintf("b/%s/fatal/%s", g.id(), inputID(input)),
					fmt.Sprintf("%s on input %s: the process died with an unrecoverable runtime error (address space limit %d GiB): %s", g.id(), short(input), workerAddressSpace>>30, firstLines(tail, 3)), rp)
				crashes++
				if crashes >= 8 {
					r.Cap(fmt.Sprintf("worker %d gave up after %d fatal crashes; its shard was completed up to group %d", w, crashes, gi))
					return
				}
				resume = strconv.Itoa(gi) + "," + strconv.Itoa(k)
			}
		}(w)
	}
	wg.Wait()
	return merged
}

func mergeResult(r *ev.Run, res *workerResult, merged map[string]*decStat) {
	r.Eval(int(res.Evals))
	r.Trace(int(res.Evals))
	r.Add("b_hostile_cases", res.Evals)
	for d, s := range res.PerDec {
		m := merged[d]
		if m == nil {
			m = &decStat{}
			merged[d] = m
		}
		m.Cases += s.Cases
		m.Accepted += s.Accepted
		m.RejectedEOF += s.RejectedEOF
		m.RejectedOther += s.RejectedOther
		m.AllocSum += s.AllocSum
		if s.MaxAlloc > m.MaxAlloc {
			m.MaxAlloc, m.MaxAllocX, m.MaxAllocInput = s.MaxAlloc, s.MaxAllocX, s.MaxAllocInput
		}
	}
	for _, v := range res.Viol {
		r.Violation(v.Key, v.What, v.Replay)
	}
	for _, s := range res.Samples {
		r.Sample(s)
	}
}

// mergeKeys feeds the distinct non-trivial case keys of all workers to ev.
func mergeKeys(r *ev.Run, tmp string, nWorkers int) {
	for w := 0; w < nWorkers; w++ {
		b, err := os.ReadFile(fmt.Sprintf("%s/worker-%d.keys", tmp, w))
		if err != nil {
			continue
		}
		for i := 0; i+16 <= len(b); i += 16 {
			r.NontrivialBytes(b[i : i+16])
		}
	}
}
