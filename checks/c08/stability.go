package main

import (
	"bytes"
	"fmt"
	"io"

	"github.com/btcsuite/btcd/wire/v2"

	"verif/engine/ev"
)

// A decoded value is the caller's: decoding something else afterwards (or the
// next transaction of the same block) must not change it.  The decoders borrow
// scratch buffers from a process-wide free list; this phase runs first, on one
// goroutine, while that list is empty, so the buffer the first decode returns is
// the one the second decode borrows (deterministic).
func stabilityPhase(r *ev.Run) {
	mkTx := func(seed byte, nIn int) *wire.MsgTx {
		tx := wire.NewMsgTx(2)
		for i := 0; i < nIn; i++ {
			var h [32]byte
			h[0], h[1] = seed, byte(i)
			in := &wire.TxIn{PreviousOutPoint: wire.OutPoint{Hash: h, Index: uint32(i)}, Sequence: 0xfffffffd,
				SignatureScript: bytes.Repeat([]byte{seed ^ 0x11}, 5+i)}
			in.Witness = wire.TxWitness{bytes.Repeat([]byte{seed}, 71+i), bytes.Repeat([]byte{seed ^ 0xff}, 33)}
			tx.AddTxIn(in)
		}
		tx.AddTxOut(&wire.TxOut{Value: int64(seed) * 1000, PkScript: bytes.Repeat([]byte{seed ^ 0x55}, 22)})
		return tx
	}
	mkBlock := func(seed byte) *wire.MsgBlock {
		b := &wire.MsgBlock{Header: wire.BlockHeader{Version: 0x20000000, Bits: 0x207fffff, Nonce: uint32(seed)}}
		cb := wire.NewMsgTx(1)
		cb.AddTxIn(&wire.TxIn{PreviousOutPoint: wire.OutPoint{Index: 0xffffffff}, SignatureScript: []byte{1, seed}, Sequence: 0xffffffff,
			Witness: wire.TxWitness{make([]byte, 32)}})
		cb.AddTxOut(&wire.TxOut{Value: 50, PkScript: []byte{0x51}})
		b.AddTransaction(cb)
		b.AddTransaction(mkTx(seed, 2))
		b.AddTransaction(mkTx(seed+1, 1))
		b.AddTransaction(mkTx(seed+2, 3))
		return b
	}
	ser := func(f func(io.Writer) error) []byte {
		var b bytes.Buffer
		if err := f(&b); err != nil {
			r.Broken("stability phase: encode failed: %v", err)
		}
		return b.Bytes()
	}
	// --- stand-alone transaction outputs (ReadTxOut / WriteTxOut), then a
	// transaction: the first output must still be what was decoded
	{
		oa := &wire.TxOut{Value: 0x1122334455, PkScript: bytes.Repeat([]byte{0xaa}, 25)}
		ob := &wire.TxOut{Value: 7, PkScript: bytes.Repeat([]byte{0xbb}, 25)}
		ea := ser(func(w io.Writer) error { return wire.WriteTxOut(w, wire.ProtocolVersion, 2, oa) })
		eb := ser(func(w io.Writer) error { return wire.WriteTxOut(w, wire.ProtocolVersion, 2, ob) })
		var ra, rb wire.TxOut
		if err := wire.ReadTxOut(bytes.NewReader(ea), wire.ProtocolVersion, 2, &ra); err != nil {
			r.Broken("stability phase: ReadTxOut failed: %v", err)
		}
		right := ser(func(w io.Writer) error { return wire.WriteTxOut(w, wire.ProtocolVersion, 2, &ra) })
		if err := wire.ReadTxOut(bytes.NewReader(eb), wire.ProtocolVersion, 2, &rb); err != nil {
			r.Broken("stability phase: ReadTxOut failed: %v", err)
		}
		afterOut := ser(func(w io.Writer) error { return wire.WriteTxOut(w, wire.ProtocolVersion, 2, &ra) })
		var dt wire.MsgTx
		if err := dt.Deserialize(bytes.NewReader(ser(mkTx(0x77, 2).Serialize))); err != nil {
			r.Broken("stability phase: decode failed: %v", err)
		}
		afterTx := ser(func(w io.Writer) error { return wire.WriteTxOut(w, wire.ProtocolVersion, 2, &ra) })
		r.Eval(3)
		if !bytes.Equal(right, ea) || !bytes.Equal(afterOut, ea) || !bytes.Equal(afterTx, ea) {
			unstableDecodes = true
			r.Violation("a/stability/txout/decoded-value-changes-after-a-later-decode",
				fmt.Sprintf("a transaction output decoded with ReadTxOut from %x re-encodes to %x right away, to %x after another ReadTxOut and to %x after a transaction was decoded", ea, right, afterOut, afterTx),
				map[string]string{"phase": "stability", "kind": "txout"})
		}
	}
	// --- stand-alone transactions
	ta, tb := ser(mkTx(0x21, 2).Serialize), ser(mkTx(0x42, 2).Serialize)
	var da, db wire.MsgTx
	if err := da.Deserialize(bytes.NewReader(ta)); err != nil {
		r.Broken("stability phase: decode failed: %v", err)
	}
	idA := da.WitnessHash()
	if err := db.Deserialize(bytes.NewReader(tb)); err != nil {
		r.Broken("stability phase: decode failed: %v", err)
	}
	r.Eval(2)
	if again := ser(da.Serialize); !bytes.Equal(again, ta) || da.WitnessHash() != idA {
		unstableDecodes = true
		r.Violation("a/stability/tx/decoded-value-changes-after-a-later-decode",
			fmt.Sprintf("a transaction decoded with Deserialize re-encodes to %x after another transaction was decoded; it was decoded from %x (wtxid %v -> %v)", again, ta, idA, da.WitnessHash()),
			map[string]string{"phase": "stability", "kind": "tx"})
	}
	// --- a block with several witness transactions, then another block
	ba, bb := ser(mkBlock(0x31).Serialize), ser(mkBlock(0x61).Serialize)
	var blkA, blkB wire.MsgBlock
	if err := blkA.Deserialize(bytes.NewReader(ba)); err != nil {
		r.Broken("stability phase: block decode failed: %v", err)
	}
	first := ser(blkA.Serialize)
	if err := blkB.Deserialize(bytes.NewReader(bb)); err != nil {
		r.Broken("stability phase: block decode failed: %v", err)
	}
	r.Eval(2)
	if again := ser(blkA.Serialize); !bytes.Equal(first, ba) || !bytes.Equal(again, ba) {
		unstableDecodes = true
		r.Violation("a/stability/block/decoded-value-changes-after-a-later-decode",
			fmt.Sprintf("a block with four witness transactions decoded with Deserialize re-encodes to different bytes (equal right after the decode: %v, equal after another block was decoded: %v)", bytes.Equal(first, ba), bytes.Equal(again, ba)),
			map[string]string{"phase": "stability", "kind": "block"})
	}
}
