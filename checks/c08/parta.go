package main

// Part (a): value -> bytes -> value on the real wire package against refwire.

import (
	"bytes"
	"crypto/sha256"
	"encoding/hex"
	"fmt"

	"github.com/btcsuite/btcd/btcutil/v2"
	"github.com/btcsuite/btcd/wire/v2"

	rw "verif/ref/refwire"
)

// finding is one failed demand.
type finding struct {
	kind string // stable sub-check name, part of the violation key
	what string
}

func encName(c rw.Ctx) string {
	if c.Witness {
		return "witness"
	}
	return "base"
}

func wireEnc(c rw.Ctx) wire.MessageEncoding {
	if c.Witness {
		return wire.WitnessEncoding
	}
	return wire.BaseEncoding
}

func short(b []byte) string {
	if len(b) <= 48 {
		return hex.EncodeToString(b)
	}
	return fmt.Sprintf("%s...(%d bytes)", hex.EncodeToString(b[:48]), len(b))
}

func hash8(b []byte) string {
	h := sha256.Sum256(b)
	return hex.EncodeToString(h[:4])
}

func firstDiff(a, b []byte) string {
	n := len(a)
	if len(b) < n {
		n = len(b)
	}
	for i := 0; i < n; i++ {
		if a[i] != b[i] {
			lo := i - 4
			if lo < 0 {
				lo = 0
			}
			ha, hb := i+8, i+8
			if ha > len(a) {
				ha = len(a)
			}
			if hb > len(b) {
				hb = len(b)
			}
			return fmt.Sprintf("first difference at offset %d: got ..%x want ..%x (len got %d want %d)", i, a[lo:ha], b[lo:hb], len(a), len(b))
		}
	}
	return fmt.Sprintf("one is a prefix of the other: len got %d want %d", len(a), len(b))
}

// implEncode runs BtcEncode under recover.
func implEncode(m wire.Message, c rw.Ctx) (out []byte, err error, panicked string) {
	defer func() {
		if p := recover(); p != nil {
			panicked = fmt.Sprint(p)
		}
	}()
	var buf bytes.Buffer
	err = m.BtcEncode(&buf, c.Pver, wireEnc(c))
	return buf.Bytes(), err, ""
}

// implDecode runs BtcDecode under recover and reports the bytes consumed.
func implDecode(m wire.Message, in []byte, c rw.Ctx) (consumed int, err error, panicked string) {
	defer func() {
		if p := recover(); p != nil {
			panicked = fmt.Sprint(p)
		}
	}()
	buf := bytes.NewBuffer(in)
	err = m.BtcDecode(buf, c.Pver, wireEnc(c))
	return len(in) - buf.Len(), err, ""
}

// zeroInputTx: BIP144 cannot represent a transaction without inputs in the
// witness-capable serialisation (a zero input count IS the marker), the
// protocol documentation says tx_in count is "never zero".  Such values are
// only demanded to round trip in the legacy encoding.
func zeroInputTx(cmd string, v Rec) bool {
	switch cmd {
	case "tx":
		return len(v.R("tx").L("vin")) == 0
	case "block":
		for _, t := range v.L("txns") {
			if len(t.L("vin")) == 0 {
				return true
			}
		}
	}
	return false
}

// mustAt: does the protocol require this value to be representable in c?
func mustAt(vc *valCase, c rw.Ctx) bool {
	if vc.lenient {
		return false
	}
	if vc.cmd == "addr" && c.Pver < rw.VerMultiAddr && len(vc.v.L("addr_list")) > 1 {
		return false // pre-209 addr carried a single address
	}
	return true
}

// checkValue runs all demands of part (a) for one value in one context.
func checkValue(vc *valCase, c rw.Ctx) (fs []finding) {
	bad := func(kind, format string, a ...interface{}) {
		fs = append(fs, finding{kind, fmt.Sprintf(format, a...)})
	}
	m := rw.ByCmd(vc.cmd)
	def := m.Defined(c.Pver)
	refB := rw.EncodeBytes(m.Fields, vc.v, c)
	w := toWire(vc.cmd, vc.v)
	if w.Command() != vc.cmd {
		bad("command", "Command() = %q want %q", w.Command(), vc.cmd)
	}
	implB, err, pn := implEncode(w, c)
	if pn != "" {
		bad("panic-encode", "BtcEncode panicked: %s", pn)
		return
	}
	if def == rw.No {
		if err == nil {
			bad("gating", "BtcEncode produced %d bytes for %q at pver %d where %s does not define the message", len(implB), vc.cmd, c.Pver, m.Source)
		}
		return
	}
	if def == rw.Unspecified && err != nil {
		return
	}
	must := mustAt(vc, c)
	if err != nil {
		if must {
			bad("encode-error", "BtcEncode failed: %v", err)
			return
		}
		// The implementation refuses the value (own limit).  Offer the
		// reference encoding to the decoder: error or a canonical value.
		d := emptyMessage(vc.cmd)
		n, derr, pn := implDecode(d, refB, c)
		if pn != "" {
			bad("panic-decode", "BtcDecode panicked on the reference encoding of an over-limit value: %s", pn)
			return
		}
		if derr == nil && !(c.Witness && zeroInputTx(vc.cmd, vc.v)) {
			if n != len(refB) {
				bad("consumed", "BtcDecode consumed %d of %d bytes", n, len(refB))
			}
			if got, ferr := fromWire(d); ferr != nil {
				bad("roundtrip-value", "decoded value unusable: %v", ferr)
			} else if diff := rw.EqualOnWire(m.Fields, vc.v, got, c); diff != "" {
				bad("roundtrip-value", "decoded value differs at %s", diff)
			}
		}
		return
	}
	if !bytes.Equal(implB, refB) {
		bad("layout", "BtcEncode bytes differ from the %s layout: %s", m.Source, firstDiff(implB, refB))
		return
	}
	if c.Witness && zeroInputTx(vc.cmd, vc.v) {
		d := emptyMessage(vc.cmd)
		if _, _, pn := implDecode(d, implB, c); pn != "" {
			bad("panic-decode", "BtcDecode panicked: %s", pn)
		}
		return
	}
	d := emptyMessage(vc.cmd)
	n, derr, pn := implDecode(d, implB, c)
	if pn != "" {
		bad("panic-decode", "BtcDecode panicked: %s", pn)
		return
	}
	if derr != nil {
		if must {
			bad("decode-error", "BtcDecode rejected its own encoding: %v", derr)
		}
		return
	}
	if n != len(implB) {
		bad("consumed", "BtcDecode consumed %d of %d bytes", n, len(implB))
	}
	got, ferr := fromWire(d)
	if ferr != nil {
		bad("roundtrip-value", "decoded value unusable: %v", ferr)
		return
	}
	if diff := rw.EqualOnWire(m.Fields, vc.v, got, c); diff != "" {
		bad("roundtrip-value", "Decode(Encode(v)) differs from v at %s", diff)
	}
	reB, rerr, pn := implEncode(d, c)
	if pn != "" {
		bad("panic-encode", "BtcEncode of decoded value panicked: %s", pn)
		return
	}
	if rerr != nil {
		bad("reencode", "re-encoding the decoded value failed: %v", rerr)
	} else if !bytes.Equal(reB, implB) {
		bad("reencode", "re-encoding the decoded value: %s", firstDiff(reB, implB))
	}
	// identifiers are unchanged by the round trip
	switch vc.cmd {
	case "tx":
		t := vc.v.R("tx")
		dt := d.(*wire.MsgTx)
		if h, want := dt.TxHash(), rw.TxID(t); h != want {
			bad("txid-roundtrip", "TxHash after round trip %x want %x", h[:], want[:])
		}
		if c.Witness {
			if h, want := dt.WitnessHash(), rw.WTxID(t); h != want {
				bad("wtxid-roundtrip", "WitnessHash after round trip %x want %x", h[:], want[:])
			}
		}
	case "block":
		db := d.(*wire.MsgBlock)
		hb := rw.EncodeBytes(rw.HeaderFields, vc.v.R("header"), c)
		if h, want := db.BlockHash(), rw.DSha256(hb); h != want {
			bad("blockhash-roundtrip", "BlockHash after round trip %x want %x", h[:], want[:])
		}
	}
	return
}

func eqHash(a [32]byte, b [32]byte) bool { return a == b }

// checkTxExtras: context independent demands on one transaction value.
func checkTxExtras(t Rec) (fs []finding) {
	bad := func(kind, format string, a ...interface{}) {
		fs = append(fs, finding{kind, fmt.Sprintf(format, a...)})
	}
	defer func() {
		if p := recover(); p != nil {
			bad("panic-tx-api", "panic: %v", p)
		}
	}()
	w := txToWire(t)
	wb := rw.EncodeTxBytes(t, true)
	bb := rw.EncodeTxBytes(t, false)
	txid, wtxid := rw.TxID(t), rw.WTxID(t)
	hasWit := rw.TxHasWitness(t)
	if got := w.SerializeSize(); got != len(wb) {
		bad("SerializeSize", "MsgTx.SerializeSize() = %d, serialisation is %d bytes", got, len(wb))
	}
	if got := w.SerializeSizeStripped(); got != len(bb) {
		bad("SerializeSizeStripped", "MsgTx.SerializeSizeStripped() = %d, stripped serialisation is %d bytes", got, len(bb))
	}
	var buf bytes.Buffer
	if err := w.Serialize(&buf); err != nil || !bytes.Equal(buf.Bytes(), wb) {
		bad("Serialize", "MsgTx.Serialize err=%v %s", err, firstDiff(buf.Bytes(), wb))
	}
	buf.Reset()
	if err := w.SerializeNoWitness(&buf); err != nil || !bytes.Equal(buf.Bytes(), bb) {
		bad("SerializeNoWitness", "MsgTx.SerializeNoWitness err=%v %s", err, firstDiff(buf.Bytes(), bb))
	}
	if h := w.TxHash(); h != txid {
		bad("TxHash", "TxHash %x want %x", h[:], txid[:])
	}
	if h := w.WitnessHash(); h != wtxid {
		bad("WitnessHash", "WitnessHash %x want %x", h[:], wtxid[:])
	}
	if w.HasWitness() != hasWit {
		bad("HasWitness", "HasWitness %v want %v", w.HasWitness(), hasWit)
	}
	if (w.TxHash() != w.WitnessHash()) != hasWit {
		bad("txid-vs-wtxid", "txid != wtxid is %v but witness present is %v", w.TxHash() != w.WitnessHash(), hasWit)
	}
	// PkScriptLocs: the start of every output script inside Serialize()'s bytes
	if locs := w.PkScriptLocs(); len(locs) != len(w.TxOut) && !(len(w.TxOut) == 0 && locs == nil) {
		bad("PkScriptLocs", "%d locations for %d outputs", len(locs), len(w.TxOut))
	} else {
		for i, o := range w.TxOut {
			if end := locs[i] + len(o.PkScript); locs[i] < 0 || end > len(wb) || !bytes.Equal(wb[locs[i]:end], o.PkScript) ||
				(locs[i] > 0 && !bytes.HasSuffix(wb[:locs[i]], rw.CompactSize(uint64(len(o.PkScript))))) {
				bad("PkScriptLocs", "output %d: PkScriptLocs()[%d] = %d does not point at its script (%d bytes) inside the %d-byte serialisation (witness data present: %v)", i, i, locs[i], len(o.PkScript), len(wb), hasWit)
				break
			}
		}
	}
	for i, in := range t.L("vin") {
		want := 32 + 4 + len(rw.CompactSize(uint64(len(in.B("script"))))) + len(in.B("script")) + 4
		if got := w.TxIn[i].SerializeSize(); got != want {
			bad("TxIn.SerializeSize", "input %d: %d want %d", i, got, want)
		}
		wl := in.BL("witness")
		wantW := len(rw.CompactSize(uint64(len(wl))))
		for _, it := range wl {
			wantW += len(rw.CompactSize(uint64(len(it)))) + len(it)
		}
		if got := w.TxIn[i].Witness.SerializeSize(); got != wantW {
			bad("TxWitness.SerializeSize", "input %d: %d want %d", i, got, wantW)
		}
	}
	for i, o := range t.L("vout") {
		want := 8 + len(rw.CompactSize(uint64(len(o.B("pk_script"))))) + len(o.B("pk_script"))
		if got := w.TxOut[i].SerializeSize(); got != want {
			bad("TxOut.SerializeSize", "output %d: %d want %d", i, got, want)
		}
	}
	buf.Reset()
	if err := w.Copy().Serialize(&buf); err != nil || !bytes.Equal(buf.Bytes(), wb) {
		bad("Copy", "MsgTx.Copy().Serialize err=%v %s", err, firstDiff(buf.Bytes(), wb))
	}
	if h := btcutil.NewTx(w).Hash(); *h != txid {
		bad("btcutil.NewTx.Hash", "%x want %x", h[:], txid[:])
	}
	if h := btcutil.NewTx(w).WitnessHash(); *h != wtxid {
		bad("btcutil.NewTx.WitnessHash", "%x want %x", h[:], wtxid[:])
	}
	// stripped decode
	var ns wire.MsgTx
	if err := ns.DeserializeNoWitness(bytes.NewReader(bb)); err != nil {
		bad("DeserializeNoWitness", "rejected the legacy serialisation: %v", err)
	} else {
		if diff := rw.EqualOnWire(rw.TxFields, Rec{"tx": t}, Rec{"tx": txFromWire(&ns)}, rw.Ctx{}); diff != "" {
			bad("DeserializeNoWitness", "value differs at %s", diff)
		}
		if h := ns.TxHash(); h != txid {
			bad("txid-roundtrip", "TxHash after legacy round trip %x want %x", h[:], txid[:])
		}
	}
	if len(t.L("vin")) == 0 {
		return // BIP144 cannot carry it (see zeroInputTx)
	}
	var ds wire.MsgTx
	if err := ds.Deserialize(bytes.NewReader(wb)); err != nil {
		bad("Deserialize", "rejected the serialisation: %v", err)
	} else {
		if diff := rw.EqualOnWire(rw.TxFields, Rec{"tx": t}, Rec{"tx": txFromWire(&ds)}, rw.Ctx{Witness: true}); diff != "" {
			bad("Deserialize", "value differs at %s", diff)
		}
		if ds.TxHash() != txid || ds.WitnessHash() != wtxid {
			bad("txid-roundtrip", "identifiers changed by Serialize/Deserialize")
		}
	}
	for _, in := range [][]byte{wb, bb} {
		ut, err := btcutil.NewTxFromBytes(in)
		if err != nil {
			bad("btcutil.NewTxFromBytes", "rejected a valid serialisation: %v", err)
			continue
		}
		wantWit := hasWit && len(in) == len(wb)
		cx := rw.Ctx{Witness: wantWit}
		if diff := rw.EqualOnWire(rw.TxFields, Rec{"tx": t}, Rec{"tx": txFromWire(ut.MsgTx())}, cx); diff != "" {
			bad("btcutil.NewTxFromBytes", "value differs at %s", diff)
		}
		if *ut.Hash() != txid {
			bad("btcutil.Tx.Hash", "%x want %x", ut.Hash()[:], txid[:])
		}
		wantW := txid
		if wantWit {
			wantW = wtxid
		}
		if *ut.WitnessHash() != wantW {
			bad("btcutil.Tx.WitnessHash", "%x want %x", ut.WitnessHash()[:], wantW[:])
		}
		if ut.HasWitness() != wantWit {
			bad("btcutil.Tx.HasWitness", "%v want %v", ut.HasWitness(), wantWit)
		}
	}
	return
}

// checkBlockExtras: context independent demands on one block value.
func checkBlockExtras(b Rec) (fs []finding) {
	bad := func(kind, format string, a ...interface{}) {
		fs = append(fs, finding{kind, fmt.Sprintf(format, a...)})
	}
	defer func() {
		if p := recover(); p != nil {
			bad("panic-block-api", "panic: %v", p)
		}
	}()
	w := blockToWire(b)
	wb := rw.EncodeBytes(rw.BlockFields, b, rw.Ctx{Witness: true})
	bb := rw.EncodeBytes(rw.BlockFields, b, rw.Ctx{})
	hb := rw.EncodeBytes(rw.HeaderFields, b.R("header"), rw.Ctx{})
	bh := rw.DSha256(hb)
	txns := b.L("txns")
	if got := w.SerializeSize(); got != len(wb) {
		bad("Block.SerializeSize", "%d, serialisation is %d bytes", got, len(wb))
	}
	if got := w.SerializeSizeStripped(); got != len(bb) {
		bad("Block.SerializeSizeStripped", "%d, stripped serialisation is %d bytes", got, len(bb))
	}
	var buf bytes.Buffer
	if err := w.Serialize(&buf); err != nil || !bytes.Equal(buf.Bytes(), wb) {
		bad("Block.Serialize", "err=%v %s", err, firstDiff(buf.Bytes(), wb))
	}
	buf.Reset()
	if err := w.SerializeNoWitness(&buf); err != nil || !bytes.Equal(buf.Bytes(), bb) {
		bad("Block.SerializeNoWitness", "err=%v %s", err, firstDiff(buf.Bytes(), bb))
	}
	buf.Reset()
	if err := w.Header.Serialize(&buf); err != nil || !bytes.Equal(buf.Bytes(), hb) {
		bad("Header.Serialize", "err=%v %s", err, firstDiff(buf.Bytes(), hb))
	}
	var dh wire.BlockHeader
	if err := dh.Deserialize(bytes.NewReader(hb)); err != nil {
		bad("Header.Deserialize", "%v", err)
	} else if diff := rw.EqualOnWire(rw.HeaderFields, b.R("header"), headerFromWire(&dh), rw.Ctx{}); diff != "" {
		bad("Header.Deserialize", "value differs at %s", diff)
	} else if dh.BlockHash() != bh {
		bad("blockhash-roundtrip", "BlockHash changed by the header round trip")
	}
	if h := w.BlockHash(); h != bh {
		bad("BlockHash", "%x want %x", h[:], bh[:])
	}
	if h := w.Header.BlockHash(); h != bh {
		bad("Header.BlockHash", "%x want %x", h[:], bh[:])
	}
	hs, _ := w.TxHashes()
	for i, t := range txns {
		if i < len(hs) && hs[i] != rw.TxID(t) {
			bad("Block.TxHashes", "tx %d", i)
		}
	}
	buf.Reset()
	if err := w.Copy().Serialize(&buf); err != nil || !bytes.Equal(buf.Bytes(), wb) {
		bad("Block.Copy", "err=%v %s", err, firstDiff(buf.Bytes(), wb))
	}
	if zeroInputTx("block", b) {
		return
	}
	// tx locations per the reference
	type loc struct{ start, n int }
	var locs []loc
	off := 80 + len(rw.CompactSize(uint64(len(txns))))
	for _, t := range txns {
		e := rw.EncodeTxBytes(t, true)
		locs = append(locs, loc{off, len(e)})
		off += len(e)
	}
	var db wire.MsgBlock
	tl, err := db.DeserializeTxLoc(bytes.NewBuffer(wb))
	if err != nil {
		bad("DeserializeTxLoc", "rejected a valid block: %v", err)
	} else {
		if len(tl) != len(locs) {
			bad("DeserializeTxLoc", "%d locations want %d", len(tl), len(locs))
		} else {
			for i := range tl {
				if tl[i].TxStart != locs[i].start || tl[i].TxLen != locs[i].n {
					bad("DeserializeTxLoc", "tx %d at (%d,%d) want (%d,%d)", i, tl[i].TxStart, tl[i].TxLen, locs[i].start, locs[i].n)
				}
			}
		}
		if diff := rw.EqualOnWire(rw.BlockFields, b, blockFromWire(&db), rw.Ctx{Witness: true}); diff != "" {
			bad("DeserializeTxLoc", "value differs at %s", diff)
		}
	}
	ub, err := btcutil.NewBlockFromBytes(wb)
	if err != nil {
		bad("btcutil.NewBlockFromBytes", "rejected a valid block: %v", err)
		return
	}
	if diff := rw.EqualOnWire(rw.BlockFields, b, blockFromWire(ub.MsgBlock()), rw.Ctx{Witness: true}); diff != "" {
		bad("btcutil.NewBlockFromBytes", "value differs at %s", diff)
	}
	if *ub.Hash() != bh {
		bad("btcutil.Block.Hash", "%x want %x", ub.Hash()[:], bh[:])
	}
	if got, err := ub.Bytes(); err != nil || !bytes.Equal(got, wb) {
		bad("btcutil.Block.Bytes", "err=%v %s", err, firstDiff(got, wb))
	}
	if got, err := ub.BytesNoWitness(); err != nil || !bytes.Equal(got, bb) {
		bad("btcutil.Block.BytesNoWitness", "err=%v %s", err, firstDiff(got, bb))
	}
	uts := ub.Transactions()
	if len(uts) != len(txns) {
		bad("btcutil.Block.Transactions", "%d want %d", len(uts), len(txns))
	} else {
		for i, t := range txns {
			if want := rw.TxID(t); *uts[i].Hash() != want {
				bad("btcutil.Block.Tx.Hash", "tx %d: %x want %x", i, uts[i].Hash()[:], want[:])
			}
			if want := rw.WTxID(t); *uts[i].WitnessHash() != want {
				bad("btcutil.Block.Tx.WitnessHash", "tx %d: %x want %x", i, uts[i].WitnessHash()[:], want[:])
			}
		}
	}
	// the wrapped transactions are generated lazily and in any order: asking
	// for one transaction first must not change what the others are
	for _, first := range []int{0, len(txns) - 1, len(txns) / 2} {
		if first < 0 || first >= len(txns) {
			continue
		}
		// (the FromBytes constructors generate all of them eagerly; a block
		// wrapped with NewBlock learns its serialization from Bytes())
		ub2 := btcutil.NewBlock(blockToWire(b))
		if got, err := ub2.Bytes(); err != nil || !bytes.Equal(got, wb) {
			bad("btcutil.Block.Bytes", "NewBlock(...).Bytes(): err=%v %s", err, firstDiff(got, wb))
		}
		if t1, err := ub2.Tx(first); err != nil || *t1.Hash() != rw.TxID(txns[first]) {
			bad("btcutil.Block.Tx", "Tx(%d) first: err=%v or wrong hash", first, err)
		}
		for i, ut := range ub2.Transactions() {
			if want := rw.TxID(txns[i]); *ut.Hash() != want {
				bad("btcutil.Block.Tx-then-Transactions", "after Tx(%d), Transactions()[%d].Hash() = %x want %x", first, i, ut.Hash()[:], want[:])
				break
			}
			if want := rw.WTxID(txns[i]); *ut.WitnessHash() != want {
				bad("btcutil.Block.Tx-then-Transactions", "after Tx(%d), Transactions()[%d].WitnessHash() = %x want %x", first, i, ut.WitnessHash()[:], want[:])
				break
			}
		}
	}
	if utl, err := ub.TxLoc(); err != nil || len(utl) != len(locs) {
		bad("btcutil.Block.TxLoc", "err=%v n=%d want %d", err, len(utl), len(locs))
	} else {
		for i := range utl {
			if utl[i].TxStart != locs[i].start || utl[i].TxLen != locs[i].n {
				bad("btcutil.Block.TxLoc", "tx %d", i)
			}
		}
	}
	return
}

var nets = []wire.BitcoinNet{wire.MainNet, wire.TestNet3, wire.SimNet}

// checkFraming: WriteMessageWithEncodingN / ReadMessageWithEncodingN.
func checkFraming(vc *valCase, c rw.Ctx, net wire.BitcoinNet) (fs []finding) {
	bad := func(kind, format string, a ...interface{}) {
		fs = append(fs, finding{kind, fmt.Sprintf(format, a...)})
	}
	defer func() {
		if p := recover(); p != nil {
			bad("panic-framing", "panic: %v", p)
		}
	}()
	m := rw.ByCmd(vc.cmd)
	if m.Defined(c.Pver) != rw.Yes || !mustAt(vc, c) {
		return
	}
	payload := rw.EncodeBytes(m.Fields, vc.v, c)
	if len(payload) > 4000000 { // MAX_PROTOCOL_MESSAGE_LENGTH
		return
	}
	frame := rw.Frame(uint32(net), vc.cmd, payload)
	w := toWire(vc.cmd, vc.v)
	var buf bytes.Buffer
	n, err := wire.WriteMessageWithEncodingN(&buf, w, c.Pver, net, wireEnc(c))
	if err != nil {
		bad("write-error", "WriteMessageWithEncodingN refused a %d byte %q payload: %v", len(payload), vc.cmd, err)
		return
	}
	if n != len(frame) || !bytes.Equal(buf.Bytes(), frame) {
		bad("frame-bytes", "n=%d want %d; %s", n, len(frame), firstDiff(buf.Bytes(), frame))
		return
	}
	if c.Witness && zeroInputTx(vc.cmd, vc.v) {
		return
	}
	n2, msg, pl, err := wire.ReadMessageWithEncodingN(bytes.NewReader(frame), c.Pver, net, wireEnc(c))
	if err == wire.ErrUnknownMessage {
		bad("read-unknown-command", "ReadMessageWithEncodingN does not know the command of the frame WriteMessageWithEncodingN produced for %q: %v", vc.cmd, err)
		return
	}
	if err != nil {
		bad("read-error", "ReadMessageWithEncodingN rejected the frame WriteMessageWithEncodingN produced for %q: %v", vc.cmd, err)
		return
	}
	if n2 != len(frame) {
		bad("read-n", "read %d bytes want %d", n2, len(frame))
	}
	if !bytes.Equal(pl, payload) {
		bad("read-payload", "%s", firstDiff(pl, payload))
	}
	if msg.Command() != vc.cmd {
		bad("read-command", "%q want %q", msg.Command(), vc.cmd)
		return
	}
	got, ferr := fromWire(msg)
	if ferr != nil {
		bad("read-value", "%v", ferr)
	} else if diff := rw.EqualOnWire(m.Fields, vc.v, got, c); diff != "" {
		bad("read-value", "value differs at %s", diff)
	}
	return
}

// checkAddrV2Spec: BIP155 rules for network ids and address lengths, driven by
// reference encodings (most of these values cannot be built through btcd's API).
func checkAddrV2Spec(id uint64, alen int, c rw.Ctx) (fs []finding, desc string) {
	bad := func(kind, format string, a ...interface{}) {
		fs = append(fs, finding{kind, fmt.Sprintf(format, a...)})
	}
	a := addrV2Rec(1, 1, 1, []byte{10, 0, 0, 1}, 8333)
	b := addrV2Rec(2, 0xfd, 4, pattern(32, 0x41, 1), 9050)
	x := addrV2Rec(3, 0x409, id, pattern(alen, 0x31, 1), 18333)
	desc = fmt.Sprintf("id=%d/len=%d", id, alen)
	m := rw.ByCmd("addrv2")
	in := rw.EncodeBytes(m.Fields, Rec{"addr_list": []Rec{a, x, b}}, c)
	d := &wire.MsgAddrV2{}
	n, err, pn := implDecode(d, in, c)
	if pn != "" {
		bad("panic-decode", "panic: %s", pn)
		return
	}
	legalLen, known := rw.AddrV2Len[uint8(id)]
	mustReject := alen > rw.AddrV2MaxLen || (known && alen != legalLen)
	if mustReject {
		if err == nil {
			bad("addrv2-accept", "accepted network id %d with a %d byte address (BIP155: MUST reject)", id, alen)
		}
		return
	}
	if err != nil {
		bad("addrv2-reject", "rejected a message containing network id %d with a %d byte address: %v (BIP155: unknown ids must be ignored, known ids with the right length are valid)", id, alen, err)
		return
	}
	if n != len(in) {
		bad("consumed", "consumed %d of %d", n, len(in))
	}
	got, ferr := fromWire(d)
	if ferr != nil {
		bad("roundtrip-value", "%v", ferr)
		return
	}
	l := got.L("addr_list")
	entry := netAddrV2Fields()
	eq := func(p, q Rec) bool { return rw.EqualOnWire(entry, p, q, c) == "" }
	// ipv6 entries that are really IPv4-mapped / OnionCat "MUST NOT" be sent
	// with id 2; ignoring them is what BIP155 asks for.
	mustKeep := id >= 1 && id <= 4
	switch {
	case len(l) == 3:
		if !eq(l[0], a) || !eq(l[1], x) || !eq(l[2], b) {
			bad("roundtrip-value", "decoded entries differ")
		}
	case len(l) == 2 && !mustKeep:
		if !eq(l[0], a) || !eq(l[1], b) {
			bad("roundtrip-value", "entries around an ignored address differ")
		}
	default:
		bad("roundtrip-value", "decoded %d entries", len(l))
	}
	return
}

func netAddrV2Fields() []rw.F {
	return rw.ByCmd("addrv2").Fields[0].Sub
}

// checkFramingV2: the BIP324 plaintext codec WriteV2MessageN / ReadV2MessageN.
func checkFramingV2(vc *valCase, c rw.Ctx) (fs []finding) {
	bad := func(kind, format string, a ...interface{}) {
		fs = append(fs, finding{kind, fmt.Sprintf(format, a...)})
	}
	defer func() {
		if p := recover(); p != nil {
			bad("panic-framing-v2", "panic: %v", p)
		}
	}()
	m := rw.ByCmd(vc.cmd)
	if m.Defined(c.Pver) != rw.Yes || !mustAt(vc, c) {
		return
	}
	payload := rw.EncodeBytes(m.Fields, vc.v, c)
	if len(payload) > 4000000 {
		return
	}
	want := rw.FrameV2(vc.cmd, payload)
	w := toWire(vc.cmd, vc.v)
	var buf bytes.Buffer
	n, err := wire.WriteV2MessageN(&buf, w, c.Pver, wireEnc(c))
	if err != nil {
		bad("write-error", "WriteV2MessageN refused a %d byte %q payload: %v", len(payload), vc.cmd, err)
		return
	}
	if n != len(want) || !bytes.Equal(buf.Bytes(), want) {
		bad("frame-bytes", "n=%d want %d; %s", n, len(want), firstDiff(buf.Bytes(), want))
		return
	}
	if c.Witness && zeroInputTx(vc.cmd, vc.v) {
		return
	}
	in := make([]byte, len(want)) // exact capacity: reading past the end must not go unnoticed
	copy(in, want)
	msg, pl, err := wire.ReadV2MessageN(in[:len(in):len(in)], c.Pver, wireEnc(c))
	if err == wire.ErrUnknownMessage {
		bad("read-unknown-command", "ReadV2MessageN does not know the command of the plaintext WriteV2MessageN produced for %q: %v", vc.cmd, err)
		return
	}
	if err != nil {
		bad("read-error", "ReadV2MessageN rejected the plaintext WriteV2MessageN produced for %q: %v", vc.cmd, err)
		return
	}
	if !bytes.Equal(pl, payload) {
		bad("read-payload", "returned payload (%d bytes) is not the payload (%d bytes): %s", len(pl), len(payload), firstDiff(pl, payload))
	}
	if msg.Command() != vc.cmd {
		bad("read-command", "%q want %q", msg.Command(), vc.cmd)
		return
	}
	got, ferr := fromWire(msg)
	if ferr != nil {
		bad("read-value", "%v", ferr)
	} else if diff := rw.EqualOnWire(m.Fields, vc.v, got, c); diff != "" {
		bad("read-value", "value differs at %s", diff)
	}
	return
}
