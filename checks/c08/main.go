// C08 — wire encoding is a canonical bijection; hostile bytes are harmless.
//
// Part (a): for every P2P message type of btcd's wire package, every protocol
// version at which a layout changes (and the versions next to it), both
// transaction encodings: a product of small per-field domains is encoded by
// the real code and compared byte for byte with refwire (an independent table
// of the layouts written from the protocol documentation and the BIPs), then
// decoded back and compared; sizes, identifiers, framing and the btcutil
// wrappers are checked on the way.
//
// Part (b): every byte string of length <= 2 and the bounded-deviation
// neighbourhood of valid encodings is offered to every decoder: it must return
// a value or an error (never panic), allocate a bounded amount, and whatever it
// accepts must re-encode to exactly the bytes it consumed.
package main

import (
	"bytes"
	"encoding/hex"
	"encoding/json"
	"fmt"
	"os"
	"runtime"
	"sort"
	"sync"
	"time"

	"github.com/btcsuite/btcd/wire/v2"

	"verif/engine/ev"
	rw "verif/ref/refwire"
)

// every version constant of wire/protocol.go (and of the protocol
// documentation), the one before and the one after
var pversAll = []uint32{0, 105, 106, 107, 208, 209, 210, 31401, 31402, 31403,
	59999, 60000, 60001, 60002, 60003, 70000, 70001, 70002, 70003,
	70010, 70011, 70012, 70013, 70014, 70015, 70016, 70017, 0xffffffff}

const latest = 70016

type aReplay struct {
	Part    string      `json:"part"`
	Sub     string      `json:"sub"`
	Cmd     string      `json:"cmd"`
	Pver    uint32      `json:"pver"`
	Witness bool        `json:"witness"`
	Net     uint32      `json:"net,omitempty"`
	Lenient bool        `json:"lenient,omitempty"`
	Label   string      `json:"label,omitempty"`
	Value   interface{} `json:"value,omitempty"`
	Full    bool        `json:"full,omitempty"`
	DomIdx  int         `json:"domain_index,omitempty"`
	ID      uint64      `json:"id,omitempty"`
	Len     int         `json:"len,omitempty"`
	Raw     string      `json:"raw,omitempty"`
}

// unstableDecodes is set by the stability phase when a decoded value was seen
// to change after a later decode.
var unstableDecodes bool

type harness struct {
	r      *ev.Run
	mu     sync.Mutex
	perKey map[string]int
}

// report confirms a failing case (3 runs, same verdict) and records it.
func (h *harness) report(sub string, cmd string, c rw.Ctx, label, id string, fs []finding, rerun func() []finding, mkrp func() aReplay) {
	if len(fs) == 0 {
		return
	}
	unstable := ""
	for i := 0; i < 2; i++ {
		again := rerun()
		if len(again) == 0 && !unstableDecodes {
			h.r.Broken("verdict flipped for %s/%s pver=%d %s %s: %q vs none", sub, cmd, c.Pver, encName(c), label, kindsOf(fs))
		}
		// (when the stability phase has shown that decoded values change after
		// later decodes, a verdict that comes and goes is that same defect seen
		// from a parallel worker, not a broken harness)
		if kindsOf(again) != kindsOf(fs) {
			// the case fails on every run but not in the same comparisons: the
			// decoded value itself is not stable (it shares memory with something
			// that later decodes overwrite)
			unstable = kindsOf(again)
		}
	}
	if unstable != "" {
		fs = append(fs, finding{kind: "unstable-value", what: fmt.Sprintf("the failing comparisons differ between runs of the same case (%q, then %q): the decoded value changes after it was returned", kindsOf(fs), unstable)})
	}
	rp := mkrp()
	for _, f := range fs {
		cls := sub + "/" + cmd + "/" + f.kind
		h.mu.Lock()
		h.perKey[cls]++
		n := h.perKey[cls]
		h.mu.Unlock()
		h.r.Add("a_failed_demands", 1)
		if n > 6 {
			continue
		}
		key := fmt.Sprintf("a/%s/%s/%s/pver=%d/%s/%s#%s", sub, cmd, f.kind, c.Pver, encName(c), label, id)
		if rp.Net != 0 {
			key += fmt.Sprintf("/net=%08x", rp.Net)
		}
		if f.kind == "read-unknown-command" {
			// one call site, one stable key: the command is missing from
			// the reader's table whatever the version, network or encoding
			// (sub is "framing" for the v1 reader, "framing-v2" for BIP324)
			key = fmt.Sprintf("a/%s/%s/read-unknown-command", sub, cmd)
		}
		h.r.Violation(key, fmt.Sprintf("%s %q pver=%d enc=%s value %s#%s: %s", sub, cmd, c.Pver, encName(c), label, id, f.what), rp)
	}
}

// valueReplay: small values are stored in the replay file, big ones by their
// position in the (deterministic) domain.
func (h *harness) valueReplay(sub string, vc *valCase, c rw.Ctx, net uint32) aReplay {
	rp := aReplay{Part: "a", Sub: sub, Cmd: vc.cmd, Pver: c.Pver, Witness: c.Witness, Net: net, Lenient: vc.lenient, Label: vc.label}
	if vc.big {
		rp.Full, rp.DomIdx = h.r.Thorough(), vc.di
	} else {
		rp.Value = recToJSON(vc.v)
	}
	return rp
}

func ctxsFor(vc *valCase) []rw.Ctx {
	var out []rw.Ctx
	switch {
	case vc.big:
		out = append(out, rw.Ctx{Pver: latest})
		if vc.cmd == "tx" || vc.cmd == "block" {
			out = append(out, rw.Ctx{Pver: latest, Witness: true})
		}
		if vc.cmd == "addr" {
			out = append(out, rw.Ctx{Pver: 31401}, rw.Ctx{Pver: 208})
		}
	case (vc.cmd == "tx" || vc.cmd == "block") && vc.label != "small":
		for _, p := range []uint32{0, latest} {
			out = append(out, rw.Ctx{Pver: p}, rw.Ctx{Pver: p, Witness: true})
		}
	default:
		for _, p := range pversAll {
			out = append(out, rw.Ctx{Pver: p}, rw.Ctx{Pver: p, Witness: true})
		}
	}
	return out
}

func valueID(vc *valCase, idx int) string {
	if vc.big {
		return fmt.Sprintf("big%d", idx)
	}
	b := rw.EncodeBytes(rw.ByCmd(vc.cmd).Fields, vc.v, rw.Ctx{Pver: latest, Witness: true})
	return hash8(b)
}

func (h *harness) runValueCase(vc *valCase, idx int) {
	r := h.r
	if vc.v == nil && vc.gen != nil {
		// build the big value for the duration of this case only
		cp := *vc
		cp.v = vc.gen()
		vc = &cp
	}
	id := valueID(vc, idx)
	m := rw.ByCmd(vc.cmd)
	for _, c := range ctxsFor(vc) {
		c := c
		fs := checkValue(vc, c)
		r.Eval(1)
		r.Trace(1)
		r.Add("a_value_cases", 1)
		if m.Defined(c.Pver) == rw.Yes {
			r.Nontrivial(fmt.Sprintf("a|%s|%d|%v|%s|%s", vc.cmd, c.Pver, c.Witness, vc.label, id))
		}
		if len(fs) > 0 {
			h.report("value", vc.cmd, c, vc.label, id, fs, func() []finding { return checkValue(vc, c) },
				func() aReplay { return h.valueReplay("value", vc, c, 0) })
		}
		if r.WantSample() && vc.seed && c.Pver == latest {
			b := rw.EncodeBytes(m.Fields, vc.v, c)
			r.Sample(map[string]interface{}{"part": "a", "cmd": vc.cmd, "pver": c.Pver, "enc": encName(c), "bytes": short(b)})
		}
	}
	// framing
	var fctx []rw.Ctx
	var fnets []wire.BitcoinNet
	switch {
	case vc.seed:
		for _, p := range pversAll {
			fctx = append(fctx, rw.Ctx{Pver: p})
			if vc.cmd == "tx" || vc.cmd == "block" {
				fctx = append(fctx, rw.Ctx{Pver: p, Witness: true})
			}
		}
		fnets = nets
	case vc.big || vc.label == "boundary" || vc.label == "count":
		fctx = []rw.Ctx{{Pver: latest}}
		if vc.cmd == "tx" || vc.cmd == "block" {
			fctx = append(fctx, rw.Ctx{Pver: latest, Witness: true})
		}
		fnets = nets[:1]
	}
	for _, c := range fctx {
		c := c
		fs := checkFramingV2(vc, c)
		r.Eval(1)
		r.Trace(1)
		r.Add("a_framing_v2_cases", 1)
		r.Nontrivial(fmt.Sprintf("f2|%s|%d|%v|%s", vc.cmd, c.Pver, c.Witness, id))
		if len(fs) > 0 {
			h.report("framing-v2", vc.cmd, c, vc.label, id, fs, func() []finding { return checkFramingV2(vc, c) },
				func() aReplay { return h.valueReplay("framing-v2", vc, c, 0) })
		}
	}
	for _, c := range fctx {
		for _, net := range fnets {
			c, net := c, net
			fs := checkFraming(vc, c, net)
			r.Eval(1)
			r.Trace(1)
			r.Add("a_framing_cases", 1)
			r.Nontrivial(fmt.Sprintf("f|%s|%d|%v|%x|%s", vc.cmd, c.Pver, c.Witness, uint32(net), id))
			if len(fs) > 0 {
				h.report("framing", vc.cmd, c, vc.label, id, fs, func() []finding { return checkFraming(vc, c, net) },
					func() aReplay { return h.valueReplay("framing", vc, c, uint32(net)) })
			}
		}
	}
	// context independent API demands
	switch vc.cmd {
	case "tx":
		t := vc.v.R("tx")
		fs := checkTxExtras(t)
		r.Eval(1)
		r.Trace(1)
		r.Add("a_tx_api_cases", 1)
		h.report("txapi", "tx", rw.Ctx{Witness: true}, vc.label, id, fs, func() []finding { return checkTxExtras(t) },
			func() aReplay { return h.valueReplay("txapi", vc, rw.Ctx{}, 0) })
	case "block":
		fs := checkBlockExtras(vc.v)
		r.Eval(1)
		r.Trace(1)
		r.Add("a_block_api_cases", 1)
		h.report("blockapi", "block", rw.Ctx{Witness: true}, vc.label, id, fs, func() []finding { return checkBlockExtras(vc.v) },
			func() aReplay { return h.valueReplay("blockapi", vc, rw.Ctx{}, 0) })
	}
}

var addrV2IDs = []uint64{0, 1, 2, 3, 4, 5, 6, 7, 0x7f, 0xff}
var addrV2Lens = []int{0, 1, 3, 4, 5, 9, 10, 11, 15, 16, 17, 31, 32, 33, 511, 512, 513, 514}

func (h *harness) runAddrV2Spec() {
	c := rw.Ctx{Pver: latest}
	for _, id := range addrV2IDs {
		for _, l := range addrV2Lens {
			id, l := id, l
			fs, desc := checkAddrV2Spec(id, l, c)
			h.r.Eval(1)
			h.r.Trace(1)
			h.r.Add("a_addrv2_netid_length_cases", 1)
			h.r.Nontrivial("addrv2spec|" + desc)
			h.report("addrv2spec", "addrv2", c, desc, "", fs, func() []finding { f, _ := checkAddrV2Spec(id, l, c); return f },
				func() aReplay {
					return aReplay{Part: "a", Sub: "addrv2spec", Cmd: "addrv2", Pver: c.Pver, ID: id, Len: l}
				})
		}
	}
}

// ---------------------------------------------------------------------------
// very large counts: values built directly (a generic record of millions of
// elements would not fit), reference bytes by plain concatenation.

type rawCase struct {
	label string
	c     rw.Ctx
	must  bool // within every limit the protocol and btcd state
	build func() (wire.Message, []byte)
}

func manyInputsTx(n int) (wire.Message, []byte) {
	tx := &wire.MsgTx{Version: 1}
	ins := make([]wire.TxIn, n)
	tx.TxIn = make([]*wire.TxIn, n)
	b := make([]byte, 0, 16+41*n)
	b = append(b, 1, 0, 0, 0)
	b = append(b, rw.CompactSize(uint64(n))...)
	for i := range ins {
		ins[i].PreviousOutPoint.Index = uint32(i)
		ins[i].Sequence = 0xffffffff
		tx.TxIn[i] = &ins[i]
		b = append(b, make([]byte, 32)...)
		b = append(b, byte(i), byte(i>>8), byte(i>>16), byte(i>>24), 0, 0xff, 0xff, 0xff, 0xff)
	}
	b = append(b, 0, 0, 0, 0, 0)
	return tx, b
}

func manyOutputsTx(n int) (wire.Message, []byte) {
	tx := &wire.MsgTx{Version: 1}
	outs := make([]wire.TxOut, n)
	tx.TxOut = make([]*wire.TxOut, n)
	b := make([]byte, 0, 16+9*n)
	b = append(b, 1, 0, 0, 0, 0)
	b = append(b, rw.CompactSize(uint64(n))...)
	for i := range outs {
		outs[i].Value = int64(i)
		tx.TxOut[i] = &outs[i]
		b = append(b, byte(i), byte(i>>8), byte(i>>16), byte(i>>24), 0, 0, 0, 0, 0)
	}
	b = append(b, 0, 0, 0, 0)
	return tx, b
}

func manyWitnessItemsTx(n int) (wire.Message, []byte) {
	tx := &wire.MsgTx{Version: 2}
	w := make(wire.TxWitness, n)
	for i := range w {
		w[i] = []byte{}
	}
	tx.TxIn = []*wire.TxIn{{Sequence: 1, Witness: w}}
	b := []byte{2, 0, 0, 0, 0, 1, 1}
	b = append(b, make([]byte, 36)...)
	b = append(b, 0, 1, 0, 0, 0, 0)
	b = append(b, rw.CompactSize(uint64(n))...)
	b = append(b, make([]byte, n)...)
	b = append(b, 0, 0, 0, 0)
	return tx, b
}

// one input whose script (kind 0), witness item (1) or output script (2) is
// sized so that the whole serialisation has exactly total bytes
func sizedTx(kind, total int) (wire.Message, []byte) {
	t := txRec(1, nIns(1, nil), nOuts(1), 0)
	set := func(n int) {
		switch kind {
		case 0:
			t.L("vin")[0]["script"] = make([]byte, n)
		case 1:
			t.L("vin")[0]["witness"] = [][]byte{make([]byte, n)}
		case 2:
			t.L("vout")[0]["pk_script"] = make([]byte, n)
		}
	}
	set(1)
	b := rw.EncodeTxBytes(t, true)
	n := total - len(b) + 1
	for {
		set(n)
		b = rw.EncodeTxBytes(t, true)
		if len(b) == total {
			break
		}
		n += total - len(b)
	}
	return txToWire(t), b
}

func scriptTotalTx(total int) (wire.Message, []byte) {
	half := total / 2
	t := txRec(1, []Rec{txin(h0, 0, make([]byte, half), 0, nil)}, []Rec{txout(0, make([]byte, total-half))}, 0)
	b := rw.EncodeTxBytes(t, false)
	return txToWire(t), b
}

func manyTxBlock(n int) (wire.Message, []byte) {
	blk := &wire.MsgBlock{Header: headerToWire(hdrDom[0])}
	hb := rw.EncodeBytes(rw.HeaderFields, hdrDom[0], rw.Ctx{})
	b := append([]byte(nil), hb...)
	b = append(b, rw.CompactSize(uint64(n))...)
	txs := make([]wire.MsgTx, n)
	blk.Transactions = make([]*wire.MsgTx, n)
	for i := range txs {
		txs[i].Version = int32(i)
		blk.Transactions[i] = &txs[i]
		b = append(b, byte(i), byte(i>>8), byte(i>>16), byte(i>>24), 0, 0, 0, 0, 0, 0)
	}
	return blk, b
}

func rawCases(full bool) []rawCase {
	B := rw.Ctx{Pver: latest}
	W := rw.Ctx{Pver: latest, Witness: true}
	cs := []rawCase{
		{"tx-size=4000000(MaxBlockPayload)/sigscript", W, true, func() (wire.Message, []byte) { return sizedTx(0, 4000000) }},
		{"tx-size=4000000(MaxBlockPayload)/witness-item", W, true, func() (wire.Message, []byte) { return sizedTx(1, 4000000) }},
		{"tx-size=4000001/pkscript", W, false, func() (wire.Message, []byte) { return sizedTx(2, 4000001) }},
		{"tx-inputs=818401(maxTxInPerMessage)", B, false, func() (wire.Message, []byte) { return manyInputsTx(818401) }},
		{"tx-inputs=818402", B, false, func() (wire.Message, []byte) { return manyInputsTx(818402) }},
	}
	if full {
		cs = append(cs,
			rawCase{"tx-size=4000000(MaxBlockPayload)/pkscript", B, true, func() (wire.Message, []byte) { return sizedTx(2, 4000000) }},
			rawCase{"tx-outputs=3728271(maxTxOutPerMessage)", B, false, func() (wire.Message, []byte) { return manyOutputsTx(3728271) }},
			rawCase{"tx-outputs=3728272", B, false, func() (wire.Message, []byte) { return manyOutputsTx(3728272) }},
			rawCase{"tx-witness-items=4000000(maxWitnessItemsPerInput)", W, false, func() (wire.Message, []byte) { return manyWitnessItemsTx(4000000) }},
			rawCase{"tx-witness-items=4000001", W, false, func() (wire.Message, []byte) { return manyWitnessItemsTx(4000001) }},
			rawCase{"tx-scripts=4194304(script slab)", B, false, func() (wire.Message, []byte) { return scriptTotalTx(4194304) }},
			rawCase{"tx-scripts=4194305", B, false, func() (wire.Message, []byte) { return scriptTotalTx(4194305) }},
			rawCase{"block-txs=400001(maxTxPerBlock)", B, false, func() (wire.Message, []byte) { return manyTxBlock(400001) }},
			rawCase{"block-txs=400002", B, false, func() (wire.Message, []byte) { return manyTxBlock(400002) }},
		)
	}
	return cs
}

func checkRaw(rc *rawCase) (fs []finding) {
	bad := func(kind, format string, a ...interface{}) {
		fs = append(fs, finding{kind, fmt.Sprintf(format, a...)})
	}
	w, refB := rc.build()
	implB, err, pn := implEncode(w, rc.c)
	if pn != "" {
		bad("panic-encode", "%s", pn)
		return
	}
	if err != nil {
		if rc.must {
			bad("encode-error", "BtcEncode failed: %v", err)
		}
	} else if !bytes.Equal(implB, refB) {
		bad("layout", "%s", firstDiff(implB, refB))
		return
	}
	implB = nil
	d := emptyMessage(w.Command())
	n, derr, pn := implDecode(d, refB, rc.c)
	if pn != "" {
		bad("panic-decode", "%s", pn)
		return
	}
	if derr != nil {
		if rc.must {
			bad("decode-error", "BtcDecode rejected a %d byte %s within all limits: %v", len(refB), w.Command(), derr)
		}
		return
	}
	if n != len(refB) {
		bad("consumed", "consumed %d of %d", n, len(refB))
	}
	reB, rerr, pn := implEncode(d, rc.c)
	if pn != "" || rerr != nil {
		bad("reencode", "re-encoding failed: %v %s", rerr, pn)
	} else if !bytes.Equal(reB, refB) {
		bad("reencode", "%s", firstDiff(reB, refB))
	}
	switch v := d.(type) {
	case *wire.MsgTx:
		if rc.c.Witness && v.SerializeSize() != len(refB) {
			bad("SerializeSize", "%d want %d", v.SerializeSize(), len(refB))
		}
		if !rc.c.Witness && v.SerializeSizeStripped() != len(refB) {
			bad("SerializeSizeStripped", "%d want %d", v.SerializeSizeStripped(), len(refB))
		}
	case *wire.MsgBlock:
		if !rc.c.Witness && v.SerializeSizeStripped() != len(refB) {
			bad("Block.SerializeSizeStripped", "%d want %d", v.SerializeSizeStripped(), len(refB))
		}
	}
	if rc.must && len(refB) <= 4000000 {
		var buf bytes.Buffer
		frame := rw.Frame(uint32(wire.MainNet), w.Command(), refB)
		if _, err := wire.WriteMessageWithEncodingN(&buf, w, rc.c.Pver, wire.MainNet, wireEnc(rc.c)); err != nil {
			bad("write-error", "WriteMessageWithEncodingN refused a maximum size %s: %v", w.Command(), err)
		} else if !bytes.Equal(buf.Bytes(), frame) {
			bad("frame-bytes", "%s", firstDiff(buf.Bytes(), frame))
		} else if _, _, pl, err := wire.ReadMessageWithEncodingN(bytes.NewReader(frame), rc.c.Pver, wire.MainNet, wireEnc(rc.c)); err != nil || !bytes.Equal(pl, refB) {
			bad("read-error", "ReadMessageWithEncodingN on a maximum size %s: %v", w.Command(), err)
		}
	}
	return
}

// ---------------------------------------------------------------------------

func replay(r *ev.Run, h *harness, tmp string) {
	var raw map[string]interface{}
	r.LoadReplay(&raw)
	part, _ := raw["part"].(string)
	if part == "b" {
		var rp bReplay
		r.LoadReplay(&rp)
		kinds, what, crashed, tail := runSingle(rp, tmp, "replay")
		if crashed {
			r.Violation("b/"+rp.Dec+"/fatal/"+rp.Input, "replayed case kills the process: "+firstLines(tail, 3), rp)
		} else if kinds != "" {
			r.Violation("b/"+rp.Dec+"/"+kinds+"/"+rp.Input, fmt.Sprint(what), rp)
		}
		return
	}
	var rp aReplay
	r.LoadReplay(&rp)
	c := rw.Ctx{Pver: rp.Pver, Witness: rp.Witness}
	var fs []finding
	switch rp.Sub {
	case "value", "framing", "framing-v2", "txapi", "blockapi":
		var v Rec
		if rp.Value != nil {
			v = recFromJSON(rp.Value).(Rec)
		} else {
			d := domain(rp.Cmd, rp.Full, true)
			if rp.DomIdx >= len(d) || d[rp.DomIdx].gen == nil {
				r.Broken("replay: no big value %d in the domain of %s", rp.DomIdx, rp.Cmd)
			}
			v = d[rp.DomIdx].gen()
		}
		vc := &valCase{cmd: rp.Cmd, v: v, lenient: rp.Lenient, label: rp.Label}
		switch rp.Sub {
		case "value":
			fs = checkValue(vc, c)
		case "framing":
			fs = checkFraming(vc, c, wire.BitcoinNet(rp.Net))
		case "framing-v2":
			fs = checkFramingV2(vc, c)
		case "txapi":
			fs = checkTxExtras(v.R("tx"))
		case "blockapi":
			fs = checkBlockExtras(v)
		}
	case "addrv2spec":
		fs, _ = checkAddrV2Spec(rp.ID, rp.Len, c)
	case "raw":
		for _, rc := range rawCases(true) {
			if rc.label == rp.Label {
				rc := rc
				fs = checkRaw(&rc)
			}
		}
	case "realblock":
		b, _ := hex.DecodeString(rp.Raw)
		blk, _, err := rw.Decode(rw.BlockFields, b, rw.Ctx{Witness: true})
		if err != nil {
			r.Broken("replay: %v", err)
		}
		fs = checkBlockExtras(blk)
	default:
		r.Broken("unknown replay sub %q", rp.Sub)
	}
	for _, f := range fs {
		key := fmt.Sprintf("a/%s/%s/%s/replay", rp.Sub, rp.Cmd, f.kind)
		if f.kind == "read-unknown-command" {
			key = fmt.Sprintf("a/%s/%s/read-unknown-command", rp.Sub, rp.Cmd)
		}
		r.Violation(key, f.what, rp)
	}
}

func main() {
	if spec := os.Getenv("C08_SINGLE"); spec != "" {
		singleMain(spec, os.Getenv("C08_OUT"))
		return
	}
	if spec := os.Getenv("C08_WORKER"); spec != "" {
		full := false
		for _, a := range os.Args[1:] {
			if a == "thorough" {
				full = true
			}
		}
		workerMain(spec, os.Getenv("C08_OUT"), full)
		return
	}

	r := ev.Start("C08")
	full := r.Thorough()
	h := &harness{r: r, perKey: map[string]int{}}
	tmp, err := os.MkdirTemp("", "c08-")
	if err != nil {
		r.Broken("tmp dir: %v", err)
	}

	r.Rule("part (a): one case = (message type, protocol version, encoding, value) with values from a product of small per-field domains " +
		"(boundary counts 0/1/2/0xfc/0xfd/0xffff/0x10000/limit/limit+1, integer extremes, every service bit, string lengths empty/max/max+1, BIP155 network ids x lengths); " +
		"the real BtcEncode/BtcDecode/Serialize*/hash/framing/btcutil results are compared with refwire; a case is non-trivial when the message is defined at that version (distinct by type|pver|enc|value). " +
		"part (b): one case = (decoder, pver, enc, input bytes): all strings of length <= 2 and, around each valid seed encoding, every truncation, every single byte substitution by {00,01,7f,80,fc,fd,fe,ff}, " +
		"every CompactSize field rewritten non-minimally and to every count limit / limit+1 / integer extreme, one trailing byte, framing header mutations; thorough adds all 256 values and all pairs of substitutions inside count/length/flag fields. " +
		"A hostile case is non-trivial when the decoder accepted it or rejected it for a reason other than running out of input.")
	r.Assume("refwire (table of layouts from the protocol documentation and BIP14/31/35/37/61/130/133/144/155/157/339) is correct; it is bound to the shipped mainnet blocks (hash, merkle root, BIP141 witness commitment), Core's tx_valid/tx_invalid/sighash vectors, megatx and the protocol documentation's verack/version examples before use")
	r.Assume("crypto/sha256, Go runtime allocation accounting (runtime.MemStats.TotalAlloc of a GOMAXPROCS=1 worker process) and os/exec are trusted")
	r.Assume("the harness's field-for-field conversion between wire structs and reference records (conv.go) is trusted; BIP155 address bytes are read back through ToLegacy()/String()")

	st := bindReference(r.Broken)

	if r.ReplayPath == "" {
		stabilityPhase(r)
	}
	if r.ReplayPath != "" {
		replay(r, h, tmp)
		os.RemoveAll(tmp)
		r.Finish(false)
	}

	t0 := time.Now()
	ncpu := runtime.NumCPU()
	nWorkers := ncpu / 2
	if nWorkers < 2 {
		nWorkers = 2
	}
	if nWorkers > 12 {
		nWorkers = 12
	}
	// part (b) runs in worker processes while part (a) runs here
	var perDec map[string]*decStat
	var wg sync.WaitGroup
	wg.Add(1)
	go func() {
		defer wg.Done()
		if os.Getenv("C08_SKIP_B") != "" { // development aid
			r.Cap("C08_SKIP_B set: part (b) not run")
			return
		}
		perDec = runWorkers(r, full, nWorkers, tmp)
	}()

	// part (a)
	var cases []*valCase
	perCmd := map[string]int{}
	for _, cmd := range allCmds {
		d := domain(cmd, full, true)
		perCmd[cmd] = len(d)
		for i := range d {
			d[i].di = i
			cases = append(cases, &d[i])
		}
	}
	// big first (longest jobs first)
	sort.SliceStable(cases, func(i, j int) bool { return cases[i].big && !cases[j].big })
	if os.Getenv("C08_SKIP_A") != "" { // development aid
		r.Cap("C08_SKIP_A set: part (a) value cases not run")
		cases = nil
	}
	slow := os.Getenv("C08_SLOW") != ""
	ev.Par(len(cases), ncpu-nWorkers, func(i int) {
		t := time.Now()
		h.runValueCase(cases[i], i)
		if d := time.Since(t); slow && d > 300*time.Millisecond {
			fmt.Fprintf(os.Stderr, "slow case %s/%s idx=%d: %v\n", cases[i].cmd, cases[i].label, cases[i].di, d)
		}
	})
	h.runAddrV2Spec()
	for i, blk := range st.realBlocks {
		blk := blk
		fs := checkBlockExtras(blk)
		r.Eval(1)
		r.Trace(1)
		r.Add("a_real_block_cases", 1)
		r.Nontrivial(fmt.Sprintf("realblock|%d", i))
		raw := rw.EncodeBytes(rw.BlockFields, blk, rw.Ctx{Witness: true})
		h.report("realblock", "block", rw.Ctx{Witness: true}, fmt.Sprintf("shipped-block-%d", i), hash8(raw), fs,
			func() []finding { return checkBlockExtras(blk) }, func() aReplay {
				return aReplay{Part: "a", Sub: "realblock", Cmd: "block", Raw: hex.EncodeToString(raw)}
			})
		vc := &valCase{cmd: "block", v: blk, label: "real", big: true}
		for _, c := range []rw.Ctx{{Pver: latest}, {Pver: latest, Witness: true}} {
			c := c
			fs := append(checkValue(vc, c), checkFraming(vc, c, wire.MainNet)...)
			r.Eval(1)
			r.Trace(1)
			h.report("realblock-msg", "block", c, fmt.Sprintf("shipped-block-%d", i), hash8(raw), fs,
				func() []finding { return append(checkValue(vc, c), checkFraming(vc, c, wire.MainNet)...) },
				func() aReplay {
					return aReplay{Part: "a", Sub: "realblock", Cmd: "block", Raw: hex.EncodeToString(raw)}
				})
		}
	}
	rcs := rawCases(full)
	for i := range rcs {
		rc := &rcs[i]
		fs := checkRaw(rc)
		r.Eval(1)
		r.Trace(1)
		r.Add("a_huge_count_cases", 1)
		r.Nontrivial("raw|" + rc.label)
		h.report("raw", "tx/block", rc.c, rc.label, "", fs, func() []finding { return checkRaw(rc) },
			func() aReplay {
				return aReplay{Part: "a", Sub: "raw", Label: rc.label, Pver: rc.c.Pver, Witness: rc.c.Witness}
			})
		runtime.GC()
	}
	aWall := time.Since(t0).Seconds()

	wg.Wait()
	mergeKeys(r, tmp, nWorkers)
	os.RemoveAll(tmp)

	maxX := 0.0
	for _, s := range perDec {
		if s.MaxAllocX > maxX {
			maxX = s.MaxAllocX
		}
	}
	var rawLabels []string
	for _, rc := range rcs {
		rawLabels = append(rawLabels, rc.label)
	}
	r.Set("bounds", map[string]interface{}{
		"message_types":                len(allCmds),
		"protocol_versions":            pversAll,
		"encodings":                    []string{"base", "witness"},
		"values_per_message_type":      perCmd,
		"addrv2_network_ids":           addrV2IDs,
		"addrv2_address_lengths":       addrV2Lens,
		"huge_count_cases":             rawLabels,
		"framing_networks":             []string{"MainNet", "TestNet3", "SimNet"},
		"hostile_short_strings":        "all byte strings of length 0,1,2 for every decoder",
		"hostile_substitution_bytes":   "00 01 7f 80 fc fd fe ff",
		"hostile_claimed_counts":       claimVals,
		"hostile_claimed_counts_small": claimValsSmall,
		"hostile_claim_policy":         map[bool]string{false: "every count/length field of the first 3 seeds of each decoder and context (tx: the witness seed; block: the empty block and the block holding it) is rewritten to every value of hostile_claimed_counts, the fields of the other seeds to hostile_claimed_counts_small", true: "every count/length field of every seed is rewritten to every value of hostile_claimed_counts"}[full],
		"hostile_frame_lengths":        frameLenVals,
		"hostile_deviations":           map[bool]string{false: "1 (quick)", true: "1 everywhere + all 256 values and all pairs within count/length/flag fields (thorough)"}[full],
		"hostile_worker_processes":     nWorkers,
		"alloc_bound_bytes":            allocBound,
		"alloc_bound_factor":           allocFactor,
	})
	r.Set("hostile_per_decoder", perDec)
	r.Set("max_alloc_x_MaxMessagePayload_observed", maxX)
	r.Set("reference_binding", map[string]interface{}{
		"mainnet_blocks": st.blocks, "transactions_in_blocks": st.blockTxs, "witness_commitments_verified": st.witnessCommitments,
		"core_tx_vectors": st.txVectors, "of_which_witness": st.txVectorsWitness,
	})
	r.Set("part_a_wall_s", aWall)
	exemptions, _ := json.Marshal(exemptionList)
	r.Set("canonicity_exemptions", json.RawMessage(exemptions))
	r.Finish(true)
}

var exemptionList = []string{
	"tx/block with a zero-input transaction in the witness-capable encoding: BIP144 uses a zero input count as the marker, such values are only demanded to round trip in the legacy encoding",
	"version: payloads ending after addr_recv/addr_from/nonce/user_agent/start_height are accepted (defaults fill the rest): only the consumed prefix must re-encode identically",
	"version: the relay byte is a bool (non-zero = true, re-encodes as 01); below pver 70001 a present relay byte is consumed but not part of the layout; version below pver 106 is unspecified",
	"addrv2: entries with unknown network ids, I2P/CJDNS, IPv4-mapped/OnionCat IPv6 are dropped (BIP155); the rest must re-encode to the input minus exactly those entries",
	"addr below pver 209 with more than one entry: btcd's encoder refuses what its decoder accepts; only the reference re-encoding is demanded",
	"fields that are not on the wire in a context (ping nonce <= 60000, addr time < 31402, version relay < 70001, reject hash unless tx/block) are not compared",
	"values beyond btcd's own limits (count max+1, user agent 257, filter 36001, ...) and transactions larger than 4,000,000 bytes may be refused; if they are not refused every demand applies",
	"sendaddrv2 below pver 70016: BIP155 names no version, nothing demanded",
}
