package main

import (
	"fmt"

	"github.com/btcsuite/btcd/database"

	"verif/engine/ev"
)

// ---------------------------------------------------------------- documented-contract probes
//
// A fixed list of misuse calls whose error code interface.go guarantees ("the
// interface contract guarantees at least the following errors").  These error
// codes are NOT part of property C05 (atomic / isolated / prefix-durable /
// byte-faithful / ordered), so a deviation is recorded in the evidence file
// (coverage key documented_contract_probes) and is not a violation; the DFS
// alphabets avoid these calls so that they cannot blur the refinement check.

type probeResult struct {
	Probe      string `json:"probe"`
	Documented string `json:"documented"`
	Observed   string `json:"observed"`
	Conforms   bool   `json:"conforms"`
}

func partProbes(r *ev.Run, _ *violSet) {
	s, err := newSess(cfg{fsLarge, false}, nil)
	if err != nil {
		cleanupAll()
		r.Broken("probes: %v", err)
	}
	defer s.destroy()
	var out []probeResult
	add := func(name string, want database.ErrorCode, got error) {
		out = append(out, probeResult{name, codeName(want), fmt.Sprintf("%s (%v)", codeName(codeOf(got)), got), codeOf(got) == want})
	}
	db := s.in.db
	// state: bucket "a" and key "k1" in the user root
	if err := db.Update(func(tx database.Tx) error {
		b := tx.Metadata().Bucket(userRoot)
		if _, e := b.CreateBucket([]byte("a")); e != nil {
			return e
		}
		return b.Put([]byte("k1"), []byte("v"))
	}); err != nil {
		cleanupAll()
		r.Broken("probes setup: %v", err)
	}
	rt := s.ref.Begin(true)
	rt.CreateBucket(nil, []byte("a"))
	rt.Put(nil, []byte("k1"), []byte("v"))
	rt.Commit()
	db.Update(func(tx database.Tx) error {
		b := tx.Metadata().Bucket(userRoot)
		add("Put(key equal to the name of an existing nested bucket)", database.ErrIncompatibleValue, b.Put([]byte("a"), []byte("x")))
		return errSentinel
	})
	db.Update(func(tx database.Tx) error {
		b := tx.Metadata().Bucket(userRoot)
		add("Delete(key equal to the name of an existing nested bucket)", database.ErrIncompatibleValue, b.Delete([]byte("a")))
		return errSentinel
	})
	db.Update(func(tx database.Tx) error {
		b := tx.Metadata().Bucket(userRoot)
		add("Delete(empty key)", database.ErrKeyRequired, b.Delete(nil))
		add("Put(empty key)", database.ErrKeyRequired, b.Put(nil, []byte("x")))
		_, e := b.CreateBucket(nil)
		add("CreateBucket(empty name)", database.ErrBucketNameRequired, e)
		_, e = b.CreateBucketIfNotExists(nil)
		add("CreateBucketIfNotExists(empty name)", database.ErrBucketNameRequired, e)
		add("DeleteBucket(missing)", database.ErrBucketNotFound, b.DeleteBucket([]byte("nope")))
		c := b.Cursor()
		c.Last() // on the nested bucket "a"
		add("Cursor.Delete on a nested bucket", database.ErrIncompatibleValue, c.Delete())
		return errSentinel
	})
	db.View(func(tx database.Tx) error {
		b := tx.Metadata().Bucket(userRoot)
		c := b.Cursor()
		c.First()
		add("Cursor.Delete in a read-only transaction", database.ErrTxNotWritable, c.Delete())
		// consequence for the reader's own snapshot (informational)
		c2 := b.Cursor()
		seen := false
		for ok := c2.First(); ok; ok = c2.Next() {
			if string(c2.Key()) == "k1" {
				seen = true
			}
		}
		out = append(out, probeResult{"after Cursor.Delete in a read-only tx: a new cursor still shows the key", "true", fmt.Sprint(seen), seen})
		return nil
	})
	// managed transactions: Commit / Rollback panic and the database stays usable
	for _, which := range []string{"Commit", "Rollback"} {
		p := safely(func() {
			db.Update(func(tx database.Tx) error {
				if which == "Commit" {
					return tx.Commit()
				}
				return tx.Rollback()
			})
		})
		out = append(out, probeResult{which + " inside Update panics", "panic", fmt.Sprintf("panic=%q", p), p != ""})
	}
	if d := s.checkCommitted("after-probes"); d != nil {
		out = append(out, probeResult{"state after all refused calls unchanged", "unchanged", d.What, false})
	}
	// closed database
	s.in.db.Close()
	_, e := db.Begin(false)
	add("Begin on a closed database", database.ErrDbNotOpen, e)
	add("View on a closed database", database.ErrDbNotOpen, db.View(func(database.Tx) error { return nil }))
	add("Close twice", database.ErrDbNotOpen, db.Close())
	s.in.db = nil
	dev := 0
	for _, p := range out {
		if !p.Conforms {
			dev++
		}
	}
	r.Set("documented_contract_probes", out)
	r.Add("documented_contract_deviations", int64(dev))
	r.Eval(len(out))
}
