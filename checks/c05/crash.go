package main

import (
	"crypto/sha256"
	"fmt"
	"os"
	"path/filepath"
	"runtime"
	"sort"
	"strings"
	"sync"

	"github.com/btcsuite/btcd/database"
	"github.com/btcsuite/btcd/database/ffldb"

	"verif/engine/ev"
	"verif/ref/refdb"
)

// ---------------------------------------------------------------- part (c): crash enumeration
//
// Every fixed history is run once with the recorder on.  The log holds
// OpenWrite / WriteAt(file,off,bytes) / Sync(file) / Truncate / Close / Delete
// events, StepEnd(j[,flushed]) events written by the driver when a step has
// returned (j = committed steps so far; "flushed": the step promised durability
// -- flush-on-commit, forced flush, clean close), and LDB#k markers.
//
// LDB#k markers are OBSERVED, not inferred: at every recorded file event and at
// every step end the recorder looks at the leveldb directory of the database
// under test; if its logical content changed since the last look, a verified
// point-in-time copy of the directory becomes "metadata state #k" and the marker
// is appended BEFORE the current event (see fsim.observeLocked).  Everything runs
// in one goroutine, so a marker is ordered exactly with respect to the block-file
// events around it (sync-before-commit, delete-before/after-commit ...).  Two
// leveldb commits with no block-file event between them are seen as one change.
//
// For EVERY prefix of the log and EVERY subset of the writes not covered by a
// later Sync of the same file (inside the prefix) being dropped -- the newest
// `cap` unsynced writes are varied exhaustively, older ones are kept, plus the
// all-dropped image -- and the last write additionally torn at half length, the
// block-file directory is materialised, the copy of metadata state #k (k = last
// marker inside the prefix) is put next to it, and the image is opened through
// database.Open (-> reconcileDB).
//
// Oracle: Open succeeds; the full dump equals refdb after SOME prefix j of the
// committed steps (j = -1: not even the setup transaction), never a mixture; j is
// not older than the newest StepEnd(j,flushed) inside the log prefix; every block
// the metadata indexes is readable and byte-identical (part of the dump);
// afterwards a new transaction (Put + StoreBlock) commits, is visible and
// survives a clean close + reopen.

type crashHist struct {
	h      ioHist
	log    []fsEvent
	states map[int]*refdb.State // j committed steps -> reference state (j = 0: setup only)
	meta   map[int]string       // observed metadata state #k -> directory holding its verified copy
	nSteps int
	fs     *fsim
}

// recordHistory runs the history with the recorder on; the metadata states are
// the copies the recorder took whenever it saw the leveldb directory change.
func recordHistory(h ioHist) (*crashHist, *disc, error) {
	fs := &fsim{record: true}
	s, err := newSess(h.Cfg, fs) // observes state #0 after Create, logs StepEnd(0) after the setup tx
	if err != nil {
		return nil, nil, err
	}
	defer s.destroy()
	ch := &crashHist{h: h, states: map[int]*refdb.State{}, fs: fs}
	committed := 0 // committed steps so far
	ch.states[0] = s.ref.Committed().Clone()
	fail := func(d *disc) (*crashHist, *disc, error) {
		fs.cleanupSnaps()
		return nil, d, nil
	}
	for i, st := range h.Steps {
		r := s.runStep(i, st, false)
		if r.d != nil {
			return fail(r.d)
		}
		if r.commitErr != nil {
			return fail(&disc{Class: "Commit/error", What: r.commitErr.Error(), Step: i, Op: -1})
		}
		switch {
		case st.Kind == "reopen":
			fs.stepEnd(committed, true)
		case st.isTx() && st.End == "commit" && st.writable():
			committed++
			ch.states[committed] = s.ref.Committed().Clone()
			fs.stepEnd(committed, h.Cfg.FlushEvery || st.Flush == "force")
		default:
			fs.stepEnd(committed, false)
		}
	}
	ch.nSteps = committed
	if err := s.in.close(); err != nil {
		return fail(&disc{Class: "Close/error", What: err.Error(), Op: -1})
	}
	fs.stepEnd(committed, true)
	fs.mu.Lock()
	ch.log = append([]fsEvent{}, fs.log...)
	ch.meta = fs.snaps
	obsErr := fs.obsErr
	fs.mu.Unlock()
	if obsErr != "" {
		fs.cleanupSnaps()
		return nil, nil, fmt.Errorf("metadata observation: %s", obsErr)
	}
	if len(ch.log) == 0 || ch.log[0].Kind != evMark || ch.log[0].N != 0 {
		fs.cleanupSnaps()
		return nil, nil, fmt.Errorf("metadata observation: the log does not start with LDB#0")
	}
	return ch, nil, nil
}

func copyDir(src, dst string) error {
	if err := os.MkdirAll(dst, 0o700); err != nil {
		return err
	}
	ents, err := os.ReadDir(src)
	if err != nil {
		return err
	}
	for _, e := range ents {
		if e.IsDir() {
			continue
		}
		b, err := os.ReadFile(filepath.Join(src, e.Name()))
		if err != nil {
			return err
		}
		if err := os.WriteFile(filepath.Join(dst, e.Name()), b, 0o600); err != nil {
			return err
		}
	}
	return nil
}

// ---- image construction

type pendingWrite struct {
	idx  int // index in the log
	file uint32
	off  int64
	data []byte
}

type diskState struct {
	files            map[uint32][]byte // durable content
	pending          []pendingWrite    // unsynced writes in log order
	m                int               // newest observed metadata state inside the prefix (LDB#m)
	jmin             int               // newest StepEnd(j, flushed) inside the prefix: the recovered state must not be older
	lastIsWrite      bool
	deletedAfterMark bool // a Delete happened after the newest LDB marker in the prefix
}

func applyWrite(buf []byte, off int64, data []byte) []byte {
	end := int(off) + len(data)
	if end > len(buf) {
		nb := make([]byte, end)
		copy(nb, buf)
		buf = nb
	}
	copy(buf[off:], data)
	return buf
}

// stateAt replays the first p events.
func stateAt(log []fsEvent, p int) *diskState {
	ds := &diskState{files: map[uint32][]byte{}, m: -1, jmin: -1}
	for i := 0; i < p; i++ {
		e := log[i]
		ds.lastIsWrite = false
		switch e.Kind {
		case evOpenW:
			if _, ok := ds.files[e.File]; !ok {
				ds.files[e.File] = []byte{}
			}
		case evWrite:
			ds.pending = append(ds.pending, pendingWrite{i, e.File, e.Off, e.Data})
			ds.lastIsWrite = true
		case evSync:
			var keep []pendingWrite
			for _, w := range ds.pending {
				if w.file == e.File {
					ds.files[w.file] = applyWrite(ds.files[w.file], w.off, w.data)
				} else {
					keep = append(keep, w)
				}
			}
			ds.pending = keep
		case evTrunc:
			// durable immediately; pending writes are clipped
			if b, ok := ds.files[e.File]; ok {
				if len(b) > e.N {
					ds.files[e.File] = b[:e.N]
				} else if len(b) < e.N {
					ds.files[e.File] = applyWrite(b, int64(e.N), nil)
				}
			}
			var keep []pendingWrite
			for _, w := range ds.pending {
				if w.file == e.File {
					if w.off >= int64(e.N) {
						continue
					}
					if w.off+int64(len(w.data)) > int64(e.N) {
						w.data = w.data[:int64(e.N)-w.off]
					}
				}
				keep = append(keep, w)
			}
			ds.pending = keep
		case evDelete:
			delete(ds.files, e.File)
			var keep []pendingWrite
			for _, w := range ds.pending {
				if w.file != e.File {
					keep = append(keep, w)
				}
			}
			ds.pending = keep
			ds.deletedAfterMark = true
		case evMark:
			if e.N > ds.m {
				ds.m = e.N
			}
			ds.deletedAfterMark = false
		case evStep:
			if e.Off == 1 && e.N > ds.jmin {
				ds.jmin = e.N
			}
		}
	}
	return ds
}

// image materialises the files with the pending writes in `drop` omitted and
// optionally the last pending write torn to half its length.
func (ds *diskState) image(drop map[int]bool, tornLast bool) map[uint32][]byte {
	out := map[uint32][]byte{}
	for f, b := range ds.files {
		out[f] = append([]byte{}, b...)
	}
	for i, w := range ds.pending {
		if drop[w.idx] {
			continue
		}
		data := w.data
		if tornLast && i == len(ds.pending)-1 {
			data = data[:len(data)/2]
			if len(data) == 0 {
				continue
			}
		}
		if _, ok := out[w.file]; !ok {
			out[w.file] = []byte{}
		}
		out[w.file] = applyWrite(out[w.file], w.off, data)
	}
	return out
}

func imageHash(m int, files map[uint32][]byte) [32]byte {
	h := sha256.New()
	fmt.Fprintf(h, "m=%d|", m)
	var nums []int
	for f := range files {
		nums = append(nums, int(f))
	}
	sort.Ints(nums)
	for _, f := range nums {
		fmt.Fprintf(h, "f%d:%d:", f, len(files[uint32(f)]))
		h.Write(files[uint32(f)])
	}
	var o [32]byte
	copy(o[:], h.Sum(nil))
	return o
}

// checkImage opens one crash image and applies the oracle.
func (ch *crashHist) checkImage(m, jmin int, files map[uint32][]byte) *disc {
	dir := newDir("img")
	defer os.RemoveAll(dir)
	if _, ok := ch.meta[m]; !ok {
		return &disc{Class: "harness", What: fmt.Sprintf("no copy of metadata state #%d", m)}
	}
	if err := copyDir(ch.meta[m], filepath.Join(dir, ffldb.VerifMetadataDirName)); err != nil {
		return &disc{Class: "harness", What: err.Error()}
	}
	for f, b := range files {
		if err := os.WriteFile(filepath.Join(dir, ffldb.VerifBlockFileName(f)), b, 0o600); err != nil {
			return &disc{Class: "harness", What: err.Error()}
		}
	}
	in := &inst{dir: dir, cfg: ch.h.Cfg}
	var oerr error
	if p := safely(func() { oerr = in.open() }); p != "" {
		return &disc{Class: "open/panic", What: "database.Open panicked: " + p, Op: -1}
	}
	if oerr != nil {
		return &disc{Class: "open/error", What: "database.Open of the crash image failed: " + oerr.Error(), Op: -1}
	}
	defer in.destroy()
	// which prefix of the committed steps did the store come back to?
	var st *refdb.State
	j := -2
	var hasRoot bool
	if err := in.db.View(func(tx database.Tx) error {
		hasRoot = tx.Metadata().Bucket(userRoot) != nil
		if hasRoot {
			return nil
		}
		for i := range blocks {
			if ok, _ := tx.HasBlock(&blocks[i].hash); ok {
				return fmt.Errorf("block %d present", i)
			}
		}
		return nil
	}); err != nil {
		return &disc{Class: "dump-after-crash-recovery/state", What: "the reopened store has no user root bucket but " + err.Error(), Op: -1}
	}
	if !hasRoot {
		// not even the setup transaction came back
		j = -1
		if jmin > j {
			return &disc{Class: "dump-after-crash-recovery/older-than-completed-flush", What: fmt.Sprintf("the store reopened empty although %d committed step(s) had been flushed before the crash", jmin), Op: -1}
		}
		if err := in.db.Update(func(tx database.Tx) error {
			_, e := tx.Metadata().CreateBucket(userRoot)
			return e
		}); err != nil {
			return &disc{Class: "recovery-next-transaction/error", What: err.Error(), Op: -1}
		}
		st = refdb.NewState()
	} else {
		got, err := in.viewDump()
		if err != nil {
			return &disc{Class: "dump-after-crash-recovery/error", What: "reading back the full state failed: " + err.Error(), Op: -1}
		}
		for c := ch.nSteps; c >= 0; c-- {
			if ch.states[c].Dump() == got {
				j = c
				break
			}
		}
		if j == -2 {
			want := ch.states[ch.nSteps].Dump()
			if jmin >= 0 {
				want = ch.states[jmin].Dump()
			}
			return &disc{Class: "dump-after-crash-recovery/state", What: fmt.Sprintf("the recovered state is not the state after ANY prefix of the %d committed steps (a mixture): %s", ch.nSteps, shortDiff(got, want)), Op: -1}
		}
		if j < jmin {
			return &disc{Class: "dump-after-crash-recovery/older-than-completed-flush", What: fmt.Sprintf("the store came back in the state after %d committed step(s) although %d had been flushed before the crash", j, jmin), Op: -1}
		}
		st = ch.states[j].Clone()
	}
	s := &sess{in: in, ref: refdb.FromState(st), skipInvalidRegions: true}
	if d := s.checkCommitted("after-crash-recovery"); d != nil {
		return d
	}
	next := Step{Kind: "U", Ops: []string{"put::k3:Z"}, End: "commit"}
	for i := range blocks {
		if _, ok := st.Blocks[hashOf(i)]; !ok {
			next.Ops = append(next.Ops, fmt.Sprintf("sb:%d", i))
			break
		}
	}
	r := s.runStep(0, next, true)
	if r.d == nil && len(r.soft) > 0 {
		r.d = r.soft[0]
	}
	if r.d == nil && r.commitErr != nil {
		r.d = &disc{Class: "error", What: "the transaction after recovery failed: " + r.commitErr.Error(), Op: -1}
	}
	if r.d != nil {
		r.d.Class = "recovery-next-transaction:" + r.d.Class
		return r.d
	}
	if r := s.runStep(1, Step{Kind: "reopen"}, false); r.d != nil {
		r.d.Class = "recovery-next-transaction:" + r.d.Class
		return r.d
	}
	return nil
}

type crashCase struct {
	Prefix  int
	Dropped []int
	Torn    bool
}

// cause names the mechanism behind a failing image (stable part of the key).
func (ch *crashHist) cause(ds *diskState, c crashCase) string {
	maxFile := uint32(0)
	for f := range ds.files {
		if f > maxFile {
			maxFile = f
		}
	}
	for _, w := range ds.pending {
		if w.file > maxFile {
			maxFile = w.file
		}
	}
	lost := map[int]bool{}
	for _, i := range c.Dropped {
		lost[i] = true
	}
	prevLost, curLost := false, false
	for i, w := range ds.pending {
		if lost[w.idx] || (c.Torn && i == len(ds.pending)-1) {
			if w.file < maxFile {
				prevLost = true
			} else {
				curLost = true
			}
		}
	}
	switch {
	case ds.deletedAfterMark:
		return "prune-files-deleted-before-metadata-durable"
	case prevLost:
		return "rollover-unsynced-prev-file"
	case curLost:
		return "unsynced-write-lost-in-current-file"
	}
	return "no-write-lost"
}

func (ch *crashHist) runCase(c crashCase) (*disc, string) {
	ds := stateAt(ch.log, c.Prefix)
	drop := map[int]bool{}
	for _, i := range c.Dropped {
		drop[i] = true
	}
	d := ch.checkImage(ds.m, ds.jmin, ds.image(drop, c.Torn))
	if d == nil {
		return nil, ""
	}
	return d, fmt.Sprintf("crash/%s/%s/%s", ch.h.Tag, ch.cause(ds, c), d.Class)
}

func replayCrash(rp replayObj) string {
	h, ok := findHist(rp.Name)
	if !ok {
		return "harness-error: unknown history " + rp.Name
	}
	ch, d, err := recordHistory(h)
	if err != nil {
		return "harness-error: " + err.Error()
	}
	if d != nil {
		return "crash-record/" + h.Tag + "/" + d.Class
	}
	defer ch.cleanup()
	_, key := ch.runCase(crashCase{Prefix: rp.Prefix, Dropped: rp.Dropped, Torn: rp.Torn == "half"})
	return key
}

func (ch *crashHist) cleanup() {
	ch.fs.cleanupSnaps()
}

func partCrash(r *ev.Run, viols *violSet) {
	capBits := r.Pick(4, 10)
	dry := os.Getenv("C05_CRASH_DRY") != "" // development aid: count images only
	workers := runtime.NumCPU()
	hists := ioHistories()
	var mu sync.Mutex
	perHist := map[string]map[string]int{}
	var totalImages, distinctImages, capped int64
	sampled := false
	for _, h := range hists {
		if expired(r) {
			r.Cap("part (c): time box hit before history " + h.Name)
			break
		}
		ch, d, err := recordHistory(h)
		if err != nil {
			cleanupAll()
			r.Broken("part (c) harness: %v", err)
		}
		if d != nil {
			viols.add("crash-record/"+h.Tag+"/"+d.Class, fmt.Sprintf("history %s failed without any crash: %s", h.Name, d), replayObj{Part: "c", Name: h.Name, Cfg: h.Cfg, Prefix: -1}, 1)
			continue
		}
		// enumerate the cases, deduplicating identical images
		var cases []crashCase
		seen := map[[32]byte]bool{}
		add := func(ds *diskState, c crashCase) {
			drop := map[int]bool{}
			for _, i := range c.Dropped {
				drop[i] = true
			}
			totalImages++
			hsh := imageHash(ds.m*1000+ds.jmin+1, ds.image(drop, c.Torn))
			if seen[hsh] {
				return
			}
			seen[hsh] = true
			cases = append(cases, c)
		}
		maxUnsynced := 0
		for p := 1; p <= len(ch.log); p++ { // the log starts with LDB#0 (the freshly created database)
			ds := stateAt(ch.log, p)
			n := len(ds.pending)
			if n > maxUnsynced {
				maxUnsynced = n
			}
			vary := n
			if vary > capBits {
				vary = capBits
				capped++
			}
			for mask := 0; mask < 1<<vary; mask++ {
				var dropped []int
				for b := 0; b < vary; b++ {
					if mask&(1<<b) != 0 {
						dropped = append(dropped, ds.pending[n-1-b].idx)
					}
				}
				sort.Ints(dropped)
				add(ds, crashCase{Prefix: p, Dropped: dropped})
				// torn last write (only meaningful when the last write is kept)
				if ds.lastIsWrite && n > 0 && mask&1 == 0 {
					add(ds, crashCase{Prefix: p, Dropped: dropped, Torn: true})
				}
			}
			if vary < n { // the all-dropped image
				var dropped []int
				for _, w := range ds.pending {
					dropped = append(dropped, w.idx)
				}
				add(ds, crashCase{Prefix: p, Dropped: dropped})
			}
		}
		distinctImages += int64(len(cases))
		fails := 0
		ev.Par(len(cases), workers, func(i int) {
			if expired(r) {
				return
			}
			c := cases[i]
			if dry {
				return
			}
			d, key := ch.runCase(c)
			r.Eval(1)
			r.Trace(1)
			r.Trans(3)
			r.Nontrivial(fmt.Sprintf("crash|%s|%d|%v|%v", h.Name, c.Prefix, c.Dropped, c.Torn))
			if d == nil {
				return
			}
			if d.Class == "harness" {
				mu.Lock()
				fails = -1 << 30
				mu.Unlock()
				return
			}
			mu.Lock()
			fails++
			mu.Unlock()
			var evs []string
			for _, e := range ch.log[:c.Prefix] {
				evs = append(evs, e.String())
			}
			torn := ""
			if c.Torn {
				torn = "half"
			}
			what := fmt.Sprintf("history %s (cfg %s): %s ; crash after log prefix %d [%s], unsynced writes dropped (log indices) %v, last write torn=%v => %s", h.Name, h.Cfg, histString(h.Steps), c.Prefix, strings.Join(evs, " "), c.Dropped, c.Torn, d.String())
			viols.add(key, what, replayObj{Part: "c", Name: h.Name, Cfg: h.Cfg, Prefix: c.Prefix, Dropped: c.Dropped, Torn: torn}, c.Prefix*4+len(c.Dropped)*2+len(torn))
		})
		if fails < 0 {
			cleanupAll()
			r.Broken("part (c) harness: cannot materialise crash images")
		}
		perHist[h.Name] = map[string]int{"observed_metadata_states": len(ch.meta), "log_events": len(ch.log), "distinct_images": len(cases), "max_unsynced_writes": maxUnsynced, "failing_images": fails}
		if !sampled && len(cases) > 3 {
			sampled = true
			var evs []string
			for _, e := range ch.log {
				evs = append(evs, e.String())
			}
			r.Sample(map[string]interface{}{"part": "c", "history": h.Name, "steps": histString(h.Steps), "log": evs})
		}
		ch.cleanup()
		if expired(r) {
			r.Cap("part (c): time box hit in history " + h.Name)
			break
		}
	}
	r.Add("crash_images_enumerated", totalImages)
	r.Add("crash_images_distinct_opened", distinctImages)
	r.Add("crash_prefixes_with_subset_cap_applied", capped)
	r.Set("crash_subset_cap_bits", capBits)
	r.Set("crash_per_history", perHist)
}
