package main

import "verif/engine/ev"

func partFault(r *ev.Run, v *violSet)  {}
func partCrash(r *ev.Run, v *violSet)  {}
func replayFault(rp replayObj) string { return "" }
func replayCrash(rp replayObj) string { return "" }
