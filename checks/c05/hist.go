package main

import (
	"os"
	"strings"
)

// ---------------------------------------------------------------- fixed I/O histories (parts b and c)
//
// Short histories of committed Update/Begin..Commit steps that exercise block
// stores across a file roll-over, pruning, bucket operations, reads inside an
// update, forced cache flushes and a clean reopen.  Part (b) fails every I/O
// call of every history in turn, part (c) crashes every history at every point.

type ioHist struct {
	Name  string
	Tag   string // coarse class used in violation keys: store | rollover | prune | bucket | read | keys
	Cfg   cfg
	Steps []Step
}

func u(ops ...string) Step   { return Step{Kind: "U", Ops: ops, End: "commit"} }
func uf(ops ...string) Step  { return Step{Kind: "U", Ops: ops, End: "commit", Flush: "force"} }
func w(ops ...string) Step   { return Step{Kind: "W", Ops: ops, End: "commit"} }
func urb(ops ...string) Step { return Step{Kind: "U", Ops: ops, End: "rollback"} }
func reopenStep() Step       { return Step{Kind: "reopen"} }
func every(fs string) cfg    { return cfg{fs, true} }
func never(fs string) cfg    { return cfg{fs, false} }

func ioHistories() []ioHist {
	all := []ioHist{
		{"store-large-every", "store", every(fsLarge), []Step{u("sb:0"), u("sb:1"), u("put::k1:A")}},
		{"store-large-never-force", "store", never(fsLarge), []Step{u("sb:0"), u("sb:1", "put::k1:A"), uf("sb:2")}},
		{"store-large-onetx", "store", every(fsLarge), []Step{u("sb:0", "sb:1", "sb:2")}},
		{"rollover-tiny-every", "rollover", every(fsTiny), []Step{u("sb:0"), u("sb:1"), u("sb:2")}},
		{"rollover-tiny-never-intx", "rollover", never(fsTiny), []Step{u("sb:0", "sb:1"), uf("sb:2")}},
		{"rollover-tiny-every-onetx", "rollover", every(fsTiny), []Step{u("sb:0", "sb:1", "sb:2")}},
		{"rollover-tiny-never-force-mid", "rollover", never(fsTiny), []Step{u("sb:0"), uf("sb:1"), u("sb:2"), uf("put::k1:A")}},
		{"rollover-fit2-every", "rollover", every(fsFit2), []Step{u("sb:0"), u("sb:1"), u("sb:2")}},
		{"rollover-fit2-never-onetx", "rollover", never(fsFit2), []Step{u("sb:0", "sb:1", "sb:2"), uf("put::k1:A")}},
		{"rollover-fit2-order", "rollover", every(fsFit2), []Step{u("sb:1"), u("sb:0"), u("sb:2")}},
		{"rollover-manual-tx", "rollover", every(fsTiny), []Step{w("sb:0"), w("sb:1", "put::k2:A")}},
		{"rollover-after-rollback", "rollover", never(fsTiny), []Step{u("sb:0"), urb("sb:1"), uf("sb:2")}},
		{"rollover-reopen-mid", "rollover", never(fsTiny), []Step{u("sb:0"), reopenStep(), u("sb:1"), uf("sb:2")}},
		{"prune-one-file", "prune", every(fsTiny), []Step{u("sb:0"), u("sb:1", "sb:2"), u("pr:2")}},
		{"prune-two-files", "prune", every(fsTiny), []Step{u("sb:0"), u("sb:1"), u("sb:2"), u("pr:1")}},
		{"prune-never", "prune", never(fsTiny), []Step{u("sb:0", "sb:1"), u("sb:2"), u("pr:1"), uf("put::k1:A")}},
		{"prune-and-store", "prune", every(fsTiny), []Step{u("sb:0"), u("sb:1"), u("pr:1", "sb:2")}},
		{"prune-then-store", "prune", never(fsTiny), []Step{u("sb:0"), uf("sb:1"), u("pr:1"), u("sb:2")}},
		{"bucket-every", "bucket", every(fsLarge), []Step{u("mk:a", "put:a:k1:B"), u("mk:a/b", "put:a/b:k1:C", "sb:0"), u("rm:a")}},
		{"bucket-never-force", "bucket", never(fsLarge), []Step{u("mk:a", "put:a:k1:B"), uf("rm:a", "mk:a", "sb:0"), u("put:a:k2:")}},
		{"read-in-update", "read", every(fsTiny), []Step{u("sb:0"), u("sb:1"), u("fb:0", "put::k1:A"), u("fb:1", "fb:0", "sb:2")}},
		{"read-in-update-never", "read", never(fsTiny), []Step{u("sb:0", "sb:1"), u("fb:0", "fb:1", "sb:2")}},
		{"keys-never-force", "keys", never(fsLarge), []Step{u("put::k1:A"), u("del::k1", "put::k2:A"), uf("put::k3:")}},
		{"keys-and-block-every", "store", every(fsLarge), []Step{u("put::k1:A", "sb:1"), u("del::k1", "sb:0")}},
	}
	if only := os.Getenv("C05_HIST"); only != "" { // development aid
		var out []ioHist
		for _, h := range all {
			if strings.Contains(","+only+",", ","+h.Name+",") {
				out = append(out, h)
			}
		}
		return out
	}
	return all
}
