#!/bin/bash
# C05 runner: main binary (parts a,a',b,c) + scheduler binary for part (d) built
# through a sync->vsync overlay regenerated from the CURRENT ffldb/treap sources
# + free-running -race binary.
cd "$(dirname "$0")/../.." || exit 2
. scripts/env.sh
REPO=${VERIF_REPO:-/repo}
out=${VERIF_OUT:-bin/c05}
work=bin/c05-overlay-$(echo "$REPO" | md5sum | cut -c1-8)
rm -rf "$work"; mkdir -p "$work"
if ! $VGO run ./engine/rewrite -sync "$REPO/database/ffldb,$REPO/database/internal/treap" -out "$work" -overlay "$work/overlay.json" 2> "$out.buildlog"; then
  cat "$out.buildlog"; echo "BROKEN-CHECK property=C05 rewriter failed on the current ffldb sources"; exit 2
fi
if ! $VGO build $VERIF_MODFLAG -tags verif -o "$out" ./checks/c05 2> "$out.buildlog"; then
  head -40 "$out.buildlog"; echo "BROKEN-CHECK property=C05 build failed"; exit 2
fi
if ! $VGO build $VERIF_MODFLAG -overlay "$work/overlay.json" -tags verif -o "$out-sched" ./checks/c05/sched 2> "$out.buildlog"; then
  head -40 "$out.buildlog"; echo "BROKEN-CHECK property=C05 scheduler build failed"; exit 2
fi
if ! $VGO build $VERIF_MODFLAG -race -tags verif -o "$out-race" ./checks/c05/race 2> "$out.buildlog"; then
  head -40 "$out.buildlog"; echo "BROKEN-CHECK property=C05 race build failed"; exit 2
fi
export C05D_BIN="$PWD/$out-sched" C05_RACE_BIN="$PWD/$out-race"
ulimit -v 67108864 2>/dev/null
exec "$out" "$@"
