package main

import (
	"fmt"

	"verif/engine/ev"
)

func scenarios(r *ev.Run) []scenario {
	both := func(fs string) []cfg { return []cfg{{fs, true}, {fs, false}} }
	th := r.Thorough()
	// KC: one bucket, 3 keys, full cursor alphabet (deepest)
	kc := scenario{Name: "keys+cursor", Cfgs: both(fsLarge), MaxTx: r.Pick(2, 3), Reopen: 1, Hold: true, HoldNeverOnly: !th, ObsBuckets: []string{""}, NoBlockObs: true,
		WOps:  []string{"put::k1:A", "put::k2:A", "put::k3:", "del::k1", "del::k2", "del::k3", "cf:", "cl:", "cs::k2", "cs::k25", "cn", "cp", "cd"},
		ROps:  []string{"cf:", "cl:", "cs::k2", "cs::k25", "cn", "cp"},
		Depth: r.Pick(4, 5)}
	if !th {
		kc.WOps = []string{"put::k1:A", "put::k2:A", "put::k3:", "del::k1", "del::k2", "cf:", "cl:", "cs::k2", "cn", "cp", "cd"}
		kc.ROps = []string{"cf:", "cl:", "cs::k2", "cn", "cp"}
	}
	// K3: three committed transactions colliding on one key (cache add/remove interplay)
	k3Cfgs := both(fsLarge)
	if !th {
		k3Cfgs = []cfg{{fsLarge, false}} // the cache add/remove interplay only exists without flush-on-commit
	}
	k3 := scenario{Name: "one-key-3tx", Cfgs: k3Cfgs, MaxTx: 3, Reopen: r.Pick(1, 2), Hold: true, HoldNeverOnly: !th, ObsBuckets: []string{""}, NoBlockObs: true,
		WOps:  []string{"put::k1:A", "put::k1:", "del::k1", "put::k2:A", "cf:", "cn", "cd"},
		ROps:  []string{"cf:", "cn"},
		Depth: r.Pick(3, 5)}
	// KB: nested buckets
	kb := scenario{Name: "buckets", Cfgs: both(fsLarge), MaxTx: r.Pick(2, 3), Reopen: 1, Hold: false, NoBlockObs: true,
		WOps: []string{"mk:a", "mk:b", "mk:a/a", "mk:a/b", "mkq:a", "mkq:a/b", "rm:a", "rm:b", "rm:a/a", "rm:a/b",
			"put::k1:A", "put:a:k1:B", "put:a:k2:", "put:a/b:k1:C", "del:a:k1", "del:a/b:k1",
			"cf:", "cl:a", "cs::k1", "cs:a:k2", "cn", "cp", "cd"},
		ROps:  []string{"cf:", "cl:", "cf:a", "cs:a:k2", "cn", "cp"},
		Depth: r.Pick(3, 4)}
	// BL: blocks x file-size regimes
	blOps := []string{"sb:0", "sb:1", "sb:2", "put::k1:A", "del::k1"}
	bl := scenario{Name: "blocks-rollover", Cfgs: both(fsTiny), MaxTx: r.Pick(2, 3), Reopen: 1, Hold: true, HoldNeverOnly: !th, ObsBuckets: []string{""},
		WOps: blOps, ROps: []string{"cf:"}, Depth: r.Pick(4, 5)}
	bl2Cfgs := append(both(fsFit2), both(fsLarge)...)
	if !th {
		// the file layout does not depend on the flush policy: one policy each
		bl2Cfgs = []cfg{{fsFit2, true}, {fsLarge, false}}
	}
	bl2 := scenario{Name: "blocks-fit-and-large", Cfgs: bl2Cfgs, MaxTx: r.Pick(2, 3), Reopen: 1, Hold: th, ObsBuckets: []string{""},
		WOps: blOps, ROps: []string{"cf:"}, Depth: r.Pick(3, 4)}
	// PR: pruning (dedicated)
	pr := scenario{Name: "prune", Cfgs: both(fsTiny), MaxTx: r.Pick(2, 3), Reopen: 1, Hold: false, ObsBuckets: []string{""},
		WOps:  []string{"sb:0", "sb:1", "sb:2", "pr:1", "pr:2"},
		ROps:  nil,
		Depth: r.Pick(4, 5)}
	// cheapest first: if the time box is hit under load it is the largest space that is capped
	return []scenario{pr, bl2, kb, k3, bl, kc}
}

func partSeq(r *ev.Run, viols *violSet) {
	type row struct {
		Scenario string `json:"scenario"`
		Cfg      string `json:"cfg"`
		Depth    int    `json:"inner_op_budget"`
		States   int64  `json:"tx_states"`
		Paths    int64  `json:"tx_paths_executed"`
		Trans    int64  `json:"transitions"`
		Nodes    int64  `json:"committed_nodes_expanded"`
		TJobs    int64  `json:"commit_transitions_verified_with_reopen"`
		Reopens  int64  `json:"distinct_committed_states_closed_reopened_dumped"`
		CommitEr int64  `json:"commits_failed_atomically_without_fault"`
		Discs    int64  `json:"paths_cut_at_a_disagreement"`
		Complete bool   `json:"complete"`
	}
	var rows []row
	alph := map[string]interface{}{}
	scs := scenarios(r)
	for _, sc := range scs {
		alph[sc.Name] = map[string]interface{}{"writable_tx_ops": sc.WOps, "readonly_tx_ops": sc.ROps, "max_committed_tx": sc.MaxTx, "max_reopen": sc.Reopen, "held_reader": sc.Hold, "inner_op_budget": sc.Depth}
		for _, c := range sc.Cfgs {
			x := &explorer{r: r, sc: sc, cfg: c, viols: viols}
			complete := x.explore()
			if len(x.harn) > 0 {
				cleanupAll()
				r.Broken("harness errors in part (a): %v", x.harn[0])
			}
			r.State(int(x.st.states))
			r.Trans(int(x.st.trans))
			r.Eval(int(x.st.paths + x.st.tjobs))
			r.Trace(int(x.st.paths))
			rows = append(rows, row{sc.Name, c.String(), sc.Depth, x.st.states, x.st.paths, x.st.trans, x.st.nodes, x.st.tjobs, x.st.reopens, x.st.commitErrs, x.st.discs, complete})
			if !complete {
				r.Cap(fmt.Sprintf("part (a) scenario %s cfg %s: time box hit after %d paths", sc.Name, c, x.st.paths))
			}
			if r.WantSample() {
				r.Sample(map[string]interface{}{"part": "a", "scenario": sc.Name, "cfg": c.String(), "example_ops": sc.WOps[:3]})
			}
		}
	}
	r.Set("seq_results", rows)
	r.Set("seq_alphabets", alph)
}
