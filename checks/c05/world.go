package main

import (
	"bytes"
	"encoding/hex"
	"errors"
	"fmt"
	"os"
	"path/filepath"
	"sort"
	"strings"
	"sync/atomic"
	"time"

	"github.com/btcsuite/btcd/btcutil/v2"
	"github.com/btcsuite/btcd/chainhash/v2"
	"github.com/btcsuite/btcd/database"
	"github.com/btcsuite/btcd/database/ffldb"
	"github.com/btcsuite/btcd/wire/v2"

	"verif/ref/refdb"
)

// ---------------------------------------------------------------- fixed universe

const netMagic = wire.BitcoinNet(0xc05dbc05)

// userRoot is the top-level bucket below Metadata() in which all user-level
// activity happens (the metadata root itself also holds ffldb's internal
// "ffldb-writeloc" key and "ffldb-blockidx" bucket, which are not user data).
var userRoot = []byte("t")

var keyNames = []string{"k1", "k2", "k3"}

// bucket paths (relative to the user root) that the alphabets may touch
var bucketUniverse = []string{"", "a", "b", "a/a", "a/b"}

type blk struct {
	b    *btcutil.Block
	hash chainhash.Hash
	raw  []byte
}

var blocks []*blk // 3 small blocks of different sizes

func mkBlocks() {
	mk := func(nonce uint32, ntx int) *blk {
		m := &wire.MsgBlock{Header: wire.BlockHeader{Version: 1, Bits: 0x207fffff, Nonce: nonce, Timestamp: time.Unix(1600000000+int64(nonce), 0)}}
		for i := 0; i < ntx; i++ {
			tx := wire.NewMsgTx(1)
			tx.AddTxIn(&wire.TxIn{PreviousOutPoint: wire.OutPoint{Index: 0xffffffff}, SignatureScript: []byte{byte(nonce), byte(i), 0x51}, Sequence: 0xffffffff})
			tx.AddTxOut(&wire.TxOut{Value: int64(50 + i), PkScript: []byte{0x51}})
			m.AddTransaction(tx)
		}
		b := btcutil.NewBlock(m)
		raw, err := b.Bytes()
		if err != nil {
			panic(err)
		}
		return &blk{b: b, hash: *b.Hash(), raw: raw}
	}
	blocks = []*blk{mk(1, 0), mk(2, 1), mk(3, 2)}
}

func recLen(i int) uint32 { return uint32(len(blocks[i].raw)) + 12 }

// file size regimes
const (
	fsLarge = "large" // ffldb default (512 MiB): everything in file 0
	fsTiny  = "tiny"  // exactly the largest record: every block gets its own file
	fsFit2  = "fit2"  // records 0 and 1 fit exactly (boundary finalOffset == max), the third rolls over
)

func maxFileSize(regime string) uint32 {
	switch regime {
	case fsTiny:
		return recLen(2)
	case fsFit2:
		return recLen(0) + recLen(1)
	}
	return 0
}

type cfg struct {
	FileSize   string `json:"file_size"`
	FlushEvery bool   `json:"flush_every_commit"`
}

func (c cfg) String() string {
	f := "never"
	if c.FlushEvery {
		f = "every"
	}
	return c.FileSize + "/" + f
}

// ---------------------------------------------------------------- scratch dirs

var scratchBase = fmt.Sprintf("/dev/shm/verif-c05-%d-", os.Getpid())
var dirSeq int64

func newDir(tag string) string {
	return fmt.Sprintf("%s%s%d", scratchBase, tag, atomic.AddInt64(&dirSeq, 1))
}

func cleanupAll() {
	m, _ := filepath.Glob(scratchBase + "*")
	for _, d := range m {
		os.RemoveAll(d)
	}
}

// ---------------------------------------------------------------- real instance

type inst struct {
	dir string
	db  database.DB
	cfg cfg
	fs  *fsim // optional recorder / fault injector (re-installed on every open)
}

func (in *inst) configure() {
	if sz := maxFileSize(in.cfg.FileSize); sz != 0 {
		ffldb.VerifSetMaxBlockFileSize(in.db, sz)
	}
	in.setFlush(in.cfg.FlushEvery)
	if in.fs != nil {
		in.fs.install(in.db)
	}
}

// setFlush: every=true makes every commit take dbCache's flush path
// (needsFlush: time.Since(lastFlush) > -1ns is always true, no clock dependence);
// every=false makes no commit flush (only Close does).
func (in *inst) setFlush(every bool) {
	if every {
		ffldb.VerifSetFlushPolicy(in.db, -1, 1<<62)
	} else {
		ffldb.VerifSetFlushPolicy(in.db, time.Duration(1<<62), 1<<62)
	}
}

func createInst(c cfg, fs *fsim) (*inst, error) {
	in := &inst{dir: newDir("db"), cfg: c, fs: fs}
	db, err := database.Create("ffldb", in.dir, netMagic)
	if err != nil {
		return nil, err
	}
	in.db = db
	if fs != nil {
		fs.metaDir = filepath.Join(in.dir, ffldb.VerifMetadataDirName)
		fs.observe() // metadata state #0: the freshly initialised database
	}
	in.configure()
	return in, nil
}

func (in *inst) close() error {
	if in.db == nil {
		return nil
	}
	err := in.db.Close()
	in.db = nil
	return err
}

func (in *inst) open() error {
	db, err := database.Open("ffldb", in.dir, netMagic)
	if err != nil {
		return err
	}
	in.db = db
	in.configure()
	return nil
}

func (in *inst) reopen() error {
	if err := in.close(); err != nil {
		return fmt.Errorf("close: %v", err)
	}
	if err := in.open(); err != nil {
		return fmt.Errorf("open: %v", err)
	}
	return nil
}

func (in *inst) destroy() {
	if in.db != nil {
		done := make(chan struct{})
		go func() { in.db.Close(); close(done) }()
		select {
		case <-done:
		case <-time.After(5 * time.Second): // a leaked transaction would block Close forever
		}
		in.db = nil
	}
	os.RemoveAll(in.dir)
}

// ---------------------------------------------------------------- helpers

func codeOf(err error) database.ErrorCode {
	if err == nil {
		return refdb.OK
	}
	var de database.Error
	if errors.As(err, &de) {
		return de.ErrorCode
	}
	return database.ErrorCode(-2) // not a database.Error
}

func codeName(c database.ErrorCode) string {
	switch c {
	case refdb.OK:
		return "nil"
	case database.ErrorCode(-2):
		return "non-database error"
	}
	return c.String()
}

func splitPath(p string) []string {
	if p == "" {
		return nil
	}
	return strings.Split(p, "/")
}

// implBucket resolves a user path below the user root; nil if missing.
func implBucket(tx database.Tx, path string) database.Bucket {
	b := tx.Metadata().Bucket(userRoot)
	if b == nil {
		return nil
	}
	for _, p := range splitPath(path) {
		b = b.Bucket([]byte(p))
		if b == nil {
			return nil
		}
	}
	return b
}

func hx(b []byte) string {
	if b == nil {
		return "nil"
	}
	return "0x" + hex.EncodeToString(b)
}

// sameBytes distinguishes nil from empty, as the interface documentation does
// for Get ("nil if the key does not exist", "an empty slice for keys that exist
// but have no value").
func sameBytes(a, b []byte) bool {
	return (a == nil) == (b == nil) && bytes.Equal(a, b)
}

// implDumpBucket renders the bucket like refdb's dumpBucket, using ForEach /
// ForEachBucket, and cross-checks a full forward and a full backward cursor walk
// (all key/value pairs in byte order, nested buckets in byte order).
func implDumpBucket(sb *strings.Builder, b database.Bucket, depth int) error {
	if depth > 6 {
		return fmt.Errorf("bucket nesting deeper than anything ever created")
	}
	var keys, subs []string
	vals := map[string][]byte{}
	if err := b.ForEach(func(k, v []byte) error {
		keys = append(keys, string(k))
		vals[string(k)] = append([]byte{}, v...)
		return nil
	}); err != nil {
		return fmt.Errorf("ForEach: %v", err)
	}
	if err := b.ForEachBucket(func(k []byte) error {
		subs = append(subs, string(k))
		return nil
	}); err != nil {
		return fmt.Errorf("ForEachBucket: %v", err)
	}
	if !sort.StringsAreSorted(keys) {
		return fmt.Errorf("ForEach not in byte order: %q", keys)
	}
	if !sort.StringsAreSorted(subs) {
		return fmt.Errorf("ForEachBucket not in byte order: %q", subs)
	}
	// cursor walks
	var fwdK, fwdB, bwdK, bwdB []string
	c := b.Cursor()
	for ok := c.First(); ok; ok = c.Next() {
		if v := c.Value(); v != nil {
			fwdK = append(fwdK, string(c.Key()))
			if !bytes.Equal(v, vals[string(c.Key())]) {
				return fmt.Errorf("cursor value of %q = %s, ForEach value %s", c.Key(), hx(v), hx(vals[string(c.Key())]))
			}
		} else {
			fwdB = append(fwdB, string(c.Key()))
		}
	}
	for ok := c.Last(); ok; ok = c.Prev() {
		if c.Value() != nil {
			bwdK = append([]string{string(c.Key())}, bwdK...)
		} else {
			bwdB = append([]string{string(c.Key())}, bwdB...)
		}
	}
	if fmt.Sprint(fwdK) != fmt.Sprint(keys) || fmt.Sprint(bwdK) != fmt.Sprint(keys) {
		return fmt.Errorf("cursor walk keys fwd=%q bwd=%q, ForEach=%q", fwdK, bwdK, keys)
	}
	if fmt.Sprint(fwdB) != fmt.Sprint(subs) || fmt.Sprint(bwdB) != fmt.Sprint(subs) {
		return fmt.Errorf("cursor walk buckets fwd=%q bwd=%q, ForEachBucket=%q", fwdB, bwdB, subs)
	}
	sb.WriteString("{")
	for _, k := range keys {
		sb.WriteString(hex.EncodeToString([]byte(k)))
		sb.WriteString("=")
		sb.WriteString(hex.EncodeToString(vals[k]))
		sb.WriteString(";")
	}
	for _, s := range subs {
		sb.WriteString(hex.EncodeToString([]byte(s)))
		sb.WriteString(":")
		nb := b.Bucket([]byte(s))
		if nb == nil {
			return fmt.Errorf("ForEachBucket listed %q but Bucket() returns nil", s)
		}
		if err := implDumpBucket(sb, nb, depth+1); err != nil {
			return err
		}
	}
	sb.WriteString("}")
	return nil
}

// implDump renders the transaction's view in refdb.State.Dump format.
func implDump(tx database.Tx) (string, error) {
	var sb strings.Builder
	root := tx.Metadata().Bucket(userRoot)
	if root == nil {
		return "", fmt.Errorf("user root bucket missing")
	}
	if err := implDumpBucket(&sb, root, 0); err != nil {
		return "", err
	}
	type hb struct {
		h   string
		raw []byte
	}
	var hs []hb
	for _, b := range blocks {
		has, err := tx.HasBlock(&b.hash)
		if err != nil {
			return "", fmt.Errorf("HasBlock: %v", err)
		}
		if !has {
			if _, err := tx.FetchBlock(&b.hash); codeOf(err) != database.ErrBlockNotFound {
				return "", fmt.Errorf("HasBlock(%x)=false but FetchBlock returns %v", b.hash[:4], err)
			}
			continue
		}
		raw, err := tx.FetchBlock(&b.hash)
		if err != nil {
			return "", fmt.Errorf("HasBlock(%x)=true but FetchBlock fails: %v", b.hash[:4], err)
		}
		hs = append(hs, hb{string(b.hash[:]), append([]byte{}, raw...)})
	}
	sort.Slice(hs, func(i, j int) bool { return hs[i].h < hs[j].h })
	sb.WriteString("|blocks:")
	for _, x := range hs {
		sb.WriteString(hex.EncodeToString([]byte(x.h[:4])))
		sb.WriteString("=")
		sb.WriteString(hex.EncodeToString(x.raw))
		sb.WriteString(";")
	}
	return sb.String(), nil
}

// safely runs f and converts a panic into an error string.
func safely(f func()) (panicked string) {
	defer func() {
		if r := recover(); r != nil {
			panicked = fmt.Sprint(r)
		}
	}()
	f()
	return ""
}

// viewDump takes the committed-state dump through a fresh read-only transaction.
func (in *inst) viewDump() (string, error) {
	var d string
	var derr error
	if p := safely(func() {
		derr = in.db.View(func(tx database.Tx) error {
			var err error
			d, err = implDump(tx)
			return err
		})
	}); p != "" {
		return "", fmt.Errorf("panic: %s", p)
	}
	return d, derr
}

func hashOf(i int) refdb.Hash { return refdb.Hash(blocks[i].hash) }

func shortDiff(got, want string) string {
	if len(got) > 300 {
		got = got[:300] + "..."
	}
	if len(want) > 300 {
		want = want[:300] + "..."
	}
	return fmt.Sprintf("got %s want %s", got, want)
}
