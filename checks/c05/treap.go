package main

import (
	"bytes"
	"fmt"
	"runtime"
	"sort"
	"strings"
	"sync/atomic"

	"github.com/btcsuite/btcd/database/ffldb"

	"verif/engine/ev"
)

// ---------------------------------------------------------------- part (a'): the treaps
//
// Immutable: ALL sequences of <= N ops over {Put(k,v) x4 keys, Delete(k) x4,
// Put(k1,k2) and Put(k3,k1,k3) as one multi-pair call}.  Every version ever
// produced is a snapshot: after every op every earlier version must still hold
// exactly its old contents (Get/Has/Len/ForEach order), and the newest version is
// walked with iterators over 3 ranges (First/Last/Next/Prev/Seek, direction
// changes included) against a sorted map.
//
// Mutable: ALL sequences of <= N ops over {Put x4, Delete x4, iterator Seek(k2),
// iterator First, Next, Prev} with ForceReseek after every mutation (how ffldb
// uses it); contents and the live iterator are compared with the sorted map.

var tKeys = []string{"a", "b", "c", "d"}
var tKeyBytes = [][]byte{[]byte("a"), []byte("b"), []byte("c"), []byte("d")}

// kvmap is the sorted-map model over the 4-key universe: index = key, nil = absent
// (present values are non-nil, possibly empty).
type kvmap [4][]byte

func kidx(k string) int { return int(k[0] - 'a') }

func (m *kvmap) sorted() []string {
	var out []string
	for i, v := range m {
		if v != nil {
			out = append(out, tKeys[i])
		}
	}
	return out
}

func (m *kvmap) count() int {
	n := 0
	for _, v := range m {
		if v != nil {
			n++
		}
	}
	return n
}

type treapLike interface {
	Len() int
	Has([]byte) bool
	Get([]byte) []byte
	ForEach(func(k, v []byte) bool)
	Iterator(start, limit []byte) *ffldb.VerifTreapIterator
}

var probeBB = []byte("bb")

// checkContents compares a treap with the model.
func checkContents(t treapLike, m *kvmap) string {
	if t.Len() != m.count() {
		return fmt.Sprintf("Len()=%d, model %d", t.Len(), m.count())
	}
	for i, k := range tKeyBytes {
		v := m[i]
		if t.Has(k) != (v != nil) {
			return fmt.Sprintf("Has(%q)=%v, model %v", k, v == nil, v != nil)
		}
		g := t.Get(k)
		if (v != nil) != (g != nil) || !bytes.Equal(g, v) {
			return fmt.Sprintf("Get(%q)=%s, model %s", k, hx(g), hx(v))
		}
	}
	if t.Has(probeBB) || t.Get(probeBB) != nil {
		return "Has/Get of a key that was never stored is not false/nil"
	}
	i, bad := 0, ""
	t.ForEach(func(k, v []byte) bool {
		for i < 4 && m[i] == nil {
			i++
		}
		if i >= 4 || !bytes.Equal(k, tKeyBytes[i]) || !bytes.Equal(v, m[i]) {
			bad = fmt.Sprintf("ForEach visits %q=%q out of order / not in the model keys %v", k, v, m.sorted())
			return false
		}
		i++
		return true
	})
	if bad != "" {
		return bad
	}
	for ; i < 4; i++ {
		if m[i] != nil {
			return fmt.Sprintf("ForEach misses %q, model keys %v", tKeys[i], m.sorted())
		}
	}
	return ""
}

var iterProbes = []string{"a", "aa", "b", "bb", "c", "cc", "d", "dd"}

// ranges as ffldb uses them: unbounded or bounded on both sides (util.BytesPrefix)
var treapRanges = [][2]string{{"", ""}, {"b", "d"}, {"aa", "cc"}}

// checkIter walks iterators over several ranges against the sorted model.
func checkIter(t treapLike, m *kvmap) string {
	for _, rg := range treapRanges {
		var start, limit []byte
		if rg[0] != "" {
			start = []byte(rg[0])
		}
		if rg[1] != "" {
			limit = []byte(rg[1])
		}
		var inArr [4]string
		in := inArr[:0]
		for i, k := range tKeys {
			if m[i] != nil && (start == nil || k >= rg[0]) && (limit == nil || k < rg[1]) {
				in = append(in, k)
			}
		}
		name := func() string { return fmt.Sprintf("Iterator[%q,%q)", rg[0], rg[1]) }
		// forward via Next from new, backward via Prev from new
		it := t.Iterator(start, limit)
		if it.Valid() || it.Key() != nil {
			return name() + ": new iterator is valid"
		}
		n := 0
		for it.Next() {
			if n >= len(in) || string(it.Key()) != in[n] {
				return fmt.Sprintf("%s: forward walk reaches %q at position %d, model %v", name(), it.Key(), n, in)
			}
			if !bytes.Equal(it.Value(), m[kidx(in[n])]) {
				return fmt.Sprintf("%s: value at %q = %s, model %s", name(), it.Key(), hx(it.Value()), hx(m[kidx(in[n])]))
			}
			n++
		}
		if n != len(in) {
			return fmt.Sprintf("%s: forward walk ends after %d keys, model %v", name(), n, in)
		}
		if it.Next() || it.Valid() {
			return name() + ": Next after exhaustion is not false"
		}
		// backward: Prev from a NEW iterator on the unbounded range, Last()+Prev on
		// the bounded ones (saves iterator allocations, which dominate the cost)
		it2 := it
		n = len(in)
		more := false
		if start == nil && limit == nil {
			it2 = t.Iterator(start, limit)
			more = it2.Prev()
		} else {
			more = it2.Last()
		}
		for ; more; more = it2.Prev() {
			n--
			if n < 0 || string(it2.Key()) != in[n] {
				return fmt.Sprintf("%s: backward walk reaches %q, model %v", name(), it2.Key(), in)
			}
		}
		if n != 0 {
			return fmt.Sprintf("%s: backward walk stops early (%d left), model %v", name(), n, in)
		}
		if it.First() != (len(in) > 0) || (len(in) > 0 && string(it.Key()) != in[0]) {
			return fmt.Sprintf("%s: First() at %q, model %v", name(), it.Key(), in)
		}
		if it.Last() != (len(in) > 0) || (len(in) > 0 && string(it.Key()) != in[len(in)-1]) {
			return fmt.Sprintf("%s: Last() at %q, model %v", name(), it.Key(), in)
		}
		// Seek to every probe inside the range, then one step in either direction
		// and back again (direction change); the iterator object is reused.
		for _, p := range iterProbes {
			if (start != nil && p < rg[0]) || (limit != nil && p >= rg[1]) {
				continue
			}
			idx := sort.SearchStrings(in, p)
			pb := []byte(p)
			for dir := 0; dir < 3; dir++ {
				ok := it.Seek(pb)
				if ok != (idx < len(in)) || (ok && string(it.Key()) != in[idx]) {
					return fmt.Sprintf("%s: Seek(%q) -> %v %q, model %v idx %d", name(), p, ok, it.Key(), in, idx)
				}
				if !ok {
					break
				}
				switch dir {
				case 1:
					ok = it.Next()
					if ok != (idx+1 < len(in)) || (ok && string(it.Key()) != in[idx+1]) {
						return fmt.Sprintf("%s: Seek(%q),Next -> %v %q, model %v", name(), p, ok, it.Key(), in)
					}
					if ok {
						if !it.Prev() || string(it.Key()) != in[idx] {
							return fmt.Sprintf("%s: Seek(%q),Next,Prev -> %q, model %q", name(), p, it.Key(), in[idx])
						}
					}
				case 2:
					ok = it.Prev()
					if ok != (idx > 0) || (ok && string(it.Key()) != in[idx-1]) {
						return fmt.Sprintf("%s: Seek(%q),Prev -> %v %q, model %v", name(), p, ok, it.Key(), in)
					}
					if ok {
						if !it.Next() || string(it.Key()) != in[idx] {
							return fmt.Sprintf("%s: Seek(%q),Prev,Next -> %q, model %q", name(), p, it.Key(), in[idx])
						}
					}
				}
			}
		}
	}
	return ""
}

var immVals = func() (out [8][3][]byte) {
	for i := range out {
		for j := range out[i] {
			out[i][j] = []byte(fmt.Sprintf("v%d.%d", i, j))
		}
	}
	out[2][0] = []byte{} // one empty value
	return
}()

var immAlphabet = []string{"P:a", "P:b", "P:c", "P:d", "D:a", "D:b", "D:c", "D:d", "PM:a,b", "PM:c,a,c"}

type immVersion struct {
	t *ffldb.VerifTreapImmutable
	m kvmap
}

// runImmutable executes one op sequence from scratch; returns a violation text.
// Every version produced on the way is a snapshot; at the end of the sequence
// ALL versions must hold exactly the contents they had when they were created
// (the enumeration runs every length separately, so "the end" covers every
// point in time), and the final version is walked with iterators.
func runImmutable(seq []string) string {
	var versArr [9]immVersion
	vers := versArr[:1]
	vers[0].t = ffldb.VerifNewTreapImmutable()
	for i, op := range seq {
		cur := &vers[len(vers)-1]
		m := cur.m
		var nt *ffldb.VerifTreapImmutable
		switch op[0] {
		case 'P':
			if op[1] == ':' {
				k := kidx(op[2:])
				nt = cur.t.Put(ffldb.VerifTreapKVPair{Key: tKeyBytes[k], Value: immVals[i][0]})
				m[k] = immVals[i][0]
			} else {
				var kvs []ffldb.VerifTreapKVPair
				for j, ks := range strings.Split(op[3:], ",") {
					k := kidx(ks)
					kvs = append(kvs, ffldb.VerifTreapKVPair{Key: tKeyBytes[k], Value: immVals[i][j]})
					m[k] = immVals[i][j]
				}
				nt = cur.t.Put(kvs...)
			}
		case 'D':
			k := kidx(op[2:])
			nt = cur.t.Delete(tKeyBytes[k])
			m[k] = nil
		}
		vers = append(vers, immVersion{nt, m})
	}
	for vi := range vers {
		if w := checkContents(vers[vi].t, &vers[vi].m); w != "" {
			if vi == len(vers)-1 {
				return fmt.Sprintf("after ops %v the newest version is wrong: %s", seq, w)
			}
			return fmt.Sprintf("after ops %v the EARLIER version %d (snapshot taken after %d ops) changed: %s", seq, vi, vi, w)
		}
	}
	last := &vers[len(vers)-1]
	if w := checkIter(last.t, &last.m); w != "" {
		return fmt.Sprintf("after ops %v: %s", seq, w)
	}
	return ""
}

var mutAlphabet = []string{"P:a", "P:b", "P:c", "P:d", "D:a", "D:b", "D:c", "D:d", "IS:b", "IF", "IN", "IP"}

// runMutable executes one op sequence on a Mutable treap with one live iterator
// (ForceReseek after every mutation, which is how ffldb's transaction uses it).
func runMutable(seq []string) string {
	t := ffldb.VerifNewTreapMutable()
	var m kvmap
	it := t.Iterator(nil, nil)
	// model of the live iterator: positioned at key pos (which may since have been
	// deleted), or exhausted/new.
	state, pos := "new", ""
	for i, op := range seq {
		f := strings.SplitN(op, ":", 2)
		val := immVals[i][1]
		switch f[0] {
		case "P":
			t.Put(tKeyBytes[kidx(f[1])], val)
			m[kidx(f[1])] = val
			it.ForceReseek()
		case "D":
			t.Delete(tKeyBytes[kidx(f[1])])
			m[kidx(f[1])] = nil
			it.ForceReseek()
		case "IS", "IF":
			keys := m.sorted()
			idx := 0
			var ok bool
			if f[0] == "IS" {
				idx = sort.SearchStrings(keys, f[1])
				ok = it.Seek([]byte(f[1]))
			} else {
				ok = it.First()
			}
			if ok != (idx < len(keys)) || (ok && string(it.Key()) != keys[idx]) {
				return fmt.Sprintf("op %d (%s): iterator -> %v %q, model keys %v idx %d", i, op, ok, it.Key(), keys, idx)
			}
			if ok {
				state, pos = "at", keys[idx]
			} else {
				state = "end"
			}
		case "IN", "IP":
			keys := m.sorted()
			var ok bool
			if f[0] == "IN" {
				ok = it.Next()
			} else {
				ok = it.Prev()
			}
			var want string
			has := false
			switch state {
			case "new":
				if len(keys) > 0 {
					has = true
					want = keys[0]
					if f[0] == "IP" {
						want = keys[len(keys)-1]
					}
				}
			case "at":
				if f[0] == "IN" {
					j := sort.SearchStrings(keys, pos+"\x00")
					if j < len(keys) {
						has, want = true, keys[j]
					}
				} else {
					j := sort.SearchStrings(keys, pos)
					if j > 0 {
						has, want = true, keys[j-1]
					}
				}
			}
			if ok != has || (ok && string(it.Key()) != want) {
				return fmt.Sprintf("op %d (%s): live iterator (was %s %q) -> %v %q, model %v %q (keys %v)", i, op, state, pos, ok, it.Key(), has, want, keys)
			}
			if ok {
				state, pos = "at", want
				if !bytes.Equal(it.Value(), m[kidx(want)]) {
					return fmt.Sprintf("op %d (%s): live iterator value at %q = %s, model %s", i, op, want, hx(it.Value()), hx(m[kidx(want)]))
				}
			} else {
				state = "end"
			}
		}
	}
	if w := checkContents(t, &m); w != "" {
		return fmt.Sprintf("after ops %v: %s", seq, w)
	}
	if w := checkIter(t, &m); w != "" {
		return "at the end: " + w
	}
	return ""
}

func enumSeqs(alphabet []string, depth int, workers int, stop func() bool, f func(seq []string)) (n int64, complete bool) {
	// split on the first two ops for parallelism; every leaf of length == depth is
	// run from scratch (all shorter sequences are its prefixes and are checked on
	// the way).
	type pre struct{ a, b int }
	var pres []pre
	for a := range alphabet {
		for b := range alphabet {
			pres = append(pres, pre{a, b})
		}
	}
	var cnt int64
	var stopped int32
	ev.Par(len(pres), workers, func(i int) {
		seq := make([]string, depth)
		seq[0], seq[1] = alphabet[pres[i].a], alphabet[pres[i].b]
		var rec func(d int)
		rec = func(d int) {
			if atomic.LoadInt32(&stopped) != 0 {
				return
			}
			if d == depth {
				f(seq)
				if atomic.AddInt64(&cnt, 1)%4096 == 0 && stop() {
					atomic.StoreInt32(&stopped, 1)
				}
				return
			}
			for _, op := range alphabet {
				seq[d] = op
				rec(d + 1)
			}
		}
		rec(2)
	})
	return cnt, atomic.LoadInt32(&stopped) == 0
}

func partTreap(r *ev.Run, viols *violSet) {
	nImm := r.Pick(6, 7)
	nMut := r.Pick(5, 6)
	workers := runtime.NumCPU()
	run := func(kind string, alphabet []string, depth int, f func([]string) string) {
		n, complete := enumSeqs(alphabet, depth, workers, func() bool { return expired(r) }, func(seq []string) {
			if w := f(seq); w != "" {
				// shortest failing prefix
				s := append([]string{}, seq...)
				for l := 1; l <= len(s); l++ {
					if w2 := f(s[:l]); w2 != "" {
						s, w = s[:l], w2
						break
					}
				}
				cls := "contents"
				switch {
				case strings.Contains(w, "EARLIER version"):
					cls = "snapshot-changed"
				case strings.Contains(w, "terator"):
					cls = "iterator"
				}
				viols.add("treap/"+kind+"/"+cls, fmt.Sprintf("%s treap, ops %v: %s", kind, s, w), replayObj{Part: "treap-" + kind, Treap: s}, len(s))
			}
		})
		r.Eval(int(n))
		r.Trace(int(n))
		r.Trans(int(n) * depth)
		r.Add("treap_"+kind+"_sequences", n)
		if !complete {
			r.Cap(fmt.Sprintf("treap %s: time box hit after %d of %d^%d sequences", kind, n, len(alphabet), depth))
		}
	}
	// every length separately: the iterator walk runs on the FINAL state of a
	// sequence, so shorter sequences are enumerated on their own
	for d := 2; d <= nImm; d++ {
		run("immutable", immAlphabet, d, runImmutable)
	}
	for d := 2; d <= nMut; d++ {
		run("mutable", mutAlphabet, d, runMutable)
	}
	r.Set("treap_bounds", map[string]interface{}{"immutable_alphabet": immAlphabet, "immutable_max_ops": nImm, "mutable_alphabet": mutAlphabet, "mutable_max_ops": nMut, "iterator_ranges": treapRanges, "iterator_seek_probes": iterProbes})
	r.Nontrivial("treap-immutable")
	r.Nontrivial("treap-mutable")
}
