package main

import (
	"bytes"
	"fmt"
	"runtime"
	"sort"
	"strings"
	"sync/atomic"

	"github.com/btcsuite/btcd/database/ffldb"

	"verif/engine/ev"
)

// ---------------------------------------------------------------- part (a'): the treaps
//
// Immutable: ALL sequences of <= N ops over {Put(k,v) x4 keys, Delete(k) x4,
// Put(k1,k2) and Put(k3,k1,k3) as one multi-pair call}.  Every version ever
// produced is a snapshot: after every op every earlier version must still hold
// exactly its old contents (Get/Has/Len/ForEach order), and the newest version is
// walked with iterators over 3 ranges (First/Last/Next/Prev/Seek, direction
// changes included) against a sorted map.
//
// Mutable: ALL sequences of <= N ops over {Put x4, Delete x4, iterator Seek(k2),
// iterator First, Next, Prev} with ForceReseek after every mutation (how ffldb
// uses it); contents and the live iterator are compared with the sorted map.

var tKeys = []string{"a", "b", "c", "d"}

type kvmap map[string][]byte

func (m kvmap) clone() kvmap {
	n := kvmap{}
	for k, v := range m {
		n[k] = v
	}
	return n
}

func (m kvmap) sorted() []string {
	out := make([]string, 0, len(m))
	for k := range m {
		out = append(out, k)
	}
	sort.Strings(out)
	return out
}

type treapLike interface {
	Len() int
	Has([]byte) bool
	Get([]byte) []byte
	ForEach(func(k, v []byte) bool)
	Iterator(start, limit []byte) *ffldb.VerifTreapIterator
}

var contentProbes = [][]byte{[]byte("a"), []byte("b"), []byte("c"), []byte("d"), []byte("bb")}

// checkContents compares a treap with the model map (model keys are a subset of
// tKeys, so the sorted key list is tKeys filtered by presence).
func checkContents(t treapLike, m kvmap) string {
	if t.Len() != len(m) {
		return fmt.Sprintf("Len()=%d, model %d", t.Len(), len(m))
	}
	for _, k := range contentProbes {
		v, ok := m[string(k)]
		if t.Has(k) != ok {
			return fmt.Sprintf("Has(%q)=%v, model %v", k, !ok, ok)
		}
		g := t.Get(k)
		if ok != (g != nil) || !bytes.Equal(g, v) {
			return fmt.Sprintf("Get(%q)=%s, model %s", k, hx(g), hx(v))
		}
	}
	i, bad := 0, ""
	t.ForEach(func(k, v []byte) bool {
		for i < len(tKeys) {
			if _, ok := m[tKeys[i]]; ok {
				break
			}
			i++
		}
		if i >= len(tKeys) || string(k) != tKeys[i] || !bytes.Equal(v, m[tKeys[i]]) {
			bad = fmt.Sprintf("ForEach visits %q=%q out of order / not in the model %v", k, v, m.sorted())
			return false
		}
		i++
		return true
	})
	if bad != "" {
		return bad
	}
	for ; i < len(tKeys); i++ {
		if _, ok := m[tKeys[i]]; ok {
			return fmt.Sprintf("ForEach misses %q, model keys %v", tKeys[i], m.sorted())
		}
	}
	return ""
}

var iterProbes = []string{"a", "aa", "b", "bb", "c", "cc", "d", "dd"}

// ranges as ffldb uses them: unbounded or bounded on both sides (util.BytesPrefix)
var treapRanges = [][2]string{{"", ""}, {"b", "d"}, {"aa", "cc"}}

// checkIter walks iterators over several ranges against the sorted model.
func checkIter(t treapLike, m kvmap) string {
	for _, rg := range treapRanges {
		var start, limit []byte
		if rg[0] != "" {
			start = []byte(rg[0])
		}
		if rg[1] != "" {
			limit = []byte(rg[1])
		}
		var in []string
		for _, k := range m.sorted() {
			if (start == nil || k >= rg[0]) && (limit == nil || k < rg[1]) {
				in = append(in, k)
			}
		}
		name := fmt.Sprintf("Iterator[%q,%q)", rg[0], rg[1])
		// forward via Next from new, backward via Prev from new
		it := t.Iterator(start, limit)
		if it.Valid() || it.Key() != nil {
			return name + ": new iterator is valid"
		}
		n := 0
		for it.Next() {
			if n >= len(in) || string(it.Key()) != in[n] {
				return fmt.Sprintf("%s: forward walk reaches %q at position %d, model %v", name, it.Key(), n, in)
			}
			if !bytes.Equal(it.Value(), m[in[n]]) {
				return fmt.Sprintf("%s: value at %q = %s, model %s", name, it.Key(), hx(it.Value()), hx(m[in[n]]))
			}
			n++
		}
		if n != len(in) {
			return fmt.Sprintf("%s: forward walk ends after %d keys, model %v", name, n, in)
		}
		if it.Next() || it.Valid() {
			return name + ": Next after exhaustion is not false"
		}
		it2 := t.Iterator(start, limit)
		n = len(in)
		for it2.Prev() {
			n--
			if n < 0 || string(it2.Key()) != in[n] {
				return fmt.Sprintf("%s: backward walk reaches %q, model %v", name, it2.Key(), in)
			}
		}
		if n != 0 {
			return fmt.Sprintf("%s: backward walk stops early (%d left), model %v", name, n, in)
		}
		if it.First() != (len(in) > 0) || (len(in) > 0 && string(it.Key()) != in[0]) {
			return fmt.Sprintf("%s: First() at %q, model %v", name, it.Key(), in)
		}
		if it.Last() != (len(in) > 0) || (len(in) > 0 && string(it.Key()) != in[len(in)-1]) {
			return fmt.Sprintf("%s: Last() at %q, model %v", name, it.Key(), in)
		}
		// Seek to every probe inside the range, then one step in either direction
		// and back again (direction change); the iterator object is reused.
		for _, p := range iterProbes {
			if (start != nil && p < rg[0]) || (limit != nil && p >= rg[1]) {
				continue
			}
			idx := sort.SearchStrings(in, p)
			for dir := 0; dir < 3; dir++ {
				ok := it.Seek([]byte(p))
				if ok != (idx < len(in)) || (ok && string(it.Key()) != in[idx]) {
					return fmt.Sprintf("%s: Seek(%q) -> %v %q, model %v idx %d", name, p, ok, it.Key(), in, idx)
				}
				if !ok {
					break
				}
				switch dir {
				case 1:
					ok = it.Next()
					if ok != (idx+1 < len(in)) || (ok && string(it.Key()) != in[idx+1]) {
						return fmt.Sprintf("%s: Seek(%q),Next -> %v %q, model %v", name, p, ok, it.Key(), in)
					}
					if ok {
						if !it.Prev() || string(it.Key()) != in[idx] {
							return fmt.Sprintf("%s: Seek(%q),Next,Prev -> %q, model %q", name, p, it.Key(), in[idx])
						}
					}
				case 2:
					ok = it.Prev()
					if ok != (idx > 0) || (ok && string(it.Key()) != in[idx-1]) {
						return fmt.Sprintf("%s: Seek(%q),Prev -> %v %q, model %v", name, p, ok, it.Key(), in)
					}
					if ok {
						if !it.Next() || string(it.Key()) != in[idx] {
							return fmt.Sprintf("%s: Seek(%q),Prev,Next -> %q, model %q", name, p, it.Key(), in[idx])
						}
					}
				}
			}
		}
	}
	return ""
}

var immVals = func() (out [8][3][]byte) {
	for i := range out {
		for j := range out[i] {
			out[i][j] = []byte(fmt.Sprintf("v%d.%d", i, j))
		}
	}
	out[2][0] = []byte{} // one empty value
	return
}()

var immAlphabet = []string{"P:a", "P:b", "P:c", "P:d", "D:a", "D:b", "D:c", "D:d", "PM:a,b", "PM:c,a,c"}

type immVersion struct {
	t *ffldb.VerifTreapImmutable
	m kvmap
}

// runImmutable executes one op sequence from scratch; returns a violation text.
func runImmutable(seq []string) string {
	vers := []immVersion{{ffldb.VerifNewTreapImmutable(), kvmap{}}}
	for i, op := range seq {
		cur := vers[len(vers)-1]
		m := cur.m.clone()
		var nt *ffldb.VerifTreapImmutable
		val := func(j int) []byte { return immVals[i][j] }
		f := strings.SplitN(op, ":", 2)
		switch f[0] {
		case "P":
			nt = cur.t.Put(ffldb.VerifTreapKVPair{Key: []byte(f[1]), Value: val(0)})
			m[f[1]] = val(0)
		case "D":
			nt = cur.t.Delete([]byte(f[1]))
			delete(m, f[1])
		case "PM":
			var kvs []ffldb.VerifTreapKVPair
			for j, k := range strings.Split(f[1], ",") {
				kvs = append(kvs, ffldb.VerifTreapKVPair{Key: []byte(k), Value: val(j)})
				m[k] = val(j)
			}
			nt = cur.t.Put(kvs...)
		}
		vers = append(vers, immVersion{nt, m})
		for vi, v := range vers {
			if w := checkContents(v.t, v.m); w != "" {
				if vi == len(vers)-1 {
					return fmt.Sprintf("after op %d (%s) the new version is wrong: %s", i, op, w)
				}
				return fmt.Sprintf("after op %d (%s) the EARLIER version %d (snapshot) changed: %s", i, op, vi, w)
			}
		}
		if i == len(seq)-1 {
			if w := checkIter(nt, m); w != "" {
				return fmt.Sprintf("after op %d (%s): %s", i, op, w)
			}
		}
	}
	return ""
}

var mutAlphabet = []string{"P:a", "P:b", "P:c", "P:d", "D:a", "D:b", "D:c", "D:d", "IS:b", "IF", "IN", "IP"}

// runMutable executes one op sequence on a Mutable treap with one live iterator.
func runMutable(seq []string) string {
	t := ffldb.VerifNewTreapMutable()
	m := kvmap{}
	it := t.Iterator(nil, nil)
	// model of the live iterator: positioned at key pos (which may since have been
	// deleted), or exhausted/new.
	state, pos := "new", ""
	for i, op := range seq {
		f := strings.SplitN(op, ":", 2)
		val := immVals[i][1]
		switch f[0] {
		case "P":
			t.Put([]byte(f[1]), val)
			m[f[1]] = val
			it.ForceReseek()
		case "D":
			t.Delete([]byte(f[1]))
			delete(m, f[1])
			it.ForceReseek()
		case "IS", "IF":
			keys := m.sorted()
			idx := 0
			var ok bool
			if f[0] == "IS" {
				idx = sort.SearchStrings(keys, f[1])
				ok = it.Seek([]byte(f[1]))
			} else {
				ok = it.First()
			}
			if ok != (idx < len(keys)) || (ok && string(it.Key()) != keys[idx]) {
				return fmt.Sprintf("op %d (%s): iterator -> %v %q, model keys %v idx %d", i, op, ok, it.Key(), keys, idx)
			}
			if ok {
				state, pos = "at", keys[idx]
			} else {
				state = "end"
			}
		case "IN", "IP":
			keys := m.sorted()
			var ok bool
			if f[0] == "IN" {
				ok = it.Next()
			} else {
				ok = it.Prev()
			}
			var want string
			has := false
			switch state {
			case "new":
				if len(keys) > 0 {
					has = true
					want = keys[0]
					if f[0] == "IP" {
						want = keys[len(keys)-1]
					}
				}
			case "at":
				if f[0] == "IN" {
					j := sort.SearchStrings(keys, pos+"\x00")
					if j < len(keys) {
						has, want = true, keys[j]
					}
				} else {
					j := sort.SearchStrings(keys, pos)
					if j > 0 {
						has, want = true, keys[j-1]
					}
				}
			}
			if ok != has || (ok && string(it.Key()) != want) {
				return fmt.Sprintf("op %d (%s): live iterator (was %s %q) -> %v %q, model %v %q (keys %v)", i, op, state, pos, ok, it.Key(), has, want, keys)
			}
			if ok {
				state, pos = "at", want
				if !bytes.Equal(it.Value(), m[want]) {
					return fmt.Sprintf("op %d (%s): live iterator value at %q = %s, model %s", i, op, want, hx(it.Value()), hx(m[want]))
				}
			} else {
				state = "end"
			}
		}
		if w := checkContents(t, m); w != "" {
			return fmt.Sprintf("after op %d (%s): %s", i, op, w)
		}
	}
	if w := checkIter(t, m); w != "" {
		return "at the end: " + w
	}
	return ""
}

func enumSeqs(alphabet []string, depth int, workers int, stop func() bool, f func(seq []string)) (n int64, complete bool) {
	// split on the first two ops for parallelism; every leaf of length == depth is
	// run from scratch (all shorter sequences are its prefixes and are checked on
	// the way).
	type pre struct{ a, b int }
	var pres []pre
	for a := range alphabet {
		for b := range alphabet {
			pres = append(pres, pre{a, b})
		}
	}
	var cnt int64
	var stopped int32
	ev.Par(len(pres), workers, func(i int) {
		seq := make([]string, depth)
		seq[0], seq[1] = alphabet[pres[i].a], alphabet[pres[i].b]
		var rec func(d int)
		rec = func(d int) {
			if atomic.LoadInt32(&stopped) != 0 {
				return
			}
			if d == depth {
				f(seq)
				if atomic.AddInt64(&cnt, 1)%4096 == 0 && stop() {
					atomic.StoreInt32(&stopped, 1)
				}
				return
			}
			for _, op := range alphabet {
				seq[d] = op
				rec(d + 1)
			}
		}
		rec(2)
	})
	return cnt, atomic.LoadInt32(&stopped) == 0
}

func partTreap(r *ev.Run, viols *violSet) {
	nImm := r.Pick(6, 7)
	nMut := r.Pick(5, 6)
	workers := runtime.NumCPU()
	run := func(kind string, alphabet []string, depth int, f func([]string) string) {
		n, complete := enumSeqs(alphabet, depth, workers, r.Expired, func(seq []string) {
			if w := f(seq); w != "" {
				// shortest failing prefix
				s := append([]string{}, seq...)
				for l := 1; l <= len(s); l++ {
					if w2 := f(s[:l]); w2 != "" {
						s, w = s[:l], w2
						break
					}
				}
				cls := "contents"
				switch {
				case strings.Contains(w, "EARLIER version"):
					cls = "snapshot-changed"
				case strings.Contains(w, "terator"):
					cls = "iterator"
				}
				viols.add("treap/"+kind+"/"+cls, fmt.Sprintf("%s treap, ops %v: %s", kind, s, w), replayObj{Part: "treap-" + kind, Treap: s}, len(s))
			}
		})
		r.Eval(int(n))
		r.Trace(int(n))
		r.Trans(int(n) * depth)
		r.Add("treap_"+kind+"_sequences", n)
		if !complete {
			r.Cap(fmt.Sprintf("treap %s: time box hit after %d of %d^%d sequences", kind, n, len(alphabet), depth))
		}
	}
	// every length separately: the iterator walk runs on the FINAL state of a
	// sequence, so shorter sequences are enumerated on their own
	for d := 2; d <= nImm; d++ {
		run("immutable", immAlphabet, d, runImmutable)
	}
	for d := 2; d <= nMut; d++ {
		run("mutable", mutAlphabet, d, runMutable)
	}
	r.Set("treap_bounds", map[string]interface{}{"immutable_alphabet": immAlphabet, "immutable_max_ops": nImm, "mutable_alphabet": mutAlphabet, "mutable_max_ops": nMut, "iterator_ranges": treapRanges, "iterator_seek_probes": iterProbes})
	r.Nontrivial("treap-immutable")
	r.Nontrivial("treap-mutable")
}
