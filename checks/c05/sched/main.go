// C05 part (d): isolation of ffldb transactions under thread schedules.
//
// database/ffldb (and the treap package) are compiled through an overlay that
// maps sync -> vsync, so every lock operation of the real store is a scheduling
// point of the vsched cooperative scheduler.  One writer commits three updates
// (cache-only commit, commit through the flush path, cache-only commit) while
// readers open snapshots; ALL schedules with at most k deviations are executed.
//
// Oracle per execution (checked inside the readers and at the end):
//   - within one read transaction every read is repeatable;
//   - what a reader sees is the state after a PREFIX of the writer's commits
//     (keys a,b are overwritten together by every commit and must be equal;
//     the marker keys t1..t3 present must be exactly t1..tj), and that prefix
//     contains every commit that had returned before the reader began (a
//     committed update has taken effect for every later transaction);
//   - no deadlock, no panic; the final state is the state after all commits.
//
// The binary prints one JSON line (a shard result) consumed by checks/c05.
package main

import (
	"encoding/json"
	"fmt"
	"os"
	"strings"
	"time"

	"github.com/btcsuite/btcd/database"
	"github.com/btcsuite/btcd/database/ffldb"
	"github.com/btcsuite/btcd/wire/v2"

	"verif/engine/vsched"
	"verif/engine/vsync"
)

type scenario struct {
	Name    string `json:"name"`
	Readers int    `json:"readers"`
	Begin   bool   `json:"begin"` // readers use Begin/Rollback instead of View
	// Writers == 2: two threads each run one read-modify-write Update (read the
	// counter n, store n+1, add an own key): writers are serialized, so the
	// second one to get the write lock has to see the first one's commit
	Writers int   `json:"writers,omitempty"`
	Bound   int   `json:"bound"`
	Choices []int `json:"choices,omitempty"`
}

type result struct {
	Evals      int            `json:"evals"`
	Points     int            `json:"points"`
	Outcomes   map[string]int `json:"outcomes"`
	Complete   bool           `json:"complete"`
	Violations []violation    `json:"violations"`
	StaleReads int            `json:"stale_snapshots_observed"`
}
type violation struct {
	Key    string      `json:"key"`
	What   string      `json:"what"`
	Replay interface{} `json:"replay"`
}

type waitGroup struct{ n int }
type wgOp struct{ w *waitGroup }

func (o wgOp) Enabled() bool  { return o.w.n == 0 }
func (o wgOp) String() string { return "harness-wait" }
func (w *waitGroup) wait()    { vsched.Point(wgOp{w}) }

type view struct {
	a, b string
	t    [3]bool
}

func (v view) String() string { return fmt.Sprintf("a=%s b=%s t=%v", v.a, v.b, v.t) }

func readView(tx database.Tx) view {
	m := tx.Metadata()
	var v view
	v.a = string(m.Get([]byte("a")))
	v.b = string(m.Get([]byte("b")))
	for i := 0; i < 3; i++ {
		v.t[i] = m.Get([]byte(fmt.Sprintf("t%d", i+1))) != nil
	}
	return v
}

func prefixLen(v view) int { // -1 if not a prefix state
	j := 0
	for j < 3 && v.t[j] {
		j++
	}
	for k := j; k < 3; k++ {
		if v.t[k] {
			return -1
		}
	}
	want := ""
	if j > 0 {
		want = fmt.Sprint(j)
	}
	if v.a != want || v.b != want {
		return -1
	}
	return j
}

var (
	sharedDB  database.DB
	sharedDir string
)

// freshDB returns the process-wide database reset to the initial state: no user
// keys, empty commit cache (a forced flush), nothing pending.  Re-using one
// instance avoids paying leveldb's open cost per schedule; the reset runs
// outside the exploration (pass-through mode).
func freshDB() database.DB {
	if sharedDB == nil {
		sharedDir = fmt.Sprintf("/dev/shm/verif-c05d-%d", os.Getpid())
		os.RemoveAll(sharedDir)
		db, err := database.Create("ffldb", sharedDir, wire.TestNet)
		if err != nil {
			panic(err)
		}
		sharedDB = db
	}
	ffldb.VerifSetFlushPolicy(sharedDB, 0, 1<<40) // the reset commit flushes everything
	err := sharedDB.Update(func(tx database.Tx) error {
		m := tx.Metadata()
		for _, k := range []string{"a", "b", "t1", "t2", "t3", "n", "w1", "w2"} {
			if err := m.Delete([]byte(k)); err != nil {
				return err
			}
		}
		return nil
	})
	if err != nil {
		panic(err)
	}
	if a, b := ffldb.VerifCacheLen(sharedDB); a != 0 || b != 0 {
		panic("commit cache not empty after reset")
	}
	return sharedDB
}

func runOnce(sc scenario, prefix []int) (*vsched.Exec, []string, int) {
	db := freshDB()
	var problems []string
	stale := 0
	if sc.Writers == 2 {
		body := func() {
			var wg waitGroup
			ffldb.VerifSetFlushPolicy(db, time.Hour*1000, 1<<40)
			for w := 1; w <= 2; w++ {
				w := w
				wg.n++
				vsched.Go(fmt.Sprintf("writer%d", w), func() {
					defer func() { wg.n-- }()
					err := db.Update(func(tx database.Tx) error {
						m := tx.Metadata()
						n := 0
						if v := m.Get([]byte("n")); v != nil {
							fmt.Sscan(string(v), &n)
						}
						vsched.Yield("writer between read and write")
						if err := m.Put([]byte("n"), []byte(fmt.Sprint(n+1))); err != nil {
							return err
						}
						return m.Put([]byte(fmt.Sprintf("w%d", w)), []byte{1})
					})
					if err != nil {
						problems = append(problems, fmt.Sprintf("Update of writer %d: %v", w, err))
					}
				})
			}
			wg.wait()
			db.View(func(tx database.Tx) error {
				m := tx.Metadata()
				n, w1, w2 := string(m.Get([]byte("n"))), m.Get([]byte("w1")) != nil, m.Get([]byte("w2")) != nil
				if n != "2" || !w1 || !w2 {
					problems = append(problems, fmt.Sprintf("two serialized read-modify-write updates of a counter end with n=%q w1=%v w2=%v (lost update: the later writer did not see the earlier commit)", n, w1, w2))
				}
				return nil
			})
		}
		x := vsched.RunOnce(prefix, 5000, body)
		return x, problems, 0
	}
	body := func() {
		var wg waitGroup
		committed := 0 // number of commits that have RETURNED
		wg.n++
		vsched.Go("writer", func() {
			defer func() { wg.n-- }()
			for i := 1; i <= 3; i++ {
				if i == 2 {
					ffldb.VerifSetFlushPolicy(db, 0, 1<<40) // this commit goes through the flush path
				} else {
					ffldb.VerifSetFlushPolicy(db, time.Hour*1000, 1<<40)
				}
				i := i
				err := db.Update(func(tx database.Tx) error {
					m := tx.Metadata()
					if err := m.Put([]byte("a"), []byte(fmt.Sprint(i))); err != nil {
						return err
					}
					if err := m.Put([]byte(fmt.Sprintf("t%d", i)), []byte{1}); err != nil {
						return err
					}
					return m.Put([]byte("b"), []byte(fmt.Sprint(i)))
				})
				if err != nil {
					problems = append(problems, fmt.Sprintf("Update %d: %v", i, err))
				}
				committed = i
			}
		})
		for rd := 0; rd < sc.Readers; rd++ {
			rd := rd
			wg.n++
			vsched.Go(fmt.Sprintf("reader%d", rd), func() {
				defer func() { wg.n-- }()
				before := committed
				check := func(tx database.Tx) error {
					v1 := readView(tx)
					vsched.Yield("reader between reads")
					v2 := readView(tx)
					if v1 != v2 {
						problems = append(problems, fmt.Sprintf("non-repeatable read inside one transaction: %v then %v", v1, v2))
					}
					j := prefixLen(v1)
					if j < 0 {
						problems = append(problems, fmt.Sprintf("reader sees a state that is not the state after a prefix of the commits: %v", v1))
					} else if j < before {
						// a commit that had RETURNED before this reader began is missing:
						// that update has not "taken effect" for a later transaction
						stale++
						problems = append(problems, fmt.Sprintf("reader that began after commit %d had returned sees only the state after %d commits: %v", before, j, v1))
					}
					return nil
				}
				if sc.Begin {
					tx, err := db.Begin(false)
					if err != nil {
						problems = append(problems, "Begin: "+err.Error())
						return
					}
					check(tx)
					tx.Rollback()
				} else if err := db.View(check); err != nil {
					problems = append(problems, "View: "+err.Error())
				}
			})
		}
		wg.wait()
		db.View(func(tx database.Tx) error {
			if v := readView(tx); prefixLen(v) != 3 {
				problems = append(problems, fmt.Sprintf("final state is not the state after all commits: %v", v))
			}
			return nil
		})
	}
	x := vsched.RunOnce(prefix, 5000, body)
	return x, problems, stale
}

func main() {
	vsync.YieldOnUnlock = true
	var sc scenario
	if err := json.Unmarshal([]byte(os.Args[1]), &sc); err != nil {
		panic(err)
	}
	secs := 300
	if v := os.Getenv("C05D_SECS"); v != "" {
		fmt.Sscan(v, &secs)
	}
	deadline := time.Now().Add(time.Duration(secs) * time.Second)
	res := result{Outcomes: map[string]int{}, Complete: true}
	judge := func(x *vsched.Exec, problems []string) (string, string) {
		switch {
		case x.Panic != "":
			return "panic", "panic: " + strings.SplitN(x.Panic, "\n", 2)[0]
		case x.Deadlock:
			return "deadlock", "deadlock: " + strings.Join(x.Blocked, "; ")
		case x.Horizon || x.Zombies:
			return "unfinished", "execution did not finish"
		case len(problems) > 0:
			cls := "isolation"
			if strings.Contains(problems[0], "lost update") {
				cls = "lost-update"
			} else if strings.Contains(problems[0], "not the state after a prefix") {
				cls = "non-prefix-snapshot"
			} else if strings.Contains(problems[0], "non-repeatable") {
				cls = "non-repeatable-read"
			} else if strings.Contains(problems[0], "had returned sees only") {
				cls = "committed-update-invisible-to-later-reader"
			} else if strings.Contains(problems[0], "final state") {
				cls = "lost-commit"
			}
			return cls, problems[0]
		}
		return "ok", ""
	}
	if len(sc.Choices) > 0 { // replay mode
		x, p, _ := runOnce(sc, sc.Choices)
		_, v := judge(x, p)
		res.Evals = 1
		if v != "" {
			res.Violations = append(res.Violations, violation{"replay", v, sc})
		}
		b, _ := json.Marshal(res)
		fmt.Println(string(b))
		return
	}
	defer func() {
		if sharedDB != nil {
			sharedDB.Close()
			os.RemoveAll(sharedDir)
		}
	}()
	var explore func(prefix []int)
	explore = func(prefix []int) {
		if time.Now().After(deadline) {
			res.Complete = false
			return
		}
		x, problems, stale := runOnce(sc, prefix)
		res.Evals++
		res.Points += len(x.Points)
		res.StaleReads += stale
		if x.Diverged != "" {
			res.Violations = append(res.Violations, violation{"replay-divergence", x.Diverged, sc})
			res.Complete = false
			return
		}
		outcome, viol := judge(x, problems)
		res.Outcomes[outcome]++
		if viol != "" && len(res.Violations) < 5 {
			c := x.Choices()
			same := true
			for k := 0; k < 2; k++ {
				x2, p2, _ := runOnce(sc, c)
				if o2, _ := judge(x2, p2); o2 != outcome {
					same = false
				}
			}
			s2 := sc
			s2.Choices = c
			if !same {
				res.Violations = append(res.Violations, violation{"nondeterministic", "schedule replay gave a different verdict: " + viol, s2})
			} else {
				res.Violations = append(res.Violations, violation{"sched/" + outcome, fmt.Sprintf("%s readers=%d begin=%v schedule{%s}: %s", sc.Name, sc.Readers, sc.Begin, vsched.Describe(x), viol), s2})
			}
		}
		for i := len(prefix); i < len(x.Points); i++ {
			p := x.Points[i]
			if len(p.Enabled) <= 1 {
				continue
			}
			cost := 1
			for k := 0; k < i; k++ {
				if x.Points[k].Choice != 0 {
					cost++
				}
			}
			if cost > sc.Bound {
				continue
			}
			for alt := 1; alt < len(p.Enabled); alt++ {
				explore(append(append([]int(nil), x.Choices()[:i]...), alt))
			}
		}
	}
	explore(nil)
	b, _ := json.Marshal(res)
	fmt.Println(string(b))
}
