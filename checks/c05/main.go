//go:debug randseednop=0

// C05 — block/metadata store (database/ffldb) is atomic, isolated, prefix-durable
// and byte-faithful.
//
// One evidence file, several parts, each a function contributing to the same
// ev.Run:
//
//	partSeq    (a)  sequential refinement: DFS over all op sequences vs refdb
//	partTreap  (a') exhaustive op sequences on treap.Immutable / treap.Mutable
//	partFault  (b)  every single block-file I/O call of every history made to fail
//	partCrash  (c)  every crash image (log prefix x dropped unsynced writes x torn last write)
//	partSched  (d)  isolation under thread schedules (partsched.go + checks/c05/sched, built by run.sh)
//
// Everything runs in directories /dev/shm/verif-c05-<pid>-*, removed at exit.
//
// Violation keys are stable classes ("seq/<call>/<class>[/<circumstance>]",
// "treap/<kind>/<class>", "fault/<history tag>/<failed call>/<class>",
// "crash/<history tag>/<cause>/<class>"); for every key the smallest failing case
// is kept as the replay.  known_findings_suggestion.json in this directory lists
// the patterns of the defects found on the pinned tree (for /verif/known_findings.json).
//
// Development aids (environment, never needed by the harness): C05_PARTS=a,b
// (run only these parts: probes,treap,seq,fault,crash), C05_HIST=<history names>,
// C05_BUDGET_S=<seconds> (replaces all time slices), C05_CRASH_DRY=1 (count crash
// images only), C05_CPUPROFILE=<file>.
package main

import (
	"fmt"
	"math/rand"
	"os"
	"runtime/debug"
	"runtime/pprof"
	"sort"
	"strings"
	"time"

	"verif/engine/ev"
)

var ballast []byte

type part struct {
	name   string
	run    func(r *ev.Run, v *violSet)
	quickS int // wall-clock slice of the part (seconds): quick / thorough
	thorS  int
}

// partDeadline is the end of the running part's slice; expired() is polled by
// every enumeration loop.  Hitting it is reported as a cap (never as a verdict).
var partDeadline time.Time

func expired(r *ev.Run) bool {
	return r.Expired() || (!partDeadline.IsZero() && time.Now().After(partDeadline))
}

func main() {
	r := ev.Start("C05")
	if pf := os.Getenv("C05_CPUPROFILE"); pf != "" {
		f, _ := os.Create(pf)
		pprof.StartCPUProfile(f)
		defer pprof.StopCPUProfile()
	}
	mkBlocks()
	// The workload allocates short-lived iterators at a very high rate; a ballast
	// (never touched, so not resident) keeps the GC cycle long and lets freed spans
	// be reused instead of being returned to the OS and faulted in again.
	ballast = make([]byte, 1<<30)
	debug.SetGCPercent(100)
	defer cleanupAll()
	r.Rule("(a) every sequence of <= D inner operations (Put/Delete on 3 keys x 3 buckets, Create/CreateIfNotExists/DeleteBucket on 4 nested paths, cursor First/Last/Seek/Next/Prev/Delete, StoreBlock of 3 blocks, PruneBlocks) grouped into <= 3 committed transactions (Begin/Commit/Rollback and Update/View), plus clean reopen and a held read-only transaction, per block-file-size regime and flush policy, executed on the real ffldb and compared op by op and dump by dump with the refdb model; a case is distinct by (reference view, write set, cursor positions, committed history class); " +
		"(a') every sequence of <= N Put/Delete/multi-Put ops on the treaps with every earlier version re-checked; " +
		"(b) every block-file I/O call of every fixed history failed in turn (error / short write), also a second fault during the rollback; " +
		"(c) every prefix of the block-file write log x every subset of unsynced writes dropped x torn last write, reopened through database.Open")
	r.Assume("goleveldb is atomic and durable per write batch / transaction commit: the metadata directory of a crash image is the point-in-time copy of the leveldb directory that the recorder took when it OBSERVED the last change of its logical content inside the log prefix (each copy is verified by opening it with goleveldb); two leveldb commits with no block-file event between them are observed as one change")
	r.Assume("file creation, truncation and deletion are durable immediately (directory entries are not subject to loss in the crash model); only WriteAt data not covered by a later Sync of the same file can be lost or torn")
	r.Assume("the relative order in which a Cursor walks key/value pairs and nested buckets is not fixed by interface.go; the reference uses: all pairs in byte order, then all nested buckets in byte order")
	r.Assume("after a modification of a bucket other than Cursor.Delete its cursors are unpredictable until repositioned (interface.go); such cursor reads are not compared")
	r.Assume("treap node priorities come from math/rand; tree shapes are not enumerated (contents and iteration order are compared); every violation is confirmed 3x under a fixed math/rand seed that is stored in the replay file")
	r.Assume("Cursor.Seek is specified for key/value pairs only: when no pair >= the seek key exists and the bucket has nested buckets, where the cursor lands is not compared")
	r.Assume("which blocks a PruneBlocks call removes is implementation-defined; demanded: they are stored blocks, oldest first, and they disappear atomically with the transaction")
	r.Assume("error codes of misuse calls that the property does not mention (Put/Delete on a bucket name, Delete of an empty key, Cursor.Delete in a read-only tx) are probed and reported under documented_contract_probes, not as violations")

	viols := &violSet{}
	budget := 200 * time.Second
	if r.Thorough() {
		budget = 19*time.Minute + 30*time.Second
	}
	if b := os.Getenv("C05_BUDGET_S"); b != "" { // development aid
		var n int
		fmt.Sscan(b, &n)
		budget = time.Duration(n) * time.Second
	}
	r.SetBudget(budget)

	if r.ReplayPath != "" {
		var rp replayObj
		r.LoadReplay(&rp)
		replayOne(r, rp)
		r.Finish(false)
	}

	bindReference(r)

	parts := []part{
		{"probes", partProbes, 5, 5},
		{"treap", partTreap, 30, 90},
		{"seq", partSeq, 110, 720},
		{"fault", partFault, 25, 120},
		{"crash", partCrash, 25, 240},
		{"sched", partSched, 100, 600},
		// ------------------------------------------------------------------
		// PART (d): isolation under thread schedules (vsched), partsched.go.
		// Add {"sched", partSched, <quick seconds>, <thorough seconds>} with
		//     func partSched(r *ev.Run, v *violSet)
		// Report failures with v.add("sched/<class>", what, replayObj{Part: "d", ...}, size)
		// and extend replayKey() below with a case for Part == "d" (replays and the
		// 3x confirmation under fixed seeds go through it).
		// ------------------------------------------------------------------
	}
	only := os.Getenv("C05_PARTS") // development aid: comma separated part names
	times := map[string]float64{}
	var leftover time.Duration
	for _, p := range parts {
		if only != "" && !strings.Contains(","+only+",", ","+p.name+",") {
			continue
		}
		t0 := time.Now()
		// a part may use its own slice plus whatever earlier parts left over
		slice := time.Duration(r.Pick(p.quickS, p.thorS))*time.Second + leftover
		if os.Getenv("C05_BUDGET_S") != "" {
			slice = budget
		}
		partDeadline = t0.Add(slice)
		p.run(r, viols)
		partDeadline = time.Time{}
		if leftover = slice - time.Since(t0); leftover < 0 {
			leftover = 0
		}
		times[p.name] = time.Since(t0).Seconds()
	}
	r.Set("part_wall_seconds", times)
	// exact bounds / alphabets of every part in one place
	seqB := map[string]interface{}{}
	for _, sc := range scenarios(r) {
		var cfgs []string
		for _, c := range sc.Cfgs {
			cfgs = append(cfgs, c.String())
		}
		seqB[sc.Name] = map[string]interface{}{"cfgs(file_size/flush)": cfgs, "inner_op_budget": sc.Depth, "max_committed_tx": sc.MaxTx, "max_reopen_steps": sc.Reopen, "held_reader": sc.Hold, "writable_tx_ops": sc.WOps, "readonly_tx_ops": sc.ROps}
	}
	var hs []map[string]string
	for _, h := range ioHistories() {
		hs = append(hs, map[string]string{"name": h.Name, "cfg": h.Cfg.String(), "steps": histString(h.Steps)})
	}
	r.Set("bounds", map[string]interface{}{
		"keys": keyNames, "bucket_paths": bucketUniverse, "user_root_bucket": string(userRoot),
		"block_sizes":         []int{len(blocks[0].raw), len(blocks[1].raw), len(blocks[2].raw)},
		"max_block_file_size": map[string]uint32{fsTiny: maxFileSize(fsTiny), fsFit2: maxFileSize(fsFit2), fsLarge: 512 * 1024 * 1024},
		"regions_per_block(offset,len;L=block length)": "(0,L) (3,5) (L,0) (0,L+1) (L,1) (L-1,2) (1,L+11) (0xffffffff,2) (0,0xffffffff)",
		"seq_scenarios":                         seqB,
		"tx_kinds":                              "Begin(true)+Commit/Rollback, Update (nil / error return), Begin(false)+Rollback/Commit, View; every op path under both writable kinds and both read-only kinds",
		"treap":                                 map[string]interface{}{"immutable_alphabet": immAlphabet, "immutable_max_ops": r.Pick(6, 7), "mutable_alphabet": mutAlphabet, "mutable_max_ops": r.Pick(5, 6), "keys": tKeys, "iterator_ranges": treapRanges, "seek_probes": iterProbes},
		"io_histories":                          hs,
		"fault_kinds":                           "error on OpenWrite/OpenRead/WriteAt/ReadAt/Sync/Truncate/Delete; short write (half the bytes) on WriteAt; second fault = error on every call of the rollback",
		"crash_unsynced_subset_cap_bits":        r.Pick(4, 10),
		"crash_torn_last_write":                 "0 (dropped) / half / full",
		"violations_confirmed_under_rand_seeds": "1..16, 3 runs each",
	})

	// confirm every violation 3x on fresh instances before printing it
	keys := make([]string, 0, len(viols.m))
	for k := range viols.m {
		keys = append(keys, k)
	}
	sort.Strings(keys)
	// The treaps draw node priorities from math/rand, so a defect can depend on the
	// (random) tree shape.  Every violation is therefore confirmed under FIXED seeds
	// (sequentially, nothing else running): it is printed only if some seed
	// reproduces it three times in a row; the seed becomes part of the replay file.
	for _, k := range keys {
		v := viols.m[k]
		confirmed := false
		var seen []string
		for seed := int64(1); seed <= 16 && !confirmed; seed++ {
			v.replay.Seed = seed
			var gots []string
			for i := 0; i < 3; i++ {
				got := replayKey(v.replay)
				gots = append(gots, got)
				if got != gots[0] {
					// same seed, different verdicts: real non-determinism
					cleanupAll()
					r.Broken("violation %q flips under a fixed seed %d (%q): %s", v.key, seed, gots, v.what)
				}
				if got == "" {
					break
				}
			}
			if gots[0] == "" {
				seen = append(seen, fmt.Sprintf("seed %d: passes", seed))
				continue
			}
			if gots[0] != v.key {
				// the tree shape of this seed turns the same history into a
				// differently classified failure: still a reproducible violation
				// of the same history; reported under the class that reproduces
				seen = append(seen, fmt.Sprintf("seed %d: %q", seed, gots[0]))
				v.what = fmt.Sprintf("%s [first seen as %q; under the fixed seed %d the same history fails as %q: %s]", v.what, v.key, seed, gots[0], lastReplayDetail)
				v.key = gots[0]
			}
			confirmed = true
		}
		if !confirmed {
			cleanupAll()
			r.Broken("violation %q did not reproduce under any fixed seed (%v): %s", v.key, seen, v.what)
		}
		r.Violation(v.key, v.what, v.replay)
	}
	cleanupAll()
	pprof.StopCPUProfile()
	r.Finish(only == "")
}

// replayKey re-runs a replay object and returns the violation key it produces
// ("" when the case passes).
var lastReplayDetail string

func replayKey(rp replayObj) string {
	if rp.Seed != 0 {
		rand.Seed(rp.Seed)
	}
	switch rp.Part {
	case "a":
		d, err := runReplaySeq(rp)
		if err != nil {
			return "harness-error: " + err.Error()
		}
		if d == nil {
			return ""
		}
		lastReplayDetail = d.String()
		k := "seq/" + d.Class
		if len(rp.Prior) > 0 {
			k += "/only-after-earlier-rolled-back-transactions"
		}
		return k
	case "treap-immutable", "treap-mutable":
		f, kind := runImmutable, "immutable"
		if rp.Part == "treap-mutable" {
			f, kind = runMutable, "mutable"
		}
		w := f(rp.Treap)
		if w == "" {
			return ""
		}
		cls := "contents"
		switch {
		case strings.Contains(w, "EARLIER version"):
			cls = "snapshot-changed"
		case strings.Contains(w, "terator"):
			cls = "iterator"
		}
		return "treap/" + kind + "/" + cls
	case "b":
		return replayFault(rp)
	case "c":
		return replayCrash(rp)
	}
	return "harness-error: unknown part " + rp.Part
}

func replayOne(r *ev.Run, rp replayObj) {
	k := replayKey(rp)
	r.Eval(1)
	if strings.HasPrefix(k, "harness-error") {
		r.Broken("%s", k)
	}
	if k != "" {
		r.Violation(k, fmt.Sprintf("replayed case still fails with class %s %s", k, lastReplayDetail), rp)
	}
	cleanupAll()
}
