package main

import (
	"fmt"
	"runtime"
	"sort"
	"strings"
	"sync"

	"verif/engine/ev"
)

// ---------------------------------------------------------------- part (a): sequential refinement
//
// The search is a depth-first enumeration of ALL sequences of inner operations
// (up to a total budget of D ops) grouped into at most T committed transactions,
// with state hashing:
//
//   - committed level: a node is a history of committed steps.  Nodes are explored
//     level by level (deterministic order); children that reach an already seen
//     (reference state, unflushed write set, held reader, remaining budgets) are
//     verified but not expanded again.
//   - transaction level: inside one real instance that sits at the node's
//     committed state, every op sequence is executed in a fresh transaction that
//     is then ROLLED BACK (manual Rollback / managed error return) -- rollback is
//     the undo that lets one instance serve the whole subtree.  Sequences reaching
//     an already seen (view, write set, cursor positions) with no more remaining
//     depth are not extended.
//   - every distinct (view, write set) is additionally COMMITTED on a fresh
//     instance (after first running and rolling back the same ops as a decoy),
//     dumped, cleanly closed, reopened and dumped again.
//
// After the last op of every sequence the full observation battery runs (Get on
// every key of every bucket, ForEach, ForEachBucket, Has/Fetch of every block,
// header, 9 regions per block incl. one-past-the-end, the plural forms, misuse
// in read-only transactions), and after every transaction end the handles of the
// closed transaction are probed and the committed state is dumped through a new
// View and compared.

type scenario struct {
	Name          string
	Cfgs          []cfg
	WOps          []string // alphabet inside writable transactions
	ROps          []string // alphabet inside read-only transactions
	Depth         int      // total inner ops over the history
	MaxTx         int      // committed writable transactions per history
	Reopen        int      // clean close+reopen steps per history
	Hold          bool     // sequential isolation probe (one held read-only tx)
	HoldNeverOnly bool     // quick tier: the probe only under the never-flush policy (snapshots served by the treaps)
	ObsBuckets    []string // buckets observed by the battery (nil: all of bucketUniverse)
	NoBlockObs    bool     // no block ops in the alphabet: skip block observations
}

type node struct {
	hist    []Step
	unf     map[string]string // write set not yet flushed to leveldb (abstraction used for hashing only)
	used    int
	txUsed  int
	reopens int
	held    bool
	holds   int
}

func (n *node) key(dump string) string {
	k := make([]string, 0, len(n.unf))
	for a, b := range n.unf {
		k = append(k, a+"="+b)
	}
	sort.Strings(k)
	return fmt.Sprintf("%s|unf:%s|u%d t%d r%d h%v%d", dump, strings.Join(k, ","), n.used, n.txUsed, n.reopens, n.held, n.holds)
}

type violRec struct {
	key, what string
	replay    replayObj
	size      int
}

type replayObj struct {
	Part    string   `json:"part"`
	Cfg     cfg      `json:"cfg"`
	Hist    []Step   `json:"hist,omitempty"`
	Prior   []Step   `json:"prior_rolled_back,omitempty"`
	Battery bool     `json:"battery,omitempty"`
	Name    string   `json:"name,omitempty"`
	Fault   []fault  `json:"fault,omitempty"`
	Target  int      `json:"target,omitempty"`
	Prefix  int      `json:"prefix,omitempty"`
	Dropped []int    `json:"dropped,omitempty"`
	Torn    string   `json:"torn,omitempty"`
	Treap   []string `json:"treap,omitempty"`
	Class   string   `json:"class,omitempty"` // part (a): the disagreement class this replay is about
	Seed    int64    `json:"seed,omitempty"`  // math/rand seed (treap priorities) under which the case was confirmed
}

type violSet struct {
	mu sync.Mutex
	m  map[string]*violRec
}

func (v *violSet) add(key, what string, rp replayObj, size int) {
	v.mu.Lock()
	defer v.mu.Unlock()
	if v.m == nil {
		v.m = map[string]*violRec{}
	}
	old := v.m[key]
	if old == nil || size < old.size || (size == old.size && what < old.what) {
		v.m[key] = &violRec{key, what, rp, size}
	}
}

// covered reports whether a failing case of this class and at most this size is
// already recorded (then a new one need not be confirmed and stored).
func (v *violSet) covered(key string, size int) bool {
	v.mu.Lock()
	defer v.mu.Unlock()
	old := v.m[key]
	return old != nil && old.size <= size
}

func histSize(h []Step) int {
	n := 0
	for _, s := range h {
		n += 1 + len(s.Ops)
	}
	return n
}

// runReplaySeq re-executes a part-(a) replay object; returns the disagreement.
func runReplaySeq(rp replayObj) (*disc, error) {
	if len(rp.Hist) == 0 {
		return nil, fmt.Errorf("empty history")
	}
	h := rp.Hist
	if len(rp.Prior) == 0 {
		s, d, err := runHistoryObs(rp.Cfg, h, rp.Battery, nil, false, rp.Class)
		if s != nil {
			s.destroy()
		}
		return d, err
	}
	s, d, err := runHistory(rp.Cfg, h[:len(h)-1], false)
	if err != nil || d != nil {
		return d, err
	}
	defer s.destroy()
	for _, p := range rp.Prior {
		if r := s.runStep(len(h)-1, p, true); r.d != nil {
			return r.d, nil
		}
	}
	r := s.runStep(len(h)-1, h[len(h)-1], rp.Battery)
	if r.d == nil {
		for _, sd := range r.soft {
			if r.d == nil || sd.Class == rp.Class {
				r.d = sd
			}
		}
	}
	return r.d, nil
}

type seqStats struct {
	states, trans, paths, tjobs, nodes, discs, commitErrs, reopens int64
}

type explorer struct {
	r     *ev.Run
	sc    scenario
	cfg   cfg
	viols *violSet
	mu    sync.Mutex
	st    seqStats
	harn  []string // harness errors (instance creation etc.)

	reopened map[string]bool // committed-state keys whose close+reopen+dump was done
}

func (x *explorer) harness(format string, a ...interface{}) {
	x.mu.Lock()
	x.harn = append(x.harn, fmt.Sprintf(format, a...))
	x.mu.Unlock()
}

func (x *explorer) report(hist []Step, prior []Step, battery bool, d *disc) {
	rp := replayObj{Part: "a", Cfg: x.cfg, Hist: hist, Prior: prior, Battery: battery, Class: d.Class}
	key := "seq/" + d.Class
	if len(prior) > 0 {
		key += "/only-after-earlier-rolled-back-transactions"
	}
	what := fmt.Sprintf("cfg=%s history: %s => %s", x.cfg, histString(hist), d.String())
	x.viols.add(key, what, rp, histSize(hist)+1000*len(prior))
}

// note records a disagreement found while exploring on a reused instance: unless
// an equally small example of the class is already known, it is first confirmed
// on a fresh instance that runs nothing but the history.
func (x *explorer) note(full []Step, prior []Step, d *disc) {
	if x.viols.covered("seq/"+d.Class, histSize(full)) {
		return
	}
	d2, e2 := runReplaySeq(replayObj{Cfg: x.cfg, Hist: full, Battery: true, Class: d.Class})
	if e2 != nil {
		x.harness("confirm: %v", e2)
	} else if d2 != nil && d2.Class == d.Class {
		x.report(full, nil, true, d2)
	} else {
		x.report(full, append([]Step{}, prior...), true, d)
	}
}

// ejob explores every transaction path at one committed node.
func (x *explorer) ejob(n *node) (children []Step) {
	s, d, err := runHistoryObs(x.cfg, n.hist, false, x.sc.ObsBuckets, x.sc.NoBlockObs, "")
	if err != nil {
		x.harness("ejob build: %v", err)
		return nil
	}
	if d != nil {
		// already reported by the T job that created this node
		return nil
	}
	defer func() {
		if s != nil {
			s.destroy()
		}
	}()
	var prior []Step
	rebuild := func() bool {
		s.destroy()
		prior = nil
		var e error
		s, d, e = runHistoryObs(x.cfg, n.hist, false, x.sc.ObsBuckets, x.sc.NoBlockObs, "")
		if e != nil || d != nil {
			x.harness("ejob rebuild failed: %v %v", e, d)
			s = nil
			return false
		}
		return true
	}
	rem := x.sc.Depth - n.used
	var st seqStats
	idx := len(n.hist)
	commitSeen := map[string]bool{}
	var dfs func(kind string, alphabet []string, path []string, rem int, visited map[string]int) bool
	dfs = func(kind string, alphabet []string, path []string, rem int, visited map[string]int) bool {
		for _, op := range alphabet {
			if expired(x.r) {
				return false
			}
			np := append(append([]string{}, path...), op)
			step := Step{Kind: kind, Ops: np, End: "rollback"}
			res := s.runStep(idx, step, true)
			if !res.enabled {
				continue
			}
			st.trans += int64(len(np)) + 1
			st.paths++
			for _, sd := range res.soft {
				x.note(append(append([]Step{}, n.hist...), step), prior, sd)
			}
			if res.d != nil {
				full := append(append([]Step{}, n.hist...), step)
				st.discs++
				x.note(full, prior, res.d)
				// the transaction was rolled back; keep the instance if its
				// committed state is still what it should be
				if s.checkCommitted("after-rollback") != nil {
					if !rebuild() {
						return false
					}
				}
				continue
			}
			prior = append(prior, step)
			if len(prior) > 4096 { // keep the instance's rolled-back past bounded and replayable
				if !rebuild() {
					return false
				}
			}
			if old, ok := visited[res.stateKey]; ok && old >= rem-1 {
				continue
			}
			if _, ok := visited[res.stateKey]; !ok {
				st.states++
				x.r.Nontrivial(x.sc.Name + x.cfg.String() + kind + res.stateKey)
			}
			visited[res.stateKey] = rem - 1
			if (kind == "W" || kind == "U") && n.txUsed < x.sc.MaxTx && !commitSeen[res.commitKey] {
				commitSeen[res.commitKey] = true
				ck := "W"
				if len(children)%2 == 1 {
					ck = "U"
				}
				children = append(children, Step{Kind: ck, Ops: np, End: "commit"})
			}
			if rem-1 > 0 {
				if !dfs(kind, alphabet, np, rem-1, visited) {
					return false
				}
			}
		}
		return true
	}
	if rem > 0 {
		for _, k := range []string{"W", "U"} {
			if !dfs(k, x.sc.WOps, nil, rem, map[string]int{}) || s == nil {
				break
			}
		}
		if s != nil {
			for _, k := range []string{"R", "V"} {
				if !dfs(k, x.sc.ROps, nil, rem, map[string]int{}) || s == nil {
					break
				}
			}
		}
	}
	x.mu.Lock()
	x.st.states += st.states
	x.st.trans += st.trans
	x.st.paths += st.paths
	x.st.discs += st.discs
	x.st.nodes++
	x.mu.Unlock()
	return children
}

// tjob verifies one committed-level transition on a fresh instance and returns
// the child node (nil when a disagreement was found).
func (x *explorer) tjob(n *node, step Step) (*node, string) {
	s, d, err := runHistoryObs(x.cfg, n.hist, false, x.sc.ObsBuckets, x.sc.NoBlockObs, "")
	if err != nil {
		x.harness("tjob build: %v", err)
		return nil, ""
	}
	if d != nil {
		return nil, ""
	}
	defer s.destroy()
	idx := len(n.hist)
	full := append(append([]Step{}, n.hist...), step)
	child := &node{hist: full, unf: map[string]string{}, used: n.used + len(step.Ops), txUsed: n.txUsed, reopens: n.reopens, held: n.held, holds: n.holds}
	for k, v := range n.unf {
		child.unf[k] = v
	}
	trans := int64(1)
	if step.isTx() {
		// decoy: the same ops, rolled back first
		decoy := step
		decoy.End = "rollback"
		if r := s.runStep(idx, decoy, false); r.d != nil {
			x.report(append(append([]Step{}, n.hist...), decoy), nil, false, r.d)
			return nil, ""
		}
		r := s.runStep(idx, step, true)
		trans += 2 * int64(len(step.Ops)+1)
		for _, sd := range r.soft {
			x.note(full, nil, sd)
		}
		if r.d != nil {
			// minimal form: without the decoy
			d2, _ := runReplaySeq(replayObj{Cfg: x.cfg, Hist: full, Battery: true})
			if d2 != nil && d2.Class == r.d.Class {
				x.report(full, nil, true, d2)
			} else {
				x.report(full, []Step{decoy}, true, r.d)
			}
			return nil, ""
		}
		if r.commitErr != nil {
			// failed without being applied (state verified by runStep): atomic,
			// counted, no child
			x.mu.Lock()
			x.st.commitErrs++
			x.mu.Unlock()
			x.r.Sample(map[string]interface{}{"part": "a", "note": "commit failed without injected fault but atomically", "cfg": x.cfg.String(), "history": histString(full), "error": r.commitErr.Error()})
			return nil, ""
		}
		if step.writable() {
			child.txUsed++
			if !x.cfg.FlushEvery {
				for _, kv := range strings.Split(strings.SplitN(r.commitKey, "|ws:", 2)[1], ",") {
					if kv != "" {
						p := strings.SplitN(kv, "=", 2)
						child.unf[p[0]] = p[1]
					}
				}
			}
		}
	} else {
		r := s.runStep(idx, step, false)
		if r.d != nil {
			x.report(full, nil, false, r.d)
			return nil, ""
		}
		switch step.Kind {
		case "reopen":
			child.reopens++
			child.unf = map[string]string{}
		case "hold":
			child.held = true
			child.holds++
		case "release":
			child.held = false
		}
	}
	key := child.key(s.ref.Committed().Dump())
	x.mu.Lock()
	x.st.tjobs++
	x.st.trans += trans
	first := !x.reopened[key]
	if x.reopened == nil {
		x.reopened = map[string]bool{}
	}
	x.reopened[key] = true
	x.mu.Unlock()
	x.r.Trace(1)
	if !first {
		// an instance in exactly this (state, unflushed write set, held reader,
		// budgets) has already been closed, reopened and dumped
		return child, key
	}
	// end of life: release the held reader, clean close, reopen, full dump
	tail := full
	if s.held != nil {
		rel := Step{Kind: "release"}
		tail = append(append([]Step{}, tail...), rel)
		if r := s.runStep(len(tail)-1, rel, false); r.d != nil {
			x.report(tail, nil, false, r.d)
			return nil, ""
		}
	}
	ro := Step{Kind: "reopen"}
	tail = append(append([]Step{}, tail...), ro)
	if r := s.runStep(len(tail)-1, ro, false); r.d != nil {
		x.report(tail, nil, false, r.d)
		return nil, ""
	}
	x.mu.Lock()
	x.st.reopens++
	x.st.trans++
	x.mu.Unlock()
	return child, key
}

type tj struct {
	n    *node
	step Step
}

// explore runs the whole search for one (scenario, cfg).
func (x *explorer) explore() (complete bool) {
	workers := runtime.NumCPU()
	level := []*node{{unf: map[string]string{}}}
	seen := map[string]bool{}
	complete = true
	for depth := 0; len(level) > 0; depth++ {
		// E jobs
		kids := make([][]Step, len(level))
		ev.Par(len(level), workers, func(i int) {
			if expired(x.r) {
				return
			}
			kids[i] = x.ejob(level[i])
		})
		if expired(x.r) {
			return false
		}
		var jobs []tj
		for i, n := range level {
			steps := kids[i]
			if n.txUsed < x.sc.MaxTx {
				// empty transactions of every kind
				steps = append([]Step{{Kind: "W", End: "commit"}, {Kind: "U", End: "commit"}, {Kind: "R", End: "commit"}, {Kind: "V", End: "commit"}}, steps...)
			}
			if n.reopens < x.sc.Reopen && !n.held && len(n.hist) > 0 && n.hist[len(n.hist)-1].Kind != "reopen" {
				steps = append(steps, Step{Kind: "reopen"})
			}
			if x.sc.Hold && !(x.sc.HoldNeverOnly && x.cfg.FlushEvery) && !n.held && n.holds == 0 && n.txUsed < x.sc.MaxTx {
				steps = append(steps, Step{Kind: "hold"})
			}
			if n.held && n.hist[len(n.hist)-1].Kind != "hold" {
				steps = append(steps, Step{Kind: "release"})
			}
			for _, st := range steps {
				jobs = append(jobs, tj{n, st})
			}
		}
		childs := make([]*node, len(jobs))
		keys := make([]string, len(jobs))
		ev.Par(len(jobs), workers, func(i int) {
			if expired(x.r) {
				return
			}
			childs[i], keys[i] = x.tjob(jobs[i].n, jobs[i].step)
		})
		if expired(x.r) {
			return false
		}
		level = nil
		for i, c := range childs {
			if c == nil || seen[keys[i]] {
				continue
			}
			seen[keys[i]] = true
			// a node is worth expanding only if something can still happen below it
			if c.used < x.sc.Depth || c.held || c.reopens < x.sc.Reopen {
				// (a node whose writable transactions are used up is still
				// expanded while ops remain: read-only transactions and rolled
				// back writable ones run on top of its committed state)
				if c.txUsed < x.sc.MaxTx || c.held || c.used < x.sc.Depth {
					level = append(level, c)
				}
			}
		}
	}
	return complete
}
