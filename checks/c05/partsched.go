package main

// Part (d): isolation under thread schedules.  The exploration itself lives in
// checks/c05/sched (a separate binary built through the sync->vsync overlay of
// database/ffldb, see checks/c05/run.sh); this part runs it for every scenario,
// folds the coverage into the evidence and reports its (already replay-confirmed)
// violations.  A free-running -race build of the same bodies runs afterwards.

import (
	"encoding/json"
	"fmt"
	"os"
	"os/exec"
	"strings"
	"sync"

	"verif/engine/ev"
)

type schedScenario struct {
	Name    string `json:"name"`
	Readers int    `json:"readers"`
	Writers int    `json:"writers,omitempty"`
	Begin   bool   `json:"begin"`
	Bound   int    `json:"bound"`
	Choices []int  `json:"choices,omitempty"`
}

type schedResult struct {
	Evals      int            `json:"evals"`
	Points     int            `json:"points"`
	Outcomes   map[string]int `json:"outcomes"`
	Complete   bool           `json:"complete"`
	StaleReads int            `json:"stale_snapshots_observed"`
	Violations []struct {
		Key    string          `json:"key"`
		What   string          `json:"what"`
		Replay json.RawMessage `json:"replay"`
	} `json:"violations"`
}

func partSched(r *ev.Run, v *violSet) {
	bin := os.Getenv("C05D_BIN")
	if bin == "" {
		r.Set("sched", "not run (C05D_BIN unset: use ./run.sh C05)")
		return
	}
	b := 2
	if r.Thorough() {
		b = 3
	}
	scs := []schedScenario{
		{Name: "w3r1-view", Readers: 1, Bound: b},
		{Name: "w3r1-begin", Readers: 1, Begin: true, Bound: b},
		{Name: "w3r2-view", Readers: 2, Bound: 2},
		{Name: "w2-counter", Writers: 2, Bound: b},
	}
	results := make([]schedResult, len(scs))
	errs := make([]string, len(scs))
	var wg sync.WaitGroup
	for i := range scs {
		wg.Add(1)
		go func(i int) {
			defer wg.Done()
			arg, _ := json.Marshal(scs[i])
			cmd := exec.Command(bin, string(arg))
			cmd.Env = append(os.Environ(), "GOMAXPROCS=2", fmt.Sprintf("C05D_SECS=%d", r.Pick(100, 600)))
			out, err := cmd.Output()
			if err != nil {
				errs[i] = fmt.Sprintf("%s: %v", scs[i].Name, err)
				return
			}
			lines := strings.Split(strings.TrimSpace(string(out)), "\n")
			if e := json.Unmarshal([]byte(lines[len(lines)-1]), &results[i]); e != nil {
				errs[i] = fmt.Sprintf("%s: bad output", scs[i].Name)
			}
		}(i)
	}
	wg.Wait()
	for _, e := range errs {
		if e != "" {
			r.Broken("sched part: %s", e)
		}
	}
	cov := map[string]interface{}{}
	total, points := 0, 0
	for i, res := range results {
		total += res.Evals
		points += res.Points
		cov[scs[i].Name] = map[string]interface{}{"schedules": res.Evals, "scheduling_points": res.Points, "deviation_bound": scs[i].Bound, "distinct_outcomes": len(res.Outcomes), "complete": res.Complete, "stale_but_consistent_snapshots": res.StaleReads}
		if !res.Complete {
			r.Cap(fmt.Sprintf("sched scenario %s hit its time box after %d schedules", scs[i].Name, res.Evals))
		}
		for k := range res.Outcomes {
			r.Nontrivial("sched/" + scs[i].Name + "/" + k)
		}
		for _, vi := range res.Violations {
			if vi.Key == "nondeterministic" || vi.Key == "replay-divergence" {
				r.Broken("sched part: %s: %s", vi.Key, vi.What)
			}
			if strings.Contains(vi.What, "is not modelled") {
				// a construct the scheduler does not model: no verdict possible
				r.Broken("part (d): %s: %s", vi.Key, vi.What)
			}
			r.Violation(vi.Key, vi.What, map[string]interface{}{"part": "d", "sched": vi.Replay})
		}
	}
	r.Eval(total)
	r.Trace(total)
	r.Trans(points)
	r.State(total)
	r.Set("sched", cov)
	r.Sample(map[string]interface{}{"part": "d", "scenario": scs[0], "note": "writer: 3 commits (cache / flush path / cache); reader: View with two reads; all schedules with <= bound deviations"})

	// free-running -race pass
	if rb := os.Getenv("C05_RACE_BIN"); rb != "" {
		out, err := exec.Command(rb, fmt.Sprint(r.Pick(15, 150))).CombinedOutput()
		txt := string(out)
		if i := strings.Index(txt, "WARNING: DATA RACE"); i >= 0 {
			rep := txt[i:]
			if len(rep) > 1500 {
				rep = rep[:1500]
			}
			r.Violation("race/ffldb", "data race reported by the free-running -race pass: "+strings.ReplaceAll(rep, "\n", " | "), map[string]string{"report": rep})
		} else if err != nil {
			r.Broken("race pass failed: %v: %s", err, txt)
		} else if !strings.Contains(txt, "non-prefix snapshots observed: 0") {
			r.Violation("race/non-prefix-snapshot", "free-running pass observed a non-prefix snapshot: "+strings.TrimSpace(txt), map[string]string{"output": txt})
		}
		r.Set("race_pass", strings.TrimSpace(txt))
	}
}
