package main

import (
	"bytes"
	"compress/bzip2"
	"encoding/binary"
	"fmt"
	"io"
	"os"

	"github.com/btcsuite/btcd/btcutil/v2"
	"github.com/btcsuite/btcd/database"

	"verif/engine/ev"
	"verif/ref/refdb"
)

// bindReference runs the reference model ALONE through the expectations that the
// repository's own interface test script states literally
// (database/ffldb/interface_test.go: testBucketInterface, testCursorInterface,
// testFetchBlockIO*, testBlockIOTxInterface, testClosedTxInterface) and through
// the shipped block file database/testdata/blocks1-256.bz2.  Any disagreement
// means the oracle is broken (exit 2), never a violation.
func bindReference(r *ev.Run) {
	n := 0
	expect := func(what string, ok bool) {
		n++
		if !ok {
			r.Broken("reference model disagrees with the shipped interface test expectation: %s", what)
		}
	}
	code := func(what string, got, want database.ErrorCode) {
		expect(fmt.Sprintf("%s: reference %v, interface_test.go expects %v", what, got, want), got == want)
	}
	db := refdb.New()
	tx := db.Begin(true)
	root := []string{}
	// testBucketInterface: put/get, nil value reads back as empty
	kvs := [][2]string{{"bucketkey1", "foo1"}, {"bucketkey2", "foo2"}, {"bucketkey3", "foo3"}}
	for _, kv := range kvs {
		code("Put", tx.Put(root, []byte(kv[0]), []byte(kv[1])), refdb.OK)
	}
	code("Put nil value", tx.Put(root, []byte("bucketkey4"), nil), refdb.OK)
	for _, kv := range kvs {
		expect("Get returns what was put", bytes.Equal(tx.Get(root, []byte(kv[0])), []byte(kv[1])))
	}
	v4 := tx.Get(root, []byte("bucketkey4"))
	expect("Get of a nil-valued key is empty but not nil (toGetValues)", v4 != nil && len(v4) == 0)
	fe, c := tx.ForEach(root)
	code("ForEach", c, refdb.OK)
	expect("ForEach visits all 4 keys", len(fe) == 4)
	for _, kv := range kvs {
		code("Delete", tx.Delete(root, []byte(kv[0])), refdb.OK)
		expect("Get after Delete is nil", tx.Get(root, []byte(kv[0])) == nil)
	}
	// buckets (interface_test.go:495-560)
	code("CreateBucket", tx.CreateBucket(root, []byte("testbucket")), refdb.OK)
	code("CreateBucket existing", tx.CreateBucket(root, []byte("testbucket")), database.ErrBucketExists)
	code("CreateBucketIfNotExists existing", tx.CreateBucketIfNotExists(root, []byte("testbucket")), refdb.OK)
	expect("Bucket() finds it", tx.HasBucket([]string{"testbucket"}))
	code("DeleteBucket", tx.DeleteBucket(root, []byte("testbucket")), refdb.OK)
	expect("Bucket() nil after delete", !tx.HasBucket([]string{"testbucket"}))
	code("DeleteBucket missing", tx.DeleteBucket(root, []byte("testbucket")), database.ErrBucketNotFound)
	code("CreateBucketIfNotExists new", tx.CreateBucketIfNotExists(root, []byte("testbucket")), refdb.OK)
	// testCursorInterface (interface_test.go:260-385)
	tb := []string{"testbucket"}
	for _, kv := range [][2]string{{"cursor", "val1"}, {"abcd", "val2"}, {"bcd", "val3"}} {
		tx.Put(tb, []byte(kv[0]), []byte(kv[1]))
	}
	tx.Put(tb, []byte("defg"), nil)
	sorted := [][2]string{{"abcd", "val2"}, {"bcd", "val3"}, {"cursor", "val1"}, {"defg", ""}}
	cur := tx.Cursor(tb)
	i := 0
	for ok := cur.First(); ok; ok = cur.Next() {
		expect("cursor forward order", i < 4 && string(cur.Key()) == sorted[i][0] && string(cur.Value()) == sorted[i][1])
		i++
	}
	expect("cursor forward count", i == 4)
	i = 3
	for ok := cur.Last(); ok; ok = cur.Prev() {
		expect("cursor backward order", i >= 0 && string(cur.Key()) == sorted[i][0])
		i--
	}
	expect("cursor backward count", i == -1)
	i = 1
	for ok := cur.Seek([]byte("bcd")); ok; ok = cur.Next() {
		expect("cursor seek forward", string(cur.Key()) == sorted[i][0])
		i++
	}
	expect("cursor seek forward count", i == 4)
	i = 1
	for ok := cur.Seek([]byte("bcd")); ok; ok = cur.Prev() {
		expect("cursor seek backward", string(cur.Key()) == sorted[i][0])
		i--
	}
	expect("cursor seek backward count", i == -1)
	expect("cursor First", cur.First())
	k := cur.Key()
	code("Cursor.Delete", cur.Delete(), refdb.OK)
	expect("Get after Cursor.Delete is nil", tx.Get(tb, k) == nil)
	code("Commit", tx.Commit(), refdb.OK)
	// read-only transaction refuses writes (interface_test.go:575-612, 1512)
	ro := db.Begin(false)
	code("ro Put", ro.Put(root, []byte("k"), []byte("v")), database.ErrTxNotWritable)
	code("ro Delete", ro.Delete(root, []byte("k")), database.ErrTxNotWritable)
	code("ro CreateBucket", ro.CreateBucket(root, []byte("b")), database.ErrTxNotWritable)
	code("ro CreateBucketIfNotExists", ro.CreateBucketIfNotExists(root, []byte("b")), database.ErrTxNotWritable)
	code("ro DeleteBucket", ro.DeleteBucket(root, []byte("b")), database.ErrTxNotWritable)
	code("ro StoreBlock", ro.StoreBlock(refdb.Hash{1}, []byte{1}), database.ErrTxNotWritable)
	code("ro Commit", ro.Commit(), database.ErrTxNotWritable)
	// closed transaction (testClosedTxInterface)
	code("closed Put", tx.Put(root, []byte("k"), []byte("v")), database.ErrTxClosed)
	code("closed Delete", tx.Delete(root, []byte("k")), database.ErrTxClosed)
	code("closed CreateBucket", tx.CreateBucket(root, []byte("b")), database.ErrTxClosed)
	code("closed DeleteBucket", tx.DeleteBucket(root, []byte("b")), database.ErrTxClosed)
	_, c = tx.ForEach(root)
	code("closed ForEach", c, database.ErrTxClosed)
	code("closed Cursor.Delete", cur.Delete(), database.ErrTxClosed)
	expect("closed Get nil", tx.Get(root, []byte("bucketkey4")) == nil)
	code("closed Commit", tx.Commit(), database.ErrTxClosed)
	code("closed Rollback", tx.Rollback(), database.ErrTxClosed)
	_, c = tx.HasBlock(refdb.Hash{})
	code("closed HasBlock", c, database.ErrTxClosed)
	_, c = tx.FetchBlock(refdb.Hash{})
	code("closed FetchBlock", c, database.ErrTxClosed)

	// shipped blocks: database/testdata/blocks1-256.bz2 (format: <net u32><len u32><block>)
	path := "/repo/database/testdata/blocks1-256.bz2"
	if alt := os.Getenv("VERIF_REPO"); alt != "" {
		path = alt + "/database/testdata/blocks1-256.bz2"
	}
	fh, err := os.Open(path)
	if err != nil {
		r.Broken("cannot open shipped block data: %v", err)
	}
	defer fh.Close()
	rd := bzip2.NewReader(fh)
	wtx := db.Begin(true)
	var stored []refdb.Hash
	var raws [][]byte
	for len(stored) < 16 {
		var hdr [8]byte
		if _, err := io.ReadFull(rd, hdr[:]); err != nil {
			break
		}
		raw := make([]byte, binary.LittleEndian.Uint32(hdr[4:]))
		if _, err := io.ReadFull(rd, raw); err != nil {
			r.Broken("short shipped block data: %v", err)
		}
		b, err := btcutil.NewBlockFromBytes(raw)
		if err != nil {
			r.Broken("shipped block does not parse: %v", err)
		}
		h := refdb.Hash(*b.Hash())
		code("StoreBlock", wtx.StoreBlock(h, raw), refdb.OK)
		code("StoreBlock again", wtx.StoreBlock(h, raw), database.ErrBlockExists) // interface_test.go:1548
		stored = append(stored, h)
		raws = append(raws, raw)
	}
	expect("shipped blocks loaded", len(stored) == 16)
	wtx.Commit()
	rtx := db.Begin(false)
	for i, h := range stored {
		has, _ := rtx.HasBlock(h)
		expect("HasBlock", has)
		raw, c := rtx.FetchBlock(h)
		code("FetchBlock", c, refdb.OK)
		expect("FetchBlock bytes", bytes.Equal(raw, raws[i]))
		hdr, c := rtx.FetchBlockHeader(h)
		code("FetchBlockHeader", c, refdb.OK)
		var buf bytes.Buffer
		mb, _ := btcutil.NewBlockFromBytes(raws[i])
		mb.MsgBlock().Header.Serialize(&buf)
		expect("FetchBlockHeader == wire header serialization", bytes.Equal(hdr, buf.Bytes()))
		// regions == transaction locations (testFetchBlockIO)
		locs, _ := mb.TxLoc()
		for _, l := range locs {
			reg, c := rtx.FetchBlockRegion(h, uint32(l.TxStart), uint32(l.TxLen))
			code("FetchBlockRegion", c, refdb.OK)
			expect("region bytes", bytes.Equal(reg, raws[i][l.TxStart:l.TxStart+l.TxLen]))
		}
		_, c = rtx.FetchBlockRegion(h, ^uint32(0), uint32(len(raws[i]))) // interface_test.go:1355
		code("FetchBlockRegion out of bounds", c, database.ErrBlockRegionInvalid)
	}
	_, c = rtx.FetchBlock(refdb.Hash{}) // interface_test.go:1324
	code("FetchBlock missing", c, database.ErrBlockNotFound)
	_, c = rtx.FetchBlockHeader(refdb.Hash{})
	code("FetchBlockHeader missing", c, database.ErrBlockNotFound)
	_, c = rtx.FetchBlockRegion(refdb.Hash{}, ^uint32(0), 1) // interface_test.go:1343
	code("FetchBlockRegion missing", c, database.ErrBlockNotFound)
	rtx.Rollback()
	r.Add("reference_validation_cases", int64(n))
}
