package main

import (
	"errors"
	"fmt"
	"sync"

	"github.com/btcsuite/btcd/database"
	"github.com/btcsuite/btcd/database/ffldb"
)

// fsim wraps every block file ffldb opens (through the openFileFunc /
// openWriteFileFunc / deleteFileFunc seams).  It numbers the I/O calls made while
// it is armed, can make the i-th one fail, and records the write-side events into
// one global log from which crash images are materialised.

const (
	evOpenW = iota
	evOpenR
	evWrite
	evRead
	evSync
	evTrunc
	evClose
	evDelete
	evMark // harness marker: leveldb now durably holds transactions <= N
)

var evKindNames = []string{"OpenWrite", "OpenRead", "WriteAt", "ReadAt", "Sync", "Truncate", "Close", "Delete", "LDB"}

type fsEvent struct {
	Kind int
	File uint32
	Off  int64
	Data []byte
	N    int // evMark: number of committed transactions durable in leveldb; evTrunc: size
}

func (e fsEvent) String() string {
	switch e.Kind {
	case evWrite:
		return fmt.Sprintf("WriteAt(f%d,%d,%dB)", e.File, e.Off, len(e.Data))
	case evTrunc:
		return fmt.Sprintf("Truncate(f%d,%d)", e.File, e.N)
	case evMark:
		return fmt.Sprintf("LDB(%d)", e.N)
	}
	return fmt.Sprintf("%s(f%d)", evKindNames[e.Kind], e.File)
}

var errInjected = errors.New("verif: injected I/O fault")

type fault struct {
	At   int    `json:"at"`   // 1-based index among the armed calls (0 = none)
	Kind string `json:"kind"` // "err" | "short" (short write: half the bytes reach the file)
}

type fsim struct {
	mu     sync.Mutex
	record bool
	log    []fsEvent

	armed  bool
	calls  int      // armed faultable calls seen so far
	kinds  []int    // kind of every armed call (for reports)
	f1, f2 fault    // f2.At counts calls AFTER f1 fired
	fired  int      // how many faults fired
	after  int      // armed calls seen after f1 fired
	what   []string // description of the fired faults

	curStep     int
	firedStep   int // step in which the first fault fired
	afterInStep int // armed calls between the first fault and the end of its step (the rollback's calls)
	stepClosed  bool
}

func (s *fsim) install(db database.DB) {
	ffldb.VerifInstallFileHooks(db, ffldb.VerifFileHooks{
		OpenWrite: func(n uint32, open func() (ffldb.VerifFiler, error)) (ffldb.VerifFiler, error) {
			if k := s.hit(evOpenW, n); k != "" {
				return nil, ffldb.VerifMakeDbErr("injected open failure", errInjected)
			}
			f, err := open()
			if err != nil {
				return nil, err
			}
			s.rec(fsEvent{Kind: evOpenW, File: n})
			return &simFile{s: s, n: n, f: f}, nil
		},
		OpenRead: func(n uint32, open func() (ffldb.VerifFiler, error)) (ffldb.VerifFiler, error) {
			if k := s.hit(evOpenR, n); k != "" {
				return nil, ffldb.VerifMakeDbErr("injected open failure", errInjected)
			}
			f, err := open()
			if err != nil {
				return nil, err
			}
			return &simFile{s: s, n: n, f: f}, nil
		},
		Delete: func(n uint32, del func() error) error {
			if k := s.hit(evDelete, n); k != "" {
				return ffldb.VerifMakeDbErr("injected delete failure", errInjected)
			}
			if err := del(); err != nil {
				return err
			}
			s.rec(fsEvent{Kind: evDelete, File: n})
			return nil
		},
	})
}

func (s *fsim) rec(e fsEvent) {
	s.mu.Lock()
	if s.record {
		s.log = append(s.log, e)
	}
	s.mu.Unlock()
}

func (s *fsim) mark(n int) { s.rec(fsEvent{Kind: evMark, N: n}) }

// hit counts one faultable call and returns the fault kind to apply ("" = none).
func (s *fsim) hit(kind int, file uint32) string {
	s.mu.Lock()
	defer s.mu.Unlock()
	if !s.armed {
		return ""
	}
	s.calls++
	s.kinds = append(s.kinds, kind)
	if s.fired >= 1 {
		s.after++
	}
	var k string
	if s.fired == 0 && s.f1.At == s.calls {
		k = s.f1.Kind
	} else if s.fired == 1 && s.f2.At != 0 && s.f2.At == s.after {
		k = s.f2.Kind
	}
	if k != "" {
		if k == "short" && kind != evWrite {
			k = "err"
		}
		if s.fired == 0 {
			s.firedStep = s.curStep
		}
		s.fired++
		s.what = append(s.what, fmt.Sprintf("%s(f%d) call #%d: %s", evKindNames[kind], file, s.calls, k))
	}
	return k
}

// plan resets the counters and sets the faults for the next run (not yet armed).
func (s *fsim) plan(f1, f2 fault) {
	s.mu.Lock()
	s.armed, s.calls, s.kinds, s.f1, s.f2, s.fired, s.after, s.what = false, 0, nil, f1, f2, 0, 0, nil
	s.afterInStep, s.stepClosed, s.firedStep = 0, false, -1
	s.mu.Unlock()
}

// resume / pause bracket the transaction steps: only calls made between them
// are numbered and can fail.
func (s *fsim) resume(step int) {
	s.mu.Lock()
	s.armed, s.curStep = true, step
	s.mu.Unlock()
}

func (s *fsim) pause() {
	s.mu.Lock()
	s.armed = false
	if s.fired >= 1 && !s.stepClosed {
		s.stepClosed, s.afterInStep = true, s.after
	}
	s.mu.Unlock()
}

func (s *fsim) firedCount() int {
	s.mu.Lock()
	defer s.mu.Unlock()
	return s.fired
}

type simFile struct {
	s *fsim
	n uint32
	f ffldb.VerifFiler
}

func (f *simFile) WriteAt(b []byte, off int64) (int, error) {
	switch f.s.hit(evWrite, f.n) {
	case "err":
		return 0, errInjected
	case "short":
		h := len(b) / 2
		n, _ := f.f.WriteAt(b[:h], off)
		if n > 0 {
			f.s.rec(fsEvent{Kind: evWrite, File: f.n, Off: off, Data: append([]byte{}, b[:n]...)})
		}
		return n, errInjected
	}
	n, err := f.f.WriteAt(b, off)
	if n > 0 {
		f.s.rec(fsEvent{Kind: evWrite, File: f.n, Off: off, Data: append([]byte{}, b[:n]...)})
	}
	return n, err
}

func (f *simFile) ReadAt(b []byte, off int64) (int, error) {
	if f.s.hit(evRead, f.n) != "" {
		return 0, errInjected
	}
	return f.f.ReadAt(b, off)
}

func (f *simFile) Sync() error {
	if f.s.hit(evSync, f.n) != "" {
		return errInjected
	}
	err := f.f.Sync()
	if err == nil {
		f.s.rec(fsEvent{Kind: evSync, File: f.n})
	}
	return err
}

func (f *simFile) Truncate(size int64) error {
	if f.s.hit(evTrunc, f.n) != "" {
		return errInjected
	}
	err := f.f.Truncate(size)
	if err == nil {
		f.s.rec(fsEvent{Kind: evTrunc, File: f.n, N: int(size)})
	}
	return err
}

func (f *simFile) Close() error {
	err := f.f.Close()
	f.s.rec(fsEvent{Kind: evClose, File: f.n})
	return err
}
