package main

import (
	"crypto/sha256"
	"errors"
	"fmt"
	"os"
	"path/filepath"
	"sort"
	"sync"

	"github.com/btcsuite/btcd/database"
	"github.com/btcsuite/btcd/database/ffldb"
	"github.com/syndtr/goleveldb/leveldb"
	"github.com/syndtr/goleveldb/leveldb/opt"
)

// fsim wraps every block file ffldb opens (through the openFileFunc /
// openWriteFileFunc / deleteFileFunc seams).  It numbers the I/O calls made while
// it is armed, can make the i-th one fail, and records the write-side events into
// one global log from which crash images are materialised.

const (
	evOpenW = iota
	evOpenR
	evWrite
	evRead
	evSync
	evTrunc
	evClose
	evDelete
	evMark // OBSERVED change of the leveldb directory: N = running number of the observed metadata state
	evStep // end of a harness step: N = committed steps so far, Off = 1 if the step promised durability (flush / close)
)

var evKindNames = []string{"OpenWrite", "OpenRead", "WriteAt", "ReadAt", "Sync", "Truncate", "Close", "Delete", "LDB#", "StepEnd"}

type fsEvent struct {
	Kind int
	File uint32
	Off  int64
	Data []byte
	N    int // evMark: number of the observed metadata state; evStep: committed steps; evTrunc: size
}

func (e fsEvent) String() string {
	switch e.Kind {
	case evWrite:
		return fmt.Sprintf("WriteAt(f%d,%d,%dB)", e.File, e.Off, len(e.Data))
	case evTrunc:
		return fmt.Sprintf("Truncate(f%d,%d)", e.File, e.N)
	case evMark:
		return fmt.Sprintf("LDB#%d", e.N)
	case evStep:
		if e.Off == 1 {
			return fmt.Sprintf("StepEnd(%d,flushed)", e.N)
		}
		return fmt.Sprintf("StepEnd(%d)", e.N)
	}
	return fmt.Sprintf("%s(f%d)", evKindNames[e.Kind], e.File)
}

var errInjected = errors.New("verif: injected I/O fault")

type fault struct {
	At   int    `json:"at"`   // 1-based index among the armed calls (0 = none)
	Kind string `json:"kind"` // "err" | "short" (short write: half the bytes reach the file)
}

type fsim struct {
	mu     sync.Mutex
	record bool
	log    []fsEvent

	armed  bool
	calls  int      // armed faultable calls seen so far
	kinds  []int    // kind of every armed call (for reports)
	f1, f2 fault    // f2.At counts calls AFTER f1 fired
	fired  int      // how many faults fired
	after  int      // armed calls seen after f1 fired
	what   []string // description of the fired faults

	// observation of the leveldb ("metadata") directory of the database under
	// test, active while record is set (see observeLocked)
	metaDir  string         // <db dir>/metadata
	lastSig  string         // physical signature (names, sizes, mtimes) at the last look
	lastHash [32]byte       // hash of the logical leveldb content of the newest kept state
	nStates  int            // number of observed logical states so far
	snaps    map[int]string // state number -> directory holding a verified copy
	obsErr   string         // harness problem while copying / verifying (=> BROKEN, never a verdict)
	nLooks   int

	curStep     int
	firedStep   int // step in which the first fault fired
	afterInStep int // armed calls between the first fault and the end of its step (the rollback's calls)
	stepClosed  bool
}

func (s *fsim) install(db database.DB) {
	ffldb.VerifInstallFileHooks(db, ffldb.VerifFileHooks{
		OpenWrite: func(n uint32, open func() (ffldb.VerifFiler, error)) (ffldb.VerifFiler, error) {
			if k := s.hit(evOpenW, n); k != "" {
				return nil, ffldb.VerifMakeDbErr("injected open failure", errInjected)
			}
			f, err := open()
			if err != nil {
				return nil, err
			}
			s.rec(fsEvent{Kind: evOpenW, File: n})
			return &simFile{s: s, n: n, f: f}, nil
		},
		OpenRead: func(n uint32, open func() (ffldb.VerifFiler, error)) (ffldb.VerifFiler, error) {
			if k := s.hit(evOpenR, n); k != "" {
				return nil, ffldb.VerifMakeDbErr("injected open failure", errInjected)
			}
			f, err := open()
			if err != nil {
				return nil, err
			}
			return &simFile{s: s, n: n, f: f}, nil
		},
		Delete: func(n uint32, del func() error) error {
			if k := s.hit(evDelete, n); k != "" {
				return ffldb.VerifMakeDbErr("injected delete failure", errInjected)
			}
			if err := del(); err != nil {
				return err
			}
			s.rec(fsEvent{Kind: evDelete, File: n})
			return nil
		},
	})
}

func (s *fsim) rec(e fsEvent) {
	s.mu.Lock()
	if s.record {
		// a leveldb commit that happened since the previous event is placed
		// BEFORE the current event
		s.observeLocked()
		s.log = append(s.log, e)
	}
	s.mu.Unlock()
}

// stepEnd is called by the driver when a harness step (setup, transaction,
// reopen, close) has returned: n = committed steps so far, flushed = the step
// promised durability of everything committed so far.
func (s *fsim) stepEnd(n int, flushed bool) {
	off := int64(0)
	if flushed {
		off = 1
	}
	s.rec(fsEvent{Kind: evStep, N: n, Off: off})
}

// observe looks at the leveldb directory now (used right after Create).
func (s *fsim) observe() {
	s.mu.Lock()
	if s.record {
		s.observeLocked()
	}
	s.mu.Unlock()
}

// dirSig is the physical signature of a directory: names, sizes, mtimes.
func dirSig(dir string) string {
	ents, err := os.ReadDir(dir)
	if err != nil {
		return "unreadable: " + err.Error()
	}
	var parts []string
	for _, e := range ents {
		if e.IsDir() || e.Name() == "LOCK" || e.Name() == "LOG" || e.Name() == "LOG.old" {
			continue
		}
		fi, err := e.Info()
		if err != nil {
			parts = append(parts, e.Name()+":gone")
			continue
		}
		parts = append(parts, fmt.Sprintf("%s:%d:%d", e.Name(), fi.Size(), fi.ModTime().UnixNano()))
	}
	sort.Strings(parts)
	return fmt.Sprint(parts)
}

// copyMeta copies the leveldb files (not LOCK / LOG).
func copyMeta(src, dst string) error {
	if err := os.MkdirAll(dst, 0o700); err != nil {
		return err
	}
	ents, err := os.ReadDir(src)
	if err != nil {
		return err
	}
	for _, e := range ents {
		if e.IsDir() || e.Name() == "LOCK" || e.Name() == "LOG" || e.Name() == "LOG.old" {
			continue
		}
		b, err := os.ReadFile(filepath.Join(src, e.Name()))
		if err != nil {
			return err
		}
		if err := os.WriteFile(filepath.Join(dst, e.Name()), b, 0o600); err != nil {
			return err
		}
	}
	return nil
}

// logicalHash opens a (scratch copy of a) leveldb directory with goleveldb itself
// and hashes every key/value pair: proof that the copy is a consistent, openable
// leveldb state, and the identity of its logical content.
func logicalHash(dir string) ([32]byte, int, error) {
	var out [32]byte
	tmp := newDir("ldbchk")
	defer os.RemoveAll(tmp)
	if err := copyMeta(dir, tmp); err != nil {
		return out, 0, err
	}
	db, err := leveldb.OpenFile(tmp, &opt.Options{ErrorIfMissing: true, ReadOnly: true, Strict: opt.DefaultStrict})
	if err != nil {
		return out, 0, err
	}
	defer db.Close()
	h := sha256.New()
	it := db.NewIterator(nil, nil)
	n := 0
	for it.Next() {
		fmt.Fprintf(h, "%d:%d:", len(it.Key()), len(it.Value()))
		h.Write(it.Key())
		h.Write(it.Value())
		n++
	}
	it.Release()
	if err := it.Error(); err != nil {
		return out, 0, err
	}
	copy(out[:], h.Sum(nil))
	return out, n, nil
}

// observeLocked compares the leveldb directory with the last look.  If it
// changed physically, a point-in-time copy is taken (retried until the signature
// is the same before and after copying: goleveldb's background compaction may
// still be renaming / deleting files), verified by opening it with goleveldb, and
// -- if the LOGICAL content differs from the newest kept state -- kept as
// metadata state #k with an LDB#k marker appended to the log.  Physical-only
// changes (compaction, journal rotation, recovery at open) leave no marker, so
// the log is a deterministic function of the history.
func (s *fsim) observeLocked() {
	if s.metaDir == "" || s.obsErr != "" {
		return
	}
	s.nLooks++
	sig := dirSig(s.metaDir)
	if sig == s.lastSig {
		return
	}
	var lastErr error
	for attempt := 0; attempt < 200; attempt++ {
		before := dirSig(s.metaDir)
		dst := newDir("ldbstate")
		err := copyMeta(s.metaDir, dst)
		after := dirSig(s.metaDir)
		if err != nil || before != after {
			os.RemoveAll(dst)
			lastErr = fmt.Errorf("directory changed while copying (%v)", err)
			continue
		}
		hash, _, err := logicalHash(dst)
		if err != nil {
			os.RemoveAll(dst)
			lastErr = err
			continue
		}
		s.lastSig = after
		if s.nStates > 0 && hash == s.lastHash {
			os.RemoveAll(dst) // physical change only
			return
		}
		if s.snaps == nil {
			s.snaps = map[int]string{}
		}
		s.snaps[s.nStates] = dst
		s.lastHash = hash
		s.log = append(s.log, fsEvent{Kind: evMark, N: s.nStates})
		s.nStates++
		return
	}
	s.obsErr = fmt.Sprintf("cannot take a consistent, openable copy of %s: %v", s.metaDir, lastErr)
}

func (s *fsim) cleanupSnaps() {
	for _, d := range s.snaps {
		os.RemoveAll(d)
	}
	s.snaps = nil
}

// hit counts one faultable call and returns the fault kind to apply ("" = none).
func (s *fsim) hit(kind int, file uint32) string {
	s.mu.Lock()
	defer s.mu.Unlock()
	if !s.armed {
		return ""
	}
	s.calls++
	s.kinds = append(s.kinds, kind)
	if s.fired >= 1 {
		s.after++
	}
	var k string
	if s.fired == 0 && s.f1.At == s.calls {
		k = s.f1.Kind
	} else if s.fired == 1 && s.f2.At != 0 && s.f2.At == s.after {
		k = s.f2.Kind
	}
	if k != "" {
		if k == "short" && kind != evWrite {
			k = "err"
		}
		if s.fired == 0 {
			s.firedStep = s.curStep
		}
		s.fired++
		s.what = append(s.what, fmt.Sprintf("%s(f%d) call #%d: %s", evKindNames[kind], file, s.calls, k))
	}
	return k
}

// plan resets the counters and sets the faults for the next run (not yet armed).
func (s *fsim) plan(f1, f2 fault) {
	s.mu.Lock()
	s.armed, s.calls, s.kinds, s.f1, s.f2, s.fired, s.after, s.what = false, 0, nil, f1, f2, 0, 0, nil
	s.afterInStep, s.stepClosed, s.firedStep = 0, false, -1
	s.mu.Unlock()
}

// resume / pause bracket the transaction steps: only calls made between them
// are numbered and can fail.
func (s *fsim) resume(step int) {
	s.mu.Lock()
	s.armed, s.curStep = true, step
	s.mu.Unlock()
}

func (s *fsim) pause() {
	s.mu.Lock()
	s.armed = false
	if s.fired >= 1 && !s.stepClosed {
		s.stepClosed, s.afterInStep = true, s.after
	}
	s.mu.Unlock()
}

func (s *fsim) firedCount() int {
	s.mu.Lock()
	defer s.mu.Unlock()
	return s.fired
}

type simFile struct {
	s *fsim
	n uint32
	f ffldb.VerifFiler
}

func (f *simFile) WriteAt(b []byte, off int64) (int, error) {
	switch f.s.hit(evWrite, f.n) {
	case "err":
		return 0, errInjected
	case "short":
		h := len(b) / 2
		n, _ := f.f.WriteAt(b[:h], off)
		if n > 0 {
			f.s.rec(fsEvent{Kind: evWrite, File: f.n, Off: off, Data: append([]byte{}, b[:n]...)})
		}
		return n, errInjected
	}
	n, err := f.f.WriteAt(b, off)
	if n > 0 {
		f.s.rec(fsEvent{Kind: evWrite, File: f.n, Off: off, Data: append([]byte{}, b[:n]...)})
	}
	return n, err
}

func (f *simFile) ReadAt(b []byte, off int64) (int, error) {
	if f.s.hit(evRead, f.n) != "" {
		return 0, errInjected
	}
	return f.f.ReadAt(b, off)
}

func (f *simFile) Sync() error {
	if f.s.hit(evSync, f.n) != "" {
		return errInjected
	}
	err := f.f.Sync()
	if err == nil {
		f.s.rec(fsEvent{Kind: evSync, File: f.n})
	}
	return err
}

func (f *simFile) Truncate(size int64) error {
	if f.s.hit(evTrunc, f.n) != "" {
		return errInjected
	}
	err := f.f.Truncate(size)
	if err == nil {
		f.s.rec(fsEvent{Kind: evTrunc, File: f.n, N: int(size)})
	}
	return err
}

func (f *simFile) Close() error {
	err := f.f.Close()
	f.s.rec(fsEvent{Kind: evClose, File: f.n})
	return err
}
