package main

import (
	"fmt"
	"runtime"
	"strings"
	"sync"

	"verif/engine/ev"
)

// ---------------------------------------------------------------- part (b): fault enumeration
//
// For every fixed history the block-file I/O calls made inside its transaction
// steps (OpenWrite, OpenRead, WriteAt, ReadAt, Sync, Truncate, Delete through the
// filer seam) are numbered in a fault-free run (M calls).  Then for EVERY i <= M
// the history is re-run with call i failing (error; for WriteAt also a short
// write that leaves half the bytes in the file), and for every such run every
// call made afterwards inside the same step (the rollback's own I/O) is failed
// as a second fault.
//
// Oracle (no more than the property): no panic; a step whose Commit/Update
// returns an error has NOT been applied, a step that returns nil has been applied
// completely (full dump == refdb either way, checked after every step); a commit
// may only fail in the step where the fault fired; after the history the state
// survives a clean close + reopen, the next transaction (a Put and a StoreBlock)
// succeeds, is applied, and survives another reopen.

type faultOutcome struct {
	d           *disc
	calls       int
	kinds       []int
	fired       int
	firedStep   int
	afterInStep int
	what        []string
	failedSteps int // steps whose commit returned an error
	absorbed    bool
}

func findHist(name string) (ioHist, bool) {
	for _, h := range ioHistories() {
		if h.Name == name {
			return h, true
		}
	}
	return ioHist{}, false
}

func runFaultCase(h ioHist, f1, f2 fault) (out faultOutcome, err error) {
	fs := &fsim{}
	fs.plan(f1, f2)
	s, err := newSess(h.Cfg, fs)
	if err != nil {
		return out, err
	}
	defer s.destroy()
	s.skipInvalidRegions = true
	cur := 0
	s.preTx = func() { fs.resume(cur) }
	s.postTx = fs.pause
	finish := func(d *disc) (faultOutcome, error) {
		out.d = d
		fs.mu.Lock()
		out.calls, out.kinds, out.fired, out.firedStep, out.afterInStep, out.what = fs.calls, append([]int{}, fs.kinds...), fs.fired, fs.firedStep, fs.afterInStep, append([]string{}, fs.what...)
		fs.mu.Unlock()
		out.absorbed = out.fired > 0 && out.failedSteps == 0
		return out, nil
	}
	for i, st := range h.Steps {
		cur = i
		r := s.runStep(i, st, false)
		if r.d != nil {
			return finish(r.d)
		}
		if r.commitErr != nil || r.faulted {
			out.failedSteps++
			if fs.firedCount() == 0 || fs.firedStep != i {
				return finish(&disc{Class: "Commit/error-without-fault", What: fmt.Sprintf("step %s failed although no fault was injected into it: %v", st, r.commitErr), Step: i, Op: -1})
			}
		}
	}
	s.preTx, s.postTx = nil, nil
	n := len(h.Steps)
	if r := s.runStep(n, Step{Kind: "reopen"}, false); r.d != nil {
		return finish(r.d)
	}
	// the next transaction
	next := Step{Kind: "U", Ops: []string{"put::k3:Z"}, End: "commit"}
	for i := range blocks {
		if _, ok := s.ref.Committed().Blocks[hashOf(i)]; !ok {
			next.Ops = append(next.Ops, fmt.Sprintf("sb:%d", i))
			break
		}
	}
	r := s.runStep(n+1, next, true)
	if r.d == nil && len(r.soft) > 0 {
		r.d = r.soft[0]
	}
	if r.d == nil && r.commitErr != nil {
		r.d = &disc{Class: "next-transaction/error", What: "the transaction after the fault failed: " + r.commitErr.Error(), Step: n + 1, Op: -1}
	}
	if r.d != nil {
		r.d.Class = "next-transaction:" + strings.TrimPrefix(r.d.Class, "next-transaction/")
		return finish(r.d)
	}
	if r := s.runStep(n+2, Step{Kind: "reopen"}, false); r.d != nil {
		return finish(r.d)
	}
	return finish(nil)
}

func faultKey(h ioHist, out faultOutcome, f1, f2 fault) string {
	kind := func(f fault, idx int) string {
		if idx < 0 || idx >= len(out.kinds) {
			return "?"
		}
		k := evKindNames[out.kinds[idx]]
		if f.Kind == "short" && out.kinds[idx] == evWrite {
			k += "-short"
		}
		return k
	}
	k := kind(f1, f1.At-1)
	if f2.At != 0 {
		k += "+fault-during-rollback"
	}
	return fmt.Sprintf("fault/%s/%s/%s", h.Tag, k, out.d.Class)
}

func replayFault(rp replayObj) string {
	h, ok := findHist(rp.Name)
	if !ok || len(rp.Fault) != 2 {
		return "harness-error: unknown history " + rp.Name
	}
	out, err := runFaultCase(h, rp.Fault[0], rp.Fault[1])
	if err != nil {
		return "harness-error: " + err.Error()
	}
	if out.d == nil {
		return ""
	}
	if rp.Fault[0].At == 0 {
		return "fault-free/" + h.Tag + "/" + out.d.Class
	}
	return faultKey(h, out, rp.Fault[0], rp.Fault[1])
}

func partFault(r *ev.Run, viols *violSet) {
	hists := ioHistories()
	workers := runtime.NumCPU()
	type job struct {
		h      ioHist
		f1, f2 fault
	}
	var mu sync.Mutex
	var harn []string
	perHist := map[string]map[string]int{}
	stat := func(h string, k string, n int) {
		mu.Lock()
		if perHist[h] == nil {
			perHist[h] = map[string]int{}
		}
		perHist[h][k] += n
		mu.Unlock()
	}
	runJobs := func(jobs []job, after func(j job, out faultOutcome)) {
		ev.Par(len(jobs), workers, func(i int) {
			if expired(r) {
				return
			}
			j := jobs[i]
			out, err := runFaultCase(j.h, j.f1, j.f2)
			if err != nil {
				mu.Lock()
				harn = append(harn, err.Error())
				mu.Unlock()
				return
			}
			r.Eval(1)
			r.Trace(1)
			r.Trans(len(j.h.Steps) + 3)
			if j.f1.At != 0 && out.fired == 0 {
				mu.Lock()
				harn = append(harn, fmt.Sprintf("history %s: planned fault %v never fired (non-deterministic I/O sequence?)", j.h.Name, j.f1))
				mu.Unlock()
				return
			}
			if out.d != nil {
				key := "fault-free/" + j.h.Tag + "/" + out.d.Class
				if j.f1.At != 0 {
					key = faultKey(j.h, out, j.f1, j.f2)
				}
				what := fmt.Sprintf("history %s (cfg %s): %s ; injected: %v => %s", j.h.Name, j.h.Cfg, histString(j.h.Steps), out.what, out.d.String())
				viols.add(key, what, replayObj{Part: "b", Name: j.h.Name, Cfg: j.h.Cfg, Fault: []fault{j.f1, j.f2}}, histSize(j.h.Steps)*10+j.f1.At+j.f2.At)
			}
			if out.fired > 0 {
				r.Nontrivial(fmt.Sprintf("fault|%s|%v|%v", j.h.Name, j.f1, j.f2))
				if out.absorbed {
					stat(j.h.Name, "faults_absorbed_without_error", 1)
				} else {
					stat(j.h.Name, "faults_failing_the_commit", 1)
				}
			}
			if after != nil {
				after(j, out)
			}
		})
	}
	// pass 0: fault-free runs give M and the call kinds
	var base []job
	for _, h := range hists {
		base = append(base, job{h: h})
	}
	var singles []job
	runJobs(base, func(j job, out faultOutcome) {
		if out.d != nil {
			return
		}
		stat(j.h.Name, "io_calls_M", out.calls)
		mu.Lock()
		for i := 1; i <= out.calls; i++ {
			singles = append(singles, job{h: j.h, f1: fault{i, "err"}})
			if out.kinds[i-1] == evWrite {
				singles = append(singles, job{h: j.h, f1: fault{i, "short"}})
			}
		}
		mu.Unlock()
	})
	sortJobs := func(js []job) {
		// deterministic order irrespective of worker scheduling
		for i := 1; i < len(js); i++ {
			for k := i; k > 0; k-- {
				a, b := js[k-1], js[k]
				if a.h.Name < b.h.Name || (a.h.Name == b.h.Name && (a.f1.At < b.f1.At || (a.f1.At == b.f1.At && (a.f1.Kind < b.f1.Kind || (a.f1.Kind == b.f1.Kind && a.f2.At <= b.f2.At))))) {
					break
				}
				js[k-1], js[k] = js[k], js[k-1]
			}
		}
	}
	sortJobs(singles)
	var doubles []job
	runJobs(singles, func(j job, out faultOutcome) {
		stat(j.h.Name, "single_faults", 1)
		if out.d != nil {
			return
		}
		mu.Lock()
		for k := 1; k <= out.afterInStep; k++ {
			doubles = append(doubles, job{h: j.h, f1: j.f1, f2: fault{k, "err"}})
		}
		mu.Unlock()
	})
	sortJobs(doubles)
	runJobs(doubles, func(j job, out faultOutcome) { stat(j.h.Name, "double_faults", 1) })
	if len(harn) > 0 {
		cleanupAll()
		r.Broken("part (b) harness: %s", harn[0])
	}
	if expired(r) {
		r.Cap("part (b): time box hit")
	}
	r.Add("fault_histories", int64(len(hists)))
	r.Add("fault_single_cases", int64(len(singles)))
	r.Add("fault_double_cases", int64(len(doubles)))
	r.Set("fault_per_history", perHist)
	if len(singles) > 0 {
		r.Sample(map[string]interface{}{"part": "b", "history": singles[0].h.Name, "steps": histString(singles[0].h.Steps), "fault": singles[0].f1})
	}
}
