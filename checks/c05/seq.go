package main

import (
	"bytes"
	"errors"
	"fmt"
	"sort"
	"strings"

	"github.com/btcsuite/btcd/chainhash/v2"
	"github.com/btcsuite/btcd/database"

	"verif/ref/refdb"
)

// ---------------------------------------------------------------- steps / ops
//
// A history is a list of steps.  Transaction steps carry inner ops:
//
//	put:<bucket>:<key>:<val>   del:<bucket>:<key>
//	mk:<path>  mkq:<path>  rm:<path>        CreateBucket / CreateBucketIfNotExists / DeleteBucket
//	cf:<bucket> cl:<bucket> cs:<bucket>:<seek>   cursor First / Last / Seek (creates the cursor on first use)
//	cn cp cd                                 Next / Prev / Cursor.Delete on the most recently positioned cursor
//	sb:<i>                                   StoreBlock(block i)
//	pr:<mult>                                PruneBlocks(mult * maxBlockFileSize)
//	fb:<i>                                   FetchBlock(block i) (only used by the I/O histories; the DFS observes through the battery)
//
// bucket paths are relative to the user root bucket ("" = the user root).

type Step struct {
	Kind string   `json:"kind"` // W Begin(true) | U Update | R Begin(false) | V View | reopen | hold | release
	Ops  []string `json:"ops,omitempty"`
	End  string   `json:"end,omitempty"` // commit | rollback
	// Flush overrides the flush policy for this one transaction (I/O histories):
	// "" keep, "force" take the needsFlush path, "none" do not flush.
	Flush string `json:"flush,omitempty"`
}

func (s Step) String() string {
	if s.Kind == "reopen" || s.Kind == "hold" || s.Kind == "release" {
		return s.Kind
	}
	f := ""
	if s.Flush != "" {
		f = "!" + s.Flush
	}
	return fmt.Sprintf("%s%s[%s]%s", s.Kind, f, strings.Join(s.Ops, " "), s.End)
}

func histString(h []Step) string {
	p := make([]string, len(h))
	for i, s := range h {
		p[i] = s.String()
	}
	return strings.Join(p, " ; ")
}

func (s Step) writable() bool { return s.Kind == "W" || s.Kind == "U" }
func (s Step) isTx() bool     { return s.Kind == "W" || s.Kind == "U" || s.Kind == "R" || s.Kind == "V" }

var errSentinel = errors.New("verif: user function asks for rollback")

// faultAbort is the pseudo-class of "an op failed because of an injected I/O
// fault": not a disagreement, the transaction is rolled back on both sides.
const faultAbort = "__fault_abort"

// disc describes one disagreement between ffldb and the reference.
type disc struct {
	Class string // stable class (part of the violation key)
	What  string // human description with got / want
	Step  int    // index of the step in the history
	Op    int    // index of the op in the step (-1: at transaction end / dump)
}

func (d *disc) String() string {
	return fmt.Sprintf("[step %d op %d] %s: %s", d.Step, d.Op, d.Class, d.What)
}

// sess is a real instance and the reference model driven in lockstep.
type sess struct {
	in  *inst
	ref *refdb.DB

	obsBuckets []string // bucket paths the battery observes (default: bucketUniverse)
	noBlockObs bool     // scenario without block ops: the battery skips the block observations
	// skipInvalidRegions: parts (b)/(c) do not re-report part (a)'s finding that
	// out-of-bounds block regions are accepted
	skipInvalidRegions bool

	fs     *fsim  // I/O recorder / fault injector (parts b, c)
	preTx  func() // called right before a transaction step starts (arms the injector)
	postTx func() // called right after Commit/Rollback/Update/View returned

	held     database.Tx // sequential isolation probe: a read-only tx kept open across later steps
	heldRef  *refdb.Tx
	heldDump string
}

func newSess(c cfg, fs *fsim) (*sess, error) {
	in, err := createInst(c, fs)
	if err != nil {
		return nil, err
	}
	s := &sess{in: in, ref: refdb.New(), fs: fs}
	// setup transaction: create the user root bucket
	err = in.db.Update(func(tx database.Tx) error {
		_, e := tx.Metadata().CreateBucket(userRoot)
		return e
	})
	if err != nil {
		in.destroy()
		return nil, fmt.Errorf("setup: %v", err)
	}
	if fs != nil && fs.record {
		fs.stepEnd(0, c.FlushEvery)
	}
	return s, nil
}

func (s *sess) destroy() {
	if s.held != nil {
		safely(func() { s.held.Rollback() })
		s.held = nil
	}
	s.in.destroy()
}

// checkCommitted compares the committed state (fresh View) and the held reader's
// view with the reference.
func (s *sess) checkCommitted(when string) *disc {
	got, err := s.in.viewDump()
	if err != nil {
		return &disc{Class: "dump-" + when + "/error", What: "reading back the full state failed: " + err.Error(), Op: -1}
	}
	if want := s.ref.Committed().Dump(); got != want {
		return &disc{Class: "dump-" + when + "/state", What: "full dump differs from the reference: " + shortDiff(got, want), Op: -1}
	}
	if s.held != nil {
		var hd string
		var herr error
		if p := safely(func() { hd, herr = implDump(s.held) }); p != "" {
			herr = fmt.Errorf("panic: %s", p)
		}
		if herr != nil {
			return &disc{Class: "held-reader/error", What: "open read-only transaction can no longer read its snapshot " + when + ": " + herr.Error(), Op: -1}
		}
		if hd != s.heldDump {
			return &disc{Class: "held-reader/changed", What: "open read-only transaction sees a different state " + when + ": " + shortDiff(hd, s.heldDump), Op: -1}
		}
	}
	return nil
}

// ---------------------------------------------------------------- one transaction in lockstep

type txctx struct {
	s        *sess
	writable bool
	tx       database.Tx
	rtx      *refdb.Tx
	cur      map[string]database.Cursor
	rcur     map[string]*refdb.Cursor
	active   string
	hasAct   bool
	lastMove string // last cursor movement op kind (for classification)
	// direction of each cursor's last movement ('f' after First/Seek/Next,
	// 'b' after Last/Prev): the merged iterators behind a cursor keep their
	// secondary iterator on the far side of the current key, so two cursors
	// on the same key that arrived from different directions do not have the
	// same future and must not be merged by the state hashing
	cdir map[string]byte
	ws       map[string]string
	pruned   int
}

func newTxctx(s *sess, writable bool, tx database.Tx, rtx *refdb.Tx) *txctx {
	return &txctx{s: s, writable: writable, tx: tx, rtx: rtx, cur: map[string]database.Cursor{}, rcur: map[string]*refdb.Cursor{}, ws: map[string]string{}, cdir: map[string]byte{}}
}

func dirBase(p string) (string, string) {
	i := strings.LastIndex(p, "/")
	if i < 0 {
		return "", p
	}
	return p[:i], p[i+1:]
}

func (c *txctx) wsKey() string {
	k := make([]string, 0, len(c.ws))
	for a, b := range c.ws {
		k = append(k, a+"="+b)
	}
	sort.Strings(k)
	return strings.Join(k, ",")
}

// commitKey identifies the transaction's effect (view + write set), ignoring cursors.
func (c *txctx) commitKey() string { return c.rtx.State().Dump() + "|ws:" + c.wsKey() }

// stateKey additionally includes the cursors.
func (c *txctx) stateKey() string {
	var cs []string
	for p, rc := range c.rcur {
		cs = append(cs, rc.StateKey()+"/"+string(c.cdir[p]))
	}
	sort.Strings(cs)
	act := "-"
	if c.hasAct {
		act = c.active
	}
	return c.commitKey() + "|cur:" + strings.Join(cs, ",") + "|act:" + act
}

func (c *txctx) dropCursorsBelow(path string) {
	for p := range c.rcur {
		if p == path || strings.HasPrefix(p, path+"/") {
			delete(c.rcur, p)
			delete(c.cur, p)
			delete(c.cdir, p)
			if c.hasAct && c.active == p {
				c.hasAct = false
			}
		}
	}
}

func cmpCode(kind string, got error, want database.ErrorCode) *disc {
	if codeOf(got) != want {
		return &disc{Class: kind + "/error-code", What: fmt.Sprintf("returned %s (%v), reference %s", codeName(codeOf(got)), got, codeName(want))}
	}
	return nil
}

// apply runs one op on both sides.  enabled=false means the op is not part of the
// alphabet in the current state (nothing was executed).
func (c *txctx) apply(op string) (enabled bool, d *disc) {
	f := strings.Split(op, ":")
	kind := f[0]
	arg := func(i int) string {
		if i < len(f) {
			return f[i]
		}
		return ""
	}
	var ret *disc
	if p := safely(func() { enabled, ret = c.apply1(kind, arg) }); p != "" {
		return true, &disc{Class: kind + "/panic", What: "panic: " + p}
	}
	return enabled, ret
}

func (c *txctx) apply1(kind string, arg func(int) string) (bool, *disc) {
	switch kind {
	case "put", "del":
		path, key := arg(1), arg(2)
		rp := splitPath(path)
		if !c.writable || !c.rtx.HasBucket(rp) {
			return false, nil
		}
		b := implBucket(c.tx, path)
		if b == nil {
			return true, &disc{Class: kind + "/bucket-missing", What: fmt.Sprintf("Bucket(%q) is nil, reference has the bucket", path)}
		}
		if kind == "put" {
			val := []byte(arg(3))
			got := b.Put([]byte(key), val)
			want := c.rtx.Put(rp, []byte(key), val)
			c.ws[path+"#"+key] = "P"
			return true, cmpCode("Put", got, want)
		}
		got := b.Delete([]byte(key))
		want := c.rtx.Delete(rp, []byte(key))
		c.ws[path+"#"+key] = "D"
		return true, cmpCode("Delete", got, want)

	case "mk", "mkq", "rm":
		path := arg(1)
		parent, name := dirBase(path)
		rp := splitPath(parent)
		if !c.writable || !c.rtx.HasBucket(rp) {
			return false, nil
		}
		b := implBucket(c.tx, parent)
		if b == nil {
			return true, &disc{Class: kind + "/bucket-missing", What: fmt.Sprintf("Bucket(%q) is nil, reference has the bucket", parent)}
		}
		switch kind {
		case "mk":
			nb, got := b.CreateBucket([]byte(name))
			want := c.rtx.CreateBucket(rp, []byte(name))
			if want == refdb.OK {
				c.ws[path+"/"] = "C"
			}
			if d := cmpCode("CreateBucket", got, want); d != nil {
				return true, d
			}
			if (nb == nil) != (want != refdb.OK) {
				return true, &disc{Class: "CreateBucket/result", What: fmt.Sprintf("bucket result nil=%v with error %v", nb == nil, got)}
			}
			return true, nil
		case "mkq":
			nb, got := b.CreateBucketIfNotExists([]byte(name))
			existed := c.rtx.HasBucket(splitPath(path))
			want := c.rtx.CreateBucketIfNotExists(rp, []byte(name))
			if want == refdb.OK && !existed {
				c.ws[path+"/"] = "C"
			}
			if d := cmpCode("CreateBucketIfNotExists", got, want); d != nil {
				return true, d
			}
			if nb == nil {
				return true, &disc{Class: "CreateBucketIfNotExists/result", What: "nil bucket without error"}
			}
			return true, nil
		default:
			got := b.DeleteBucket([]byte(name))
			want := c.rtx.DeleteBucket(rp, []byte(name))
			if want == refdb.OK {
				c.ws[path+"/"] = "X"
				c.dropCursorsBelow(path)
			}
			return true, cmpCode("DeleteBucket", got, want)
		}

	case "cf", "cl", "cs":
		path := arg(1)
		rp := splitPath(path)
		if !c.rtx.HasBucket(rp) {
			return false, nil
		}
		rc := c.rcur[path]
		if rc == nil {
			b := implBucket(c.tx, path)
			if b == nil {
				return true, &disc{Class: "cursor/bucket-missing", What: fmt.Sprintf("Bucket(%q) is nil, reference has the bucket", path)}
			}
			c.cur[path] = b.Cursor()
			rc = c.rtx.Cursor(rp)
			c.rcur[path] = rc
		}
		ic := c.cur[path]
		c.active, c.hasAct = path, true
		var got, want bool
		name := ""
		switch kind {
		case "cf":
			got, want, name = ic.First(), rc.First(), "Cursor.First"
		case "cl":
			got, want, name = ic.Last(), rc.Last(), "Cursor.Last"
		default:
			got, want, name = ic.Seek([]byte(arg(2))), rc.Seek([]byte(arg(2))), "Cursor.Seek"
		}
		c.lastMove = kind
		c.cdir[path] = 'f'
		if kind == "cl" {
			c.cdir[path] = 'b'
		}
		if !rc.Predictable() {
			// Seek beyond the last key/value pair with nested buckets present:
			// result not specified by interface.go, nothing compared
			return true, nil
		}
		return true, c.cmpCursor(name, ic, rc, got, want)

	case "cn", "cp":
		if !c.hasAct {
			return false, nil
		}
		rc := c.rcur[c.active]
		if rc == nil || !rc.Predictable() {
			return false, nil
		}
		ic := c.cur[c.active]
		var got, want bool
		name := "Cursor.Next"
		wasDel := rc.AtDeleted()
		if kind == "cn" {
			got, want = ic.Next(), rc.Next()
		} else {
			got, want, name = ic.Prev(), rc.Prev(), "Cursor.Prev"
		}
		prev := c.lastMove
		c.lastMove = kind
		c.cdir[c.active] = 'f'
		if kind == "cp" {
			c.cdir[c.active] = 'b'
		}
		d := c.cmpCursor(name, ic, rc, got, want)
		if d != nil {
			// classify by what preceded the move (stable sub-class for known findings)
			switch {
			case wasDel:
				d.Class += "/after-cursor-delete"
			case (kind == "cn" && (prev == "cp" || prev == "cl")) || (kind == "cp" && (prev == "cn" || prev == "cf" || prev == "cs")):
				d.Class += "/direction-change"
			case rc.EverInvalidated():
				d.Class += "/cursor-repositioned-after-modification"
			}
		}
		return true, d

	case "cd":
		if !c.hasAct || !c.writable {
			return false, nil
		}
		rc := c.rcur[c.active]
		if rc == nil || !rc.Predictable() || !rc.Positioned() {
			return false, nil
		}
		ic := c.cur[c.active]
		onBucket := rc.OnBucket()
		key := string(rc.Key())
		got := ic.Delete()
		want := rc.Delete()
		if !onBucket {
			c.ws[c.active+"#"+key] = "D"
		}
		c.lastMove = kind
		return true, cmpCode("Cursor.Delete", got, want)

	case "sb":
		if !c.writable {
			return false, nil
		}
		var i int
		fmt.Sscan(arg(1), &i)
		got := c.tx.StoreBlock(blocks[i].b)
		want := c.rtx.StoreBlock(hashOf(i), blocks[i].raw)
		if want == refdb.OK {
			c.ws[fmt.Sprintf("blk%d", i)] = "S"
		}
		return true, cmpCode("StoreBlock", got, want)

	case "fb":
		var i int
		fmt.Sscan(arg(1), &i)
		firedBefore := 0
		if c.s.fs != nil {
			firedBefore = c.s.fs.firedCount()
		}
		got, gerr := c.tx.FetchBlock(&blocks[i].hash)
		want, wcode := c.rtx.FetchBlock(hashOf(i))
		if gerr != nil && c.s.fs != nil && c.s.fs.firedCount() > firedBefore {
			// an injected read fault surfaced as an error: the caller's function
			// returns it and the transaction is rolled back
			return true, &disc{Class: faultAbort, What: gerr.Error()}
		}
		if d := cmpCode("FetchBlock", gerr, wcode); d != nil {
			return true, d
		}
		if wcode == refdb.OK && !bytes.Equal(got, want) {
			return true, &disc{Class: "FetchBlock/bytes", What: fmt.Sprintf("block %d: %s", i, shortDiff(hx(got), hx(want)))}
		}
		return true, nil

	case "pr":
		if !c.writable {
			return false, nil
		}
		mult := 1
		fmt.Sscan(arg(1), &mult)
		max := maxFileSize(c.s.in.cfg.FileSize)
		if max == 0 {
			max = 512 * 1024 * 1024
		}
		got, err := c.tx.PruneBlocks(uint64(mult) * uint64(max))
		if err != nil {
			return true, &disc{Class: "PruneBlocks/error", What: fmt.Sprintf("PruneBlocks(%d*max) failed: %v", mult, err)}
		}
		// The choice of blocks is implementation-defined; demand only that they are
		// distinct stored blocks and that pruning removes oldest blocks first.
		order := c.rtx.State().Order
		pos := map[refdb.Hash]int{}
		for i, h := range order {
			pos[h] = i
		}
		seen := map[refdb.Hash]bool{}
		var hs []refdb.Hash
		for _, h := range got {
			rh := refdb.Hash(h)
			if _, ok := pos[rh]; !ok || seen[rh] {
				return true, &disc{Class: "PruneBlocks/result", What: fmt.Sprintf("reports deleting block %x which is not (or no longer) stored", h[:4])}
			}
			seen[rh] = true
			hs = append(hs, rh)
		}
		for _, h := range hs {
			for j := 0; j < pos[h]; j++ {
				if !seen[order[j]] {
					return true, &disc{Class: "PruneBlocks/result", What: fmt.Sprintf("deletes block %x but keeps the older block %x", h[:4], order[j][:4])}
				}
			}
		}
		c.rtx.Prune(hs)
		c.pruned += len(hs)
		c.ws[fmt.Sprintf("prune%d", len(c.ws))] = fmt.Sprint(len(hs))
		return true, nil
	}
	panic("unknown op " + kind)
}

func (c *txctx) cmpCursor(name string, ic database.Cursor, rc *refdb.Cursor, got, want bool) *disc {
	if got != want {
		return &disc{Class: name + "/result", What: fmt.Sprintf("returned %v (key %s), reference %v (key %s)", got, hx(ic.Key()), want, hx(rc.Key()))}
	}
	gk, wk := ic.Key(), rc.Key()
	gv, wv := ic.Value(), rc.Value()
	if !bytes.Equal(gk, wk) || (gk == nil) != (wk == nil) {
		return &disc{Class: name + "/key", What: fmt.Sprintf("positioned at key %s, reference %s", hx(gk), hx(wk))}
	}
	if !sameBytes(gv, wv) {
		return &disc{Class: name + "/value", What: fmt.Sprintf("at key %s value %s, reference %s", hx(gk), hx(gv), hx(wv))}
	}
	return nil
}

// ---------------------------------------------------------------- observation battery

var regionAlphabet = func(l uint32) [][2]uint32 {
	return [][2]uint32{{0, l}, {3, 5}, {l, 0}, {0, l + 1}, {l, 1}, {l - 1, 2}, {1, l + 11}, {0xffffffff, 2}, {0, 0xffffffff}}
}

// battery compares every read-only observation of the transaction's view with
// the reference; in read-only transactions it also checks that every mutating
// call is refused with ErrTxNotWritable.  It never moves the path's cursors and
// never changes state, so ALL disagreements are collected (the caller reports
// them and may still extend the path).
func (c *txctx) battery() []*disc {
	var out []*disc
	if p := safely(func() { out = c.battery1() }); p != "" {
		out = append(out, &disc{Class: "battery/panic", What: "panic: " + p})
	}
	for _, d := range out {
		d.Class = "observe:" + d.Class
	}
	return out
}

func (c *txctx) battery1() (out []*disc) {
	rep := func(d *disc) bool {
		if d != nil {
			out = append(out, d)
		}
		return d != nil
	}
	tx, rtx := c.tx, c.rtx
	paths := c.s.obsBuckets
	if paths == nil {
		paths = bucketUniverse
	}
	for _, path := range paths {
		rp := splitPath(path)
		b := implBucket(tx, path)
		if (b != nil) != rtx.HasBucket(rp) {
			rep(&disc{Class: "Bucket/existence", What: fmt.Sprintf("Bucket(%q) exists=%v, reference %v", path, b != nil, rtx.HasBucket(rp))})
			continue
		}
		if b == nil {
			continue
		}
		if b.Writable() != c.writable {
			rep(&disc{Class: "Bucket.Writable/result", What: fmt.Sprintf("Writable()=%v in a writable=%v transaction", b.Writable(), c.writable)})
		}
		for _, k := range append(append([]string{}, keyNames...), "zz", "") {
			got, want := b.Get([]byte(k)), rtx.Get(rp, []byte(k))
			if !sameBytes(got, want) {
				rep(&disc{Class: "Get/value", What: fmt.Sprintf("Get(%q/%q)=%s, reference %s", path, k, hx(got), hx(want))})
			}
		}
		var kv []string
		err := b.ForEach(func(k, v []byte) error { kv = append(kv, string(k)+"="+hx(v)); return nil })
		wkv, wcode := rtx.ForEach(rp)
		var w []string
		for _, p := range wkv {
			w = append(w, string(p.K)+"="+hx(p.V))
		}
		if !rep(cmpCode("ForEach", err, wcode)) && fmt.Sprint(kv) != fmt.Sprint(w) {
			rep(&disc{Class: "ForEach/sequence", What: fmt.Sprintf("ForEach(%q) visits %v, reference %v", path, kv, w)})
		}
		var bs []string
		err = b.ForEachBucket(func(k []byte) error { bs = append(bs, string(k)); return nil })
		wbs, wcode := rtx.ForEachBucket(rp)
		w = nil
		for _, p := range wbs {
			w = append(w, string(p))
		}
		if !rep(cmpCode("ForEachBucket", err, wcode)) && fmt.Sprint(bs) != fmt.Sprint(w) {
			rep(&disc{Class: "ForEachBucket/sequence", What: fmt.Sprintf("ForEachBucket(%q) visits %v, reference %v", path, bs, w)})
		}
		// the user callback's error is passed through
		if len(kv) > 0 {
			if err := b.ForEach(func(k, v []byte) error { return errSentinel }); err != errSentinel {
				rep(&disc{Class: "ForEach/callback-error", What: fmt.Sprintf("callback error not returned: %v", err)})
			}
		}
		// a fresh, never positioned cursor behaves like an exhausted one
		fc := b.Cursor()
		if fc.Next() || fc.Key() != nil || fc.Value() != nil {
			rep(&disc{Class: "Cursor.new/result", What: "unpositioned cursor: Next/Key/Value not false/nil/nil"})
		}
		fc = b.Cursor()
		if fc.Prev() || fc.Key() != nil {
			rep(&disc{Class: "Cursor.new/result", What: "unpositioned cursor: Prev/Key not false/nil"})
		}
		if !c.writable {
			rep(cmpCode("Put", b.Put([]byte("k1"), []byte("x")), database.ErrTxNotWritable))
			rep(cmpCode("Delete", b.Delete([]byte("k1")), database.ErrTxNotWritable))
			_, e := b.CreateBucket([]byte("a"))
			rep(cmpCode("CreateBucket", e, database.ErrTxNotWritable))
			_, e = b.CreateBucketIfNotExists([]byte("a"))
			rep(cmpCode("CreateBucketIfNotExists", e, database.ErrTxNotWritable))
			rep(cmpCode("DeleteBucket", b.DeleteBucket([]byte("a")), database.ErrTxNotWritable))
		}
	}
	if !c.writable {
		rep(cmpCode("StoreBlock", tx.StoreBlock(blocks[0].b), database.ErrTxNotWritable))
		_, e := tx.PruneBlocks(1 << 40)
		rep(cmpCode("PruneBlocks", e, database.ErrTxNotWritable))
	}
	if c.s.noBlockObs {
		if has, err := tx.HasBlock(&blocks[0].hash); has || err != nil {
			rep(&disc{Class: "HasBlock/result", What: fmt.Sprintf("HasBlock of a never stored block = %v, %v", has, err)})
		}
		return out
	}
	// blocks
	var allHashes []chainhash.Hash
	allPresent := true
	var wantHas []bool
	for i, bl := range blocks {
		allHashes = append(allHashes, bl.hash)
		rh := hashOf(i)
		has, err := tx.HasBlock(&bl.hash)
		whas, wcode := rtx.HasBlock(rh)
		wantHas = append(wantHas, whas)
		if !whas {
			allPresent = false
		}
		if !rep(cmpCode("HasBlock", err, wcode)) && has != whas {
			rep(&disc{Class: "HasBlock/result", What: fmt.Sprintf("HasBlock(block %d)=%v, reference %v", i, has, whas)})
		}
		raw, err := tx.FetchBlock(&bl.hash)
		wraw, wcode := rtx.FetchBlock(rh)
		if !rep(cmpCode("FetchBlock", err, wcode)) && wcode == refdb.OK && !bytes.Equal(raw, wraw) {
			rep(&disc{Class: "FetchBlock/bytes", What: fmt.Sprintf("block %d: %s", i, shortDiff(hx(raw), hx(wraw)))})
		}
		hdr, err := tx.FetchBlockHeader(&bl.hash)
		whdr, wcode := rtx.FetchBlockHeader(rh)
		if !rep(cmpCode("FetchBlockHeader", err, wcode)) && wcode == refdb.OK && !bytes.Equal(hdr, whdr) {
			rep(&disc{Class: "FetchBlockHeader/bytes", What: fmt.Sprintf("block %d: %s", i, shortDiff(hx(hdr), hx(whdr)))})
		}
		l := uint32(len(bl.raw))
		for _, rg := range regionAlphabet(l) {
			reg := database.BlockRegion{Hash: &bl.hash, Offset: rg[0], Len: rg[1]}
			want, wcode := rtx.FetchBlockRegion(rh, rg[0], rg[1])
			if wcode == database.ErrBlockRegionInvalid && c.s.skipInvalidRegions {
				continue
			}
			got, err := tx.FetchBlockRegion(&reg)
			if codeOf(err) != wcode {
				cls := "FetchBlockRegion/error-code"
				if wcode == database.ErrBlockRegionInvalid {
					cls = "FetchBlockRegion/out-of-bounds-region-accepted"
					if err != nil {
						cls = "FetchBlockRegion/out-of-bounds-region-wrong-error"
					}
				}
				rep(&disc{Class: cls, What: fmt.Sprintf("block %d (len %d) region off=%d len=%d: returned %s (%d bytes, %v), reference %s", i, l, rg[0], rg[1], codeName(codeOf(err)), len(got), err, codeName(wcode))})
			} else if wcode == refdb.OK && !bytes.Equal(got, want) {
				rep(&disc{Class: "FetchBlockRegion/bytes", What: fmt.Sprintf("block %d region off=%d len=%d: %s", i, rg[0], rg[1], shortDiff(hx(got), hx(want)))})
			}
			// the plural form, combined with a valid region of the same block
			if whas {
				regs := []database.BlockRegion{{Hash: &bl.hash, Offset: 0, Len: 4}, reg}
				gots, err := tx.FetchBlockRegions(regs)
				if codeOf(err) != wcode {
					cls := "FetchBlockRegions/error-code"
					if wcode == database.ErrBlockRegionInvalid {
						cls = "FetchBlockRegions/out-of-bounds-region-accepted"
						if err != nil {
							cls = "FetchBlockRegions/out-of-bounds-region-wrong-error"
						}
					}
					rep(&disc{Class: cls, What: fmt.Sprintf("block %d regions [0,4)+[off=%d len=%d]: returned %s (%v), reference %s", i, rg[0], rg[1], codeName(codeOf(err)), err, codeName(wcode))})
				} else if wcode == refdb.OK && (len(gots) != 2 || !bytes.Equal(gots[0], bl.raw[:4]) || !bytes.Equal(gots[1], want)) {
					rep(&disc{Class: "FetchBlockRegions/bytes", What: fmt.Sprintf("block %d regions [0,4)+[off=%d len=%d] wrong bytes", i, rg[0], rg[1])})
				}
			}
		}
	}
	hb, err := tx.HasBlocks(allHashes)
	if err != nil || fmt.Sprint(hb) != fmt.Sprint(wantHas) {
		rep(&disc{Class: "HasBlocks/result", What: fmt.Sprintf("HasBlocks=%v err=%v, reference %v", hb, err, wantHas)})
	}
	wantAll := refdb.OK
	if !allPresent {
		wantAll = database.ErrBlockNotFound
	}
	fbs, err := tx.FetchBlocks(allHashes)
	okBlocks := !rep(cmpCode("FetchBlocks", err, wantAll))
	fhs, err := tx.FetchBlockHeaders(allHashes)
	okHdrs := !rep(cmpCode("FetchBlockHeaders", err, wantAll))
	if allPresent && okBlocks && okHdrs {
		for i, bl := range blocks {
			if !bytes.Equal(fbs[i], bl.raw) || !bytes.Equal(fhs[i], bl.raw[:refdb.HeaderLen]) {
				rep(&disc{Class: "FetchBlocks/bytes", What: fmt.Sprintf("block %d differs in FetchBlocks/FetchBlockHeaders", i)})
			}
		}
	}
	// bulk fetches in an order that differs from the order on disk, with a
	// different region per block: every answer belongs to its own request
	if allPresent && len(blocks) >= 2 {
		var regs []database.BlockRegion
		var wants [][]byte
		var rev []chainhash.Hash
		for k := len(blocks) - 1; k >= 0; k-- {
			bl := blocks[k]
			off, ln := uint32(k+1), uint32(3+2*k)
			if int(off+ln) > len(bl.raw) {
				off, ln = 0, uint32(len(bl.raw))
			}
			regs = append(regs, database.BlockRegion{Hash: &blocks[k].hash, Offset: off, Len: ln})
			wants = append(wants, bl.raw[off:off+ln])
			rev = append(rev, bl.hash)
		}
		// a middle block first as well (neither sorted nor reversed)
		if len(blocks) >= 3 {
			regs[0], regs[1] = regs[1], regs[0]
			wants[0], wants[1] = wants[1], wants[0]
		}
		gots, err := tx.FetchBlockRegions(regs)
		if err != nil || len(gots) != len(wants) {
			rep(&disc{Class: "FetchBlockRegions/error-code", What: fmt.Sprintf("FetchBlockRegions over %d stored blocks in non-disk order: %d results, err=%v", len(regs), len(gots), err)})
		} else {
			for k := range wants {
				if !bytes.Equal(gots[k], wants[k]) {
					rep(&disc{Class: "FetchBlockRegions/bytes", What: fmt.Sprintf("FetchBlockRegions in non-disk order: answer %d (off=%d len=%d) is %s, stored bytes %s", k, regs[k].Offset, regs[k].Len, hx(gots[k]), hx(wants[k]))})
					break
				}
			}
		}
		if rbs, err := tx.FetchBlocks(rev); err != nil || len(rbs) != len(rev) {
			rep(&disc{Class: "FetchBlocks/error-code", What: fmt.Sprintf("FetchBlocks in reverse order: err=%v", err)})
		} else {
			for k := range rev {
				if !bytes.Equal(rbs[k], blocks[len(blocks)-1-k].raw) {
					rep(&disc{Class: "FetchBlocks/bytes", What: fmt.Sprintf("FetchBlocks in reverse order: answer %d is not the block asked for", k)})
					break
				}
			}
		}
	}
	return out
}

// closedProbes: every call on the handles of a finished transaction is refused.
func closedProbes(tx database.Tx, root database.Bucket, cur database.Cursor) *disc {
	var d *disc
	if p := safely(func() {
		chk := func(name string, err error) {
			if d == nil {
				d = cmpCode(name+"(closed tx)", err, database.ErrTxClosed)
			}
		}
		if root != nil {
			if v := root.Get([]byte("k1")); v != nil && d == nil {
				d = &disc{Class: "Get(closed tx)/value", What: "Get on a closed transaction returned " + hx(v)}
			}
			chk("Put", root.Put([]byte("k1"), []byte("x")))
			chk("Delete", root.Delete([]byte("k1")))
			_, e := root.CreateBucket([]byte("a"))
			chk("CreateBucket", e)
			_, e = root.CreateBucketIfNotExists([]byte("a"))
			chk("CreateBucketIfNotExists", e)
			chk("DeleteBucket", root.DeleteBucket([]byte("a")))
			chk("ForEach", root.ForEach(func(k, v []byte) error { return nil }))
			chk("ForEachBucket", root.ForEachBucket(func(k []byte) error { return nil }))
			if root.Bucket([]byte("a")) != nil && d == nil {
				d = &disc{Class: "Bucket(closed tx)/result", What: "Bucket() on a closed transaction is not nil"}
			}
		}
		if cur != nil {
			if (cur.First() || cur.Last() || cur.Next() || cur.Prev() || cur.Seek([]byte("k1")) || cur.Key() != nil || cur.Value() != nil) && d == nil {
				d = &disc{Class: "Cursor(closed tx)/result", What: "cursor of a closed transaction still moves or returns data"}
			}
			chk("Cursor.Delete", cur.Delete())
		}
		chk("StoreBlock", tx.StoreBlock(blocks[0].b))
		_, e := tx.HasBlock(&blocks[0].hash)
		chk("HasBlock", e)
		_, e = tx.FetchBlock(&blocks[0].hash)
		chk("FetchBlock", e)
		_, e = tx.FetchBlockHeader(&blocks[0].hash)
		chk("FetchBlockHeader", e)
		_, e = tx.FetchBlockRegion(&database.BlockRegion{Hash: &blocks[0].hash, Len: 1})
		chk("FetchBlockRegion", e)
		_, e = tx.PruneBlocks(1 << 40)
		chk("PruneBlocks", e)
		chk("Commit", tx.Commit())
		chk("Rollback", tx.Rollback())
	}); p != "" {
		return &disc{Class: "closed-tx/panic", What: "panic: " + p}
	}
	return d
}

// ---------------------------------------------------------------- running a step

type txResult struct {
	d         *disc
	enabled   bool    // false: the LAST op of the step is not in the alphabet at that state
	stateKey  string  // view + write set + cursors after the last op
	commitKey string  // view + write set
	effect    bool    // the transaction changed the view
	commitErr error   // error returned by Commit / Update (nil when not attempted)
	faulted   bool    // an op inside failed because of an injected fault; rolled back
	soft      []*disc // disagreements found by the read-only battery (state unaffected)
}

// runStep executes one step on both sides.  battery: run the observation battery
// after the last op.  For steps that end in "commit" of a writable transaction the
// reference commits only if ffldb reports success; a failed commit is handled by
// the caller (commitErr).
func (s *sess) runStep(idx int, st Step, battery bool) (res txResult) {
	res.enabled = true
	fail := func(d *disc) txResult {
		if d != nil {
			d.Step = idx
		}
		res.d = d
		return res
	}
	switch st.Kind {
	case "reopen":
		if s.held != nil {
			panic("reopen with a held reader")
		}
		if err := s.in.reopen(); err != nil {
			return fail(&disc{Class: "reopen/error", What: "clean close + reopen failed: " + err.Error(), Op: -1})
		}
		return fail(s.checkCommitted("after-reopen"))
	case "hold":
		tx, err := s.in.db.Begin(false)
		if err != nil {
			return fail(&disc{Class: "Begin/error", What: err.Error(), Op: -1})
		}
		s.held, s.heldRef = tx, s.ref.Begin(false)
		s.heldDump = s.heldRef.State().Dump()
		return fail(s.checkCommitted("after-hold"))
	case "release":
		d := s.checkCommitted("before-release")
		err := s.held.Rollback()
		s.heldRef.Rollback()
		s.held, s.heldRef = nil, nil
		if d == nil && err != nil {
			d = &disc{Class: "Rollback/error", What: "Rollback of the held read-only transaction: " + err.Error(), Op: -1}
		}
		return fail(d)
	}

	if st.Flush == "force" {
		s.in.setFlush(true)
		defer s.in.setFlush(s.in.cfg.FlushEvery)
	} else if st.Flush == "none" {
		s.in.setFlush(false)
		defer s.in.setFlush(s.in.cfg.FlushEvery)
	}

	writable := st.writable()
	before := s.ref.Committed().Dump()
	if s.preTx != nil {
		s.preTx()
	}
	posted := false
	post := func() {
		if !posted && s.postTx != nil {
			s.postTx()
		}
		posted = true
	}
	defer post()
	var ctx *txctx
	var root database.Bucket
	var anyCur database.Cursor
	var theTx database.Tx

	body := func(tx database.Tx) *disc {
		theTx = tx
		ctx = newTxctx(s, writable, tx, s.ref.Begin(writable))
		root = tx.Metadata().Bucket(userRoot)
		for i, op := range st.Ops {
			en, d := ctx.apply(op)
			if !en {
				res.enabled = false
				return nil
			}
			if d != nil && d.Class == faultAbort {
				res.faulted = true
				return nil
			}
			if d != nil {
				d.Op = i
				return d
			}
		}
		res.stateKey, res.commitKey = ctx.stateKey(), ctx.commitKey()
		res.effect = ctx.rtx.State().Dump() != before || ctx.pruned > 0
		for _, c := range ctx.cur {
			anyCur = c
		}
		if battery {
			for _, d := range ctx.battery() {
				d.Op, d.Step = len(st.Ops)-1, idx
				res.soft = append(res.soft, d)
			}
		}
		return nil
	}

	var d *disc
	var endErr error
	commit := st.End == "commit"
	abort := false // a disagreement or disabled op inside: always roll back
	switch st.Kind {
	case "W", "R":
		tx, err := s.in.db.Begin(writable)
		if err != nil {
			return fail(&disc{Class: "Begin/error", What: err.Error(), Op: -1})
		}
		if p := safely(func() { d = body(tx) }); p != "" {
			d = &disc{Class: "tx/panic", What: "panic: " + p, Op: -1}
		}
		abort = d != nil || !res.enabled || res.faulted
		if p := safely(func() {
			if commit && !abort {
				endErr = tx.Commit()
			} else {
				endErr = tx.Rollback()
			}
		}); p != "" && d == nil {
			d = &disc{Class: "tx-end/panic", What: "panic in Commit/Rollback: " + p, Op: -1}
		}
	case "U", "V":
		run := s.in.db.Update
		if st.Kind == "V" {
			run = s.in.db.View
		}
		if p := safely(func() {
			endErr = run(func(tx database.Tx) error {
				d = body(tx)
				abort = d != nil || !res.enabled || res.faulted
				if commit && !abort {
					return nil
				}
				return errSentinel
			})
		}); p != "" && d == nil {
			d = &disc{Class: "tx/panic", What: "panic: " + p, Op: -1}
		}
	}

	post()
	// reference side of the end
	rtx := ctx.rtx
	if abort || !commit {
		rtx.Rollback()
		if d == nil {
			want := error(nil)
			if st.Kind == "U" || st.Kind == "V" {
				want = errSentinel
			}
			if endErr != want {
				d = &disc{Class: "Rollback/error", What: fmt.Sprintf("ending the transaction without commit returned %v, expected %v", endErr, want), Op: -1}
			}
		}
	} else {
		switch st.Kind {
		case "R":
			rtx.Commit()
			d = cmpCode("Commit(read-only tx)", endErr, database.ErrTxNotWritable)
		case "V":
			rtx.Rollback()
			if endErr != nil {
				d = &disc{Class: "View/error", What: "View returned " + endErr.Error(), Op: -1}
			}
		default:
			res.commitErr = endErr
			if endErr == nil {
				rtx.Commit()
			} else {
				rtx.Rollback()
			}
		}
	}
	if d != nil {
		return fail(d)
	}
	if !res.enabled {
		return res
	}
	if theTx != nil {
		if d := closedProbes(theTx, root, anyCur); d != nil {
			d.Op = -1
			return fail(d)
		}
	}
	when := "after-rollback"
	if commit {
		when = "after-commit"
		if !writable {
			when = "after-readonly-tx"
		}
		if res.commitErr != nil {
			when = "after-failed-commit"
		}
	}
	d = s.checkCommitted(when)
	if d != nil {
		for _, op := range st.Ops {
			if strings.HasPrefix(op, "pr:") {
				d.Class += "/step-with-PruneBlocks"
				break
			}
		}
	}
	return fail(d)
}

// runHistory replays a whole history on a fresh instance (every step verified);
// it returns the session for further use unless a disagreement occurred.
func runHistory(c cfg, h []Step, batteryLast bool) (*sess, *disc, error) {
	return runHistoryObs(c, h, batteryLast, nil, false, "")
}

// wantSoft: when the battery of the last step reports several disagreements,
// prefer the one of this class (replay of a specific finding).
func runHistoryObs(c cfg, h []Step, batteryLast bool, obsBuckets []string, noBlockObs bool, wantSoft string) (*sess, *disc, error) {
	s, err := newSess(c, nil)
	if err != nil {
		return nil, nil, err
	}
	s.obsBuckets, s.noBlockObs = obsBuckets, noBlockObs
	for i, st := range h {
		r := s.runStep(i, st, batteryLast && i == len(h)-1)
		// A commit that fails WITHOUT having been applied is atomic; it is not a
		// violation by itself (runStep already compared the state with the
		// reference that rolled the transaction back).
		if r.d == nil && len(r.soft) > 0 {
			r.d = r.soft[0]
			for _, sd := range r.soft {
				if wantSoft != "" && sd.Class == wantSoft {
					r.d = sd
				}
			}
		}
		if r.d != nil {
			s.destroy()
			return nil, r.d, nil
		}
		if !r.enabled {
			s.destroy()
			return nil, &disc{Class: "harness/disabled-op", What: "history contains an op that is not enabled: " + st.String(), Step: i}, nil
		}
	}
	return s, nil, nil
}
