// Free-running -race pass for C05 part (d): the same writer/reader bodies as
// the scheduler-controlled exploration, on the UNMODIFIED ffldb with real
// goroutines, repeated N times (a cooperative scheduler's hand-offs hide data
// races from the detector).  Also re-checks the prefix-snapshot oracle.
package main

import (
	"fmt"
	"os"
	"strconv"
	"sync"
	"time"

	"github.com/btcsuite/btcd/database"
	"github.com/btcsuite/btcd/database/ffldb"
	"github.com/btcsuite/btcd/wire/v2"
)

func main() {
	n := 30
	if len(os.Args) > 1 {
		n, _ = strconv.Atoi(os.Args[1])
	}
	bad := 0
	for it := 0; it < n; it++ {
		dir := fmt.Sprintf("/dev/shm/verif-c05race-%d-%d", os.Getpid(), it)
		os.RemoveAll(dir)
		db, err := database.Create("ffldb", dir, wire.TestNet)
		if err != nil {
			panic(err)
		}
		var wg sync.WaitGroup
		wg.Add(1)
		go func() {
			defer wg.Done()
			for i := 1; i <= 6; i++ {
				if i%2 == 0 {
					ffldb.VerifSetFlushPolicy(db, 0, 1<<40)
				} else {
					ffldb.VerifSetFlushPolicy(db, 1000*time.Hour, 1<<40)
				}
				i := i
				db.Update(func(tx database.Tx) error {
					m := tx.Metadata()
					m.Put([]byte("a"), []byte(fmt.Sprint(i)))
					m.Put([]byte(fmt.Sprintf("t%d", i)), []byte{1})
					return m.Put([]byte("b"), []byte(fmt.Sprint(i)))
				})
			}
		}()
		var mu sync.Mutex
		for r := 0; r < 3; r++ {
			wg.Add(1)
			go func() {
				defer wg.Done()
				for k := 0; k < 40; k++ {
					db.View(func(tx database.Tx) error {
						m := tx.Metadata()
						a, b := string(m.Get([]byte("a"))), string(m.Get([]byte("b")))
						j := 0
						for j < 6 && m.Get([]byte(fmt.Sprintf("t%d", j+1))) != nil {
							j++
						}
						ok := a == b
						for x := j; x < 6; x++ {
							if m.Get([]byte(fmt.Sprintf("t%d", x+1))) != nil {
								ok = false
							}
						}
						want := ""
						if j > 0 {
							want = fmt.Sprint(j)
						}
						if a != want {
							ok = false
						}
						if !ok {
							mu.Lock()
							bad++
							mu.Unlock()
						}
						return nil
					})
				}
			}()
		}
		wg.Wait()
		db.Close()
		os.RemoveAll(dir)
	}
	fmt.Printf("race pass: %d iterations, non-prefix snapshots observed: %d\n", n, bad)
}
