// C02 — the active chain is the most-work fully-valid chain, whatever the delivery
// order; all views of it agree; invalidate/reconsider move the tip to the best
// chain that excludes / again includes the block.
//
// For every rooted block tree up to N non-genesis nodes, every labelling with at
// most one (thorough: two) invalid nodes (invalid at sanity / at acceptance / at
// connect), an explicit-state BFS explores every history of block deliveries in
// any order (children before parents, one re-delivery), header deliveries, and
// InvalidateBlock / ReconsiderBlock calls, on the real BlockChain.  After every
// transition a naive reference (most cumulative work among chains whose blocks
// are all delivered and valid, first-active wins ties) and the agreement of all
// views are checked.
package main

import (
	"fmt"
	"sort"
	"strings"
	"time"

	"github.com/btcsuite/btcd/blockchain"
	"github.com/btcsuite/btcd/chaincfg/v2"
	"github.com/btcsuite/btcd/chainhash/v2"
	"github.com/btcsuite/btcd/wire/v2"

	"verif/engine/bfs"
	"verif/engine/ev"
	"verif/lab"
)

// labels
const (
	lV = 'V' // valid
	lS = 'S' // fails context-free sanity (bad merkle root)
	lX = 'X' // fails contextual acceptance (timestamp not after median time past)
	lC = 'C' // fails at connect time (coinbase pays more than the subsidy)
)

// event kinds
const (
	kD = iota // deliver block
	kH        // deliver header
	kI        // InvalidateBlock
	kR        // ReconsiderBlock
	kX        // clean shutdown (utxo cache flushed, database closed) and restart
)

var kindName = []string{"D", "H", "I", "R", "X"}

func evCode(kind, node int) int { return kind*16 + node }
func evKind(e int) int          { return e / 16 }
func evNode(e int) int          { return e % 16 }
func evString(e int) string     { return fmt.Sprintf("%s%d", kindName[evKind(e)], evNode(e)) }

type world struct {
	params *chaincfg.Params
	parent []int  // parent[i] for i>=1; node 0 is genesis
	label  []byte // label[i]
	blk    []*lab.Blk
	byHash map[chainhash.Hash]int
	height []int
	// chainValid[i]: node i and all its ancestors carry label V
	chainValid []bool
}

func (w *world) String() string {
	var sb strings.Builder
	for i := 1; i < len(w.parent); i++ {
		fmt.Fprintf(&sb, "%d<-%d%c ", w.parent[i], i, w.label[i])
	}
	return strings.TrimSpace(sb.String())
}

func (w *world) isAncestor(a, d int) bool { // a is a strict ancestor of d
	for n := w.parent[d]; ; n = w.parent[n] {
		if n == a {
			return true
		}
		if n == 0 {
			return a == 0
		}
	}
}

func medianTimePast(b *lab.Blk) time.Time {
	var ts []int64
	for n := b; n != nil && len(ts) < 11; n = n.Parent {
		ts = append(ts, n.Msg.Header.Timestamp.Unix())
	}
	sort.Slice(ts, func(i, j int) bool { return ts[i] < ts[j] })
	return time.Unix(ts[len(ts)/2], 0)
}

func buildWorld(parent []int, label []byte) *world {
	p := lab.RegtestLike()
	// maturity 1: a block may spend its parent's coinbase, so blocks below
	// depth 1 carry 1 + (i mod 3) transactions and the snapshot's per-block
	// and cumulative counts differ between a block and its parent
	p.CoinbaseMaturity = 1
	w := &world{params: p, parent: parent, label: label, byHash: map[chainhash.Hash]int{}}
	n := len(parent)
	w.blk = make([]*lab.Blk, n)
	w.height = make([]int, n)
	w.chainValid = make([]bool, n)
	w.blk[0] = lab.Genesis(p)
	w.byHash[w.blk[0].Hash] = 0
	w.chainValid[0] = true
	for i := 1; i < n; i++ {
		par := w.blk[parent[i]]
		o := lab.BOpt{Tag: uint32(1000 + i), Name: fmt.Sprintf("%d", i)}
		switch label[i] {
		case lC:
			o.Fees = 1 // coinbase claims 1 satoshi more than the subsidy
		case lX:
			o.Time = medianTimePast(par) // must be strictly greater
		case lS:
			o.PostMerkle = func(m *wire.MsgBlock) { m.Header.MerkleRoot[0] ^= 0x55 }
		}
		if parent[i] != 0 {
			prev := wire.OutPoint{Hash: lab.TxID(par.Msg.Transactions[0]), Index: 0}
			val := par.Msg.Transactions[0].TxOut[0].Value
			for k := 0; k < i%3; k++ {
				tx := lab.Spend([]wire.OutPoint{prev}, []int64{val})
				o.Txs = append(o.Txs, tx)
				prev = wire.OutPoint{Hash: lab.TxID(tx), Index: 0}
			}
		}
		w.blk[i] = lab.Build(p, par, o)
		w.byHash[w.blk[i].Hash] = i
		w.height[i] = w.height[parent[i]] + 1
		w.chainValid[i] = w.chainValid[parent[i]] && label[i] == lV
	}
	return w
}

type sys struct {
	w         *world
	c         *lab.Chain
	delivered []int  // number of ProcessBlock calls per node
	counted   []bool // delivery counts for the reference (see deliver)
	hdrSent   []bool
	manual    []bool // manually invalidated
	nIR       int
	nReopen   int
	noteBase  []int // active chain at the last restart: where the notification stream starts
	nRedeliv  int
	prevTip   int
	err       string
	lastEv    int
	lastErr   error
}

func (w *world) newSys() *sys {
	c, err := lab.NewChain(lab.CloneParams(w.params), lab.ChainOpts{CacheSize: 1 << 20})
	if err != nil {
		panic(err)
	}
	n := len(w.parent)
	return &sys{w: w, c: c, delivered: make([]int, n), counted: make([]bool, n), hdrSent: make([]bool, n), manual: make([]bool, n), lastEv: -1}
}

func (s *sys) fail(f string, a ...interface{}) {
	if s.err == "" {
		s.err = fmt.Sprintf(f, a...)
	}
}

// underManual reports whether node i or one of its ancestors is manually invalidated.
func (s *sys) underManual(i int) bool {
	for n := i; n != 0; n = s.w.parent[n] {
		if s.manual[n] {
			return true
		}
	}
	return false
}

func (s *sys) apply(e int) {
	if s.err != "" {
		return
	}
	s.lastEv = e
	s.lastErr = nil
	s.prevTip = s.tip()
	i := evNode(e)
	defer func() {
		if r := recover(); r != nil {
			s.fail("panic in %s: %v", evString(e), r)
		}
	}()
	switch evKind(e) {
	case kD:
		if s.delivered[i] > 0 {
			s.nRedeliv++
		}
		s.delivered[i]++
		// A delivery made while an ancestor is manually invalidated is correctly
		// refused by the node and does not oblige it to know the block later.
		if !s.underManual(i) {
			s.counted[i] = true
		}
		var waiting []int
		for j := 1; j < len(s.w.parent); j++ {
			if j != i && s.c.BC.IsKnownOrphan(&s.w.blk[j].Hash) {
				waiting = append(waiting, j)
			}
		}
		_, _, err := s.c.BC.ProcessBlock(s.w.blk[i].Block(), blockchain.BFNone)
		s.lastErr = err
		// An orphan is really handed to acceptance when its parent arrives; if
		// that happens while it is below a manually invalidated block it is in
		// the position of a delivery made under invalidation (see above).
		for _, j := range waiting {
			if !s.c.BC.IsKnownOrphan(&s.w.blk[j].Hash) && s.underManual(j) {
				s.counted[j] = false
			}
		}
	case kH:
		s.hdrSent[i] = true
		h := s.w.blk[i].Msg.Header
		_, err := s.c.BC.ProcessBlockHeader(&h, blockchain.BFNone, false)
		s.lastErr = err
	case kI:
		s.nIR++
		err := s.c.BC.InvalidateBlock(&s.w.blk[i].Hash)
		s.lastErr = err
		s.manual[i] = true
	case kR:
		s.nIR++
		err := s.c.BC.ReconsiderBlock(&s.w.blk[i].Hash)
		s.lastErr = err
		s.manual[i] = false
	case kX:
		// what the operator said (invalidate / reconsider) and what the node
		// learnt survives a restart: the reference state is not touched
		s.nReopen++
		if err := s.c.CleanClose(); err != nil {
			s.fail("clean close: %v", err)
			return
		}
		if err := s.c.Reopen(); err != nil {
			s.fail("restart: %v", err)
			return
		}
		// notifications start afresh on top of the chain that was active
		s.noteBase = nil
		for n := s.tip(); n > 0; n = s.w.parent[n] {
			s.noteBase = append([]int{n}, s.noteBase...)
		}
	}
}

func (s *sys) tip() int {
	best := s.c.BC.BestSnapshot()
	i, ok := s.w.byHash[best.Hash]
	if !ok {
		return -1
	}
	return i
}

type bounds struct {
	headers   bool
	maxIR     int
	maxRedeli int
	// parentsFirst restricts block deliveries to blocks whose parent was
	// delivered (no orphans): used by the deeper layers to keep them tractable.
	parentsFirst bool
	// twoBranch restricts the trees to at most two leaves; connectOnly restricts
	// invalid labels to the connect-time kind; exactN skips smaller trees.
	twoBranch, connectOnly, exactN bool
	// maxReopen: clean restarts per history (only with parentsFirst and without
	// headers: the orphan pool and unflushed header entries are memory only)
	maxReopen int
}

func (s *sys) enabled(b bounds) []int {
	if s.err != "" {
		return nil
	}
	var out []int
	n := len(s.w.parent)
	for i := 1; i < n; i++ {
		if b.parentsFirst && s.w.parent[i] != 0 && s.delivered[s.w.parent[i]] == 0 {
			continue
		}
		if s.delivered[i] == 0 || (s.delivered[i] == 1 && s.nRedeliv < b.maxRedeli) {
			out = append(out, evCode(kD, i))
		}
	}
	if b.headers {
		for i := 1; i < n; i++ {
			if !s.hdrSent[i] {
				out = append(out, evCode(kH, i))
			}
		}
	}
	if s.nReopen < b.maxReopen && s.lastEv >= 0 && evKind(s.lastEv) != kX {
		out = append(out, evCode(kX, 0))
	}
	if s.nIR < b.maxIR {
		for i := 1; i < n; i++ {
			// invalidate: any block the node knows (in the index)
			if _, known := s.c.BC.VerifNodeStatus(&s.w.blk[i].Hash); known && !s.manual[i] {
				out = append(out, evCode(kI, i))
			}
			// reconsider: manually invalidated blocks, and any block the node has
			// flagged invalid itself (it stays invalid by ground truth: the tip
			// must not move unless a more-work valid chain results)
			if st, known := s.c.BC.VerifNodeStatus(&s.w.blk[i].Hash); s.manual[i] || (known && st&(4|8) != 0) {
				out = append(out, evCode(kR, i))
			}
		}
	}
	return out
}

func (s *sys) canon() string {
	if s.err != "" {
		return "ERR:" + s.err
	}
	var sb strings.Builder
	fmt.Fprintf(&sb, "tip=%d ir=%d rd=%d x=%d|", s.tip(), s.nIR, s.nRedeliv, s.nReopen)
	for i := 1; i < len(s.w.parent); i++ {
		st, known := s.c.BC.VerifNodeStatus(&s.w.blk[i].Hash)
		orphan := s.c.BC.IsKnownOrphan(&s.w.blk[i].Hash)
		fmt.Fprintf(&sb, "%d:d%d c%v h%v m%v s%d k%v o%v|", i, s.delivered[i], s.counted[i], s.hdrSent[i], s.manual[i], st, known, orphan)
	}
	bh, _ := s.c.BC.BestHeader()
	fmt.Fprintf(&sb, "bh=%d", s.w.byHash[bh])
	return sb.String()
}

// eligible reports whether node i could be an active tip: its whole chain is
// valid, not manually invalidated, and every block of it was handed to the node
// (counted=false: at all; counted=true: at a time when the node was obliged to
// keep it, i.e. not below a manually invalidated block).
func (s *sys) eligible(i int, counted bool) bool {
	w := s.w
	if !w.chainValid[i] {
		return false
	}
	for n := i; n != 0; n = w.parent[n] {
		if s.manual[n] || s.delivered[n] == 0 || (counted && !s.counted[n]) {
			return false
		}
	}
	return true
}

// mustBest returns the greatest height among chains the node is obliged to know.
func (s *sys) mustBest() (int, []int) {
	bestH := 0
	cands := []int{0}
	for i := 1; i < len(s.w.parent); i++ {
		if !s.eligible(i, true) {
			continue
		}
		if s.w.height[i] > bestH {
			bestH = s.w.height[i]
			cands = []int{i}
		} else if s.w.height[i] == bestH {
			cands = append(cands, i)
		}
	}
	return bestH, cands
}

func (s *sys) check() string {
	if s.err != "" {
		return s.err
	}
	w := s.w
	bc := s.c.BC
	best := bc.BestSnapshot()
	tip, ok := w.byHash[best.Hash]
	if !ok {
		return fmt.Sprintf("best hash %v unknown", best.Hash)
	}
	// (1)(2)(3) chain selection
	bestH, cands := s.mustBest()
	if !w.chainValid[tip] {
		return fmt.Sprintf("active tip %d lies on a chain containing an invalid block", tip)
	}
	if !s.eligible(tip, false) {
		return fmt.Sprintf("active tip %d lies on a chain that is manually invalidated or was never delivered", tip)
	}
	if w.height[tip] < bestH {
		return fmt.Sprintf("active tip %d has height(work) %d but the most-work fully-valid delivered chain has %d (candidates %v)%s", tip, w.height[tip], bestH, cands, s.diagnose(cands))
	}
	if s.lastEv >= 0 && s.eligible(s.prevTip, false) && tip != s.prevTip && w.height[tip] <= w.height[s.prevTip] {
		return fmt.Sprintf("tip moved from %d to %d although %d is still valid and has at least as much work (first-active must win ties)", s.prevTip, tip, s.prevTip)
	}
	// (4) views agree
	if int(best.Height) != w.height[tip] {
		return fmt.Sprintf("BestSnapshot.Height=%d, tip %d has height %d", best.Height, tip, w.height[tip])
	}
	var total uint64
	for n := tip; ; n = w.parent[n] {
		total += uint64(len(w.blk[n].Msg.Transactions))
		if n == 0 {
			break
		}
	}
	if best.TotalTxns != total {
		return fmt.Sprintf("BestSnapshot.TotalTxns=%d but the blocks of the active chain hold %d transactions", best.TotalTxns, total)
	}
	tb := w.blk[tip].Msg
	if best.NumTxns != uint64(len(tb.Transactions)) || best.Bits != tb.Header.Bits ||
		best.BlockSize != uint64(tb.SerializeSize()) || !best.MedianTime.Equal(medianTimePast(w.blk[tip])) {
		return fmt.Sprintf("BestSnapshot of tip %d: NumTxns=%d Bits=%x BlockSize=%d MedianTime=%v; the tip block has %d, %x, %d, %v",
			tip, best.NumTxns, best.Bits, best.BlockSize, best.MedianTime.Unix(), len(tb.Transactions), tb.Header.Bits, tb.SerializeSize(), medianTimePast(w.blk[tip]).Unix())
	}
	onMain := map[int]bool{0: true}
	for n := tip; n != 0; n = w.parent[n] {
		onMain[n] = true
	}
	for h := int32(-1); h <= best.Height+1; h++ {
		hash, err := bc.BlockHashByHeight(h)
		if h < 0 || h > best.Height {
			if err == nil {
				return fmt.Sprintf("BlockHashByHeight(%d) succeeded beyond the chain", h)
			}
			if _, err := bc.BlockByHeight(h); err == nil {
				return fmt.Sprintf("BlockByHeight(%d) succeeded beyond the chain", h)
			}
			continue
		}
		if err != nil {
			return fmt.Sprintf("BlockHashByHeight(%d): %v", h, err)
		}
		n, ok := w.byHash[*hash]
		if !ok || !onMain[n] || w.height[n] != int(h) {
			return fmt.Sprintf("BlockHashByHeight(%d) = node %d, not the active chain's block at that height", h, n)
		}
		blk, err := bc.BlockByHeight(h)
		if err != nil {
			return fmt.Sprintf("BlockByHeight(%d): %v", h, err)
		}
		if *blk.Hash() != *hash {
			return fmt.Sprintf("BlockByHeight(%d) hash mismatch", h)
		}
	}
	for i := 0; i < len(w.parent); i++ {
		has := bc.MainChainHasBlock(&w.blk[i].Hash)
		if has != onMain[i] {
			return fmt.Sprintf("MainChainHasBlock(%d)=%v, want %v (tip %d)", i, has, onMain[i], tip)
		}
		h, err := bc.BlockHeightByHash(&w.blk[i].Hash)
		if onMain[i] {
			if err != nil || int(h) != w.height[i] {
				return fmt.Sprintf("BlockHeightByHash(%d)=%d,%v want %d", i, h, err, w.height[i])
			}
		} else if err == nil {
			return fmt.Sprintf("BlockHeightByHash(%d) succeeded for a block not on the active chain", i)
		}
	}
	// ChainTips: consistent with the index view
	known := map[int]bool{0: true}
	for i := 1; i < len(w.parent); i++ {
		if _, k := bc.VerifNodeStatus(&w.blk[i].Hash); k {
			known[i] = true
			if !known[w.parent[i]] {
				return fmt.Sprintf("node %d is in the index but its parent %d is not", i, w.parent[i])
			}
		}
	}
	leaves := map[int]bool{}
	for i := range known {
		leaf := true
		for j := 1; j < len(w.parent); j++ {
			if known[j] && w.parent[j] == i {
				leaf = false
			}
		}
		if leaf {
			leaves[i] = true
		}
	}
	// the active tip is always reported, even if it has indexed descendants
	tips := bc.ChainTips()
	seen := map[int]bool{}
	nActive := 0
	for _, t := range tips {
		n, ok := w.byHash[t.BlockHash]
		if !ok {
			return "ChainTips reports an unknown hash"
		}
		if seen[n] {
			return fmt.Sprintf("ChainTips reports node %d twice", n)
		}
		seen[n] = true
		if int(t.Height) != w.height[n] {
			return fmt.Sprintf("ChainTips height of %d = %d", n, t.Height)
		}
		// branch length = distance to the active chain
		bl := 0
		for m := n; !onMain[m]; m = w.parent[m] {
			bl++
		}
		if int(t.BranchLen) != bl {
			return fmt.Sprintf("ChainTips branch length of %d = %d want %d", n, t.BranchLen, bl)
		}
		switch t.Status {
		case blockchain.StatusActive:
			nActive++
			if n != tip {
				return fmt.Sprintf("ChainTips marks %d active but the tip is %d", n, tip)
			}
		case blockchain.StatusInvalid:
			if w.chainValid[n] && !s.underManual(n) {
				return fmt.Sprintf("ChainTips marks %d invalid although its whole chain is valid and not invalidated", n)
			}
		}
		if n != tip && !leaves[n] {
			return fmt.Sprintf("ChainTips reports %d which is not a leaf of the indexed tree", n)
		}
	}
	if nActive != 1 {
		return fmt.Sprintf("ChainTips reports %d active tips", nActive)
	}
	for l := range leaves {
		if !seen[l] && !onMain[l] {
			return fmt.Sprintf("ChainTips misses leaf %d", l)
		}
	}
	// (5) notification stream replays to the active chain
	stack := append([]int{0}, s.noteBase...)
	for _, nt := range s.c.Notes {
		n, ok := w.byHash[nt.Hash]
		if !ok {
			return "notification for unknown block"
		}
		switch nt.Type {
		case blockchain.NTBlockConnected:
			if w.parent[n] != stack[len(stack)-1] {
				return fmt.Sprintf("NTBlockConnected(%d) on top of %d", n, stack[len(stack)-1])
			}
			stack = append(stack, n)
		case blockchain.NTBlockDisconnected:
			if stack[len(stack)-1] != n || n == 0 {
				return fmt.Sprintf("NTBlockDisconnected(%d) but top is %d", n, stack[len(stack)-1])
			}
			stack = stack[:len(stack)-1]
		}
	}
	if stack[len(stack)-1] != tip {
		return fmt.Sprintf("replaying connect/disconnect notifications ends at %d, tip is %d", stack[len(stack)-1], tip)
	}
	return ""
}

// diagnose names the call site / structural cause of a chain-selection failure
// (used as the stable identity of a finding).
func (s *sys) diagnose(cands []int) string {
	w := s.w
	bc := s.c.BC
	indexed := func(i int) bool { _, k := bc.VerifNodeStatus(&w.blk[i].Hash); return k }
	isLeaf := func(i int) bool {
		for j := 1; j < len(w.parent); j++ {
			if w.parent[j] == i && indexed(j) {
				return false
			}
		}
		return true
	}
	switch evKind(s.lastEv) {
	case kI:
		anyLeaf := false
		for _, c := range cands {
			if isLeaf(c) {
				anyLeaf = true
			}
		}
		if !anyLeaf {
			return " [cause: InvalidateBlock/best-valid-chain-ends-at-a-non-leaf-of-the-index]"
		}
		// some other leaf of the index with at least as much work is (ground truth)
		// invalid or header-only: InvalidateBlock tries one tip and gives up
		for j := 1; j < len(w.parent); j++ {
			if !indexed(j) || !isLeaf(j) || w.height[j] < w.height[cands[0]] {
				continue
			}
			st, _ := bc.VerifNodeStatus(&w.blk[j].Hash)
			if st&1 == 0 {
				return " [cause: InvalidateBlock/gives-up-after-choosing-a-header-only-tip]"
			}
			// (after the failed attempt the tip carries the validate-failed flag, so
			// the flags cannot be used to tell whether it was validated before)
			if !w.chainValid[j] && !s.underManual(j) {
				return " [cause: InvalidateBlock/gives-up-after-choosing-a-not-yet-validated-invalid-tip]"
			}
		}
		return " [cause: InvalidateBlock/other]"
	case kR:
		x := evNode(s.lastEv)
		nLeaves, bad := 0, false
		for j := 1; j < len(w.parent); j++ {
			if j != x && !w.isAncestor(x, j) {
				continue
			}
			if indexed(j) && isLeaf(j) {
				nLeaves++
				if !w.chainValid[j] || s.underManual(j) {
					bad = true
				}
				if st, _ := bc.VerifNodeStatus(&w.blk[j].Hash); st&1 == 0 {
					bad = true // header-only leaf
				}
			}
		}
		if bad {
			return " [cause: ReconsiderBlock/descendant-tip-of-reconsidered-block-is-invalid-or-header-only]"
		}
		if nLeaves > 1 {
			return " [cause: ReconsiderBlock/several-descendant-tips]"
		}
		return " [cause: ReconsiderBlock/other]"
	case kD:
		for i := 1; i < len(w.parent); i++ {
			if bc.IsKnownOrphan(&w.blk[i].Hash) && indexed(w.parent[i]) {
				return " [cause: ProcessBlock/orphan-left-in-pool-although-parent-is-known]"
			}
		}
		return " [cause: ProcessBlock/other]"
	}
	return " [cause: other]"
}

func keys(m map[int]bool) []int {
	var k []int
	for i := range m {
		k = append(k, i)
	}
	sort.Ints(k)
	return k
}

// ---- tree enumeration -----------------------------------------------------

func canonTree(parent []int, root int) string {
	var kids []string
	for i := 1; i < len(parent); i++ {
		if parent[i] == root {
			kids = append(kids, canonTree(parent, i))
		}
	}
	sort.Strings(kids)
	return "(" + strings.Join(kids, "") + ")"
}

// trees returns one parent array per unordered rooted tree with n non-root nodes.
func trees(n int) [][]int {
	var out [][]int
	seen := map[string]bool{}
	parent := make([]int, n+1)
	var rec func(i int)
	rec = func(i int) {
		if i > n {
			c := canonTree(parent, 0)
			if !seen[c] {
				seen[c] = true
				out = append(out, append([]int(nil), parent...))
			}
			return
		}
		for p := 0; p < i; p++ {
			parent[i] = p
			rec(i + 1)
		}
	}
	rec(1)
	return out
}

func leaves(parent []int) int {
	hasKid := make([]bool, len(parent))
	for i := 1; i < len(parent); i++ {
		hasKid[parent[i]] = true
	}
	n := 0
	for i := range parent {
		if !hasKid[i] {
			n++
		}
	}
	return n
}

func labelings(n, maxInvalid int) [][]byte {
	var out [][]byte
	lab := make([]byte, n+1)
	lab[0] = lV
	var rec func(i, inv int)
	rec = func(i, inv int) {
		if i > n {
			out = append(out, append([]byte(nil), lab...))
			return
		}
		lab[i] = lV
		rec(i+1, inv)
		if inv < maxInvalid {
			for _, l := range []byte{lC, lX, lS} {
				lab[i] = l
				rec(i+1, inv+1)
			}
		}
	}
	rec(1, 0)
	return out
}

type replay struct {
	Parent  []int    `json:"parent"`
	Label   string   `json:"label"`
	Hist    []string `json:"hist"`
	HistRaw []int    `json:"hist_raw"`
}

func runHist(w *world, hist []int) string {
	s := w.newSys()
	defer s.c.Destroy()
	// every prefix was checked when it was explored; re-check all of them so the
	// replay stands alone.
	for _, e := range hist {
		s.apply(e)
	}
	return s.check()
}

func violKey(w *world, what string, hist []int) string {
	kset := map[string]bool{}
	for _, e := range hist {
		kset[kindName[evKind(e)]] = true
	}
	kinds := ""
	for _, k := range kindName {
		if kset[k] {
			kinds += k
		}
	}
	if i := strings.Index(what, "[cause: "); i >= 0 {
		return strings.TrimSuffix(what[i+8:], "]")
	}
	// class of the failure; the concrete history goes into the replay file
	cls := what
	for _, p := range []string{"ProcessBlock", "has height(work)", "not among", "tip moved", "ChainTips", "NTBlock", "replaying", "MainChainHasBlock", "BlockHashByHeight", "BlockHeightByHash", "panic", "lies on a chain"} {
		if strings.Contains(what, p) {
			cls = p
			break
		}
	}
	// family = failure class / kinds of events used / multiset of labels
	lb := []byte(string(w.label[1:]))
	sort.Slice(lb, func(i, j int) bool { return lb[i] < lb[j] })
	return cls + "/" + kinds + "/" + string(lb)
}

func main() {
	r := ev.Start("C02")
	r.Rule("for every unordered rooted tree (<=N non-genesis blocks) x labelling (<=k invalid blocks of kinds sanity/accept/connect): BFS over histories of {deliver block i (any order, one re-delivery), deliver header i, InvalidateBlock i, ReconsiderBlock i} on the real BlockChain; states distinct by canonical key (per-block delivery/header/manual flags, index status byte, orphan flag, tip, best header)")
	r.Assume("all lab blocks carry equal work (regtest difficulty), so cumulative work == height and ties are the norm")
	r.Assume("orphan expiry (1 h wall clock) and the 100-orphan cap are outside the explored horizon")

	if r.ReplayPath != "" {
		var rp replay
		r.LoadReplay(&rp)
		w := buildWorld(rp.Parent, []byte(rp.Label))
		if what := runHist(w, rp.HistRaw); what != "" {
			r.Violation(violKey(w, what, rp.HistRaw)+"/replay", what, rp)
		}
		r.Eval(1)
		r.Finish(false)
	}

	type cfg struct {
		n, maxInv int
		b         bounds
		name      string
	}
	var cfgs []cfg
	if r.Thorough() {
		cfgs = []cfg{
			{5, 1, bounds{headers: false, maxIR: 0, maxRedeli: 1}, "A: blocks only, N<=5, <=1 invalid, 1 re-delivery"},
			{4, 2, bounds{headers: false, maxIR: 0, maxRedeli: 1}, "A2: blocks only, N<=4, <=2 invalid"},
			{4, 1, bounds{headers: true, maxIR: 0, maxRedeli: 0}, "B: headers+blocks, N<=4"},
			{4, 1, bounds{headers: false, maxIR: 2, maxRedeli: 0}, "C: blocks + <=2 invalidate/reconsider, N<=4"},
			{3, 1, bounds{headers: true, maxIR: 2, maxRedeli: 0}, "BC: headers + invalidate/reconsider, N<=3"},
			{5, 1, bounds{maxIR: 1, parentsFirst: true, connectOnly: true, exactN: true}, "C5: N=5, <=1 connect-invalid block, parents-first deliveries + 1 invalidate/reconsider"},
			{6, 1, bounds{maxIR: 1, parentsFirst: true, connectOnly: true, twoBranch: true, exactN: true}, "C6: N=6 two-branch trees, <=1 connect-invalid block, parents-first deliveries + 1 invalidate/reconsider"},
			{4, 1, bounds{maxIR: 2, parentsFirst: true, maxReopen: 1}, "CX: N<=4, <=1 invalid, parents-first block deliveries + <=2 invalidate/reconsider + 1 clean restart"},
		}
		r.SetBudget(45 * time.Minute)
	} else {
		cfgs = []cfg{
			{4, 1, bounds{headers: false, maxIR: 0, maxRedeli: 1}, "A: blocks only, N<=4, <=1 invalid, 1 re-delivery"},
			{3, 1, bounds{headers: true, maxIR: 0, maxRedeli: 0}, "B: headers+blocks, N<=3"},
			{3, 1, bounds{headers: false, maxIR: 2, maxRedeli: 0}, "C: blocks + <=2 invalidate/reconsider, N<=3"},
			{5, 1, bounds{maxIR: 1, parentsFirst: true, connectOnly: true, twoBranch: true, exactN: true}, "C5: N=5 two-branch trees, <=1 connect-invalid block, parents-first deliveries + 1 invalidate/reconsider"},
			{3, 0, bounds{headers: true, maxIR: 2, parentsFirst: true, exactN: true}, "BC3: N=3 all-valid trees, headers + parents-first block deliveries + <=2 invalidate/reconsider"},
			{3, 1, bounds{maxIR: 2, parentsFirst: true, maxReopen: 1}, "CX: N<=3, <=1 invalid, parents-first block deliveries + <=2 invalidate/reconsider + 1 clean restart"},
		}
		r.SetBudget(5 * time.Minute)
	}
	complete := true
	layerStats := map[string]interface{}{}
	for _, c := range cfgs {
		worlds := 0
		st, tr := 0, 0
		for n := 1; n <= c.n; n++ {
			if c.b.exactN && n != c.n {
				continue
			}
			for _, parent := range trees(n) {
				if c.b.twoBranch && leaves(parent) > 2 {
					continue
				}
				for _, lb := range labelings(n, c.maxInv) {
					if c.b.connectOnly && strings.ContainsAny(string(lb), "XS") {
						continue
					}
					if r.Expired() {
						complete = false
						continue
					}
					w := buildWorld(parent, lb)
					worlds++
					b := c.b
					m := bfs.Model[*sys]{
						New:     func() *sys { return w.newSys() },
						Enabled: func(s *sys, hist []int) []int { return s.enabled(b) },
						Apply:   func(s *sys, e int) { s.apply(e) },
						Canon: func(s *sys) string {
							k := s.canon()
							r.Nontrivial(c.name + w.String() + k)
							return k
						},
						Check: func(s *sys, h []int) string { return s.check() },
						Free:  func(s *sys) { s.c.Destroy() },
						Stop:  r.Expired,
					}
					res := bfs.Run(m)
					st += res.States
					tr += res.Transitions
					if !res.Complete {
						complete = false
					}
					if worlds%7 == 0 {
						for _, h := range res.SampleHists[:min(1, len(res.SampleHists))] {
							r.Sample(map[string]interface{}{"layer": c.name, "tree": w.String(), "hist": histStr(h)})
						}
					}
					for _, v := range res.Violations {
						ok := true
						for k := 0; k < 3; k++ {
							if runHist(w, v.Hist) == "" {
								ok = false
							}
						}
						if !ok {
							// map-order nondeterminism inside btcd (InactiveTips): report only
							// failures that reproduce every time
							r.Add("nondeterministic_failures_ignored", 1)
							continue
						}
						r.Violation(violKey(w, v.What, v.Hist), fmt.Sprintf("[%s] tree{%s} hist=%v: %s", c.name, w, histStr(v.Hist), v.What),
							replay{Parent: w.parent, Label: string(w.label), Hist: histStr(v.Hist), HistRaw: v.Hist})
					}
				}
			}
		}
		r.State(st)
		r.Trans(tr)
		r.Trace(tr)
		r.Eval(tr)
		layerStats[c.name] = map[string]interface{}{"worlds": worlds, "states": st, "transitions": tr}
	}
	if !complete {
		r.Cap("time box hit; see per-layer counts for what was covered")
	}
	r.Set("layers", layerStats)
	r.Finish(complete)
}

func histStr(h []int) []string {
	out := make([]string, len(h))
	for i, e := range h {
		out[i] = evString(e)
	}
	return out
}
