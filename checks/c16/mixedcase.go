package main

import (
	"fmt"
	"sort"
	"strings"

	"verif/ref/refaddr"
)

// Mixed-case rule (BIP173: "decoders MUST NOT accept strings where some
// characters are uppercase and some are lowercase").
//
// A set of valid bech32 / bech32m strings that together contain every letter of
// the bech32 charset and every letter a..z in the human readable part (plus the
// neighbours of the case ranges '`' '{' '@' '[' in the HRP) is taken in its
// all-lower and all-UPPER form; the case of every single letter position is
// flipped, and of every pair of positions for one short string.  Every pure
// form must decode (to the same data), every mixed form must be rejected by
// bech32.Decode / DecodeGeneric / DecodeNoLimit(WithVersion) (kind b32d) and
// by address.DecodeAddress / decodeSegWitAddress (kind dec).

func isLower(c byte) bool { return c >= 'a' && c <= 'z' }
func isUpper(c byte) bool { return c >= 'A' && c <= 'Z' }

func flipAt(s string, pos ...int) string {
	b := []byte(s)
	for _, i := range pos {
		switch {
		case isLower(b[i]):
			b[i] -= 32
		case isUpper(b[i]):
			b[i] += 32
		}
	}
	return string(b)
}

type caseSeed struct {
	s    string // all-lower form
	addr bool   // also through DecodeAddress
	n    int    // default net for DecodeAddress
}

func mixedCaseSeeds() []caseSeed {
	var seeds []caseSeed
	letters := func(ss []caseSeed) map[byte]bool {
		m := map[byte]bool{}
		for _, sd := range ss {
			one := strings.LastIndexByte(sd.s, '1')
			for i := one + 1; i < len(sd.s); i++ {
				if isLower(sd.s[i]) {
					m[sd.s[i]] = true
				}
			}
		}
		return m
	}
	// segwit addresses: the three classes (+P2A) on four HRPs
	for ni, name := range []string{"mainnet", "testnet3", "regtest", "simnet"} {
		n := netIndex(name)
		h20 := make([]byte, 20)
		h32 := make([]byte, 32)
		for i := range h20 {
			h20[i] = byte(i*29 + ni*7 + 3)
		}
		for i := range h32 {
			h32[i] = byte(i*53 + ni*11 + 9)
		}
		for _, x := range []struct {
			v byte
			p []byte
		}{{0, h20}, {0, h32}, {1, h32}, {1, p2aProgram}} {
			s, ok := refaddr.SegwitEncode(nets[n].R.HRP, x.v, x.p)
			if !ok {
				panic("mixedcase seed")
			}
			seeds = append(seeds, caseSeed{s, true, n})
		}
	}
	// deterministic top-up until every charset letter occurs in some data part
	var need []byte
	for i := 0; i < len(refaddr.Bech32Charset); i++ {
		if isLower(refaddr.Bech32Charset[i]) {
			need = append(need, refaddr.Bech32Charset[i])
		}
	}
	for ctr := 0; ctr < 4096; ctr++ {
		have := letters(seeds)
		missing := false
		for _, c := range need {
			if !have[c] {
				missing = true
			}
		}
		if !missing {
			break
		}
		h := make([]byte, 20)
		h[0], h[1] = byte(ctr>>8), byte(ctr)
		s, _ := refaddr.SegwitEncode("bc", 0, h)
		for _, c := range need {
			if !have[c] && strings.IndexByte(s[3:], c) >= 0 {
				seeds = append(seeds, caseSeed{s, true, netIndex("mainnet")})
				break
			}
		}
	}
	have := letters(seeds)
	for _, c := range need {
		if !have[c] {
			panic(fmt.Sprintf("mixedcase: address seeds do not contain charset letter %q", c))
		}
	}
	// raw bech32 / bech32m strings: data = every 5-bit value (every charset symbol),
	// HRPs with every letter and the neighbours of the case ranges
	all32 := make([]byte, 32)
	for i := range all32 {
		all32[i] = byte(i)
	}
	for _, hrp := range []string{"a", "z", "az", "a`z{", "@[", "`{", "z@a[", "abcdefghijklmnopqrstuvwxyz", "bc", "tb"} {
		for _, sp := range []refaddr.Spec{refaddr.SpecBech32, refaddr.SpecBech32m} {
			s, _ := refaddr.Bech32Encode(hrp, all32, sp)
			seeds = append(seeds, caseSeed{s: s})
			s2, _ := refaddr.Bech32Encode(hrp, nil, sp) // checksum only
			seeds = append(seeds, caseSeed{s: s2})
		}
	}
	return seeds
}

func genMixedCase(thorough bool, bounds map[string]interface{}, cs *sink) {
	seeds := mixedCaseSeeds()
	nMixed, nPure := 0, 0
	lettersSeen := map[byte]bool{}
	emit := func(sd caseSeed, s string, wantOK bool) {
		// harness self-check: the reference must already give the intended verdict
		_, _, _, err := refaddr.Bech32Decode(s, 0)
		if wantOK != (err == nil) || (!wantOK && err != refaddr.ErrBechMixed) {
			r.Broken("mixed-case generator: reference verdict for %q is %v, intended accept=%v", s, err, wantOK)
		}
		cs.add(Case{K: "b32d", S: s})
		if sd.addr {
			cs.add(Case{K: "dec", S: s, N: sd.n})
		}
		if wantOK {
			nPure++
		} else {
			nMixed++
		}
	}
	short := -1
	for i, sd := range seeds {
		if sd.addr && (short < 0 || len(sd.s) < len(seeds[short].s)) {
			short = i
		}
	}
	for si, sd := range seeds {
		lower, upper := sd.s, strings.ToUpper(sd.s)
		emit(sd, lower, true)
		emit(sd, upper, true)
		var pos []int
		for i := 0; i < len(lower); i++ {
			if isLower(lower[i]) {
				pos = append(pos, i)
				lettersSeen[lower[i]] = true
			}
		}
		if len(pos) < 2 {
			continue // a single letter has no mixed form
		}
		for _, i := range pos {
			emit(sd, flipAt(lower, i), false)
			emit(sd, flipAt(upper, i), false)
		}
		if si == short || thorough {
			for a := 0; a < len(pos); a++ {
				for b := a + 1; b < len(pos); b++ {
					if len(pos) == 2 {
						continue // flipping both letters gives the other pure form
					}
					emit(sd, flipAt(lower, pos[a], pos[b]), false)
					emit(sd, flipAt(upper, pos[a], pos[b]), false)
				}
			}
		}
	}
	var ls []string
	for c := range lettersSeen {
		ls = append(ls, string(c))
	}
	sort.Strings(ls)
	if len(ls) != 26 {
		r.Broken("mixed-case generator: only letters %v occur", ls)
	}
	bounds["mixed_case"] = fmt.Sprintf("%d valid strings (P2WPKH, P2WSH, P2TR, P2A on bc/tb/bcrt/sb + top-up addresses so that every charset letter occurs in a data part; bech32.Encode/EncodeM-style strings with data 0..31 and with empty data for HRPs a, z, az, a`z{, @[, `{, z@a[, a..z, bc, tb); letters occurring: %s; for each: all-lower and all-UPPER accepted with equal data, the case of every single letter position flipped in both forms (%d mixed strings incl. every pair of positions for the shortest address %q; thorough: pairs for all) must be rejected by Decode/DecodeGeneric/DecodeNoLimit(WithVersion) and DecodeAddress/decodeSegWitAddress; %d pure forms", len(seeds), strings.Join(ls, ""), nMixed, seeds[short].s, nPure)
}
