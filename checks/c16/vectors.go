package main

// Binding of the reference model (verif/ref/refaddr) to the test vectors the
// repository ships.  Every mismatch is a broken oracle (exit 2), never a
// violation.

import (
	"bytes"
	"encoding/hex"
	"encoding/json"
	"fmt"
	"math/big"
	"os"
	"path/filepath"
	"regexp"
	"sort"
	"strconv"
	"strings"
	"sync"

	"verif/engine/ev"
	"verif/ref/refaddr"
)

func repoRoot() string {
	if v := os.Getenv("VERIF_REPO"); v != "" {
		return v
	}
	return "/repo"
}

func mustRead(r *ev.Run, rel string) string {
	b, err := os.ReadFile(filepath.Join(repoRoot(), rel))
	if err != nil {
		r.Broken("cannot read shipped vector file %s: %v", rel, err)
	}
	return string(b)
}

func between(r *ev.Run, s, from, to, what string) string {
	i := strings.Index(s, from)
	if i < 0 {
		r.Broken("vector file layout changed: marker %q not found (%s)", from, what)
	}
	s = s[i:]
	if to != "" {
		j := strings.Index(s, to)
		if j < 0 {
			r.Broken("vector file layout changed: marker %q not found (%s)", to, what)
		}
		s = s[:j]
	}
	return s
}

var reStrLit = regexp.MustCompile(`"(?:[^"\\]|\\.)*"`)

// goStr evaluates a Go expression made of interpreted string literals joined by +.
func goStr(expr string) (string, bool) {
	var sb strings.Builder
	lits := reStrLit.FindAllString(expr, -1)
	if len(lits) == 0 {
		return "", false
	}
	for _, l := range lits {
		u, err := strconv.Unquote(l)
		if err != nil {
			return "", false
		}
		sb.WriteString(u)
	}
	return sb.String(), true
}

// seeds harvested from the BIP32 vectors (used later by the enumeration).
var bip32VectorSeeds [][]byte

func bindVectors(r *ev.Run) map[string]int {
	n := map[string]int{}

	// ---- base58 (address/base58/base58_test.go, base58check_test.go)
	{
		src := mustRead(r, "address/base58/base58_test.go")
		rePair := regexp.MustCompile(`(?m)^\t\{("(?:[^"\\]|\\.)*"), ("(?:[^"\\]|\\.)*")\},`)
		for _, m := range rePair.FindAllStringSubmatch(between(r, src, "var stringTests", "var invalidStringTests", "base58 stringTests"), -1) {
			in, _ := goStr(m[1])
			out, _ := goStr(m[2])
			if got := refaddr.B58Encode([]byte(in)); got != out {
				r.Broken("refaddr.B58Encode(%q)=%q, shipped vector says %q", in, got, out)
			}
			if got, ok := refaddr.B58Decode(out); !ok || string(got) != in {
				r.Broken("refaddr.B58Decode(%q)=%x,%v shipped vector says %q", out, got, ok, in)
			}
			n["base58_string"]++
		}
		for _, m := range rePair.FindAllStringSubmatch(between(r, src, "var invalidStringTests", "var hexTests", "base58 invalidStringTests"), -1) {
			in, _ := goStr(m[1])
			if got, ok := refaddr.B58Decode(in); ok {
				r.Broken("refaddr.B58Decode(%q) accepted (%x), shipped vector says invalid", in, got)
			}
			n["base58_invalid"]++
		}
		for _, m := range rePair.FindAllStringSubmatch(between(r, src, "var hexTests", "func TestBase58", "base58 hexTests"), -1) {
			in, _ := goStr(m[1])
			out, _ := goStr(m[2])
			b, err := hex.DecodeString(in)
			if err != nil {
				continue
			}
			if got := refaddr.B58Encode(b); got != out {
				r.Broken("refaddr.B58Encode(%x)=%q, shipped vector says %q", b, got, out)
			}
			if got, ok := refaddr.B58Decode(out); !ok || !bytes.Equal(got, b) {
				r.Broken("refaddr.B58Decode(%q)=%x,%v shipped vector says %x", out, got, ok, b)
			}
			n["base58_hex"]++
		}
		src = mustRead(r, "address/base58/base58check_test.go")
		reC := regexp.MustCompile(`(?m)^\t\{(\d+), ("(?:[^"\\]|\\.)*"), ("(?:[^"\\]|\\.)*")\},`)
		for _, m := range reC.FindAllStringSubmatch(between(r, src, "var checkEncodingStringTests", "func TestBase58Check", "base58check"), -1) {
			v, _ := strconv.Atoi(m[1])
			in, _ := goStr(m[2])
			out, _ := goStr(m[3])
			if got := refaddr.CheckEncode(byte(v), []byte(in)); got != out {
				r.Broken("refaddr.CheckEncode(%d,%q)=%q, shipped vector says %q", v, in, got, out)
			}
			gv, gp, err := refaddr.CheckDecode(out)
			if err != nil || gv != byte(v) || string(gp) != in {
				r.Broken("refaddr.CheckDecode(%q)=%d,%q,%v", out, gv, gp, err)
			}
			n["base58check"]++
		}
		if n["base58_string"] < 8 || n["base58_hex"] < 8 || n["base58_invalid"] < 8 || n["base58check"] < 8 {
			r.Broken("too few base58 vectors parsed: %v", n)
		}
	}

	// ---- bech32 / bech32m (address/bech32/bech32_test.go)
	{
		src := mustRead(r, "address/bech32/bech32_test.go")
		reT := regexp.MustCompile(`(?m)^\t\t\{((?:"(?:[^"\\]|\\.)*"(?:\s*\+\s*)?)+),\s*(nil|Err[^\n]*?)\},`)
		run := func(block string, spec refaddr.Spec, name string) {
			for _, m := range reT.FindAllStringSubmatch(block, -1) {
				s, ok := goStr(m[1])
				if !ok {
					continue
				}
				wantOK := m[2] == "nil"
				_, _, gs, err := refaddr.Bech32Decode(s, 90)
				if (err == nil) != wantOK {
					r.Broken("refaddr.Bech32Decode(%q) err=%v, shipped vector (%s) says %s", s, err, name, m[2])
				}
				if wantOK && gs != spec {
					r.Broken("refaddr.Bech32Decode(%q) spec=%v, shipped vector list %s expects %v", s, gs, name, spec)
				}
				n[name]++
			}
		}
		run(between(r, src, "func TestBech32(", "func TestBech32M(", "TestBech32"), refaddr.SpecBech32, "bip173_bech32")
		run(between(r, src, "func TestBech32M(", "func TestBech32DecodeGeneric(", "TestBech32M"), refaddr.SpecBech32m, "bip350_bech32m")
		if n["bip173_bech32"] < 20 || n["bip350_bech32m"] < 20 {
			r.Broken("too few bech32 vectors parsed: %v", n)
		}
		reCv := regexp.MustCompile(`(?m)^\t\t\{"([0-9a-f]*)", "([0-9a-f]*)", (\d+), (\d+), (true|false)\},`)
		for _, m := range reCv.FindAllStringSubmatch(between(r, src, "func TestConvertBits(", "func TestConvertBitsFailures(", "TestConvertBits"), -1) {
			in, _ := hex.DecodeString(m[1])
			out, _ := hex.DecodeString(m[2])
			f, _ := strconv.Atoi(m[3])
			t, _ := strconv.Atoi(m[4])
			got, ok := refaddr.ConvertBits(in, uint(f), uint(t), m[5] == "true")
			if !ok || !bytes.Equal(got, out) {
				r.Broken("refaddr.ConvertBits(%x,%d,%d,%s)=%x,%v shipped vector says %x", in, f, t, m[5], got, ok, out)
			}
			n["convertbits"]++
		}
		reCf := regexp.MustCompile(`(?m)^\t\t\{"([0-9a-f]*)", (\d+), (\d+), (true|false), ErrInvalidIncompleteGroup\{\}\},`)
		for _, m := range reCf.FindAllStringSubmatch(between(r, src, "func TestConvertBitsFailures(", "", "TestConvertBitsFailures"), -1) {
			in, _ := hex.DecodeString(m[1])
			f, _ := strconv.Atoi(m[2])
			t, _ := strconv.Atoi(m[3])
			if got, ok := refaddr.ConvertBits(in, uint(f), uint(t), m[4] == "true"); ok {
				r.Broken("refaddr.ConvertBits(%x,%d,%d,%s) accepted (%x), shipped vector says incomplete group", in, f, t, m[4], got)
			}
			n["convertbits_fail"]++
		}
		if n["convertbits"] < 15 || n["convertbits_fail"] < 2 {
			r.Broken("too few ConvertBits vectors parsed: %v", n)
		}
	}

	// ---- BIP173/BIP350 segwit address vectors (address/bip350_diff_test.go)
	{
		src := mustRead(r, "address/bip350_diff_test.go")
		for _, l := range reStrLit.FindAllString(between(r, src, "valid := []string{", "for _, addr := range valid", "bip350 valid"), -1) {
			s, _ := goStr(l)
			if _, _, _, err := refaddr.SegwitDecodeAny(s); err != nil {
				r.Broken("refaddr.SegwitDecodeAny(%q) rejected (%v); shipped BIP350 vector says valid", s, err)
			}
			n["bip350_addr_valid"]++
		}
		reInv := regexp.MustCompile(`\{"[^"]*",\s*("(?:[^"\\]|\\.)*")\}`)
		for _, m := range reInv.FindAllStringSubmatch(between(r, src, "invalid := []struct", "for _, tc := range invalid", "bip350 invalid"), -1) {
			s, _ := goStr(m[1])
			if _, v, p, err := refaddr.SegwitDecodeAny(s); err == nil {
				r.Broken("refaddr.SegwitDecodeAny(%q) accepted (v%d %x); shipped BIP350 vector says invalid", s, v, p)
			}
			n["bip350_addr_invalid"]++
		}
		if n["bip350_addr_valid"] < 5 || n["bip350_addr_invalid"] < 6 {
			r.Broken("too few BIP350 address vectors parsed: %v", n)
		}
	}

	// ---- address_test.go: (addr, encoded, valid: true) triples
	{
		src := mustRead(r, "address/address_test.go")
		re := regexp.MustCompile(`addr:\s+("(?:[^"\\]|\\.)*"),\s*\n\s*encoded:\s+("(?:[^"\\]|\\.)*"),\s*\n\s*valid:\s+true`)
		for _, m := range re.FindAllStringSubmatch(src, -1) {
			a, _ := goStr(m[1])
			e, _ := goStr(m[2])
			switch {
			case len(a) == 66 || len(a) == 130: // hex pubkey -> p2pkh of the serialized key
				pk, err := hex.DecodeString(a)
				if err != nil {
					r.Broken("address_test vector %q: not hex", a)
				}
				if _, err := refaddr.ParsePub(pk); err != nil {
					r.Broken("refaddr.ParsePub(%s) rejected: %v; shipped vector says valid", a, err)
				}
				_, p, err := refaddr.CheckDecode(e)
				if err != nil || !bytes.Equal(p, refaddr.Hash160(pk)) {
					r.Broken("refaddr: p2pk vector %s -> %s: hash160 mismatch (%x, %v)", a, e, p, err)
				}
				n["addr_p2pk"]++
			case isSegwitLooking(a):
				hrp, v, p, err := refaddr.SegwitDecodeAny(a)
				if err != nil {
					r.Broken("refaddr.SegwitDecodeAny(%q) rejected (%v); shipped vector says valid", a, err)
				}
				got, ok := refaddr.SegwitEncode(hrp, v, p)
				if !ok || got != e {
					r.Broken("refaddr.SegwitEncode(%s,%d,%x)=%q shipped vector says %q", hrp, v, p, got, e)
				}
				n["addr_segwit"]++
			default:
				v, p, err := refaddr.CheckDecode(a)
				if err != nil || len(p) != 20 {
					r.Broken("refaddr.CheckDecode(%q)=%d,%x,%v; shipped vector says valid 20-byte address", a, v, p, err)
				}
				if got := refaddr.CheckEncode(v, p); got != e {
					r.Broken("refaddr.CheckEncode(%d,%x)=%q shipped vector says %q", v, p, got, e)
				}
				n["addr_base58"]++
			}
		}
		if n["addr_base58"] < 6 || n["addr_segwit"] < 5 || n["addr_p2pk"] < 2 {
			r.Broken("too few address_test vectors parsed: %v", n)
		}
	}

	// ---- WIF (btcutil/wif_test.go)
	{
		src := mustRead(r, "btcutil/wif_test.go")
		blk := between(r, src, "validEncodeCases := ", "invalidDecodeCases := ", "wif vectors")
		re := regexp.MustCompile(`(?s)privateKey: \[\]byte\{(.*?)\},\s*net:\s*&chaincfg\.(\w+),\s*compress:\s*(true|false),\s*wif:\s*"(\w+)",\s*publicKey: \[\]byte\{(.*?)\},`)
		reB := regexp.MustCompile(`0x([0-9a-fA-F]{2})`)
		byteList := func(s string) []byte {
			var out []byte
			for _, m := range reB.FindAllStringSubmatch(s, -1) {
				b, _ := hex.DecodeString(m[1])
				out = append(out, b...)
			}
			return out
		}
		ids := map[string]byte{"MainNetParams": 0x80, "TestNet3Params": 0xef}
		for _, m := range re.FindAllStringSubmatch(blk, -1) {
			key, pub := byteList(m[1]), byteList(m[5])
			id, ok := ids[m[2]]
			if !ok {
				continue
			}
			comp := m[3] == "true"
			k := new(big.Int).SetBytes(key)
			if got := refaddr.WIFEncode(id, k, comp); got != m[4] {
				r.Broken("refaddr.WIFEncode(%#x,%x,%v)=%s shipped vector says %s", id, key, comp, got, m[4])
			}
			gid, gk, gc, err := refaddr.WIFDecode(m[4])
			if err != nil || gid != id || gk.Cmp(k) != 0 || gc != comp {
				r.Broken("refaddr.WIFDecode(%s) = %#x %x %v %v", m[4], gid, gk, gc, err)
			}
			pt := refaddr.BaseMul(k)
			ser := pt.Uncompressed()
			if comp {
				ser = pt.Compressed()
			}
			if !bytes.Equal(ser, pub) {
				r.Broken("refaddr EC: pubkey of %x = %x, shipped WIF vector says %x", key, ser, pub)
			}
			n["wif"]++
		}
		if n["wif"] < 2 {
			r.Broken("too few WIF vectors parsed: %v", n)
		}
	}

	// ---- BIP32 (btcutil/hdkeychain/extendedkey_test.go: TestBIP0032Vectors)
	{
		src := mustRead(r, "btcutil/hdkeychain/extendedkey_test.go")
		blk := between(r, src, "func TestBIP0032Vectors(", "func TestPrivateDerivation(", "bip32 vectors")
		seeds := map[string]string{}
		for _, m := range regexp.MustCompile(`(\w+)\s*:=\s*"([0-9a-f]+)"`).FindAllStringSubmatch(blk, -1) {
			seeds[m[1]] = m[2]
		}
		names := make([]string, 0, len(seeds))
		for k := range seeds {
			names = append(names, k)
		}
		sort.Strings(names)
		for _, k := range names {
			b, _ := hex.DecodeString(seeds[k])
			bip32VectorSeeds = append(bip32VectorSeeds, b)
		}
		vers := map[string][2][4]byte{
			"MainNetParams":  {{0x04, 0x88, 0xad, 0xe4}, {0x04, 0x88, 0xb2, 0x1e}},
			"TestNet3Params": {{0x04, 0x35, 0x83, 0x94}, {0x04, 0x35, 0x87, 0xcf}},
		}
		re := regexp.MustCompile(`master:\s+(\w+),\s+path:\s+\[\]uint32\{([^}]*)\},\s+wantPub:\s+"(\w+)",\s+wantPriv:\s+"(\w+)",\s+net:\s+&chaincfg\.(\w+),`)
		type vec struct {
			seed      []byte
			path      []uint32
			pub, priv string
			ver       [2][4]byte
		}
		var vecs []vec
		for _, m := range re.FindAllStringSubmatch(blk, -1) {
			sh, ok := seeds[m[1]]
			ver, ok2 := vers[m[5]]
			if !ok || !ok2 {
				continue
			}
			seed, _ := hex.DecodeString(sh)
			var path []uint32
			bad := false
			for _, el := range strings.Split(m[2], ",") {
				el = strings.TrimSpace(el)
				if el == "" {
					continue
				}
				var v uint64
				for _, t := range strings.Split(el, "+") {
					t = strings.TrimSpace(t)
					if t == "hkStart" {
						v += 0x80000000
					} else if x, err := strconv.ParseUint(t, 10, 32); err == nil {
						v += x
					} else {
						bad = true
					}
				}
				path = append(path, uint32(v))
			}
			if bad {
				continue
			}
			vecs = append(vecs, vec{seed, path, m[3], m[4], ver})
		}
		if len(vecs) < 15 || len(bip32VectorSeeds) < 3 {
			r.Broken("too few BIP32 vectors parsed: %d vectors, %d seeds", len(vecs), len(bip32VectorSeeds))
		}
		var mu sync.Mutex
		var fail string
		ev.Par(len(vecs), workers, func(i int) {
			v := vecs[i]
			k, err := refaddr.Master(v.seed, v.ver[0])
			if err == nil {
				for _, idx := range v.path {
					if k, err = k.CKDpriv(idx); err != nil {
						break
					}
				}
			}
			msg := ""
			if err != nil {
				msg = fmt.Sprintf("refaddr BIP32 %x %v: %v", v.seed, v.path, err)
			} else if k.String() != v.priv || k.Neuter(v.ver[1]).String() != v.pub {
				msg = fmt.Sprintf("refaddr BIP32 %x %v: got %s / %s, shipped vector says %s / %s", v.seed, v.path, k.String(), k.Neuter(v.ver[1]).String(), v.priv, v.pub)
			} else {
				// public derivation of the last step must agree as well
				if len(v.path) > 0 && v.path[len(v.path)-1] < refaddr.Hardened {
					p, _ := refaddr.Master(v.seed, v.ver[0])
					for _, idx := range v.path[:len(v.path)-1] {
						p, _ = p.CKDpriv(idx)
					}
					c, err := p.Neuter(v.ver[1]).CKDpub(v.path[len(v.path)-1])
					if err != nil || c.String() != v.pub {
						msg = fmt.Sprintf("refaddr BIP32 CKDpub %x %v: %v", v.seed, v.path, err)
					}
				}
				rt, err := refaddr.ParseXKey(v.priv)
				if err != nil || rt.String() != v.priv {
					msg = fmt.Sprintf("refaddr.ParseXKey(%s): %v", v.priv, err)
				}
				rt, err = refaddr.ParseXKey(v.pub)
				if err != nil || rt.String() != v.pub {
					msg = fmt.Sprintf("refaddr.ParseXKey(%s): %v", v.pub, err)
				}
			}
			if msg != "" {
				mu.Lock()
				fail = msg
				mu.Unlock()
			}
		})
		if fail != "" {
			r.Broken("%s", fail)
		}
		n["bip32"] = len(vecs)

		// TestLeadingZero literal (hardened child of a key with a leading zero byte)
		lz := between(r, src, "func TestLeadingZero(", "", "TestLeadingZero")
		if m := regexp.MustCompile(`child1\.key\) != "([0-9a-f]{64})"`).FindStringSubmatch(lz); m != nil && strings.Contains(lz, "ii := 399") {
			seed := make([]byte, 32)
			seed[30], seed[31] = 399>>8, 399&0xff
			k, err := refaddr.Master(seed, vers["MainNetParams"][0])
			if err == nil {
				k, err = k.CKDpriv(refaddr.Hardened)
			}
			if err == nil && refaddr.Ser32(k.Priv)[0] != 0 {
				r.Broken("refaddr BIP32: seed #399 m/0' should have a leading zero byte, got %x", refaddr.Ser32(k.Priv))
			}
			if err == nil {
				k, err = k.CKDpriv(refaddr.Hardened)
			}
			if err != nil || hex.EncodeToString(refaddr.Ser32(k.Priv)) != m[1] {
				r.Broken("refaddr BIP32 leading-zero vector: got %v err %v, shipped says %s", k, err, m[1])
			}
			n["bip32_leading_zero"]++
		} else {
			r.Broken("TestLeadingZero literal not found")
		}
	}

	// ---- BIP86 key-path vectors (txscript/taproot_test.go): priv -> bc1p address
	{
		src := mustRead(r, "txscript/taproot_test.go")
		pk := between(r, src, "privateKeys = [][]byte{", "expectedAddresses = []string{", "bip86 keys")
		var keys []string
		for _, m := range regexp.MustCompile(`(?s)hexToBytes\((.*?)\)`).FindAllStringSubmatch(pk, -1) {
			s, ok := goStr(m[1])
			if ok && len(s) == 64 {
				keys = append(keys, s)
			}
		}
		ad := between(r, src, "expectedAddresses = []string{", "\n)", "bip86 addresses")
		var addrs []string
		for _, l := range reStrLit.FindAllString(ad, -1) {
			s, _ := goStr(l)
			if strings.HasPrefix(s, "bc1p") {
				addrs = append(addrs, s)
			}
		}
		if len(keys) < 4 || len(keys) != len(addrs) {
			r.Broken("BIP86 vectors not parsed: %d keys %d addresses", len(keys), len(addrs))
		}
		for i := range keys {
			k, _ := new(big.Int).SetString(keys[i], 16)
			p := refaddr.BaseMul(k)
			out, _, err := refaddr.TapTweak(p.XOnly(), nil)
			if err != nil {
				r.Broken("refaddr.TapTweak: %v", err)
			}
			got, ok := refaddr.SegwitEncode("bc", 1, out[:])
			if !ok || got != addrs[i] {
				r.Broken("refaddr BIP86: key %s -> %s, shipped vector says %s", keys[i], got, addrs[i])
			}
			n["bip86"]++
		}
	}

	// ---- BIP341 script-path spends accepted by Bitcoin Core (txscript/data/taproot-ref)
	{
		dir := filepath.Join(repoRoot(), "txscript/data/taproot-ref")
		ents, err := os.ReadDir(dir)
		if err != nil {
			r.Broken("cannot list %s: %v", dir, err)
		}
		var files []string
		for _, e := range ents {
			files = append(files, e.Name())
		}
		sort.Strings(files)
		step := 6
		if r.Thorough() {
			step = 1
		}
		var sel []string
		for i := 0; i < len(files); i += step {
			sel = append(sel, files[i])
		}
		var mu sync.Mutex
		var fail string
		cnt, maxDepth := 0, 0
		ev.Par(len(sel), workers, func(i int) {
			b, err := os.ReadFile(filepath.Join(dir, sel[i]))
			if err != nil {
				return
			}
			b = bytes.TrimSpace(b)
			b = bytes.TrimSuffix(b, []byte(","))
			var v struct {
				Prevouts []string `json:"prevouts"`
				Index    int      `json:"index"`
				Flags    string   `json:"flags"`
				Success  *struct {
					Witness []string `json:"witness"`
				} `json:"success"`
			}
			if json.Unmarshal(b, &v) != nil || v.Success == nil || v.Index >= len(v.Prevouts) {
				return
			}
			if !strings.Contains(","+v.Flags+",", ",TAPROOT,") {
				return
			}
			po, err := hex.DecodeString(v.Prevouts[v.Index])
			if err != nil || len(po) != 8+1+34 || po[8] != 34 || po[9] != 0x51 || po[10] != 0x20 {
				return
			}
			q := po[11:]
			var w [][]byte
			for _, h := range v.Success.Witness {
				x, _ := hex.DecodeString(h)
				w = append(w, x)
			}
			if len(w) >= 2 && len(w[len(w)-1]) > 0 && w[len(w)-1][0] == 0x50 {
				w = w[:len(w)-1] // annex
			}
			if len(w) < 2 {
				return // key path
			}
			script, control := w[len(w)-2], w[len(w)-1]
			if err := refaddr.VerifyScriptPath(q, script, control); err != nil {
				mu.Lock()
				fail = fmt.Sprintf("refaddr.VerifyScriptPath rejects (%v) a script-path spend Bitcoin Core accepts: taproot-ref/%s", err, sel[i])
				mu.Unlock()
				return
			}
			mu.Lock()
			cnt++
			if d := (len(control) - 33) / 32; d > maxDepth {
				maxDepth = d
			}
			mu.Unlock()
		})
		if fail != "" {
			r.Broken("%s", fail)
		}
		if cnt < 50 {
			r.Broken("too few taproot-ref script-path vectors bound: %d of %d files", cnt, len(sel))
		}
		n["bip341_scriptpath_core"] = cnt
		n["bip341_scriptpath_max_depth"] = maxDepth
	}
	return n
}

func isSegwitLooking(a string) bool {
	// address_test.go only uses bc / tb / ltc human readable parts
	l := strings.ToLower(a)
	return strings.HasPrefix(l, "bc1") || strings.HasPrefix(l, "tb1") || strings.HasPrefix(l, "ltc1")
}
