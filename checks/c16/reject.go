package main

import (
	"bytes"
	"fmt"
	"math/big"
	"strings"

	"verif/ref/refaddr"
)

// Rejection: every string at edit distance 1 from a set of valid strings
// (every substitution by every alphabet symbol at every position, every
// deletion, every insertion), every double substitution inside the checksum
// part, case flips.  The oracle is the reference decoder: btcd may accept a
// corrupted string only if the reference accepts it too, with the same result.

const bechSubst = refaddr.Bech32Charset + "1bio" + "QPZL" + " "
const b58Subst = refaddr.B58Alphabet + "0OIl" + " "

type seedStr struct {
	name string
	kind string // dec | wifd | xkd
	s    string
	n    int    // default network for dec
	alph string // substitution / insertion alphabet
	cks  string // alphabet for the distance-2 checksum substitutions
	d2   bool   // do distance 2 in the quick tier
}

func edit1(s, alph string) []string {
	var out []string
	for i := 0; i < len(s); i++ {
		out = append(out, s[:i]+s[i+1:]) // deletion
		for j := 0; j < len(alph); j++ {
			if alph[j] != s[i] {
				out = append(out, s[:i]+alph[j:j+1]+s[i+1:]) // substitution
			}
		}
	}
	for i := 0; i <= len(s); i++ {
		for j := 0; j < len(alph); j++ {
			out = append(out, s[:i]+alph[j:j+1]+s[i:]) // insertion
		}
	}
	return out
}

// edit2Tail: every pair of substitutions within the last `tail` characters.
func edit2Tail(s, alph string, tail int) []string {
	var out []string
	st := len(s) - tail
	for i := st; i < len(s); i++ {
		for j := i + 1; j < len(s); j++ {
			for a := 0; a < len(alph); a++ {
				if alph[a] == s[i] {
					continue
				}
				for b := 0; b < len(alph); b++ {
					if alph[b] == s[j] {
						continue
					}
					out = append(out, s[:i]+alph[a:a+1]+s[i+1:j]+alph[b:b+1]+s[j+1:])
				}
			}
		}
	}
	return out
}

func netIndex(name string) int {
	for i, n := range nets {
		if n.R.Name == name {
			return i
		}
	}
	panic("no net " + name)
}

func rejectSeeds() []seedStr {
	h20 := make([]byte, 20)
	for i := range h20 {
		h20[i] = byte(i*11 + 1)
	}
	h32 := make([]byte, 32)
	for i := range h32 {
		h32[i] = byte(0xf0 - i*5)
	}
	mainN, t3, reg, sim := netIndex("mainnet"), netIndex("testnet3"), netIndex("regtest"), netIndex("simnet")
	seg := func(n int, v byte, p []byte) string {
		s, ok := refaddr.SegwitEncode(nets[n].R.HRP, v, p)
		if !ok {
			panic("seed")
		}
		return s
	}
	// a P2WPKH address that ends in 'p' (BIP173's known insertion weakness: q's
	// may be inserted before a final p without invalidating the checksum)
	endsInP := ""
	for ctr := 0; ctr < 100000 && endsInP == ""; ctr++ {
		h := append([]byte{}, h20...)
		h[18], h[19] = byte(ctr>>8), byte(ctr)
		if s := seg(mainN, 0, h); strings.HasSuffix(s, "p") {
			endsInP = s
		}
	}
	k1 := new(big.Int).SetBytes(bytes.Repeat([]byte{0x11}, 32))
	xk, err := refaddr.Master(bytes.Repeat([]byte{0x5a}, 32), nets[mainN].R.HDPriv)
	if err != nil {
		panic(err)
	}
	xc, err := xk.CKDpriv(refaddr.Hardened + 44)
	if err != nil {
		panic(err)
	}
	up := strings.ToUpper
	bechUp := up(refaddr.Bech32Charset) + "1BIO" + "qpzl" + " "
	seeds := []seedStr{
		{"p2pkh-mainnet", "dec", refaddr.CheckEncode(nets[mainN].R.P2PKH, h20), mainN, b58Subst, refaddr.B58Alphabet, true},
		{"p2sh-mainnet", "dec", refaddr.CheckEncode(nets[mainN].R.P2SH, h20), mainN, b58Subst, refaddr.B58Alphabet, false},
		{"p2pkh-testnet3", "dec", refaddr.CheckEncode(nets[t3].R.P2PKH, make([]byte, 20)), t3, b58Subst, refaddr.B58Alphabet, false},
		{"p2sh-simnet", "dec", refaddr.CheckEncode(nets[sim].R.P2SH, h20), sim, b58Subst, refaddr.B58Alphabet, true},
		{"p2wpkh-bc", "dec", seg(mainN, 0, h20), mainN, bechSubst, refaddr.Bech32Charset, true},
		{"p2wsh-tb", "dec", seg(t3, 0, h32), t3, bechSubst, refaddr.Bech32Charset, true},
		{"p2tr-bcrt", "dec", seg(reg, 1, h32), reg, bechSubst, refaddr.Bech32Charset, true},
		{"p2tr-sb", "dec", seg(sim, 1, h32), sim, bechSubst, refaddr.Bech32Charset, false},
		{"p2a-bc", "dec", seg(mainN, 1, p2aProgram), mainN, bechSubst, refaddr.Bech32Charset, true},
		{"p2wpkh-BC-upper", "dec", up(seg(mainN, 0, h20)), mainN, bechUp, up(refaddr.Bech32Charset), true},
		{"p2wpkh-bc-ends-in-p", "dec", endsInP, mainN, bechSubst, refaddr.Bech32Charset, true},
		{"p2tr-bc-zero", "dec", seg(mainN, 1, make([]byte, 32)), mainN, bechSubst, refaddr.Bech32Charset, false},
		{"wif-mainnet-compressed", "wifd", refaddr.WIFEncode(nets[mainN].R.WIF, k1, true), 0, b58Subst, refaddr.B58Alphabet, true},
		{"wif-testnet-uncompressed", "wifd", refaddr.WIFEncode(nets[t3].R.WIF, k1, false), 0, b58Subst, refaddr.B58Alphabet, false},
		{"xprv", "xkd", xc.String(), 0, b58Subst, refaddr.B58Alphabet, false},
		{"xpub", "xkd", xc.Neuter(nets[mainN].R.HDPub).String(), 0, b58Subst, refaddr.B58Alphabet, false},
	}
	for _, s := range seeds {
		if s.s == "" {
			panic("empty seed " + s.name)
		}
	}
	return seeds
}

func genReject(thorough bool, bounds map[string]interface{}, cs *sink) {
	seeds := rejectSeeds()
	var names []string
	for _, sd := range seeds {
		names = append(names, sd.name+"="+sd.s)
		mk := func(s string) Case { return Case{K: sd.kind, S: s, N: sd.n} }
		cs.add(mk(sd.s))
		for _, m := range edit1(sd.s, sd.alph) {
			cs.add(mk(m))
			if thorough && sd.kind == "dec" { // thorough: also under every other default network
				for n := range nets {
					if n != sd.n {
						cs.add(Case{K: "dec", S: m, N: n})
					}
				}
			}
		}
		if sd.d2 || thorough {
			for _, m := range edit2Tail(sd.s, sd.cks, 6) {
				cs.add(mk(m))
			}
		}
		// case rules: every single-letter case flip (mixed case), whole-string case swap
		for i := 0; i < len(sd.s); i++ {
			ch := sd.s[i]
			var fl byte
			switch {
			case ch >= 'a' && ch <= 'z':
				fl = ch - 32
			case ch >= 'A' && ch <= 'Z':
				fl = ch + 32
			default:
				continue
			}
			cs.add(mk(sd.s[:i] + string(fl) + sd.s[i+1:]))
		}
		cs.add(mk(strings.ToUpper(sd.s)), mk(strings.ToLower(sd.s)))
		// BIP173 weakness: insert 1..4 q before a final p
		if strings.HasSuffix(sd.s, "p") {
			for k := 1; k <= 4; k++ {
				cs.add(mk(sd.s[:len(sd.s)-1] + strings.Repeat("q", k) + "p"))
			}
		}
	}
	bounds["rejection"] = fmt.Sprintf("%d valid strings %v; for each: every deletion, every substitution and insertion at every position over the alphabet (bech32: 32 charset symbols + '1bio' + 4 opposite-case letters + space; base58: 58 symbols + '0OIl' + space), every double substitution in the last 6 characters over the codec's own alphabet (quick: 9 of the strings; thorough: all, and distance-1 strings also decoded under every other default network), every single-letter case flip, whole-string upper/lower, q-insertion before a final p", len(seeds), names)
}
