package main

import (
	"bytes"
	"encoding/hex"
	"fmt"
	"strings"

	"github.com/btcsuite/btcd/address/v2/base58"
	"github.com/btcsuite/btcd/address/v2/bech32"

	"verif/ref/refaddr"
)

func specOfVersion(v bech32.Version) refaddr.Spec {
	switch v {
	case bech32.Version0:
		return refaddr.SpecBech32
	case bech32.VersionM:
		return refaddr.SpecBech32m
	}
	return refaddr.SpecNone
}

// ---- base58 ---------------------------------------------------------------

func runB58(c Case) res {
	b := unhex(c.H)
	want := refaddr.B58Encode(b)
	got := base58.Encode(b)
	if got != want {
		return fail("base58.Encode/"+short(c.H), "base58.Encode(%x)=%q want %q", b, got, want)
	}
	if back := base58.Decode(got); !bytes.Equal(back, b) {
		return fail("base58.Decode∘Encode/"+short(c.H), "base58.Decode(Encode(%x))=%x", b, back)
	}
	return res{deep: true}
}

func runB58D(c Case) res {
	want, ok := refaddr.B58Decode(c.S)
	got := base58.Decode(c.S)
	if ok {
		if !bytes.Equal(got, want) {
			return fail("base58.Decode/"+hex.EncodeToString([]byte(short(c.S))), "base58.Decode(%q)=%x want %x", c.S, got, want)
		}
		if re := base58.Encode(got); re != c.S {
			return fail("base58.Encode∘Decode/"+hex.EncodeToString([]byte(short(c.S))), "base58.Encode(Decode(%q))=%q", c.S, re)
		}
		return res{deep: true}
	}
	if len(got) != 0 {
		return fail("base58.Decode-invalid/"+hex.EncodeToString([]byte(short(c.S))), "base58.Decode(%q)=%x for a string with a non-alphabet character (want empty)", c.S, got)
	}
	return res{}
}

func runB58C(c Case) res {
	b := unhex(c.H)
	v := byte(c.A[0])
	want := refaddr.CheckEncode(v, b)
	got := base58.CheckEncode(b, v)
	if got != want {
		return fail("base58.CheckEncode/"+short(c.H), "CheckEncode(%x,%d)=%q want %q", b, v, got, want)
	}
	p, gv, err := base58.CheckDecode(got)
	if err != nil || gv != v || !bytes.Equal(p, b) {
		return fail("base58.CheckDecode∘CheckEncode/"+short(c.H), "CheckDecode(CheckEncode(%x,%d))=%x,%d,%v", b, v, p, gv, err)
	}
	return res{deep: true}
}

func runB58CD(c Case) res {
	wv, wp, werr := refaddr.CheckDecode(c.S)
	gp, gv, gerr := base58.CheckDecode(c.S)
	deep := werr == nil || werr == refaddr.ErrB58Checksum
	k := hex.EncodeToString([]byte(short(c.S)))
	if (werr == nil) != (gerr == nil) {
		return fail("base58.CheckDecode-accept/"+k, "CheckDecode(%q): btcd err=%v, reference err=%v", c.S, gerr, werr)
	}
	if werr == nil && (gv != wv || !bytes.Equal(gp, wp)) {
		return fail("base58.CheckDecode-value/"+k, "CheckDecode(%q)=%d,%x want %d,%x", c.S, gv, gp, wv, wp)
	}
	return res{deep: deep}
}

// ---- bech32 ---------------------------------------------------------------

func runB32E(c Case) res {
	data := unhex(c.H)
	spec := refaddr.Spec(c.A[0])
	lhrp := strings.ToLower(c.S)
	want, ok := refaddr.Bech32Encode(lhrp, data, spec)
	var got string
	var err error
	if spec == refaddr.SpecBech32 {
		got, err = bech32.Encode(c.S, data)
	} else {
		got, err = bech32.EncodeM(c.S, data)
	}
	k := c.S + "/" + short(c.H) + "/" + spec.String()
	if (err == nil) != ok {
		return fail("bech32.Encode-accept/"+k, "bech32 encode(%q,%x,%v): err=%v, reference ok=%v", c.S, data, spec, err, ok)
	}
	if !ok {
		return res{}
	}
	if got != want {
		return fail("bech32.Encode/"+k, "bech32 encode(%q,%x,%v)=%q want %q", c.S, data, spec, got, want)
	}
	for _, s := range []string{got, strings.ToUpper(got)} {
		if len(s) > 90 {
			continue
		}
		h, d, v, err := bech32.DecodeGeneric(s)
		if err != nil || h != lhrp || !bytes.Equal(d, data) || specOfVersion(v) != spec {
			return fail("bech32.DecodeGeneric∘Encode/"+k, "DecodeGeneric(%q)=%q,%x,%v,%v want %q,%x,%v", s, h, d, v, err, lhrp, data, spec)
		}
	}
	return res{deep: true}
}

func runB32D(c Case) res {
	k := hex.EncodeToString([]byte(short(c.S)))
	deep := false
	for _, lim := range []int{90, 0} {
		wh, wd, ws, werr := refaddr.Bech32Decode(c.S, lim)
		if werr == nil || werr == refaddr.ErrBechChecksum || werr == refaddr.ErrBechMixed {
			deep = true
		}
		var gh string
		var gd []byte
		var gv bech32.Version
		var gerr error
		if lim == 90 {
			gh, gd, gv, gerr = bech32.DecodeGeneric(c.S)
			h2, d2, err2 := bech32.Decode(c.S)
			if (err2 == nil) != (gerr == nil) || h2 != gh || !bytes.Equal(d2, gd) {
				return fail("bech32.Decode-vs-DecodeGeneric/"+k, "Decode(%q)=%q,%x,%v but DecodeGeneric=%q,%x,%v", c.S, h2, d2, err2, gh, gd, gerr)
			}
		} else {
			gh, gd, gv, gerr = bech32.DecodeNoLimitWithVersion(c.S)
			h2, d2, err2 := bech32.DecodeNoLimit(c.S)
			if (err2 == nil) != (gerr == nil) || h2 != gh || !bytes.Equal(d2, gd) {
				return fail("bech32.DecodeNoLimit-vs-WithVersion/"+k, "DecodeNoLimit(%q)=%q,%x,%v but WithVersion=%q,%x,%v", c.S, h2, d2, err2, gh, gd, gerr)
			}
		}
		if (werr == nil) != (gerr == nil) {
			return fail("bech32.Decode-accept/"+k, "bech32 decode(%q, limit %d): btcd err=%v, reference err=%v", c.S, lim, gerr, werr)
		}
		if werr == nil && (gh != wh || !bytes.Equal(gd, wd) || specOfVersion(gv) != ws) {
			return fail("bech32.Decode-value/"+k, "bech32 decode(%q)=%q,%x,%v want %q,%x,%v", c.S, gh, gd, gv, wh, wd, ws)
		}
	}
	return res{deep: deep}
}

func runB256(c Case) res {
	b := unhex(c.H)
	d5, _ := refaddr.ConvertBits(b, 8, 5, true)
	lhrp := strings.ToLower(c.S)
	want, _ := refaddr.Bech32Encode(lhrp, d5, refaddr.SpecBech32)
	got, err := bech32.EncodeFromBase256(c.S, b)
	k := c.S + "/" + short(c.H)
	if err != nil || got != want {
		return fail("bech32.EncodeFromBase256/"+k, "EncodeFromBase256(%q,%x)=%q,%v want %q", c.S, b, got, err, want)
	}
	if len(got) <= 90 {
		h, back, err := bech32.DecodeToBase256(got)
		if err != nil || h != lhrp || !bytes.Equal(back, b) {
			return fail("bech32.DecodeToBase256∘Encode/"+k, "DecodeToBase256(%q)=%q,%x,%v want %q,%x", got, h, back, err, lhrp, b)
		}
	}
	return res{deep: true}
}

func runCvt(c Case) res {
	d := unhex(c.H)
	from, to, pad := uint8(c.A[0]), uint8(c.A[1]), c.A[2] != 0
	want, ok := refaddr.ConvertBits(d, uint(from), uint(to), pad)
	got, err := bech32.ConvertBits(d, from, to, pad)
	k := fmt.Sprintf("%s/%d-%d/pad=%v", short(c.H), from, to, pad)
	if (err == nil) != ok {
		return fail("bech32.ConvertBits-accept/"+k, "ConvertBits(%x,%d,%d,%v): err=%v, reference ok=%v (%x)", d, from, to, pad, err, ok, want)
	}
	if ok && !bytes.Equal(got, want) {
		return fail("bech32.ConvertBits/"+k, "ConvertBits(%x,%d,%d,%v)=%x want %x", d, from, to, pad, got, want)
	}
	return res{deep: true}
}

// ---- generators -----------------------------------------------------------

func genCodec(thorough bool, bounds map[string]interface{}, cs *sink) {
	hx := hex.EncodeToString

	// all byte strings of length <= 2 (thorough: base58 <= 3 is 16.8M: no; keep 2)
	var small [][]byte
	small = append(small, []byte{})
	for a := 0; a < 256; a++ {
		small = append(small, []byte{byte(a)})
	}
	for a := 0; a < 256; a++ {
		for b := 0; b < 256; b++ {
			small = append(small, []byte{byte(a), byte(b)})
		}
	}
	// leading-zero runs of every length 0..40 followed by several tails
	var zeros [][]byte
	tails := [][]byte{{}, {1}, {0xff}, {0x39}, {0x3a}, {0, 1}, {1, 0}, {0xff, 0xff, 0xff, 0xff, 0xff, 0xff, 0xff, 0xff, 0xff}, bytes.Repeat([]byte{0xa5}, 25)}
	for k := 0; k <= 40; k++ {
		for _, t := range tails {
			zeros = append(zeros, append(make([]byte, k), t...))
		}
	}
	for _, b := range small {
		cs.add(Case{K: "b58", H: hx(b)})
	}
	for _, b := range zeros {
		cs.add(Case{K: "b58", H: hx(b)})
	}
	checkVersions := []int64{0, 5, 0x6f, 0x80, 0xff}
	for _, b := range small {
		if len(b) == 2 && !thorough && b[0] > 2 && b[0] < 0xfe && b[0] != 0x80 {
			continue // quick: all 1-byte payloads, 2-byte payloads with first byte in {0,1,2,0x80,0xfe,0xff}
		}
		for _, v := range checkVersions {
			cs.add(Case{K: "b58c", H: hx(b), A: []int64{v}})
		}
	}
	for _, b := range zeros {
		for _, v := range checkVersions {
			cs.add(Case{K: "b58c", H: hx(b), A: []int64{v}})
		}
	}
	// all strings of length <= 3 over the base58 alphabet plus the look-alikes and
	// some non-alphabet bytes (62+3 symbols): base58.Decode and CheckDecode
	syms := refaddr.B58Alphabet + "0OIl +\x00\x80\xff"
	var strs []string
	strs = append(strs, "")
	for i := 0; i < len(syms); i++ {
		strs = append(strs, syms[i:i+1])
		for j := 0; j < len(syms); j++ {
			strs = append(strs, syms[i:i+1]+syms[j:j+1])
			if thorough {
				for k := 0; k < len(syms); k++ {
					strs = append(strs, syms[i:i+1]+syms[j:j+1]+syms[k:k+1])
				}
			}
		}
	}
	for k := 1; k <= 45; k++ { // runs of '1' (leading zero bytes) alone and before a digit
		strs = append(strs, strings.Repeat("1", k), strings.Repeat("1", k)+"2", strings.Repeat("1", k)+"z", strings.Repeat("1", k)+"0")
	}
	for n := 9; n <= 12; n++ { // the 10-digit chunking boundary of base58.Decode
		strs = append(strs, strings.Repeat("z", n), strings.Repeat("2", n), "1"+strings.Repeat("z", n), strings.Repeat("z", n)+"l")
	}
	for _, s := range strs {
		cs.add(Case{K: "b58d", S: s}, Case{K: "b58cd", S: s})
	}
	bounds["base58"] = "Encode/Decode: every byte string of length<=2 (65793) + 0^k‖tail for k=0..40 × 9 tails; CheckEncode same payload sets × versions {0,5,0x6f,0x80,0xff} (quick: 2-byte payloads restricted to first byte in {0,1,2,0x80,0xfe,0xff}); Decode/CheckDecode: every string of length<=2 (thorough<=3) over 58 alphabet symbols+'0OIl +\\x00\\x80\\xff', runs 1^k (k<=45), 10-digit chunk boundary strings"

	// bech32: every 5-bit data vector of length <= 2 (and every illegal value in one
	// slot) × hrps × both checksum constants
	bh := []string{"a", "bc", "tb", "bcrt", "sb", "?", "A", "Bc", "an83characterlonghumanreadablepartthatcontainsthenumber1andtheexcludedcharactersbio"}
	var d5 [][]byte
	d5 = append(d5, []byte{})
	for a := 0; a < 32; a++ {
		d5 = append(d5, []byte{byte(a)})
		for b := 0; b < 32; b++ {
			d5 = append(d5, []byte{byte(a), byte(b)})
		}
	}
	for _, bad := range []byte{32, 33, 0x7f, 0x80, 0xff} {
		d5 = append(d5, []byte{bad}, []byte{0, bad}, []byte{bad, 0})
	}
	for k := 3; k <= 82; k++ { // longer vectors: total length crosses the 90 limit
		d5 = append(d5, make([]byte, k), bytes.Repeat([]byte{31}, k))
	}
	for _, h := range bh {
		for _, d := range d5 {
			for _, sp := range []int64{1, 2} {
				cs.add(Case{K: "b32e", S: h, H: hx(d), A: []int64{sp}})
			}
		}
	}
	for _, h := range []string{"bc", "TB", "x"} {
		for _, b := range small {
			if len(b) == 2 && !thorough && b[0]%16 != 0 && b[0] != 0xff {
				continue
			}
			cs.add(Case{K: "b256", S: h, H: hx(b)})
		}
	}
	// bech32 decoders: total length 88..92 for both specs (limit 90), short strings,
	// separator positions
	for _, sp := range []refaddr.Spec{refaddr.SpecBech32, refaddr.SpecBech32m} {
		for total := 86; total <= 93; total++ {
			for _, h := range []string{"bc", "a"} {
				n := total - len(h) - 7
				s, _ := refaddr.Bech32Encode(h, make([]byte, n), sp)
				cs.add(Case{K: "b32d", S: s}, Case{K: "b32d", S: strings.ToUpper(s)})
			}
		}
		for hl := 1; hl <= 84; hl++ { // every hrp length with empty data
			s, _ := refaddr.Bech32Encode(strings.Repeat("h", hl), nil, sp)
			cs.add(Case{K: "b32d", S: s})
		}
	}
	for _, s := range []string{"", "1", "a1", "a1qqqqq", "a1qqqqqq", "1qqqqqq", "11qqqqqq", "a1b2uel5l", "a12uel5l", "A12UEL5L", "a12UEL5L", "a1lqfn3a", "\x201qqqqqq", "a\x7f1qqqqqq", "é1qqqqqq", "a1qqqqq1", "a11qqqqq"} {
		cs.add(Case{K: "b32d", S: s})
	}
	bounds["bech32"] = "Encode/EncodeM: 9 hrps (incl. upper/mixed case, 83-char) × every 5-bit vector of length<=2 + every slot holding an illegal value {32,33,0x7f,0x80,0xff} + all-0/all-31 vectors of length 3..82; decoders: both constants × total length 86..93, every hrp length 1..84, fixed malformed strings; Base256 helpers on byte strings <=2"

	// ConvertBits: (from,to) in {5,8}^2 × pad × every input of length<=2 (8-bit) /
	// <=3 (5-bit) + patterned longer inputs
	for _, from := range []int{5, 8} {
		var ins [][]byte
		ins = append(ins, []byte{})
		lim := 1 << uint(from)
		for a := 0; a < lim; a++ {
			ins = append(ins, []byte{byte(a)})
			for b := 0; b < lim; b++ {
				ins = append(ins, []byte{byte(a), byte(b)})
				if from == 5 {
					for c3 := 0; c3 < lim; c3++ {
						ins = append(ins, []byte{byte(a), byte(b), byte(c3)})
					}
				}
			}
		}
		for n := 3; n <= 70; n++ {
			ins = append(ins, make([]byte, n), bytes.Repeat([]byte{byte(lim - 1)}, n))
			alt := make([]byte, n)
			for i := range alt {
				alt[i] = byte((i*7 + 3) % lim)
			}
			one := make([]byte, n)
			one[n-1] = 1
			ins = append(ins, alt, one)
		}
		for _, to := range []int{5, 8} {
			for _, pad := range []int64{0, 1} {
				for _, in := range ins {
					cs.add(Case{K: "cvt", H: hx(in), A: []int64{int64(from), int64(to), pad}})
				}
			}
		}
	}
	bounds["convertbits"] = "(from,to) in {5,8}^2 × pad in {false,true} × every input of length<=2 (8-bit values) / <=3 (5-bit values) + all-0, all-max, (7i+3) mod 2^from, trailing-1 inputs of length 3..70"
}

func init() {
	runners["b58"] = runB58
	runners["b58d"] = runB58D
	runners["b58c"] = runB58C
	runners["b58cd"] = runB58CD
	runners["b32e"] = runB32E
	runners["b32d"] = runB32D
	runners["b256"] = runB256
	runners["cvt"] = runCvt
}

func registerRunners() {} // runners are registered by init() of each file
