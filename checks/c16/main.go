// C16 — address / key / script-template encodings are bijective and
// network-separated.
//
// Bounded exhaustive enumeration of the real btcd codecs (address, base58,
// bech32, txscript templates, WIF, hdkeychain, taproot script trees) against
// the independent reference verif/ref/refaddr, which is first bound to every
// vector family the repository ships.
//
// Every case is a self-contained JSON-able Case value; a violation's replay
// object is that Case, `replay <file>` re-executes exactly it.
package main

import (
	"encoding/hex"
	"fmt"
	"runtime"
	"sort"
	"sync"
	"time"

	"github.com/btcsuite/btcd/chaincfg/v2"

	"verif/engine/ev"
	"verif/ref/refaddr"
)

var (
	r       *ev.Run
	workers = runtime.NumCPU()
)

type netT struct {
	P *chaincfg.Params
	R refaddr.Net
}

var (
	nets []netT
	hrps []string // registered segwit human readable parts
)

func initNets() {
	for _, p := range []*chaincfg.Params{
		&chaincfg.MainNetParams, &chaincfg.TestNet3Params, &chaincfg.TestNet4Params,
		&chaincfg.RegressionNetParams, &chaincfg.SimNetParams, &chaincfg.SigNetParams,
	} {
		nets = append(nets, netT{P: p, R: refaddr.Net{
			Name: p.Name, P2PKH: p.PubKeyHashAddrID, P2SH: p.ScriptHashAddrID, WIF: p.PrivateKeyID,
			HRP: p.Bech32HRPSegwit, HDPriv: p.HDPrivateKeyID, HDPub: p.HDPublicKeyID,
		}})
	}
	seen := map[string]bool{}
	for _, n := range nets {
		if !seen[n.R.HRP] && chaincfg.IsBech32SegwitPrefix(n.R.HRP+"1") {
			seen[n.R.HRP] = true
			hrps = append(hrps, n.R.HRP)
		}
	}
	sort.Strings(hrps)
}

// Case is one concrete, replayable test case.
type Case struct {
	K string  `json:"k"`           // kind
	S string  `json:"s,omitempty"` // string argument
	T string  `json:"t,omitempty"` // second string argument
	H string  `json:"h,omitempty"` // hex bytes argument
	N int     `json:"n,omitempty"` // network index
	A []int64 `json:"a,omitempty"` // integer arguments
}

type res struct {
	key, what string
	deep      bool // non-trivial by the rule in r.Rule
}

func fail(key, format string, a ...interface{}) res {
	return res{key: key, what: fmt.Sprintf(format, a...), deep: true}
}

func unhex(s string) []byte {
	b, err := hex.DecodeString(s)
	if err != nil {
		panic("bad hex in case: " + s)
	}
	return b
}

var runners = map[string]func(Case) res{}

func safeRun(c Case) (x res) {
	defer func() {
		if e := recover(); e != nil {
			x = res{key: fmt.Sprintf("panic/%s/%s%s%s/%d/%v", c.K, short(c.S), short(c.T), short(c.H), c.N, c.A), what: fmt.Sprintf("btcd (or harness) panicked: %v", e), deep: true}
		}
	}()
	f, ok := runners[c.K]
	if !ok {
		panic("unknown case kind " + c.K)
	}
	return f(c)
}

func short(s string) string {
	if len(s) > 80 {
		return s[:80] + "~"
	}
	return s
}

var (
	sampleMu   sync.Mutex
	sampleSeen = map[string]bool{}
)

func check(c Case) {
	r.Eval(1)
	r.Trace(1)
	x := safeRun(c)
	if x.deep {
		r.Nontrivial(fmt.Sprintf("%s|%s|%s|%s|%d|%v", c.K, c.S, c.T, c.H, c.N, c.A))
	}
	if x.key == "" {
		sampleMu.Lock()
		first := !sampleSeen[c.K] && x.deep
		if first {
			sampleSeen[c.K] = true
		}
		sampleMu.Unlock()
		if first {
			r.Sample(c)
		}
		return
	}
	for i := 0; i < 3; i++ {
		if y := safeRun(c); y.key != x.key {
			r.Broken("verdict of case %+v flips between runs: %q vs %q", c, x.key, y.key)
		}
	}
	ck := fmt.Sprintf("%06d|%s|%s|%s|%s|%d|%v", len(c.S)+len(c.H), c.K, c.S, c.T, c.H, c.N, c.A)
	violMu.Lock()
	if old, ok := viols[x.key]; !ok || ck < old.ck {
		viols[x.key] = violT{ck, x.what, c}
	}
	violMu.Unlock()
}

// violations are collected per key (the smallest failing case of each key is
// kept, so the report does not depend on goroutine scheduling) and handed to
// ev at the end.
type violT struct {
	ck, what string
	c        Case
}

var (
	violMu sync.Mutex
	viols  = map[string]violT{}
)

func flushViolations() {
	violMu.Lock()
	defer violMu.Unlock()
	keys := make([]string, 0, len(viols))
	for k := range viols {
		keys = append(keys, k)
	}
	sort.Strings(keys)
	for _, k := range keys {
		r.Violation(k, viols[k].what, viols[k].c)
	}
}

// sink receives generated cases and feeds them to the worker pool in batches
// (nothing is materialised: the case lists are large).
type sink struct {
	batch []Case
	size  int
	n     int64
	ch    chan []Case
}

func (s *sink) add(cs ...Case) {
	for _, c := range cs {
		s.batch = append(s.batch, c)
		s.n++
		if len(s.batch) >= s.size {
			s.ch <- s.batch
			s.batch = make([]Case, 0, s.size)
		}
	}
}

func runAll(name string, batch int, gen func(bool, map[string]interface{}, *sink), thorough bool, bounds map[string]interface{}) {
	t0 := time.Now()
	s := &sink{size: batch, ch: make(chan []Case, 4*workers), batch: make([]Case, 0, batch)}
	var wg sync.WaitGroup
	for w := 0; w < workers; w++ {
		wg.Add(1)
		go func() {
			defer wg.Done()
			for b := range s.ch {
				for _, c := range b {
					check(c)
				}
			}
		}()
	}
	gen(thorough, bounds, s)
	if len(s.batch) > 0 {
		s.ch <- s.batch
	}
	close(s.ch)
	wg.Wait()
	r.Add("cases_"+name, s.n)
	r.Set("seconds_"+name, float64(int(time.Since(t0).Seconds()*10))/10)
}

func main() {
	r = ev.Start("C16")
	initNets()
	registerRunners()
	r.Rule("One case = one concrete input (payload×network×type, string, byte string, key×flag, seed×path, tree shape×key×script pattern) executed on btcd and on refaddr. " +
		"Non-trivial = the case reaches the semantic layer of the codec: a valid encoding that is round-tripped, or an invalid one that passes the character/length screens and is decided by a checksum, version/constant pairing, program-length, network-id, key-range or merkle/parity rule. Distinct cases are counted by a hash set over the full case encoding.")
	r.Assume("SHA-256, SHA-512, RIPEMD-160 and HMAC from the Go standard library / x/crypto are correct (shared by btcd and the reference)")
	r.Assume("network constants (address ids, HRPs, HD version bytes, WIF ids) are read from chaincfg and treated as configuration; networks that share a prefix are expected to be indistinguishable by that prefix")
	r.Assume("refaddr is bound to the shipped vectors: base58 / base58check tables, BIP173 + BIP350 string vectors, ConvertBits vectors, BIP350 address vectors, address_test.go valid addresses, WIF vectors, BIP32 test vectors 1-3 (+ leading-zero literal), BIP86 key-path addresses, Bitcoin Core taproot-ref script-path spends")

	if r.ReplayPath != "" {
		var c Case
		r.LoadReplay(&c)
		check(c)
		flushViolations()
		r.Finish(false)
	}

	tb := time.Now()
	bound := bindVectors(r)
	r.Set("reference_bound_to_shipped_vectors", bound)
	r.Set("seconds_bind_vectors", float64(int(time.Since(tb).Seconds()*10))/10)

	thorough := r.Thorough()
	bounds := map[string]interface{}{}

	runAll("codec", 2048, genCodec, thorough, bounds)
	runAll("addr", 64, genAddr, thorough, bounds)
	runAll("segwit_matrix", 2048, genSegwitMatrix, thorough, bounds)
	runAll("reject", 2048, genReject, thorough, bounds)
	runAll("mixed_case", 256, genMixedCase, thorough, bounds)
	runAll("wif", 1, genWIF, thorough, bounds)
	runAll("bip32", 1, genBIP32, thorough, bounds)
	runAll("taproot", 1, genTaproot, thorough, bounds)

	r.Set("bounds", bounds)
	r.Set("networks", func() []string {
		var s []string
		for _, n := range nets {
			s = append(s, n.R.Name)
		}
		return s
	}())
	r.Set("registered_hrps", hrps)
	statsMu.Lock()
	r.Set("observed", stats)
	statsMu.Unlock()
	flushViolations()
	r.Finish(true)
}

// stats are observational counters (e.g. how many valid-per-BIP350 strings btcd
// declines because it has no address type for them).
var (
	statsMu sync.Mutex
	stats   = map[string]int{}
)

func stat(k string) {
	statsMu.Lock()
	stats[k]++
	statsMu.Unlock()
}
