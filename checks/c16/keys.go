package main

import (
	"bytes"
	"encoding/hex"
	"fmt"
	"math/big"
	"strings"
	"sync"

	"github.com/btcsuite/btcd/btcec/v2"
	"github.com/btcsuite/btcd/btcutil/v2"
	"github.com/btcsuite/btcd/btcutil/v2/hdkeychain"

	"verif/ref/refaddr"
)

// ---- WIF --------------------------------------------------------------------

func wifNetMatrix(k string, w *btcutil.WIF, id byte) res {
	for _, m := range nets {
		if got, want := w.IsForNet(m.P), id == m.R.WIF; got != want {
			return fail("WIF.IsForNet/"+k+"/"+m.R.Name, "WIF with id %#x: IsForNet(%s)=%v want %v", id, m.R.Name, got, want)
		}
	}
	return res{}
}

// runWIF: H = 32 key bytes (possibly outside [1,n-1]), N = network, A[0] = compressed.
func runWIF(c Case) res {
	key := unhex(c.H)
	net := nets[c.N]
	comp := c.A[0] != 0
	k := fmt.Sprintf("%s/%s/%v", net.R.Name, c.H, comp)
	kv := new(big.Int).SetBytes(key)
	inRange := kv.Sign() > 0 && kv.Cmp(refaddr.N) < 0
	if !inRange {
		// a string that carries an out-of-range key must not decode to a
		// different key (decode then encode must give the string back)
		p := append([]byte{}, key...)
		if comp {
			p = append(p, 1)
		}
		s := refaddr.CheckEncode(net.R.WIF, p)
		w, err := btcutil.DecodeWIF(s)
		if err == nil {
			if w.String() != s || !bytes.Equal(w.PrivKey.Serialize(), key) {
				return fail("DecodeWIF-out-of-range/"+k, "DecodeWIF(%s) (key %x outside [1,n-1]) succeeds with key %x, re-encodes to %s", s, key, w.PrivKey.Serialize(), w.String())
			}
			stat("wif_out_of_range_key_accepted_but_round_trips")
		}
		return res{deep: true}
	}
	priv, _ := btcec.PrivKeyFromBytes(key)
	w, err := btcutil.NewWIF(priv, net.P, comp)
	if err != nil {
		return fail("NewWIF/"+k, "NewWIF failed: %v", err)
	}
	want := refaddr.WIFEncode(net.R.WIF, kv, comp)
	s := w.String()
	if s != want {
		return fail("WIF.String/"+k, "WIF(%x,%s,%v).String()=%s want %s", key, net.R.Name, comp, s, want)
	}
	if x := wifNetMatrix(k, w, net.R.WIF); x.key != "" {
		return x
	}
	d, err := btcutil.DecodeWIF(s)
	if err != nil {
		return fail("DecodeWIF∘String/"+k, "DecodeWIF(%s) fails: %v", s, err)
	}
	if !bytes.Equal(d.PrivKey.Serialize(), key) || d.CompressPubKey != comp || d.String() != s {
		return fail("DecodeWIF∘String/"+k, "DecodeWIF(%s) = key %x compressed %v, re-encoded %s", s, d.PrivKey.Serialize(), d.CompressPubKey, d.String())
	}
	if x := wifNetMatrix(k+"/decoded", d, net.R.WIF); x.key != "" {
		return x
	}
	pt := refaddr.BaseMul(kv)
	ser := pt.Uncompressed()
	if comp {
		ser = pt.Compressed()
	}
	if got := d.SerializePubKey(); !bytes.Equal(got, ser) {
		return fail("WIF.SerializePubKey/"+k, "SerializePubKey()=%x want %x", got, ser)
	}
	return res{deep: true}
}

// runWIFD: S = arbitrary string through DecodeWIF vs the reference.
func runWIFD(c Case) res {
	k := short(c.S)
	if !isASCIIPrintable(c.S) {
		k = hex.EncodeToString([]byte(k))
	}
	wid, wk, wc, werr := refaddr.WIFDecode(c.S)
	w, gerr := btcutil.DecodeWIF(c.S)
	deep := werr == nil || werr == refaddr.ErrB58Checksum || werr == refaddr.ErrWIF
	if gerr != nil {
		if werr == nil {
			return fail("DecodeWIF-rejects-valid/"+k, "DecodeWIF(%q) fails (%v) but the string is a valid WIF (id %#x key %x compressed %v)", c.S, gerr, wid, wk, wc)
		}
		return res{deep: deep}
	}
	if werr != nil {
		if w.String() == c.S {
			stat("wif_out_of_range_key_accepted_but_round_trips")
			return res{deep: deep}
		}
		return fail("DecodeWIF-accepts-invalid/"+k, "DecodeWIF(%q) succeeds (key %x, re-encoded %s) but the reference rejects it: %v", c.S, w.PrivKey.Serialize(), w.String(), werr)
	}
	if !bytes.Equal(w.PrivKey.Serialize(), refaddr.Ser32(wk)) || w.CompressPubKey != wc || w.String() != c.S {
		return fail("DecodeWIF-value/"+k, "DecodeWIF(%q) = key %x compressed %v re-encoded %s; want key %x compressed %v", c.S, w.PrivKey.Serialize(), w.CompressPubKey, w.String(), wk, wc)
	}
	if x := wifNetMatrix(k, w, wid); x.key != "" {
		return x
	}
	return res{deep: true}
}

func genWIF(thorough bool, bounds map[string]interface{}, cs *sink) {
	keys := append([]*big.Int{}, testScalars...)
	keys = append(keys,
		new(big.Int).Lsh(big.NewInt(1), 255), // high bit only
		new(big.Int).Lsh(big.NewInt(1), 248), // 0x01 00..00
		big.NewInt(0xff),
		// outside the valid range
		big.NewInt(0), new(big.Int).Set(refaddr.N), new(big.Int).Add(refaddr.N, big.NewInt(1)),
		new(big.Int).Sub(new(big.Int).Lsh(big.NewInt(1), 256), big.NewInt(1)),
	)
	for n := range nets {
		for _, k := range keys {
			for _, comp := range []int64{0, 1} {
				cs.add(Case{K: "wif", H: hex.EncodeToString(refaddr.Ser32(k)), N: n, A: []int64{comp}})
			}
		}
	}
	// payload shape variants through DecodeWIF: wrong compression flag, wrong lengths
	k1 := refaddr.Ser32(testScalars[6])
	for _, id := range []byte{0x80, 0xef, 0x64, 0x00} {
		for _, p := range [][]byte{
			k1, append(append([]byte{}, k1...), 1), append(append([]byte{}, k1...), 0), append(append([]byte{}, k1...), 2),
			k1[:31], append(append([]byte{}, k1...), 1, 1), {}, k1[:1],
		} {
			cs.add(Case{K: "wifd", S: refaddr.CheckEncode(id, p)})
		}
	}
	bounds["wif"] = fmt.Sprintf("networks(6) × %d keys {1,2,3,n-1,n-2,n/2,3 hash-derived,2^255,2^248,0xff; out of range: 0,n,n+1,2^256-1} × compressed flag; payload shapes {32, 32‖01, 32‖00, 32‖02, 31, 32‖0101, 0, 1 bytes} × ids {80,ef,64,00}", len(keys))
}

// ---- BIP32 ------------------------------------------------------------------

var refCache sync.Map // string -> refNodeT

type refNodeT struct {
	k   *refaddr.XKey
	err error
}

// refNode is refaddr's derivation of seed/path, memoised (pure function).
func refNode(seed []byte, n int, path []int64) (*refaddr.XKey, error) {
	key := fmt.Sprintf("%x/%d/%v", seed, n, path)
	if v, ok := refCache.Load(key); ok {
		return v.(refNodeT).k, v.(refNodeT).err
	}
	var k *refaddr.XKey
	var err error
	if len(path) == 0 {
		k, err = refaddr.Master(seed, nets[n].R.HDPriv)
	} else {
		var p *refaddr.XKey
		p, err = refNode(seed, n, path[:len(path)-1])
		if err == nil {
			k, err = p.CKDpriv(uint32(path[len(path)-1]))
		}
	}
	refCache.Store(key, refNodeT{k, err})
	return k, err
}

func fpU32(f [4]byte) uint32 {
	return uint32(f[0])<<24 | uint32(f[1])<<16 | uint32(f[2])<<8 | uint32(f[3])
}

// compareXKey checks every observable field of a btcd extended key.
func compareXKey(k string, got *hdkeychain.ExtendedKey, want *refaddr.XKey, n int) res {
	if got.String() != want.String() {
		return fail("xkey.String/"+k, "extended key serialises to %s, BIP32 reference %s", got.String(), want.String())
	}
	if got.Depth() != want.Depth || got.ParentFingerprint() != fpU32(want.ParentFP) || got.ChildIndex() != want.Child ||
		!bytes.Equal(got.ChainCode(), want.Chain[:]) || got.IsPrivate() != (want.Priv != nil) || !bytes.Equal(got.Version(), want.Version[:]) {
		return fail("xkey.fields/"+k, "depth %d fp %08x child %d chain %x private %v version %x; want depth %d fp %x child %d chain %x private %v version %x",
			got.Depth(), got.ParentFingerprint(), got.ChildIndex(), got.ChainCode(), got.IsPrivate(), got.Version(),
			want.Depth, want.ParentFP, want.Child, want.Chain, want.Priv != nil, want.Version)
	}
	pub, err := got.ECPubKey()
	if err != nil || !bytes.Equal(pub.SerializeCompressed(), want.Pub.Compressed()) {
		return fail("xkey.ECPubKey/"+k, "ECPubKey()=%v,%v want %x", pub, err, want.Pub.Compressed())
	}
	priv, err := got.ECPrivKey()
	if want.Priv != nil {
		if err != nil || !bytes.Equal(priv.Serialize(), refaddr.Ser32(want.Priv)) {
			return fail("xkey.ECPrivKey/"+k, "ECPrivKey()=%v,%v want %x", priv, err, refaddr.Ser32(want.Priv))
		}
	} else if err != hdkeychain.ErrNotPrivExtKey {
		return fail("xkey.ECPrivKey-public/"+k, "ECPrivKey() on a public extended key: err=%v want ErrNotPrivExtKey", err)
	}
	for _, m := range nets {
		wantFor := want.Version == m.R.HDPriv || want.Version == m.R.HDPub
		if got.IsForNet(m.P) != wantFor {
			return fail("xkey.IsForNet/"+k+"/"+m.R.Name, "IsForNet(%s)=%v want %v (version %x)", m.R.Name, got.IsForNet(m.P), wantFor, want.Version)
		}
	}
	a, err := got.Address(nets[n].P)
	if err != nil || a.EncodeAddress() != refaddr.CheckEncode(nets[n].R.P2PKH, refaddr.Hash160(want.Pub.Compressed())) {
		return fail("xkey.Address/"+k, "Address(%s)=%v,%v", nets[n].R.Name, a, err)
	}
	// string round trip
	back, err := hdkeychain.NewKeyFromString(got.String())
	if err != nil || back.String() != got.String() || back.Depth() != got.Depth() || back.ChildIndex() != got.ChildIndex() ||
		back.ParentFingerprint() != got.ParentFingerprint() || back.IsPrivate() != got.IsPrivate() ||
		!bytes.Equal(back.ChainCode(), got.ChainCode()) || !bytes.Equal(back.Version(), got.Version()) {
		return fail("xkey.NewKeyFromString∘String/"+k, "NewKeyFromString(%s) = %v, %v", got.String(), back, err)
	}
	return res{}
}

// runBIP32: H = seed, N = network, A = path.  The last path element is the edge
// under test (the prefix is derived first and must succeed in both).
func runBIP32(c Case) res {
	seed := unhex(c.H)
	net := nets[c.N]
	k := fmt.Sprintf("%s/%s/%v", short(c.H), net.R.Name, c.A)
	m, err := hdkeychain.NewMaster(seed, net.P)
	rm, rerr := refNode(seed, c.N, nil)
	if (err == nil) != (rerr == nil) {
		return fail("NewMaster-accept/"+k, "NewMaster(%d-byte seed): btcd err=%v, reference err=%v", len(seed), err, rerr)
	}
	if err != nil {
		return res{deep: true}
	}
	if len(c.A) == 0 {
		if x := compareXKey(k, m, rm, c.N); x.key != "" {
			return x
		}
		pub, err := m.Neuter()
		if err != nil {
			return fail("Neuter/"+k, "Neuter failed: %v", err)
		}
		if x := compareXKey(k+"/neutered", pub, rm.Neuter(net.R.HDPub), c.N); x.key != "" {
			return x
		}
		return res{deep: true}
	}
	parent := m
	for _, i := range c.A[:len(c.A)-1] {
		if parent, err = parent.Derive(uint32(i)); err != nil {
			return fail("Derive-prefix/"+k, "Derive(%d) on the path prefix failed: %v", i, err)
		}
	}
	rparent, rerr := refNode(seed, c.N, c.A[:len(c.A)-1])
	if rerr != nil {
		return res{} // astronomically unlikely invalid child in the reference: nothing to compare
	}
	idx := uint32(c.A[len(c.A)-1])
	child, err := parent.Derive(idx)
	rchild, rerr := refNode(seed, c.N, c.A)
	if (err == nil) != (rerr == nil) {
		return fail("Derive-accept/"+k, "Derive(%d): btcd err=%v, reference err=%v", idx, err, rerr)
	}
	if err != nil {
		return res{deep: true}
	}
	if x := compareXKey(k+"/priv", child, rchild, c.N); x.key != "" {
		return x
	}
	// several children of one parent alive at once, one of them wiped with Zero:
	// the others, and children derived afterwards, are what the specification says
	{
		childStr := child.String()
		sib, serr := parent.Derive(idx ^ 1)
		sibStr := ""
		if serr == nil {
			sibStr = sib.String()
		}
		if tmp, terr := parent.Derive(idx); terr == nil {
			tmp.Zero()
		}
		if child.String() != childStr || (serr == nil && sib.String() != sibStr) {
			return fail("Derive-after-Zero-of-a-sibling/"+k, "after Zero() of another child of the same parent: child %d reads %s (was %s), child %d reads %s (was %s)", idx, child.String(), childStr, idx^1, sib.String(), sibStr)
		}
		// SetNet on the parent affects keys derived afterwards, not the ones that
		// exist already, and not the network parameters it was created from
		// (everything here is built on private copies of the parameters)
		{
			pA, pB := *net.P, *nets[(c.N+1)%len(nets)].P
			ownID, otherID := pA.HDPrivateKeyID, pB.HDPrivateKeyID
			if p2, perr := hdkeychain.NewMaster(seed, &pA); perr == nil {
				ok := true
				for _, i := range c.A[:len(c.A)-1] {
					if p2, perr = p2.Derive(uint32(i)); perr != nil {
						ok = false
						break
					}
				}
				if c2, cerr := p2.Derive(idx); ok && cerr == nil {
					before := c2.String()
					p2.SetNet(&pB)
					if c2.String() != before || pA.HDPrivateKeyID != ownID || pB.HDPrivateKeyID != otherID {
						return fail("SetNet-of-parent-changes-other-objects/"+k, "after parent.SetNet(another network): the child derived before reads %s (was %s), parameter ids %x/%x (were %x/%x)", c2.String(), before, pA.HDPrivateKeyID, pB.HDPrivateKeyID, ownID, otherID)
					}
				}
			}
		}
		if again, aerr := parent.Derive(idx); aerr != nil || again.String() != childStr {
			return fail("Derive-after-Zero-of-a-sibling/"+k, "Derive(%d) after an earlier child of the same parent was wiped with Zero() = %v (err %v), before: %s", idx, again, aerr, childStr)
		}
	}
	pubChild, err := child.Neuter()
	if err != nil {
		return fail("Neuter/"+k, "Neuter failed: %v", err)
	}
	rpubChild := rchild.Neuter(net.R.HDPub)
	if x := compareXKey(k+"/pub", pubChild, rpubChild, c.N); x.key != "" {
		return x
	}
	pubParent, err := parent.Neuter()
	if err != nil {
		return fail("Neuter/"+k, "Neuter(parent) failed: %v", err)
	}
	viaPub, err := pubParent.Derive(idx)
	if idx >= refaddr.Hardened {
		if err != hdkeychain.ErrDeriveHardFromPublic {
			return fail("Derive-hardened-from-public/"+k, "public.Derive(%d) (hardened) = %v, err=%v; want ErrDeriveHardFromPublic", idx, viaPub, err)
		}
		return res{deep: true}
	}
	if err != nil {
		return fail("Derive-public/"+k, "public.Derive(%d) failed: %v", idx, err)
	}
	rvia, rerr := rparent.Neuter(net.R.HDPub).CKDpub(idx)
	if rerr != nil {
		return res{deep: true}
	}
	if rvia.String() != rpubChild.String() {
		panic("reference: CKDpub∘N != N∘CKDpriv")
	}
	if x := compareXKey(k+"/via-public", viaPub, rvia, c.N); x.key != "" {
		return x
	}
	if viaPub.String() != pubChild.String() {
		return fail("Neuter∘Derive≠Derive∘Neuter/"+k, "Neuter(Derive(%d))=%s but Derive(Neuter)(%d)=%s", idx, pubChild.String(), idx, viaPub.String())
	}
	return res{deep: true}
}

// runXKD: S = arbitrary string through hdkeychain.NewKeyFromString vs reference.
func runXKD(c Case) res {
	k := short(c.S)
	if !isASCIIPrintable(c.S) {
		k = hex.EncodeToString([]byte(k))
	}
	want, werr := refaddr.ParseXKey(c.S)
	got, gerr := hdkeychain.NewKeyFromString(c.S)
	if (werr == nil) != (gerr == nil) {
		return fail("NewKeyFromString-accept/"+k, "NewKeyFromString(%q): btcd err=%v, reference err=%v", c.S, gerr, werr)
	}
	if werr != nil {
		b, ok := refaddr.B58Decode(c.S)
		return res{deep: ok && len(b) == 82}
	}
	if got.String() != c.S || got.String() != want.String() || got.Depth() != want.Depth || got.ChildIndex() != want.Child ||
		got.ParentFingerprint() != fpU32(want.ParentFP) || got.IsPrivate() != (want.Priv != nil) || !bytes.Equal(got.ChainCode(), want.Chain[:]) {
		return fail("NewKeyFromString-value/"+k, "NewKeyFromString(%q) re-encodes to %s (reference %s)", c.S, got.String(), want.String())
	}
	return res{deep: true}
}

var bip32Indices = []int64{0, 1, 1<<31 - 1, 1 << 31, 1<<31 + 1, 1<<32 - 1}

func fixedSeeds() [][]byte {
	s399 := make([]byte, 32)
	s399[30], s399[31] = 399>>8, 399&0xff // m/0' has a private key with a leading zero byte (TestLeadingZero)
	s64 := make([]byte, 64)
	for i := range s64 {
		s64[i] = byte(i*7 + 1)
	}
	return [][]byte{s399, bytes.Repeat([]byte{0xff}, 16), s64}
}

func genBIP32(thorough bool, bounds map[string]interface{}, cs *sink) {
	hx := hex.EncodeToString
	seeds := append([][]byte{}, bip32VectorSeeds...)
	seeds = append(seeds, fixedSeeds()...)
	maxDepth := 3
	if thorough {
		maxDepth = 4
	}
	for si, seed := range seeds {
		n := si % len(nets)
		cs.add(Case{K: "bip32", H: hx(seed), N: n})
		var rec func(path []int64)
		rec = func(path []int64) {
			if len(path) == maxDepth {
				return
			}
			for _, i := range bip32Indices {
				p := append(append([]int64{}, path...), i)
				cs.add(Case{K: "bip32", H: hx(seed), N: n, A: p})
				rec(p)
			}
		}
		rec(nil)
	}
	// every network: master + depth 1 for the first vector seed
	for n := range nets {
		cs.add(Case{K: "bip32", H: hx(seeds[0]), N: n})
		for _, i := range bip32Indices {
			cs.add(Case{K: "bip32", H: hx(seeds[0]), N: n, A: []int64{i}})
		}
	}
	// seed length bounds 15/16/64/65 and more
	for _, l := range []int{0, 1, 15, 16, 17, 31, 32, 33, 63, 64, 65, 128} {
		s := make([]byte, l)
		for i := range s {
			s[i] = byte(l + i)
		}
		cs.add(Case{K: "bip32", H: hx(s), N: 0})
	}
	// serialized extended keys with a VALID checksum but boundary / illegal fields
	{
		base, _ := refaddr.Master(seeds[0], nets[0].R.HDPriv)
		pubBase := base.Neuter(nets[0].R.HDPub)
		ser := func(k *refaddr.XKey, keydata []byte, depth byte) string {
			b := k.Serialize78()
			b[4] = depth
			if keydata != nil {
				copy(b[45:], keydata)
			}
			c := refaddr.DSHA256(b)
			return refaddr.B58Encode(append(b, c[:4]...))
		}
		nm1 := new(big.Int).Sub(refaddr.N, big.NewInt(1))
		pt := refaddr.BaseMul(big.NewInt(3))
		for _, kd := range [][]byte{
			nil,
			append([]byte{0}, refaddr.Ser32(big.NewInt(0))...),   // private key 0
			append([]byte{0}, refaddr.Ser32(big.NewInt(1))...),   // 1
			append([]byte{0}, refaddr.Ser32(nm1)...),             // n-1
			append([]byte{0}, refaddr.Ser32(refaddr.N)...),       // n
			append([]byte{0}, bytes.Repeat([]byte{0xff}, 32)...), // 2^256-1
			append([]byte{1}, refaddr.Ser32(big.NewInt(1))...),   // illegal prefix 01
			pt.Compressed(), // valid point
			append([]byte{2}, refaddr.Ser32(big.NewInt(5))...),             // x not on the curve
			append([]byte{3}, refaddr.Ser32(refaddr.P)...),                 // x = p
			append([]byte{4}, pt.Compressed()[1:]...),                      // illegal prefix 04
			append([]byte{5}, pt.Compressed()[1:]...),                      // illegal prefix 05
			append([]byte{pt.Compressed()[0] ^ 1}, pt.Compressed()[1:]...), // the other parity (valid)
		} {
			for _, depth := range []byte{0, 1, 255} {
				cs.add(Case{K: "xkd", S: ser(base, kd, depth)}, Case{K: "xkd", S: ser(pubBase, kd, depth)})
			}
		}
		// length 81 / 83 byte payloads with valid checksums, empty string
		b := base.Serialize78()
		for _, bb := range [][]byte{b[:77], append(append([]byte{}, b...), 0), {}} {
			c := refaddr.DSHA256(bb)
			cs.add(Case{K: "xkd", S: refaddr.B58Encode(append(append([]byte{}, bb...), c[:4]...))})
		}
		cs.add(Case{K: "xkd", S: ""})
	}
	// a deterministic search (reference only) for parents whose private key has leading
	// zero byte(s): hardened children of such parents exercise the padding of ser256(k).
	lz := 0
	root, _ := refaddr.Master(seeds[0], nets[0].R.HDPriv)
	for i := int64(1 << 31); lz < 3 && i < 1<<31+4000; i++ {
		ch, err := hardenedChildNoEC(root, uint32(i))
		if err == nil && ch[0] == 0 {
			lz++
			for _, j := range bip32Indices {
				cs.add(Case{K: "bip32", H: hx(seeds[0]), N: 0, A: []int64{i, j}})
			}
		}
	}
	bounds["bip32"] = fmt.Sprintf("%d seeds (BIP32 vector seeds of 16/64/64 bytes + seed#399 (leading-zero child), 16×ff, 64-byte ramp) × every path of depth<=%d over indices {0,1,2^31-1,2^31,2^31+1,2^32-1} (1+6+36+216[+1296] nodes per seed); every network × depth<=1; seed lengths {0,1,15,16,17,31,32,33,63,64,65,128}; %d hardened parents with a leading-zero private key found by deterministic search × 6 indices. Per node: Derive vs CKDpriv (string, depth, fingerprint, child number, chain code, keys, version, IsForNet×6, Address, string round trip), Neuter, Derive∘Neuter vs Neuter∘Derive vs CKDpub (non-hardened), ErrDeriveHardFromPublic (hardened)", len(seeds), maxDepth, lz)
}

// hardenedChildNoEC computes ser256 of a hardened child's private key without
// any EC arithmetic (HMAC and addition mod n only).
func hardenedChildNoEC(k *refaddr.XKey, i uint32) ([]byte, error) {
	c, err := refChildPrivOnly(k, i)
	if err != nil {
		return nil, err
	}
	return refaddr.Ser32(c), nil
}

func refChildPrivOnly(k *refaddr.XKey, i uint32) (*big.Int, error) {
	if i < refaddr.Hardened {
		return nil, fmt.Errorf("not hardened")
	}
	data := append([]byte{0}, refaddr.Ser32(k.Priv)...)
	data = append(data, byte(i>>24), byte(i>>16), byte(i>>8), byte(i))
	I := refaddr.HMAC512(k.Chain[:], data)
	il := new(big.Int).SetBytes(I[:32])
	if il.Cmp(refaddr.N) >= 0 {
		return nil, refaddr.ErrBIP32Invalid
	}
	ki := il.Add(il, k.Priv)
	ki.Mod(ki, refaddr.N)
	if ki.Sign() == 0 {
		return nil, refaddr.ErrBIP32Invalid
	}
	return ki, nil
}

var _ = strings.ToUpper

func init() {
	runners["wif"] = runWIF
	runners["wifd"] = runWIFD
	runners["bip32"] = runBIP32
	runners["xkd"] = runXKD
}
