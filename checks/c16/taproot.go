package main

import (
	"bytes"
	"encoding/hex"
	"fmt"
	"math/big"

	"github.com/btcsuite/btcd/btcec/v2"
	"github.com/btcsuite/btcd/btcec/v2/schnorr"
	"github.com/btcsuite/btcd/txscript/v2"

	"verif/ref/refaddr"
)

// internal keys: points with even and odd y (btcd must treat them as x-only)
var tapKeyScalars = []*big.Int{big.NewInt(1), big.NewInt(2), big.NewInt(3), testScalars[3], testScalars[6], testScalars[7], testScalars[8]}

func tapInternalKey(i int) (*btcec.PublicKey, []byte) {
	pt := refaddr.BaseMul(tapKeyScalars[i%len(tapKeyScalars)])
	pk, err := btcec.ParsePubKey(pt.Compressed())
	if err != nil {
		panic(err)
	}
	return pk, pt.XOnly()
}

var leafSizes = [][]int{
	{1, 2, 34, 35, 75, 76, 252, 253, 254, 300, 520, 521, 1000, 3, 4, 5, 6, 7, 8, 9, 10, 11, 12, 13, 14, 15, 16, 17, 18, 19, 20, 21, 22, 23},
	{0, 253, 65535, 65536, 252, 1, 0xfc, 0xfd, 0xfe, 0xff, 0x100, 33, 34, 36, 37, 38, 39, 40, 41, 42, 43, 44, 45, 46, 47, 48, 49, 50, 51, 52, 53, 54, 55, 56},
}
var leafVersions = [][]byte{{0xc0}, {0xc0, 0xc2, 0xfe, 0x66}}

// tapLeafFor: deterministic, pairwise distinct leaves.
func tapLeafFor(i, pattern int) (byte, []byte) {
	sizes := leafSizes[pattern%len(leafSizes)]
	vers := leafVersions[pattern%len(leafVersions)]
	n := sizes[i%len(sizes)]
	s := make([]byte, n)
	for j := range s {
		s[j] = byte(i*37 + j*11 + pattern*101 + 0x51)
	}
	if n > 0 {
		s[0] = byte(0x51 + i) // distinct first byte
	}
	return vers[i%len(vers)], s
}

// toRef converts a btcd TapNode tree into a reference tree (structure and
// leaf contents only; all hashes are recomputed by the reference).
func toRef(n txscript.TapNode) *refaddr.Tree {
	if n.Left() == nil && n.Right() == nil {
		l, ok := n.(txscript.TapLeaf)
		if !ok {
			panic(fmt.Sprintf("leaf node of type %T", n))
		}
		return &refaddr.Tree{LeafVersion: byte(l.LeafVersion), Script: l.Script}
	}
	return &refaddr.Tree{L: toRef(n.Left()), R: toRef(n.Right())}
}

func flatPath(p [][32]byte) []byte {
	var b []byte
	for _, h := range p {
		b = append(b, h[:]...)
	}
	return b
}

// verifyProofs: common part of the two taproot case kinds.  proofs[i] is btcd's
// proof object for leaf i; rt the reference tree; leaves in input order.
func verifyProofs(k string, keyIdx int, root txscript.TapNode, rt *refaddr.Tree, proofs []txscript.TapscriptProof) res {
	internal, internalX := tapInternalKey(keyIdx)
	rootHash := root.TapHash()
	wantRoot := rt.Hash()
	if !bytes.Equal(rootHash[:], wantRoot[:]) {
		return fail("taproot-root/"+k, "tree root hash %x, BIP341 reference %x", rootHash[:], wantRoot[:])
	}
	outKey := txscript.ComputeTaprootOutputKey(internal, rootHash[:])
	outX := schnorr.SerializePubKey(outKey)
	wantX, wantOdd, err := refaddr.TapTweak(internalX, wantRoot[:])
	if err != nil {
		return res{} // tweak >= n: not reachable
	}
	gotOdd := outKey.SerializeCompressed()[0] == 3
	if !bytes.Equal(outX, wantX[:]) || gotOdd != wantOdd {
		return fail("taproot-output-key/"+k, "ComputeTaprootOutputKey = %x (odd=%v), BIP341 reference %x (odd=%v)", outX, gotOdd, wantX[:], wantOdd)
	}
	pkScript, err := txscript.PayToTaprootScript(outKey)
	if err != nil || !bytes.Equal(pkScript, refaddr.ScriptWitness(1, wantX[:])) {
		return fail("PayToTaprootScript/"+k, "PayToTaprootScript=%x,%v want %x", pkScript, err, refaddr.ScriptWitness(1, wantX[:]))
	}
	stat(fmt.Sprintf("taproot_output_key_odd=%v", wantOdd))
	rproofs := rt.Proofs()
	if len(rproofs) != len(proofs) {
		return fail("taproot-leaf-count/"+k, "tree has %d leaves, %d proofs", len(rproofs), len(proofs))
	}
	byLeaf := map[string]refaddr.LeafProof{}
	for _, p := range rproofs {
		byLeaf[string([]byte{p.Leaf.LeafVersion})+string(p.Leaf.Script)] = p
	}
	if len(byLeaf) != len(rproofs) {
		// the input leaves are pairwise distinct by construction, so a leaf that
		// occurs twice in the tree was duplicated (and another one lost) by btcd
		return fail("taproot-tree-leaf-set/"+k, "the assembled tree has %d leaf positions but only %d distinct leaves: an input leaf was duplicated / lost", len(rproofs), len(byLeaf))
	}
	type lp struct {
		script []byte
		cb     []byte
		parsed *txscript.ControlBlock
	}
	var all []lp
	for i, p := range proofs {
		rp, ok := byLeaf[string([]byte{byte(p.TapLeaf.LeafVersion)})+string(p.TapLeaf.Script)]
		if !ok {
			return fail(fmt.Sprintf("taproot-leaf-missing/%s/leaf%d", k, i), "leaf %d (version %#x, %d-byte script) of the input does not occur in the assembled tree", i, p.TapLeaf.LeafVersion, len(p.TapLeaf.Script))
		}
		if !bytes.Equal(p.InclusionProof, flatPath(rp.Path)) {
			return fail(fmt.Sprintf("taproot-inclusion-proof/%s/leaf%d", k, i), "leaf %d: inclusion proof %x, reference merkle path %x", i, p.InclusionProof, flatPath(rp.Path))
		}
		cb := p.ToControlBlock(internal)
		cbBytes, err := cb.ToBytes()
		wantCB := refaddr.ControlBlock(byte(p.TapLeaf.LeafVersion), wantOdd, internalX, rp.Path)
		if err != nil || !bytes.Equal(cbBytes, wantCB) {
			return fail(fmt.Sprintf("taproot-control-block/%s/leaf%d", k, i), "leaf %d: control block %x (err %v), BIP341 reference %x", i, cbBytes, err, wantCB)
		}
		if cb.OutputKeyYIsOdd != wantOdd {
			return fail(fmt.Sprintf("taproot-parity/%s/leaf%d", k, i), "leaf %d: OutputKeyYIsOdd=%v, output key y is odd=%v", i, cb.OutputKeyYIsOdd, wantOdd)
		}
		parsed, err := txscript.ParseControlBlock(cbBytes)
		if err != nil {
			return fail(fmt.Sprintf("ParseControlBlock/%s/leaf%d", k, i), "leaf %d: ParseControlBlock(%x): %v", i, cbBytes, err)
		}
		if err := txscript.VerifyTaprootLeafCommitment(parsed, outX, p.TapLeaf.Script); err != nil {
			return fail(fmt.Sprintf("taproot-verify/%s/leaf%d", k, i), "leaf %d: own control block does not verify under the output key: %v", i, err)
		}
		if err := txscript.VerifyTaprootLeafCommitment(&cb, outX, p.TapLeaf.Script); err != nil {
			return fail(fmt.Sprintf("taproot-verify-unparsed/%s/leaf%d", k, i), "leaf %d: ToControlBlock result does not verify: %v", i, err)
		}
		if err := refaddr.VerifyScriptPath(outX, p.TapLeaf.Script, cbBytes); err != nil {
			return fail(fmt.Sprintf("taproot-verify-ref/%s/leaf%d", k, i), "leaf %d: btcd's control block %x fails the BIP341 reference verification: %v", i, cbBytes, err)
		}
		// flipped parity bit must fail in both
		fl := append([]byte{}, cbBytes...)
		fl[0] ^= 1
		pf, err := txscript.ParseControlBlock(fl)
		if err == nil && txscript.VerifyTaprootLeafCommitment(pf, outX, p.TapLeaf.Script) == nil {
			return fail(fmt.Sprintf("taproot-parity-not-checked/%s/leaf%d", k, i), "leaf %d: control block with inverted parity bit verifies", i)
		}
		all = append(all, lp{p.TapLeaf.Script, cbBytes, parsed})
	}
	// a proof for leaf i must fail for leaf j's script
	for i := range all {
		for j := range all {
			if i == j {
				continue
			}
			if txscript.VerifyTaprootLeafCommitment(all[i].parsed, outX, all[j].script) == nil {
				return fail(fmt.Sprintf("taproot-cross-leaf/%s/%d-%d", k, i, j), "control block of leaf %d verifies leaf %d's script", i, j)
			}
		}
		if len(all) > 1 {
			j := (i + 1) % len(all)
			if refaddr.VerifyScriptPath(outX, all[j].script, all[i].cb) == nil {
				panic("reference accepts a cross-leaf proof")
			}
		}
	}
	return res{deep: true}
}

// runTapAsm: A = [number of leaves, internal key index, leaf pattern].
func runTapAsm(c Case) res {
	n, keyIdx, pattern := int(c.A[0]), int(c.A[1]), int(c.A[2])
	k := fmt.Sprintf("assemble/n=%d/key%d/pattern%d", n, keyIdx, pattern)
	leaves := make([]txscript.TapLeaf, n)
	for i := range leaves {
		v, s := tapLeafFor(i, pattern)
		leaves[i] = txscript.NewTapLeaf(txscript.TapscriptLeafVersion(v), s)
	}
	tree := txscript.AssembleTaprootScriptTree(leaves...)
	if tree == nil || tree.RootNode == nil || len(tree.LeafMerkleProofs) != n {
		return fail("AssembleTaprootScriptTree/"+k, "AssembleTaprootScriptTree(%d leaves) returned %v", n, tree)
	}
	rt := toRef(tree.RootNode)
	for i, p := range tree.LeafMerkleProofs {
		if p.TapLeaf.LeafVersion != leaves[i].LeafVersion || !bytes.Equal(p.TapLeaf.Script, leaves[i].Script) {
			return fail(fmt.Sprintf("taproot-proof-order/%s/leaf%d", k, i), "LeafMerkleProofs[%d] is for a different leaf than input leaf %d", i, i)
		}
		if idx, ok := tree.LeafProofIndex[leaves[i].TapHash()]; !ok || idx != i {
			return fail(fmt.Sprintf("taproot-proof-index/%s/leaf%d", k, i), "LeafProofIndex[hash(leaf %d)] = %d,%v", i, idx, ok)
		}
		lh := leaves[i].TapHash()
		if want := refaddr.TapLeafHash(byte(leaves[i].LeafVersion), leaves[i].Script); !bytes.Equal(lh[:], want[:]) {
			return fail(fmt.Sprintf("TapLeaf.TapHash/%s/leaf%d", k, i), "TapHash(version %#x, %d-byte script)=%x want %x", leaves[i].LeafVersion, len(leaves[i].Script), lh[:], want[:])
		}
		if p.RootNode == nil || p.RootNode.TapHash() != tree.RootNode.TapHash() {
			return fail(fmt.Sprintf("taproot-proof-root/%s/leaf%d", k, i), "proof %d carries a different root node", i)
		}
	}
	return verifyProofs(k, keyIdx, tree.RootNode, rt, tree.LeafMerkleProofs)
}

// shapes: "L" is a leaf, "(ab)" a branch.
func shapesWith(n int) []string {
	if n == 1 {
		return []string{"L"}
	}
	var out []string
	for k := 1; k < n; k++ {
		for _, a := range shapesWith(k) {
			for _, b := range shapesWith(n - k) {
				out = append(out, "("+a+b+")")
			}
		}
	}
	return out
}

type shapeProof struct {
	leaf txscript.TapLeaf
	path []byte
}

// buildShape parses the shape and builds the btcd tree through the low-level
// API (NewTapLeaf / NewTapBranch); inclusion proofs are assembled from btcd's
// own TapHash() of the siblings.
func buildShape(s string, pos *int, next *int, pattern int) (txscript.TapNode, []shapeProof) {
	if s[*pos] == 'L' {
		*pos++
		v, sc := tapLeafFor(*next, pattern)
		*next++
		l := txscript.NewTapLeaf(txscript.TapscriptLeafVersion(v), sc)
		return l, []shapeProof{{leaf: l}}
	}
	if s[*pos] != '(' {
		panic("bad shape " + s)
	}
	*pos++
	ln, lp := buildShape(s, pos, next, pattern)
	rn, rp := buildShape(s, pos, next, pattern)
	if s[*pos] != ')' {
		panic("bad shape " + s)
	}
	*pos++
	lh, rh := ln.TapHash(), rn.TapHash()
	var out []shapeProof
	for _, p := range lp {
		out = append(out, shapeProof{p.leaf, append(append([]byte{}, p.path...), rh[:]...)})
	}
	for _, p := range rp {
		out = append(out, shapeProof{p.leaf, append(append([]byte{}, p.path...), lh[:]...)})
	}
	return txscript.NewTapBranch(ln, rn), out
}

// runTapShape: S = shape, A = [internal key index, leaf pattern].
func runTapShape(c Case) res {
	keyIdx, pattern := int(c.A[0]), int(c.A[1])
	k := fmt.Sprintf("shape/%s/key%d/pattern%d", c.S, keyIdx, pattern)
	pos, next := 0, 0
	root, sps := buildShape(c.S, &pos, &next, pattern)
	if pos != len(c.S) {
		panic("bad shape " + c.S)
	}
	rt := toRef(root)
	proofs := make([]txscript.TapscriptProof, len(sps))
	for i, sp := range sps {
		proofs[i] = txscript.TapscriptProof{TapLeaf: sp.leaf, RootNode: root, InclusionProof: sp.path}
	}
	return verifyProofs(k, keyIdx, root, rt, proofs)
}

// runTweak: H = 32-byte private key, T = hex script root (empty or 32 bytes).
func runTweak(c Case) res {
	d := new(big.Int).SetBytes(unhex(c.H))
	root := unhex(c.T)
	k := fmt.Sprintf("tweak/%s/%s", c.H, c.T)
	priv, pub := btcec.PrivKeyFromBytes(refaddr.Ser32(d))
	pt := refaddr.BaseMul(d)
	out := txscript.ComputeTaprootOutputKey(pub, root)
	wantX, wantOdd, err := refaddr.TapTweak(pt.XOnly(), root)
	if err != nil {
		return res{}
	}
	if !bytes.Equal(schnorr.SerializePubKey(out), wantX[:]) || (out.SerializeCompressed()[0] == 3) != wantOdd {
		return fail("ComputeTaprootOutputKey/"+k, "ComputeTaprootOutputKey=%x, BIP341 reference %x odd=%v", out.SerializeCompressed(), wantX[:], wantOdd)
	}
	if len(root) == 0 {
		if o2 := txscript.ComputeTaprootKeyNoScript(pub); !o2.IsEqual(out) {
			return fail("ComputeTaprootKeyNoScript/"+k, "ComputeTaprootKeyNoScript=%x want %x", o2.SerializeCompressed(), out.SerializeCompressed())
		}
	}
	// BIP341 taproot_tweak_seckey
	dd := new(big.Int).Set(d)
	if pt.Y.Bit(0) == 1 {
		dd.Sub(refaddr.N, dd)
	}
	t := refaddr.TaggedHash("TapTweak", pt.XOnly(), root)
	dd.Add(dd, new(big.Int).SetBytes(t[:]))
	dd.Mod(dd, refaddr.N)
	tw := txscript.TweakTaprootPrivKey(*priv, root)
	if !bytes.Equal(tw.Serialize(), refaddr.Ser32(dd)) {
		return fail("TweakTaprootPrivKey/"+k, "TweakTaprootPrivKey=%x, BIP341 reference %x", tw.Serialize(), refaddr.Ser32(dd))
	}
	if !tw.PubKey().IsEqual(out) {
		return fail("TweakTaprootPrivKey-pub/"+k, "tweaked private key's public key %x != output key %x", tw.PubKey().SerializeCompressed(), out.SerializeCompressed())
	}
	if !bytes.Equal(priv.Serialize(), refaddr.Ser32(d)) {
		return fail("TweakTaprootPrivKey-mutates/"+k, "TweakTaprootPrivKey mutated its input key")
	}
	return res{deep: true}
}

func genTaproot(thorough bool, bounds map[string]interface{}, cs *sink) {
	maxAsm, maxShape := 16, 6
	keysPerShape := 2
	if thorough {
		maxAsm, maxShape, keysPerShape = 34, 7, len(tapKeyScalars)
	}
	for n := 1; n <= maxAsm; n++ {
		for pat := 0; pat < 2; pat++ {
			nk := 2
			if n <= 8 || thorough {
				nk = len(tapKeyScalars)
			}
			for ki := 0; ki < nk; ki++ {
				cs.add(Case{K: "tapasm", A: []int64{int64(n), int64(ki), int64(pat)}})
			}
		}
	}
	nShapes := 0
	for n := 1; n <= maxShape; n++ {
		for si, s := range shapesWith(n) {
			nShapes++
			for ki := 0; ki < keysPerShape; ki++ {
				cs.add(Case{K: "tapshape", S: s, A: []int64{int64((si + ki*3 + n) % len(tapKeyScalars)), int64((si + ki) % 2)}})
			}
		}
	}
	for _, d := range append(append([]*big.Int{}, testScalars...), tapKeyScalars...) {
		for _, root := range [][]byte{{}, make([]byte, 32), bytes.Repeat([]byte{0xff}, 32), refaddr.Ser32(refaddr.N)} {
			cs.add(Case{K: "tweak", H: hex.EncodeToString(refaddr.Ser32(d)), T: hex.EncodeToString(root)})
		}
	}
	bounds["taproot"] = fmt.Sprintf("AssembleTaprootScriptTree: every leaf count 1..%d × 2 leaf patterns (script lengths incl. 0,252,253,254,65535,65536; leaf versions c0 / {c0,c2,fe,66}) × %d internal keys (n<=8) / 2 (n>8); low-level API (NewTapLeaf/NewTapBranch/TapscriptProof): every ordered binary tree shape with <=%d leaves (%d shapes) × %d internal keys; every leaf: root, output key, parity, inclusion proof bytes, control block bytes vs reference, verification by btcd and by the reference, inverted parity fails, proof i vs script j fails for all i≠j; key tweaks: %d keys × roots {empty,00..,ff..,n}", maxAsm, len(tapKeyScalars), maxShape, nShapes, keysPerShape, len(testScalars)+len(tapKeyScalars))
}

func init() {
	runners["tapasm"] = runTapAsm
	runners["tapshape"] = runTapShape
	runners["tweak"] = runTweak
}
