package main

import (
	"bytes"
	"encoding/hex"
	"fmt"
	"math/big"
	"reflect"
	"strings"

	"github.com/btcsuite/btcd/address/v2"
	"github.com/btcsuite/btcd/txscript/v2"

	"verif/ref/refaddr"
)

// address type indices used by the "addr" case kind
const (
	tP2PKH = iota
	tP2SHHash
	tP2SHScript
	tP2PK
	tP2WPKH
	tP2WSH
	tP2TR
	tP2A
	nTypes
)

var typeNames = []string{"p2pkh", "p2sh-hash", "p2sh-script", "p2pk", "p2wpkh", "p2wsh", "p2tr", "p2a"}

var p2aProgram = []byte{0x4e, 0x73}

// supportedSegwit: the witness programs btcd has an address type for.
func supportedSegwit(v byte, p []byte) bool {
	switch {
	case v == 0 && (len(p) == 20 || len(p) == 32):
		return true
	case v == 1 && len(p) == 32:
		return true
	case v == 1 && bytes.Equal(p, p2aProgram):
		return true
	}
	return false
}

// canonicalPub: the serialization btcd keeps for a pay-to-pubkey address
// (compressed stays compressed; uncompressed and hybrid become uncompressed).
func canonicalPub(ser []byte) []byte {
	if len(ser) == 33 {
		return ser
	}
	return append([]byte{4}, ser[1:]...)
}

func isDeepAddrErr(err error) bool {
	switch err {
	case nil, refaddr.ErrBechChecksum, refaddr.ErrBechMixed, refaddr.ErrSegwitVersion, refaddr.ErrSegwitBits,
		refaddr.ErrSegwitLen, refaddr.ErrSegwitSpec, refaddr.ErrB58Checksum, refaddr.ErrAddrUnknownNet,
		refaddr.ErrAddrSize, refaddr.ErrAddrCollision, refaddr.ErrPubKey:
		return true
	}
	return false
}

// wantEncoding is the canonical string of a reference-decoded address.
func wantEncoding(d *refaddr.Decoded) string {
	switch d.Kind {
	case refaddr.KindP2PKH, refaddr.KindP2SH:
		return refaddr.CheckEncode(d.NetID, d.Payload)
	case refaddr.KindP2PK:
		return refaddr.CheckEncode(d.NetID, refaddr.Hash160(canonicalPub(d.Payload)))
	}
	s, _ := refaddr.SegwitEncode(d.HRP, d.Version, d.Payload)
	return s
}

// compareDecoded checks a btcd Address against the reference's decoding.
func compareDecoded(k string, in string, a address.Address, d *refaddr.Decoded) res {
	var kind string
	switch x := a.(type) {
	case *address.AddressPubKeyHash:
		kind = refaddr.KindP2PKH
	case *address.AddressScriptHash:
		kind = refaddr.KindP2SH
	case *address.AddressPubKey:
		kind = refaddr.KindP2PK
	case *address.AddressWitnessPubKeyHash:
		kind = refaddr.KindSegwit
		if d.Kind == refaddr.KindSegwit && d.Version != 0 && len(d.Payload) == 20 {
			// stable key of a genuine defect of the pinned tree (address.go: `case 20:` has no version test)
			return fail(fmt.Sprintf("DecodeAddress-v%d-prog20-decoded-as-v0-P2WPKH/%s", d.Version, d.HRP),
				"DecodeAddress(%q) is a valid BIP350 witness v%d address with a 20-byte program %x but is returned as a v0 P2WPKH address: re-encodes to %q, PayToAddrScript pays OP_0 <20> instead of OP_%d <20>",
				in, d.Version, d.Payload, x.EncodeAddress(), d.Version)
		}
		if x.WitnessVersion() != 0 || len(x.WitnessProgram()) != 20 || x.Hrp() != d.HRP {
			return fail("DecodeAddress-type/"+k, "DecodeAddress(%q) returned a P2WPKH address with version %d, program %x, hrp %q", in, x.WitnessVersion(), x.WitnessProgram(), x.Hrp())
		}
	case *address.AddressWitnessScriptHash:
		kind = refaddr.KindSegwit
		if x.WitnessVersion() != 0 || len(x.WitnessProgram()) != 32 || x.Hrp() != d.HRP {
			return fail("DecodeAddress-type/"+k, "DecodeAddress(%q) returned a P2WSH address with version %d, program %x, hrp %q", in, x.WitnessVersion(), x.WitnessProgram(), x.Hrp())
		}
	case *address.AddressTaproot:
		kind = refaddr.KindSegwit
		if x.WitnessVersion() != 1 || len(x.WitnessProgram()) != 32 || x.Hrp() != d.HRP {
			return fail("DecodeAddress-type/"+k, "DecodeAddress(%q) returned a P2TR address with version %d, program %x, hrp %q", in, x.WitnessVersion(), x.WitnessProgram(), x.Hrp())
		}
	case *address.AddressPayToAnchor:
		kind = refaddr.KindSegwit
		if d.Version != 1 || !bytes.Equal(d.Payload, p2aProgram) {
			return fail("DecodeAddress-type/"+k, "DecodeAddress(%q) returned a P2A address but the string encodes v%d %x", in, d.Version, d.Payload)
		}
	default:
		return fail("DecodeAddress-type/"+k, "DecodeAddress(%q) returned unexpected type %T", in, a)
	}
	if kind != d.Kind {
		return fail("DecodeAddress-kind/"+k, "DecodeAddress(%q) returned %T, reference decodes a %s address", in, a, d.Kind)
	}
	wantPayload := d.Payload
	if d.Kind == refaddr.KindP2PK {
		wantPayload = canonicalPub(d.Payload)
	}
	if !bytes.Equal(a.ScriptAddress(), wantPayload) {
		return fail("DecodeAddress-payload/"+k, "DecodeAddress(%q).ScriptAddress()=%x want %x", in, a.ScriptAddress(), wantPayload)
	}
	if d.Kind == refaddr.KindSegwit {
		if sw, ok := a.(interface{ WitnessVersion() byte }); ok && sw.WitnessVersion() != d.Version {
			return fail("DecodeAddress-version/"+k, "DecodeAddress(%q) witness version %d want %d", in, sw.WitnessVersion(), d.Version)
		}
	}
	want := wantEncoding(d)
	if got := a.EncodeAddress(); got != want {
		return fail("Encode∘Decode/"+k, "DecodeAddress(%q).EncodeAddress()=%q want %q", in, got, want)
	}
	wantStr := want
	if d.Kind == refaddr.KindP2PK {
		wantStr = hex.EncodeToString(wantPayload)
	}
	if got := a.String(); got != wantStr {
		return fail("String∘Decode/"+k, "DecodeAddress(%q).String()=%q want %q", in, got, wantStr)
	}
	return isForNetMatrix(k, a, d)
}

// isForNetMatrix: IsForNet(M) must hold exactly for the networks M whose
// relevant prefix equals the address's prefix.
func isForNetMatrix(k string, a address.Address, d *refaddr.Decoded) res {
	for _, m := range nets {
		var want bool
		switch d.Kind {
		case refaddr.KindP2PKH, refaddr.KindP2PK:
			want = d.NetID == m.R.P2PKH
		case refaddr.KindP2SH:
			want = d.NetID == m.R.P2SH
		default:
			want = d.HRP == m.R.HRP
		}
		if got := a.IsForNet(m.P); got != want {
			return fail("IsForNet/"+k+"/"+m.R.Name, "%T %s: IsForNet(%s)=%v want %v", a, a.EncodeAddress(), m.R.Name, got, want)
		}
	}
	return res{}
}

// runDec: a string is decoded by address.DecodeAddress (default net N) and by
// the unexported decodeSegWitAddress; both are compared with the reference.
func runDec(c Case) res {
	net := nets[c.N]
	k := net.R.Name + "/" + hex.EncodeToString([]byte(short(c.S)))
	if isASCIIPrintable(c.S) {
		k = net.R.Name + "/" + short(c.S)
	}
	want, werr := refaddr.DecodeAddress(c.S, net.R, hrps)
	got, gerr := address.DecodeAddress(c.S, net.P)
	deep := isDeepAddrErr(werr)

	hv, hp, herr := address.VerifDecodeSegWitAddress(c.S)
	_, sv, sp, serr := refaddr.SegwitDecodeAny(c.S)
	if (herr == nil) != (serr == nil) {
		return fail("decodeSegWitAddress-accept/"+k, "decodeSegWitAddress(%q): btcd err=%v, BIP173/350 reference err=%v", c.S, herr, serr)
	}
	if herr == nil && (hv != sv || !bytes.Equal(hp, sp)) {
		return fail("decodeSegWitAddress-value/"+k, "decodeSegWitAddress(%q)=v%d %x want v%d %x", c.S, hv, hp, sv, sp)
	}

	if gerr != nil {
		if werr == nil {
			if want.Kind != refaddr.KindSegwit || supportedSegwit(want.Version, want.Payload) {
				return fail("DecodeAddress-rejects-valid/"+k, "DecodeAddress(%q, %s) fails (%v) but the string is a valid %s address (%x)", c.S, net.R.Name, gerr, want.Kind, want.Payload)
			}
			stat("valid_segwit_address_without_btcd_type")
		}
		return res{deep: deep}
	}
	if werr != nil {
		return fail("DecodeAddress-accepts-invalid/"+k, "DecodeAddress(%q, %s) = %T %s but the reference rejects the string: %v", c.S, net.R.Name, got, got.EncodeAddress(), werr)
	}
	if x := compareDecoded(k, c.S, got, want); x.key != "" {
		return x
	}
	return res{deep: true}
}

func isASCIIPrintable(s string) bool {
	for i := 0; i < len(s); i++ {
		if s[i] < 33 || s[i] > 126 {
			return false
		}
	}
	return true
}

var classOf = map[int]txscript.ScriptClass{
	tP2PKH: txscript.PubKeyHashTy, tP2SHHash: txscript.ScriptHashTy, tP2SHScript: txscript.ScriptHashTy,
	tP2PK: txscript.PubKeyTy, tP2WPKH: txscript.WitnessV0PubKeyHashTy, tP2WSH: txscript.WitnessV0ScriptHashTy,
	tP2TR: txscript.WitnessV1TaprootTy, tP2A: txscript.PayToAnchorTy,
}

var classNames = map[int]string{
	tP2PKH: "pubkeyhash", tP2SHHash: "scripthash", tP2SHScript: "scripthash", tP2PK: "pubkey",
	tP2WPKH: "witness_v0_keyhash", tP2WSH: "witness_v0_scripthash", tP2TR: "witness_v1_taproot", tP2A: "anchor",
}

// runAddr: constructor -> string -> decode -> script -> extract, everything
// compared with the reference, for one (type, network, payload).
func runAddr(c Case) res {
	typ := int(c.A[0])
	net := nets[c.N]
	payload := unhex(c.H)
	k := fmt.Sprintf("%s/%s/%s", typeNames[typ], net.R.Name, short(c.H))

	var a address.Address
	var err error
	var d refaddr.Decoded
	var wantScript []byte
	switch typ {
	case tP2PKH:
		a, err = address.NewAddressPubKeyHash(payload, net.P)
		d = refaddr.Decoded{Kind: refaddr.KindP2PKH, NetID: net.R.P2PKH, Payload: payload}
		wantScript = refaddr.ScriptP2PKH(payload)
	case tP2SHHash:
		a, err = address.NewAddressScriptHashFromHash(payload, net.P)
		d = refaddr.Decoded{Kind: refaddr.KindP2SH, NetID: net.R.P2SH, Payload: payload}
		wantScript = refaddr.ScriptP2SH(payload)
	case tP2SHScript:
		a, err = address.NewAddressScriptHash(payload, net.P)
		h := refaddr.Hash160(payload)
		d = refaddr.Decoded{Kind: refaddr.KindP2SH, NetID: net.R.P2SH, Payload: h}
		wantScript = refaddr.ScriptP2SH(h)
	case tP2PK:
		a, err = address.NewAddressPubKey(payload, net.P)
		d = refaddr.Decoded{Kind: refaddr.KindP2PK, NetID: net.R.P2PKH, Payload: payload}
		wantScript = refaddr.ScriptP2PK(canonicalPub(payload))
	case tP2WPKH:
		a, err = address.NewAddressWitnessPubKeyHash(payload, net.P)
		d = refaddr.Decoded{Kind: refaddr.KindSegwit, HRP: net.R.HRP, Version: 0, Payload: payload}
		wantScript = refaddr.ScriptWitness(0, payload)
	case tP2WSH:
		a, err = address.NewAddressWitnessScriptHash(payload, net.P)
		d = refaddr.Decoded{Kind: refaddr.KindSegwit, HRP: net.R.HRP, Version: 0, Payload: payload}
		wantScript = refaddr.ScriptWitness(0, payload)
	case tP2TR:
		a, err = address.NewAddressTaproot(payload, net.P)
		d = refaddr.Decoded{Kind: refaddr.KindSegwit, HRP: net.R.HRP, Version: 1, Payload: payload}
		wantScript = refaddr.ScriptWitness(1, payload)
	case tP2A:
		a, err = address.NewAddressPayToAnchor(net.P)
		d = refaddr.Decoded{Kind: refaddr.KindSegwit, HRP: net.R.HRP, Version: 1, Payload: p2aProgram}
		wantScript = refaddr.ScriptWitness(1, p2aProgram)
	}
	if err != nil || a == nil || reflect.ValueOf(a).IsNil() {
		return fail("NewAddress/"+k, "constructor for %s on %s with %x failed: %v", typeNames[typ], net.R.Name, payload, err)
	}
	want := wantEncoding(&d)
	s := a.EncodeAddress()
	if s != want {
		return fail("EncodeAddress/"+k, "%T(%x, %s).EncodeAddress()=%q want %q", a, payload, net.R.Name, s, want)
	}
	wantStr, wantPayload := want, d.Payload
	if typ == tP2PK {
		wantPayload = canonicalPub(payload)
		wantStr = hex.EncodeToString(wantPayload)
	}
	if a.String() != wantStr {
		return fail("String/"+k, "%T.String()=%q want %q", a, a.String(), wantStr)
	}
	if !bytes.Equal(a.ScriptAddress(), wantPayload) {
		return fail("ScriptAddress/"+k, "%T.ScriptAddress()=%x want %x", a, a.ScriptAddress(), wantPayload)
	}
	if x := isForNetMatrix(k, a, &d); x.key != "" {
		return x
	}

	// decode∘encode = id (own network), and the string under every other default net
	back, err := address.DecodeAddress(a.String(), net.P)
	if err != nil {
		return fail("Decode∘Encode/"+k, "DecodeAddress(%q, %s) of a freshly encoded %s address fails: %v", a.String(), net.R.Name, typeNames[typ], err)
	}
	if reflect.TypeOf(back) != reflect.TypeOf(a) || !bytes.Equal(back.ScriptAddress(), a.ScriptAddress()) ||
		back.EncodeAddress() != s || back.String() != a.String() {
		return fail("Decode∘Encode/"+k, "DecodeAddress(%q) = %T %x %s, want %T %x %s", a.String(), back, back.ScriptAddress(), back.EncodeAddress(), a, a.ScriptAddress(), s)
	}
	for m := range nets {
		if x := runDec(Case{K: "dec", S: s, N: m}); x.key != "" {
			return x
		}
		if typ == tP2PK {
			if x := runDec(Case{K: "dec", S: a.String(), N: m}); x.key != "" {
				return x
			}
		}
	}
	if d.Kind == refaddr.KindSegwit {
		up, err := address.DecodeAddress(strings.ToUpper(s), net.P)
		if err != nil || up.EncodeAddress() != s || reflect.TypeOf(up) != reflect.TypeOf(a) {
			return fail("Decode-uppercase/"+k, "DecodeAddress(%q): %v / re-encoded %v, want %q", strings.ToUpper(s), err, up, s)
		}
		if x := isForNetMatrix(k+"/upper", up, &d); x.key != "" {
			return x
		}
	}

	// address -> script -> class / address
	script, err := txscript.PayToAddrScript(a)
	if err != nil || !bytes.Equal(script, wantScript) {
		return fail("PayToAddrScript/"+k, "PayToAddrScript(%s)=%x,%v want %x", s, script, err, wantScript)
	}
	if cl := txscript.GetScriptClass(script); cl != classOf[typ] || cl.String() != classNames[typ] {
		return fail("GetScriptClass/"+k, "GetScriptClass(%x)=%v want %s", script, cl, classNames[typ])
	}
	cl, addrs, req, err := txscript.ExtractPkScriptAddrs(script, net.P)
	wantReq := 1
	if typ == tP2A {
		wantReq = 0
	}
	if err != nil || cl != classOf[typ] || len(addrs) != 1 || req != wantReq {
		return fail("ExtractPkScriptAddrs/"+k, "ExtractPkScriptAddrs(%x, %s) = %v, %d addrs, %d sigs, %v; want %s, 1 addr, %d sigs", script, net.R.Name, cl, len(addrs), req, err, classNames[typ], wantReq)
	}
	if reflect.TypeOf(addrs[0]) != reflect.TypeOf(a) || addrs[0].EncodeAddress() != s || addrs[0].String() != a.String() ||
		!bytes.Equal(addrs[0].ScriptAddress(), a.ScriptAddress()) {
		return fail("ExtractPkScriptAddrs-addr/"+k, "ExtractPkScriptAddrs(%x, %s) -> %T %s, want %T %s", script, net.R.Name, addrs[0], addrs[0].String(), a, a.String())
	}
	if x := isForNetMatrix(k+"/extracted", addrs[0], &d); x.key != "" {
		return x
	}
	if s2, err := txscript.PayToAddrScript(addrs[0]); err != nil || !bytes.Equal(s2, script) {
		return fail("PayToAddrScript∘Extract/"+k, "PayToAddrScript(Extract(%x))=%x,%v", script, s2, err)
	}
	pk, err := txscript.ParsePkScript(script)
	if typ == tP2PK {
		if err == nil && (pk.Class() != classOf[typ] || !bytes.Equal(pk.Script(), script)) {
			return fail("ParsePkScript/"+k, "ParsePkScript(%x) = class %v script %x", script, pk.Class(), pk.Script())
		}
	} else {
		if err != nil || pk.Class() != classOf[typ] || !bytes.Equal(pk.Script(), script) {
			return fail("ParsePkScript/"+k, "ParsePkScript(%x) = class %v script %x err %v; want %s", script, pk.Class(), pk.Script(), err, classNames[typ])
		}
		pa, err := pk.Address(net.P)
		if err != nil || pa.EncodeAddress() != s || reflect.TypeOf(pa) != reflect.TypeOf(a) {
			return fail("PkScript.Address/"+k, "ParsePkScript(%x).Address(%s) = %v, %v; want %s", script, net.R.Name, pa, err, s)
		}
	}
	if typ == tP2PK {
		if x := pubKeyFormatSeqs(k, payload, net); x.key != "" {
			return x
		}
	}
	return res{deep: true}
}

// pubKeyFormatSeqs runs every sequence of <= 3 operations over {observe,
// SetFormat(compressed), SetFormat(uncompressed)} on a fresh AddressPubKey (a
// final observation follows each sequence) against the obvious model: the
// address is (point, format) and everything it reports is a function of the
// two, whatever was asked of it before.
func pubKeyFormatSeqs(k string, payload []byte, net netT) res {
	pt, err := refaddr.ParsePub(payload)
	if err != nil {
		return res{}
	}
	serOf := func(f address.PubKeyFormat) []byte {
		if f == address.PKFCompressed {
			return pt.Compressed()
		}
		return pt.Uncompressed()
	}
	observe := func(a *address.AddressPubKey, f address.PubKeyFormat, seq string) res {
		ser := serOf(f)
		wantEnc := refaddr.CheckEncode(net.R.P2PKH, refaddr.Hash160(ser))
		if a.Format() != f {
			return fail("AddressPubKey-format-sequence/"+k, "after %s: Format()=%d want %d", seq, a.Format(), f)
		}
		if !bytes.Equal(a.ScriptAddress(), ser) || a.String() != hex.EncodeToString(ser) {
			return fail("AddressPubKey-format-sequence/"+k, "after %s: ScriptAddress()=%x String()=%s, the key in format %d is %x", seq, a.ScriptAddress(), a.String(), f, ser)
		}
		if a.EncodeAddress() != wantEnc || a.AddressPubKeyHash().EncodeAddress() != wantEnc {
			return fail("AddressPubKey-format-sequence/"+k, "after %s: EncodeAddress()=%s AddressPubKeyHash()=%s want %s", seq, a.EncodeAddress(), a.AddressPubKeyHash().EncodeAddress(), wantEnc)
		}
		if sc, err := txscript.PayToAddrScript(a); err != nil || !bytes.Equal(sc, refaddr.ScriptP2PK(ser)) {
			return fail("AddressPubKey-format-sequence/"+k, "after %s: PayToAddrScript=%x,%v want %x", seq, sc, err, refaddr.ScriptP2PK(ser))
		}
		return res{}
	}
	ops := []string{"observe", "SetFormat(compressed)", "SetFormat(uncompressed)"}
	var rec func(prefix []int) res
	rec = func(prefix []int) res {
		a, err := address.NewAddressPubKey(payload, net.P)
		if err != nil {
			return fail("NewAddress/"+k, "NewAddressPubKey(%x): %v", payload, err)
		}
		f := address.PKFUncompressed
		if len(payload) == 33 {
			f = address.PKFCompressed
		}
		var names []string
		for _, o := range prefix {
			names = append(names, ops[o])
			switch o {
			case 0:
				if x := observe(a, f, strings.Join(names[:len(names)-1], ", ")); x.key != "" {
					return x
				}
			case 1:
				f = address.PKFCompressed
				a.SetFormat(f)
			case 2:
				f = address.PKFUncompressed
				a.SetFormat(f)
			}
		}
		if x := observe(a, f, strings.Join(names, ", ")); x.key != "" {
			return x
		}
		if len(prefix) < 3 {
			for o := range ops {
				if x := rec(append(append([]int{}, prefix...), o)); x.key != "" {
					return x
				}
			}
		}
		return res{}
	}
	return rec(nil)
}

// ---- generators -----------------------------------------------------------

func payloadPatterns(L int) [][]byte {
	var out [][]byte
	add := func(b []byte) { out = append(out, b) }
	add(make([]byte, L))
	add(bytes.Repeat([]byte{0xff}, L))
	inc := make([]byte, L)
	for i := range inc {
		inc[i] = byte(i)
	}
	add(inc)
	for k := 1; k < L; k++ { // leading-zero runs of every length, two tails
		a := make([]byte, L)
		b := make([]byte, L)
		for i := k; i < L; i++ {
			a[i] = byte(i - k + 1)
			b[i] = 0xff
		}
		add(a)
		add(b)
	}
	for k := 1; k < L; k++ { // trailing-zero runs
		a := make([]byte, L)
		for i := 0; i < L-k; i++ {
			a[i] = byte(0xff - i)
		}
		add(a)
	}
	for i := 0; i < L; i++ { // one-hot bytes
		a := make([]byte, L)
		a[i] = 1
		b := make([]byte, L)
		b[i] = 0x80
		add(a)
		add(b)
	}
	return out
}

var testScalars = func() []*big.Int {
	one := big.NewInt(1)
	nm1 := new(big.Int).Sub(refaddr.N, one)
	half := new(big.Int).Rsh(refaddr.N, 1)
	h1 := refaddr.DSHA256([]byte("verif C16 key 1"))
	h2 := refaddr.DSHA256([]byte("verif C16 key 2"))
	h3 := refaddr.DSHA256([]byte("verif C16 key 3"))
	return []*big.Int{one, big.NewInt(2), big.NewInt(3), nm1, new(big.Int).Sub(nm1, one), half,
		new(big.Int).SetBytes(h1[:]), new(big.Int).SetBytes(h2[:]), new(big.Int).SetBytes(h3[:])}
}()

func genAddr(thorough bool, bounds map[string]interface{}, cs *sink) {
	hx := hex.EncodeToString
	p20, p32 := payloadPatterns(20), payloadPatterns(32)
	for n := range nets {
		for _, p := range p20 {
			for _, t := range []int{tP2PKH, tP2SHHash, tP2WPKH} {
				cs.add(Case{K: "addr", N: n, H: hx(p), A: []int64{int64(t)}})
			}
		}
		for _, p := range p32 {
			for _, t := range []int{tP2WSH, tP2TR} {
				cs.add(Case{K: "addr", N: n, H: hx(p), A: []int64{int64(t)}})
			}
		}
		cs.add(Case{K: "addr", N: n, A: []int64{tP2A}})
		for _, sc := range [][]byte{{}, {0x51}, {0x00}, bytes.Repeat([]byte{0x51}, 520), append([]byte{0x00, 0x14}, make([]byte, 20)...)} {
			cs.add(Case{K: "addr", N: n, H: hx(sc), A: []int64{tP2SHScript}})
		}
		for _, k := range testScalars {
			pt := refaddr.BaseMul(k)
			for _, ser := range [][]byte{pt.Compressed(), pt.Uncompressed(), pt.Hybrid()} {
				cs.add(Case{K: "addr", N: n, H: hx(ser), A: []int64{tP2PK}})
			}
		}
	}
	// malformed / foreign public key strings through DecodeAddress
	pt := refaddr.BaseMul(big.NewInt(3))
	badHybrid := pt.Hybrid()
	badHybrid[0] ^= 1
	badY := pt.Uncompressed()
	badY[64] ^= 1
	for _, b := range [][]byte{
		badHybrid, badY,
		append([]byte{5}, pt.Uncompressed()[1:]...),
		append([]byte{4}, pt.Compressed()[1:]...),
		append([]byte{2}, refaddr.Ser32(big.NewInt(5))...),                              // x=5 is not on the curve
		append([]byte{2}, refaddr.Ser32(refaddr.P)...),                                  // x = p
		append([]byte{3}, refaddr.Ser32(new(big.Int).Add(refaddr.P, big.NewInt(1)))...), // x = p+1 (1 is on the curve)
		append([]byte{2}, make([]byte, 32)...),
		make([]byte, 33), make([]byte, 65),
	} {
		for n := range nets {
			cs.add(Case{K: "dec", S: hx(b), N: n}, Case{K: "dec", S: strings.ToUpper(hx(b)), N: n})
		}
	}
	bounds["addresses"] = fmt.Sprintf("networks(6) × {P2PKH,P2SH,P2WPKH × %d 20-byte payloads; P2WSH,P2TR × %d 32-byte payloads; P2A; P2SH-from-script × 5 scripts; P2PK × %d keys × {compressed,uncompressed,hybrid}}; payload patterns: 00.., ff.., 00 01 02.., leading-zero runs of every length × 2 tails, trailing-zero runs of every length, one-hot 0x01/0x80 at every byte; each case: constructor→string→decode (own net, every other default net, upper case)→IsForNet×6→PayToAddrScript→GetScriptClass/ExtractPkScriptAddrs/ParsePkScript→back; every P2PK case additionally runs all 39 sequences of <= 3 operations over {observe, SetFormat(compressed), SetFormat(uncompressed)} on a fresh AddressPubKey against the (point, format) model", len(p20), len(p32), len(testScalars))
}

// genSegwitMatrix: every witness version 0..16 (+17, 31) × every program length
// 0..42 × both checksum constants × every registered hrp (lower and upper
// case), plus the padding-rule variants, as raw strings for DecodeAddress and
// decodeSegWitAddress.
func genSegwitMatrix(thorough bool, bounds map[string]interface{}, cs *sink) {
	netOfHRP := map[string]int{}
	for i := len(nets) - 1; i >= 0; i-- {
		netOfHRP[nets[i].R.HRP] = i
	}
	hs := append([]string{}, hrps...)
	hs = append(hs, "tc", "bcr") // unregistered
	versions := []byte{0, 1, 2, 3, 4, 5, 6, 7, 8, 9, 10, 11, 12, 13, 14, 15, 16, 17, 31}
	for _, h := range hs {
		n := netOfHRP[h]
		for _, v := range versions {
			for L := 0; L <= 42; L++ {
				var progs [][]byte
				inc := make([]byte, L)
				for i := range inc {
					inc[i] = byte(i*13 + int(v))
				}
				progs = append(progs, inc, make([]byte, L), bytes.Repeat([]byte{0xff}, L))
				if v == 1 && L == 2 {
					progs = append(progs, []byte{0x4e, 0x73}, []byte{0x73, 0x4e})
				}
				for _, p := range progs {
					for _, sp := range []refaddr.Spec{refaddr.SpecBech32, refaddr.SpecBech32m} {
						s := refaddr.SegwitEncodeRaw(h, v, p, sp)
						cs.add(Case{K: "dec", S: s, N: n}, Case{K: "dec", S: strings.ToUpper(s), N: n})
						// padding rules: non-zero padding bits, an extra all-zero group
						d, _ := refaddr.ConvertBits(p, 8, 5, true)
						if L > 0 && (8*L)%5 != 0 {
							d2 := append([]byte{v}, d...)
							d2[len(d2)-1] |= 1
							s2, _ := refaddr.Bech32Encode(h, d2, sp)
							cs.add(Case{K: "dec", S: s2, N: n})
						}
						d3 := append(append([]byte{v}, d...), 0)
						s3, _ := refaddr.Bech32Encode(h, d3, sp)
						cs.add(Case{K: "dec", S: s3, N: n})
					}
				}
			}
		}
		// no version symbol at all
		for _, sp := range []refaddr.Spec{refaddr.SpecBech32, refaddr.SpecBech32m} {
			s, _ := refaddr.Bech32Encode(h, nil, sp)
			cs.add(Case{K: "dec", S: s, N: n})
		}
	}
	bounds["segwit_matrix"] = fmt.Sprintf("hrps %v + unregistered {tc,bcr} × witness version {0..16,17,31} × program length 0..42 × 3 program patterns (+P2A program and its byte swap) × checksum constant {bech32, bech32m} × {lower, upper case} + non-zero padding bits + extra zero group + empty data; decided by address.DecodeAddress and (hook) decodeSegWitAddress vs BIP350 decode", hrps)
}

func init() {
	runners["dec"] = runDec
	runners["addr"] = runAddr
}
