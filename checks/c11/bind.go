package main

// Binding of the reference model (verif/ref/refec) to the ground truth btcd
// ships: BIP340 vectors, RFC6979/ECDSA vectors, compact-signature recovery
// vectors, DER examples, public key examples and the complete BIP327 JSON
// vector set.  Any disagreement is a broken oracle (exit 2), never a violation.

import (
	"bytes"
	"crypto/sha256"
	"encoding/hex"
	"encoding/json"
	"math/big"
	"os"
	"path/filepath"
	"strings"

	"verif/ref/refec"
)

func mustHex(s string) []byte {
	b, err := hex.DecodeString(s)
	if err != nil {
		R.Broken("bad hex in shipped vector: %q", s)
	}
	return b
}

func bindAll() map[string]int {
	n := map[string]int{}
	root := repoRoot()
	n["bip340"] = bindBIP340(filepath.Join(root, "btcec/schnorr/signature_test.go"))
	n["rfc6979_ecdsa"] = bindRFC6979(filepath.Join(root, "btcec/ecdsa/signature_test.go"))
	n["recover_compact"] = bindRecovery(filepath.Join(root, "btcec/ecdsa/signature_test.go"))
	n["der_examples"] = bindDER(filepath.Join(root, "btcec/ecdsa/signature_test.go"))
	n["der_serialize"] = bindDERSerialize(filepath.Join(root, "btcec/ecdsa/signature_test.go"))
	n["pubkey_examples"] = bindPubKeys(filepath.Join(root, "btcec/pubkey_test.go"))
	n["curve_selfcheck"] = bindCurve()
	dir := filepath.Join(root, "btcec/schnorr/musig2/data")
	n["bip327_key_sort"] = bindKeySort(filepath.Join(dir, "key_sort_vectors.json"))
	n["bip327_key_agg"] = bindKeyAgg(filepath.Join(dir, "key_agg_vectors.json"))
	n["bip327_nonce_gen"] = bindNonceGen(filepath.Join(dir, "nonce_gen_vectors.json"))
	n["bip327_nonce_agg"] = bindNonceAgg(filepath.Join(dir, "nonce_agg_vectors.json"))
	n["bip327_sign_verify"] = bindSignVerify(filepath.Join(dir, "sign_verify_vectors.json"))
	n["bip327_tweak"] = bindTweak(filepath.Join(dir, "tweak_vectors.json"))
	n["bip327_sig_agg"] = bindSigAgg(filepath.Join(dir, "sig_agg_vectors.json"))
	return n
}

func bindCurve() int {
	// group law sanity: n*G = infinity, (n-1)*G = -G, G on curve, 2G+G = 3G.
	if !refec.IsOnCurve(refec.G) {
		R.Broken("refec: G not on curve")
	}
	nm1 := new(big.Int).Sub(refec.N, big.NewInt(1))
	if !refec.Equal(refec.BaseMult(nm1), refec.Neg(refec.G)) {
		R.Broken("refec: (n-1)G != -G")
	}
	if !refec.Add(refec.BaseMult(nm1), refec.G).Inf {
		R.Broken("refec: nG != infinity")
	}
	g2 := refec.Add(refec.G, refec.G)
	if !refec.Equal(refec.Add(g2, refec.G), refec.BaseMult(big.NewInt(3))) {
		R.Broken("refec: 2G+G != 3G")
	}
	return 4
}

func bindBIP340(path string) int {
	vs, err := loadGoLits(path, "", "bip340TestVectors")
	if err != nil {
		R.Broken("cannot load BIP340 vectors: %v", err)
	}
	if len(vs) < 10 {
		R.Broken("BIP340 vectors: only %d entries parsed", len(vs))
	}
	extra := sha256.Sum256([]byte("BIP-340"))
	for i, v := range vs {
		pk, msg, sig := mustHex(v.str("publicKey")), mustHex(v.str("message")), mustHex(v.str("signature"))
		if got := refec.SchnorrVerify(pk, msg, sig); got != v.boolean("verifyResult") {
			R.Broken("refec.SchnorrVerify disagrees with shipped BIP340 vector #%d: got %v", i, got)
		}
		if _, ok := refec.ParseXOnly(pk); ok != v.boolean("validPubKey") {
			R.Broken("refec.ParseXOnly disagrees with shipped BIP340 vector #%d: got %v", i, ok)
		}
		if sk := v.str("secretKey"); sk != "" {
			d := refec.Int(mustHex(sk))
			if !bytes.Equal(refec.XBytes(refec.BaseMult(d)), pk) {
				R.Broken("refec pubkey derivation disagrees with BIP340 vector #%d", i)
			}
			var got []byte
			if v.boolean("rfc6979") {
				// btcd specific vector: nonce from RFC6979 keyed with the
				// (parity corrected) secret key and extra data SHA256("BIP-340").
				dd := new(big.Int).Set(d)
				if !refec.HasEvenY(refec.BaseMult(d)) {
					dd.Sub(refec.N, dd)
				}
				k := refec.RFC6979Nonce(dd, msg, extra[:], 0)
				got = refec.SchnorrSignWithNonce(d, msg, k)
			} else {
				var ok bool
				got, ok = refec.SchnorrSign(d, msg, mustHex(v.str("auxRand")))
				if !ok {
					R.Broken("refec.SchnorrSign failed on BIP340 vector #%d", i)
				}
			}
			if !bytes.Equal(got, sig) {
				R.Broken("refec Schnorr signing disagrees with shipped BIP340 vector #%d: %x", i, got)
			}
		}
	}
	return len(vs)
}

func bindRFC6979(path string) int {
	vs, err := loadGoLits(path, "TestRFC6979", "tests")
	if err != nil {
		R.Broken("cannot load RFC6979 vectors: %v", err)
	}
	if len(vs) < 6 {
		R.Broken("RFC6979 vectors: only %d entries parsed", len(vs))
	}
	for i, v := range vs {
		d := refec.Int(mustHex(v.str("#0")))
		h := sha256.Sum256([]byte(v.str("#1")))
		k := refec.RFC6979Nonce(d, h[:], nil, 0)
		if !bytes.Equal(refec.Bytes32(k), mustHex(v.str("#2"))) {
			R.Broken("refec.RFC6979Nonce disagrees with shipped vector #%d", i)
		}
		r, s, _ := refec.ECDSASignRFC6979(d, h[:])
		if !bytes.Equal(refec.EncodeDER(r, s), mustHex(v.str("#3"))) {
			R.Broken("refec.ECDSASignRFC6979/EncodeDER disagrees with shipped vector #%d", i)
		}
		if !refec.ECDSAVerify(refec.BaseMult(d), h[:], r, s) {
			R.Broken("refec.ECDSAVerify rejects shipped RFC6979 signature #%d", i)
		}
		if rr, ss, ok := refec.ParseDERSigStrict(mustHex(v.str("#3"))); !ok || rr.Cmp(r) != 0 || ss.Cmp(s) != 0 {
			R.Broken("refec.ParseDERSigStrict disagrees with shipped RFC6979 signature #%d", i)
		}
	}
	return len(vs)
}

func bindRecovery(path string) int {
	vs, err := loadGoLits(path, "", "recoveryTests")
	if err != nil {
		R.Broken("cannot load recovery vectors: %v", err)
	}
	if len(vs) < 9 {
		R.Broken("recovery vectors: only %d entries parsed", len(vs))
	}
	for i, v := range vs {
		sig := mustHex(v.str("sig"))
		sig[0] += 27
		q, _, ok := refec.RecoverCompact(sig, mustHex(v.str("msg")))
		wantErr := v["err"] != nil
		if ok == wantErr {
			R.Broken("refec.RecoverCompact disagrees with shipped recovery vector #%d: ok=%v", i, ok)
		}
		if ok && !bytes.Equal(refec.Uncompressed(q), mustHex(v.str("pub"))) {
			R.Broken("refec.RecoverCompact recovers a different key on vector #%d", i)
		}
	}
	return len(vs)
}

func bindDER(path string) int {
	vs, err := loadGoLits(path, "", "signatureTests")
	if err != nil {
		R.Broken("cannot load DER examples: %v", err)
	}
	if len(vs) < 20 {
		R.Broken("DER examples: only %d entries parsed", len(vs))
	}
	for _, v := range vs {
		b := v.bytes("sig")
		want := v.boolean("isValid")
		if v.boolean("der") {
			if _, _, ok := refec.ParseDERSigStrictPrefix(b); ok != want {
				R.Broken("refec strict DER model disagrees with shipped example %q: got %v", v.str("name"), ok)
			}
		} else {
			_, _, ok, def := refec.ParseDERSigLax(b)
			if def && ok != want {
				R.Broken("refec lax DER model disagrees with shipped example %q: got %v", v.str("name"), ok)
			}
		}
	}
	return len(vs)
}

func bindDERSerialize(path string) int {
	vs, err := loadGoLits(path, "TestSignatureSerialize", "tests")
	if err != nil {
		R.Broken("cannot load DER serialize examples: %v", err)
	}
	cnt := 0
	for _, v := range vs {
		c, ok := v["#1"].(call)
		if !ok || len(c.Args) != 2 {
			continue
		}
		rb, ok1 := c.Args[0].([]byte)
		sb, ok2 := c.Args[1].([]byte)
		want, ok3 := v["#2"].([]byte)
		if !ok1 || !ok2 || !ok3 {
			continue
		}
		r, s := refec.Int(rb), refec.Int(sb)
		if len(rb) > 32 || len(sb) > 32 || r.Cmp(refec.N) >= 0 || s.Cmp(refec.N) >= 0 {
			continue // the table also documents modular reduction of oversize inputs
		}
		ls, _ := refec.LowS(s)
		if !bytes.Equal(refec.EncodeDER(r, ls), want) {
			R.Broken("refec.EncodeDER disagrees with shipped serialize example %q", v.str("#0"))
		}
		cnt++
	}
	if cnt < 3 {
		R.Broken("DER serialize examples: only %d usable entries", cnt)
	}
	return cnt
}

func bindPubKeys(path string) int {
	vs, err := loadGoLits(path, "", "pubKeyTests")
	if err != nil {
		R.Broken("cannot load pubkey examples: %v", err)
	}
	if len(vs) < 10 {
		R.Broken("pubkey examples: only %d entries parsed", len(vs))
	}
	for _, v := range vs {
		if _, ok := refec.ParsePubKey(v.bytes("key")); ok != v.boolean("isValid") {
			R.Broken("refec.ParsePubKey disagrees with shipped example %q: got %v", v.str("name"), ok)
		}
	}
	return len(vs)
}

// ---------------------------------------------------------------- BIP327 JSON

func loadJSON(path string, v interface{}) {
	b, err := os.ReadFile(path)
	if err != nil {
		R.Broken("cannot read shipped vectors %s: %v", path, err)
	}
	if err := json.Unmarshal(b, v); err != nil {
		R.Broken("cannot parse shipped vectors %s: %v", path, err)
	}
}

func pick(all []string, idx []int) [][]byte {
	out := make([][]byte, len(idx))
	for i, j := range idx {
		out[i] = mustHex(all[j])
	}
	return out
}

func mkTweaks(all []string, idx []int, xonly []bool) []refec.Tweak {
	var out []refec.Tweak
	for i, j := range idx {
		out = append(out, refec.Tweak{T: mustHex(all[j]), XOnly: xonly[i]})
	}
	return out
}

type vecErr struct {
	Type    string `json:"type"`
	Signer  *int   `json:"signer"`
	Contrib string `json:"contrib"`
	Message string `json:"message"`
}

func bindKeySort(path string) int {
	var d struct {
		PubKeys []string `json:"pubkeys"`
		Sorted  []string `json:"sorted_pubkeys"`
	}
	loadJSON(path, &d)
	all := make([]int, len(d.PubKeys))
	for i := range all {
		all[i] = i
	}
	got := refec.KeySort(pick(d.PubKeys, all))
	for i := range got {
		if !bytes.Equal(got[i], mustHex(d.Sorted[i])) {
			R.Broken("refec.KeySort disagrees with key_sort_vectors.json at %d", i)
		}
	}
	return 1
}

func bindKeyAgg(path string) int {
	var d struct {
		PubKeys []string `json:"pubkeys"`
		Tweaks  []string `json:"tweaks"`
		Valid   []struct {
			Keys     []int  `json:"key_indices"`
			Expected string `json:"expected"`
		} `json:"valid_test_cases"`
		Errors []struct {
			Keys   []int  `json:"key_indices"`
			Tweaks []int  `json:"tweak_indices"`
			XOnly  []bool `json:"is_xonly"`
			Error  vecErr `json:"error"`
		} `json:"error_test_cases"`
	}
	loadJSON(path, &d)
	for i, c := range d.Valid {
		ctx, err := refec.KeyAgg(pick(d.PubKeys, c.Keys))
		if err != nil || !bytes.Equal(refec.XBytes(ctx.Q), mustHex(c.Expected)) {
			R.Broken("refec.KeyAgg disagrees with key_agg_vectors.json valid case %d (%v)", i, err)
		}
	}
	for i, c := range d.Errors {
		_, err := refec.KeyAggWithTweaks(pick(d.PubKeys, c.Keys), mkTweaks(d.Tweaks, c.Tweaks, c.XOnly))
		var want error
		switch {
		case c.Error.Contrib == "pubkey":
			want = refec.ErrInvalidPubKey
		case strings.Contains(c.Error.Message, "less than n"):
			want = refec.ErrTweakRange
		case strings.Contains(c.Error.Message, "infinity"):
			want = refec.ErrTweakInfinity
		}
		if err == nil || err != want {
			R.Broken("refec.KeyAgg disagrees with key_agg_vectors.json error case %d: got %v want %v", i, err, want)
		}
	}
	return len(d.Valid) + len(d.Errors)
}

func bindNonceGen(path string) int {
	var d struct {
		Cases []struct {
			Rand     string  `json:"rand_"`
			Sk       *string `json:"sk"`
			Pk       string  `json:"pk"`
			AggPk    *string `json:"aggpk"`
			Msg      *string `json:"msg"`
			ExtraIn  *string `json:"extra_in"`
			Expected string  `json:"expected"`
		} `json:"test_cases"`
	}
	loadJSON(path, &d)
	opt := func(s *string) []byte {
		if s == nil {
			return nil
		}
		b := mustHex(*s)
		if b == nil {
			b = []byte{}
		}
		return b
	}
	for i, c := range d.Cases {
		sec, _, err := refec.NonceGen(mustHex(c.Rand), opt(c.Sk), mustHex(c.Pk), opt(c.AggPk), opt(c.Msg), opt(c.ExtraIn))
		want := mustHex(c.Expected)
		// the shipped vectors list k1 || k2 (|| pk in newer revisions)
		if err != nil || !bytes.Equal(sec[:len(want)], want) {
			R.Broken("refec.NonceGen disagrees with nonce_gen_vectors.json case %d (%v)", i, err)
		}
	}
	return len(d.Cases)
}

func bindNonceAgg(path string) int {
	var d struct {
		PNonces []string `json:"pnonces"`
		Valid   []struct {
			Idx      []int  `json:"pnonce_indices"`
			Expected string `json:"expected"`
		} `json:"valid_test_cases"`
		Errors []struct {
			Idx   []int  `json:"pnonce_indices"`
			Error vecErr `json:"error"`
		} `json:"error_test_cases"`
	}
	loadJSON(path, &d)
	for i, c := range d.Valid {
		got, _, err := refec.NonceAgg(pick(d.PNonces, c.Idx))
		if err != nil || !bytes.Equal(got, mustHex(c.Expected)) {
			R.Broken("refec.NonceAgg disagrees with nonce_agg_vectors.json valid case %d", i)
		}
	}
	for i, c := range d.Errors {
		_, who, err := refec.NonceAgg(pick(d.PNonces, c.Idx))
		if err != refec.ErrInvalidPubNonce || c.Error.Signer == nil || who != *c.Error.Signer {
			R.Broken("refec.NonceAgg disagrees with nonce_agg_vectors.json error case %d: %v signer %d", i, err, who)
		}
	}
	return len(d.Valid) + len(d.Errors)
}

func bindSignVerify(path string) int {
	var d struct {
		Sk        string   `json:"sk"`
		PubKeys   []string `json:"pubkeys"`
		SecNonces []string `json:"secnonces"`
		PNonces   []string `json:"pnonces"`
		AggNonces []string `json:"aggnonces"`
		Msgs      []string `json:"msgs"`
		Valid     []struct {
			Keys     []int  `json:"key_indices"`
			Nonces   []int  `json:"nonce_indices"`
			AggNonce int    `json:"aggnonce_index"`
			Msg      int    `json:"msg_index"`
			Signer   int    `json:"signer_index"`
			Expected string `json:"expected"`
		} `json:"valid_test_cases"`
		SignErr []struct {
			Keys     []int  `json:"key_indices"`
			AggNonce int    `json:"aggnonce_index"`
			Msg      int    `json:"msg_index"`
			SecNonce int    `json:"secnonce_index"`
			Error    vecErr `json:"error"`
		} `json:"sign_error_test_cases"`
		VerifyFail []struct {
			Sig    string `json:"sig"`
			Keys   []int  `json:"key_indices"`
			Nonces []int  `json:"nonce_indices"`
			Msg    int    `json:"msg_index"`
			Signer int    `json:"signer_index"`
		} `json:"verify_fail_test_cases"`
		VerifyErr []struct {
			Sig    string `json:"sig"`
			Keys   []int  `json:"key_indices"`
			Nonces []int  `json:"nonce_indices"`
			Msg    int    `json:"msg_index"`
			Signer int    `json:"signer_index"`
			Error  vecErr `json:"error"`
		} `json:"verify_error_test_cases"`
	}
	loadJSON(path, &d)
	sk := mustHex(d.Sk)
	for i, c := range d.Valid {
		pns := pick(d.PNonces, c.Nonces)
		agg, _, err := refec.NonceAgg(pns)
		if err != nil || !bytes.Equal(agg, mustHex(d.AggNonces[c.AggNonce])) {
			R.Broken("refec.NonceAgg disagrees with sign_verify_vectors.json valid case %d", i)
		}
		sc := &refec.SessionCtx{AggNonce: agg, PubKeys: pick(d.PubKeys, c.Keys), Msg: mustHex(d.Msgs[c.Msg])}
		ps, err := refec.PartialSign(mustHex(d.SecNonces[0]), sk, sc)
		if err != nil || !bytes.Equal(ps, mustHex(c.Expected)) {
			R.Broken("refec.PartialSign disagrees with sign_verify_vectors.json valid case %d (%v)", i, err)
		}
		if err := refec.PartialSigVerify(ps, pns, sc.PubKeys, nil, sc.Msg, c.Signer); err != nil {
			R.Broken("refec.PartialSigVerify rejects sign_verify_vectors.json valid case %d (%v)", i, err)
		}
	}
	for i, c := range d.SignErr {
		sc := &refec.SessionCtx{AggNonce: mustHex(d.AggNonces[c.AggNonce]), PubKeys: pick(d.PubKeys, c.Keys), Msg: mustHex(d.Msgs[c.Msg])}
		_, err := refec.PartialSign(mustHex(d.SecNonces[c.SecNonce]), sk, sc)
		var want error
		switch {
		case c.Error.Contrib == "pubkey":
			want = refec.ErrInvalidPubKey
		case c.Error.Contrib == "aggnonce":
			want = refec.ErrInvalidAggNonce
		case strings.Contains(c.Error.Message, "must be included"):
			want = refec.ErrPubKeyNotInList
		case strings.Contains(c.Error.Message, "secnonce"):
			want = refec.ErrSecNonceRange
		}
		if err == nil || err != want {
			R.Broken("refec.PartialSign disagrees with sign_verify_vectors.json sign error case %d: got %v want %v", i, err, want)
		}
	}
	for i, c := range d.VerifyFail {
		err := refec.PartialSigVerify(mustHex(c.Sig), pick(d.PNonces, c.Nonces), pick(d.PubKeys, c.Keys), nil, mustHex(d.Msgs[c.Msg]), c.Signer)
		if err != refec.ErrPartialSigVerify && err != refec.ErrInvalidPartial {
			R.Broken("refec.PartialSigVerify disagrees with sign_verify_vectors.json verify-fail case %d: %v", i, err)
		}
	}
	for i, c := range d.VerifyErr {
		err := refec.PartialSigVerify(mustHex(c.Sig), pick(d.PNonces, c.Nonces), pick(d.PubKeys, c.Keys), nil, mustHex(d.Msgs[c.Msg]), c.Signer)
		want := refec.ErrInvalidPubNonce
		if c.Error.Contrib == "pubkey" {
			want = refec.ErrInvalidPubKey
		}
		if err != want {
			R.Broken("refec.PartialSigVerify disagrees with sign_verify_vectors.json verify-error case %d: %v", i, err)
		}
	}
	return len(d.Valid) + len(d.SignErr) + len(d.VerifyFail) + len(d.VerifyErr)
}

func bindTweak(path string) int {
	var d struct {
		Sk       string   `json:"sk"`
		PubKeys  []string `json:"pubkeys"`
		SecNonce string   `json:"secnonce"`
		PNonces  []string `json:"pnonces"`
		AggNonce string   `json:"aggnonce"`
		Tweaks   []string `json:"tweaks"`
		Msg      string   `json:"msg"`
		Valid    []struct {
			Keys     []int  `json:"key_indices"`
			Nonces   []int  `json:"nonce_indices"`
			Tweaks   []int  `json:"tweak_indices"`
			XOnly    []bool `json:"is_xonly"`
			Signer   int    `json:"signer_index"`
			Expected string `json:"expected"`
		} `json:"valid_test_cases"`
		Errors []struct {
			Keys   []int  `json:"key_indices"`
			Nonces []int  `json:"nonce_indices"`
			Tweaks []int  `json:"tweak_indices"`
			XOnly  []bool `json:"is_xonly"`
			Signer int    `json:"signer_index"`
		} `json:"error_test_cases"`
	}
	loadJSON(path, &d)
	for i, c := range d.Valid {
		pns := pick(d.PNonces, c.Nonces)
		tw := mkTweaks(d.Tweaks, c.Tweaks, c.XOnly)
		sc := &refec.SessionCtx{AggNonce: mustHex(d.AggNonce), PubKeys: pick(d.PubKeys, c.Keys), Tweaks: tw, Msg: mustHex(d.Msg)}
		ps, err := refec.PartialSign(mustHex(d.SecNonce), mustHex(d.Sk), sc)
		if err != nil || !bytes.Equal(ps, mustHex(c.Expected)) {
			R.Broken("refec.PartialSign disagrees with tweak_vectors.json valid case %d (%v)", i, err)
		}
		if err := refec.PartialSigVerify(ps, pns, sc.PubKeys, tw, sc.Msg, c.Signer); err != nil {
			R.Broken("refec.PartialSigVerify rejects tweak_vectors.json valid case %d (%v)", i, err)
		}
	}
	for i, c := range d.Errors {
		sc := &refec.SessionCtx{AggNonce: mustHex(d.AggNonce), PubKeys: pick(d.PubKeys, c.Keys), Tweaks: mkTweaks(d.Tweaks, c.Tweaks, c.XOnly), Msg: mustHex(d.Msg)}
		if _, err := refec.PartialSign(mustHex(d.SecNonce), mustHex(d.Sk), sc); err != refec.ErrTweakRange {
			R.Broken("refec.PartialSign disagrees with tweak_vectors.json error case %d: %v", i, err)
		}
	}
	return len(d.Valid) + len(d.Errors)
}

func bindSigAgg(path string) int {
	var d struct {
		PubKeys []string `json:"pubkeys"`
		PNonces []string `json:"pnonces"`
		Tweaks  []string `json:"tweaks"`
		PSigs   []string `json:"psigs"`
		Msg     string   `json:"msg"`
		Valid   []struct {
			AggNonce string `json:"aggnonce"`
			Nonces   []int  `json:"nonce_indices"`
			Keys     []int  `json:"key_indices"`
			Tweaks   []int  `json:"tweak_indices"`
			XOnly    []bool `json:"is_xonly"`
			PSigs    []int  `json:"psig_indices"`
			Expected string `json:"expected"`
		} `json:"valid_test_cases"`
		Errors []struct {
			AggNonce string `json:"aggnonce"`
			Nonces   []int  `json:"nonce_indices"`
			Keys     []int  `json:"key_indices"`
			Tweaks   []int  `json:"tweak_indices"`
			XOnly    []bool `json:"is_xonly"`
			PSigs    []int  `json:"psig_indices"`
			Error    vecErr `json:"error"`
		} `json:"error_test_cases"`
	}
	loadJSON(path, &d)
	for i, c := range d.Valid {
		agg, _, err := refec.NonceAgg(pick(d.PNonces, c.Nonces))
		if err != nil || !bytes.Equal(agg, mustHex(c.AggNonce)) {
			R.Broken("refec.NonceAgg disagrees with sig_agg_vectors.json valid case %d", i)
		}
		sc := &refec.SessionCtx{AggNonce: agg, PubKeys: pick(d.PubKeys, c.Keys), Tweaks: mkTweaks(d.Tweaks, c.Tweaks, c.XOnly), Msg: mustHex(d.Msg)}
		sig, _, err := refec.PartialSigAgg(pick(d.PSigs, c.PSigs), sc)
		if err != nil || !bytes.Equal(sig, mustHex(c.Expected)) {
			R.Broken("refec.PartialSigAgg disagrees with sig_agg_vectors.json valid case %d (%v)", i, err)
		}
		kc, _ := refec.KeyAggWithTweaks(sc.PubKeys, sc.Tweaks)
		if !refec.SchnorrVerify(refec.XBytes(kc.Q), sc.Msg, sig) {
			R.Broken("refec.SchnorrVerify rejects the aggregate signature of sig_agg_vectors.json valid case %d", i)
		}
	}
	for i, c := range d.Errors {
		sc := &refec.SessionCtx{AggNonce: mustHex(c.AggNonce), PubKeys: pick(d.PubKeys, c.Keys), Tweaks: mkTweaks(d.Tweaks, c.Tweaks, c.XOnly), Msg: mustHex(d.Msg)}
		_, who, err := refec.PartialSigAgg(pick(d.PSigs, c.PSigs), sc)
		if err != refec.ErrInvalidPartial || c.Error.Signer == nil || who != *c.Error.Signer {
			R.Broken("refec.PartialSigAgg disagrees with sig_agg_vectors.json error case %d: %v signer %d", i, err, who)
		}
	}
	return len(d.Valid) + len(d.Errors)
}
