// C11 — secp256k1 verification is sound and complete; signers always verify.
//
// Bounded exhaustive enumeration of boundary-value grids against the real btcec
// code (btcec, btcec/ecdsa, btcec/schnorr, btcec/schnorr/musig2), each case
// compared with verif/ref/refec: secp256k1 over math/big in affine coordinates
// with the defining equations of SEC1/RFC6979, BIP340, BIP327 and the BIP66 DER
// grammar written out verbatim.  The reference is first bound to every vector
// the repo ships (BIP340, RFC6979, recovery, DER and pubkey examples, the full
// BIP327 JSON set); a disagreement there is a broken oracle (exit 2).
package main

import (
	"fmt"
	"os"
	"runtime"
	"sort"
	"strings"
	"sync"
	"time"

	"verif/engine/ev"
)

// R is the evidence collector of this run.
var R *ev.Run

// Case is one self-contained, replayable case: a kind (which sub-check) and
// named fields (hex strings / small symbolic values).
type Case struct {
	Kind string            `json:"kind"`
	F    map[string]string `json:"f"`
}

func (c Case) canon() string {
	ks := make([]string, 0, len(c.F))
	for k := range c.F {
		if k == "label" {
			continue
		}
		ks = append(ks, k)
	}
	sort.Strings(ks)
	var sb strings.Builder
	sb.WriteString(c.Kind)
	for _, k := range ks {
		sb.WriteString("|" + k + "=" + c.F[k])
	}
	return sb.String()
}

// fail is one disagreement between btcd and the reference inside a case.
type fail struct{ key, what string }

type failer struct {
	c     Case
	fails []fail
}

// bad records a disagreement.  sub names the observed call / sub-property.
func (f *failer) bad(sub string, format string, a ...interface{}) {
	lbl := f.c.F["label"]
	if lbl == "" {
		lbl = f.c.canon()
		if len(lbl) > 120 {
			lbl = lbl[:120]
		}
	}
	f.fails = append(f.fails, fail{key: sub + "/" + lbl, what: sub + ": " + fmt.Sprintf(format, a...) + " [" + lbl + "]"})
}

var kinds = map[string]func(*failer){}

// execCase runs one case on the implementation and on the reference.
func execCase(c Case) (out []fail) {
	f := &failer{c: c}
	defer func() {
		if p := recover(); p != nil {
			buf := make([]byte, 2048)
			buf = buf[:runtime.Stack(buf, false)]
			f.bad(c.Kind+"/panic", "panic: %v | %s", p, strings.ReplaceAll(string(buf), "\n", " / "))
			out = f.fails
		}
	}()
	fn, ok := kinds[c.Kind]
	if !ok {
		R.Broken("unknown case kind %q", c.Kind)
	}
	fn(f)
	return f.fails
}

func sameFails(a, b []fail) bool {
	if len(a) != len(b) {
		return false
	}
	for i := range a {
		if a[i].key != b[i].key {
			return false
		}
	}
	return true
}

var sampleMu sync.Mutex
var sampledKinds = map[string]int{}

// runCase executes, counts and (after three confirming re-runs) reports.
func runCase(c Case) {
	if R.Expired() {
		R.Add("cases_skipped_time_box", 1)
		return
	}
	R.Eval(1)
	R.Trace(1)
	R.Add("cases_"+c.Kind, 1)
	R.Nontrivial(c.canon())
	sampleMu.Lock()
	if sampledKinds[c.Kind] < 1 {
		sampledKinds[c.Kind]++
		sampleMu.Unlock()
		R.Sample(c)
	} else {
		sampleMu.Unlock()
	}
	fails := execCase(c)
	if len(fails) == 0 {
		return
	}
	for i := 0; i < 3; i++ {
		if again := execCase(c); !sameFails(fails, again) {
			R.Broken("verdict of case %s flips between runs", c.canon())
		}
	}
	for _, f := range fails {
		R.Violation(f.key, f.what, c)
	}
}

func runAll(name string, cases []Case) {
	t0 := time.Now()
	ev.Par(len(cases), runtime.NumCPU(), func(i int) { runCase(cases[i]) })
	R.Set("phase_"+name, map[string]interface{}{"cases": len(cases), "wall_s": fmt.Sprintf("%.2f", time.Since(t0).Seconds())})
}

func main() {
	R = ev.Start("C11")
	R.Rule("cases = Cartesian products of boundary alphabets (messages x private keys x (r,s) grid^2; every public-key " +
		"byte shape; every DER string with <=2 grammar deviations; signer options; MuSig2 key lists with duplicates x " +
		"orderings x sort flag x tweak chains). Every case is executed on btcec and compared with refec (big.Int affine " +
		"reference of the defining equations). A case is distinct by its complete input encoding; all counted cases reach " +
		"the comparison with the reference.")
	R.Assume("decred secp256k1 field/group/scalar arithmetic (module cache, outside /repo) is the trusted base; it is still exercised end-to-end through btcec")
	R.Assume("SHA-256/HMAC from the Go standard library")
	R.Assume("soundness/completeness is shown for the enumerated alphabets only (values outside the grids are not reached)")

	if R.ReplayPath != "" {
		var c Case
		R.LoadReplay(&c)
		setup(true)
		fails := execCase(c)
		for _, f := range fails {
			R.Violation(f.key, f.what, c)
		}
		R.Finish(false)
		return
	}

	t0 := time.Now()
	bound := bindAll()
	R.Set("reference_bound_to_shipped_vectors", bound)
	R.Set("bind_wall_s", fmt.Sprintf("%.2f", time.Since(t0).Seconds()))

	setup(R.Thorough())
	bounds := map[string]interface{}{}
	// internal time box (only matters on an overloaded machine): the phases run
	// in a fixed order; when it expires the remaining cases are skipped and the
	// run is reported as capped / not exhaustive
	if R.Thorough() {
		R.SetBudget(14 * time.Minute)
	} else {
		R.SetBudget(9 * time.Minute)
	}

	phases := []struct {
		name string
		gen  func(map[string]interface{}) []Case
	}{
		{"pubkey_shapes", genPubKeyCases}, {"ecdsa_grid", genECDSACases}, {"schnorr_grid", genSchnorrCases},
		{"der_grammar", genDERCases}, {"recover_compact", genRecoverCases}, {"signers", genSignerCases},
		{"ecdh", genECDHCases}, {"musig2_noncegen", genNonceGenCases}, {"musig2_edges", genMusigEdgeCases},
		{"musig2_sessions", genMusigCases},
	}
	// development aid (never set by the harness): run a subset of the phases
	only := os.Getenv("VERIF_C11_PHASES")
	for _, ph := range phases {
		if only != "" && !strings.Contains(","+only+",", ","+ph.name+",") {
			R.Cap("phase " + ph.name + " skipped (VERIF_C11_PHASES)")
			continue
		}
		runAll(ph.name, ph.gen(bounds))
	}

	R.Set("bounds", bounds)
	if R.Expired() {
		R.Cap("time box hit: the phases listed with wall_s completed in order, the cases counted in cases_skipped_time_box were not run")
	}
	R.Finish(only == "")
}
