package main

import (
	"bytes"
	"fmt"
	"math/big"

	"github.com/btcsuite/btcd/btcec/v2"
	"github.com/btcsuite/btcd/btcec/v2/ecdsa"

	"verif/ref/refec"
)

func init() { kinds["ecdsa"] = kindECDSA }

// kindECDSA: (message, public key bytes, r, s).  The pair (r,s) is offered
// through its canonical DER encoding to both parsers and, when representable,
// directly as scalars; every admitted signature is verified and compared with
// the SEC1 verification equation.
func kindECDSA(f *failer) {
	msg := unhex(f, "msg")
	pubB := unhex(f, "pub")
	r, s := bigField(f, "r"), bigField(f, "s")

	P, pOK := refec.ParsePubKey(pubB)
	pk, err := btcec.ParsePubKey(pubB)
	if (err == nil) != pOK {
		f.bad("btcec.ParsePubKey/accept", "btcd accept=%v (err=%v), reference accept=%v", err == nil, err, pOK)
		return
	}
	if pOK && !refec.Equal(pointOfPub(pk), P) {
		f.bad("btcec.ParsePubKey/point", "btcd (%s) != reference (%s)", pointStr(pointOfPub(pk)), pointStr(P))
		return
	}
	var want, haveWant bool
	verdict := func() bool {
		if !haveWant {
			want, haveWant = refec.ECDSAVerify(P, msg, r, s), true
			if want {
				R.Add("ecdsa_equation_holds", 1)
			} else {
				R.Add("ecdsa_equation_fails", 1)
			}
		}
		return want
	}
	inRange := r.Sign() > 0 && r.Cmp(refec.N) < 0 && s.Sign() > 0 && s.Cmp(refec.N) < 0
	der := refec.EncodeDER(r, s)
	ls, _ := refec.LowS(new(big.Int).Mod(s, refec.N))
	parsers := []struct {
		name string
		fn   func([]byte) (*ecdsa.Signature, error)
	}{{"ecdsa.ParseDERSignature", ecdsa.ParseDERSignature}, {"ecdsa.ParseSignature", ecdsa.ParseSignature}}
	for _, p := range parsers {
		sig, err := p.fn(der)
		if (err == nil) != inRange {
			f.bad(p.name+"/range", "accept=%v (err=%v) for r=%s s=%s, want accept=%v (r,s in [1,n-1])", err == nil, err, bh(r), bh(s), inRange)
			continue
		}
		if err != nil {
			continue
		}
		gr, gs := sig.R(), sig.S()
		if bigOfScalar(&gr).Cmp(r) != 0 || bigOfScalar(&gs).Cmp(s) != 0 {
			f.bad(p.name+"/value", "parsed (r,s)=(%s,%s) want (%s,%s)", bh(bigOfScalar(&gr)), bh(bigOfScalar(&gs)), bh(r), bh(s))
		}
		if ser := sig.Serialize(); !bytes.Equal(ser, refec.EncodeDER(r, ls)) {
			f.bad("ecdsa.Signature.Serialize", "got %x want canonical low-S %x", ser, refec.EncodeDER(r, ls))
		}
		if pOK {
			if got := sig.Verify(msg, pk); got != verdict() {
				f.bad("ecdsa.Signature.Verify", "(via %s) btcd=%v, SEC1 equation=%v", p.name, got, verdict())
			}
		}
	}
	// direct construction (zero is representable, values >= n are not)
	if r.Cmp(refec.N) < 0 && s.Cmp(refec.N) < 0 && pOK {
		sig := ecdsa.NewSignature(scalarOf(r), scalarOf(s))
		if got := sig.Verify(msg, pk); got != verdict() {
			f.bad("ecdsa.Signature.Verify", "(via NewSignature) btcd=%v, SEC1 equation=%v", got, verdict())
		}
	}
}

func lbl(v *big.Int, fallback string) string {
	if s := symName(v); s != "" {
		return s
	}
	return fallback
}

func genECDSACases(bounds map[string]interface{}) []Case {
	var cases []Case
	seen := map[string]bool{}
	add := func(msg []byte, pub []byte, r, s *big.Int, label string) {
		c := Case{Kind: "ecdsa", F: map[string]string{"msg": hx(msg), "pub": hx(pub), "r": bh(r), "s": bh(s), "label": label}}
		if k := c.canon(); !seen[k] {
			seen[k] = true
			cases = append(cases, c)
		}
	}
	nonces := []named{{"k=3", big.NewInt(3)}, {"k=drv", derivedScalar("ecdsa-kB")}}
	boundary := []*big.Int{big.NewInt(0), big.NewInt(1), nM1, refec.N, nP1, pM1, refec.P, pP1, max256}
	for _, m := range msgAlpha {
		msg := refec.Bytes32(m.v)
		for _, d := range privAlpha {
			P := pubOf(d.v)
			var rs, ss []named
			for _, k := range nonces {
				r, s, _, ok := refec.ECDSASignWithNonce(d.v, msg, k.v)
				if !ok {
					continue
				}
				rs = append(rs, named{"valid(" + k.name + ")", r})
				ss = append(ss, named{"valid(" + k.name + ")", s}, named{"n-valid(" + k.name + ")", new(big.Int).Sub(refec.N, s)})
			}
			for _, b := range boundary {
				rs = append(rs, named{symName(b), b})
				ss = append(ss, named{symName(b), b})
			}
			for _, r := range rs {
				for _, s := range ss {
					add(msg, refec.Compressed(P), r.v, s.v, fmt.Sprintf("m=%s/d=%s/pub=compressed/r=%s/s=%s", m.name, d.name, r.name, s.name))
				}
			}
			// the valid pairs under every admitted public key format and under
			// the negated key
			for i := range nonces {
				r, s := rs[i], ss[2*i]
				for _, pf := range []struct {
					n string
					b []byte
				}{{"uncompressed", refec.Uncompressed(P)}, {"hybrid", refec.Hybrid(P)}, {"compressed-negated", refec.Compressed(refec.Neg(P))}, {"hybrid-negated", refec.Hybrid(refec.Neg(P))}} {
					add(msg, pf.b, r.v, s.v, fmt.Sprintf("m=%s/d=%s/pub=%s/r=%s/s=%s", m.name, d.name, pf.n, r.name, s.name))
				}
			}
		}
	}
	// x(R) >= n: r = x(R) - n.  Choose R = lift_x(x) for the first abscissas
	// >= n, any s, and solve for the public key Q = r^-1 (s*R - e*G).
	cnt := 0
	for x := new(big.Int).Add(refec.N, bigOne); cnt < 2; x.Add(x, bigOne) {
		Rp, ok := refec.LiftX(x)
		if !ok {
			continue
		}
		cnt++
		r := new(big.Int).Sub(x, refec.N)
		rinv := new(big.Int).ModInverse(r, refec.N)
		for _, Rpt := range []refec.Point{Rp, refec.Neg(Rp)} {
			for _, m := range msgAlpha[:3] {
				msg := refec.Bytes32(m.v)
				for _, s := range []named{{"1", big.NewInt(1)}, {"drv", derivedScalar("ecdsa-s")}} {
					t := refec.Add(refec.ScalarMult(s.v, Rpt), refec.Neg(refec.ScalarMult(refec.Int(msg), refec.G)))
					Q := refec.ScalarMult(rinv, t)
					if Q.Inf {
						continue
					}
					lb := fmt.Sprintf("m=%s/x(R)=n+%s/Rodd=%d/s=%s", m.name, bh(r), Rpt.Y.Bit(0), s.name)
					add(msg, refec.Compressed(Q), r, s.v, lb+"/r=x-n")
					add(msg, refec.Compressed(Q), new(big.Int).Add(r, bigOne), s.v, lb+"/r=x-n+1")
				}
			}
		}
	}
	bounds["ecdsa_grid"] = map[string]interface{}{
		"messages":     names(msgAlpha),
		"private_keys": names(privAlpha),
		"r":            "valid(k=3), valid(k=drv), 0, 1, n-1, n, n+1, p-1, p, p+1, 2^256-1",
		"s":            "valid and n-valid for both nonces, 0, 1, n-1, n, n+1, p-1, p, p+1, 2^256-1",
		"pub_formats":  "compressed (full grid); uncompressed, hybrid, negated compressed/hybrid (valid pairs)",
		"special":      "x(R) >= n with r = x(R)-n (first 2 abscissas >= n, both parities, solved public key)",
		"cases":        len(cases),
	}
	return cases
}

func names(a []named) []string {
	out := make([]string, len(a))
	for i, v := range a {
		out[i] = v.name
	}
	return out
}
