package main

import (
	"bytes"
	"fmt"
	"math/big"

	"github.com/btcsuite/btcd/btcec/v2/ecdsa"

	"verif/ref/refec"
)

func init() { kinds["der"] = kindDER }

// kindDER: one byte string offered to ecdsa.ParseDERSignature (strict) and
// ecdsa.ParseSignature (lax).
//
// Strict contract (btcd documents that a strict signature may be followed by
// "trailing nonsense", e.g. the hash type byte): accept iff the buffer is 8..72
// bytes and the prefix delimited by the SEQUENCE header is canonical BIP66 DER
// with r, s in [1, n-1].  Lax contract: see refec.ParseDERSigLax.
func kindDER(f *failer) {
	b := unhex(f, "b")
	wr, ws, wok := refec.ParseDERSigStrictPrefix(b)
	sig, err := ecdsa.ParseDERSignature(b)
	switch {
	case err == nil && !wok:
		f.bad("ecdsa.ParseDERSignature/accepts-non-canonical", "btcd accepts %x, the strict model rejects it", b)
	case err != nil && wok:
		f.bad("ecdsa.ParseDERSignature/rejects-canonical", "btcd rejects %x (%v), the strict model accepts it", b, err)
	case err == nil:
		R.Add("der_strict_accepted", 1)
		gr, gs := sig.R(), sig.S()
		if bigOfScalar(&gr).Cmp(wr) != 0 || bigOfScalar(&gs).Cmp(ws) != 0 {
			f.bad("ecdsa.ParseDERSignature/value", "parsed (%s,%s) want (%s,%s)", bh(bigOfScalar(&gr)), bh(bigOfScalar(&gs)), bh(wr), bh(ws))
		}
		ls, neg := refec.LowS(ws)
		canon := refec.EncodeDER(wr, ls)
		ser := sig.Serialize()
		if !bytes.Equal(ser, canon) {
			f.bad("ecdsa.Signature.Serialize", "got %x want %x", ser, canon)
		}
		// serialize . parse = id on canonical low-S encodings without trailer
		if !neg && len(b) == 2+int(b[1]) && !bytes.Equal(ser, b) {
			f.bad("ecdsa.Serialize.Parse/identity", "serialize(parse(x)) = %x != x = %x", ser, b)
		}
		// parse . serialize = id
		sig2, err2 := ecdsa.ParseDERSignature(ser)
		if err2 != nil {
			f.bad("ecdsa.Parse.Serialize/identity", "re-parsing %x fails: %v", ser, err2)
		} else {
			r2, s2 := sig2.R(), sig2.S()
			if bigOfScalar(&r2).Cmp(wr) != 0 || bigOfScalar(&s2).Cmp(ls) != 0 {
				f.bad("ecdsa.Parse.Serialize/identity", "parse(serialize(sig)) changed the value")
			}
		}
	default:
		R.Add("der_strict_rejected", 1)
	}

	lr, lsv, lok, def := refec.ParseDERSigLax(b)
	lsig, lerr := ecdsa.ParseSignature(b)
	if def {
		switch {
		case lerr == nil && !lok:
			f.bad("ecdsa.ParseSignature/accepts", "btcd (lax) accepts %x, the lax model rejects it", b)
		case lerr != nil && lok:
			f.bad("ecdsa.ParseSignature/rejects", "btcd (lax) rejects %x (%v), the lax model accepts it", b, lerr)
		case lerr == nil:
			R.Add("der_lax_accepted", 1)
			gr, gs := lsig.R(), lsig.S()
			if bigOfScalar(&gr).Cmp(lr) != 0 || bigOfScalar(&gs).Cmp(lsv) != 0 {
				f.bad("ecdsa.ParseSignature/value", "parsed (%s,%s) want (%s,%s)", bh(bigOfScalar(&gr)), bh(bigOfScalar(&gs)), bh(lr), bh(lsv))
			}
		}
	} else {
		R.Add("der_lax_unspecified_long_form_length", 1)
	}
	// whatever the strict parser admits the lax parser admits with the same value
	if err == nil {
		if lerr != nil {
			f.bad("ecdsa.ParseSignature/strict-subset", "strict accepts %x but lax rejects it (%v)", b, lerr)
		} else if !sig.IsEqual(lsig) {
			f.bad("ecdsa.ParseSignature/strict-subset", "strict and lax parse %x to different values", b)
		}
	}
}

// ---- grammar with deviations

type derInt struct {
	tag      byte
	lenMode  int // 0 short form, 1 = 0x81 LL, 2 = 0x82 00 LL
	lenDelta int
	content  []byte
}

type derForm struct {
	seqTag      byte
	seqLenMode  int
	seqLenDelta int
	ints        [2]derInt
	inTrail     []byte // extra bytes inside the SEQUENCE (counted in its length)
	outTrail    []byte // extra bytes after the SEQUENCE
	truncate    int    // bytes dropped from the end of the final string
}

func encLen(n int, mode int) []byte {
	switch mode {
	case 1:
		return []byte{0x81, byte(n)}
	case 2:
		return []byte{0x82, 0x00, byte(n)}
	}
	return []byte{byte(n)}
}

func (d *derForm) bytes() []byte {
	var body []byte
	for _, in := range d.ints {
		body = append(body, in.tag)
		body = append(body, encLen(len(in.content)+in.lenDelta, in.lenMode)...)
		body = append(body, in.content...)
	}
	body = append(body, d.inTrail...)
	out := []byte{d.seqTag}
	out = append(out, encLen(len(body)+d.seqLenDelta, d.seqLenMode)...)
	out = append(out, body...)
	out = append(out, d.outTrail...)
	if d.truncate > 0 && d.truncate <= len(out) {
		out = out[:len(out)-d.truncate]
	}
	return out
}

type deviation struct {
	name  string
	slot  string // deviations with the same slot exclude each other
	apply func(*derForm)
}

func derDeviations() []deviation {
	var dv []deviation
	add := func(name, slot string, fn func(*derForm)) { dv = append(dv, deviation{name, slot, fn}) }
	for _, t := range []byte{0x31, 0x20, 0x10, 0x00, 0x02} {
		t := t
		add(fmt.Sprintf("seqtag=%02x", t), "seqtag", func(d *derForm) { d.seqTag = t })
	}
	add("seqlen-1", "seqlen", func(d *derForm) { d.seqLenDelta = -1 })
	add("seqlen+1", "seqlen", func(d *derForm) { d.seqLenDelta = 1 })
	add("seqlen=long81", "seqlen", func(d *derForm) { d.seqLenMode = 1 })
	add("seqlen=long82", "seqlen", func(d *derForm) { d.seqLenMode = 2 })
	for i, nm := range []string{"r", "s"} {
		i, nm := i, nm
		for _, t := range []byte{0x03, 0x00, 0x82, 0x30} {
			t := t
			add(fmt.Sprintf("%stag=%02x", nm, t), nm+"tag", func(d *derForm) { d.ints[i].tag = t })
		}
		add(nm+"len-1", nm+"len", func(d *derForm) { d.ints[i].lenDelta = -1 })
		add(nm+"len+1", nm+"len", func(d *derForm) { d.ints[i].lenDelta = 1 })
		add(nm+"len=long81", nm+"len", func(d *derForm) { d.ints[i].lenMode = 1 })
		add(nm+"=empty", nm+"content", func(d *derForm) { d.ints[i].content = nil })
		add(nm+"=pad00", nm+"content", func(d *derForm) { d.ints[i].content = append([]byte{0}, d.ints[i].content...) })
		add(nm+"=pad0000", nm+"content", func(d *derForm) { d.ints[i].content = append([]byte{0, 0}, d.ints[i].content...) })
		add(nm+"=strip00", nm+"content", func(d *derForm) {
			if c := d.ints[i].content; len(c) > 1 && c[0] == 0 {
				d.ints[i].content = c[1:]
			}
		})
		add(nm+"=negative", nm+"content", func(d *derForm) {
			c := append([]byte{}, d.ints[i].content...)
			c[0] |= 0x80
			d.ints[i].content = c
		})
		add(nm+"=2^256", nm+"content", func(d *derForm) { d.ints[i].content = append([]byte{1}, make([]byte, 32)...) })
		add(nm+"=pad00x40", nm+"content", func(d *derForm) { d.ints[i].content = append(make([]byte, 40), d.ints[i].content...) })
	}
	add("intrail=00", "intrail", func(d *derForm) { d.inTrail = []byte{0} })
	add("intrail=ff", "intrail", func(d *derForm) { d.inTrail = []byte{0xff} })
	add("intrail=020100", "intrail", func(d *derForm) { d.inTrail = []byte{2, 1, 0} })
	add("outtrail=00", "outtrail", func(d *derForm) { d.outTrail = []byte{0} })
	add("outtrail=01", "outtrail", func(d *derForm) { d.outTrail = []byte{1} })
	add("outtrail=2bytes", "outtrail", func(d *derForm) { d.outTrail = []byte{0x81, 0xff} })
	add("outtrail=64bytes", "outtrail", func(d *derForm) { d.outTrail = bytes.Repeat([]byte{0xab}, 64) })
	add("truncate1", "truncate", func(d *derForm) { d.truncate = 1 })
	add("truncate2", "truncate", func(d *derForm) { d.truncate = 2 })
	return dv
}

func genDERCases(bounds map[string]interface{}) []Case {
	// integer alphabet for r and s
	lowValid, _, _, _ := refec.ECDSASignWithNonce(big.NewInt(1), refec.Bytes32(big.NewInt(1)), big.NewInt(3)) // some 32-byte x
	vals := []named{
		{"1", big.NewInt(1)}, {"0x7f", big.NewInt(0x7f)}, {"0x80", big.NewInt(0x80)},
		{"valid32", lowValid}, {"halfN", refec.HalfN}, {"halfN+1", new(big.Int).Add(refec.HalfN, bigOne)},
		{"n-1", nM1}, {"n", refec.N}, {"0", big.NewInt(0)},
	}
	if R.Thorough() {
		vals = append(vals, named{"0xff", big.NewInt(0xff)}, named{"0x100", big.NewInt(0x100)}, named{"2^255", new(big.Int).Lsh(bigOne, 255)},
			named{"2^255-1", new(big.Int).Sub(new(big.Int).Lsh(bigOne, 255), bigOne)}, named{"n+1", nP1}, named{"2^256-1", max256})
	}
	dv := derDeviations()
	var cases []Case
	seen := map[string]bool{}
	nsets := 0
	for _, rv := range vals {
		for _, sv := range vals {
			base := func() *derForm {
				return &derForm{seqTag: 0x30, ints: [2]derInt{{tag: 2, content: refec.DERInt(rv.v)}, {tag: 2, content: refec.DERInt(sv.v)}}}
			}
			emit := func(d *derForm, names string) {
				b := d.bytes()
				if seen[hx(b)] {
					return
				}
				seen[hx(b)] = true
				cases = append(cases, Case{Kind: "der", F: map[string]string{"b": hx(b), "label": fmt.Sprintf("r=%s/s=%s/%s", rv.name, sv.name, names)}})
			}
			emit(base(), "canonical")
			for i := range dv {
				d := base()
				dv[i].apply(d)
				emit(d, dv[i].name)
				for j := i + 1; j < len(dv); j++ {
					if dv[i].slot == dv[j].slot {
						continue
					}
					d2 := base()
					dv[i].apply(d2)
					dv[j].apply(d2)
					emit(d2, dv[i].name+"+"+dv[j].name)
				}
			}
		}
	}
	nsets = 1 + len(dv)
	for i := range dv {
		for j := i + 1; j < len(dv); j++ {
			if dv[i].slot != dv[j].slot {
				nsets++
			}
		}
	}
	var dn []string
	for _, d := range dv {
		dn = append(dn, d.name)
	}
	bounds["der_grammar"] = map[string]interface{}{
		"r_s_values":               names(vals),
		"deviations":               dn,
		"max_deviations":           2,
		"deviation_sets_per_base":  nsets,
		"bases":                    len(vals) * len(vals),
		"distinct_strings":         len(cases),
		"parsers":                  "ecdsa.ParseDERSignature (strict), ecdsa.ParseSignature (lax)",
		"strict_contract":          "8..72 bytes; prefix delimited by the SEQUENCE header is canonical BIP66 DER; r,s in [1,n-1]; trailing bytes ignored (documented by btcd)",
		"lax_contract":             "as strict but unsigned integers with arbitrary zero padding, no buffer length limit; verdict not demanded when a length octet >= 0x80 decides",
		"serialize_parse_identity": "on canonical low-S encodings without trailer; Serialize always yields canonical low-S (documented)",
	}
	return cases
}
