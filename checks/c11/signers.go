package main

import (
	"bytes"
	"fmt"
	"math/big"

	"github.com/btcsuite/btcd/btcec/v2"
	"github.com/btcsuite/btcd/btcec/v2/ecdsa"
	"github.com/btcsuite/btcd/btcec/v2/schnorr"

	"verif/ref/refec"
)

func init() {
	kinds["recover"] = kindRecover
	kinds["sign-ecdsa"] = kindSignECDSA
	kinds["sign-schnorr"] = kindSignSchnorr
	kinds["ecdh"] = kindECDH
}

// kindRecover: (compact signature bytes, message) through ecdsa.RecoverCompact.
func kindRecover(f *failer) {
	sig, msg := unhex(f, "sig"), unhex(f, "msg")
	wq, wc, wok := refec.RecoverCompact(sig, msg)
	pk, comp, err := ecdsa.RecoverCompact(sig, msg)
	if (err == nil) != wok {
		f.bad("ecdsa.RecoverCompact/accept", "btcd ok=%v (err=%v), SEC1 4.1.6 ok=%v", err == nil, err, wok)
		return
	}
	if !wok {
		return
	}
	R.Add("recover_ok", 1)
	if !refec.Equal(pointOfPub(pk), wq) {
		f.bad("ecdsa.RecoverCompact/key", "btcd (%s) != reference (%s)", pointStr(pointOfPub(pk)), pointStr(wq))
	}
	if comp != wc {
		f.bad("ecdsa.RecoverCompact/compressed-flag", "btcd=%v want %v", comp, wc)
	}
	// the recovered key verifies the signature
	r, s := refec.Int(sig[1:33]), refec.Int(sig[33:])
	if !ecdsa.NewSignature(scalarOf(r), scalarOf(s)).Verify(msg, pk) {
		f.bad("ecdsa.RecoverCompact/verify", "signature does not verify under the recovered key")
	}
}

// kindSignECDSA: ecdsa.Sign / SignCompact / RecoverCompact for (d, msg).
func kindSignECDSA(f *failer) {
	d, msg := bigField(f, "d"), unhex(f, "msg")
	priv := privOf(d)
	P := pubOf(d)
	if !refec.Equal(pointOfPub(priv.PubKey()), P) {
		f.bad("PrivateKey.PubKey", "btcd (%s) != d*G (%s)", pointStr(pointOfPub(priv.PubKey())), pointStr(P))
		return
	}
	if !bytes.Equal(priv.Serialize(), refec.Bytes32(d)) {
		f.bad("PrivateKey.Serialize", "got %x", priv.Serialize())
	}
	sig := ecdsa.Sign(priv, msg)
	gr, gs := sig.R(), sig.S()
	r, s := bigOfScalar(&gr), bigOfScalar(&gs)
	if !sig.Verify(msg, priv.PubKey()) {
		f.bad("ecdsa.Sign/verifies-under-impl", "signature (%s,%s) does not verify under btcd", bh(r), bh(s))
	}
	if !refec.ECDSAVerify(P, msg, r, s) {
		f.bad("ecdsa.Sign/verifies-under-reference", "signature (%s,%s) does not satisfy the SEC1 equation", bh(r), bh(s))
	}
	// RFC 6979 fixes the nonce (bits2octets reduces the hash mod q).  For a hash
	// value >= n the secp256k1 libraries used in Bitcoin (libsecp256k1, decred)
	// feed the unreduced hash to the HMAC instead, so the value is only demanded
	// where both readings coincide (hash < n); the deviation is in the trusted
	// base, has probability 2^-128 for real hashes and does not affect validity.
	specFixes := refec.Int(msg).Cmp(refec.N) < 0
	var wr, ws *big.Int
	var wrec byte
	if specFixes {
		wr, ws, wrec = refec.ECDSASignRFC6979(d, msg)
		if r.Cmp(wr) != 0 || s.Cmp(ws) != 0 {
			f.bad("ecdsa.Sign/rfc6979", "got (%s,%s), RFC6979+low-S gives (%s,%s)", bh(r), bh(s), bh(wr), bh(ws))
		}
	} else {
		R.Add("rfc6979_value_not_demanded_hash_ge_n", 1)
	}
	if s.Cmp(refec.HalfN) > 0 {
		f.bad("ecdsa.Sign/low-s", "s=%s is above n/2", bh(s))
	}
	der := sig.Serialize()
	if !bytes.Equal(der, refec.EncodeDER(r, s)) || !refec.IsStrictDER(der) {
		f.bad("ecdsa.Sign/serialize", "serialization %x is not the canonical encoding", der)
	}
	if back, err := ecdsa.ParseDERSignature(der); err != nil || !back.IsEqual(sig) {
		f.bad("ecdsa.Sign/parse-roundtrip", "parse(serialize(sig)) err=%v", err)
	}
	for _, comp := range []bool{false, true} {
		cs := ecdsa.SignCompact(priv, msg, comp)
		if specFixes {
			if want := refec.CompactSig(wr, ws, wrec, comp); !bytes.Equal(cs, want) {
				f.bad("ecdsa.SignCompact", "compressed=%v got %x want %x", comp, cs, want)
			}
		}
		if len(cs) != 65 || refec.Int(cs[1:33]).Cmp(r) != 0 || refec.Int(cs[33:]).Cmp(s) != 0 {
			f.bad("ecdsa.SignCompact/same-as-Sign", "compressed=%v: %x carries a different (r,s) than Sign", comp, cs)
		}
		pk, gotComp, err := ecdsa.RecoverCompact(cs, msg)
		if err != nil || !refec.Equal(pointOfPub(pk), P) || gotComp != comp {
			f.bad("ecdsa.RecoverCompact/of-SignCompact", "compressed=%v err=%v key ok=%v flag=%v", comp, err, err == nil && refec.Equal(pointOfPub(pk), P), gotComp)
		}
		if q, c2, ok := refec.RecoverCompact(cs, msg); !ok || !refec.Equal(q, P) || c2 != comp {
			f.bad("ecdsa.SignCompact/reference-recovery", "reference recovery of %x fails", cs)
		}
	}
}

// kindSignSchnorr: schnorr.Sign with one option variant for (d, msg, aux).
func kindSignSchnorr(f *failer) {
	d, msg := bigField(f, "d"), unhex(f, "msg")
	variant := f.c.F["variant"]
	priv := privOf(d)
	P := pubOf(d)
	pk := refec.XBytes(P)
	var opts []schnorr.SignOption
	var aux [32]byte
	custom := false
	switch variant {
	case "default":
	case "fast":
		opts = append(opts, schnorr.FastSign())
	case "custom":
		copy(aux[:], unhex(f, "aux"))
		custom = true
		opts = append(opts, schnorr.CustomNonce(aux))
	case "custom+fast":
		copy(aux[:], unhex(f, "aux"))
		custom = true
		opts = append(opts, schnorr.CustomNonce(aux), schnorr.FastSign())
	case "fast+custom":
		copy(aux[:], unhex(f, "aux"))
		custom = true
		opts = append(opts, schnorr.FastSign(), schnorr.CustomNonce(aux))
	default:
		R.Broken("unknown schnorr sign variant %q", variant)
	}
	before := priv.Key
	sig, err := schnorr.Sign(priv, msg, opts...)
	if err != nil {
		f.bad("schnorr.Sign/error", "signing failed: %v", err)
		return
	}
	if priv.Key != before {
		f.bad("schnorr.Sign/mutates-key", "the private key was modified by signing")
	}
	sb := sig.Serialize()
	if !sig.Verify(msg, priv.PubKey()) {
		f.bad("schnorr.Sign/verifies-under-impl", "signature %x does not verify under btcd", sb)
	}
	if !refec.SchnorrVerify(pk, msg, sb) {
		f.bad("schnorr.Sign/verifies-under-reference", "signature %x does not satisfy BIP340 verification", sb)
	}
	if custom {
		want, ok := refec.SchnorrSign(d, msg, aux[:])
		if !ok || !bytes.Equal(sb, want) {
			f.bad("schnorr.Sign/bip340-deterministic", "got %x, BIP340 Sign(sk,m,aux) = %x", sb, want)
		}
	} else {
		// documented: RFC6979 keyed with the parity-corrected key and the extra
		// data SHA256("BIP-340") (bound to the shipped rfc6979 vector)
		// (value demanded only for hash values < n, see kindSignECDSA)
		if refec.Int(msg).Cmp(refec.N) < 0 {
			dd := new(big.Int).Set(d)
			if !refec.HasEvenY(P) {
				dd.Sub(refec.N, dd)
			}
			k := refec.RFC6979Nonce(dd, msg, sha("BIP-340"), 0)
			want := refec.SchnorrSignWithNonce(d, msg, k)
			if !bytes.Equal(sb, want) {
				f.bad("schnorr.Sign/rfc6979-deterministic", "got %x, RFC6979(extra=SHA256('BIP-340')) nonce gives %x", sb, want)
			}
		} else {
			R.Add("rfc6979_value_not_demanded_hash_ge_n", 1)
		}
	}
	// determinism and serialisation round trip
	if sig2, err := schnorr.Sign(priv, msg, opts...); err != nil || !sig2.IsEqual(sig) {
		f.bad("schnorr.Sign/deterministic", "second call differs (err=%v)", err)
	}
	if back, err := schnorr.ParseSignature(sb); err != nil || !back.IsEqual(sig) {
		f.bad("schnorr.Sign/parse-roundtrip", "parse(serialize(sig)) err=%v", err)
	}
}

// kindECDH: btcec.GenerateSharedSecret(a, B) for B given as bytes.
func kindECDH(f *failer) {
	a, b := bigField(f, "a"), bigField(f, "b")
	pubB := unhex(f, "pubB")
	Bp, ok := refec.ParsePubKey(pubB)
	pkB, err := btcec.ParsePubKey(pubB)
	if (err == nil) != ok {
		f.bad("btcec.ParsePubKey/accept", "btcd accept=%v reference accept=%v", err == nil, ok)
		return
	}
	if !ok {
		return
	}
	privA, privB := privOf(a), privOf(b)
	s1 := btcec.GenerateSharedSecret(privA, pkB)
	want := refec.ECDH(a, Bp)
	if !bytes.Equal(s1, want) {
		f.bad("btcec.GenerateSharedSecret/value", "got %x want x(a*B) = %x", s1, want)
	}
	// symmetric when B = b*G
	if refec.Equal(Bp, pubOf(b)) {
		s2 := btcec.GenerateSharedSecret(privB, privA.PubKey())
		if !bytes.Equal(s1, s2) {
			f.bad("btcec.GenerateSharedSecret/symmetric", "a*B = %x but b*A = %x", s1, s2)
		}
	}
}

func genRecoverCases(bounds map[string]interface{}) []Case {
	var cases []Case
	seen := map[string]bool{}
	add := func(sig, msg []byte, label string) {
		c := Case{Kind: "recover", F: map[string]string{"sig": hx(sig), "msg": hx(msg), "label": label}}
		if k := c.canon(); !seen[k] {
			seen[k] = true
			cases = append(cases, c)
		}
	}
	headers := []byte{0, 26, 27, 28, 29, 30, 31, 32, 33, 34, 35, 255}
	boundary := []*big.Int{big.NewInt(0), big.NewInt(1), nM1, refec.N, nP1, pM1, refec.P, pP1, max256}
	// abscissa >= n for the overflow bit: r = x - n
	var xOver *big.Int
	for x := new(big.Int).Add(refec.N, bigOne); ; x.Add(x, bigOne) {
		if _, ok := refec.LiftX(x); ok {
			xOver = new(big.Int).Sub(x, refec.N)
			break
		}
	}
	ms := msgAlpha
	ds := privAlpha[:3]
	if R.Thorough() {
		ds = privAlpha
	}
	for _, m := range ms {
		msg := refec.Bytes32(m.v)
		for _, d := range ds {
			r, s, _ := refec.ECDSASignRFC6979(d.v, msg)
			rs := []named{{"valid", r}, {"x-n", xOver}}
			ss := []named{{"valid", s}, {"n-valid", new(big.Int).Sub(refec.N, s)}}
			for _, b := range boundary {
				rs = append(rs, named{symName(b), b})
				ss = append(ss, named{symName(b), b})
			}
			for _, h := range headers {
				for _, rv := range rs {
					for _, sv := range ss {
						sig := append([]byte{h}, append(refec.Bytes32(rv.v), refec.Bytes32(sv.v)...)...)
						add(sig, msg, fmt.Sprintf("m=%s/d=%s/hdr=%d/r=%s/s=%s", m.name, d.name, h, rv.name, sv.name))
					}
				}
			}
			valid := append([]byte{27}, append(refec.Bytes32(r), refec.Bytes32(s)...)...)
			add(valid[:64], msg, fmt.Sprintf("m=%s/d=%s/len=64", m.name, d.name))
			add(append(append([]byte{}, valid...), 0), msg, fmt.Sprintf("m=%s/d=%s/len=66", m.name, d.name))
			add(nil, msg, fmt.Sprintf("m=%s/len=0", m.name))
		}
	}
	bounds["recover_compact"] = map[string]interface{}{
		"headers": "0, 26, 27..34, 35, 255", "r": "valid, first (abscissa>=n)-n, 0,1,n-1,n,n+1,p-1,p,p+1,2^256-1", "s": "valid, n-valid, same boundaries",
		"lengths": "0, 64, 65, 66", "messages": names(ms), "keys": names(ds), "cases": len(cases),
	}
	return cases
}

func genSignerCases(bounds map[string]interface{}) []Case {
	var cases []Case
	ds := append([]named{}, privAlpha...)
	ds = append(ds, named{"drvA", derivedScalar("signer-A")}, named{"drvB", derivedScalar("signer-B")}, named{"drvC", derivedScalar("signer-C")})
	ms := append([]named{}, msgAlpha...)
	ms = append(ms, named{"drv", refec.Int(sha("c11/signer-msg"))})
	auxs := []named{{"0", big.NewInt(0)}, {"1", big.NewInt(1)}, {"2^256-1", max256}, {"drv", refec.Int(sha("c11/aux"))}}
	for _, d := range ds {
		for _, m := range ms {
			msg := hx(refec.Bytes32(m.v))
			cases = append(cases, Case{Kind: "sign-ecdsa", F: map[string]string{"d": bh(d.v), "msg": msg, "label": fmt.Sprintf("d=%s/m=%s", d.name, m.name)}})
			for _, v := range []string{"default", "fast"} {
				cases = append(cases, Case{Kind: "sign-schnorr", F: map[string]string{"d": bh(d.v), "msg": msg, "variant": v,
					"label": fmt.Sprintf("d=%s/m=%s/%s", d.name, m.name, v)}})
			}
			for _, a := range auxs {
				for _, v := range []string{"custom", "custom+fast", "fast+custom"} {
					cases = append(cases, Case{Kind: "sign-schnorr", F: map[string]string{"d": bh(d.v), "msg": msg, "variant": v, "aux": hx(refec.Bytes32(a.v)),
						"label": fmt.Sprintf("d=%s/m=%s/%s/aux=%s", d.name, m.name, v, a.name)}})
				}
			}
		}
	}
	bounds["signers"] = map[string]interface{}{
		"private_keys": names(ds), "messages": names(ms),
		"ecdsa":   "Sign, Serialize/Parse, SignCompact(compressed/uncompressed) + RecoverCompact; equality with RFC6979 + low-S",
		"schnorr": "default (RFC6979), FastSign, CustomNonce(aux) x {plain, +FastSign, FastSign first}; aux in {0,1,2^256-1,derived}; CustomNonce equals BIP340 Sign(sk,m,aux)",
		"cases":   len(cases),
	}
	return cases
}

func genECDHCases(bounds map[string]interface{}) []Case {
	var cases []Case
	for _, a := range privAlpha {
		for _, b := range privAlpha {
			B := pubOf(b.v)
			for _, pf := range []struct {
				n string
				b []byte
			}{{"compressed", refec.Compressed(B)}, {"uncompressed", refec.Uncompressed(B)}, {"hybrid", refec.Hybrid(B)}} {
				if pf.n != "compressed" && a.name != privAlpha[0].name && a.name != "n-1" {
					continue
				}
				cases = append(cases, Case{Kind: "ecdh", F: map[string]string{"a": bh(a.v), "b": bh(b.v), "pubB": hx(pf.b),
					"label": fmt.Sprintf("a=%s/b=%s/%s", a.name, b.name, pf.n)}})
			}
		}
	}
	bounds["ecdh"] = map[string]interface{}{"pairs": "all ordered pairs of the private key alphabet; B as compressed (all), uncompressed/hybrid (a in {1,n-1})", "cases": len(cases)}
	return cases
}
