package main

// A tiny evaluator for the literal test tables btcd ships inside _test.go files
// (the BIP340 vectors, the RFC6979 vectors, the DER examples ...).  The files
// are parsed with go/parser at run time from the btcd tree the check was built
// against, so the reference model is bound to exactly what the repo ships.

import (
	"encoding/hex"
	"fmt"
	"go/ast"
	"go/parser"
	"go/token"
	"os"
	"strconv"
)

func repoRoot() string {
	if v := os.Getenv("VERIF_REPO"); v != "" {
		return v
	}
	return "/repo"
}

// lit is one evaluated struct literal: field name (or "#<index>" for
// positional fields) -> string | bool | []byte | int64 | call | nil.
type lit map[string]interface{}

// call is an evaluated function call expression, e.g. NewSignature(a, b).
type call struct {
	Fn   string
	Args []interface{}
}

func evalExpr(e ast.Expr) interface{} {
	switch v := e.(type) {
	case *ast.BasicLit:
		switch v.Kind {
		case token.STRING:
			s, err := strconv.Unquote(v.Value)
			if err != nil {
				return nil
			}
			return s
		case token.INT:
			n, err := strconv.ParseInt(v.Value, 0, 64)
			if err != nil {
				return nil
			}
			return n
		}
	case *ast.Ident:
		switch v.Name {
		case "true":
			return true
		case "false":
			return false
		case "nil":
			return nil
		}
		return "ident:" + v.Name
	case *ast.SelectorExpr:
		if x, ok := v.X.(*ast.Ident); ok {
			return "ident:" + x.Name + "." + v.Sel.Name
		}
	case *ast.CompositeLit:
		// []byte{...}
		if at, ok := v.Type.(*ast.ArrayType); ok {
			if id, ok := at.Elt.(*ast.Ident); ok && (id.Name == "byte" || id.Name == "uint8") {
				out := make([]byte, 0, len(v.Elts))
				for _, el := range v.Elts {
					n, ok := evalExpr(el).(int64)
					if !ok {
						return nil
					}
					out = append(out, byte(n))
				}
				return out
			}
		}
		return evalStruct(v)
	case *ast.CallExpr:
		name := ""
		switch f := v.Fun.(type) {
		case *ast.Ident:
			name = f.Name
		case *ast.SelectorExpr:
			name = f.Sel.Name
		case *ast.ArrayType: // []byte("...")
			if len(v.Args) == 1 {
				if s, ok := evalExpr(v.Args[0]).(string); ok {
					return []byte(s)
				}
			}
			return nil
		}
		c := call{Fn: name}
		for _, a := range v.Args {
			c.Args = append(c.Args, evalExpr(a))
		}
		// hex helpers evaluate to bytes
		switch name {
		case "decodeHex", "hexToBytes", "hexToModNScalar", "mustParseHex", "hexToFieldVal":
			if len(c.Args) == 1 {
				if s, ok := c.Args[0].(string); ok {
					if len(s)%2 == 1 {
						s = "0" + s
					}
					b, err := hex.DecodeString(s)
					if err == nil {
						return b
					}
				}
			}
		}
		return c
	case *ast.UnaryExpr:
		return evalExpr(v.X)
	}
	return nil
}

func evalStruct(cl *ast.CompositeLit) lit {
	out := lit{}
	for i, el := range cl.Elts {
		if kv, ok := el.(*ast.KeyValueExpr); ok {
			if id, ok := kv.Key.(*ast.Ident); ok {
				out[id.Name] = evalExpr(kv.Value)
				continue
			}
		}
		out["#"+strconv.Itoa(i)] = evalExpr(el)
	}
	return out
}

// loadGoLits returns the elements of the slice literal bound to varName, either
// at package level (funcName == "") or inside function funcName.
func loadGoLits(path, funcName, varName string) ([]lit, error) {
	fset := token.NewFileSet()
	f, err := parser.ParseFile(fset, path, nil, 0)
	if err != nil {
		return nil, err
	}
	var found *ast.CompositeLit
	grab := func(names []*ast.Ident, values []ast.Expr) {
		for i, n := range names {
			if n.Name == varName && i < len(values) && found == nil {
				if cl, ok := values[i].(*ast.CompositeLit); ok {
					found = cl
				}
			}
		}
	}
	for _, d := range f.Decls {
		switch dd := d.(type) {
		case *ast.GenDecl:
			if funcName != "" {
				continue
			}
			for _, sp := range dd.Specs {
				if vs, ok := sp.(*ast.ValueSpec); ok {
					grab(vs.Names, vs.Values)
				}
			}
		case *ast.FuncDecl:
			if funcName == "" || dd.Name.Name != funcName || dd.Body == nil {
				continue
			}
			ast.Inspect(dd.Body, func(n ast.Node) bool {
				if as, ok := n.(*ast.AssignStmt); ok {
					var ids []*ast.Ident
					for _, l := range as.Lhs {
						if id, ok := l.(*ast.Ident); ok {
							ids = append(ids, id)
						} else {
							ids = append(ids, ast.NewIdent("_"))
						}
					}
					grab(ids, as.Rhs)
				}
				return true
			})
		}
	}
	if found == nil {
		return nil, fmt.Errorf("%s: literal %q (func %q) not found", path, varName, funcName)
	}
	var out []lit
	for _, el := range found.Elts {
		cl, ok := el.(*ast.CompositeLit)
		if !ok {
			return nil, fmt.Errorf("%s: %s: element is not a composite literal", path, varName)
		}
		out = append(out, evalStruct(cl))
	}
	return out, nil
}

func (l lit) str(k string) string {
	s, _ := l[k].(string)
	return s
}
func (l lit) boolean(k string) bool {
	b, _ := l[k].(bool)
	return b
}
func (l lit) bytes(k string) []byte {
	b, _ := l[k].([]byte)
	return b
}
