package main

import (
	"crypto/sha256"
	"encoding/hex"
	"math/big"
	"strings"
	"sync"

	"github.com/btcsuite/btcd/btcec/v2"

	"verif/ref/refec"
)

var (
	bigOne = big.NewInt(1)
	nM1    = new(big.Int).Sub(refec.N, bigOne)
	nM2    = new(big.Int).Sub(refec.N, big.NewInt(2))
	nP1    = new(big.Int).Add(refec.N, bigOne)
	pM1    = new(big.Int).Sub(refec.P, bigOne)
	pP1    = new(big.Int).Add(refec.P, bigOne)
	max256 = new(big.Int).Sub(refec.Two256, bigOne)
)

type named struct {
	name string
	v    *big.Int
}

// Alphabets (filled by setup).
var (
	msgAlpha  []named // 32-byte messages as integers
	privAlpha []named // private keys
)

func sha(s string) []byte { h := sha256.Sum256([]byte(s)); return h[:] }

// derivedScalar is a fixed pseudo-random scalar in [1,n-1] derived from a label
// (used only to DERIVE fixed test values, never to sample the space).
func derivedScalar(label string) *big.Int {
	v := new(big.Int).Mod(refec.Int(sha("c11/"+label)), nM1)
	return v.Add(v, bigOne)
}

func setup(thorough bool) {
	emptyHash := refec.Int(sha(""))
	msgAlpha = []named{
		{"0", big.NewInt(0)}, {"1", big.NewInt(1)}, {"n", refec.N}, {"2^256-1", max256}, {"sha256('')", emptyHash},
	}
	half1 := new(big.Int).Rsh(nM1, 1)                               // (n-1)/2
	half2 := new(big.Int).Rsh(new(big.Int).Add(refec.N, bigOne), 1) // (n+1)/2
	privAlpha = []named{
		{"1", big.NewInt(1)}, {"2", big.NewInt(2)}, {"3", big.NewInt(3)}, {"n-1", nM1}, {"n-2", nM2},
		{"(n-1)/2", half1}, {"(n+1)/2", half2},
	}
	if thorough {
		msgAlpha = append(msgAlpha, named{"n-1", nM1}, named{"p", refec.P}, named{"sha256('c11')", refec.Int(sha("c11"))})
		privAlpha = append(privAlpha, named{"4", big.NewInt(4)}, named{"n-3", new(big.Int).Sub(refec.N, big.NewInt(3))},
			named{"drv1", derivedScalar("priv1")}, named{"drv2", derivedScalar("priv2")})
	}
}

func hx(b []byte) string { return hex.EncodeToString(b) }

func unhex(f *failer, key string) []byte {
	b, err := hex.DecodeString(f.c.F[key])
	if err != nil {
		R.Broken("case field %s is not hex: %q", key, f.c.F[key])
	}
	return b
}

func bigField(f *failer, key string) *big.Int {
	v, ok := new(big.Int).SetString(f.c.F[key], 16)
	if !ok {
		R.Broken("case field %s is not a hex integer: %q", key, f.c.F[key])
	}
	return v
}

func bh(v *big.Int) string { return v.Text(16) }

// ---- caches of reference computations (pure functions of their key)

var pubCache sync.Map // hex(d) -> refec.Point

func pubOf(d *big.Int) refec.Point {
	k := d.Text(16)
	if v, ok := pubCache.Load(k); ok {
		return v.(refec.Point)
	}
	p := refec.BaseMult(d)
	pubCache.Store(k, p)
	return p
}

// ---- adapters between btcec types and big.Int

func scalarOf(v *big.Int) *btcec.ModNScalar {
	var s btcec.ModNScalar
	s.SetByteSlice(refec.Bytes32(v))
	return &s
}

func bigOfScalar(s *btcec.ModNScalar) *big.Int {
	b := s.Bytes()
	return refec.Int(b[:])
}

func pointOfPub(p *btcec.PublicKey) refec.Point {
	return refec.Point{X: p.X(), Y: p.Y()}
}

func privOf(d *big.Int) *btcec.PrivateKey {
	priv, _ := btcec.PrivKeyFromBytes(refec.Bytes32(d))
	return priv
}

func pointStr(p refec.Point) string {
	if p.Inf {
		return "inf"
	}
	return p.X.Text(16) + "," + p.Y.Text(16)
}

func splitList(s string) []string {
	if s == "" {
		return nil
	}
	return strings.Split(s, ",")
}

// symbolic names for grid values, used in violation keys
func symName(v *big.Int) string {
	switch {
	case v.Sign() == 0:
		return "0"
	case v.Cmp(bigOne) == 0:
		return "1"
	case v.Cmp(nM1) == 0:
		return "n-1"
	case v.Cmp(refec.N) == 0:
		return "n"
	case v.Cmp(nP1) == 0:
		return "n+1"
	case v.Cmp(pM1) == 0:
		return "p-1"
	case v.Cmp(refec.P) == 0:
		return "p"
	case v.Cmp(pP1) == 0:
		return "p+1"
	case v.Cmp(max256) == 0:
		return "2^256-1"
	}
	return ""
}
