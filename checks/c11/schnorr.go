package main

import (
	"bytes"
	"fmt"
	"math/big"

	"github.com/btcsuite/btcd/btcec/v2"
	"github.com/btcsuite/btcd/btcec/v2/schnorr"

	"verif/ref/refec"
)

func init() { kinds["schnorr"] = kindSchnorr }

// kindSchnorr: (32-byte message, x-only public key bytes, signature bytes).
func kindSchnorr(f *failer) {
	msg := unhex(f, "msg")
	pkB := unhex(f, "pk")
	sigB := unhex(f, "sig")

	wantP, pOK := refec.ParseXOnly(pkB)
	pk, err := schnorr.ParsePubKey(pkB)
	if (err == nil) != pOK {
		f.bad("schnorr.ParsePubKey/accept", "btcd accept=%v (err=%v), reference accept=%v", err == nil, err, pOK)
		return
	}
	if pOK && !refec.Equal(pointOfPub(pk), wantP) {
		f.bad("schnorr.ParsePubKey/point", "btcd (%s) != lift_x (%s)", pointStr(pointOfPub(pk)), pointStr(wantP))
		return
	}
	sigOK := len(sigB) == 64 && refec.Int(sigB[:32]).Cmp(refec.P) < 0 && refec.Int(sigB[32:]).Cmp(refec.N) < 0
	sig, err := schnorr.ParseSignature(sigB)
	if (err == nil) != sigOK {
		f.bad("schnorr.ParseSignature/range", "accept=%v (err=%v), want accept=%v (64 bytes, r < p, s < n)", err == nil, err, sigOK)
		return
	}
	if !sigOK {
		R.Add("schnorr_sig_rejected_by_parser", 1)
		return
	}
	if ser := sig.Serialize(); !bytes.Equal(ser, sigB) {
		f.bad("schnorr.Signature.Serialize", "serialize(parse(x)) = %x != x = %x", ser, sigB)
	}
	if !pOK {
		return
	}
	// btcd documents BIP340 for 32-byte messages only ("Fail if m is not 32 bytes")
	want := len(msg) == 32 && refec.SchnorrVerify(pkB, msg, sigB)
	if want {
		R.Add("schnorr_equation_holds", 1)
	} else {
		R.Add("schnorr_equation_fails", 1)
	}
	if got := sig.Verify(msg, pk); got != want {
		f.bad("schnorr.Signature.Verify", "btcd=%v, BIP340=%v", got, want)
	}
	// the same key given as a full point with odd y: BIP340 keys are x-only
	if odd, err := btcec.ParsePubKey(append([]byte{3}, pkB...)); err == nil {
		if got := sig.Verify(msg, odd); got != want {
			f.bad("schnorr.Signature.Verify/odd-y-key-object", "btcd=%v, BIP340=%v", got, want)
		}
	}
}

// nonceWithParity returns a derived nonce k such that y(kG) has the wanted parity.
func nonceWithParity(label string, odd bool) *big.Int {
	for i := 0; ; i++ {
		k := derivedScalar(fmt.Sprintf("%s/%d", label, i))
		if refec.HasEvenY(refec.BaseMult(k)) != odd {
			return k
		}
	}
}

func genSchnorrCases(bounds map[string]interface{}) []Case {
	var cases []Case
	seen := map[string]bool{}
	add := func(msg, pk, sig []byte, label string) {
		c := Case{Kind: "schnorr", F: map[string]string{"msg": hx(msg), "pk": hx(pk), "sig": hx(sig), "label": label}}
		if k := c.canon(); !seen[k] {
			seen[k] = true
			cases = append(cases, c)
		}
	}
	nonces := []named{{"kEvenR", nonceWithParity("schnorr-k-even", false)}, {"kOddR", nonceWithParity("schnorr-k-odd", true)}}
	boundary := []*big.Int{big.NewInt(0), big.NewInt(1), nM1, refec.N, nP1, pM1, refec.P, pP1, max256}
	for _, m := range msgAlpha {
		msg := refec.Bytes32(m.v)
		for _, d := range privAlpha {
			P := pubOf(d.v)
			pk := refec.XBytes(P)
			dd := new(big.Int).Set(d.v)
			if !refec.HasEvenY(P) {
				dd.Sub(refec.N, dd)
			}
			var rs, ss []named
			for _, k := range nonces {
				sig := refec.SchnorrSignWithNonce(d.v, msg, k.v)
				r, s := refec.Int(sig[:32]), refec.Int(sig[32:])
				// the signature for the nonce with the WRONG sign: R' = -R has
				// the same x but odd y, so it must be rejected (even-y rule)
				e := new(big.Int).Mod(refec.Int(refec.TaggedHash("BIP0340/challenge", sig[:32], pk, msg)), refec.N)
				kk := new(big.Int).Set(k.v)
				if refec.HasEvenY(refec.BaseMult(k.v)) {
					kk.Sub(refec.N, kk)
				}
				sOdd := new(big.Int).Mul(e, dd)
				sOdd.Add(sOdd, kk).Mod(sOdd, refec.N)
				rs = append(rs, named{"valid(" + k.name + ")", r})
				ss = append(ss, named{"valid(" + k.name + ")", s}, named{"oddR(" + k.name + ")", sOdd}, named{"n-valid(" + k.name + ")", new(big.Int).Sub(refec.N, s)})
			}
			for _, b := range boundary {
				rs = append(rs, named{symName(b), b})
				ss = append(ss, named{symName(b), b})
			}
			for _, r := range rs {
				for _, s := range ss {
					sig := append(refec.Bytes32(r.v), refec.Bytes32(s.v)...)
					add(msg, pk, sig, fmt.Sprintf("m=%s/d=%s/r=%s/s=%s", m.name, d.name, r.name, s.name))
				}
			}
			// signature length deviations of the valid signature
			valid := append(refec.Bytes32(rs[0].v), refec.Bytes32(ss[0].v)...)
			add(msg, pk, valid[:63], fmt.Sprintf("m=%s/d=%s/siglen=63", m.name, d.name))
			add(msg, pk, append(append([]byte{}, valid...), 0), fmt.Sprintf("m=%s/d=%s/siglen=65", m.name, d.name))
			add(msg, pk, nil, fmt.Sprintf("m=%s/d=%s/siglen=0", m.name, d.name))
			// valid signature under every x-only key shape
			for _, x := range []named{{"offcurve", offCurveNear(P.X)}, {"p-1", pM1}, {"p", refec.P}, {"p+1", pP1}, {"0", big.NewInt(0)}, {"2^256-1", max256}} {
				add(msg, refec.Bytes32(x.v), valid, fmt.Sprintf("m=%s/d=%s/pk=%s/sig=valid", m.name, d.name, x.name))
			}
			add(msg[:31], pk, valid, fmt.Sprintf("m=%s/d=%s/msglen=31/sig=valid", m.name, d.name))
			add(append(append([]byte{}, msg...), 0), pk, valid, fmt.Sprintf("m=%s/d=%s/msglen=33/sig=valid", m.name, d.name))
			add(nil, pk, valid, fmt.Sprintf("m=%s/d=%s/msglen=0/sig=valid", m.name, d.name))
			add(msg, pk[:31], valid, fmt.Sprintf("m=%s/d=%s/pklen=31/sig=valid", m.name, d.name))
			add(msg, append(append([]byte{}, pk...), 0), valid, fmt.Sprintf("m=%s/d=%s/pklen=33/sig=valid", m.name, d.name))
			add(msg, refec.Compressed(P), valid, fmt.Sprintf("m=%s/d=%s/pk=compressed33/sig=valid", m.name, d.name))
		}
	}
	bounds["schnorr_grid"] = map[string]interface{}{
		"messages":     names(msgAlpha),
		"private_keys": names(privAlpha),
		"r":            "valid (nonce with even R.y), valid (nonce with odd R.y), 0, 1, n-1, n, n+1, p-1, p, p+1, 2^256-1",
		"s":            "per nonce: valid, wrong-sign nonce (odd R.y), n-valid; 0, 1, n-1, n, n+1, p-1, p, p+1, 2^256-1",
		"sig_lengths":  "0, 63, 64, 65",
		"msg_lengths":  "32 (grid); 0, 31, 33 with the valid signature (must be rejected: btcd documents 32-byte messages)",
		"pk_shapes":    "key x, first off-curve x, p-1, p, p+1, 0, 2^256-1; lengths 31, 32, 33",
		"cases":        len(cases),
	}
	return cases
}
