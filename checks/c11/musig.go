package main

import (
	"bytes"
	"fmt"
	"math/big"
	"strings"
	"sync"

	"github.com/btcsuite/btcd/btcec/v2"
	"github.com/btcsuite/btcd/btcec/v2/schnorr/musig2"

	"verif/ref/refec"
)

func init() {
	kinds["noncegen"] = kindNonceGen
	kinds["musig"] = kindMusig
	kinds["musig-tweak"] = kindMusigTweak
	kinds["musig-badnonce"] = kindMusigBadNonce
	kinds["psig-decode"] = kindPsigDecode
}

// kindPsigDecode: PartialSignature.Decode of an arbitrary byte string: BIP327
// partial signatures are 32 bytes with int(psig) < n.
func kindPsigDecode(f *failer) {
	b := unhex(f, "b")
	var ps musig2.PartialSignature
	err := ps.Decode(bytes.NewReader(b))
	// the decoder reads exactly 32 bytes from the stream
	want := len(b) >= 32 && refec.Int(b[:32]).Cmp(refec.N) < 0
	if (err == nil) != want {
		f.bad("musig2.PartialSignature.Decode/accept", "btcd err=%v, BIP327 accept=%v for %x", err, want, b)
		return
	}
	if err == nil && bigOfScalar(ps.S).Cmp(refec.Int(b[:32])) != 0 {
		f.bad("musig2.PartialSignature.Decode/value", "got %s want %x", bh(bigOfScalar(ps.S)), b[:32])
	}
}

func clonePubs(p []*btcec.PublicKey) []*btcec.PublicKey {
	out := make([]*btcec.PublicKey, len(p))
	copy(out, p)
	return out
}

func parseTweaks(s string) ([]refec.Tweak, []musig2.KeyTweakDesc) {
	var rt []refec.Tweak
	var it []musig2.KeyTweakDesc
	for _, part := range splitList(s) {
		kv := strings.SplitN(part, ":", 2)
		if len(kv) != 2 || (kv[0] != "p" && kv[0] != "x") {
			R.Broken("bad tweak spec %q", part)
		}
		b := mustHex(kv[1])
		var d musig2.KeyTweakDesc
		copy(d.Tweak[:], b)
		d.IsXOnly = kv[0] == "x"
		rt = append(rt, refec.Tweak{T: b, XOnly: d.IsXOnly})
		it = append(it, d)
	}
	return rt, it
}

// ---- nonce generation

// kindNonceGen: musig2.GenNonces with a fixed random source and every subset of
// the optional inputs, against BIP327 NonceGen.
func kindNonceGen(f *failer) {
	d := bigField(f, "d")
	randB := unhex(f, "rand")
	priv := privOf(d)
	pkb := refec.Compressed(pubOf(d))
	opts := []musig2.NonceGenOption{musig2.WithCustomRand(bytes.NewReader(randB)), musig2.WithPublicKey(priv.PubKey())}
	var sk, aggpk, msg, extra []byte
	if f.c.F["sk"] == "1" {
		sk = refec.Bytes32(d)
		opts = append(opts, musig2.WithNonceSecretKeyAux(priv))
	}
	if v, ok := f.c.F["aggd"]; ok {
		ad, _ := new(big.Int).SetString(v, 16)
		aggpk = refec.XBytes(pubOf(ad))
		opts = append(opts, musig2.WithNonceCombinedKeyAux(privOf(ad).PubKey()))
	}
	if _, ok := f.c.F["msg"]; ok {
		msg = unhex(f, "msg")
		var m [32]byte
		copy(m[:], msg)
		opts = append(opts, musig2.WithNonceMessageAux(m))
	}
	if _, ok := f.c.F["extra"]; ok {
		extra = unhex(f, "extra")
		if extra == nil {
			extra = []byte{}
		}
		opts = append(opts, musig2.WithNonceAuxInput(extra))
	}
	n, err := musig2.GenNonces(opts...)
	wsec, wpub, werr := refec.NonceGen(randB, sk, pkb, aggpk, msg, extra)
	if (err == nil) != (werr == nil) {
		f.bad("musig2.GenNonces/error", "btcd err=%v, BIP327 err=%v", err, werr)
		return
	}
	if err != nil {
		return
	}
	if !bytes.Equal(n.SecNonce[:], wsec) {
		f.bad("musig2.GenNonces/secnonce", "got %x want %x", n.SecNonce[:], wsec)
	}
	if !bytes.Equal(n.PubNonce[:], wpub) {
		f.bad("musig2.GenNonces/pubnonce", "got %x want %x", n.PubNonce[:], wpub)
	}
	var sn [musig2.SecNonceSize]byte
	copy(sn[:], wsec)
	if pn := musig2.VerifSecNonceToPubNonce(sn); !bytes.Equal(pn[:], wpub) {
		f.bad("musig2.secNonceToPubNonce", "got %x want %x", pn[:], wpub)
	}
}

func genNonceGenCases(bounds map[string]interface{}) []Case {
	var cases []Case
	rands := []named{{"0", big.NewInt(0)}, {"2^256-1", max256}, {"drv", refec.Int(sha("c11/noncegen-rand"))}}
	ds := []named{{"3", big.NewInt(3)}, {"n-2", nM2}, {"drv", derivedScalar("noncegen-key")}}
	extras := []named{{"empty", nil}, {"1byte", big.NewInt(0x5a)}, {"32bytes", refec.Int(sha("c11/extra"))}}
	for _, rd := range rands {
		for _, d := range ds {
			for mask := 0; mask < 16; mask++ {
				exs := []named{{"", nil}}
				if mask&8 != 0 {
					exs = extras
				}
				for _, ex := range exs {
					F := map[string]string{"d": bh(d.v), "rand": hx(refec.Bytes32(rd.v))}
					lb := fmt.Sprintf("rand=%s/d=%s", rd.name, d.name)
					if mask&1 != 0 {
						F["sk"] = "1"
						lb += "/sk"
					}
					if mask&2 != 0 {
						F["aggd"] = bh(derivedScalar("noncegen-aggkey"))
						lb += "/aggpk"
					}
					if mask&4 != 0 {
						F["msg"] = hx(sha("c11/noncegen-msg"))
						lb += "/msg"
					}
					if mask&8 != 0 {
						switch ex.name {
						case "empty":
							F["extra"] = ""
						case "1byte":
							F["extra"] = "5a"
						default:
							F["extra"] = hx(refec.Bytes32(ex.v))
						}
						lb += "/extra=" + ex.name
					}
					F["label"] = lb
					cases = append(cases, Case{Kind: "noncegen", F: F})
				}
			}
		}
	}
	bounds["musig2_noncegen"] = map[string]interface{}{"rand": names(rands), "keys": names(ds),
		"options": "every subset of {secret key, aggregate key, message, extra input}; extra input in {empty, 1 byte, 32 bytes}", "cases": len(cases)}
	return cases
}

// ---- full signing sessions

var nonceCache sync.Map // hex(rand)|hex(d) -> [2][]byte

func refNonce(randB []byte, d *big.Int) (sec, pub []byte) {
	k := hx(randB) + "|" + d.Text(16)
	if v, ok := nonceCache.Load(k); ok {
		a := v.([2][]byte)
		return a[0], a[1]
	}
	sec, pub, err := refec.NonceGen(randB, refec.Bytes32(d), refec.Compressed(pubOf(d)), nil, nil, nil)
	if err != nil {
		R.Broken("reference NonceGen failed: %v", err)
	}
	nonceCache.Store(k, [2][]byte{sec, pub})
	return sec, pub
}

var keyAggCache sync.Map // concatenated key list -> *refec.KeyAggCtx

// cachedKeyAgg memoises refec.KeyAgg (a pure function of the key list).
func cachedKeyAgg(pks [][]byte) (*refec.KeyAggCtx, error) {
	k := string(bytes.Join(pks, nil))
	if v, ok := keyAggCache.Load(k); ok {
		return v.(*refec.KeyAggCtx), nil
	}
	c, err := refec.KeyAgg(pks)
	if err != nil {
		return nil, err
	}
	keyAggCache.Store(k, c)
	return c, nil
}

func posRand(i int) []byte { return sha(fmt.Sprintf("c11/musig-rand/%d", i)) }

// kindMusig: one complete MuSig2 run for a key list (with duplicates, in the
// given order), the sort flag, a tweak chain and a message, through the
// function API (AggregateKeys, GenNonces, AggregateNonces, Sign,
// PartialSignature.Verify, CombineSigs) and through the Context/Session API,
// compared step by step with BIP327 as computed by refec.
func kindMusig(f *failer) {
	var ds []*big.Int
	for _, s := range splitList(f.c.F["keys"]) {
		v, ok := new(big.Int).SetString(s, 16)
		if !ok {
			R.Broken("bad key %q", s)
		}
		ds = append(ds, v)
	}
	u := len(ds)
	sorted := f.c.F["sort"] == "1"
	rtw, itw := parseTweaks(f.c.F["tweaks"])
	msg := unhex(f, "msg")
	var msg32 [32]byte
	copy(msg32[:], msg)
	// taproot mode: "" | "bip86" | "root:<hex>" (BIP341/BIP86: one x-only tweak
	// t = hash_TapTweak(xbytes(Q) || root) of the untweaked aggregate key Q)
	tap := f.c.F["tap"]
	var tapRoot []byte
	if strings.HasPrefix(tap, "root:") {
		tapRoot = mustHex(strings.TrimPrefix(tap, "root:"))
	}
	if tap != "" && len(rtw) != 0 {
		R.Broken("taproot mode excludes explicit tweaks")
	}

	privs := make([]*btcec.PrivateKey, u)
	pubs := make([]*btcec.PublicKey, u)
	pkb := make([][]byte, u)
	for i, d := range ds {
		privs[i] = privOf(d)
		pubs[i] = privs[i].PubKey()
		pkb[i] = refec.Compressed(pubOf(d))
		if !bytes.Equal(pubs[i].SerializeCompressed(), pkb[i]) {
			f.bad("PrivateKey.PubKey", "position %d: btcd %x != d*G %x", i, pubs[i].SerializeCompressed(), pkb[i])
			return
		}
	}
	refKeys := pkb
	if sorted {
		refKeys = refec.KeySort(pkb)
	}

	// ---- key aggregation
	kc0, err0 := cachedKeyAgg(refKeys)
	if err0 != nil {
		R.Broken("reference KeyAgg failed on valid keys: %v", err0)
	}
	if tap != "" {
		t := refec.TaggedHash("TapTweak", refec.XBytes(kc0.Q), tapRoot)
		rtw = []refec.Tweak{{T: t, XOnly: true}}
	}
	// KeyAggWithTweaks = KeyAgg followed by ApplyTweak per tweak
	kc, errT := kc0, error(nil)
	for _, tw := range rtw {
		if kc, errT = refec.ApplyTweak(kc, tw.T, tw.XOnly); errT != nil {
			break
		}
	}
	keysArg := clonePubs(pubs)
	var kopts []musig2.KeyAggOption
	switch {
	case tap == "bip86":
		kopts = append(kopts, musig2.WithBIP86KeyTweak())
	case tap != "":
		kopts = append(kopts, musig2.WithTaprootKeyTweak(tapRoot))
	case len(itw) > 0:
		kopts = append(kopts, musig2.WithKeyTweaks(itw...))
	}
	agg, parityAcc, tweakAcc, err := musig2.AggregateKeys(keysArg, sorted, kopts...)
	if (err == nil) != (errT == nil) {
		f.bad("musig2.AggregateKeys/error", "btcd err=%v, BIP327 err=%v", err, errT)
		return
	}
	if err != nil {
		return
	}
	if got := pointOfPub(agg.FinalKey); !refec.Equal(got, kc.Q) {
		f.bad("musig2.AggregateKeys/final-key", "btcd %s != BIP327 Q %s", pointStr(got), pointStr(kc.Q))
	}
	if got := pointOfPub(agg.PreTweakedKey); !refec.Equal(got, kc0.Q) {
		f.bad("musig2.AggregateKeys/pre-tweaked-key", "btcd %s != BIP327 KeyAgg %s", pointStr(got), pointStr(kc0.Q))
	}
	if bigOfScalar(parityAcc).Cmp(kc.Gacc) != 0 {
		f.bad("musig2.AggregateKeys/gacc", "btcd %s != BIP327 gacc %s", bh(bigOfScalar(parityAcc)), bh(kc.Gacc))
	}
	if bigOfScalar(tweakAcc).Cmp(kc.Tacc) != 0 {
		f.bad("musig2.AggregateKeys/tacc", "btcd %s != BIP327 tacc %s", bh(bigOfScalar(tweakAcc)), bh(kc.Tacc))
	}
	if !refec.HasEvenY(kc.Q) {
		R.Add("musig_odd_Q", 1)
	}
	// the same option values handed to a second call (options are values a caller
	// may keep, e.g. in a session configuration): same aggregate
	if len(kopts) > 0 {
		agg2, _, _, err2 := musig2.AggregateKeys(clonePubs(pubs), sorted, kopts...)
		if err2 != nil || !agg2.FinalKey.IsEqual(agg.FinalKey) || !agg2.PreTweakedKey.IsEqual(agg.PreTweakedKey) {
			f.bad("musig2.AggregateKeys/option-values-reused", "a second AggregateKeys call with the same KeyAggOption values gives err=%v final key %x, the first call %x", err2, serOrNil(agg2), agg.FinalKey.SerializeCompressed())
		}
	}
	if sorted {
		for i := range keysArg {
			if !bytes.Equal(keysArg[i].SerializeCompressed(), refKeys[i]) {
				f.bad("musig2.sortKeys", "sorted position %d: %x != KeySort %x", i, keysArg[i].SerializeCompressed(), refKeys[i])
				break
			}
		}
	}

	// ---- coefficients (hook): L, second key, a_i
	ck := clonePubs(pubs)
	kh := musig2.VerifKeyHashFingerprint(ck, sorted)
	if !bytes.Equal(kh, refec.HashKeys(refKeys)) {
		f.bad("musig2.keyHashFingerprint", "got %x want %x", kh, refec.HashKeys(refKeys))
	}
	idx := musig2.VerifSecondUniqueKeyIndex(ck, sorted)
	ref2 := refec.GetSecondKey(refKeys)
	switch {
	case idx == -1:
		if !bytes.Equal(ref2, make([]byte, 33)) {
			f.bad("musig2.secondUniqueKeyIndex", "btcd: none, BIP327: %x", ref2)
		}
		R.Add("musig_all_keys_equal", 1)
	case idx < 0 || idx >= u || !bytes.Equal(ck[idx].SerializeCompressed(), ref2):
		f.bad("musig2.secondUniqueKeyIndex", "btcd index %d, BIP327 second key %x", idx, ref2)
	}
	if idx >= 0 && idx < u {
		for i := range pubs {
			a := musig2.VerifAggregationCoefficient(ck, pubs[i], kh, idx)
			want := refec.KeyAggCoeff(refKeys, pkb[i])
			if bigOfScalar(a).Cmp(want) != 0 {
				f.bad("musig2.aggregationCoefficient", "position %d: btcd %s != BIP327 %s", i, bh(bigOfScalar(a)), bh(want))
			}
			if want.Cmp(bigOne) == 0 {
				R.Add("musig_coeff_one_hits", 1)
			}
		}
	}

	// ---- nonces
	explicit := splitList(f.c.F["secnonces"])
	nonces := make([]*musig2.Nonces, u)
	refSec := make([][]byte, u)
	refPub := make([][]byte, u)
	for i := range ds {
		if explicit != nil {
			kk := mustHex(explicit[i])
			refSec[i] = append(append([]byte{}, kk...), pkb[i]...)
			refPub[i] = refec.PubNonce(refSec[i])
			n := &musig2.Nonces{}
			copy(n.SecNonce[:], refSec[i])
			n.PubNonce = musig2.VerifSecNonceToPubNonce(n.SecNonce)
			nonces[i] = n
		} else {
			rb := posRand(i)
			n, err := musig2.GenNonces(musig2.WithCustomRand(bytes.NewReader(rb)), musig2.WithPublicKey(pubs[i]), musig2.WithNonceSecretKeyAux(privs[i]))
			if err != nil {
				f.bad("musig2.GenNonces/error", "position %d: %v", i, err)
				return
			}
			nonces[i] = n
			refSec[i], refPub[i] = refNonce(rb, ds[i])
		}
		if !bytes.Equal(nonces[i].SecNonce[:], refSec[i]) || !bytes.Equal(nonces[i].PubNonce[:], refPub[i]) {
			f.bad("musig2.GenNonces/value", "position %d: sec %x pub %x, BIP327 sec %x pub %x", i, nonces[i].SecNonce[:], nonces[i].PubNonce[:], refSec[i], refPub[i])
			return
		}
	}
	pubNonces := make([][musig2.PubNonceSize]byte, u)
	for i := range nonces {
		pubNonces[i] = nonces[i].PubNonce
	}
	aggNonce, err := musig2.AggregateNonces(pubNonces)
	refAgg, _, rerr := refec.NonceAgg(refPub)
	if (err == nil) != (rerr == nil) {
		f.bad("musig2.AggregateNonces/error", "btcd err=%v, BIP327 err=%v", err, rerr)
		return
	}
	if !bytes.Equal(aggNonce[:], refAgg) {
		f.bad("musig2.AggregateNonces/value", "got %x want %x", aggNonce[:], refAgg)
		return
	}
	if bytes.Equal(refAgg[:33], make([]byte, 33)) || bytes.Equal(refAgg[33:], make([]byte, 33)) {
		R.Add("musig_aggnonce_half_infinity", 1)
	}

	// ---- partial signatures
	sc := &refec.SessionCtx{AggNonce: refAgg, PubKeys: refKeys, Tweaks: rtw, Msg: msg}
	sv, err := refec.SessionValuesFor(kc, refAgg, msg)
	if err != nil {
		R.Broken("reference GetSessionValues failed: %v", err)
	}
	if !refec.HasEvenY(sv.R) {
		R.Add("musig_odd_R", 1)
	}
	var sopts []musig2.SignOption
	switch {
	case tap == "bip86":
		sopts = append(sopts, musig2.WithBip86SignTweak())
	case tap != "":
		sopts = append(sopts, musig2.WithTaprootSignTweak(tapRoot))
	case len(itw) > 0:
		sopts = append(sopts, musig2.WithTweaks(itw...))
	}
	if sorted {
		sopts = append(sopts, musig2.WithSortedKeys())
	}
	psigs := make([]*musig2.PartialSignature, u)
	refPs := make([][]byte, u)
	for i := range ds {
		refPs[i], err = refec.PartialSignV(sv, refSec[i], refec.Bytes32(ds[i]), sc)
		if err != nil {
			R.Broken("reference PartialSign failed: %v", err)
		}
		ps, err := musig2.Sign(nonces[i].SecNonce, privs[i], aggNonce, clonePubs(pubs), msg32, sopts...)
		if err != nil {
			f.bad("musig2.Sign/error", "position %d: %v", i, err)
			return
		}
		psigs[i] = ps
		if got := bigOfScalar(ps.S); got.Cmp(refec.Int(refPs[i])) != 0 {
			f.bad("musig2.Sign/value", "position %d: btcd s=%s, BIP327 s=%x", i, bh(got), refPs[i])
		}
		var enc bytes.Buffer
		var dec musig2.PartialSignature
		if err := ps.Encode(&enc); err != nil || !bytes.Equal(enc.Bytes(), refPs[i]) {
			f.bad("musig2.PartialSignature.Encode", "position %d: err=%v bytes %x want %x", i, err, enc.Bytes(), refPs[i])
		} else if err := dec.Decode(bytes.NewReader(enc.Bytes())); err != nil || !dec.S.Equals(ps.S) {
			f.bad("musig2.PartialSignature.Decode/roundtrip", "position %d: err=%v", i, err)
		}
		if got := pointOfPub(ps.R); !refec.Equal(got, sv.R) {
			f.bad("musig2.Sign/R", "position %d: btcd R=%s, BIP327 R=%s", i, pointStr(got), pointStr(sv.R))
		}
		if !ps.Verify(nonces[i].PubNonce, aggNonce, clonePubs(pubs), pubs[i], msg32, sopts...) {
			f.bad("musig2.PartialSignature.Verify/rejects-valid", "position %d: btcd rejects the partial signature BIP327 accepts", i)
		}
		// fast sign gives the same value
		if i == 0 {
			psf, err := musig2.Sign(nonces[i].SecNonce, privs[i], aggNonce, clonePubs(pubs), msg32, append(append([]musig2.SignOption{}, sopts...), musig2.WithFastSign())...)
			if err != nil || !psf.S.Equals(ps.S) {
				f.bad("musig2.Sign/fast", "WithFastSign gives err=%v / a different s", err)
			}
		}
	}
	// negatives, verdict taken from the reference
	verdict := func(name string, s *big.Int, nonceIdx, keyIdx int) {
		sc2 := scalarOf(s)
		ps := musig2.NewPartialSignature(sc2, psigs[0].R)
		got := ps.Verify(nonces[nonceIdx].PubNonce, aggNonce, clonePubs(pubs), pubs[keyIdx], msg32, sopts...)
		want := refec.PartialSigVerifyV(sv, refec.Bytes32(s), refPub[nonceIdx], pkb[keyIdx], sc) == nil
		if got != want {
			f.bad("musig2.PartialSignature.Verify/"+name, "btcd=%v, BIP327=%v", got, want)
		}
	}
	s0 := refec.Int(refPs[0])
	verdict("s+1", new(big.Int).Mod(new(big.Int).Add(s0, bigOne), refec.N), 0, 0)
	if u >= 2 {
		verdict("other-signers-nonce-and-key", s0, 1, 1)
		verdict("other-signers-key", s0, 0, u-1)
	} else {
		verdict("n-s", new(big.Int).Mod(new(big.Int).Sub(refec.N, s0), refec.N), 0, 0)
	}

	// ---- combination
	var copts []musig2.CombineOption
	switch {
	case tap == "bip86":
		copts = append(copts, musig2.WithBip86TweakedCombine(msg32, clonePubs(pubs), sorted))
	case tap != "":
		copts = append(copts, musig2.WithTaprootTweakedCombine(msg32, clonePubs(pubs), tapRoot, sorted))
	case len(itw) > 0:
		copts = append(copts, musig2.WithTweakedCombine(msg32, clonePubs(pubs), itw, sorted))
	}
	final := musig2.CombineSigs(psigs[0].R, psigs, copts...)
	refFinal, _, err := refec.PartialSigAggV(sv, refPs)
	if err != nil {
		R.Broken("reference PartialSigAgg failed: %v", err)
	}
	fb := final.Serialize()
	if !bytes.Equal(fb, refFinal) {
		f.bad("musig2.CombineSigs/value", "got %x, BIP327 PartialSigAgg %x", fb, refFinal)
	}
	// The final signature is valid unless the aggregate nonce R' was the point
	// at infinity (BIP327 then substitutes G so that signing does not fail; the
	// resulting signature is invalid by design).  The verdict is the reference's.
	wantFinalOK := refec.SchnorrVerify(refec.XBytes(kc.Q), msg, refFinal)
	if !wantFinalOK && explicit == nil {
		R.Broken("reference MuSig2 signature does not verify under the reference BIP340 verifier")
	}
	if wantFinalOK {
		R.Add("musig_final_sig_valid", 1)
	} else {
		R.Add("musig_final_sig_invalid_by_design_Rprime_infinite", 1)
	}
	// combining reads the partial signatures, it does not consume them: each
	// one still carries BIP327's value and a second aggregation over the same
	// slice gives the same signature (a signer may combine first and send its
	// own partial signature afterwards)
	for i, ps := range psigs {
		sb := ps.S.Bytes()
		if !bytes.Equal(sb[:], refPs[i]) {
			f.bad("musig2.CombineSigs/changes-partial-signature", "after CombineSigs partial signature %d reads %x, it was %x", i, sb, refPs[i])
			break
		}
	}
	if again := musig2.CombineSigs(psigs[0].R, psigs, copts...).Serialize(); !bytes.Equal(again, fb) {
		f.bad("musig2.CombineSigs/not-repeatable", "a second CombineSigs over the same partial signatures gives %x, the first gave %x", again, fb)
	}
	if got := final.Verify(msg, agg.FinalKey); got != wantFinalOK {
		f.bad("musig2.CombineSigs/verifies-under-impl", "final signature %x: btcd verify=%v, BIP340 (reference)=%v", fb, got, wantFinalOK)
	}
	if bytes.Equal(fb, refFinal) {
		// same bytes, same verdict
	} else if got := refec.SchnorrVerify(refec.XBytes(kc.Q), msg, fb); got != wantFinalOK {
		f.bad("musig2.CombineSigs/verifies-under-reference", "final signature %x: BIP340 verify=%v, expected %v", fb, got, wantFinalOK)
	}

	// ---- the same run through Context / Session
	sess := make([]*musig2.Session, u)
	for i := range ds {
		// with sorting, signer 0 learns the other signers one by one
		// (WithNumSigners + RegisterSigner); everybody else knows them upfront
		incremental := sorted && i == 0 && u >= 2
		var co []musig2.ContextOption
		if incremental {
			co = append(co, musig2.WithNumSigners(u))
		} else {
			co = append(co, musig2.WithKnownSigners(clonePubs(pubs)))
		}
		switch {
		case tap == "bip86":
			co = append(co, musig2.WithBip86TweakCtx())
		case tap != "":
			co = append(co, musig2.WithTaprootTweakCtx(tapRoot))
		case len(itw) > 0:
			co = append(co, musig2.WithTweakedContext(itw...))
		}
		ctx, err := musig2.NewContext(privs[i], sorted, co...)
		if err != nil {
			f.bad("musig2.NewContext/error", "position %d: %v", i, err)
			return
		}
		if incremental {
			all := false
			for j := 1; j < u; j++ {
				if all, err = ctx.RegisterSigner(pubs[j]); err != nil {
					f.bad("musig2.Context.RegisterSigner/error", "registering %d: %v", j, err)
					return
				}
			}
			if !all {
				f.bad("musig2.Context.RegisterSigner/count", "all signers registered but haveAll=false")
				return
			}
		}
		if tap != "" {
			ik, err := ctx.TaprootInternalKey()
			if err != nil || !refec.Equal(pointOfPub(ik), kc0.Q) {
				f.bad("musig2.Context.TaprootInternalKey", "position %d: err=%v / key differs from BIP327 KeyAgg", i, err)
			}
		}
		ckey, err := ctx.CombinedKey()
		if err != nil || !refec.Equal(pointOfPub(ckey), kc.Q) {
			f.bad("musig2.Context.CombinedKey", "position %d: err=%v key differs from BIP327 Q", i, err)
		}
		nc := *nonces[i]
		sess[i], err = ctx.NewSession(musig2.WithPreGeneratedNonce(&nc))
		if err != nil {
			f.bad("musig2.Context.NewSession/error", "position %d: %v", i, err)
			return
		}
	}
	sessSigs := make([]*musig2.PartialSignature, u)
	for i := range ds {
		have := u == 1
		for j := range ds {
			if j == i {
				continue
			}
			h, err := sess[i].RegisterPubNonce(nonces[j].PubNonce)
			if err != nil {
				f.bad("musig2.Session.RegisterPubNonce/error", "position %d<-%d: %v", i, j, err)
				return
			}
			have = h
		}
		if u == 1 {
			// a single signer: the combined nonce is its own public nonce
			if err := sess[i].RegisterCombinedNonce(nonces[i].PubNonce); err != nil {
				f.bad("musig2.Session.RegisterCombinedNonce/error", "%v", err)
				return
			}
		} else if !have {
			f.bad("musig2.Session.RegisterPubNonce/count", "position %d: all nonces registered but haveAll=false", i)
			return
		}
		var so []musig2.SignOption
		if sorted {
			so = append(so, musig2.WithSortedKeys())
		}
		ps, err := sess[i].Sign(msg32, so...)
		if err != nil {
			f.bad("musig2.Session.Sign/error", "position %d: %v", i, err)
			return
		}
		sessSigs[i] = ps
		if bigOfScalar(ps.S).Cmp(refec.Int(refPs[i])) != 0 {
			f.bad("musig2.Session.Sign/value", "position %d: btcd s=%s, BIP327 s=%x", i, bh(bigOfScalar(ps.S)), refPs[i])
		}
	}
	if u >= 2 {
		done := false
		for j := 1; j < u; j++ {
			h, err := sess[0].CombineSig(sessSigs[j])
			if err != nil {
				if j == u-1 && !wantFinalOK && err == musig2.ErrFinalSigInvalid {
					return // expected: R' at infinity
				}
				f.bad("musig2.Session.CombineSig/error", "adding signature %d: %v", j, err)
				return
			}
			done = h
		}
		if !wantFinalOK {
			f.bad("musig2.Session.CombineSig/accepts-invalid-final", "the final signature is invalid but CombineSig reported no error")
		} else if !done || sess[0].FinalSig() == nil {
			f.bad("musig2.Session.CombineSig/count", "all signatures added but no final signature")
		} else if fs := sess[0].FinalSig().Serialize(); !bytes.Equal(fs, refFinal) {
			f.bad("musig2.Session.FinalSig/value", "got %x, BIP327 %x", fs, refFinal)
		}
	}
}

// kindMusigTweak: AggregateKeys with one boundary tweak value.
func kindMusigTweak(f *failer) {
	var pubs []*btcec.PublicKey
	var pkb [][]byte
	for _, s := range splitList(f.c.F["keys"]) {
		v, _ := new(big.Int).SetString(s, 16)
		pubs = append(pubs, privOf(v).PubKey())
		pkb = append(pkb, refec.Compressed(pubOf(v)))
	}
	rtw, itw := parseTweaks(f.c.F["tweaks"])
	kc, werr := refec.KeyAggWithTweaks(pkb, rtw)
	agg, pacc, tacc, err := musig2.AggregateKeys(clonePubs(pubs), false, musig2.WithKeyTweaks(itw...))
	if (err == nil) != (werr == nil) {
		f.bad("musig2.AggregateKeys/tweak-error", "btcd err=%v, BIP327 err=%v", err, werr)
		return
	}
	if err != nil {
		R.Add("musig_tweak_rejected", 1)
		return
	}
	if !refec.Equal(pointOfPub(agg.FinalKey), kc.Q) || bigOfScalar(pacc).Cmp(kc.Gacc) != 0 || bigOfScalar(tacc).Cmp(kc.Tacc) != 0 {
		f.bad("musig2.AggregateKeys/tweak-value", "btcd (Q=%s,gacc=%s,tacc=%s) != BIP327 (Q=%s,gacc=%s,tacc=%s)",
			pointStr(pointOfPub(agg.FinalKey)), bh(bigOfScalar(pacc)), bh(bigOfScalar(tacc)), pointStr(kc.Q), bh(kc.Gacc), bh(kc.Tacc))
	}
}

// kindMusigBadNonce: malformed public / aggregate nonces.
//
// where=pub:  signer 0's public nonce has one half replaced by `half`; BIP327
// NonceAgg and PartialSigVerify must fail (cpoint does not admit infinity or
// any non-02/03 encoding).  The partial signature offered is the one that
// satisfies the verification equation if the bad half is read as the point at
// infinity, so an implementation that admits the encoding accepts it.
//
// where=agg: the aggregate nonce has one half replaced; BIP327 Sign must fail
// unless the half is exactly 33 zero bytes (cpoint_ext).
func kindMusigBadNonce(f *failer) {
	var ds []*big.Int
	for _, s := range splitList(f.c.F["keys"]) {
		v, _ := new(big.Int).SetString(s, 16)
		ds = append(ds, v)
	}
	u := len(ds)
	msg := unhex(f, "msg")
	var msg32 [32]byte
	copy(msg32[:], msg)
	half := unhex(f, "half")
	which := 0
	if f.c.F["which"] == "1" {
		which = 1
	}
	privs := make([]*btcec.PrivateKey, u)
	pubs := make([]*btcec.PublicKey, u)
	pkb := make([][]byte, u)
	refSec := make([][]byte, u)
	refPub := make([][]byte, u)
	for i, d := range ds {
		privs[i] = privOf(d)
		pubs[i] = privs[i].PubKey()
		pkb[i] = refec.Compressed(pubOf(d))
		refSec[i], refPub[i] = refNonce(posRand(i), d)
	}
	refAgg, _, err := refec.NonceAgg(refPub)
	if err != nil {
		R.Broken("reference NonceAgg failed: %v", err)
	}
	var aggNonce [musig2.PubNonceSize]byte
	copy(aggNonce[:], refAgg)

	switch f.c.F["where"] {
	case "pub":
		bad := append([]byte{}, refPub[0]...)
		copy(bad[which*33:], half)
		var badPN [musig2.PubNonceSize]byte
		copy(badPN[:], bad)
		// NonceAgg
		all := make([][musig2.PubNonceSize]byte, u)
		refAll := make([][]byte, u)
		for i := range ds {
			copy(all[i][:], refPub[i])
			refAll[i] = refPub[i]
		}
		all[0] = badPN
		refAll[0] = bad
		_, _, werr := refec.NonceAgg(refAll)
		_, ierr := musig2.AggregateNonces(all)
		if (ierr == nil) != (werr == nil) {
			f.bad("musig2-nonce-encoding/AggregateNonces", "btcd err=%v, BIP327 NonceAgg err=%v for pubnonce %x", ierr, werr, bad)
		}
		// PartialSigVerify with the real aggregate nonce
		sc := &refec.SessionCtx{AggNonce: refAgg, PubKeys: pkb, Msg: msg}
		sv, err := refec.GetSessionValues(sc)
		if err != nil {
			R.Broken("reference GetSessionValues failed: %v", err)
		}
		k1, k2 := refec.Int(refSec[0][:32]), refec.Int(refSec[0][32:64])
		// effective nonce if the bad half is read as infinity
		eff := new(big.Int)
		if which == 0 {
			eff.Mul(sv.B, k2)
		} else {
			eff.Set(k1)
		}
		if !refec.HasEvenY(sv.R) {
			eff.Sub(refec.N, eff.Mod(eff, refec.N))
		}
		a := refec.KeyAggCoeff(pkb, pkb[0])
		g := big.NewInt(1)
		if !refec.HasEvenY(sv.Q) {
			g.Sub(refec.N, bigOne)
		}
		s := new(big.Int).Mul(sv.E, a)
		s.Mul(s, g).Mul(s, sv.Gacc).Mul(s, ds[0])
		s.Add(s, eff).Mod(s, refec.N)
		want := refec.PartialSigVerifyV(sv, refec.Bytes32(s), bad, pkb[0], sc) == nil
		ps := musig2.NewPartialSignature(scalarOf(s), privOf(bigOne).PubKey())
		got := ps.Verify(badPN, aggNonce, clonePubs(pubs), pubs[0], msg32)
		if got != want {
			f.bad("musig2-nonce-encoding/PartialSignature.Verify", "btcd=%v, BIP327=%v for pubnonce %x", got, want, bad)
		}
	case "agg":
		bad := append([]byte{}, refAgg...)
		copy(bad[which*33:], half)
		var badAgg [musig2.PubNonceSize]byte
		copy(badAgg[:], bad)
		sc := &refec.SessionCtx{AggNonce: bad, PubKeys: pkb, Msg: msg}
		var sn [musig2.SecNonceSize]byte
		copy(sn[:], refSec[0])
		// FastSign: the self-check would (rightly) fail for a wrong aggregate
		// nonce; the question is only whether the encoding is admitted
		_, werr := refec.GetSessionValues(sc)
		_, ierr := musig2.Sign(sn, privs[0], badAgg, clonePubs(pubs), msg32, musig2.WithFastSign())
		if (ierr == nil) != (werr == nil) {
			f.bad("musig2-nonce-encoding/Sign", "btcd err=%v, BIP327 err=%v for aggnonce %x", ierr, werr, bad)
		}
	default:
		R.Broken("bad where")
	}
}

func musigKeyTriples() [][]named {
	t := [][]named{{{"3", big.NewInt(3)}, {"1", big.NewInt(1)}, {"n-2", nM2}}}
	// a key together with its negation (d and n-d share the x coordinate):
	// BIP327 compares the 33-byte plain keys, so they are DIFFERENT keys
	nM3 := new(big.Int).Sub(refec.N, big.NewInt(3))
	t = append(t, []named{{"3", big.NewInt(3)}, {"n-3", nM3}, {"1", big.NewInt(1)}})
	if R.Thorough() {
		t = append(t, []named{{"drvA", derivedScalar("musig-A")}, {"drvB", derivedScalar("musig-B")}, {"drvC", derivedScalar("musig-C")}})
	}
	return t
}

// keyLists returns every sequence of length 1..maxLen over {0,1,2}.
func keyLists(maxLen int) [][]int {
	var lists [][]int
	var gen func(cur []int)
	gen = func(cur []int) {
		if len(cur) > 0 {
			lists = append(lists, append([]int{}, cur...))
		}
		if len(cur) == maxLen {
			return
		}
		for k := 0; k < 3; k++ {
			gen(append(cur, k))
		}
	}
	gen(nil)
	return lists
}

// tweakChains returns every sequence over {p,x} with minLen <= length <= maxLen.
func tweakChains(minLen, maxLen int) [][]string {
	var chains [][]string
	var rec func(cur []string)
	rec = func(cur []string) {
		if len(cur) >= minLen {
			chains = append(chains, append([]string{}, cur...))
		}
		if len(cur) == maxLen {
			return
		}
		for _, k := range []string{"p", "x"} {
			rec(append(cur, k))
		}
	}
	rec(nil)
	return chains
}

func genMusigCases(bounds map[string]interface{}) []Case {
	var cases []Case
	tweakVals := [][]byte{refec.Bytes32(derivedScalar("tweak-1")), refec.Bytes32(derivedScalar("tweak-2")), refec.Bytes32(derivedScalar("tweak-3"))}
	msgMain := named{"sha256('c11/musig')", refec.Int(sha("c11/musig"))}
	msgZero := named{"0", big.NewInt(0)}
	triples := musigKeyTriples()
	var blocks []string
	emit := func(triple []named, lists [][]int, chains [][]string, taps []string, m named, what string) {
		n0 := len(cases)
		for _, l := range lists {
			var ks, kn []string
			for _, k := range l {
				ks = append(ks, bh(triple[k].v))
				kn = append(kn, triple[k].name)
			}
			for _, srt := range []string{"0", "1"} {
				for _, ch := range chains {
					var tw []string
					for i, k := range ch {
						tw = append(tw, k+":"+hx(tweakVals[i]))
					}
					cases = append(cases, Case{Kind: "musig", F: map[string]string{
						"keys": strings.Join(ks, ","), "sort": srt, "tweaks": strings.Join(tw, ","), "msg": hx(refec.Bytes32(m.v)),
						"label": fmt.Sprintf("keys=[%s]/sort=%s/tweaks=[%s]/m=%s", strings.Join(kn, ","), srt, strings.Join(ch, ","), m.name),
					}})
				}
				for _, tp := range taps {
					cases = append(cases, Case{Kind: "musig", F: map[string]string{
						"keys": strings.Join(ks, ","), "sort": srt, "tweaks": "", "tap": tp, "msg": hx(refec.Bytes32(m.v)),
						"label": fmt.Sprintf("keys=[%s]/sort=%s/taproot=%s/m=%s", strings.Join(kn, ","), srt, strings.SplitN(tp, ":", 2)[0], m.name),
					}})
				}
			}
		}
		blocks = append(blocks, fmt.Sprintf("%s: %d cases", what, len(cases)-n0))
	}
	taps := []string{"bip86", "root:" + hx(sha("c11/script-root"))}
	// a key and its negation in one signer set (always the second triple)
	emit(triples[1], keyLists(3), tweakChains(0, 1), nil, msgMain,
		"keys {3,n-3,1} (a key and its negation): all 39 lists of length 1..3 x sort{0,1} x 3 tweak chains of length <= 1")
	if !R.Thorough() {
		emit(triples[0], keyLists(4), tweakChains(0, 2), nil, msgMain,
			"keys {3,1,n-2}: all 120 lists of length 1..4 (duplicates, every order) x sort{0,1} x all 7 tweak chains of length <= 2 over {plain,x-only}")
		emit(triples[0], keyLists(3), nil, taps, msgMain,
			"keys {3,1,n-2}: all 39 lists of length 1..3 x sort{0,1} x taproot {BIP86, script root}")
	} else {
		emit(triples[0], keyLists(5), tweakChains(0, 2), nil, msgMain,
			"keys {3,1,n-2}: all 363 lists of length 1..5 x sort{0,1} x all 7 tweak chains of length <= 2")
		emit(triples[0], keyLists(3), tweakChains(3, 3), taps, msgMain,
			"keys {3,1,n-2}: all 39 lists of length 1..3 x sort{0,1} x (all 8 tweak chains of length 3 + taproot {BIP86, script root})")
		emit(triples[0], keyLists(3), tweakChains(0, 2), nil, msgZero,
			"keys {3,1,n-2}, message 0: all 39 lists of length 1..3 x sort{0,1} x 7 tweak chains")
		emit(triples[1], keyLists(4), tweakChains(0, 2), taps[:1], msgMain,
			"derived key triple: all 120 lists of length 1..4 x sort{0,1} x (7 tweak chains + BIP86)")
	}
	bounds["musig2_sessions"] = map[string]interface{}{
		"keys":            "d in {3, 1, n-2} (compressed encodings 02f9.., 0279.., 03c6..: both parities, list order != sorted order); thorough adds a derived triple",
		"blocks":          blocks,
		"nonces":          "GenNonces(WithCustomRand(fixed per position), WithPublicKey, WithNonceSecretKeyAux) compared with BIP327 NonceGen",
		"per_case_checks": "AggregateKeys (Q, pre-tweak Q, gacc, tacc, sort order), L / second key / every coefficient, AggregateNonces, Sign per position (+FastSign), Encode/Decode, PartialSignature.Verify (valid, s+1 or n-s, other signer's nonce/key), CombineSigs, BIP340 verify (impl and refec), Context/Session flow (known signers; RegisterSigner when sorted)",
		"cases":           len(cases),
	}
	return cases
}

func genMusigEdgeCases(bounds map[string]interface{}) []Case {
	var cases []Case
	triple := musigKeyTriples()[0]
	msg := hx(sha("c11/musig-edge"))
	keyLists := [][]int{{0}, {0, 1}, {1, 0, 2}, {2, 2}}
	// ---- boundary tweak values, including the tweak that cancels the key
	for _, l := range keyLists {
		var ks, kn []string
		var pkb [][]byte
		for _, k := range l {
			ks = append(ks, bh(triple[k].v))
			kn = append(kn, triple[k].name)
			pkb = append(pkb, refec.Compressed(pubOf(triple[k].v)))
		}
		// aggregate secret key q = sum a_i d_i
		q := new(big.Int)
		for _, k := range l {
			a := refec.KeyAggCoeff(pkb, refec.Compressed(pubOf(triple[k].v)))
			q.Add(q, new(big.Int).Mul(a, triple[k].v))
		}
		q.Mod(q, refec.N)
		negQ := new(big.Int).Sub(refec.N, q)
		vals := []named{{"0", big.NewInt(0)}, {"1", big.NewInt(1)}, {"n-1", nM1}, {"n", refec.N}, {"n+1", nP1}, {"2^256-1", max256},
			{"-q", negQ}, {"q", q}, {"-q+1", new(big.Int).Mod(new(big.Int).Add(negQ, bigOne), refec.N)}}
		for _, v := range vals {
			for _, kind := range []string{"p", "x"} {
				cases = append(cases, Case{Kind: "musig-tweak", F: map[string]string{"keys": strings.Join(ks, ","), "tweaks": kind + ":" + hx(refec.Bytes32(v.v)),
					"label": fmt.Sprintf("keys=[%s]/tweak=%s:%s", strings.Join(kn, ","), kind, v.name)}})
				// second position of a chain
				cases = append(cases, Case{Kind: "musig-tweak", F: map[string]string{"keys": strings.Join(ks, ","),
					"tweaks": "x:" + hx(refec.Bytes32(derivedScalar("tweak-1"))) + "," + kind + ":" + hx(refec.Bytes32(v.v)),
					"label":  fmt.Sprintf("keys=[%s]/tweak=x:t1,%s:%s", strings.Join(kn, ","), kind, v.name)}})
			}
		}
	}
	// ---- explicit secret nonces that cancel: aggregate nonce halves at infinity
	k1, k2, k3 := derivedScalar("edge-k1"), derivedScalar("edge-k2"), derivedScalar("edge-k3")
	neg := func(v *big.Int) *big.Int { return new(big.Int).Sub(refec.N, v) }
	sn := func(a, b *big.Int) string { return hx(append(refec.Bytes32(a), refec.Bytes32(b)...)) }
	for _, nn := range []struct{ name, list string }{
		{"both-halves-infinity", sn(k1, k2) + "," + sn(neg(k1), neg(k2))},
		{"first-half-infinity", sn(k1, k2) + "," + sn(neg(k1), k3)},
		{"second-half-infinity", sn(k1, k2) + "," + sn(k3, neg(k2))},
	} {
		for _, l := range [][]int{{0, 1}, {2, 2}} {
			for _, tw := range []string{"", "x:" + hx(refec.Bytes32(derivedScalar("tweak-1")))} {
				for _, srt := range []string{"0", "1"} {
					cases = append(cases, Case{Kind: "musig", F: map[string]string{
						"keys": bh(triple[l[0]].v) + "," + bh(triple[l[1]].v), "sort": srt, "tweaks": tw, "msg": msg, "secnonces": nn.list,
						"label": fmt.Sprintf("keys=[%s,%s]/sort=%s/tweaks=%d/nonces=%s", triple[l[0]].name, triple[l[1]].name, srt, len(splitList(tw)), nn.name)}})
				}
			}
		}
	}
	// ---- malformed nonce encodings
	G := refec.G
	off := offCurveNear(G.X)
	halves := []struct {
		name string
		b    []byte
	}{
		{"33-zero-bytes", make([]byte, 33)},
		{"00||x(G)", append([]byte{0}, refec.Bytes32(G.X)...)},
		{"00||00..01", append(make([]byte, 32), 1)},
		{"04||x(G)", append([]byte{4}, refec.Bytes32(G.X)...)},
		{"ff||x(G)", append([]byte{0xff}, refec.Bytes32(G.X)...)},
		{"02||off-curve", append([]byte{2}, refec.Bytes32(off)...)},
		{"02||p", append([]byte{2}, refec.Bytes32(refec.P)...)},
		{"03||p+1", append([]byte{3}, refec.Bytes32(pP1)...)},
		{"02||x(G) (valid)", refec.Compressed(G)},
	}
	for _, h := range halves {
		for _, which := range []string{"0", "1"} {
			for _, where := range []string{"pub", "agg"} {
				cases = append(cases, Case{Kind: "musig-badnonce", F: map[string]string{
					"keys": bh(triple[0].v) + "," + bh(triple[1].v), "msg": msg, "half": hx(h.b), "which": which, "where": where,
					"label": fmt.Sprintf("%snonce/half%s=%s", where, which, h.name)}})
			}
		}
	}
	for _, v := range []*big.Int{big.NewInt(0), big.NewInt(1), nM1, refec.N, nP1, pM1, refec.P, max256} {
		cases = append(cases, Case{Kind: "psig-decode", F: map[string]string{"b": hx(refec.Bytes32(v)), "label": "psig=" + symName(v)}})
	}
	cases = append(cases, Case{Kind: "psig-decode", F: map[string]string{"b": hx(make([]byte, 31)), "label": "psig/len=31"}})
	cases = append(cases, Case{Kind: "psig-decode", F: map[string]string{"b": "", "label": "psig/len=0"}})
	cases = append(cases, Case{Kind: "psig-decode", F: map[string]string{"b": hx(make([]byte, 33)), "label": "psig/len=33"}})
	bounds["musig2_edges"] = map[string]interface{}{
		"psig_decode":    "0, 1, n-1, n, n+1, p-1, p, 2^256-1; lengths 0, 31, 33",
		"tweak_values":   "0, 1, n-1, n, n+1, 2^256-1, -q, q, -q+1 (q = aggregate secret key), plain and x-only, first and second in a chain, 4 key lists",
		"nonce_cancel":   "two signers with secret nonces (k1,k2) and (-k1,-k2) / (-k1,k3) / (k3,-k2): aggregate nonce halves at infinity",
		"nonce_encoding": "each half of a public nonce / of the aggregate nonce replaced by: 33 zero bytes, 00||x, 00||0..01, 04||x, ff||x, 02||off-curve, 02||p, 03||p+1, valid",
		"cases":          len(cases),
	}
	return cases
}

func serOrNil(a *musig2.AggregateKey) []byte {
	if a == nil || a.FinalKey == nil {
		return nil
	}
	return a.FinalKey.SerializeCompressed()
}
