package main

import (
	"bytes"
	"fmt"
	"math/big"

	"github.com/btcsuite/btcd/btcec/v2"
	"github.com/btcsuite/btcd/btcec/v2/schnorr"

	"verif/ref/refec"
)

func init() { kinds["pubkey"] = kindPubKey }

// kindPubKey: one byte string offered as a public key to btcec.ParsePubKey,
// btcec.IsCompressedPubKey and schnorr.ParsePubKey.
func kindPubKey(f *failer) {
	b := unhex(f, "b")
	if f.c.F["nil"] == "1" {
		b = nil
	}
	// --- btcec.ParsePubKey
	want, wantOK := refec.ParsePubKey(b)
	pk, err := btcec.ParsePubKey(b)
	switch {
	case (err == nil) != wantOK:
		f.bad("btcec.ParsePubKey/accept", "btcd accept=%v (err=%v), reference accept=%v", err == nil, err, wantOK)
	case err == nil:
		got := pointOfPub(pk)
		if !refec.Equal(got, want) {
			f.bad("btcec.ParsePubKey/point", "btcd (%s) != reference (%s)", pointStr(got), pointStr(want))
		}
		if !pk.IsOnCurve() {
			f.bad("btcec.ParsePubKey/oncurve", "parsed key reports IsOnCurve()=false")
		}
		if c := pk.SerializeCompressed(); !bytes.Equal(c, refec.Compressed(want)) {
			f.bad("PublicKey.SerializeCompressed", "got %x want %x", c, refec.Compressed(want))
		}
		if u := pk.SerializeUncompressed(); !bytes.Equal(u, refec.Uncompressed(want)) {
			f.bad("PublicKey.SerializeUncompressed", "got %x want %x", u, refec.Uncompressed(want))
		}
		// parse . serialize = id for both formats
		for _, ser := range [][]byte{pk.SerializeCompressed(), pk.SerializeUncompressed()} {
			pk2, err2 := btcec.ParsePubKey(ser)
			if err2 != nil || !pk2.IsEqual(pk) {
				f.bad("btcec.ParsePubKey/roundtrip", "re-parsing %x gives err=%v / a different key", ser, err2)
			}
		}
		R.Add("pubkey_accepted", 1)
	}
	if got, w := btcec.IsCompressedPubKey(b), len(b) == 33 && (b[0] == 2 || b[0] == 3); got != w {
		f.bad("btcec.IsCompressedPubKey", "got %v want %v", got, w)
	}
	// --- schnorr.ParsePubKey
	wx, wxOK := refec.ParseXOnly(b)
	xpk, err := schnorr.ParsePubKey(b)
	switch {
	case (err == nil) != wxOK:
		f.bad("schnorr.ParsePubKey/accept", "btcd accept=%v (err=%v), reference accept=%v", err == nil, err, wxOK)
	case err == nil:
		got := pointOfPub(xpk)
		if !refec.Equal(got, wx) {
			f.bad("schnorr.ParsePubKey/point", "btcd (%s) != reference lift_x (%s)", pointStr(got), pointStr(wx))
		}
		if s := schnorr.SerializePubKey(xpk); !bytes.Equal(s, b) {
			f.bad("schnorr.SerializePubKey/roundtrip", "got %x want %x", s, b)
		}
		R.Add("xonly_accepted", 1)
	}
}

// offCurveNear returns the first x' >= x (x' < p) that is NOT an abscissa.
func offCurveNear(x *big.Int) *big.Int {
	v := new(big.Int).Set(x)
	for {
		v.Add(v, bigOne)
		if _, ok := refec.LiftX(v); !ok {
			return v
		}
	}
}

type shape struct {
	b     []byte
	label string
}

// pubKeyShapes enumerates every byte shape of the plan for one key point:
// lengths {0,1,32,33,34,64,65,66} x prefixes {00..07,ff} x
// x in {on-curve, off-curve, p-1, p, p+1, 0, 2^256-1} x
// y in {even root, odd root, root+1 (off curve), p, 2^256-1}.
func pubKeyShapes(P refec.Point, keyName string) []shape {
	var out []shape
	add := func(b []byte, format string, a ...interface{}) {
		out = append(out, shape{b: append([]byte{}, b...), label: "key=" + keyName + "/" + fmt.Sprintf(format, a...)})
	}
	prefixes := []byte{0, 1, 2, 3, 4, 5, 6, 7, 0xff}
	xs := []named{{"oncurve", P.X}, {"offcurve", offCurveNear(P.X)}, {"p-1", pM1}, {"p", refec.P}, {"p+1", pP1}, {"0", big.NewInt(0)}, {"2^256-1", max256}}
	add(nil, "len=0")
	for _, x := range xs {
		xb := refec.Bytes32(x.v)
		add(xb, "len=32/x=%s", x.name)
		// y candidates for this x
		var ys []named
		if pt, ok := refec.LiftX(new(big.Int).Mod(x.v, refec.P)); ok {
			odd := refec.Neg(pt)
			yoff := new(big.Int).Add(pt.Y, bigOne)
			ys = []named{{"even", pt.Y}, {"odd", odd.Y}, {"even+1", yoff}, {"p", refec.P}, {"2^256-1", max256}}
		} else {
			ys = []named{{"keyY", P.Y}, {"0", big.NewInt(0)}}
		}
		add(append(append([]byte{}, xb...), refec.Bytes32(ys[0].v)...), "len=64/x=%s/y=%s", x.name, ys[0].name)
		for _, pf := range prefixes {
			add(append([]byte{pf}, xb[:31]...), "len=32/prefix=%02x/x=%s", pf, x.name)
			add(append([]byte{pf}, xb...), "len=33/prefix=%02x/x=%s", pf, x.name)
			add(append(append([]byte{pf}, xb...), 0), "len=34/prefix=%02x/x=%s", pf, x.name)
			for _, y := range ys {
				full := append(append([]byte{pf}, xb...), refec.Bytes32(y.v)...)
				add(full, "len=65/prefix=%02x/x=%s/y=%s", pf, x.name, y.name)
				add(append(append([]byte{}, full...), 0), "len=66/prefix=%02x/x=%s/y=%s", pf, x.name, y.name)
				add(full[:64], "len=64/prefix=%02x/x=%s/y=%s", pf, x.name, y.name)
			}
		}
	}
	for _, pf := range prefixes {
		add([]byte{pf}, "len=1/prefix=%02x", pf)
	}
	return out
}

func genPubKeyCases(bounds map[string]interface{}) []Case {
	var cases []Case
	seen := map[string]bool{}
	for _, k := range privAlpha {
		for _, sh := range pubKeyShapes(pubOf(k.v), k.name) {
			if seen[hx(sh.b)] {
				continue
			}
			seen[hx(sh.b)] = true
			cases = append(cases, Case{Kind: "pubkey", F: map[string]string{"b": hx(sh.b), "label": sh.label}})
		}
	}
	cases = append(cases, Case{Kind: "pubkey", F: map[string]string{"b": "", "nil": "1", "label": "nil"}})
	// every shape the parsers admit is then used to verify a signature made for
	// the key the shape was derived from (ECDSA for SEC1 shapes, BIP340 for
	// 32-byte shapes); the verdict is the reference's for the decoded point
	nShapes := len(cases)
	msg := refec.Bytes32(msgAlpha[len(msgAlpha)-1].v)
	seenV := map[string]bool{}
	for _, k := range privAlpha {
		r, s, _, _ := refec.ECDSASignWithNonce(k.v, msg, big.NewInt(3))
		ssig, _ := refec.SchnorrSign(k.v, msg, make([]byte, 32))
		for _, sh := range pubKeyShapes(pubOf(k.v), k.name) {
			if seenV[k.name+hx(sh.b)] {
				continue
			}
			seenV[k.name+hx(sh.b)] = true
			if _, ok := refec.ParsePubKey(sh.b); ok {
				cases = append(cases, Case{Kind: "ecdsa", F: map[string]string{"msg": hx(msg), "pub": hx(sh.b), "r": bh(r), "s": bh(s),
					"label": "verify-under-admitted-shape/" + sh.label}})
			}
			if _, ok := refec.ParseXOnly(sh.b); ok {
				cases = append(cases, Case{Kind: "schnorr", F: map[string]string{"msg": hx(msg), "pk": hx(sh.b), "sig": hx(ssig),
					"label": "verify-under-admitted-shape/" + sh.label}})
			}
		}
	}
	bounds["pubkey_shapes"] = map[string]interface{}{
		"lengths":                      []int{0, 1, 32, 33, 34, 64, 65, 66},
		"prefixes":                     "00..07, ff",
		"x":                            "on-curve (key), first off-curve after it, p-1, p, p+1, 0, 2^256-1",
		"y":                            "even root, odd root, root+1, p, 2^256-1 (or key y / 0 when x has no root)",
		"keys":                         len(privAlpha),
		"distinct":                     nShapes,
		"verify_under_admitted_shapes": len(cases) - nShapes,
	}
	return cases
}
