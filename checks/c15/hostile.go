package main

// Decoders on hostile bytes: the result must be (value | error); never a panic,
// never a read outside the record (inputs are passed with cap == len so such a
// read is an out-of-range slice), never a result larger than the input allows.
// When the reference parser accepts the bytes as a complete, well-formed
// record, the real decoder must return exactly the reference value.

import (
	"bytes"
	"fmt"
	"runtime"

	"github.com/btcsuite/btcd/blockchain"
	"github.com/btcsuite/btcd/wire/v2"

	ref "verif/ref/refcodec"
)

// decoders under test; the name is also the <function> part of violation keys.
var decoderFns = []string{
	"deserializeVLQ",
	"decodeCompressedTxOut",
	"deserializeUtxoEntry",
	"decodeSpentTxOut",
	"deserializeSpendJournalEntry",
	"deserializeUtxoEntryV0",
	"deserializeBestChainState",
	"deserializeBlockRow",
}

// maxScriptFor is the largest script a decoder may legitimately return for an
// input of n bytes: the raw form is a sub-slice of the input, the special forms
// expand 21/33 input bytes to at most 67.
func maxScriptFor(n int) int {
	if n < 67 {
		return 67
	}
	return n
}

// checkHostile runs decoder fn on b.  panicked reports a panic of the real code.
func checkHostile(fn string, b []byte, shape []int) (what string, panicked bool) {
	in := exact(b)
	switch fn {
	case "deserializeVLQ":
		var v uint64
		var n int
		if p := guard(func() { v, n = blockchain.VerifDeserializeVLQ(in) }); p != "" {
			return fmt.Sprintf("%s(%x) panicked: %s", fn, trunc(b), p), true
		}
		if n < 0 || n > len(b) {
			return fmt.Sprintf("deserializeVLQ(%x) reports %d bytes read of %d", b, n, len(b)), false
		}
		if rv, rn, term, fits := ref.ReadVLQ64(b); term && fits && (v != rv || n != rn) {
			return fmt.Sprintf("deserializeVLQ(%x)=(%d,%d), format says (%d,%d)", b, v, n, rv, rn), false
		}

	case "decodeCompressedTxOut":
		var a uint64
		var s []byte
		var n int
		var err error
		if p := guard(func() { a, s, n, err = blockchain.VerifDecodeCompressedTxOut(in) }); p != "" {
			return fmt.Sprintf("%s(%x) panicked: %s", fn, trunc(b), p), true
		}
		if err == nil && (n < 0 || n > len(b) || len(s) > maxScriptFor(len(b))) {
			return fmt.Sprintf("decodeCompressedTxOut(%x): %d bytes read, script of %d bytes from %d input bytes", trunc(b), n, len(s), len(b)), false
		}
		if ra, rs, rn, rerr := ref.DecodeTxOut(b); rerr == nil && rn == len(b) {
			if err != nil || a != ra || !bytes.Equal(s, rs) || n != rn {
				return fmt.Sprintf("decodeCompressedTxOut(%x)=(%d,%x,%d,%v), format says (%d,%x,%d)", trunc(b), a, trunc(s), n, err, ra, trunc(rs), rn), false
			}
		}

	case "deserializeUtxoEntry":
		var e blockchain.VerifC15Entry
		var ok bool
		var err error
		if p := guard(func() { e, ok, err = blockchain.VerifDeserializeUtxoEntry(in) }); p != "" {
			return fmt.Sprintf("%s(%x) panicked: %s", fn, trunc(b), p), true
		}
		if ok == (err != nil) {
			return fmt.Sprintf("deserializeUtxoEntry(%x): entry returned=%v with err=%v", trunc(b), ok, err), false
		}
		if ok && len(e.PkScript) > maxScriptFor(len(b)) {
			return fmt.Sprintf("deserializeUtxoEntry(%x): script of %d bytes from %d input bytes", trunc(b), len(e.PkScript), len(b)), false
		}
		if re, rerr := ref.DecodeUtxoEntry(b); rerr == nil {
			if !ok {
				return fmt.Sprintf("deserializeUtxoEntry(%x) failed (%v) on a well-formed record", trunc(b), err), false
			}
			if d := sameEntry(e, re); d != "" {
				return fmt.Sprintf("deserializeUtxoEntry(%x): %s", trunc(b), d), false
			}
		}

	case "decodeSpentTxOut":
		var st blockchain.SpentTxOut
		var n int
		var err error
		if p := guard(func() { n, err = blockchain.VerifDecodeSpentTxOut(in, &st) }); p != "" {
			return fmt.Sprintf("%s(%x) panicked: %s", fn, trunc(b), p), true
		}
		if n < 0 || n > len(b) || len(st.PkScript) > maxScriptFor(len(b)) {
			return fmt.Sprintf("decodeSpentTxOut(%x): %d bytes read, script of %d bytes from %d input bytes (err %v)", trunc(b), n, len(st.PkScript), len(b), err), false
		}
		if re, rn, rerr := ref.DecodeSpentTxOut(b); rerr == nil && rn == len(b) {
			if err != nil || n != rn {
				return fmt.Sprintf("decodeSpentTxOut(%x)=(%d,%v) on a well-formed record of %d bytes", trunc(b), n, err, rn), false
			}
			if d := sameStxo(st, re); d != "" {
				return fmt.Sprintf("decodeSpentTxOut(%x): %s", trunc(b), d), false
			}
		}

	case "deserializeSpendJournalEntry":
		total := 0
		for _, k := range shape {
			total += k
		}
		var sts []blockchain.SpentTxOut
		var err error
		txns := txnsOf(shape)
		if p := guard(func() { sts, err = blockchain.VerifDeserializeSpendJournalEntry(in, txns) }); p != "" {
			return fmt.Sprintf("%s(%x) panicked: %s", fn, trunc(b), p), true
		}
		if err == nil && len(b) > 0 && len(sts) != total {
			return fmt.Sprintf("deserializeSpendJournalEntry(%x, shape %v) returned %d stxos", trunc(b), shape, len(sts)), false
		}
		for i := range sts {
			if len(sts[i].PkScript) > maxScriptFor(len(b)) {
				return fmt.Sprintf("deserializeSpendJournalEntry(%x): script of %d bytes from %d input bytes", trunc(b), len(sts[i].PkScript), len(b)), false
			}
		}
		if total > 0 {
			if res, rerr := ref.DecodeSpendJournal(b, total); rerr == nil {
				if err != nil {
					return fmt.Sprintf("deserializeSpendJournalEntry(%x, shape %v) failed (%v) on a well-formed record", trunc(b), shape, err), false
				}
				for i := range res {
					if d := sameStxo(sts[i], res[i]); d != "" {
						return fmt.Sprintf("deserializeSpendJournalEntry(%x, shape %v) stxo %d: %s", trunc(b), shape, i, d), false
					}
				}
			}
		}

	case "deserializeUtxoEntryV0":
		var m map[uint32]blockchain.VerifC15Entry
		var err error
		if p := guard(func() { m, err = blockchain.VerifDeserializeUtxoEntryV0(in) }); p != "" {
			return fmt.Sprintf("%s(%x) panicked: %s", fn, trunc(b), p), true
		}
		if err == nil {
			if len(m) > 2+8*len(b) {
				return fmt.Sprintf("deserializeUtxoEntryV0(%x) returned %d outputs", trunc(b), len(m)), false
			}
			for i, e := range m {
				if len(e.PkScript) > maxScriptFor(len(b)) {
					return fmt.Sprintf("deserializeUtxoEntryV0(%x): output %d script of %d bytes", trunc(b), i, len(e.PkScript)), false
				}
			}
		}

	case "deserializeBestChainState":
		var err error
		var gh [32]byte
		var ght uint32
		var gt uint64
		var gwBytes []byte
		var gwNil bool
		if p := guard(func() {
			h, a, c, w, e := blockchain.VerifDeserializeBestChainState(in)
			gh, ght, gt, err = h, a, c, e
			gwNil = w == nil
			if w != nil {
				gwBytes = w.Bytes()
			}
		}); p != "" {
			return fmt.Sprintf("%s(%x) panicked: %s", fn, trunc(b), p), true
		}
		if err == nil && (gwNil || len(gwBytes) > len(b)) {
			return fmt.Sprintf("deserializeBestChainState(%x): work sum nil=%v of %d bytes", trunc(b), gwNil, len(gwBytes)), false
		}
		if rh, rht, rt, rw, rerr := ref.DecodeBestState(b); rerr == nil {
			if err != nil || gh != rh || ght != rht || gt != rt || !bytes.Equal(gwBytes, rw.Bytes()) {
				return fmt.Sprintf("deserializeBestChainState(%x)=(%x,%d,%d,%x,%v), format says (%x,%d,%d,%x)", trunc(b), gh, ght, gt, gwBytes, err, rh, rht, rt, rw.Bytes()), false
			}
		}

	case "deserializeBlockRow":
		var err error
		var st byte
		var hdrOK bool
		var ver int32
		var bits, nonce uint32
		var ts int64
		var prev, merkle [32]byte
		if p := guard(func() {
			h, s, e := blockchain.VerifDeserializeBlockRow(in)
			st, err = s, e
			if h != nil {
				hdrOK = true
				ver, bits, nonce, ts, prev, merkle = h.Version, h.Bits, h.Nonce, h.Timestamp.Unix(), h.PrevBlock, h.MerkleRoot
			}
		}); p != "" {
			return fmt.Sprintf("%s(%x) panicked: %s", fn, trunc(b), p), true
		}
		if hdrOK == (err != nil) {
			return fmt.Sprintf("deserializeBlockRow(%x): header returned=%v with err=%v", trunc(b), hdrOK, err), false
		}
		if len(b) < 81 && err == nil {
			return fmt.Sprintf("deserializeBlockRow(%x) returned a row from %d bytes", trunc(b), len(b)), false
		}
		if len(b) == 81 {
			rh, _ := parseHeader(b[:80])
			if err != nil || st != b[80] || ver != rh.Version || bits != rh.Bits || nonce != rh.Nonce || ts != int64(rh.Time) || prev != rh.Prev || merkle != rh.Merkle {
				return fmt.Sprintf("deserializeBlockRow(%x) disagrees with the format (err %v)", b, err), false
			}
		}

	default:
		return "unknown decoder " + fn, false
	}
	return "", false
}

// checkAlloc measures the bytes allocated by one decoder call (the caller makes
// sure nothing else runs).  The decoders may allocate the decoded script (at
// most max(67, input)), small error values and, for the journal, one SpentTxOut
// per input; 64 KiB + input length is far above all of that.
func checkAlloc(fn string, b []byte, shape []int) string {
	in := exact(b)
	txns := txnsOf(shape)
	var m0, m1 runtime.MemStats
	runtime.ReadMemStats(&m0)
	callDecoder(fn, in, txns)
	runtime.ReadMemStats(&m1)
	d := m1.TotalAlloc - m0.TotalAlloc
	if d > uint64(64<<10+len(b)) {
		return fmt.Sprintf("%s(%x) allocated %d bytes for %d input bytes", fn, trunc(b), d, len(b))
	}
	return ""
}

// callDecoder calls the real decoder, swallowing panics (reported by
// checkHostile, not here).
func callDecoder(fn string, in []byte, txns []*wire.MsgTx) {
	guard(func() {
		switch fn {
		case "deserializeVLQ":
			blockchain.VerifDeserializeVLQ(in)
		case "decodeCompressedTxOut":
			blockchain.VerifDecodeCompressedTxOut(in)
		case "deserializeUtxoEntry":
			blockchain.VerifDeserializeUtxoEntry(in)
		case "decodeSpentTxOut":
			var st blockchain.SpentTxOut
			blockchain.VerifDecodeSpentTxOut(in, &st)
		case "deserializeSpendJournalEntry":
			blockchain.VerifDeserializeSpendJournalEntry(in, txns)
		case "deserializeUtxoEntryV0":
			blockchain.VerifDeserializeUtxoEntryV0(in)
		case "deserializeBestChainState":
			blockchain.VerifDeserializeBestChainState(in)
		case "deserializeBlockRow":
			blockchain.VerifDeserializeBlockRow(in)
		}
	})
}

// ---------------------------------------------------------------------------
// Harness protection.  A Go program cannot recover from a failed huge
// allocation (fatal "out of memory"), so before a decoder is executed on hostile
// bytes the size of the script buffer it would allocate is predicted by walking
// the record with the real, allocation-free helpers deserializeVLQ and
// decodeCompressedScriptSize, following the control flow of the decoders.  Calls
// predicted to allocate more than execLimit are NOT executed; they are recorded
// as allocation-bound failures on the strength of the prediction (and the
// smallest such input, which allocates only a few MiB, is executed and measured
// for real).  This is not an oracle: it only decides what is safe to run.
// ---------------------------------------------------------------------------

const execLimit = 4 << 20

// txoutAlloc mirrors decodeCompressedTxOut: the make() size of decompressScript,
// the bytes consumed and whether decoding continues normally.
func txoutAlloc(s []byte) (alloc int64, consumed int, ok bool) {
	_, br := blockchain.VerifDeserializeVLQ(s)
	if br >= len(s) {
		return 0, 0, false
	}
	sz := blockchain.VerifDecodeCompressedScriptSize(s[br:])
	if sz < 0 || len(s[br:]) < sz {
		return 0, 0, false
	}
	sub := s[br : br+sz]
	if len(sub) == 0 {
		return 0, br + sz, true
	}
	v2, _ := blockchain.VerifDeserializeVLQ(sub)
	if v2 < 6 {
		return 67, br + sz, true
	}
	a := int(v2 - 6)
	if a < 0 {
		return 0, 0, false // makeslice: len out of range (a recoverable panic)
	}
	return int64(a), br + sz, true
}

func stxoAlloc(b []byte) (int64, int, bool) {
	if len(b) == 0 {
		return 0, 0, false
	}
	code, off := blockchain.VerifDeserializeVLQ(b)
	if off >= len(b) {
		return 0, 0, false
	}
	if int32(code>>1) > 0 {
		_, br := blockchain.VerifDeserializeVLQ(b[off:])
		off += br
		if off >= len(b) {
			return 0, 0, false
		}
	}
	a, n, ok := txoutAlloc(b[off:])
	return a, off + n, ok
}

// predictAlloc returns the largest single buffer the decoder would allocate.
func predictAlloc(fn string, b []byte, shape []int) int64 {
	switch fn {
	case "decodeCompressedTxOut":
		a, _, _ := txoutAlloc(b)
		return a
	case "deserializeUtxoEntry":
		_, off := blockchain.VerifDeserializeVLQ(b)
		if off >= len(b) {
			return 0
		}
		a, _, _ := txoutAlloc(b[off:])
		return a
	case "decodeSpentTxOut":
		a, _, _ := stxoAlloc(b)
		return a
	case "deserializeSpendJournalEntry":
		total := 0
		for _, k := range shape {
			total += k
		}
		var max int64
		off := 0
		for i := 0; i < total && off <= len(b); i++ {
			a, n, ok := stxoAlloc(b[off:])
			if a > max {
				max = a
			}
			if !ok {
				break
			}
			off += n
		}
		return max
	case "deserializeUtxoEntryV0":
		_, off := blockchain.VerifDeserializeVLQ(b)
		if off >= len(b) {
			return 0
		}
		_, br := blockchain.VerifDeserializeVLQ(b[off:])
		off += br
		if off >= len(b) {
			return 0
		}
		code, br := blockchain.VerifDeserializeVLQ(b[off:])
		off += br
		if off >= len(b) {
			return 0
		}
		nOut := 0
		if code&2 != 0 {
			nOut++
		}
		if code&4 != 0 {
			nOut++
		}
		nb := code >> 3
		if code&6 == 0 {
			nb++
		}
		if uint64(len(b)-off) < nb {
			return 0
		}
		for i := uint64(0); i < nb; i++ {
			for x := b[off]; x != 0; x &= x - 1 {
				nOut++
			}
			off++
		}
		var max int64
		for i := 0; i < nOut && off <= len(b); i++ {
			a, n, ok := txoutAlloc(b[off:])
			if a > max {
				max = a
			}
			if !ok {
				break
			}
			off += n
		}
		return max
	}
	return 0
}

// checkAllocPredicted is the replayable form of a prediction-only failure.
func checkAllocPredicted(fn string, b []byte, shape []int) string {
	if a := predictAlloc(fn, b, shape); a > int64(64<<10+len(b)) {
		return fmt.Sprintf("%s(%x) would allocate a %d-byte script buffer for %d input bytes (size predicted by walking the record with the real deserializeVLQ/decodeCompressedScriptSize; call not executed above %d MiB to keep the harness alive)", fn, trunc(b), a, len(b), execLimit>>20)
	}
	return ""
}
