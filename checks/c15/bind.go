package main

// Binding of the reference to the ground truth the repository ships: the
// literal examples in the format comments of blockchain/compress.go,
// chainio.go, upgrade.go and the literal vectors of compress_test.go,
// chainio_test.go, upgrade_test.go.  Any disagreement is a broken oracle
// (exit 2), never a violation.
//
// One documented example is deliberately NOT used: compress.go says
// "50000000 (4) -> 47"; the formula printed right above it
// (1 + 10*(9*n + d-1) + e with n=0,d=5,e=7) gives 48, and so do
// compress_test.go ("0.5 BTC" -> 48) and Bitcoin Core.  It is a typo in the
// comment.

import (
	"bytes"
	"crypto/sha256"
	"fmt"
	"math/big"

	ref "verif/ref/refcodec"
)

type vlqVec struct {
	n uint64
	h string
}

var vlqVecs = []vlqVec{
	// compress.go format comment
	{0, "00"}, {127, "7f"}, {128, "8000"}, {129, "8001"}, {255, "807f"}, {256, "8100"},
	{16511, "ff7f"}, {16512, "808000"}, {32895, "80ff7f"}, {2113663, "ffff7f"},
	{270549119, "ffffff7f"}, {18446744073709551615, "80fefefefefefefefe7f"},
	// compress_test.go TestVLQ
	{1, "01"}, {16383, "fe7f"}, {16384, "ff00"}, {16513, "808001"}, {16639, "80807f"},
	{2113664, "80808000"}, {270549120, "8080808000"}, {2147483647, "86fefefe7f"},
	{2147483648, "86fefeff00"}, {4294967295, "8efefefe7f"},
}

var amountVecs = [][2]uint64{
	// compress.go comment (without the 50000000 -> 47 typo)
	{0, 0}, {1000, 4}, {10000, 5}, {12345678, 111111101}, {100000000, 9}, {500000000, 49}, {1000000000, 10},
	// compress_test.go
	{546, 4911}, {50000000, 48}, {2100000000000000, 21000000},
}

var scriptVecs = [][2]string{
	{"", "06"},
	{"76a9141018853670f9f3b0582c5b9ee8ce93764ac32b9388ac", "001018853670f9f3b0582c5b9ee8ce93764ac32b93"},
	{"76a914e34cce70c86373273efcc54ce7d2a491bb4a0e8488ac", "00e34cce70c86373273efcc54ce7d2a491bb4a0e84"},
	{"a914da1745e9b549bd0bfa1a569971c77eba30cd5a4b87", "01da1745e9b549bd0bfa1a569971c77eba30cd5a4b"},
	{"a914f815b036d9bbbce5e9f2a00abd1bf3dc91e9551087", "01f815b036d9bbbce5e9f2a00abd1bf3dc91e95510"},
	{"2102192d74d0cb94344c9569c2e77901573d8d7903c3ebec3a957724895dca52c6b4ac", "02192d74d0cb94344c9569c2e77901573d8d7903c3ebec3a957724895dca52c6b4"},
	{"2103b0bd634234abbb1ba1e986e884185c61cf43e001f9137f23c2c409273eb16e65ac", "03b0bd634234abbb1ba1e986e884185c61cf43e001f9137f23c2c409273eb16e65"},
	{"4104192d74d0cb94344c9569c2e77901573d8d7903c3ebec3a957724895dca52c6b40d45264838c0bd96852662ce6a847b197376830160c6d2eb5e6a4c44d33f453eac", "04192d74d0cb94344c9569c2e77901573d8d7903c3ebec3a957724895dca52c6b4"},
	{"410411db93e1dcdb8a016b49840f8c53bc1eb68a382e97b1482ecad7b148a6909a5cb2e0eaddfb84ccf9744464f82e160bfa9b8b64f9d4c03f999b8643f656b412a3ac", "0511db93e1dcdb8a016b49840f8c53bc1eb68a382e97b1482ecad7b148a6909a5c"},
	{"3302aaaaaaaaaaaaaaaaaaaaaaaaaaaaaaaaaaaaaaaaaaaaaaaaaaaaaaaaaaaaaaaaac", "293302aaaaaaaaaaaaaaaaaaaaaaaaaaaaaaaaaaaaaaaaaaaaaaaaaaaaaaaaaaaaaaaaac"},
	{"6a200102030405060708090a0b0c0d0e0f101112131415161718191a1b1c1d1e1f20", "286a200102030405060708090a0b0c0d0e0f101112131415161718191a1b1c1d1e1f20"},
}

const (
	p2pkBlk1   = "410496b538e853519c726a2c91e61ec11600ae1390813a627c66fb8be7947be63c52da7589379515d4e0a604f8141781e62294721166bf621e73a82cbf2342c858eeac"
	p2pkBlk9   = "410411db93e1dcdb8a016b49840f8c53bc1eb68a382e97b1482ecad7b148a6909a5cb2e0eaddfb84ccf9744464f82e160bfa9b8b64f9d4c03f999b8643f656b412a3ac"
	p2pkTest04 = "4104192d74d0cb94344c9569c2e77901573d8d7903c3ebec3a957724895dca52c6b40d45264838c0bd96852662ce6a847b197376830160c6d2eb5e6a4c44d33f453eac"
)

type txoutVec struct {
	amount uint64
	script string
	h      string
}

var txoutVecs = []txoutVec{
	{0, "6a200102030405060708090a0b0c0d0e0f101112131415161718191a1b1c1d1e1f20", "00286a200102030405060708090a0b0c0d0e0f101112131415161718191a1b1c1d1e1f20"},
	{546, "76a9141018853670f9f3b0582c5b9ee8ce93764ac32b9388ac", "a52f001018853670f9f3b0582c5b9ee8ce93764ac32b93"},
	{100000000, p2pkTest04, "0904192d74d0cb94344c9569c2e77901573d8d7903c3ebec3a957724895dca52c6b4"},
}

type entryVec struct {
	e ref.Entry
	h string
}

func ent(amount int64, script string, height int32, cb bool) ref.Entry {
	return ref.Entry{Amount: amount, Script: unhex(script), Height: height, CoinBase: cb}
}

var utxoVecs = []entryVec{
	// chainio.go comment examples 1-3 and chainio_test.go TestUtxoSerialization
	{ent(5000000000, p2pkBlk1, 1, true), "03320496b538e853519c726a2c91e61ec11600ae1390813a627c66fb8be7947be63c52"},
	{ent(15000000, "76a914b8025be1b3efc63b0ad48e7f9f10e87544528d5888ac", 113931, false), "8cf316800900b8025be1b3efc63b0ad48e7f9f10e87544528d58"},
	{ent(366875659, "a9141dd46a006572d820e448e12d2bbb38640bc718e687", 338156, false), "a8a2588ba5b9e763011dd46a006572d820e448e12d2bbb38640bc718e6"},
	{ent(1000000, "76a914ee8bd501094a7d5ca318da2506de35e1cb025ddc88ac", 100001, false), "8b99420700ee8bd501094a7d5ca318da2506de35e1cb025ddc"},
}

var stxoVecs = []entryVec{
	// chainio.go comment example 1 / chainio_test.go TestStxoSerialization
	{ent(5000000000, p2pkBlk9, 9, true), "1300320511db93e1dcdb8a016b49840f8c53bc1eb68a382e97b1482ecad7b148a6909a5c"},
	{ent(13761000000, "76a914b2fb57eadf61e106a100a7445a8c3f67898841ec88ac", 100024, false), "8b99700086c64700b2fb57eadf61e106a100a7445a8c3f67898841ec"},
	{ent(34405000000, "76a9146edbc6c4d31bae9f1ccc38538a114bf42de65e8688ac", 0, false), "0091f20f006edbc6c4d31bae9f1ccc38538a114bf42de65e86"},
}

type journalVec struct {
	es    []ref.Entry
	shape []int
	h     string
}

var journalVecs = []journalVec{
	{nil, nil, ""},
	{[]ref.Entry{ent(5000000000, p2pkBlk9, 9, true)}, []int{1}, "1300320511db93e1dcdb8a016b49840f8c53bc1eb68a382e97b1482ecad7b148a6909a5c"},
	// chainio_test.go "Two txns when one spends last output, one doesn't"
	{[]ref.Entry{
		ent(34405000000, "76a9146edbc6c4d31bae9f1ccc38538a114bf42de65e8688ac", 100024, false),
		ent(13761000000, "76a914b2fb57eadf61e106a100a7445a8c3f67898841ec88ac", 100024, false),
	}, []int{1, 1}, "8b99700086c64700b2fb57eadf61e106a100a7445a8c3f67898841ec8b99700091f20f006edbc6c4d31bae9f1ccc38538a114bf42de65e86"},
	// chainio.go comment example 2 (same two outputs, identical bytes apart from
	// the order in which the comment lists them)
	{[]ref.Entry{
		ent(13761000000, "76a914b2fb57eadf61e106a100a7445a8c3f67898841ec88ac", 100024, false),
		ent(34405000000, "76a9146edbc6c4d31bae9f1ccc38538a114bf42de65e8688ac", 100024, false),
	}, []int{2}, "8b99700091f20f006edbc6c4d31bae9f1ccc38538a114bf42de65e868b99700086c64700b2fb57eadf61e106a100a7445a8c3f67898841ec"},
}

type v0Vec struct {
	height int32
	cb     bool
	outs   map[uint32]ref.Entry
	h      string
}

var v0Vecs = []v0Vec{
	// upgrade.go comment examples 1-3 and upgrade_test.go
	{1, true, map[uint32]ref.Entry{0: ent(5000000000, p2pkBlk1, 1, true)}, "010103320496b538e853519c726a2c91e61ec11600ae1390813a627c66fb8be7947be63c52"},
	{100001, false, map[uint32]ref.Entry{1: ent(1000000, "76a914ee8bd501094a7d5ca318da2506de35e1cb025ddc88ac", 100001, false)}, "01858c21040700ee8bd501094a7d5ca318da2506de35e1cb025ddc"},
	{99004, true, map[uint32]ref.Entry{2: ent(100937281, "76a914da33f77cee27c2a975ed5124d7e4f7f97513510188ac", 99004, true)}, "0185843c010182b095bf4100da33f77cee27c2a975ed5124d7e4f7f975135101"},
	{113931, false, map[uint32]ref.Entry{
		0: ent(20000000, "76a914e2ccd6ec7c6e2e581349c77e067385fa8236bf8a88ac", 113931, false),
		2: ent(15000000, "76a914b8025be1b3efc63b0ad48e7f9f10e87544528d5888ac", 113931, false),
	}, "0185f90b0a011200e2ccd6ec7c6e2e581349c77e067385fa8236bf8a800900b8025be1b3efc63b0ad48e7f9f10e87544528d58"},
	{338156, false, map[uint32]ref.Entry{22: ent(366875659, "a9141dd46a006572d820e448e12d2bbb38640bc718e687", 338156, false)}, "0193d06c100000108ba5b9e763011dd46a006572d820e448e12d2bbb38640bc718e6"},
}

func revHash(s string) (h [32]byte) {
	b := unhex(s)
	for i := range b {
		h[31-i] = b[i]
	}
	return
}

// bindReference checks the reference against every shipped vector; returns a
// description of the first disagreement or "".
func bindReference() (n int, bad string) {
	for _, v := range vlqVecs {
		n++
		want := unhex(v.h)
		if got := ref.PutVLQ(v.n); !bytes.Equal(got, want) {
			return n, fmt.Sprintf("ref VLQ(%d)=%x, shipped vector %x", v.n, got, want)
		}
		if x, sz, term := ref.ReadVLQ(want); !term || sz != len(want) || !x.IsUint64() || x.Uint64() != v.n {
			return n, fmt.Sprintf("ref ReadVLQ(%x)=(%v,%d,%v), shipped vector %d", want, x, sz, term, v.n)
		}
		if x, sz, term, fits := ref.ReadVLQ64(want); !term || !fits || sz != len(want) || x != v.n {
			return n, fmt.Sprintf("ref ReadVLQ64(%x)=(%v,%d), shipped vector %d", want, x, sz, v.n)
		}
	}
	for _, v := range amountVecs {
		n++
		if c, ex := ref.CompressAmount(v[0]); c != v[1] || !ex {
			return n, fmt.Sprintf("ref CompressAmount(%d)=%d, shipped vector %d", v[0], c, v[1])
		}
		if a := ref.DecompressAmountExact(v[1]); !a.IsUint64() || a.Uint64() != v[0] {
			return n, fmt.Sprintf("ref DecompressAmount(%d)=%v, shipped vector %d", v[1], a, v[0])
		}
	}
	svs := append([][2]string{}, scriptVecs...)
	// "requires 2 size bytes - data push 200 bytes"
	push200 := append([]byte{0x4c, 0xc8}, make([]byte, 200)...)
	svs = append(svs, [2]string{fmt.Sprintf("%x", push200), "8050" + fmt.Sprintf("%x", push200)})
	for _, v := range svs {
		n++
		s, want := unhex(v[0]), unhex(v[1])
		if got := ref.CompressScript(s); !bytes.Equal(got, want) {
			return n, fmt.Sprintf("ref CompressScript(%x)=%x, shipped vector %x", s, got, want)
		}
		back, k, err := ref.DecompressScript(want)
		if err != nil || k != len(want) || !bytes.Equal(back, s) {
			return n, fmt.Sprintf("ref DecompressScript(%x)=(%x,%d,%v), shipped vector %x", want, back, k, err, s)
		}
	}
	// compress_test.go TestScriptCompressionErrors: type 4 with X off the curve.
	n++
	if _, _, err := ref.DecompressScript(unhex("04012d74d0cb94344c9569c2e77901573d8d7903c3ebec3a957724895dca52c6b4")); err != ref.ErrBadKey {
		return n, fmt.Sprintf("ref DecompressScript(invalid type-4 key) err=%v, shipped test expects a nil script", err)
	}
	for _, v := range txoutVecs {
		n++
		want := unhex(v.h)
		if got := ref.TxOut(v.amount, unhex(v.script)); !bytes.Equal(got, want) {
			return n, fmt.Sprintf("ref TxOut=%x, shipped vector %x", got, want)
		}
		a, s, k, err := ref.DecodeTxOut(want)
		if err != nil || a != v.amount || k != len(want) || !bytes.Equal(s, unhex(v.script)) {
			return n, fmt.Sprintf("ref DecodeTxOut(%x)=(%d,%x,%d,%v)", want, a, s, k, err)
		}
	}
	// compress_test.go TestTxOutCompressionErrors / chainio_test.go error tables:
	// these inputs must be rejected as truncated.
	for _, h := range []string{"00", "0010"} {
		n++
		if _, _, _, err := ref.DecodeTxOut(unhex(h)); err == nil {
			return n, "ref DecodeTxOut(" + h + ") accepted a record the shipped tests call short"
		}
	}
	for _, h := range []string{"", "00", "13", "1300", "1332"} {
		n++
		if _, _, err := ref.DecodeSpentTxOut(unhex(h)); err == nil {
			return n, "ref DecodeSpentTxOut(" + h + ") accepted a record the shipped tests call short"
		}
	}
	for _, h := range []string{"02", "0232"} {
		n++
		if _, err := ref.DecodeUtxoEntry(unhex(h)); err == nil {
			return n, "ref DecodeUtxoEntry(" + h + ") accepted a record the shipped tests call short"
		}
	}
	eq := func(a, b ref.Entry) bool {
		return a.Amount == b.Amount && bytes.Equal(a.Script, b.Script) && a.Height == b.Height && a.CoinBase == b.CoinBase
	}
	for _, v := range utxoVecs {
		n++
		want := unhex(v.h)
		if got := ref.UtxoEntry(v.e); !bytes.Equal(got, want) {
			return n, fmt.Sprintf("ref UtxoEntry=%x, shipped vector %x", got, want)
		}
		if e, err := ref.DecodeUtxoEntry(want); err != nil || !eq(e, v.e) {
			return n, fmt.Sprintf("ref DecodeUtxoEntry(%x)=(%+v,%v)", want, e, err)
		}
	}
	for _, v := range stxoVecs {
		n++
		want := unhex(v.h)
		if got := ref.SpentTxOut(v.e); !bytes.Equal(got, want) {
			return n, fmt.Sprintf("ref SpentTxOut=%x, shipped vector %x", got, want)
		}
		if e, k, err := ref.DecodeSpentTxOut(want); err != nil || k != len(want) || !eq(e, v.e) {
			return n, fmt.Sprintf("ref DecodeSpentTxOut(%x)=(%+v,%d,%v)", want, e, k, err)
		}
	}
	for _, v := range journalVecs {
		n++
		want := unhex(v.h)
		if got := ref.SpendJournal(v.es); !bytes.Equal(got, want) {
			return n, fmt.Sprintf("ref SpendJournal=%x, shipped vector %x", got, want)
		}
		es, err := ref.DecodeSpendJournal(want, len(v.es))
		if err != nil || len(es) != len(v.es) {
			return n, fmt.Sprintf("ref DecodeSpendJournal(%x) err=%v", want, err)
		}
		for i := range es {
			if !eq(es[i], v.es[i]) {
				return n, fmt.Sprintf("ref DecodeSpendJournal(%x) stxo %d = %+v", want, i, es[i])
			}
		}
	}
	for _, v := range v0Vecs {
		n++
		want := unhex(v.h)
		if got := ref.V0Entry(1, v.height, v.cb, v.outs); !bytes.Equal(got, want) {
			return n, fmt.Sprintf("ref V0Entry=%x, shipped vector %x", got, want)
		}
	}
	// chainio_test.go TestBestChainStateSerialization
	type bs struct {
		hash   string
		height uint32
		total  uint64
		work   int64
		h      string
	}
	for _, v := range []bs{
		{"000000000019d6689c085ae165831e934ff763ae46a2a6c172b3f1b60a8ce26f", 0, 1, 0x0100010001, "6fe28c0ab6f1b372c1a6a246ae63f74f931e8365e15a089c68d6190000000000000000000100000000000000050000000100010001"},
		{"00000000839a8e6886ab5951d76f411475428afc90947ee320161bbf18eb6048", 1, 2, 0x0200020002, "4860eb18bf1b1620e37e9490fc8a427514416fd75159ab86688e9a8300000000010000000200000000000000050000000200020002"},
	} {
		n++
		want := unhex(v.h)
		if got := ref.BestState(revHash(v.hash), v.height, v.total, big.NewInt(v.work)); !bytes.Equal(got, want) {
			return n, fmt.Sprintf("ref BestState=%x, shipped vector %x", got, want)
		}
		h, ht, t, w, err := ref.DecodeBestState(want)
		if err != nil || h != revHash(v.hash) || ht != v.height || t != v.total || w.Int64() != v.work {
			return n, fmt.Sprintf("ref DecodeBestState(%x) disagrees with the shipped vector", want)
		}
	}
	for _, h := range []string{"", "0000", "6fe28c0ab6f1b372c1a6a246ae63f74f931e8365e15a089c68d61900000000000000000001000000000000000500000001000100"} {
		n++
		if _, _, _, _, err := ref.DecodeBestState(unhex(h)); err == nil {
			return n, "ref DecodeBestState accepted a record the shipped tests call corrupt"
		}
	}
	// Block header layout: the reference bytes of the mainnet genesis header
	// must hash to the well-known genesis hash (no btcd code involved).
	n++
	gen := ref.Header{Version: 1, Merkle: revHash("4a5e1e4baab89f3a32518a88c31bc87f618f76673e2cc77ab2127b7afdeda33b"),
		Time: 1231006505, Bits: 0x1d00ffff, Nonce: 2083236893}
	row := ref.BlockRow(gen, 3)
	h1 := sha256.Sum256(row[:80])
	h2 := sha256.Sum256(h1[:])
	if len(row) != 81 || row[80] != 3 || h2 != revHash("000000000019d6689c085ae165831e934ff763ae46a2a6c172b3f1b60a8ce26f") {
		return n, fmt.Sprintf("ref BlockRow(genesis) hashes to %x", h2)
	}
	return n, ""
}
