// C15 — persisted chain-state records are lossless, format-stable and robust.
//
// Bounded exhaustive enumeration of the record codecs of blockchain/compress.go,
// chainio.go and upgrade.go against verif/ref/refcodec (an independent reference
// written from the format comments and Bitcoin Core's compressor.cpp, first
// bound to every literal example the repository ships):
//
//	encoders : bytes == reference bytes, size calculator == length,
//	           decode(encode(v)) == v
//	decoders : on hostile bytes (all strings of length <= 3, the VLQ overflow
//	           family at every VLQ position of every record, every truncation
//	           and every single-byte substitution of valid records) the result
//	           is value|error: no panic, no read outside the record (inputs have
//	           cap == len), bounded output/allocation, and the reference value
//	           whenever the reference accepts the bytes as a well-formed record.
package main

import (
	"encoding/hex"
	"fmt"
	"math/big"
	"runtime"
	"sort"
	"strings"
	"sync"
	"sync/atomic"
	"time"

	"github.com/btcsuite/btcd/wire/v2"

	"verif/engine/ev"
	ref "verif/ref/refcodec"
)

// hv is a valid encoding together with the decoder that reads it.
type hv struct {
	fn    string
	enc   []byte
	shape []int
}

// ---- failure bookkeeping: one (smallest) failing case per group ----

type failRec struct {
	c    Case
	what string
	id   string
}

var (
	failMu sync.Mutex
	fails  = map[string]*failRec{}
)

func less(a, b string) bool {
	if len(a) != len(b) {
		return len(a) < len(b)
	}
	return a < b
}

func fail(group, id string, c Case, what string) {
	failMu.Lock()
	defer failMu.Unlock()
	if cur, ok := fails[group]; !ok || less(id, cur.id) {
		fails[group] = &failRec{c: c, what: what, id: id}
	}
}

func shapeStr(s []int) string {
	out := ""
	for i, k := range s {
		if i > 0 {
			out += "+"
		}
		out += fmt.Sprint(k)
	}
	return out
}

// canonicalizing is set (single-threaded) around the re-run that makes the
// reported input tier-independent.
var canonicalizing bool

// hostile runs one hostile case and records a failure.
func hostile(r *ev.Run, fn string, b []byte, shape []int) {
	if pa := predictAlloc(fn, b, shape); pa > int64(64<<10+len(b)) {
		c := Case{Sub: "alloc", Fn: fn, Hex: hex.EncodeToString(b), Shape: append([]int{}, shape...)}
		if pa > execLimit {
			// not safe to execute: recorded on the strength of the prediction.
			c.Sub = "alloc-predicted"
			fail("decode-alloc/"+fn, c.Hex+"/"+shapeStr(shape), c, checkAllocPredicted(fn, b, shape))
			r.Add("hostile_calls_not_executed_predicted_huge_allocation", 1)
			return
		}
		// executed below; measured for real (sequentially) when it is the
		// smallest candidate of its decoder.
		fail("decode-alloc/"+fn, c.Hex+"/"+shapeStr(shape), c, "pending measurement")
		if canonicalizing {
			return // only the choice of the reported input is at stake here
		}
	}
	what, panicked := checkHostile(fn, b, shape)
	if what == "" {
		return
	}
	c := Case{Sub: "hostile", Fn: fn, Hex: hex.EncodeToString(b), Shape: append([]int{}, shape...)}
	id := c.Hex
	if fn == "deserializeSpendJournalEntry" {
		id += "/inputs=" + shapeStr(shape)
	}
	if panicked {
		fail("decode-panic/"+fn, id, c, what)
	} else {
		fail("decode-mismatch/"+fn, id, c, what)
	}
}

func main() {
	r := ev.Start("C15")
	r.Rule("exhaustive over explicit alphabets: VLQ values (all n<2^21 + 2^k±1, S(k)±2), amounts (all <10^6 + d·10^e±1 + extremes), scripts (6 special forms × valid/invalid curve points × parity, near misses, every raw length 0..130 and around 2^7/2^14), utxo/stxo entries (heights × coinbase × amounts × script classes), spend journals (every list of ≤3 txs with 0..3 inputs × per-input alphabet), legacy v0 entries, best-state and block-index rows; decoders on every byte string of length ≤3, the VLQ-overflow family at every VLQ position, every truncation and single-byte substitution of valid records. distinct_nontrivial counts structured cases individually (scripts, entries, journals, rows) and boundary values individually, and the bulk numeric/hostile ranges only by class (VLQ length; decoder × input length; decoder × overflow-run length k) — the bulk case counts are in the named counters")
	r.Assume("math/big (ModSqrt, Exp) and crypto/sha256 of the Go standard library")
	r.Assume("the record formats are those documented in the comments of compress.go / chainio.go / upgrade.go (valid-pubkey-only special forms, as btcd documents, not Core's laxer compressed-key rule)")
	r.Assume("amount compression is only required to be lossless where the documented 64-bit formula does not wrap (amount*9 < 2^64, i.e. every amount <= 2.04e18; the money supply is 2.1e15); above that btcd must still equal the documented formula mod 2^64, as Core does")

	if r.ReplayPath != "" {
		var c Case
		r.LoadReplay(&c)
		w1 := runCase(c)
		for i := 0; i < 2; i++ {
			if w := runCase(c); (w == "") != (w1 == "") {
				r.Broken("replay verdict flips: %q vs %q", w1, w)
			}
		}
		r.Eval(1)
		r.Trace(1)
		if w1 != "" {
			r.Violation(replayKey(c, w1), w1, c)
		}
		r.Finish(false)
	}

	nVec, bad := bindReference()
	if bad != "" {
		r.Broken("reference disagrees with a shipped vector: %s", bad)
	}
	r.Add("shipped_vectors_bound", int64(nVec))

	thorough := r.Thorough()
	workers := runtime.NumCPU()
	if thorough {
		r.SetBudget(14 * time.Minute)
	} else {
		r.SetBudget(5 * time.Minute) // safety net only: the quick tier needs ~2.5 CPU-minutes
	}
	bounds := map[string]interface{}{}
	complete := true
	phaseT := time.Now()
	phases := map[string]float64{}
	phase := func(name string) {
		phases[name] = time.Since(phaseT).Seconds()
		phaseT = time.Now()
	}

	// ---- shipped vectors through the real code too (cheap sanity of wiring) ----
	for _, v := range vlqVecs {
		if w := checkVLQ(v.n); w != "" {
			fail("vlq", fmt.Sprintf("%020d", v.n), Case{Sub: "vlq", N: v.n}, w)
		}
	}

	// ---- VLQ ----
	vlqMax := uint64(1) << 21
	if thorough {
		vlqMax = 1 << 25
	}
	const chunk = 1 << 14
	ev.Par(int(vlqMax/chunk), workers, func(ci int) {
		lo := uint64(ci) * chunk
		for n := lo; n < lo+chunk; n++ {
			if w := runCase(Case{Sub: "vlq", N: n}); w != "" {
				fail("vlq", fmt.Sprintf("%020d", n), Case{Sub: "vlq", N: n}, w)
			}
			if w := checkVLQOrder(n, n+1); w != "" {
				fail("vlq-order", fmt.Sprintf("%020d", n), Case{Sub: "vlq-order", N: n, M: n + 1}, w)
			}
		}
		r.Eval(2 * chunk)
		r.Trace(2 * chunk)
	})
	r.Add("vlq_values", int64(vlqMax))
	vb := vlqBoundaries()
	for i, n := range vb {
		if w := runCase(Case{Sub: "vlq", N: n}); w != "" {
			fail("vlq", fmt.Sprintf("%020d", n), Case{Sub: "vlq", N: n}, w)
		}
		r.Nontrivial(fmt.Sprintf("vlq/%d", n))
		if i > 0 {
			if w := checkVLQOrder(vb[i-1], n); w != "" {
				fail("vlq-order", fmt.Sprintf("%020d", vb[i-1]), Case{Sub: "vlq-order", N: vb[i-1], M: n}, w)
			}
		}
		r.Eval(2)
		r.Trace(2)
	}
	r.Add("vlq_boundary_values", int64(len(vb)))
	for k := 1; k <= 10; k++ {
		r.Nontrivial(fmt.Sprintf("vlq/len=%d", k))
	}
	bounds["vlq"] = fmt.Sprintf("all n < %d; %d boundary values (2^k-1,2^k,2^k+1 for k<=64; S(k)-2..S(k)+2 for k<=10); order of consecutive values", vlqMax, len(vb))
	r.Sample(map[string]interface{}{"sub": "vlq", "n": vb[len(vb)-1], "bytes": ev.Hex(ref.PutVLQ(vb[len(vb)-1]))})

	phase("vlq")
	// ---- amounts ----
	amtMax := uint64(1000000)
	if thorough {
		amtMax = 20000000
	}
	var lossy int64
	var lossyMu sync.Mutex
	ev.Par(int(amtMax/10000), workers, func(ci int) {
		lo := uint64(ci) * 10000
		for a := lo; a < lo+10000; a++ {
			if w := runCase(Case{Sub: "amount", N: a}); w != "" {
				fail("amount", fmt.Sprintf("%020d", a), Case{Sub: "amount", N: a}, w)
			}
			if w := runCase(Case{Sub: "amount-dec", N: a}); w != "" {
				fail("amount-dec", fmt.Sprintf("%020d", a), Case{Sub: "amount-dec", N: a}, w)
			}
		}
		r.Eval(20000)
		r.Trace(20000)
	})
	r.Add("amount_values", int64(amtMax))
	ab := amountBoundaries()
	var minLossy uint64
	for _, a := range ab {
		if w := runCase(Case{Sub: "amount", N: a}); w != "" {
			fail("amount", fmt.Sprintf("%020d", a), Case{Sub: "amount", N: a}, w)
		}
		if w := runCase(Case{Sub: "amount-dec", N: a}); w != "" {
			fail("amount-dec", fmt.Sprintf("%020d", a), Case{Sub: "amount-dec", N: a}, w)
		}
		if _, ex := ref.CompressAmount(a); !ex {
			lossyMu.Lock()
			lossy++
			if minLossy == 0 || a < minLossy {
				minLossy = a
			}
			lossyMu.Unlock()
		}
		r.Nontrivial(fmt.Sprintf("amount/%d", a))
		r.Eval(2)
		r.Trace(2)
	}
	r.Add("amount_boundary_values", int64(len(ab)))
	r.Add("amount_values_outside_lossless_domain_format_only", lossy)
	bounds["amount"] = fmt.Sprintf("compress+decompress: all amounts < %d and all compressed values < %d; %d boundary values (d*10^e-1,+0,+1 for e<=19, (10+d)*10^e, 21M BTC±1, 2^k-1,2^k,2^k+1 for k<=64, 2^64/9±12); smallest enumerated amount whose 64-bit compression wraps (format-only comparison there): %d", amtMax, amtMax, len(ab), minLossy)
	r.Sample(map[string]interface{}{"sub": "amount", "amount": uint64(2100000000000000), "compressed": 21000000})

	phase("amounts")
	// ---- scripts ----
	scripts := allScripts(thorough)
	classCount := map[string]int{}
	for _, s := range scripts {
		classCount[s.class+"->"+className(ref.Classify(s.s))]++
	}
	ev.Par(len(scripts), workers, func(i int) {
		s := scripts[i].s
		c := Case{Sub: "script", Hex: hex.EncodeToString(s)}
		if w := runCase(c); w != "" {
			fail("script", c.Hex, c, w)
		}
		r.Nontrivial("script/" + c.Hex)
		r.Eval(1)
		r.Trace(1)
	})
	// decoder side: every special type byte x every X candidate (valid/invalid),
	// plus raw forms with and without trailing data.
	var comp [][]byte
	for _, x := range xCandidates() {
		for t := byte(0); t <= 5; t++ {
			comp = append(comp, append([]byte{t}, x...))
		}
	}
	for _, n := range []int{0, 1, 2, 121, 122, 130} {
		comp = append(comp, ref.CompressScript(rawScript(n)))
	}
	ev.Par(len(comp), workers, func(i int) {
		c := Case{Sub: "script-dec", Hex: hex.EncodeToString(comp[i])}
		if w := runCase(c); w != "" {
			fail("script-dec", c.Hex, c, w)
		}
		r.Nontrivial("script-dec/" + c.Hex)
		r.Eval(1)
		r.Trace(1)
	})
	r.Add("scripts", int64(len(scripts)))
	r.Add("compressed_scripts_decoded", int64(len(comp)))
	r.Set("script_classes_input_to_compressed_form", classCount)
	bounds["scripts"] = fmt.Sprintf("%d distinct scripts: P2PKH/P2SH x 4 hashes; P2PK compressed (02/03) and uncompressed (04, hybrid 06/07) x %d X candidates (0..24, G, shipped keys, p-3..p+24, 2^255, 2^256-1) x y in {both roots, root±1, root+p, 0, 1, p-1, p}; near misses (each fixed byte ±1/00/ff/^80, length ±1); raw lengths %v...; %d compressed forms decoded (type 0..5 x every X)", len(scripts), len(xCandidates()), rawLengths(thorough)[:3], len(comp))
	r.Sample(map[string]interface{}{"sub": "script", "script": ev.Hex(scripts[0].s), "compressed": ev.Hex(ref.CompressScript(scripts[0].s))})

	phase("scripts")
	// ---- utxo entries / spent outputs, and their truncations ----
	entries := entryAlphabet(thorough)
	var validUtxo, validStxo [][]byte
	encU := make([][]byte, len(entries))
	encS := make([][]byte, len(entries))
	ev.Par(len(entries), workers, func(i int) {
		e := entries[i]
		cu := Case{Sub: "utxo", Entries: []EntryJ{toJ(e)}}
		if w := checkUtxoGuarded(e, false); w != "" {
			fail("utxo", caseID(cu), cu, w)
		}
		cs := Case{Sub: "utxo", Entries: []EntryJ{toJ(e)}, Spent: true}
		if w := checkUtxoGuarded(e, true); w != "" {
			fail("utxo-spent", caseID(cs), cs, w)
		}
		ct := Case{Sub: "stxo", Entries: []EntryJ{toJ(e)}}
		if w := runCaseFast(func() string { return checkStxo(e) }); w != "" {
			fail("stxo", caseID(ct), ct, w)
		}
		encU[i] = ref.UtxoEntry(e)
		encS[i] = ref.SpentTxOut(e)
		r.NontrivialBytes(append([]byte("utxo/"), encU[i]...))
		r.NontrivialBytes(append([]byte("stxo/"), encS[i]...))
		r.Eval(3)
		r.Trace(3)
	})
	validUtxo, validStxo = encU, encS
	r.Add("utxo_entries", int64(len(entries)))
	r.Add("stxo_entries", int64(len(entries)))
	bounds["entries"] = fmt.Sprintf("%d entries = heights %v x coinbase{0,1} x amounts %v x %d script classes; each as utxo entry (unspent and spent) and as spent-output record", len(entries), entryHeights, entryAmounts, len(entryScripts(thorough)))
	r.Sample(map[string]interface{}{"sub": "utxo", "entry": toJ(entries[len(entries)/2]), "bytes": ev.Hex(trunc(encU[len(entries)/2]))})

	phase("entries")
	// ---- spend journals ----
	shapes := journalShapes()
	jst := journalStxos()
	type jcase struct {
		shape []int
		es    []ref.Entry
	}
	var jcases []jcase
	for _, sh := range shapes {
		total := sum(sh)
		if total <= 4 {
			// every assignment of the per-input alphabet
			n := 1
			for i := 0; i < total; i++ {
				n *= len(jst)
			}
			for a := 0; a < n; a++ {
				es := make([]ref.Entry, total)
				x := a
				for i := 0; i < total; i++ {
					es[i] = jst[x%len(jst)]
					x /= len(jst)
				}
				jcases = append(jcases, jcase{sh, es})
			}
		} else {
			for rot := 0; rot < len(jst); rot++ {
				es := make([]ref.Entry, total)
				for i := range es {
					es[i] = jst[(i+rot)%len(jst)]
				}
				jcases = append(jcases, jcase{sh, es})
			}
		}
	}
	encJ := make([][]byte, len(jcases))
	ev.Par(len(jcases), workers, func(i int) {
		jc := jcases[i]
		c := Case{Sub: "journal", Shape: jc.shape}
		for _, e := range jc.es {
			c.Entries = append(c.Entries, toJ(e))
		}
		if w := runCaseFast(func() string { return checkJournal(jc.shape, jc.es) }); w != "" {
			fail("journal", caseID(c), c, w)
		}
		encJ[i] = ref.SpendJournal(jc.es)
		r.NontrivialBytes(append([]byte("journal/"+shapeStr(jc.shape)+"/"), encJ[i]...))
		r.Eval(1)
		r.Trace(1)
	})
	r.Add("journal_cases", int64(len(jcases)))
	bounds["journals"] = fmt.Sprintf("%d tx shapes (every list of <=3 transactions with 0..3 inputs each, coinbase excluded) x per-input alphabet of %d stxos (legacy height-0 form, coinbase, max height, raw 122-byte script, empty script): all assignments when the block has <=4 inputs, %d rotations otherwise = %d journals", len(shapes), len(jst), len(jst), len(jcases))
	r.Sample(map[string]interface{}{"sub": "journal", "shape": jcases[len(jcases)-1].shape, "bytes": ev.Hex(trunc(encJ[len(jcases)-1]))})

	phase("journals")
	// ---- legacy v0 entries ----
	idxSet := []uint32{0, 1, 2, 9, 10, 22}
	v0Scripts := [][]byte{p2pkh(hash20s[2]), unhex(p2pkBlk1), rawScript(3)}
	type v0case struct {
		height uint64
		outs   map[uint32]ref.Entry
	}
	var v0cases []v0case
	for mask := 1; mask < 1<<len(idxSet); mask++ {
		for _, h := range []int32{1, 113931} {
			for _, cb := range []bool{false, true} {
				outs := map[uint32]ref.Entry{}
				k := 0
				for bi, ix := range idxSet {
					if mask&(1<<bi) != 0 {
						outs[ix] = ref.Entry{Amount: int64(1000 + 7*k), Script: v0Scripts[k%len(v0Scripts)], Height: h, CoinBase: cb}
						k++
					}
				}
				v0cases = append(v0cases, v0case{uint64(h), outs})
			}
		}
	}
	var validV0 [][]byte
	for _, vc := range v0cases {
		c := Case{Sub: "v0", N: vc.height}
		var ks []int
		for ix := range vc.outs {
			ks = append(ks, int(ix))
		}
		sort.Ints(ks)
		var cb bool
		for _, ix := range ks {
			c.Idx = append(c.Idx, uint32(ix))
			c.Entries = append(c.Entries, toJ(vc.outs[uint32(ix)]))
			cb = vc.outs[uint32(ix)].CoinBase
		}
		if w := runCase(c); w != "" {
			fail("v0", caseID(c), c, w)
		}
		enc := ref.V0Entry(1, int32(vc.height), cb, vc.outs)
		validV0 = append(validV0, enc)
		r.NontrivialBytes(append([]byte("v0/"), enc...))
		r.Eval(1)
		r.Trace(1)
	}
	for _, v := range v0Vecs {
		validV0 = append(validV0, unhex(v.h))
	}
	r.Add("v0_entries", int64(len(v0cases)))
	bounds["v0"] = fmt.Sprintf("legacy per-transaction entries: every non-empty subset of output indexes %v x heights {1,113931} x coinbase = %d", idxSet, len(v0cases))

	phase("v0")
	// ---- best chain state, block index rows, utxo keys ----
	hashes := [][]byte{make([]byte, 32), bytesOf(32, 0xff), seq(32)}
	works := [][]byte{nil, {1}, {0xff}, {1, 0}, {1, 0, 1, 0, 1}, bytesOf(32, 0xff), append([]byte{1}, make([]byte, 32)...), seq(40)}
	var validBest [][]byte
	nBest := 0
	for _, h := range hashes {
		for _, ht := range []uint32{0, 1, 0x7fffffff, 0x80000000, 0xffffffff} {
			for _, tt := range []uint64{0, 1, 1 << 32, 1<<64 - 1} {
				for _, w := range works {
					c := Case{Sub: "best", N: uint64(ht), M: tt, Args: map[string]string{"hash": hex.EncodeToString(h), "work": hex.EncodeToString(w)}}
					if wh := runCase(c); wh != "" {
						fail("best", caseID(c), c, wh)
					}
					var hh [32]byte
					copy(hh[:], h)
					enc := ref.BestState(hh, ht, tt, new(big.Int).SetBytes(w))
					validBest = append(validBest, enc)
					r.NontrivialBytes(append([]byte("best/"), enc...))
					nBest++
				}
			}
		}
	}
	r.Eval(nBest)
	r.Trace(nBest)
	r.Add("best_state_records", int64(nBest))
	var validRow [][]byte
	nRow := 0
	for _, ver := range []int32{0, 1, -1, 0x20000000, -0x80000000} {
		for _, ts := range []uint32{0, 1231006505, 0x7fffffff, 0x80000000, 0xffffffff} {
			for _, bn := range []uint32{0, 0x1d00ffff, 0xffffffff} {
				for hi, h := range hashes {
					for _, st := range []byte{0, 1, 2, 3, 4, 8, 16, 31, 0x80, 0xff} {
						for _, height := range []int32{0, 1, 1<<31 - 1} {
							var rh ref.Header
							rh.Version, rh.Time, rh.Bits, rh.Nonce = ver, ts, bn, ^bn
							copy(rh.Prev[:], h)
							copy(rh.Merkle[:], hashes[(hi+1)%len(hashes)])
							row := ref.BlockRow(rh, st)
							c := Case{Sub: "row", Hex: hex.EncodeToString(row[:80]), N: uint64(uint32(height)), M: uint64(st)}
							if w := runCase(c); w != "" {
								fail("row", caseID(c), c, w)
							}
							if height == 0 {
								validRow = append(validRow, row)
							}
							r.NontrivialBytes(append([]byte(fmt.Sprintf("row/%d/", height)), row...))
							nRow++
						}
					}
				}
			}
		}
	}
	r.Eval(nRow)
	r.Trace(nRow)
	r.Add("block_index_rows", int64(nRow))
	nKey := 0
	var idxs []uint64
	for i := uint64(0); i < 20000; i++ {
		idxs = append(idxs, i)
	}
	idxs = append(idxs, 2113663, 2113664, 270549119, 270549120, 1<<31-1, 1<<31, 1<<32-1)
	for _, ix := range idxs {
		c := Case{Sub: "key", Hex: hex.EncodeToString(hashes[2]), N: ix}
		if w := runCase(c); w != "" {
			fail("key", fmt.Sprintf("%020d", ix), c, w)
		}
		nKey++
	}
	r.Eval(nKey)
	r.Trace(nKey)
	r.Add("utxo_keys", int64(nKey))
	bounds["rows"] = fmt.Sprintf("%d best-state records (3 hashes x heights {0,1,2^31-1,2^31,2^32-1} x total txns {0,1,2^32,2^64-1} x 8 work sums of 0..40 bytes); %d block-index rows through the real dbStoreBlockNode (versions, times, bits incl. extremes x 10 status bytes x heights {0,1,2^31-1}); %d utxo keys (output indexes 0..19999 and VLQ class boundaries up to 2^32-1)", nBest, nRow, nKey)

	phase("rows")
	// ---- decoders on hostile bytes ----
	addH := func(n int) { r.Add("hostile_decoder_calls", int64(n)); r.Eval(n); r.Trace(n) }

	// H1: every byte string of length <= 3.
	h1fns := []string{"deserializeVLQ", "decodeCompressedTxOut", "deserializeUtxoEntry", "decodeSpentTxOut", "deserializeSpendJournalEntry", "deserializeUtxoEntryV0"}
	runAll := func(b []byte) int {
		n := 0
		for _, fn := range h1fns {
			if fn == "deserializeSpendJournalEntry" {
				hostile(r, fn, b, []int{1})
				n++
				if len(b) <= 2 {
					hostile(r, fn, b, []int{1, 1})
					hostile(r, fn, b, []int{0})
					n += 2
				}
				continue
			}
			hostile(r, fn, b, nil)
			n++
		}
		if len(b) <= 2 {
			hostile(r, "deserializeBestChainState", b, nil)
			hostile(r, "deserializeBlockRow", b, nil)
			n += 2
		}
		return n
	}
	addH(runAll(nil))
	for x := 0; x < 256; x++ {
		addH(runAll([]byte{byte(x)}))
	}
	var h1cut int32
	ev.Par(65536, workers, func(i int) {
		if r.Expired() {
			atomic.StoreInt32(&h1cut, 1)
			return
		}
		b2 := []byte{byte(i >> 8), byte(i)}
		n := runAll(b2)
		b3 := []byte{byte(i >> 8), byte(i), 0}
		for z := 0; z < 256; z++ {
			b3[2] = byte(z)
			n += runAll(b3)
		}
		addH(n)
	})
	if h1cut != 0 {
		complete = false
		r.Cap("time box hit inside the all-3-byte-strings enumeration; lengths 0..2 fully covered")
	}
	for _, fn := range h1fns {
		for l := 0; l <= 3; l++ {
			r.Nontrivial(fmt.Sprintf("hostile/%s/len=%d", fn, l))
		}
	}

	phase("hostile_len<=3")
	// H2: VLQ overflow family at every VLQ position of every record type.
	var fam [][]byte
	overflowFamily(thorough, func(b []byte) { fam = append(fam, append([]byte{}, b...)) })
	ev.Par(len(fam), workers, func(i int) {
		n := 0
		for _, fn := range decoderFns {
			for _, pre := range hostilePrefixes[fn] {
				b := append(unhex(pre), fam[i]...)
				if fn == "deserializeSpendJournalEntry" {
					for _, sh := range hostileShapes {
						hostile(r, fn, b, sh)
						n++
					}
					continue
				}
				hostile(r, fn, b, nil)
				n++
			}
		}
		addH(n)
	})
	r.Add("overflow_family_strings", int64(len(fam)))
	for _, fn := range decoderFns {
		for k := 1; k <= 11; k++ {
			r.Nontrivial(fmt.Sprintf("overflow/%s/k=%d", fn, k))
		}
	}

	phase("hostile_overflow_family")
	// H3: every truncation of every valid encoding; H4: every single-byte
	// substitution of the shipped example records.
	var valids []hv
	for _, e := range validUtxo {
		valids = append(valids, hv{"deserializeUtxoEntry", e, nil})
	}
	for _, e := range validStxo {
		valids = append(valids, hv{"decodeSpentTxOut", e, nil})
	}
	for i, e := range encJ {
		valids = append(valids, hv{"deserializeSpendJournalEntry", e, jcases[i].shape})
	}
	for _, e := range validV0 {
		valids = append(valids, hv{"deserializeUtxoEntryV0", e, nil})
	}
	for _, e := range validBest {
		valids = append(valids, hv{"deserializeBestChainState", e, nil})
	}
	for _, e := range validRow {
		valids = append(valids, hv{"deserializeBlockRow", e, nil})
	}
	for _, s := range scripts {
		valids = append(valids, hv{"decodeCompressedTxOut", ref.TxOut(546, s.s), nil})
	}
	ev.Par(len(valids), workers, func(i int) {
		v := valids[i]
		n := 0
		truncations(v.enc, func(b []byte) { hostile(r, v.fn, b, v.shape); n++ })
		hostile(r, v.fn, v.enc, v.shape) // the complete record through the same oracle
		addH(n + 1)
		r.Add("truncated_inputs", int64(n))
	})
	r.Add("valid_encodings_truncated", int64(len(valids)))

	var shipped []hv
	for _, v := range utxoVecs {
		shipped = append(shipped, hv{"deserializeUtxoEntry", unhex(v.h), nil})
	}
	for _, v := range stxoVecs {
		shipped = append(shipped, hv{"decodeSpentTxOut", unhex(v.h), nil})
	}
	for _, v := range journalVecs[1:] {
		shipped = append(shipped, hv{"deserializeSpendJournalEntry", unhex(v.h), v.shape})
	}
	for _, v := range txoutVecs {
		shipped = append(shipped, hv{"decodeCompressedTxOut", unhex(v.h), nil})
	}
	for _, v := range v0Vecs {
		shipped = append(shipped, hv{"deserializeUtxoEntryV0", unhex(v.h), nil})
	}
	shipped = append(shipped, hv{"deserializeBestChainState", validBest[4], nil}, hv{"deserializeBlockRow", validRow[0], nil})
	type sub struct {
		v   hv
		pos int
	}
	var subs []sub
	for _, v := range shipped {
		for p := range v.enc {
			subs = append(subs, sub{v, p})
		}
	}
	ev.Par(len(subs), workers, func(i int) {
		s := subs[i]
		m := append([]byte{}, s.v.enc...)
		for x := 0; x < 256; x++ {
			m[s.pos] = byte(x)
			hostile(r, s.v.fn, m, s.v.shape)
		}
		addH(256)
		r.Add("single_byte_substitutions", 256)
	})
	// best-state length field at its boundaries.
	for _, base := range [][]byte{validBest[0], validBest[4], validBest[7]} {
		have := uint32(len(base) - 48)
		for _, l := range []uint32{0, 1, have - 1, have, have + 1, 0x7fffffff, 0x80000000, 0xffffffff - 48, 0xffffffff - 47, 0xffffffff} {
			m := append([]byte{}, base...)
			m[44], m[45], m[46], m[47] = byte(l), byte(l>>8), byte(l>>16), byte(l>>24)
			hostile(r, "deserializeBestChainState", m, nil)
			addH(1)
		}
	}

	bounds["hostile"] = fmt.Sprintf("decoders %v: every byte string of length 0..3 (journal with 1 input; lengths<=2 also with shapes 1+1 and 0, and the best-state/block-row decoders); overflow family c1·c^(k-1)·t·tail, k=1..11, c in 0x80..0xff (all 128), c1 in {c,0x80,0x81}, %d terminators t, tails {none,00,ff,00x40} = %d strings placed behind prefixes %v (journal shapes %v); every truncation (all cut points; first/last 48 when longer than 200 bytes) of %d valid encodings; every single-byte substitution (256 values at each position) of %d shipped example records; best-state length field at 10 boundary values", decoderFns, map[bool]int{false: 10, true: 128}[thorough], len(fam), hostilePrefixes, hostileShapes, len(valids), len(shipped))
	r.Sample(map[string]interface{}{"sub": "hostile", "fn": "deserializeUtxoEntry", "bytes": ev.Hex(append(unhex("0000"), fam[len(fam)/2]...))})

	phase("hostile_truncations_substitutions")
	// ---- allocation bound (sequential: nothing else is running) ----
	nAlloc := allocPhase(r, fam, valids)
	bounds["alloc"] = fmt.Sprintf("%d decoder calls measured with runtime.MemStats.TotalAlloc (batches of 32, offending batches re-measured per call): every byte string of length <=1, the overflow family restricted to c in {80,81,c0,fe,ff}, t in {00,7f}, every 97th truncation case: bound 64 KiB + input length per call", nAlloc)

	phase("alloc")
	// ---- tier-independent choice of the reported hostile input ----
	// The reported input of a decode-panic / decode-alloc group is the smallest
	// failing one (shortest, then lexicographic).  The quick tier enumerates
	// fewer terminator bytes than the thorough tier, so to make the violation
	// key identical in both tiers the full (thorough) overflow family is re-run
	// here, restricted to the length of the group's current minimum.
	if !thorough {
		type fl struct {
			fn  string
			min string // current minimum of one group (raw bytes)
		}
		var want []fl
		for g, f := range fails {
			if strings.HasPrefix(g, "decode-panic/") || strings.HasPrefix(g, "decode-alloc/") {
				want = append(want, fl{f.c.Fn, string(unhex(f.c.Hex))})
			}
		}
		type cand struct {
			fn string
			b  []byte
		}
		var cands []cand
		if len(want) > 0 {
			overflowFamily(true, func(b []byte) {
				for _, w := range want {
					for _, pre := range hostilePrefixes[w.fn] {
						if len(pre)/2+len(b) != len(w.min) {
							continue
						}
						// only inputs that would replace the current minimum
						if c := append(unhex(pre), b...); string(c) <= w.min {
							cands = append(cands, cand{w.fn, c})
						}
					}
				}
			})
		}
		canonicalizing = true
		ev.Par(len(cands), workers, func(i int) {
			c := cands[i]
			if c.fn == "deserializeSpendJournalEntry" {
				for _, sh := range hostileShapes {
					hostile(r, c.fn, c.b, sh)
				}
				return
			}
			hostile(r, c.fn, c.b, nil)
		})
		canonicalizing = false
		r.Add("canonicalization_reruns", int64(len(cands)))
	}
	phase("canonicalize")

	r.Set("bounds", bounds)
	r.Set("phase_seconds", phases)

	// ---- report ----
	var groups []string
	for g := range fails {
		groups = append(groups, g)
	}
	sort.Strings(groups)
	for _, g := range groups {
		f := fails[g]
		if f.what == "pending measurement" {
			// allocation candidate: measure now (nothing else is running).
			f.what = runCase(f.c)
			if f.what == "" {
				continue // the predicted buffer was not actually allocated
			}
		}
		for i := 0; i < 3; i++ {
			if w := runCase(f.c); w == "" {
				r.Broken("failure did not reproduce deterministically: group %s case %+v first said %q", g, f.c, f.what)
			}
		}
		r.Violation(replayKey(f.c, f.what), f.what, f.c)
	}
	r.Finish(complete)
}

func bytesOf(n int, v byte) []byte {
	b := make([]byte, n)
	for i := range b {
		b[i] = v
	}
	return b
}

func seq(n int) []byte {
	b := make([]byte, n)
	for i := range b {
		b[i] = byte(i + 1)
	}
	return b
}

func className(c ref.Class) string {
	return [...]string{"raw", "p2pkh", "p2sh", "p2pk-compressed", "p2pk-uncompressed"}[c]
}

func runCaseFast(f func() string) string {
	var what string
	if p := guard(func() { what = f() }); p != "" {
		return "panic: " + p
	}
	return what
}

func checkUtxoGuarded(e ref.Entry, spent bool) string {
	return runCaseFast(func() string { return checkUtxo(e, spent) })
}

// caseID is a canonical, size-ordered identifier of a structured case.
func caseID(c Case) string {
	s := c.Sub + "/" + c.Hex
	if c.N != 0 || c.M != 0 {
		s += fmt.Sprintf("/n=%d/m=%d", c.N, c.M)
	}
	if len(c.Shape) > 0 {
		s += "/shape=" + shapeStr(c.Shape)
	}
	for i, e := range c.Entries {
		if i < len(c.Idx) {
			s += fmt.Sprintf("/#%d", c.Idx[i])
		}
		s += fmt.Sprintf("/h=%d,cb=%v,a=%d,s=%s", e.Height, e.CoinBase, e.Amount, e.Script)
	}
	if c.Spent {
		s += "/spent"
	}
	if c.Args != nil {
		s += "/hash=" + c.Args["hash"] + "/work=" + c.Args["work"]
	}
	return s
}

// replayKey is the stable violation key of a failing case.
func replayKey(c Case, what string) string {
	short := func(s string) string {
		if len(s) > 160 {
			return s[:160] + "..."
		}
		return s
	}
	switch c.Sub {
	case "hostile":
		kind := "decode-mismatch"
		if strings.Contains(what, " panicked: ") {
			kind = "decode-panic"
		}
		k := kind + "/" + c.Fn + "/" + short(c.Hex)
		if c.Fn == "deserializeSpendJournalEntry" {
			k += "/inputs=" + shapeStr(c.Shape)
		}
		return k
	case "alloc", "alloc-predicted":
		k := "decode-alloc/" + c.Fn + "/" + short(c.Hex)
		if c.Fn == "deserializeSpendJournalEntry" {
			k += "/inputs=" + shapeStr(c.Shape)
		}
		return k
	case "vlq", "amount", "amount-dec", "key":
		return fmt.Sprintf("%s/%d", c.Sub, c.N)
	case "vlq-order":
		return fmt.Sprintf("vlq-order/%d<%d", c.N, c.M)
	}
	return short(caseID(c))
}

// allocPhase measures allocation of decoder calls sequentially.
func allocPhase(r *ev.Run, fam [][]byte, valids []hv) int {
	type ac struct {
		fn    string
		b     []byte
		shape []int
	}
	var cases []ac
	fns := []string{"decodeCompressedTxOut", "deserializeUtxoEntry", "decodeSpentTxOut", "deserializeSpendJournalEntry", "deserializeUtxoEntryV0", "deserializeBestChainState", "deserializeBlockRow"}
	addAll := func(b []byte) {
		for _, fn := range fns {
			pres := hostilePrefixes[fn]
			if pres == nil {
				pres = []string{""}
			}
			for _, pre := range pres {
				c := ac{fn, append(unhex(pre), b...), nil}
				if fn == "deserializeSpendJournalEntry" {
					c.shape = []int{1}
				}
				if predictAlloc(c.fn, c.b, c.shape) > execLimit {
					continue // recorded by hostile(); executing it would kill the process
				}
				cases = append(cases, c)
			}
		}
	}
	addAll(nil)
	for x := 0; x < 256; x++ {
		addAll([]byte{byte(x)})
	}
	for _, b := range fam {
		// restrict: continuation byte in {80,81,c0,fe,ff}, terminator in {00,7f}
		k := 0
		for k < len(b) && b[k]&0x80 != 0 {
			k++
		}
		if k == 0 || k >= len(b) {
			continue
		}
		c := b[k-1]
		if !(c == 0x80 || c == 0x81 || c == 0xc0 || c == 0xfe || c == 0xff) || !(b[k] == 0x00 || b[k] == 0x7f) {
			continue
		}
		addAll(b)
	}
	for i := 0; i < len(valids); i += 97 {
		v := valids[i]
		cut := len(v.enc) * 2 / 3
		cases = append(cases, ac{v.fn, v.enc[:cut], v.shape}, ac{v.fn, v.enc, v.shape})
	}
	var m0, m1 runtime.MemStats
	const batch = 32
	for lo := 0; lo < len(cases); lo += batch {
		hi := lo + batch
		if hi > len(cases) {
			hi = len(cases)
		}
		ins := make([][]byte, hi-lo)
		txs := make([][]*wire.MsgTx, hi-lo)
		for i := lo; i < hi; i++ {
			ins[i-lo] = exact(cases[i].b)
			txs[i-lo] = txnsOf(cases[i].shape)
		}
		runtime.ReadMemStats(&m0)
		for i := lo; i < hi; i++ {
			callDecoder(cases[i].fn, ins[i-lo], txs[i-lo])
		}
		runtime.ReadMemStats(&m1)
		if m1.TotalAlloc-m0.TotalAlloc > 64<<10 {
			for i := lo; i < hi; i++ {
				c := Case{Sub: "alloc", Fn: cases[i].fn, Hex: hex.EncodeToString(cases[i].b), Shape: cases[i].shape}
				if w := checkAlloc(c.Fn, cases[i].b, c.Shape); w != "" {
					fail("alloc/"+c.Fn, c.Hex, c, w)
				}
			}
		}
	}
	r.Eval(len(cases))
	r.Trace(len(cases))
	r.Add("allocation_measured_calls", int64(len(cases)))
	return len(cases)
}
