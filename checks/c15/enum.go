package main

// Alphabets.  Everything here is a fixed, explicitly described finite list,
// simplest first; nothing is sampled.

import (
	"bytes"
	"math/big"
	"sort"

	ref "verif/ref/refcodec"
)

// ---- numbers ----

func dedupSort(v []uint64) []uint64 {
	sort.Slice(v, func(i, j int) bool { return v[i] < v[j] })
	out := v[:0]
	for i, x := range v {
		if i == 0 || x != v[i-1] {
			out = append(out, x)
		}
	}
	return out
}

// vlqBoundaries: 2^k-1, 2^k, 2^k+1 for every k <= 64 (mod 2^64 where needed)
// and the length-class boundaries S(k)-1, S(k), S(k)+1 (S(k) = 128+128^2+...
// +128^(k-1), the "0x80 carry" values) for every k <= 10.
func vlqBoundaries() []uint64 {
	var v []uint64
	for k := uint(0); k <= 64; k++ {
		var p uint64
		if k < 64 {
			p = 1 << k
		}
		v = append(v, p-1, p, p+1)
	}
	for k := 1; k <= 10; k++ {
		s := ref.VLQStart(k)
		for d := int64(-2); d <= 2; d++ {
			x := new(big.Int).Add(s, big.NewInt(d))
			if x.Sign() >= 0 && x.IsUint64() {
				v = append(v, x.Uint64())
			}
		}
	}
	return dedupSort(v)
}

// amountBoundaries: d*10^e + {-1,0,1} for every digit d and e <= 19 that fit 64
// bits, 21M BTC +- 1, powers of two +- 1 and the extremes.
func amountBoundaries() []uint64 {
	var v []uint64
	for e := 0; e <= 19; e++ {
		p := new(big.Int).Exp(big.NewInt(10), big.NewInt(int64(e)), nil)
		for d := int64(1); d <= 9; d++ {
			for dd := int64(-1); dd <= 1; dd++ {
				x := new(big.Int).Mul(p, big.NewInt(d))
				x.Add(x, big.NewInt(dd))
				if x.Sign() >= 0 && x.IsUint64() {
					v = append(v, x.Uint64())
				}
			}
			// a second significant digit in front: (10+d)*10^e, and 10^e multiples
			// of 11..99 exercise n > 0 with every last digit.
			x := new(big.Int).Mul(p, big.NewInt(10+d))
			if x.IsUint64() {
				v = append(v, x.Uint64())
			}
		}
	}
	const maxSat = 2100000000000000
	v = append(v, maxSat-1, maxSat, maxSat+1, 546, 12345678, 5000000000)
	for k := uint(0); k <= 64; k++ {
		var p uint64
		if k < 64 {
			p = 1 << k
		}
		v = append(v, p-1, p, p+1)
	}
	// around the point where the 64-bit compression stops being exact
	// (9*amount ~ 2^64).
	lim := new(big.Int).Div(ref.Two64, big.NewInt(9))
	for d := int64(-12); d <= 12; d++ {
		x := new(big.Int).Add(lim, big.NewInt(d))
		v = append(v, x.Uint64())
	}
	return dedupSort(v)
}

// ---- scripts ----

type namedScript struct {
	class string
	s     []byte
}

func h20(fill func(i int) byte) []byte {
	b := make([]byte, 20)
	for i := range b {
		b[i] = fill(i)
	}
	return b
}

var hash20s = [][]byte{
	h20(func(i int) byte { return 0 }),
	h20(func(i int) byte { return 0xff }),
	h20(func(i int) byte { return byte(i + 1) }),
	h20(func(i int) byte { return byte(0x80 + i) }),
}

func p2pkh(h []byte) []byte {
	return append(append([]byte{0x76, 0xa9, 0x14}, h...), 0x88, 0xac)
}
func p2sh(h []byte) []byte { return append(append([]byte{0xa9, 0x14}, h...), 0x87) }

func b32(x *big.Int) []byte { return x.FillBytes(make([]byte, 32)) }

func p2pkComp(prefix byte, x []byte) []byte {
	return append(append([]byte{33, prefix}, x...), 0xac)
}
func p2pkUncomp(prefix byte, x, y []byte) []byte {
	return append(append(append([]byte{65, prefix}, x...), y...), 0xac)
}

// xCandidates: X coordinates, valid and invalid: 0..24 (about half are on the
// curve), the generator, the shipped test keys, p-3..p+3, p+small (x >= p must
// be rejected even when x mod p is on the curve), 2^256-1, 2^255.
func xCandidates() [][]byte {
	var out [][]byte
	for i := int64(0); i <= 24; i++ {
		out = append(out, b32(big.NewInt(i)))
	}
	for _, h := range []string{
		"79be667ef9dcbbac55a06295ce870b07029bfcdb2dce28d959f2815b16f81798", // G
		"192d74d0cb94344c9569c2e77901573d8d7903c3ebec3a957724895dca52c6b4",
		"11db93e1dcdb8a016b49840f8c53bc1eb68a382e97b1482ecad7b148a6909a5c",
		"012d74d0cb94344c9569c2e77901573d8d7903c3ebec3a957724895dca52c6b4", // shipped invalid
		"aaaaaaaaaaaaaaaaaaaaaaaaaaaaaaaaaaaaaaaaaaaaaaaaaaaaaaaaaaaaaaaa",
	} {
		out = append(out, unhex(h))
	}
	for d := int64(-3); d <= 24; d++ {
		x := new(big.Int).Add(ref.P, big.NewInt(d))
		out = append(out, b32(x))
	}
	max := new(big.Int).Sub(new(big.Int).Lsh(big.NewInt(1), 256), big.NewInt(1))
	out = append(out, b32(max), b32(new(big.Int).Lsh(big.NewInt(1), 255)))
	return out
}

// specialScripts: the six special forms x valid/invalid points x parity, plus
// near misses.
func specialScripts() []namedScript {
	var out []namedScript
	add := func(c string, s []byte) { out = append(out, namedScript{c, s}) }
	for _, h := range hash20s {
		add("p2pkh", p2pkh(h))
		add("p2sh", p2sh(h))
	}
	one := big.NewInt(1)
	for _, x := range xCandidates() {
		xb := new(big.Int).SetBytes(x)
		xm := new(big.Int).Mod(xb, ref.P)
		for _, pre := range []byte{2, 3} {
			add("p2pk-comp", p2pkComp(pre, x))
		}
		// uncompressed: both roots (if any) of x mod p, each +-1, and junk y.
		ys := [][]byte{b32(big.NewInt(0)), b32(one), b32(new(big.Int).Sub(ref.P, one)), b32(ref.P)}
		if y, ok := ref.LiftX(xm, false); ok {
			y2 := new(big.Int).Sub(ref.P, y)
			for _, yy := range []*big.Int{y, y2} {
				ys = append(ys, b32(yy), b32(new(big.Int).Add(yy, one)), b32(new(big.Int).Sub(yy, one)))
				// y + p when it still fits 32 bytes: same residue, not a field element.
				if yp := new(big.Int).Add(yy, ref.P); yp.BitLen() <= 256 {
					ys = append(ys, b32(yp))
				}
			}
		}
		for _, y := range ys {
			for _, pre := range []byte{4, 6, 7} { // 6/7 hybrid: never special
				add("p2pk-uncomp", p2pkUncomp(pre, x, y))
			}
		}
	}
	// near misses of each template: every fixed position replaced, length +-1.
	g := unhex("79be667ef9dcbbac55a06295ce870b07029bfcdb2dce28d959f2815b16f81798")
	gy, _ := ref.LiftX(new(big.Int).SetBytes(g), false)
	type tmpl struct {
		name  string
		s     []byte
		fixed []int
	}
	for _, t := range []tmpl{
		{"p2pkh", p2pkh(hash20s[2]), []int{0, 1, 2, 23, 24}},
		{"p2sh", p2sh(hash20s[2]), []int{0, 1, 22}},
		{"p2pk-comp", p2pkComp(2, g), []int{0, 1, 34}},
		{"p2pk-uncomp", p2pkUncomp(4, g, b32(gy)), []int{0, 1, 66}},
	} {
		for _, pos := range t.fixed {
			for _, v := range []byte{t.s[pos] - 1, t.s[pos] + 1, 0x00, 0xff, t.s[pos] ^ 0x80} {
				m := append([]byte{}, t.s...)
				m[pos] = v
				add("near-"+t.name, m)
			}
		}
		add("near-"+t.name, t.s[:len(t.s)-1])                       // one short
		add("near-"+t.name, t.s[1:])                                // first byte missing
		add("near-"+t.name, append(append([]byte{}, t.s...), 0xac)) // one long
		add("near-"+t.name, append([]byte{0x00}, t.s...))
	}
	return out
}

func rawScript(n int) []byte {
	s := make([]byte, n)
	for i := range s {
		s[i] = byte(0x51 + i%0x10)
	}
	if n > 0 {
		s[0] = 0x6a
	}
	return s
}

// rawLengths: every length 0..130 and around the VLQ(len+6) class boundaries
// 2^7 and 2^14 (lengths 121/122 and 16505/16506), 2^14 itself, 10000 (the script
// size limit) +- 1.
func rawLengths(thorough bool) []int {
	var l []int
	for i := 0; i <= 130; i++ {
		l = append(l, i)
	}
	for _, c := range []int{255, 256, 520, 10000, 16384, 16505} {
		for d := -2; d <= 3; d++ {
			l = append(l, c+d)
		}
	}
	if thorough {
		for i := 131; i <= 1100; i++ {
			l = append(l, i)
		}
		l = append(l, 65535, 65536, 100000)
	}
	sort.Ints(l)
	out := l[:0]
	for i, x := range l {
		if i == 0 || x != l[i-1] {
			out = append(out, x)
		}
	}
	return out
}

func allScripts(thorough bool) []namedScript {
	out := specialScripts()
	for _, n := range rawLengths(thorough) {
		out = append(out, namedScript{"raw", rawScript(n)})
	}
	// raw scripts that begin like a compressed special form.
	for t := byte(0); t <= 7; t++ {
		out = append(out, namedScript{"raw", []byte{t}}, namedScript{"raw", append([]byte{t}, hash20s[2]...)})
	}
	// de-duplicate by content
	seen := map[string]bool{}
	var ded []namedScript
	for _, s := range out {
		if !seen[string(s.s)] {
			seen[string(s.s)] = true
			ded = append(ded, s)
		}
	}
	return ded
}

// entryScripts: a representative of every compressed class for the record-level
// enumerations.
func entryScripts(thorough bool) [][]byte {
	g := unhex("79be667ef9dcbbac55a06295ce870b07029bfcdb2dce28d959f2815b16f81798")
	gy, _ := ref.LiftX(new(big.Int).SetBytes(g), false)
	gyOdd := new(big.Int).Sub(ref.P, gy)
	if gy.Bit(0) == 1 {
		gy, gyOdd = gyOdd, gy
	}
	out := [][]byte{
		nil,
		{0x51},
		{0x00},
		{0x05},
		p2pkh(hash20s[2]), p2pkh(hash20s[0]),
		p2sh(hash20s[2]), p2sh(hash20s[1]),
		p2pkComp(2, g), p2pkComp(3, g),
		p2pkUncomp(4, g, b32(gy)), p2pkUncomp(4, g, b32(gyOdd)),
		unhex(p2pkBlk1), unhex(p2pkBlk9),
		p2pkComp(2, b32(big.NewInt(5))),                                               // X=5 is not on the curve: stays raw
		p2pkUncomp(4, g, b32(new(big.Int).Add(gy, big.NewInt(1)))),                    // off curve: raw, 67 bytes
		unhex("0014751e76e8199196d454941c45d1b3a323f1433bd6"),                         // p2wpkh
		unhex("5120a60869f0dbcf1dc659c9cecbaf8050135ea9e8cdc487053f1dc6880949dc684c"), // p2tr
		unhex("6a200102030405060708090a0b0c0d0e0f101112131415161718191a1b1c1d1e1f20"),
		rawScript(121), rawScript(122), rawScript(130),
	}
	if thorough {
		out = append(out, rawScript(10000), rawScript(16505), rawScript(16506))
	} else {
		out = append(out, rawScript(16506))
	}
	return out
}

var entryHeights = []int32{0, 1, 2, 9, 63, 64, 8255, 8256, 100001, 113931, 338156, 1<<24 - 1, 1 << 24, 1<<31 - 2, 1<<31 - 1}

// entryAmounts are inside the domain on which the amount format is lossless
// (every amount below about 2^64/9 ~ 2.05e18, far above the 2.1e15 money
// supply); negative amounts cannot occur in a utxo.
var entryAmounts = []int64{0, 1, 9, 10, 546, 1000, 12345678, 50000000, 100000000, 5000000000,
	2099999999999999, 2100000000000000, 2100000000000001, 1000000000000000000, 2000000000000000000}

func entryAlphabet(thorough bool) []ref.Entry {
	var out []ref.Entry
	for _, h := range entryHeights {
		for _, cb := range []bool{false, true} {
			for _, a := range entryAmounts {
				for _, s := range entryScripts(thorough) {
					out = append(out, ref.Entry{Amount: a, Script: s, Height: h, CoinBase: cb})
				}
			}
		}
	}
	return out
}

// journalStxos: the per-input alphabet of the spend-journal enumeration.
func journalStxos() []ref.Entry {
	g := unhex("79be667ef9dcbbac55a06295ce870b07029bfcdb2dce28d959f2815b16f81798")
	return []ref.Entry{
		{Amount: 34405000000, Script: p2pkh(hash20s[2]), Height: 0, CoinBase: false}, // legacy: height 0, no reserved byte
		{Amount: 5000000000, Script: unhex(p2pkBlk9), Height: 9, CoinBase: true},
		{Amount: 1, Script: p2pkComp(3, g), Height: 1<<31 - 1, CoinBase: false},
		{Amount: 0, Script: rawScript(122), Height: 1, CoinBase: false},
		{Amount: 546, Script: nil, Height: 0, CoinBase: true},
	}
}

// journalShapes: every list of at most 3 transactions with 0..3 inputs each.
func journalShapes() [][]int {
	out := [][]int{{}}
	var rec func(prefix []int)
	rec = func(prefix []int) {
		if len(prefix) == 3 {
			return
		}
		for k := 0; k <= 3; k++ {
			s := append(append([]int{}, prefix...), k)
			out = append(out, s)
			rec(s)
		}
	}
	rec(nil)
	return out
}

func sum(v []int) int {
	t := 0
	for _, x := range v {
		t += x
	}
	return t
}

// ---- hostile byte strings ----

// overflowFamily: c1 · c^(k-1) · t · tail  for 1 <= k <= 11, c in 0x80..0xff,
// c1 in {c, 0x80, 0x81}, terminator t, tail.
func overflowFamily(thorough bool, emit func(b []byte)) {
	ts := []byte{0x00, 0x01, 0x05, 0x06, 0x07, 0x08, 0x3f, 0x40, 0x7e, 0x7f}
	if thorough {
		ts = ts[:0]
		for t := 0; t < 0x80; t++ {
			ts = append(ts, byte(t))
		}
	}
	tails := [][]byte{nil, {0x00}, {0xff}, bytes.Repeat([]byte{0x00}, 40)}
	buf := make([]byte, 0, 64)
	for k := 1; k <= 11; k++ {
		for c := 0x80; c <= 0xff; c++ {
			firsts := []byte{byte(c)}
			if k > 1 {
				if c != 0x80 {
					firsts = append(firsts, 0x80)
				}
				if c != 0x81 {
					firsts = append(firsts, 0x81)
				}
			}
			for _, c1 := range firsts {
				for _, t := range ts {
					for _, tail := range tails {
						buf = buf[:0]
						buf = append(buf, c1)
						for i := 1; i < k; i++ {
							buf = append(buf, byte(c))
						}
						buf = append(buf, t)
						buf = append(buf, tail...)
						emit(buf)
					}
				}
			}
		}
	}
}

// positions: the prefixes that put a hostile VLQ at each VLQ position of each
// record type.
var hostilePrefixes = map[string][]string{
	"deserializeVLQ":               {""},
	"decodeCompressedTxOut":        {"", "00"},
	"deserializeUtxoEntry":         {"", "00", "0000"},
	"decodeSpentTxOut":             {"", "02", "00", "0000", "0200", "020000"},
	"deserializeSpendJournalEntry": {"", "02", "00", "0000", "0200", "020000"},
	"deserializeUtxoEntryV0":       {"", "01", "0101", "010102", "01010200", "01010800"},
}

// journal shapes used with hostile bytes.
var hostileShapes = [][]int{{1}, {2}, {1, 1}, {0, 3}}

// truncations of a valid encoding: every proper prefix when short, else the
// first and last 48 cut points.
func truncations(enc []byte, emit func(b []byte)) {
	n := len(enc)
	for l := 0; l < n; l++ {
		if n > 200 && l > 48 && l < n-48 {
			continue
		}
		emit(enc[:l])
	}
}
