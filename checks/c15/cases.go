package main

// One function per sub-check.  Each executes ONE case on the real btcd code,
// compares with refcodec and returns "" (held) or a one-line description of the
// disagreement.  Every enumerated case and every replay goes through runCase.

import (
	"bytes"
	"encoding/hex"
	"fmt"
	"math/big"
	"time"

	"github.com/btcsuite/btcd/blockchain"
	"github.com/btcsuite/btcd/chainhash/v2"
	"github.com/btcsuite/btcd/wire/v2"

	ref "verif/ref/refcodec"
)

// EntryJ is the JSON form of an entry.
type EntryJ struct {
	Amount   int64  `json:"amount"`
	Script   string `json:"script"`
	Height   int32  `json:"height"`
	CoinBase bool   `json:"coinbase"`
}

// Case is the replayable description of one case.
type Case struct {
	Sub     string            `json:"sub"`
	N       uint64            `json:"n,omitempty"`
	M       uint64            `json:"m,omitempty"`
	Hex     string            `json:"hex,omitempty"`
	Fn      string            `json:"fn,omitempty"`
	Shape   []int             `json:"shape,omitempty"`
	Spent   bool              `json:"spent,omitempty"`
	Entries []EntryJ          `json:"entries,omitempty"`
	Idx     []uint32          `json:"idx,omitempty"`
	Args    map[string]string `json:"args,omitempty"`
}

func toJ(e ref.Entry) EntryJ {
	return EntryJ{Amount: e.Amount, Script: hex.EncodeToString(e.Script), Height: e.Height, CoinBase: e.CoinBase}
}

func fromJ(j EntryJ) ref.Entry {
	s, _ := hex.DecodeString(j.Script)
	return ref.Entry{Amount: j.Amount, Script: s, Height: j.Height, CoinBase: j.CoinBase}
}

func unhex(s string) []byte {
	b, err := hex.DecodeString(s)
	if err != nil {
		panic("bad hex in case: " + s)
	}
	return b
}

// guard runs f and converts a panic into a message.
func guard(f func()) (msg string) {
	defer func() {
		if x := recover(); x != nil {
			msg = fmt.Sprintf("%v", x)
		}
	}()
	f()
	return ""
}

// exact returns a copy of b whose capacity equals its length, so that any read
// past the end of the record is an out-of-range slice instead of a silent read
// of neighbouring memory.
// scribble overwrites a buffer a decoder was given: what was decoded from it
// belongs to the caller and must not change (in the node the buffer is a database
// value that is only valid inside the transaction)
func scribble(b []byte) {
	for i := range b {
		b[i] ^= 0xa5
	}
}

func exact(b []byte) []byte {
	out := make([]byte, len(b))
	copy(out, b)
	return out
}

func runCase(c Case) string {
	var what string
	p := guard(func() { what = runCaseInner(c) })
	if p != "" {
		return "panic: " + p
	}
	return what
}

func runCaseInner(c Case) string {
	switch c.Sub {
	case "vlq":
		return checkVLQ(c.N)
	case "vlq-order":
		return checkVLQOrder(c.N, c.M)
	case "amount":
		return checkAmount(c.N)
	case "amount-dec":
		return checkAmountDec(c.N)
	case "script":
		return checkScript(unhex(c.Hex))
	case "script-dec":
		return checkScriptDec(unhex(c.Hex))
	case "utxo":
		return checkUtxo(fromJ(c.Entries[0]), c.Spent)
	case "stxo":
		return checkStxo(fromJ(c.Entries[0]))
	case "journal":
		var es []ref.Entry
		for _, j := range c.Entries {
			es = append(es, fromJ(j))
		}
		return checkJournal(c.Shape, es)
	case "v0":
		outs := map[uint32]ref.Entry{}
		for i, j := range c.Entries {
			outs[c.Idx[i]] = fromJ(j)
		}
		return checkV0(c.N, outs)
	case "best":
		return checkBest(unhex(c.Args["hash"]), uint32(c.N), c.M, unhex(c.Args["work"]))
	case "row":
		return checkRow(unhex(c.Hex), int32(c.N), byte(c.M))
	case "key":
		return checkKey(unhex(c.Hex), uint32(c.N))
	case "hostile":
		what, _ := checkHostile(c.Fn, unhex(c.Hex), c.Shape)
		return what
	case "alloc":
		return checkAlloc(c.Fn, unhex(c.Hex), c.Shape)
	case "alloc-predicted":
		return checkAllocPredicted(c.Fn, unhex(c.Hex), c.Shape)
	}
	return "unknown sub-check " + c.Sub
}

// ---------------------------------------------------------------------------

func checkVLQ(n uint64) string {
	want := ref.PutVLQ(n)
	if got := blockchain.VerifSerializeSizeVLQ(n); got != len(want) {
		return fmt.Sprintf("serializeSizeVLQ(%d)=%d, format length is %d", n, got, len(want))
	}
	buf := make([]byte, len(want))
	if w := blockchain.VerifPutVLQ(buf, n); w != len(want) || !bytes.Equal(buf, want) {
		return fmt.Sprintf("putVLQ(%d) wrote %d bytes %x, format is %x", n, w, buf, want)
	}
	v, sz := blockchain.VerifDeserializeVLQ(exact(want))
	if v != n || sz != len(want) {
		return fmt.Sprintf("deserializeVLQ(%x)=(%d,%d), want (%d,%d)", want, v, sz, n, len(want))
	}
	// followed by other data: must stop at the terminating byte.
	ext := append(exact(want), 0xff, 0x00)
	v, sz = blockchain.VerifDeserializeVLQ(ext)
	if v != n || sz != len(want) {
		return fmt.Sprintf("deserializeVLQ(%x)=(%d,%d), want (%d,%d)", ext, v, sz, n, len(want))
	}
	return ""
}

// checkVLQOrder: for a < b with encodings of equal length, byte-wise order of the
// real encodings equals numeric order (what the utxo key comment relies on
// within one length class).
func checkVLQOrder(a, b uint64) string {
	ea := make([]byte, blockchain.VerifSerializeSizeVLQ(a))
	eb := make([]byte, blockchain.VerifSerializeSizeVLQ(b))
	blockchain.VerifPutVLQ(ea, a)
	blockchain.VerifPutVLQ(eb, b)
	if len(ea) > len(eb) {
		return fmt.Sprintf("VLQ(%d) is %d bytes but VLQ(%d) is %d bytes", a, len(ea), b, len(eb))
	}
	if len(ea) == len(eb) && bytes.Compare(ea, eb) >= 0 {
		return fmt.Sprintf("VLQ(%d)=%x not below VLQ(%d)=%x", a, ea, b, eb)
	}
	return ""
}

func checkAmount(a uint64) string {
	want, exactC := ref.CompressAmount(a)
	got := blockchain.VerifCompressTxOutAmount(a)
	if got != want {
		return fmt.Sprintf("compressTxOutAmount(%d)=%d, format says %d", a, got, want)
	}
	if exactC {
		if back := blockchain.VerifDecompressTxOutAmount(got); back != a {
			return fmt.Sprintf("decompressTxOutAmount(compressTxOutAmount(%d)=%d)=%d", a, got, back)
		}
	}
	return ""
}

func checkAmountDec(c uint64) string {
	want := ref.DecompressAmountExact(c)
	got := blockchain.VerifDecompressTxOutAmount(c)
	wm := new(big.Int).Mod(want, ref.Two64).Uint64()
	if got != wm {
		return fmt.Sprintf("decompressTxOutAmount(%d)=%d, format says %s (mod 2^64 = %d)", c, got, want, wm)
	}
	if want.Cmp(ref.Two64) < 0 {
		if back := blockchain.VerifCompressTxOutAmount(got); back != c {
			return fmt.Sprintf("compressTxOutAmount(decompressTxOutAmount(%d)=%d)=%d", c, got, back)
		}
	}
	return ""
}

func checkScript(s []byte) string {
	want := ref.CompressScript(s)
	if got := blockchain.VerifCompressedScriptSize(s); got != len(want) {
		return fmt.Sprintf("compressedScriptSize(%x)=%d, format length %d", s, got, len(want))
	}
	buf := make([]byte, len(want))
	if w := blockchain.VerifPutCompressedScript(buf, s); w != len(want) || !bytes.Equal(buf, want) {
		return fmt.Sprintf("putCompressedScript(%x) wrote %d bytes %x, format is %x", s, w, trunc(buf), trunc(want))
	}
	if got := blockchain.VerifDecodeCompressedScriptSize(exact(want)); got != len(want) {
		return fmt.Sprintf("decodeCompressedScriptSize(%x)=%d, want %d", trunc(want), got, len(want))
	}
	ext := append(exact(want), 0xff, 0x00, 0x80)
	if got := blockchain.VerifDecodeCompressedScriptSize(ext); got != len(want) {
		return fmt.Sprintf("decodeCompressedScriptSize(%x followed by ff0080)=%d, want %d", trunc(want), got, len(want))
	}
	src := exact(want)
	back := blockchain.VerifDecompressScript(src)
	scribble(src)
	if !bytes.Equal(back, s) {
		return fmt.Sprintf("decompressScript(%x)=%x, original script %x", trunc(want), trunc(back), trunc(s))
	}
	return ""
}

// checkScriptDec: decoder side for a complete compressed script c.
func checkScriptDec(c []byte) string {
	want, n, err := ref.DecompressScript(c)
	if err == ref.ErrBadKey {
		if got := blockchain.VerifDecodeCompressedScriptSize(exact(c)); got != 33 {
			return fmt.Sprintf("decodeCompressedScriptSize(%x)=%d, want 33", c, got)
		}
		if got := blockchain.VerifDecompressScript(exact(c[:33])); got != nil {
			return fmt.Sprintf("decompressScript(%x)=%x, want nil (X is not on the curve)", c, got)
		}
		return ""
	}
	if err != nil {
		return ""
	}
	if got := blockchain.VerifDecodeCompressedScriptSize(exact(c)); got != n {
		return fmt.Sprintf("decodeCompressedScriptSize(%x)=%d, want %d", trunc(c), got, n)
	}
	got := blockchain.VerifDecompressScript(exact(c[:n]))
	if !bytes.Equal(got, want) {
		return fmt.Sprintf("decompressScript(%x)=%x, format says %x", trunc(c), trunc(got), trunc(want))
	}
	return ""
}

func trunc(b []byte) []byte {
	if len(b) > 80 {
		return b[:80]
	}
	return b
}

func sameEntry(g blockchain.VerifC15Entry, e ref.Entry) string {
	if g.Amount != e.Amount || !bytes.Equal(g.PkScript, e.Script) || g.Height != e.Height || g.CoinBase != e.CoinBase {
		return fmt.Sprintf("got {amount %d script %x height %d coinbase %v}, want {amount %d script %x height %d coinbase %v}",
			g.Amount, trunc(g.PkScript), g.Height, g.CoinBase, e.Amount, trunc(e.Script), e.Height, e.CoinBase)
	}
	if g.Spent || g.Modified || g.Fresh {
		return fmt.Sprintf("decoded entry carries state flags spent=%v modified=%v fresh=%v", g.Spent, g.Modified, g.Fresh)
	}
	return ""
}

func checkUtxo(e ref.Entry, spent bool) string {
	got, err := blockchain.VerifSerializeUtxoEntry(e.Amount, e.Script, e.Height, e.CoinBase, spent)
	if spent {
		if got != nil || err != nil {
			return fmt.Sprintf("serializeUtxoEntry(spent)=(%x,%v), want (nil,nil)", trunc(got), err)
		}
		if _, err := blockchain.VerifUtxoEntryHeaderCode(e.Amount, e.Script, e.Height, e.CoinBase, true); err == nil {
			return "utxoEntryHeaderCode(spent) returned no error"
		}
		return ""
	}
	want := ref.UtxoEntry(e)
	if err != nil || !bytes.Equal(got, want) {
		return fmt.Sprintf("serializeUtxoEntry=(%x,%v), format is %x", trunc(got), err, trunc(want))
	}
	hc, err := blockchain.VerifUtxoEntryHeaderCode(e.Amount, e.Script, e.Height, e.CoinBase, false)
	wantHC := uint64(e.Height) * 2
	if e.CoinBase {
		wantHC++
	}
	if err != nil || hc != wantHC {
		return fmt.Sprintf("utxoEntryHeaderCode=(%d,%v), want %d", hc, err, wantHC)
	}
	if sz := blockchain.VerifCompressedTxOutSize(uint64(e.Amount), e.Script); sz != len(ref.TxOut(uint64(e.Amount), e.Script)) {
		return fmt.Sprintf("compressedTxOutSize=%d, format length %d", sz, len(ref.TxOut(uint64(e.Amount), e.Script)))
	}
	src := exact(want)
	dec, ok, err := blockchain.VerifDeserializeUtxoEntry(src)
	scribble(src)
	if err != nil || !ok {
		return fmt.Sprintf("deserializeUtxoEntry(%x) failed: %v", trunc(want), err)
	}
	if d := sameEntry(dec, e); d != "" {
		return fmt.Sprintf("deserializeUtxoEntry(%x): %s", trunc(want), d)
	}
	return ""
}

func stxoOf(e ref.Entry) blockchain.SpentTxOut {
	return blockchain.SpentTxOut{Amount: e.Amount, PkScript: e.Script, Height: e.Height, IsCoinBase: e.CoinBase}
}

func sameStxo(g blockchain.SpentTxOut, e ref.Entry) string {
	if g.Amount != e.Amount || !bytes.Equal(g.PkScript, e.Script) || g.Height != e.Height || g.IsCoinBase != e.CoinBase {
		return fmt.Sprintf("got {amount %d script %x height %d coinbase %v}, want {amount %d script %x height %d coinbase %v}",
			g.Amount, trunc(g.PkScript), g.Height, g.IsCoinBase, e.Amount, trunc(e.Script), e.Height, e.CoinBase)
	}
	return ""
}

func checkStxo(e ref.Entry) string {
	want := ref.SpentTxOut(e)
	st := stxoOf(e)
	if sz := blockchain.VerifSpentTxOutSerializeSize(&st); sz != len(want) {
		return fmt.Sprintf("spentTxOutSerializeSize=%d, format length %d", sz, len(want))
	}
	buf := make([]byte, len(want))
	if w := blockchain.VerifPutSpentTxOut(buf, &st); w != len(want) || !bytes.Equal(buf, want) {
		return fmt.Sprintf("putSpentTxOut wrote %d bytes %x, format is %x", w, trunc(buf), trunc(want))
	}
	var got blockchain.SpentTxOut
	src := exact(want)
	n, err := blockchain.VerifDecodeSpentTxOut(src, &got)
	scribble(src)
	if err != nil || n != len(want) {
		return fmt.Sprintf("decodeSpentTxOut(%x)=(%d,%v), want (%d,nil)", trunc(want), n, err, len(want))
	}
	if d := sameStxo(got, e); d != "" {
		return fmt.Sprintf("decodeSpentTxOut(%x): %s", trunc(want), d)
	}
	// followed by another record.
	ext := append(exact(want), want...)
	var got2 blockchain.SpentTxOut
	n, err = blockchain.VerifDecodeSpentTxOut(ext, &got2)
	if err != nil || n != len(want) {
		return fmt.Sprintf("decodeSpentTxOut(record followed by a record)=(%d,%v), want (%d,nil)", n, err, len(want))
	}
	if d := sameStxo(got2, e); d != "" {
		return "decodeSpentTxOut(record followed by a record): " + d
	}
	// Entries written by older versions: the slot after the header code held
	// the spending transaction's version as a VLQ (one byte for versions below
	// 128, up to ten for a sign-extended negative version).  They are read in
	// place (there is no migration), the value is ignored.
	if e.Height > 0 {
		for _, ver := range []uint64{1, 2, 127, 128, 16511, 16512, 0x7fffffff, 0xffffffffffffffff} {
			legacy := append(append(ref.PutVLQ(uint64(e.Height)<<1|b2u(e.CoinBase)), ref.PutVLQ(ver)...), ref.TxOut(uint64(e.Amount), e.Script)...)
			if re, k, rerr := ref.DecodeSpentTxOut(legacy); rerr != nil || k != len(legacy) || re.Height != e.Height {
				return "" // the reference does not define this header code / entry: not demanded
			}
			var gl blockchain.SpentTxOut
			n, err := blockchain.VerifDecodeSpentTxOut(append(exact(legacy), want...), &gl)
			if err != nil || n != len(legacy) {
				return fmt.Sprintf("decodeSpentTxOut(legacy entry with version field %d: %x)=(%d,%v), want (%d,nil)", ver, trunc(legacy), n, err, len(legacy))
			}
			if d := sameStxo(gl, e); d != "" {
				return fmt.Sprintf("decodeSpentTxOut(legacy entry with version field %d): %s", ver, d)
			}
		}
	}
	return ""
}

func b2u(b bool) uint64 {
	if b {
		return 1
	}
	return 0
}

// txnsOf builds transactions with the given number of inputs each.
func txnsOf(shape []int) []*wire.MsgTx {
	var txns []*wire.MsgTx
	ctr := uint32(0)
	for ti, nIn := range shape {
		tx := wire.NewMsgTx(1)
		for i := 0; i < nIn; i++ {
			var h chainhash.Hash
			h[0] = byte(ti + 1)
			h[1] = byte(i + 1)
			tx.AddTxIn(&wire.TxIn{PreviousOutPoint: wire.OutPoint{Hash: h, Index: ctr}, Sequence: 0xffffffff})
			ctr++
		}
		tx.AddTxOut(&wire.TxOut{Value: 1, PkScript: []byte{0x51}})
		txns = append(txns, tx)
	}
	return txns
}

func checkJournal(shape []int, es []ref.Entry) string {
	total := 0
	for _, n := range shape {
		total += n
	}
	if total != len(es) {
		return "bad case: shape does not match entries"
	}
	want := ref.SpendJournal(es)
	var stxos []blockchain.SpentTxOut
	for _, e := range es {
		stxos = append(stxos, stxoOf(e))
	}
	got := blockchain.VerifSerializeSpendJournalEntry(stxos)
	if !bytes.Equal(got, want) {
		return fmt.Sprintf("serializeSpendJournalEntry=%x, format is %x", trunc(got), trunc(want))
	}
	src := exact(want)
	dec, err := blockchain.VerifDeserializeSpendJournalEntry(src, txnsOf(shape))
	scribble(src)
	if err != nil {
		return fmt.Sprintf("deserializeSpendJournalEntry(%x, shape %v) failed: %v", trunc(want), shape, err)
	}
	if len(dec) != len(es) {
		return fmt.Sprintf("deserializeSpendJournalEntry returned %d stxos, want %d", len(dec), len(es))
	}
	for i := range es {
		if d := sameStxo(dec[i], es[i]); d != "" {
			return fmt.Sprintf("deserializeSpendJournalEntry(shape %v) stxo %d: %s", shape, i, d)
		}
	}
	return ""
}

func checkV0(height uint64, outs map[uint32]ref.Entry) string {
	var cb bool
	for _, e := range outs {
		cb = e.CoinBase
	}
	enc := ref.V0Entry(1, int32(height), cb, outs)
	got, err := blockchain.VerifDeserializeUtxoEntryV0(exact(enc))
	if err != nil {
		return fmt.Sprintf("deserializeUtxoEntryV0(%x) failed: %v", trunc(enc), err)
	}
	if len(got) != len(outs) {
		return fmt.Sprintf("deserializeUtxoEntryV0(%x) returned %d outputs, want %d", trunc(enc), len(got), len(outs))
	}
	for i, e := range outs {
		g, ok := got[i]
		if !ok {
			return fmt.Sprintf("deserializeUtxoEntryV0(%x): output %d missing", trunc(enc), i)
		}
		if d := sameEntry(g, e); d != "" {
			return fmt.Sprintf("deserializeUtxoEntryV0(%x) output %d: %s", trunc(enc), i, d)
		}
	}
	return ""
}

func checkBest(hash []byte, height uint32, total uint64, work []byte) string {
	var h chainhash.Hash
	copy(h[:], hash)
	w := new(big.Int).SetBytes(work)
	want := ref.BestState(h, height, total, w)
	got := blockchain.VerifSerializeBestChainState(h, height, total, new(big.Int).Set(w))
	if !bytes.Equal(got, want) {
		return fmt.Sprintf("serializeBestChainState=%x, format is %x", got, want)
	}
	gh, ght, gt, gw, err := blockchain.VerifDeserializeBestChainState(exact(want))
	if err != nil {
		return fmt.Sprintf("deserializeBestChainState(%x) failed: %v", want, err)
	}
	if gh != h || ght != height || gt != total || gw == nil || gw.Cmp(w) != 0 {
		return fmt.Sprintf("deserializeBestChainState(%x)=(%v,%d,%d,%v), want (%v,%d,%d,%v)", want, gh, ght, gt, gw, h, height, total, w)
	}
	return ""
}

func parseHeader(b []byte) (ref.Header, *wire.BlockHeader) {
	// b = 80-byte header as the REFERENCE lays it out; only used to carry the
	// case; the wire header is built from the fields, not parsed from bytes.
	rd := func(p []byte) uint32 {
		return uint32(p[0]) | uint32(p[1])<<8 | uint32(p[2])<<16 | uint32(p[3])<<24
	}
	var rh ref.Header
	rh.Version = int32(rd(b[0:4]))
	copy(rh.Prev[:], b[4:36])
	copy(rh.Merkle[:], b[36:68])
	rh.Time = rd(b[68:72])
	rh.Bits = rd(b[72:76])
	rh.Nonce = rd(b[76:80])
	wh := &wire.BlockHeader{Version: rh.Version, PrevBlock: rh.Prev, MerkleRoot: rh.Merkle,
		Timestamp: time.Unix(int64(rh.Time), 0), Bits: rh.Bits, Nonce: rh.Nonce}
	return rh, wh
}

func checkRow(hdr []byte, height int32, status byte) string {
	rh, wh := parseHeader(hdr)
	want := ref.BlockRow(rh, status)
	bucket, key, val, puts, err := blockchain.VerifStoreBlockNodeRow(wh, height, status)
	if err != nil || puts != 1 {
		return fmt.Sprintf("dbStoreBlockNode: %d puts, err %v", puts, err)
	}
	if string(bucket) != "blockheaderidx" {
		return fmt.Sprintf("dbStoreBlockNode wrote to bucket %q", bucket)
	}
	if !bytes.Equal(val, want) {
		return fmt.Sprintf("dbStoreBlockNode value %x, format is %x", val, want)
	}
	// key: height (big endian) followed by the block hash = sha256d of the
	// 80 header bytes (computed here from the reference bytes).
	hash := chainhash.DoubleHashH(want[:80])
	if wk := ref.BlockRowKey(hash, uint32(height)); !bytes.Equal(key, wk) {
		return fmt.Sprintf("dbStoreBlockNode key %x, format is %x", key, wk)
	}
	gh, gs, err := blockchain.VerifDeserializeBlockRow(exact(want))
	if err != nil {
		return fmt.Sprintf("deserializeBlockRow(%x) failed: %v", want, err)
	}
	if gs != status || gh.Version != rh.Version || gh.PrevBlock != chainhash.Hash(rh.Prev) || gh.MerkleRoot != chainhash.Hash(rh.Merkle) ||
		gh.Timestamp.Unix() != int64(rh.Time) || gh.Bits != rh.Bits || gh.Nonce != rh.Nonce {
		return fmt.Sprintf("deserializeBlockRow(%x)=(%+v,%d), want (%+v,%d)", want, *gh, gs, rh, status)
	}
	return ""
}

func checkKey(txid []byte, idx uint32) string {
	var h chainhash.Hash
	copy(h[:], txid)
	want := ref.OutpointKey(h, idx)
	got := blockchain.VerifOutpointKey(wire.OutPoint{Hash: h, Index: idx})
	if !bytes.Equal(got, want) {
		return fmt.Sprintf("outpointKey(%x:%d)=%x, format is %x", txid, idx, got, want)
	}
	// key buffers are pooled: the key must not depend on what the buffer it is
	// built in was used for before (a shorter key, a longer key, the same key);
	// each pair runs back to back on this goroutine so that the second call
	// gets the buffer the first one recycled
	for _, pre := range []uint32{0, 127, 128, 16511, 16512, 1<<32 - 1, idx} {
		var again []byte
		if p := func() (p interface{}) {
			defer func() { p = recover() }()
			blockchain.VerifOutpointKey(wire.OutPoint{Hash: h, Index: pre})
			again = blockchain.VerifOutpointKey(wire.OutPoint{Hash: h, Index: idx})
			return nil
		}(); p != nil {
			return fmt.Sprintf("outpointKey(%x:%d) right after outpointKey(index %d): panic %v", txid, idx, pre, p)
		}
		if !bytes.Equal(again, want) {
			return fmt.Sprintf("outpointKey(%x:%d) right after outpointKey(index %d) = %x, format is %x", txid, idx, pre, again, want)
		}
	}
	// dbFetchUtxoEntryByHash seeks to <hash><VLQ(0)> and relies on every key of
	// the same hash sorting at or after it.
	zero := blockchain.VerifOutpointKey(wire.OutPoint{Hash: h, Index: 0})
	if bytes.Compare(zero, got) > 0 {
		return fmt.Sprintf("outpointKey(index 0)=%x sorts after outpointKey(index %d)=%x", zero, idx, got)
	}
	return ""
}
