// Free-running -race pass for C10: three goroutines hammer ONE real pool (wired to
// a real chain and a real sync manager) with colliding transactions; one of them
// also mines blocks from the pool and reorganises.  After every burst all
// goroutines are joined and I1-I5 are checked on the quiescent pool.  The race
// detector's report (if any) is turned into a violation by the parent check.
package main

import (
	"fmt"
	"os"
	"strconv"
	"sync"

	"github.com/btcsuite/btcd/btcutil/v2"

	c10h "verif/checks/c10/harness"
)

type lcg uint64

func (l *lcg) next(n int) int {
	*l = *l*6364136223846793005 + 1442695040888963407
	return int((uint64(*l) >> 33) % uint64(n))
}

func main() {
	bursts := 100
	if len(os.Args) > 1 {
		bursts, _ = strconv.Atoi(os.Args[1])
	}
	base := c10h.NewBase()
	w := c10h.RaceWorld(base)
	c10h.MaxBlockEvents = 1 << 30
	pol := c10h.Policies["nopriority"]
	var s *c10h.Sys
	blocks := 0
	ops := 0
	free := []int{w.By["F0"].Idx, w.By["F1"].Idx, w.By["F2"].Idx, w.By["F3"].Idx, w.By["E"].Idx}

	// phase A: every unordered pair of exported pool methods, each side in its own
	// goroutine, 150 calls per side, on a pool that holds a few transactions
	type method struct {
		name string
		f    func(mp *c10h.Sys, txs []*btcutil.Tx, k int)
	}
	methods := []method{
		{"ProcessTransaction", func(s *c10h.Sys, txs []*btcutil.Tx, k int) { s.MP.ProcessTransaction(txs[k%10], k%2 == 0, true, 0) }},
		{"MaybeAcceptTransaction", func(s *c10h.Sys, txs []*btcutil.Tx, k int) { s.MP.MaybeAcceptTransaction(txs[k%10], true, true) }},
		{"CheckMempoolAcceptance(free)", func(s *c10h.Sys, txs []*btcutil.Tx, k int) { s.MP.CheckMempoolAcceptance(txs[free[k%4]]) }},
		{"CheckMempoolAcceptance", func(s *c10h.Sys, txs []*btcutil.Tx, k int) { s.MP.CheckMempoolAcceptance(txs[k%10]) }},
		{"RemoveTransaction", func(s *c10h.Sys, txs []*btcutil.Tx, k int) { s.MP.RemoveTransaction(txs[k%10], true) }},
		{"RemoveDoubleSpends", func(s *c10h.Sys, txs []*btcutil.Tx, k int) { s.MP.RemoveDoubleSpends(txs[k%10]) }},
		{"ProcessOrphans", func(s *c10h.Sys, txs []*btcutil.Tx, k int) { s.MP.ProcessOrphans(txs[k%10]) }},
		{"RemoveOrphan", func(s *c10h.Sys, txs []*btcutil.Tx, k int) { s.MP.RemoveOrphan(txs[k%10]) }},
		{"RawMempoolVerbose", func(s *c10h.Sys, txs []*btcutil.Tx, k int) { _ = s.MP.RawMempoolVerbose() }},
		{"getters", func(s *c10h.Sys, txs []*btcutil.Tx, k int) {
			mp := s.MP
			_, _, _, _ = mp.TxDescs(), mp.MiningDescs(), mp.TxHashes(), mp.Count()
			_ = mp.LastUpdated()
			_ = mp.CheckSpend(w.Ops[k%len(w.Ops)])
			h := w.Txs[k%10].Ref.ID
			_, _ = mp.FetchTransaction(&h)
			_, _, _ = mp.HaveTransaction(&h), mp.IsOrphanInPool(&h), mp.IsTransactionInPool(&h)
		}},
	}
	// phase 0: the same read-only call from three goroutines released together on a
	// system whose chain has never been queried (cold utxo cache), several times
	cold := 12
	if bursts > 500 {
		cold = 40
	}
	for round := 0; round < cold; round++ {
		s = c10h.NewSys(w, pol, true)
		start := make(chan struct{})
		var wg sync.WaitGroup
		for g := 0; g < 3; g++ {
			wg.Add(1)
			go func(g int) {
				defer wg.Done()
				txs := make([]*btcutil.Tx, len(w.Txs))
				for i, t := range w.Txs {
					txs[i] = btcutil.NewTx(t.Msg.Copy())
				}
				<-start
				for k := range txs {
					s.MP.CheckMempoolAcceptance(txs[(k+round)%len(txs)])
				}
			}(g)
		}
		close(start)
		wg.Wait()
		if v := s.CheckState(false); v != "" {
			fmt.Printf("INVARIANT %s (after concurrent CheckMempoolAcceptance on a fresh system)\n", v)
			s.Close()
			os.Exit(3)
		}
		s.Close()
	}
	fmt.Printf("race pass 0: %d fresh systems x 3 goroutines x CheckMempoolAcceptance of every transaction\n", cold)
	s = c10h.NewSys(w, pol, true)
	pairs := 0
	for i := range methods {
		for j := i; j < len(methods); j++ {
			var wg sync.WaitGroup
			for side, m := range []method{methods[i], methods[j]} {
				wg.Add(1)
				go func(side int, m method) {
					defer wg.Done()
					txs := make([]*btcutil.Tx, len(w.Txs))
					for i, t := range w.Txs {
						txs[i] = btcutil.NewTx(t.Msg.Copy())
					}
					for k := 0; k < 150; k++ {
						m.f(s, txs, k*7+side*3)
					}
				}(side, m)
			}
			wg.Wait()
			pairs++
			if v := s.CheckState(false); v != "" {
				fmt.Printf("INVARIANT %s (after %s || %s)\n", v, methods[i].name, methods[j].name)
				s.Close()
				os.Exit(3)
			}
		}
	}
	s.Close()
	s = nil
	fmt.Printf("race pass A: %d method pairs x 2 x 150 calls completed\n", pairs)
	for b := 0; b < bursts; b++ {
		if s == nil || b%20 == 0 {
			if s != nil {
				s.Close()
			}
			s = c10h.NewSys(w, pol, true)
			blocks = 0
		}
		var wg sync.WaitGroup
		for g := 0; g < 3; g++ {
			wg.Add(1)
			go func(g int) {
				defer wg.Done()
				rng := lcg(uint64(b)*1000003 + uint64(g)*7919 + 1)
				// every goroutine has its own wrappers (btcutil.Tx caches its hash lazily)
				txs := make([]*btcutil.Tx, len(w.Txs))
				for i, t := range w.Txs {
					txs[i] = btcutil.NewTx(t.Msg.Copy())
				}
				mp := s.MP
				for k := 0; k < 16; k++ {
					i := rng.next(10) // the ten colliding transactions
					switch rng.next(12) {
					case 0, 1:
						mp.ProcessTransaction(txs[i], true, true, 0)
					case 2:
						mp.ProcessTransaction(txs[i], false, true, 0)
					case 3:
						mp.MaybeAcceptTransaction(txs[i], true, true)
					case 4:
						mp.CheckMempoolAcceptance(txs[i])
					case 5, 6:
						mp.CheckMempoolAcceptance(txs[free[rng.next(len(free))]])
					case 7:
						mp.RemoveTransaction(txs[i], true)
					case 8:
						mp.RemoveDoubleSpends(txs[i])
					case 9:
						mp.ProcessOrphans(txs[i])
					case 10:
						_ = mp.TxDescs()
						_ = mp.MiningDescs()
						_ = mp.RawMempoolVerbose()
						_ = mp.Count()
						_ = mp.LastUpdated()
						for _, op := range w.Ops[:8] {
							_ = mp.CheckSpend(op)
						}
						h := w.Txs[i].Ref.ID
						_, _ = mp.FetchTransaction(&h)
						_ = mp.HaveTransaction(&h)
						_ = mp.IsOrphanInPool(&h)
					case 11:
						if g == 2 && blocks < 6 {
							// this goroutine alone drives the chain
							blocks++
							switch rng.next(4) {
							case 0:
								s.BlockEvent(c10h.BMineEmpty)
							case 1, 2:
								s.BlockEvent(c10h.BMinePool)
							default:
								if len(s.Active) > 0 {
									s.BlockEvent(c10h.BReorg)
								} else {
									s.BlockEvent(c10h.BMineSet) // Mine[A]
								}
							}
						} else {
							mp.ProcessTransaction(txs[free[rng.next(len(free))]], true, true, 0)
						}
					}
				}
			}(g)
		}
		wg.Wait()
		ops += 48
		v := s.CheckState(false)
		if v == "" && s.Viol != "" {
			v = s.Viol
		}
		if v != "" {
			fmt.Printf("INVARIANT %s (after burst %d, %d blocks on this chain)\n", v, b, blocks)
			s.Close()
			os.Exit(3)
		}
		if s.Harness != "" {
			fmt.Printf("HARNESS %s\n", s.Harness)
			s.Close()
			os.Exit(4)
		}
	}
	if s != nil {
		s.Close()
	}
	fmt.Printf("race pass: %d bursts x 3 goroutines x 16 calls completed, invariants I1-I5 held after every burst\n", bursts)
}
