#!/bin/bash
# C10 runner: build the check and its free-running -race companion, run.
cd "$(dirname "$0")/../.." || exit 2
. scripts/env.sh
out=${VERIF_OUT:-bin/c10}
if ! $VGO build $VERIF_MODFLAG -tags verif -o "$out" ./checks/c10 2> "$out.buildlog"; then
  head -40 "$out.buildlog"; echo "BROKEN-CHECK property=C10 build failed against the btcd working tree"; exit 2
fi
if ! $VGO build $VERIF_MODFLAG -race -tags verif -o "$out-race" ./checks/c10/race 2> "$out.buildlog"; then
  head -40 "$out.buildlog"; echo "BROKEN-CHECK property=C10 race build failed"; exit 2
fi
export C10_RACE_BIN="$PWD/$out-race"
ulimit -v 67108864 2>/dev/null
exec "$out" "$@"
