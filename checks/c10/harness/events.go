package c10h

import (
	"fmt"
	"os"
	"runtime/debug"
	"strings"

	"github.com/btcsuite/btcd/blockchain"
	"github.com/btcsuite/btcd/chainhash/v2"
	"github.com/btcsuite/btcd/mempool"

	"verif/lab"
	"verif/ref/refpool"
)

// Event kinds.  An event is kind*4096 + argument.
const (
	KPTOrphan   = iota // ProcessTransaction(t, allowOrphan=true, rateLimit=true, tag 0)
	KPTNoOrphan        // ProcessTransaction(t, allowOrphan=false, rateLimit=true, tag 0)
	KMAT               // MaybeAcceptTransaction(t, isNew=true, rateLimit=true)
	KRemoveKeep        // RemoveTransaction(t, removeRedeemers=false)   (only when t has no pooled spender)
	KRemoveAll         // RemoveTransaction(t, removeRedeemers=true)
	KRDS               // RemoveDoubleSpends(t)
	KPO                // ProcessOrphans(t)
	KBlock             // block events, see below
	nKinds_
)

var kindNames = []string{"PT+o", "PT-o", "MAT", "RT-r", "RT+r", "RDS", "PO", "BLK"}

// Block event arguments: 0 MineEmpty, 1 MinePool, 2+i Mine(MineSets[i]),
// 32+i Reorg(ReorgSets[i]).
const (
	BMineEmpty = 0
	BMinePool  = 1
	BMineSet   = 2
	BReorg     = 32
)

// IsBlockEvent tells block events from pool calls.
func IsBlockEvent(e int) bool { return e/evBase == KBlock }

// Ev builds an event code.
func Ev(kind, arg int) int { return kind*evBase + arg }

const evBase = 4096

// EvName renders an event.
func (w *World) EvName(e int) string {
	k, a := e/evBase, e%evBase
	if k != KBlock {
		return kindNames[k] + ":" + w.Txs[a].Ref.Name
	}
	switch {
	case a == BMineEmpty:
		return "MineEmpty"
	case a == BMinePool:
		return "MinePool"
	case a >= BReorg:
		return "Reorg[" + strings.Join(w.ReorgSets[a-BReorg], ",") + "]"
	default:
		return "Mine[" + strings.Join(w.MineSets[a-BMineSet], ",") + "]"
	}
}

// EvByName parses EvName's output.
func (w *World) EvByName(n string) (int, bool) {
	for _, e := range w.AllEvents() {
		if w.EvName(e) == n {
			return e, true
		}
	}
	return 0, false
}

// HistNames renders a history.
func (w *World) HistNames(h []int) []string {
	out := make([]string, len(h))
	for i, e := range h {
		out[i] = w.EvName(e)
	}
	return out
}

// AllEvents lists the alphabet, simplest first.
func (w *World) AllEvents() []int {
	var out []int
	for k := 0; k < KBlock; k++ {
		for i := range w.Txs {
			out = append(out, Ev(k, i))
		}
	}
	out = append(out, Ev(KBlock, BMineEmpty), Ev(KBlock, BMinePool))
	for i := range w.MineSets {
		out = append(out, Ev(KBlock, BMineSet+i))
	}
	for i := range w.ReorgSets {
		out = append(out, Ev(KBlock, BReorg+i))
	}
	return out
}

// MaxBlockEvents bounds the block events of one history.
var MaxBlockEvents = 3

// Enabled lists the events that make sense in the current state.
func (s *Sys) Enabled() []int {
	if s.Harness != "" || s.Viol != "" {
		return nil
	}
	sn := s.TakeSnap()
	var out []int
	for _, e := range s.W.AllEvents() {
		if s.enabled(e, sn) {
			out = append(out, e)
		}
	}
	return out
}

func (s *Sys) enabled(e int, sn *Snap) bool {
	k, a := e/evBase, e%evBase
	switch k {
	case KRemoveKeep:
		// RemoveTransaction(t, false) is the call for "t was confirmed": with a
		// pooled spender of t's outputs it would orphan that spender by contract.
		t := s.W.Txs[a]
		for i := range t.Ref.OutVals {
			if _, spent := sn.Hook.Outpoints[t.Ref.Out(uint32(i))]; spent {
				return false
			}
		}
		return true
	case KBlock:
		if s.blocks >= MaxBlockEvents {
			return false
		}
		switch {
		case a == BMineEmpty:
			return true
		case a == BMinePool:
			return len(sn.Pool) > 0
		case a >= BReorg:
			return len(s.Active) > 0
		default:
			// the listed transactions must be connectable on the tip: every input
			// unspent in the chain or created earlier in the list
			tip := s.Tip()
			if tip == nil {
				return false
			}
			utxo, err := s.W.B.Utxos(tip)
			if err != nil {
				return false
			}
			made := map[chainhash.Hash]bool{}
			for _, t := range s.W.Pick(s.W.MineSets[a-BMineSet]) {
				for _, in := range t.Ref.Ins {
					if _, ok := utxo[in.Prev]; !ok && !made[in.Prev.Hash] {
						return false
					}
				}
				made[t.Ref.ID] = true
			}
			return true
		}
	}
	return true
}

func (s *Sys) violf(format string, a ...interface{}) {
	if s.Viol == "" {
		s.Viol = fmt.Sprintf(format, a...)
	}
}

func (s *Sys) obs(k string) { s.Obs[k]++ }

// Apply applies one event to the real system and checks the transition
// properties (I6, I7, post-conditions of the removal calls).
func (s *Sys) Apply(e int) {
	if s.Harness != "" || s.Viol != "" {
		return
	}
	defer func() {
		if r := recover(); r != nil {
			s.violf("panic/%s: panic in %s: %v", kindNames[e/evBase], s.W.EvName(e), r)
			if os.Getenv("C10_DEBUG") != "" {
				fmt.Println(string(debug.Stack()))
			}
		}
		s.observeClock()
		s.canon = ""
		s.Trace = append(s.Trace, s.Canon())
	}()
	s.Hist = append(s.Hist, e)
	pre := s.TakeSnap()
	if !s.enabled(e, pre) {
		return // (only reachable when a replay took a different non-deterministic turn)
	}
	prePool, unk := s.RefPool(pre)
	if unk != "" {
		s.violf("pool/unknown-tx: pool holds %s which was never submitted", unk)
		return
	}
	k, a := e/evBase, e%evBase
	name := s.W.EvName(e)
	switch k {
	case KPTOrphan, KPTNoOrphan:
		acc, err := s.MP.ProcessTransaction(s.txs[a], k == KPTOrphan, true, 0)
		post := s.TakeSnap()
		switch {
		case err != nil:
			if d := pre.Same(post); d != "" {
				s.violf("I6/%s: %s returned error %q but changed the state: %s", kindNames[k], name, err, d)
			}
			if len(acc) != 0 {
				s.violf("I6/%s: %s returned an error together with accepted transactions", kindNames[k], name)
			}
		case len(acc) > 0:
			s.checkAccepted(name, prePool, acc, post)
			s.noteStuckOrphans(name, acc, nil, post)
		default:
			// stored as (or dropped as) an orphan: main pool and spend index untouched
			if d := pre.SamePool(post); d != "" {
				s.violf("I6/orphan-path: %s accepted nothing but changed the main pool: %s", name, d)
			}
		}
	case KMAT:
		missing, txD, err := s.MP.MaybeAcceptTransaction(s.txs[a], true, true)
		post := s.TakeSnap()
		switch {
		case err != nil:
			if d := pre.Same(post); d != "" {
				s.violf("I6/MAT: %s returned error %q but changed the state: %s", name, err, d)
			}
		case txD != nil:
			s.checkAccepted(name, prePool, []*mempool.TxDesc{txD}, post)
		default:
			if len(missing) == 0 {
				s.violf("I6/MAT: %s returned neither a descriptor, nor missing parents, nor an error", name)
			}
			if d := pre.Same(post); d != "" {
				s.violf("I6/MAT: %s reported missing parents but changed the state: %s", name, d)
			}
		}
	case KRemoveKeep, KRemoveAll:
		s.MP.RemoveTransaction(s.txs[a], k == KRemoveAll)
		post := s.TakeSnap()
		if _, still := post.Pool[s.W.Txs[a].Ref.ID]; still {
			s.violf("post/RemoveTransaction: %s left the transaction in the pool", name)
		}
		if d := pre.SameOrphans(post); d != "" {
			s.violf("post/RemoveTransaction: %s changed the orphan pool: %s", name, d)
		}
	case KRDS:
		s.MP.RemoveDoubleSpends(s.txs[a])
		post := s.TakeSnap()
		postPool, _ := s.RefPool(post)
		if postPool != nil {
			if c := postPool.DirectConflicts(s.W.Txs[a].Ref); len(c) > 0 {
				s.violf("post/RemoveDoubleSpends: after %s the pool still holds %v spending the same outputs", name, c.Names())
			}
		}
	case KPO:
		acc := s.MP.ProcessOrphans(s.txs[a])
		post := s.TakeSnap()
		if len(acc) > 0 {
			s.checkAccepted(name, prePool, acc, post)
		} else if d := pre.SamePool(post); d != "" {
			s.violf("I6/ProcessOrphans: %s accepted nothing but changed the main pool: %s", name, d)
		}
		s.noteStuckOrphans(name, acc, s.W.Txs[a], post)
	case KBlock:
		s.applyBlock(a)
	}
}

// checkAccepted is I7 + exactness of an accepting call: starting from the
// reference pre-pool, the transactions the call reports as accepted are applied
// one by one with the reference semantics "evict conflicts and their
// descendants, add"; every step that evicts something must satisfy the
// replacement clause, and the final reference pool must equal the real pool.
func (s *Sys) checkAccepted(name string, pre refpool.Pool, acc []*mempool.TxDesc, post *Snap) {
	cur := pre
	for _, d := range acc {
		if d == nil {
			s.violf("I7/nil-desc: %s returned a nil descriptor among the accepted transactions", name)
			return
		}
		u, ok := s.W.ByID[*d.Tx.Hash()]
		if !ok {
			s.violf("pool/unknown-tx: %s accepted a transaction nobody submitted", name)
			return
		}
		if _, dup := cur[u.Ref.ID]; dup {
			s.violf("I7/duplicate-accept: %s accepted %s which was already pooled", name, u.Ref.Name)
			return
		}
		if d.Fee != u.Ref.Fee {
			s.violf("desc/fee: %s: descriptor of %s records fee %d, the transaction pays %d", name, u.Ref.Name, d.Fee, u.Ref.Fee)
		}
		for _, p := range cur.ReplacementProblems(u.Ref, MinRelayPerKB, s.Pol.RejectReplacement) {
			s.violf("I7/%s: %s accepted %s over pool %v: %s", strings.TrimSuffix(strings.SplitN(p, " ", 2)[0], ":"), name, u.Ref.Name, cur.Names(), p)
		}
		var ev refpool.Pool
		cur, ev = cur.Accept(u.Ref)
		if len(ev) > 0 {
			s.obs("replacements_accepted")
			s.obs(fmt.Sprintf("replacement_evicting_%d", len(ev)))
		}
	}
	got, unk := s.RefPool(post)
	if unk != "" {
		s.violf("pool/unknown-tx: pool holds %s which was never submitted", unk)
		return
	}
	if strings.Join(got.Names(), ",") != strings.Join(cur.Names(), ",") {
		s.violf("I7/evicted-set: %s on pool %v reported accepting %v: pool is now %v, the reference (evict exactly conflicts and their descendants) says %v",
			name, pre.Names(), descNames(s, acc), got.Names(), cur.Names())
	}
}

func descNames(s *Sys, acc []*mempool.TxDesc) []string {
	var out []string
	for _, d := range acc {
		if u, ok := s.W.ByID[*d.Tx.Hash()]; ok {
			out = append(out, u.Ref.Name)
		} else {
			out = append(out, "?")
		}
	}
	return out
}

// BlockEvent applies a block event outside Apply (used by the free-running race
// pass, where only one goroutine drives the chain).
func (s *Sys) BlockEvent(a int) {
	s.applyBlock(a)
	s.observeClock()
}

func (s *Sys) deliver(b *lab.Blk) bool {
	_, orphan, err := s.bc.ProcessBlock(b.Block(), blockchain.BFNone)
	if err != nil || orphan {
		s.Harness = fmt.Sprintf("ProcessBlock(%s) of a valid lab block: err=%v orphan=%v", b.Name, err, orphan)
		return false
	}
	return true
}

func (s *Sys) applyBlock(a int) {
	if s.isFork {
		s.Harness = "block event on a forked system"
		return
	}
	if s.priv == nil {
		s.privatize()
		s.attach()
		if s.Harness != "" {
			return
		}
	} else if s.SM == nil {
		s.attach()
	}
	s.blocks++
	tip := s.Tip()
	if tip == nil {
		s.Harness = "best block is not a lab block"
		return
	}
	switch {
	case a >= BReorg:
		// a competing branch from the base tip, one block longer than the active
		// one; its first block confirms the listed transactions
		s.reorgs++
		parent := s.W.B.Tip
		n := len(s.Active) + 1
		var branch []*lab.Blk
		for i := 0; i < n; i++ {
			var txs []*UTx
			if i == 0 {
				txs = s.W.Pick(s.W.ReorgSets[a-BReorg])
			}
			b := s.W.B.Block(parent, uint32(1000+100*s.reorgs+i), txs)
			branch = append(branch, b)
			parent = b
		}
		for _, b := range branch {
			if !s.deliver(b) {
				return
			}
		}
		s.Active = branch
	default:
		var txs []*UTx
		switch a {
		case BMineEmpty:
		case BMinePool:
			// (public getters only: this also runs inside the free-running race pass)
			sn := &Snap{Pool: map[chainhash.Hash]DescInfo{}}
			for _, d := range s.MP.TxDescs() {
				sn.Pool[*d.Tx.Hash()] = DescInfo{Fee: d.Fee}
			}
			p, unk := s.RefPool(sn)
			if unk != "" {
				s.violf("pool/unknown-tx: pool holds %s which was never submitted", unk)
				return
			}
			order, err := p.Topo()
			if err != nil {
				s.violf("I5/cycle: %v", err)
				return
			}
			for _, t := range order {
				txs = append(txs, s.W.ByID[t.ID])
			}
		default:
			txs = s.W.Pick(s.W.MineSets[a-BMineSet])
		}
		b := s.W.B.Block(tip, uint32(tip.Height+1), txs)
		if !s.deliver(b) {
			return
		}
		s.Active = append(s.Active, b)
	}
	want := s.Active[len(s.Active)-1]
	if got := s.Tip(); got == nil || got.Hash != want.Hash {
		s.Harness = fmt.Sprintf("after the block event the best block is %v, the harness expected %s", got, want.Name)
	}
}

// noteStuckOrphans records (as an observation: the property only bounds orphan
// storage) orphans that spend an output of a transaction whose orphans were just
// processed, have every input available and unspent, and are still orphans.
func (s *Sys) noteStuckOrphans(name string, acc []*mempool.TxDesc, extra *UTx, post *Snap) {
	processed := map[chainhash.Hash]bool{}
	if extra != nil {
		processed[extra.Ref.ID] = true
	}
	for _, d := range acc {
		if d != nil {
			processed[*d.Tx.Hash()] = true
		}
	}
	tip := s.Tip()
	if tip == nil {
		return
	}
	utxo, err := s.W.B.Utxos(tip)
	if err != nil {
		return
	}
	for _, h := range sortedHashes(post.Hook.Orphans) {
		u, ok := s.W.ByID[h]
		if !ok {
			continue
		}
		child, avail := false, true
		for _, in := range u.Ref.Ins {
			if processed[in.Prev.Hash] {
				child = true
			}
			_, inChain := utxo[in.Prev]
			_, inPool := post.Pool[in.Prev.Hash]
			_, spent := post.Hook.Outpoints[in.Prev]
			if spent || !(inChain || inPool) {
				avail = false
			}
		}
		if child && avail {
			s.obs("orphan_left_behind_by_ProcessOrphans")
			if s.StuckNote == "" {
				s.StuckNote = fmt.Sprintf("after %s (history %v) orphan %s has all inputs available and unspent but is still an orphan", name, s.W.HistNames(s.Hist), u.Ref.Name)
			}
		}
	}
}
