package c10h

import (
	"fmt"
	"sort"
	"strings"
	"time"

	"github.com/btcsuite/btcd/blockchain"
	"github.com/btcsuite/btcd/btcutil/v2"
	"github.com/btcsuite/btcd/chainhash/v2"
	"github.com/btcsuite/btcd/mempool"
	"github.com/btcsuite/btcd/netsync"
	"github.com/btcsuite/btcd/peer"
	"github.com/btcsuite/btcd/txscript/v2"
	"github.com/btcsuite/btcd/wire/v2"

	"verif/lab"
	"verif/ref/refpool"
)

// Policy is the part of the pool configuration the check varies.
type Policy struct {
	Name                 string
	AcceptNonStd         bool
	DisableRelayPriority bool
	RejectReplacement    bool
	MaxOrphanTxs         int
	MaxOrphanTxSize      int
}

// MinRelayPerKB is the relay fee every lab pool uses (btcd's default).
const MinRelayPerKB = int64(mempool.DefaultMinRelayTxFee)

// Policies by name.
var Policies = map[string]Policy{
	// btcd's defaults (config.go) except RelayNonStd, which the OP_TRUE world needs
	"default":     {Name: "default", AcceptNonStd: true, MaxOrphanTxs: 100, MaxOrphanTxSize: 100000},
	"nopriority":  {Name: "nopriority", AcceptNonStd: true, DisableRelayPriority: true, MaxOrphanTxs: 100, MaxOrphanTxSize: 100000},
	"rejectrbf":   {Name: "rejectrbf", AcceptNonStd: true, RejectReplacement: true, MaxOrphanTxs: 100, MaxOrphanTxSize: 100000},
	"orphans0":    {Name: "orphans0", AcceptNonStd: true, MaxOrphanTxs: 0, MaxOrphanTxSize: 100000},
	"orphans1":    {Name: "orphans1", AcceptNonStd: true, MaxOrphanTxs: 1, MaxOrphanTxSize: 100000},
	"orphans2":    {Name: "orphans2", AcceptNonStd: true, MaxOrphanTxs: 2, MaxOrphanTxSize: 71}, // 71 = size of B,C,B1: exactly at the limit; D (81) and O (112) above
	"standard":    {Name: "standard", AcceptNonStd: false, MaxOrphanTxs: 100, MaxOrphanTxSize: 100000},
	"std-orphan1": {Name: "std-orphan1", AcceptNonStd: false, MaxOrphanTxs: 1, MaxOrphanTxSize: 100000},
}

func init() { netsync.DisableLog() } // netsync's package logger is nil until set

// stubNotifier is the netsync.PeerNotifier of a node without peers.
type stubNotifier struct{}

func (stubNotifier) AnnounceNewTransactions([]*mempool.TxDesc)            {}
func (stubNotifier) UpdatePeerHeights(*chainhash.Hash, int32, *peer.Peer) {}
func (stubNotifier) RelayInventory(*wire.InvVect, interface{})            {}
func (stubNotifier) TransactionConfirmed(*btcutil.Tx)                     {}

// Sys is one real system: chain + pool + sync manager.
type Sys struct {
	W   *World
	Pol Policy

	shared *lab.Chain // borrowed read-only base chain (until the first block event)
	priv   *lab.Chain // private chain (after the first block event)
	bc     *blockchain.BlockChain
	MP     *mempool.TxPool
	SM     *netsync.SyncManager

	txs    []*btcutil.Tx
	Active []*lab.Blk // blocks above the base tip on the active chain
	reorgs int
	blocks int // number of block events applied

	maxHeight int32
	maxMTP    time.Time

	// Harness is a failure of the harness itself (never a verdict); Viol is the
	// first violated transition property (I6/I7/post-conditions).
	Harness string
	Viol    string
	// Obs collects observations that are not part of the property.
	Obs map[string]int
	// Trace is the canonical state after every applied event.
	Trace []string
	// Hist is the list of applied events; StuckNote the first stuck-orphan observation.
	Hist      []int
	StuckNote string
	canon     string // cached Canon() of the current state
	isFork    bool   // shares another system's chain; no block events
	// AlwaysPrivate makes the system own its chain (and the sync manager) from the start.
	AlwaysPrivate bool
}

// NewSys builds a system in its initial state (empty pool, base chain).
func NewSys(w *World, pol Policy, private bool) *Sys {
	s := &Sys{W: w, Pol: pol, Obs: map[string]int{}, AlwaysPrivate: private}
	if private {
		s.privatize()
	} else {
		s.shared = w.B.borrow()
		s.bc = s.shared.BC
	}
	s.newPool()
	if private {
		s.attach()
	}
	s.observeClock()
	return s
}

// newPool creates the system's transactions and its pool, configured exactly as
// server.go configures the node's pool (closures over the chain instead of method
// values, so that the chain instance can be swapped for an identical private one).
func (s *Sys) newPool() {
	w, pol := s.W, s.Pol
	for _, t := range w.Txs {
		s.txs = append(s.txs, btcutil.NewTx(t.Msg.Copy()))
	}
	cfg := mempool.Config{
		Policy: mempool.Policy{
			DisableRelayPriority: pol.DisableRelayPriority,
			AcceptNonStd:         pol.AcceptNonStd,
			FreeTxRelayLimit:     15.0,
			MaxOrphanTxs:         pol.MaxOrphanTxs,
			MaxOrphanTxSize:      pol.MaxOrphanTxSize,
			MaxSigOpCostPerTx:    blockchain.MaxBlockSigOpsCost / 4,
			MinRelayTxFee:        mempool.DefaultMinRelayTxFee,
			MaxTxVersion:         2,
			RejectReplacement:    pol.RejectReplacement,
		},
		ChainParams:    w.B.Params,
		FetchUtxoView:  func(tx *btcutil.Tx) (*blockchain.UtxoViewpoint, error) { return s.bc.FetchUtxoView(tx) },
		BestHeight:     func() int32 { return s.bc.BestSnapshot().Height },
		MedianTimePast: func() time.Time { return s.bc.BestSnapshot().MedianTime },
		CalcSequenceLock: func(tx *btcutil.Tx, view *blockchain.UtxoViewpoint) (*blockchain.SequenceLock, error) {
			return s.bc.CalcSequenceLock(tx, view, true)
		},
		IsDeploymentActive: func(id uint32) (bool, error) { return s.bc.IsDeploymentActive(id) },
		SigCache:           txscript.NewSigCache(256),
		HashCache:          txscript.NewHashCache(256),
		AddrIndex:          nil,
		FeeEstimator:       nil,
	}
	s.MP = mempool.New(&cfg)
}

// Fork returns a second system on the SAME chain instance (which from then on is
// only queried) whose fresh pool was brought to s's canonical state by really
// submitting s's pooled transactions in dependency order and then its orphans.
// It returns nil if that does not reproduce the canonical state (e.g. a
// transaction that only a reorganisation could put back).  Forks accept no
// block events.
func (s *Sys) Fork() *Sys {
	if s.Harness != "" || s.Viol != "" {
		return nil
	}
	sn := s.TakeSnap()
	pool, unk := s.RefPool(sn)
	if unk != "" {
		return nil
	}
	order, err := pool.Topo()
	if err != nil {
		return nil
	}
	t := &Sys{W: s.W, Pol: s.Pol, Obs: map[string]int{}, bc: s.bc, isFork: true,
		Active: append([]*lab.Blk(nil), s.Active...), reorgs: s.reorgs, blocks: s.blocks,
		maxHeight: s.maxHeight, maxMTP: s.maxMTP, Trace: append([]string(nil), s.Trace...), Hist: append([]int(nil), s.Hist...)}
	t.newPool()
	for _, r := range order {
		if _, err := t.MP.ProcessTransaction(t.txs[s.W.ByID[r.ID].Idx], false, true, 0); err != nil {
			return nil
		}
	}
	for _, h := range sortedHashes(sn.Hook.Orphans) {
		u, ok := s.W.ByID[h]
		if !ok {
			return nil
		}
		if _, err := t.MP.ProcessTransaction(t.txs[u.Idx], true, true, 0); err != nil {
			return nil
		}
	}
	if t.Canon() != s.Canon() {
		return nil
	}
	return t
}

// privatize gives the system its own chain instance.  The borrowed chain and the
// new one hold the same blocks, so no pool query can tell the difference.
func (s *Sys) privatize() {
	if s.priv != nil {
		return
	}
	s.priv = s.W.B.NewChain()
	if s.shared != nil {
		s.W.B.giveBack(s.shared)
		s.shared = nil
	}
	s.bc = s.priv.BC
}

// attach creates the real sync manager; netsync.New subscribes its
// handleBlockchainNotification to the chain (nothing is started, no goroutines).
func (s *Sys) attach() {
	sm, err := netsync.New(&netsync.Config{
		PeerNotifier:       stubNotifier{},
		Chain:              s.bc,
		TxMemPool:          s.MP,
		ChainParams:        s.W.B.Params,
		DisableCheckpoints: true,
		MaxPeers:           8,
	})
	if err != nil {
		s.Harness = "netsync.New: " + err.Error()
		return
	}
	s.SM = sm
	s.bc.Subscribe(func(*blockchain.Notification) { s.observeClock() })
}

func (s *Sys) observeClock() {
	b := s.bc.BestSnapshot()
	if b.Height > s.maxHeight {
		s.maxHeight = b.Height
	}
	if b.MedianTime.After(s.maxMTP) {
		s.maxMTP = b.MedianTime
	}
}

// Close releases the system.
func (s *Sys) Close() {
	if s.isFork {
		return
	}
	if s.shared != nil {
		s.W.B.giveBack(s.shared)
		s.shared = nil
	}
	if s.priv != nil {
		s.priv.Destroy()
		s.priv = nil
	}
}

// HasPrivateChain reports whether block events were applied (the system owns its chain).
func (s *Sys) HasPrivateChain() bool { return s.priv != nil }

// Tx returns the system's own btcutil wrapper of universe transaction i.
func (s *Sys) Tx(i int) *btcutil.Tx { return s.txs[i] }

// BC exposes the current chain.
func (s *Sys) BC() *blockchain.BlockChain { return s.bc }

// Tip is the lab block the real chain reports as best.
func (s *Sys) Tip() *lab.Blk { return s.W.B.ByHash(s.bc.BestSnapshot().Hash) }

// ---------------------------------------------------------------------------
// snapshots (public getters + export hook)

// Snap is everything observable about the pool.
type Snap struct {
	Pool    map[chainhash.Hash]DescInfo
	Orphans map[chainhash.Hash]bool          // over the universe, via IsOrphanInPool
	Spend   map[wire.OutPoint]chainhash.Hash // over the outpoint universe, via CheckSpend
	Hook    *mempool.VerifC10State
}

// DescInfo is the property-relevant part of a TxDesc.
type DescInfo struct {
	Fee      int64
	FeePerKB int64
	Height   int32
}

// TakeSnap reads the pool.
func (s *Sys) TakeSnap() *Snap {
	sn := &Snap{Pool: map[chainhash.Hash]DescInfo{}, Orphans: map[chainhash.Hash]bool{}, Spend: map[wire.OutPoint]chainhash.Hash{}}
	for _, d := range s.MP.TxDescs() {
		sn.Pool[*d.Tx.Hash()] = DescInfo{Fee: d.Fee, FeePerKB: d.FeePerKB, Height: d.Height}
	}
	for _, t := range s.W.Txs {
		id := t.Ref.ID
		if s.MP.IsOrphanInPool(&id) {
			sn.Orphans[id] = true
		}
	}
	for _, op := range s.W.Ops {
		if tx := s.MP.CheckSpend(op); tx != nil {
			sn.Spend[op] = *tx.Hash()
		}
	}
	sn.Hook = s.MP.VerifC10Snapshot()
	return sn
}

func hashSetEq[V any, W any](a map[chainhash.Hash]V, b map[chainhash.Hash]W) bool {
	if len(a) != len(b) {
		return false
	}
	for k := range a {
		if _, ok := b[k]; !ok {
			return false
		}
	}
	return true
}

// SamePool compares main pool and spend index.
func (a *Snap) SamePool(b *Snap) string {
	if len(a.Pool) != len(b.Pool) {
		return fmt.Sprintf("pool size %d -> %d", len(a.Pool), len(b.Pool))
	}
	for k, v := range a.Pool {
		if w, ok := b.Pool[k]; !ok || v != w {
			return fmt.Sprintf("pool entry %s changed (%v -> %v, present=%v)", k.String()[:8], v, w, ok)
		}
	}
	if len(a.Spend) != len(b.Spend) || len(a.Hook.Outpoints) != len(b.Hook.Outpoints) {
		return "spend index size changed"
	}
	for k, v := range a.Spend {
		if b.Spend[k] != v {
			return fmt.Sprintf("CheckSpend(%s:%d) changed", k.Hash.String()[:8], k.Index)
		}
	}
	for k, v := range a.Hook.Outpoints {
		if w, ok := b.Hook.Outpoints[k]; !ok || w != v {
			return fmt.Sprintf("outpoints[%s:%d] changed", k.Hash.String()[:8], k.Index)
		}
	}
	return ""
}

// SameOrphans compares orphan pool and its parent index.
func (a *Snap) SameOrphans(b *Snap) string {
	if !hashSetEq(a.Orphans, b.Orphans) || !hashSetEq(a.Hook.Orphans, b.Hook.Orphans) {
		return fmt.Sprintf("orphan set changed (%d -> %d)", len(a.Hook.Orphans), len(b.Hook.Orphans))
	}
	if len(a.Hook.OrphansByPrev) != len(b.Hook.OrphansByPrev) {
		return "orphansByPrev size changed"
	}
	for k, v := range a.Hook.OrphansByPrev {
		if w, ok := b.Hook.OrphansByPrev[k]; !ok || !hashSetEq(v, w) {
			return fmt.Sprintf("orphansByPrev[%s:%d] changed", k.Hash.String()[:8], k.Index)
		}
	}
	return ""
}

// Same compares everything the property speaks about.
func (a *Snap) Same(b *Snap) string {
	if d := a.SamePool(b); d != "" {
		return d
	}
	return a.SameOrphans(b)
}

// RefPool maps the pooled hashes to the universe; unknown is non-empty if the pool
// holds something nobody submitted.
func (s *Sys) RefPool(sn *Snap) (refpool.Pool, string) {
	p := refpool.Pool{}
	for h := range sn.Pool {
		u, ok := s.W.ByID[h]
		if !ok {
			return nil, h.String()
		}
		p[h] = u.Ref
	}
	return p, ""
}

func (s *Sys) names(m map[chainhash.Hash]bool) []string {
	var out []string
	for h := range m {
		if u, ok := s.W.ByID[h]; ok {
			out = append(out, u.Ref.Name)
		} else {
			out = append(out, h.String()[:8])
		}
	}
	sort.Strings(out)
	return out
}

// Canon is the canonical, future-determining state: active chain above the base
// (per block: confirmed universe transactions), pool set, orphan set.
func (s *Sys) Canon() string {
	if s.Harness != "" {
		return "HARNESS:" + s.Harness
	}
	if s.canon != "" {
		return s.canon
	}
	s.canon = s.computeCanon()
	return s.canon
}

func (s *Sys) computeCanon() string {
	sn := s.TakeSnap()
	var sb strings.Builder
	sb.WriteString("chain=")
	for _, b := range s.Active {
		sb.WriteString("[")
		for i, tx := range b.Msg.Transactions[1:] {
			if i > 0 {
				sb.WriteString(",")
			}
			if u, ok := s.W.ByID[lab.TxID(tx)]; ok {
				sb.WriteString(u.Ref.Name)
			} else {
				sb.WriteString("?")
			}
		}
		sb.WriteString("]")
	}
	pool := map[chainhash.Hash]bool{}
	for h := range sn.Pool {
		pool[h] = true
	}
	fmt.Fprintf(&sb, "|pool=%s|orph=%s", strings.Join(s.names(pool), ","), strings.Join(s.names(sn.Orphans), ","))
	// an inconsistent spend index is part of the state, too (it is a violation and
	// such states are pruned, but they must not be merged with healthy ones)
	if len(sn.Hook.Outpoints) != s.expectedSpendCount(sn) {
		fmt.Fprintf(&sb, "|spendidx=%d", len(sn.Hook.Outpoints))
	}
	return sb.String()
}

func (s *Sys) expectedSpendCount(sn *Snap) int {
	n := 0
	for h := range sn.Pool {
		if u, ok := s.W.ByID[h]; ok {
			n += len(u.Ref.Ins)
		}
	}
	return n
}
