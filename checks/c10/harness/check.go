package c10h

import (
	"fmt"
	"sort"
	"strings"

	"github.com/btcsuite/btcd/chainhash/v2"
	"github.com/btcsuite/btcd/wire/v2"

	"verif/lab"
)

func short(op wire.OutPoint) string { return fmt.Sprintf("%s:%d", op.Hash.String()[:8], op.Index) }

func (s *Sys) opName(op wire.OutPoint) string {
	if u, ok := s.W.ByID[op.Hash]; ok {
		return fmt.Sprintf("%s:%d", u.Ref.Name, op.Index)
	}
	for n, c := range s.W.B.Coins {
		if c == op {
			return n
		}
	}
	return short(op)
}

// Check evaluates everything after an event: the transition verdict recorded by
// Apply, then the state invariants I1-I5 and the read-only probe of
// CheckMempoolAcceptance.  The result is "" or "<key>: <description>"; a result
// starting with "HARNESS" is a failure of the harness, not a verdict.
func (s *Sys) Check() string {
	if s.Harness != "" {
		return "HARNESS: " + s.Harness
	}
	if s.Viol != "" {
		return s.Viol
	}
	if v := s.CheckState(true); v != "" {
		return v
	}
	return ""
}

// CheckState evaluates I1-I5 (and, when probe is set, that
// CheckMempoolAcceptance of every universe transaction changes nothing).
func (s *Sys) CheckState(probe bool) (verdict string) {
	defer func() {
		if r := recover(); r != nil {
			verdict = fmt.Sprintf("panic/check: panic while reading the pool: %v", r)
		}
	}()
	sn := s.TakeSnap()
	mp := s.MP

	// --- the public getters and the private maps tell the same story
	descs := mp.TxDescs()
	if n := mp.Count(); n != len(descs) || n != len(mp.MiningDescs()) || n != len(mp.TxHashes()) || n != len(sn.Hook.Pool) {
		return fmt.Sprintf("getters/count: Count=%d TxDescs=%d MiningDescs=%d TxHashes=%d pool map=%d", n, len(descs), len(mp.MiningDescs()), len(mp.TxHashes()), len(sn.Hook.Pool))
	}
	for h := range sn.Pool {
		if _, ok := sn.Hook.Pool[h]; !ok {
			return fmt.Sprintf("getters/pool: TxDescs lists %s which is not in the pool map", h.String()[:8])
		}
	}
	pool, unk := s.RefPool(sn)
	if unk != "" {
		return fmt.Sprintf("pool/unknown-tx: pool holds %s which was never submitted", unk)
	}
	verbose := mp.RawMempoolVerbose()
	if len(verbose) != len(descs) {
		return fmt.Sprintf("getters/count: RawMempoolVerbose has %d entries, TxDescs %d", len(verbose), len(descs))
	}
	for _, t := range s.W.Txs {
		id := t.Ref.ID
		_, pooled := pool[id]
		tx, err := mp.FetchTransaction(&id)
		if pooled != (err == nil && tx != nil) {
			return fmt.Sprintf("getters/FetchTransaction: %s pooled=%v but FetchTransaction err=%v", t.Ref.Name, pooled, err)
		}
		if mp.IsTransactionInPool(&id) != pooled {
			return fmt.Sprintf("getters/IsTransactionInPool: %s pooled=%v", t.Ref.Name, pooled)
		}
		if mp.HaveTransaction(&id) != (pooled || sn.Orphans[id]) {
			return fmt.Sprintf("getters/HaveTransaction: %s pooled=%v orphan=%v", t.Ref.Name, pooled, sn.Orphans[id])
		}
		if _, isOrphan := sn.Hook.Orphans[id]; isOrphan != sn.Orphans[id] {
			return fmt.Sprintf("getters/IsOrphanInPool: %s IsOrphanInPool=%v, orphan map=%v", t.Ref.Name, sn.Orphans[id], isOrphan)
		}
		if pooled {
			v, ok := verbose[id.String()]
			if !ok {
				return fmt.Sprintf("getters/RawMempoolVerbose: %s missing", t.Ref.Name)
			}
			if int64(v.Vsize) != t.Ref.VSize() || int64(v.Size) != t.Ref.Size {
				return fmt.Sprintf("HARNESS: reference size of %s (%d/%d) differs from RawMempoolVerbose (%d/%d)", t.Ref.Name, t.Ref.Size, t.Ref.VSize(), v.Size, v.Vsize)
			}
			if sn.Pool[id].Fee != t.Ref.Fee {
				return fmt.Sprintf("desc/fee: descriptor of %s records fee %d, the transaction pays %d", t.Ref.Name, sn.Pool[id].Fee, t.Ref.Fee)
			}
		}
	}

	// --- I1: no outpoint is spent by two pooled transactions
	spenders := pool.Spenders()
	for _, op := range sortedOps(spenders) {
		if l := spenders[op]; len(l) > 1 {
			return fmt.Sprintf("I1/double-spend: %s is spent by pooled %s and %s", s.opName(op), l[0].Name, l[1].Name)
		}
	}

	// --- I2: the spend index is exactly {input -> pooled spender}
	for _, op := range s.W.Ops {
		got, has := sn.Spend[op]
		want := spenders[op]
		switch {
		case len(want) == 0 && has:
			return fmt.Sprintf("I2/stale-spend: CheckSpend(%s) returns %s although no pooled transaction spends it", s.opName(op), s.hashName(got))
		case len(want) > 0 && !has:
			return fmt.Sprintf("I2/missing-spend: CheckSpend(%s) returns nil although pooled %s spends it", s.opName(op), want[0].Name)
		case len(want) > 0 && got != want[0].ID:
			return fmt.Sprintf("I2/wrong-spend: CheckSpend(%s) returns %s, the pooled spender is %s", s.opName(op), s.hashName(got), want[0].Name)
		}
	}
	for _, op := range sortedOps(sn.Hook.Outpoints) {
		h := sn.Hook.Outpoints[op]
		want := spenders[op]
		if len(want) == 0 {
			return fmt.Sprintf("I2/stale-spend: outpoints[%s] = %s although no pooled transaction spends it", s.opName(op), s.hashName(h))
		}
		if want[0].ID != h {
			return fmt.Sprintf("I2/wrong-spend: outpoints[%s] = %s, the pooled spender is %s", s.opName(op), s.hashName(h), want[0].Name)
		}
	}
	for _, op := range sortedOps(spenders) {
		l := spenders[op]
		if _, ok := sn.Hook.Outpoints[op]; !ok {
			return fmt.Sprintf("I2/missing-spend: outpoints has no entry for %s spent by pooled %s", s.opName(op), l[0].Name)
		}
	}

	// --- I3: every input is unspent in the chain or created by a pooled transaction
	tip := s.Tip()
	if tip == nil {
		return "HARNESS: best block is not a lab block"
	}
	utxo, err := s.W.B.Utxos(tip)
	if err != nil {
		return "HARNESS: reference fold of the active chain failed: " + err.Error()
	}
	for _, t := range pool.Sorted() {
		for _, in := range t.Ins {
			if _, ok := utxo[in.Prev]; ok {
				continue
			}
			if par, ok := pool[in.Prev.Hash]; ok && int(in.Prev.Index) < len(par.OutVals) {
				continue
			}
			return fmt.Sprintf("I3/missing-input: pooled %s spends %s which is neither unspent in the chain (tip %s) nor created by a pooled transaction", t.Name, s.opName(in.Prev), tip.Name)
		}
	}

	// --- I4: orphan storage within bounds, parent index consistent
	maxOrph := s.Pol.MaxOrphanTxs
	if maxOrph < 0 {
		maxOrph = 0
	}
	if len(sn.Hook.Orphans) > maxOrph {
		return fmt.Sprintf("I4/orphan-count: %d orphans stored, MaxOrphanTxs=%d", len(sn.Hook.Orphans), s.Pol.MaxOrphanTxs)
	}
	for _, h := range sortedHashes(sn.Hook.Orphans) {
		size := sn.Hook.Orphans[h]
		u, ok := s.W.ByID[h]
		if !ok {
			return "pool/unknown-tx: orphan pool holds a transaction nobody submitted"
		}
		if size > s.Pol.MaxOrphanTxSize || u.Ref.Size > int64(s.Pol.MaxOrphanTxSize) {
			return fmt.Sprintf("I4/orphan-size: orphan %s has %d bytes, MaxOrphanTxSize=%d", u.Ref.Name, u.Ref.Size, s.Pol.MaxOrphanTxSize)
		}
		for _, in := range u.Ref.Ins {
			if _, ok := sn.Hook.OrphansByPrev[in.Prev][h]; !ok {
				return fmt.Sprintf("I4/orphan-index: orphan %s is not indexed under its input %s", u.Ref.Name, s.opName(in.Prev))
			}
		}
	}
	for _, op := range sortedOps(sn.Hook.OrphansByPrev) {
		m := sn.Hook.OrphansByPrev[op]
		if len(m) == 0 {
			return fmt.Sprintf("I4/orphan-index: empty orphansByPrev entry for %s", s.opName(op))
		}
		for _, h := range sortedHashes(m) {
			u, ok := s.W.ByID[h]
			_, stored := sn.Hook.Orphans[h]
			if !ok || !stored {
				return fmt.Sprintf("I4/orphan-index: orphansByPrev[%s] refers to %s which is not in the orphan pool", s.opName(op), s.hashName(h))
			}
			spends := false
			for _, in := range u.Ref.Ins {
				spends = spends || in.Prev == op
			}
			if !spends {
				return fmt.Sprintf("I4/orphan-index: orphansByPrev[%s] lists %s which does not spend it", s.opName(op), u.Ref.Name)
			}
		}
	}
	// --- I5: the pooled set, in dependency order, is a valid next block
	best := s.bc.BestSnapshot()
	if best.Height < s.maxHeight || best.MedianTime.Before(s.maxMTP) {
		s.obs("I5_skipped_clock_moved_back")
	} else {
		order, err := pool.Topo()
		if err != nil {
			return "I5/cycle: " + err.Error()
		}
		var txs []*wire.MsgTx
		var fees int64
		for _, t := range order {
			txs = append(txs, s.W.ByID[t.ID].Msg)
			fees += t.Fee
		}
		blk := lab.Build(s.W.B.Params, tip, lab.BOpt{Name: "template", Tag: 0xC10, Txs: txs, Fees: fees})
		if err := s.bc.CheckConnectBlockTemplate(blk.Block()); err != nil {
			var names []string
			for _, t := range order {
				names = append(names, t.Name)
			}
			return fmt.Sprintf("I5/not-minable: a block on %s holding the pool [%s] in dependency order is refused: %v", tip.Name, strings.Join(names, ","), err)
		}
		if len(order) > 0 {
			s.obs("I5_templates_checked")
		}
	}

	// --- CheckMempoolAcceptance is read-only (I6)
	if probe {
		for i, t := range s.W.Txs {
			_, _ = mp.CheckMempoolAcceptance(s.txs[i])
			after := s.TakeSnap()
			if d := sn.Same(after); d != "" {
				return fmt.Sprintf("I6/CheckMempoolAcceptance: CheckMempoolAcceptance(%s) changed the state: %s", t.Ref.Name, d)
			}
			if after.Hook.PennyTotal != sn.Hook.PennyTotal {
				s.obs("CheckMempoolAcceptance_consumed_free_tx_rate_limit")
				sn.Hook.PennyTotal = after.Hook.PennyTotal
			}
		}
	}
	return ""
}

func (s *Sys) hashName(h chainhash.Hash) string {
	if u, ok := s.W.ByID[h]; ok {
		return u.Ref.Name
	}
	return h.String()[:8]
}

func sortedOps[V any](m map[wire.OutPoint]V) []wire.OutPoint {
	out := make([]wire.OutPoint, 0, len(m))
	for op := range m {
		out = append(out, op)
	}
	sort.Slice(out, func(i, j int) bool {
		if c := strings.Compare(out[i].Hash.String(), out[j].Hash.String()); c != 0 {
			return c < 0
		}
		return out[i].Index < out[j].Index
	})
	return out
}

func sortedHashes[V any](m map[chainhash.Hash]V) []chainhash.Hash {
	out := make([]chainhash.Hash, 0, len(m))
	for h := range m {
		out = append(out, h)
	}
	sort.Slice(out, func(i, j int) bool { return strings.Compare(out[i].String(), out[j].String()) < 0 })
	return out
}
