// Package c10h is the harness shared by the C10 check and its free-running
// -race companion: a fixed base chain with confirmed coins, transaction
// universes built on them, a real mempool.TxPool wired to a real BlockChain
// exactly as server.go does, a real netsync.SyncManager subscribed to the
// chain, and the invariant oracle (which reasons with verif/ref/refpool only).
package c10h

import (
	"bytes"
	"fmt"
	"sort"
	"sync"
	"time"

	"github.com/btcsuite/btcd/address/v2"
	"github.com/btcsuite/btcd/blockchain"
	"github.com/btcsuite/btcd/btcec/v2"
	"github.com/btcsuite/btcd/chaincfg/v2"
	"github.com/btcsuite/btcd/chainhash/v2"
	"github.com/btcsuite/btcd/txscript/v2"
	"github.com/btcsuite/btcd/wire/v2"

	"verif/lab"
	"verif/ref/refpool"
)

// Script kinds of lab outputs.
const (
	KTrue = iota // OP_TRUE (anyone can spend, non-standard)
	KWPKH        // P2WPKH to the fixed lab key
	KPKH         // P2PKH to the fixed lab key
	nKinds
)

// Base is the confirmed part every world shares: genesis, b1 (coinbase), b2, b3
// (funding transaction creating the coins), b4.
type Base struct {
	Params *chaincfg.Params
	Blocks []*lab.Blk // b1..b4
	Tip    *lab.Blk
	// Coins by name: K0..K5 are OP_TRUE coins, W0..W4 P2WPKH, P0..P1 P2PKH.
	Coins map[string]wire.OutPoint

	key      *btcec.PrivateKey
	scripts  [nKinds][]byte
	outVal   map[wire.OutPoint]int64
	outKind  map[wire.OutPoint]int
	mu       sync.Mutex
	blocks   map[string]*lab.Blk
	byHash   map[chainhash.Hash]*lab.Blk
	folds    map[chainhash.Hash]lab.UtxoSet
	pool     chan *lab.Chain
	poolOnce sync.Once
}

const coin = int64(100_000_000)

// NewBase builds the base chain (pure data; no btcd chain instance yet).
func NewBase() *Base {
	b := &Base{Params: lab.RegtestLike(), Coins: map[string]wire.OutPoint{},
		outVal: map[wire.OutPoint]int64{}, outKind: map[wire.OutPoint]int{},
		blocks: map[string]*lab.Blk{}, byHash: map[chainhash.Hash]*lab.Blk{}, folds: map[chainhash.Hash]lab.UtxoSet{}}
	var kb [32]byte
	for i := range kb {
		kb[i] = byte(0x11 + i)
	}
	b.key, _ = btcec.PrivKeyFromBytes(kb[:])
	h160 := address.Hash160(b.key.PubKey().SerializeCompressed())
	b.scripts[KTrue] = lab.OpTrue
	b.scripts[KWPKH] = append([]byte{0x00, 0x14}, h160...)
	b.scripts[KPKH] = append(append([]byte{0x76, 0xa9, 0x14}, h160...), 0x88, 0xac)

	g := lab.Genesis(b.Params)
	// all lab blocks are younger than 24 h (netsync only updates the pool when the
	// chain is "current") and not in the future of the fixed lab clock.
	b1 := lab.Build(b.Params, g, lab.BOpt{Name: "b1", Tag: 1, Time: lab.Now.Add(-2 * time.Hour)})
	b2 := lab.Build(b.Params, b1, lab.BOpt{Name: "b2", Tag: 2})
	cb := b1.Msg.Transactions[0]
	fund := wire.NewMsgTx(1)
	fund.AddTxIn(&wire.TxIn{PreviousOutPoint: wire.OutPoint{Hash: lab.TxID(cb), Index: 0}, Sequence: 0xffffffff})
	type cdef struct {
		name string
		kind int
		val  int64
	}
	defs := []cdef{
		// K1 is large so that a free transaction spending it has "high priority"
		{"K0", KTrue, 5 * coin}, {"K1", KTrue, 20 * coin}, {"K2", KTrue, 3 * coin}, {"K3", KTrue, 3 * coin},
		{"K4", KTrue, 3 * coin}, {"K5", KTrue, 3 * coin},
		{"W0", KWPKH, 2 * coin}, {"W1", KWPKH, 2 * coin}, {"W2", KWPKH, 2 * coin},
		{"P0", KPKH, 2 * coin}, {"P1", KPKH, 2 * coin},
		{"W3", KWPKH, coin}, {"W4", KWPKH, coin},
	}
	var sum int64
	for _, d := range defs {
		fund.AddTxOut(&wire.TxOut{Value: d.val, PkScript: b.scripts[d.kind]})
		sum += d.val
	}
	if sum > cb.TxOut[0].Value {
		panic("funding exceeds the coinbase")
	}
	fid := lab.TxID(fund)
	for i, d := range defs {
		op := wire.OutPoint{Hash: fid, Index: uint32(i)}
		b.Coins[d.name] = op
		b.outVal[op] = d.val
		b.outKind[op] = d.kind
	}
	b3 := lab.Build(b.Params, b2, lab.BOpt{Name: "b3", Tag: 3, Txs: []*wire.MsgTx{fund}})
	b4 := lab.Build(b.Params, b3, lab.BOpt{Name: "b4", Tag: 4})
	b.Blocks = []*lab.Blk{b1, b2, b3, b4}
	b.Tip = b4
	b.byHash[g.Hash] = g
	for _, k := range b.Blocks {
		b.byHash[k.Hash] = k
	}
	return b
}

// NewChain creates a fresh real chain instance holding exactly the base blocks.
func (b *Base) NewChain() *lab.Chain {
	c, err := lab.NewChain(lab.CloneParams(b.Params), lab.ChainOpts{CacheSize: 1 << 20})
	if err != nil {
		panic(err)
	}
	for _, k := range b.Blocks {
		if _, orphan, err := c.BC.ProcessBlock(k.Block(), blockchain.BFNone); err != nil || orphan {
			panic(fmt.Sprintf("base block %s refused: %v orphan=%v", k.Name, err, orphan))
		}
	}
	return c
}

// borrow hands out a base chain that is only ever queried (never extended); give
// it back with giveBack.  The set is created lazily, sized for the worker count.
func (b *Base) borrow() *lab.Chain {
	select {
	case c := <-b.pool:
		return c
	default:
		return b.NewChain()
	}
}

func (b *Base) giveBack(c *lab.Chain) {
	select {
	case b.pool <- c:
	default:
		c.Destroy()
	}
}

// RegisterCoin names an output of a lab block transaction (e.g. a coinbase) so
// that universe transactions can spend it.
func (b *Base) RegisterCoin(name string, tx *wire.MsgTx, idx uint32, kind int) {
	op := wire.OutPoint{Hash: lab.TxID(tx), Index: idx}
	b.mu.Lock()
	b.Coins[name] = op
	b.outVal[op] = tx.TxOut[idx].Value
	b.outKind[op] = kind
	b.mu.Unlock()
}

// InitPool prepares the channel of reusable read-only base chains.
func (b *Base) InitPool(n int) { b.pool = make(chan *lab.Chain, n) }

// DrainPool destroys the reusable chains.
func (b *Base) DrainPool() {
	for {
		select {
		case c := <-b.pool:
			c.Destroy()
		default:
			return
		}
	}
}

// Block builds (or returns the cached) block on parent containing txs.
func (b *Base) Block(parent *lab.Blk, tag uint32, txs []*UTx) *lab.Blk {
	key := fmt.Sprintf("%s|%d", parent.Hash, tag)
	var fees int64
	var msgs []*wire.MsgTx
	for _, t := range txs {
		key += "|" + t.Ref.Name
		fees += t.Ref.Fee
		msgs = append(msgs, t.Msg)
	}
	b.mu.Lock()
	defer b.mu.Unlock()
	if k, ok := b.blocks[key]; ok {
		return k
	}
	name := fmt.Sprintf("h%d#%d[", parent.Height+1, tag)
	for i, t := range txs {
		if i > 0 {
			name += ","
		}
		name += t.Ref.Name
	}
	name += "]"
	k := lab.Build(b.Params, parent, lab.BOpt{Name: name, Tag: tag, Txs: msgs, Fees: fees})
	b.blocks[key] = k
	b.byHash[k.Hash] = k
	return k
}

// ByHash resolves a lab block.
func (b *Base) ByHash(h chainhash.Hash) *lab.Blk {
	b.mu.Lock()
	defer b.mu.Unlock()
	return b.byHash[h]
}

// Utxos is the reference UTXO set (naive fold) of the chain ending at tip.
func (b *Base) Utxos(tip *lab.Blk) (lab.UtxoSet, error) {
	b.mu.Lock()
	if u, ok := b.folds[tip.Hash]; ok {
		b.mu.Unlock()
		return u, nil
	}
	b.mu.Unlock()
	r, err := lab.Fold(tip.Chain())
	if err != nil {
		return nil, err
	}
	b.mu.Lock()
	b.folds[tip.Hash] = r.Utxos
	b.mu.Unlock()
	return r.Utxos, nil
}

// ---------------------------------------------------------------------------
// universes

// UTx is one universe transaction.
type UTx struct {
	Ref *refpool.Tx
	Msg *wire.MsgTx
	Idx int
}

// World is a base plus a finite universe of pre-built transactions.
type World struct {
	Name string
	B    *Base
	Txs  []*UTx
	ByID map[chainhash.Hash]*UTx
	By   map[string]*UTx
	// Ops is the outpoint universe: all coins, all outputs of universe
	// transactions, the base coinbase and one outpoint nobody creates.
	Ops []wire.OutPoint
	// MineSets / ReorgSets are the transaction lists block events may confirm.
	MineSets  [][]string
	ReorgSets [][]string
	// Skew moves that many satoshi from the first to the last output of the
	// transactions added next (to make otherwise identical transactions distinct).
	Skew int64
	// SmallRest, when > 0, gives every output but the first that value and the
	// first output the remainder (for long chains).
	SmallRest int64
	// FirstOutKind1, when > 0, is 1 + the script kind of output 0 of the
	// transactions added next (the other outputs use the kind given to Add).
	FirstOutKind1 int
	// TxVersion, when != 0, is the version of the transactions added next
	// (default 1; BIP68 relative locks apply from version 2).
	TxVersion int32
	// TxLockTime is the lock time of the transactions added next
	TxLockTime uint32
}

// NewWorld starts an empty universe.
func NewWorld(b *Base, name string) *World {
	return &World{Name: name, B: b, ByID: map[chainhash.Hash]*UTx{}, By: map[string]*UTx{}}
}

// I names an input: a coin name ("K0") or "<tx>:<index>".
type I struct {
	From string
	Seq  uint32
}

// Final / RBF are the two interesting sequence numbers; 0xfffffffe is the
// largest non-final value that does NOT signal.
const (
	Final  = 0xffffffff
	NoRBF  = 0xfffffffe
	RBFMax = 0xfffffffd
)

func (w *World) resolve(from string) wire.OutPoint {
	if op, ok := w.B.Coins[from]; ok {
		return op
	}
	var name string
	var idx uint32
	for i := len(from) - 1; i >= 0; i-- {
		if from[i] == ':' {
			name = from[:i]
			fmt.Sscanf(from[i+1:], "%d", &idx)
			break
		}
	}
	t, ok := w.By[name]
	if !ok {
		panic("unknown input source " + from)
	}
	return t.Ref.Out(idx)
}

// Add builds, signs and registers a transaction spending ins into nOut equal
// outputs of script kind outKind, paying exactly fee.
func (w *World) Add(name string, ins []I, nOut int, outKind int, fee int64) *UTx {
	b := w.B
	tx := wire.NewMsgTx(1)
	if w.TxVersion != 0 {
		tx.Version = w.TxVersion
	}
	tx.LockTime = w.TxLockTime
	ref := &refpool.Tx{Name: name, Fee: fee}
	var total int64
	prevs := map[wire.OutPoint]*wire.TxOut{}
	for _, in := range ins {
		op := w.resolve(in.From)
		b.mu.Lock()
		v, ok := b.outVal[op]
		k := b.outKind[op]
		b.mu.Unlock()
		if !ok {
			panic("input value unknown: " + in.From)
		}
		total += v
		tx.AddTxIn(&wire.TxIn{PreviousOutPoint: op, Sequence: in.Seq})
		ref.Ins = append(ref.Ins, refpool.In{Prev: op, Seq: in.Seq})
		prevs[op] = &wire.TxOut{Value: v, PkScript: b.scripts[k]}
	}
	rest := total - fee
	if rest < int64(nOut) {
		panic("fee exceeds inputs in " + name)
	}
	each := rest / int64(nOut)
	var kinds []int
	for i := 0; i < nOut; i++ {
		v := each
		if i == nOut-1 {
			v = rest - each*int64(nOut-1)
		}
		if w.SmallRest > 0 {
			v = w.SmallRest
			if i == 0 {
				v = rest - w.SmallRest*int64(nOut-1)
			}
		}
		if nOut >= 2 && i == 0 {
			v -= w.Skew
		}
		if nOut >= 2 && i == nOut-1 {
			v += w.Skew
		}
		kind := outKind
		if i == 0 && w.FirstOutKind1 > 0 {
			kind = w.FirstOutKind1 - 1
		}
		kinds = append(kinds, kind)
		tx.AddTxOut(&wire.TxOut{Value: v, PkScript: b.scripts[kind]})
		ref.OutVals = append(ref.OutVals, v)
	}
	// builder-side signing (txscript helpers are used to construct inputs only)
	fetch := txscript.NewMultiPrevOutFetcher(prevs)
	for i, in := range tx.TxIn {
		po := prevs[in.PreviousOutPoint]
		switch {
		case bytes.Equal(po.PkScript, b.scripts[KWPKH]):
			sh := txscript.NewTxSigHashes(tx, fetch)
			wit, err := txscript.WitnessSignature(tx, sh, i, po.Value, po.PkScript, txscript.SigHashAll, b.key, true)
			if err != nil {
				panic(err)
			}
			in.Witness = wit
		case bytes.Equal(po.PkScript, b.scripts[KPKH]):
			ss, err := txscript.SignatureScript(tx, i, po.PkScript, txscript.SigHashAll, b.key, true)
			if err != nil {
				panic(err)
			}
			in.SignatureScript = ss
		}
	}
	ref.ID = lab.TxID(tx)
	var full, strip bytes.Buffer
	tx.Serialize(&full)
	tx.SerializeNoWitness(&strip)
	ref.Size, ref.Strip = int64(full.Len()), int64(strip.Len())
	u := &UTx{Ref: ref, Msg: tx, Idx: len(w.Txs)}
	if _, dup := w.ByID[ref.ID]; dup {
		panic("duplicate universe transaction " + name)
	}
	w.Txs = append(w.Txs, u)
	w.ByID[ref.ID] = u
	w.By[name] = u
	b.mu.Lock()
	for i, v := range ref.OutVals {
		b.outVal[ref.Out(uint32(i))] = v
		b.outKind[ref.Out(uint32(i))] = kinds[i]
	}
	b.mu.Unlock()
	return u
}

// Seal computes the outpoint universe.
func (w *World) Seal() *World {
	seen := map[wire.OutPoint]bool{}
	add := func(op wire.OutPoint) {
		if !seen[op] {
			seen[op] = true
			w.Ops = append(w.Ops, op)
		}
	}
	names := make([]string, 0, len(w.B.Coins))
	for n := range w.B.Coins {
		names = append(names, n)
	}
	sort.Strings(names)
	for _, n := range names {
		add(w.B.Coins[n])
	}
	for _, t := range w.Txs {
		for _, in := range t.Ref.Ins {
			add(in.Prev)
		}
		for i := range t.Ref.OutVals {
			add(t.Ref.Out(uint32(i)))
		}
	}
	add(wire.OutPoint{Hash: lab.TxID(w.B.Blocks[0].Msg.Transactions[0]), Index: 0})
	add(wire.OutPoint{Hash: chainhash.Hash{0xee}, Index: 7})
	return w
}

// Pick returns universe transactions by name.
func (w *World) Pick(names []string) []*UTx {
	var out []*UTx
	for _, n := range names {
		out = append(out, w.By[n])
	}
	return out
}

// MainWorld is the BFS universe over anyone-can-spend coins (needs
// AcceptNonStd): a chain A->B->C, a fan B,D under A, explicit and inherited RBF
// signalling, replacement candidates exactly at / one below thresholds, a
// non-signalling conflict pair (one of them free), and an orphan that conflicts
// with two different families.
func MainWorld(b *Base, thorough bool) *World {
	w := NewWorld(b, "main")
	const sz = 71                                                  // 1-in 2-out OP_TRUE transaction
	w.Add("A", []I{{"K0", RBFMax}}, 2, KTrue, 2000)                // explicit signalling
	w.Add("B", []I{{"A:0", Final}}, 2, KTrue, 1000)                // inherits from A while A is unconfirmed
	w.Add("C", []I{{"B:0", Final}}, 2, KTrue, 500)                 // grandchild
	w.Add("D", []I{{"A:1", Final}}, 3, KTrue, 600)                 // fan sibling, 81 bytes
	w.Add("A1", []I{{"K0", Final}}, 2, KTrue, 4100+sz)             // exactly the threshold for evicting {A,B,C,D}; does not signal itself
	w.Add("A2", []I{{"K0", RBFMax}}, 2, KTrue, 3000+sz-1)          // one satoshi below the threshold for {A,B}; fine for {A} and {A,D}
	w.Add("E", []I{{"K1", Final}}, 2, KTrue, 0)                    // free, non-signalling
	w.Add("E1", []I{{"K1", NoRBF}}, 2, KTrue, 50000)               // conflicts with E, never allowed to replace it
	w.Add("B1", []I{{"A:0", Final}}, 2, KTrue, 1500+sz)            // exactly the threshold for {B,C}; B only signals through A
	w.Add("O", []I{{"K1", Final}, {"A:1", Final}}, 2, KTrue, 3000) // conflicts with E/E1 (K1) and D (A:1); orphan while A is missing
	for _, t := range w.Txs {
		want := int64(sz)
		switch t.Ref.Name {
		case "D":
			want = 81
		case "O":
			want = 112
		}
		if t.Ref.Size != want || t.Ref.VSize() != want {
			panic(fmt.Sprintf("size of %s is %d, expected %d", t.Ref.Name, t.Ref.Size, want))
		}
	}
	// block events beyond MineEmpty / MinePool: a block confirming A (pooled or not:
	// "also mined"; promotes orphans of A), one confirming A1 (conflicts with
	// whatever the pool built on K0), in the thorough tier one confirming a chain
	w.MineSets = [][]string{{"A"}, {"A1"}}
	if thorough {
		w.MineSets = append(w.MineSets, []string{"E", "A", "B"})
	}
	w.ReorgSets = [][]string{{}, {"A1"}}
	return w.Seal()
}

// RaceWorld is MainWorld plus four free transactions on coins of their own: probed
// with CheckMempoolAcceptance they always reach the free-transaction rate limiter.
func RaceWorld(b *Base) *World {
	w := MainWorld(b, false)
	w.Name = "race"
	for i, c := range []string{"K2", "K3", "K4", "K5"} {
		w.Add(fmt.Sprintf("F%d", i), []I{{c, Final}}, 2, KTrue, 0)
	}
	w.Ops = nil
	return w.Seal()
}

// StdWorld is the standard-policy universe: signed P2WPKH / P2PKH spends, an RBF
// pair with an inherited-signalling child, a non-signalling pair and two
// transactions that are non-standard (anyone-can-spend input / output).
func StdWorld(b *Base) *World {
	w := NewWorld(b, "std")
	w.Add("SA", []I{{"W0", RBFMax}}, 2, KWPKH, 3000)
	w.Add("SB", []I{{"SA:0", Final}}, 1, KWPKH, 2000)
	// SA1 sits exactly on the threshold for evicting {SA,SB}: 5000 + its own vsize
	sa1ins := []I{{"W0", Final}}
	sa1 := w.Add("SA1", sa1ins, 2, KPKH, 5000+150)
	for i := 0; i < 6 && sa1.Ref.Fee != 5000+sa1.Ref.VSize(); i++ {
		sa1 = w.RebuildFee("SA1", sa1ins, 2, KPKH, 5000+sa1.Ref.VSize())
	}
	if sa1.Ref.Fee != 5000+sa1.Ref.VSize() {
		panic("cannot place SA1 on its threshold")
	}
	w.Add("SE", []I{{"P0", Final}}, 2, KPKH, 4000)
	w.Add("SE1", []I{{"P0", NoRBF}}, 1, KWPKH, 90000)
	w.Add("SO", []I{{"SA:1", Final}, {"W1", Final}}, 2, KWPKH, 5000)
	w.Add("NS", []I{{"K4", Final}}, 2, KWPKH, 5000) // non-standard input script
	// NT is non-standard (its second output is anyone-can-spend) but perfectly
	// minable; its first output is P2WPKH, so ST, which spends it, is standard.  A
	// block may confirm NT; when that block is disconnected NT cannot go back into
	// a standard-policy pool and ST has to leave with it.
	w.FirstOutKind1 = KWPKH + 1
	w.Add("NT", []I{{"W2", Final}}, 2, KTrue, 5000)
	w.FirstOutKind1 = 0
	w.Add("ST", []I{{"NT:0", Final}}, 1, KWPKH, 3000)
	w.MineSets = [][]string{{"SA"}, {"NT"}}
	w.ReorgSets = [][]string{{}}
	return w.Seal()
}

// WitWorld is a standard-policy universe in which serialized size and virtual
// size differ a lot: SW spends two P2WPKH coins into one output (about 340
// bytes, 178 vbytes).  SW1 conflicts with it on one coin, is larger in vbytes
// (four outputs) and pays SW's fee plus its own relay fee: the absolute-fee rule
// is met, but its fee rate lies between SW's fee per *byte* and SW's fee per
// *vbyte*, so it must be refused.  SW2 has SW1's shape and a fee rate strictly
// above SW's: it must be accepted.  SC spends SW's output (descendant with
// witness data, inherits signalling).
func WitWorld(b *Base) *World {
	w := NewWorld(b, "wit")
	sw := w.Add("SW", []I{{"W3", RBFMax}, {"W4", RBFMax}}, 1, KWPKH, 20000)
	sw1 := w.Add("SW1", []I{{"W3", Final}}, 4, KWPKH, 20000+320)
	sw2 := w.Add("SW2", []I{{"W3", Final}}, 4, KWPKH, 26000)
	w.Add("SC", []I{{"SW:0", Final}}, 1, KWPKH, 1500)
	r, r1, r2 := sw.Ref, sw1.Ref, sw2.Ref
	if r.Size*10 < r.VSize()*17 {
		panic(fmt.Sprintf("SW: size %d vsize %d: not witness-heavy", r.Size, r.VSize()))
	}
	if r1.Fee < r.Fee+r1.VSize() || // absolute rule met (relay fee 1000/kvB)
		r1.Fee*r.VSize() >= r.Fee*r1.VSize() || // rate by vsize not higher
		r1.Fee*r.Size <= r.Fee*r1.VSize() { // but higher than SW's fee per serialized byte
		panic(fmt.Sprintf("SW1 is not between the two rates: SW %d/%d/%d SW1 %d/%d", r.Fee, r.VSize(), r.Size, r1.Fee, r1.VSize()))
	}
	if r2.Fee*r.VSize() <= r.Fee*r2.VSize() {
		panic("SW2 does not beat SW's fee rate")
	}
	w.MineSets = [][]string{{"SW"}}
	w.ReorgSets = [][]string{{}}
	return w.Seal()
}

// LockWorld: version-2 transactions with BIP68 relative locks on outputs of an
// unconfirmed parent.  LP is the parent; LC spends LP:0 with a 1-block relative
// lock (it cannot share a block with LP, so it must stay out of the pool while
// LP is unconfirmed and may enter once LP is mined); LD spends LP:1 with a
// zero lock (may share a block with its parent); LE spends LD:0 with a 2-block
// lock.  The "next block" invariant decides: whatever the pool admits must
// connect as one block.
func LockWorld(b *Base) *World {
	w := NewWorld(b, "locks")
	w.TxVersion = 2
	w.Add("LP", []I{{"K2", Final}}, 2, KTrue, 3000)
	w.Add("LC", []I{{"LP:0", 1}}, 2, KTrue, 2000)
	w.Add("LD", []I{{"LP:1", 0}}, 2, KTrue, 2500)
	w.Add("LE", []I{{"LD:0", 2}}, 2, KTrue, 1500)
	w.TxVersion = 0
	// LT: a height lock time far in the future with a non-final sequence number:
	// not final in the next block (nor any block of the horizon); LF carries the
	// same lock time but final sequence numbers, which disables it
	w.TxLockTime = 400_000
	w.Add("LT", []I{{"K3", NoRBF}}, 2, KTrue, 2000)
	w.Add("LF", []I{{"K4", Final}}, 2, KTrue, 2000)
	w.TxLockTime = 0
	w.MineSets = [][]string{{"LP"}, {"LP", "LD"}}
	w.ReorgSets = [][]string{{}}
	return w.Seal()
}

// RebuildFee replaces universe transaction name by one with the same shape and
// the given fee (used to put a transaction exactly on a threshold that depends on
// its own signed size).
func (w *World) RebuildFee(name string, ins []I, nOut, outKind int, fee int64) *UTx {
	old := w.By[name]
	delete(w.ByID, old.Ref.ID)
	delete(w.By, name)
	w.Txs = append(w.Txs[:old.Idx], w.Txs[old.Idx+1:]...)
	for i, t := range w.Txs {
		t.Idx = i
	}
	return w.Add(name, ins, nOut, outKind, fee)
}
