package c10h

import (
	"sync"
	"testing"
	"time"
)

func TestBenchChain(t *testing.T) {
	b := NewBase()
	t0 := time.Now()
	var wg sync.WaitGroup
	for g := 0; g < 8; g++ {
		wg.Add(1)
		go func() {
			defer wg.Done()
			for i := 0; i < 100; i++ {
				c := b.NewChain()
				c.Destroy()
			}
		}()
	}
	wg.Wait()
	t.Logf("800 NewChain+Destroy on 8 goroutines: %v", time.Since(t0))
}
