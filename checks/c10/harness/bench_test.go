package c10h

import (
	"os"
	"sync"
	"testing"
	"time"
)

func TestBenchChain(t *testing.T) {
	b := NewBase()
	if os.Getenv("BALLAST") != "" {
		ballast = make([]byte, 1<<30)
	}
	t0 := time.Now()
	var wg sync.WaitGroup
	for g := 0; g < 8; g++ {
		wg.Add(1)
		go func() {
			defer wg.Done()
			for i := 0; i < 100; i++ {
				c := b.NewChain()
				c.Destroy()
			}
		}()
	}
	wg.Wait()
	t.Logf("800 NewChain+Destroy on 8 goroutines: %v", time.Since(t0))
}

var ballast []byte
