// C10 — the mempool is always a conflict-free, minable, self-consistent set.
//
// Explicit-state BFS (explore.go, same semantics as verif/engine/bfs) over REAL
// objects: a real blockchain.BlockChain (ffldb on
// /dev/shm), a real mempool.TxPool wired to it exactly as server.go does and a real
// netsync.SyncManager (constructed, never started) whose
// handleBlockchainNotification is subscribed to the chain, so block connects /
// disconnects reach the pool through btcd's own code.  A state is the shortest
// event history reaching it; after every transition the invariants I1-I7 are
// evaluated with the naive reference model verif/ref/refpool.
//
// Besides the BFS (one per policy) there are three exhaustive grids outside it:
// replacement thresholds (exactly at / one satoshi around every fee and fee-rate
// threshold, all signalling modes), the 100/101-eviction limit, and a free-running
// -race pass (separate binary).
package main

import (
	"fmt"
	"os"
	"os/exec"
	"runtime"
	"runtime/debug"
	"runtime/pprof"
	"sort"
	"strings"
	"sync"
	"time"

	"verif/engine/ev"
	"verif/ref/refpool"

	c10h "verif/checks/c10/harness"
)

type replay struct {
	Scenario string    `json:"scenario"` // "bfs", "grid", "evict-limit", "coinbase-reorg", "race"
	World    string    `json:"world,omitempty"`
	Policy   string    `json:"policy,omitempty"`
	Hist     []string  `json:"hist,omitempty"`
	Trace    []string  `json:"trace,omitempty"`
	Grid     *gridCase `json:"grid,omitempty"`
	N        int       `json:"n,omitempty"`
	Shape    string    `json:"shape,omitempty"`
	Report   string    `json:"report,omitempty"`
}

var (
	base   *c10h.Base
	worlds = map[string]*c10h.World{}
	obsMu  sync.Mutex
	obsAll = map[string]int{}
)

var stuckNotes []string

func mergeObs(s *c10h.Sys) {
	obsMu.Lock()
	if s.StuckNote != "" && len(stuckNotes) < 3 {
		stuckNotes = append(stuckNotes, s.StuckNote)
	}
	for k, v := range s.Obs {
		obsAll[k] += v
	}
	obsMu.Unlock()
}

// runHist replays a history on a fresh system and returns the verdict and the
// canonical state after every event.
func runHist(w *c10h.World, pol c10h.Policy, hist []int) (string, []string) {
	s := c10h.NewSys(w, pol, false)
	defer s.Close()
	for _, e := range hist {
		s.Apply(e)
	}
	return s.Check(), s.Trace
}

func classOf(what string) string {
	cls := what
	if i := strings.Index(what, ":"); i > 0 {
		cls = what[:i]
	}
	// the reason a pool is not minable is part of the identity of the finding
	if cls == "I5/not-minable" && strings.Contains(what, "sequence locks are not met") {
		cls += "/sequence-locks"
	}
	return cls
}

// confirm re-runs a failing history.  btcd's pool takes a few decisions in Go map
// iteration order (which orphan is tried/evicted first), so a history does not
// always determine the state: a verdict that flips between replays that went
// through the SAME states is a broken harness; one that depends on the path is
// reported with its reproduction rate.
func confirm(r *ev.Run, w *c10h.World, pol c10h.Policy, hist []int, what string) (string, []string, bool) {
	cls := classOf(what)
	same := 0
	var trace []string
	type run struct{ cls, trace string }
	var runs []run
	for i := 0; i < 3; i++ {
		g, tr := runHist(w, pol, hist)
		runs = append(runs, run{classOf(g), strings.Join(tr, "\n")})
		if classOf(g) == cls {
			same++
			trace = tr
		}
	}
	if same == 3 {
		return what, trace, true
	}
	for i := 0; i < 60; i++ {
		g, tr := runHist(w, pol, hist)
		runs = append(runs, run{classOf(g), strings.Join(tr, "\n")})
		if classOf(g) == cls {
			same++
			trace = tr
		}
	}
	byTrace := map[string]string{}
	for _, x := range runs {
		if c, ok := byTrace[x.trace]; ok && c != x.cls {
			r.Broken("verdict flips between replays that went through identical states: policy=%s hist=%v (%q vs %q)", pol.Name, w.HistNames(hist), c, x.cls)
		}
		byTrace[x.trace] = x.cls
	}
	if same == 0 {
		r.Broken("violation did not reproduce in 63 replays: policy=%s hist=%v what=%s", pol.Name, w.HistNames(hist), what)
	}
	return fmt.Sprintf("%s [reproduces in %d of %d replays: the outcome depends on Go map iteration order inside the pool]", what, same, len(runs)), trace, true
}

func lastKind(w *c10h.World, hist []int) string {
	if len(hist) == 0 {
		return "init"
	}
	n := w.EvName(hist[len(hist)-1])
	if i := strings.IndexAny(n, ":["); i > 0 {
		return n[:i]
	}
	return n
}

type bfsCfg struct {
	world    string
	policy   string
	depth    int
	maxBlock int
}

func runBFS(r *ev.Run, c bfsCfg, out map[string]interface{}) bool {
	w := worlds[c.world]
	pol := c10h.Policies[c.policy]
	c10h.MaxBlockEvents = c.maxBlock
	res := explore(exploreModel{
		New:      func() *c10h.Sys { return c10h.NewSys(w, pol, false) },
		MaxDepth: c.depth,
		Stop:     r.Expired,
		OnCanon:  func(k string) { r.Nontrivial(c.world + "/" + c.policy + "/" + k) },
		Free:     func(s *c10h.Sys) { mergeObs(s); s.Close() },
	})
	r.State(res.States)
	r.Trans(res.Transitions)
	r.Trace(res.Transitions)
	r.Eval(res.Transitions)
	complete := res.Complete
	out[fmt.Sprintf("%s/%s/depth%d/blocks%d", c.world, c.policy, c.depth, c.maxBlock)] = map[string]interface{}{"depth": c.depth, "max_block_events": c.maxBlock, "states": res.States,
		"transitions": res.Transitions, "max_depth_reached": res.MaxDepth, "all_histories_up_to_depth_done": complete,
		"successors_on_forked_pools": res.Forked, "successors_by_full_replay": res.Replayed}
	if !complete {
		r.Cap(fmt.Sprintf("%s/%s: time box hit after %d states / %d transitions (depth %d of %d)", c.world, c.policy, res.States, res.Transitions, res.MaxDepth, c.depth))
	}
	for _, h := range res.SampleHists {
		r.Sample(map[string]interface{}{"world": c.world, "policy": c.policy, "hist": w.HistNames(h)})
	}
	for _, v := range res.Violations {
		if strings.HasPrefix(v.What, "HARNESS") {
			r.Broken("%s/%s hist=%v: %s", c.world, c.policy, w.HistNames(v.Hist), v.What)
		}
		what, trace, _ := confirm(r, w, pol, v.Hist, v.What)
		key := classOf(v.What) + "@" + lastKind(w, v.Hist)
		r.Violation(key, fmt.Sprintf("world=%s policy=%s hist=%s: %s", c.world, c.policy, strings.Join(w.HistNames(v.Hist), " "), what),
			replay{Scenario: "bfs", World: c.world, Policy: c.policy, Hist: w.HistNames(v.Hist), Trace: trace})
	}
	return complete
}

// ---------------------------------------------------------------------------
// replacement threshold grid

type gridCase struct {
	Family  string `json:"family"`  // which descendants of A are pooled
	Profile string `json:"profile"` // fee profile of the pooled family
	Target  string `json:"target"`  // "A" (R spends K0) or "B" (R spends A:0)
	SeqA    uint32 `json:"seq_a"`   // nSequence of A's input
	SeqB    uint32 `json:"seq_b"`   // nSequence of B's input
	NOut    int    `json:"n_out"`   // outputs of R
	Extra   bool   `json:"extra"`   // R has a second (confirmed) input
	Fee     int64  `json:"fee"`
	Policy  string `json:"policy"`
	Call    string `json:"call"` // "PT+o" or "MAT"
}

var families = map[string][]string{
	"A": {"A"}, "AB": {"A", "B"}, "ABC": {"A", "B", "C"}, "ABD": {"A", "B", "D"}, "ABCD": {"A", "B", "C", "D"},
}
var familyOrder = []string{"A", "AB", "ABC", "ABD", "ABCD"}

// profiles: fees of A,B,C,D.  "flat": low rates, the absolute-fee rule binds.
// "hotchild": a cheap parent with an expensive small child, the fee-rate rule binds
// for a large replacement.  "hotparent": expensive parent.
var profiles = map[string][4]int64{
	"flat":      {2000, 1000, 500, 600},
	"hotchild":  {300, 71000, 400, 100},
	"hotparent": {142000, 100, 100, 100},
}
var profileOrder = []string{"flat", "hotchild", "hotparent"}

func gridWorld(g gridCase, fee int64) (*c10h.World, *c10h.UTx) {
	w := c10h.NewWorld(base, "grid")
	f := profiles[g.Profile]
	w.Add("A", []c10h.I{{From: "K0", Seq: g.SeqA}}, 2, c10h.KTrue, f[0])
	w.Add("B", []c10h.I{{From: "A:0", Seq: g.SeqB}}, 2, c10h.KTrue, f[1])
	w.Add("C", []c10h.I{{From: "B:0", Seq: c10h.Final}}, 2, c10h.KTrue, f[2])
	w.Add("D", []c10h.I{{From: "A:1", Seq: c10h.Final}}, 3, c10h.KTrue, f[3])
	ins := []c10h.I{{From: "K0", Seq: c10h.Final}}
	if g.Target == "B" {
		ins = []c10h.I{{From: "A:0", Seq: c10h.Final}}
	}
	if g.Extra {
		ins = append(ins, c10h.I{From: "K2", Seq: c10h.Final})
	}
	w.Skew = 1
	rt := w.Add("R", ins, g.NOut, c10h.KTrue, fee)
	return w.Seal(), rt
}

// thresholds computes, with the reference model only, the smallest fee satisfying
// the absolute-fee clause and the smallest fee satisfying the fee-rate clause.
func thresholds(w *c10h.World, pre []string, rt *refpool.Tx) (abs, rate int64, evicted int) {
	p := refpool.Pool{}
	for _, n := range pre {
		p[w.By[n].Ref.ID] = w.By[n].Ref
	}
	ev := p.Evicted(rt)
	var sum int64
	for _, e := range ev {
		sum += e.Fee
		// smallest fee with fee/vs > e.Fee/e.vs  <=>  fee > e.Fee*vs/e.vs
		need := e.Fee*rt.VSize()/e.VSize() + 1
		if need > rate {
			rate = need
		}
	}
	return sum + refpool.MinRelayFee(rt.VSize(), c10h.MinRelayPerKB), rate, len(ev)
}

func runGridCase(g gridCase) (verdict string, accepted bool, harness string) {
	w, rt := gridWorld(g, g.Fee)
	pol := c10h.Policies[g.Policy]
	s := c10h.NewSys(w, pol, false)
	defer func() { mergeObs(s); s.Close() }()
	for _, n := range families[g.Family] {
		e := c10h.Ev(c10h.KPTNoOrphan, w.By[n].Idx)
		s.Apply(e)
		if v := s.Check(); v != "" {
			return "", false, fmt.Sprintf("building the pre-state: after %s: %s", w.EvName(e), v)
		}
		id := w.By[n].Ref.ID
		if !s.MP.IsTransactionInPool(&id) {
			return "", false, "pre-state transaction " + n + " was not accepted"
		}
	}
	kind := c10h.KPTOrphan
	if g.Call == "MAT" {
		kind = c10h.KMAT
	}
	s.Apply(c10h.Ev(kind, rt.Idx))
	id := rt.Ref.ID
	return s.Check(), s.MP.IsTransactionInPool(&id), ""
}

func gridSweep(r *ev.Run) {
	var jobs []gridCase
	seqs := []uint32{c10h.RBFMax, c10h.NoRBF, c10h.Final, 0}
	for _, fam := range familyOrder {
		for _, prof := range profileOrder {
			for _, target := range []string{"A", "B"} {
				if target == "B" && fam == "A" {
					continue
				}
				for _, seqA := range seqs {
					for _, seqB := range []uint32{c10h.Final, c10h.RBFMax} {
						if target == "A" && seqB != c10h.Final {
							continue
						}
						for _, shape := range []struct {
							n     int
							extra bool
						}{{2, false}, {6, false}, {2, true}, {12, true}} {
							g := gridCase{Family: fam, Profile: prof, Target: target, SeqA: seqA, SeqB: seqB, NOut: shape.n, Extra: shape.extra}
							w, rt := gridWorld(g, 100000)
							abs, rate, _ := thresholds(w, families[fam], rt.Ref)
							fees := map[int64]bool{}
							for _, t := range []int64{abs, rate} {
								for d := int64(-1); d <= 1; d++ {
									if t+d >= 0 {
										fees[t+d] = true
									}
								}
							}
							var fl []int64
							for f := range fees {
								fl = append(fl, f)
							}
							sort.Slice(fl, func(i, j int) bool { return fl[i] < fl[j] })
							for _, f := range fl {
								for _, pol := range []string{"default", "rejectrbf"} {
									for _, call := range []string{"PT+o", "MAT"} {
										g2 := g
										g2.Fee, g2.Policy, g2.Call = f, pol, call
										jobs = append(jobs, g2)
									}
								}
							}
						}
					}
				}
			}
		}
	}
	var mu sync.Mutex
	stats := map[string]int{}
	ev.Par(len(jobs), runtime.NumCPU(), func(i int) {
		g := jobs[i]
		v, acc, h := runGridCase(g)
		if h != "" {
			r.Broken("grid %+v: %s", g, h)
		}
		if strings.HasPrefix(v, "HARNESS") {
			r.Broken("grid %+v: %s", g, v)
		}
		r.Eval(1)
		r.Trace(1)
		r.Nontrivial(fmt.Sprintf("grid/%+v", g))
		w, rt := gridWorld(g, g.Fee)
		abs, rate, nEv := thresholds(w, families[g.Family], rt.Ref)
		need := abs
		if rate > need {
			need = rate
		}
		mu.Lock()
		switch {
		case acc && g.Fee == need:
			stats["accepted_exactly_at_threshold"]++
			if rate > abs {
				stats["accepted_exactly_at_fee_rate_threshold"]++
			} else {
				stats["accepted_exactly_at_absolute_fee_threshold"]++
			}
		case acc:
			stats["accepted_above_threshold"]++
		case g.Fee == need-1:
			stats["rejected_one_below_threshold"]++
		default:
			stats["rejected_other"]++
		}
		if acc {
			stats[fmt.Sprintf("accepted_evicting_%d", nEv)]++
		}
		mu.Unlock()
		if v != "" {
			for k := 0; k < 3; k++ {
				if v2, _, _ := runGridCase(g); classOf(v2) != classOf(v) {
					r.Broken("grid verdict flips: %+v: %q vs %q", g, v, v2)
				}
			}
			key := fmt.Sprintf("grid/%s/replaces=%s/%s", classOf(v), g.Target, g.Call)
			r.Violation(key, fmt.Sprintf("%+v (absolute-fee threshold %d, fee-rate threshold %d): %s", g, abs, rate, v), replay{Scenario: "grid", Grid: &g})
		}
	})
	r.Set("replacement_grid", map[string]interface{}{"cases": len(jobs), "outcomes": stats,
		"axes": "family{A,AB,ABC,ABD,ABCD} x fee profile{flat,hotchild,hotparent} x conflict target{A via K0, B via A:0} x nSequence(A){fffffffd,fffffffe,ffffffff,0} x nSequence(B){ffffffff,fffffffd} x replacement shape{71,111,112,212 vbytes} x fee{abs-1,abs,abs+1,rate-1,rate,rate+1} x policy{default,RejectReplacement} x call{ProcessTransaction,MaybeAcceptTransaction}"})
	if stats["accepted_exactly_at_absolute_fee_threshold"] == 0 || stats["accepted_exactly_at_fee_rate_threshold"] == 0 || stats["rejected_one_below_threshold"] == 0 {
		r.Broken("replacement grid is vacuous: no replacement was accepted exactly at a threshold / rejected one below it (%v): the boundaries are not where the reference puts them", stats)
	}
}

// ---------------------------------------------------------------------------
// eviction limit: 100 accepted, 101 refused

func evictWorld(shape string, n int) (*c10h.World, *c10h.UTx, []string) {
	w := c10h.NewWorld(base, "evict")
	var pre []string
	var sum int64
	switch shape {
	case "chain": // A <- d1 <- d2 ... : n transactions in total
		w.SmallRest = 1000
		w.Add("A", []c10h.I{{From: "K0", Seq: c10h.RBFMax}}, 2, c10h.KTrue, 100)
		pre = append(pre, "A")
		sum = 100
		prev := "A"
		for i := 1; i < n; i++ {
			name := fmt.Sprintf("d%d", i)
			w.Add(name, []c10h.I{{From: prev + ":0", Seq: c10h.Final}}, 2, c10h.KTrue, 100)
			pre = append(pre, name)
			sum += 100
			prev = name
		}
	case "fan", "fan2": // A with n-1 outputs, one child each (fan2: plus a second, unrelated conflict B)
		w.Add("A", []c10h.I{{From: "K0", Seq: c10h.RBFMax}}, n-1, c10h.KTrue, 2000)
		pre = append(pre, "A")
		sum = 2000
		for i := 0; i < n-1; i++ {
			name := fmt.Sprintf("c%d", i)
			w.Add(name, []c10h.I{{From: fmt.Sprintf("A:%d", i), Seq: c10h.Final}}, 2, c10h.KTrue, 100)
			pre = append(pre, name)
			sum += 100
		}
	}
	w.SmallRest = 0
	if shape == "fan2" {
		// the replacement's SECOND input conflicts with B: the conflict set is the
		// package of n below K0 plus B, whatever order the inputs are walked in
		w.Add("B", []c10h.I{{From: "K1", Seq: c10h.RBFMax}}, 2, c10h.KTrue, 100)
		pre = append(pre, "B")
		sum += 100
		rt := w.Add("R", []c10h.I{{From: "K0", Seq: c10h.Final}, {From: "K1", Seq: c10h.Final}}, 2, c10h.KTrue, sum+200)
		return w.Seal(), rt, pre
	}
	rt := w.Add("R", []c10h.I{{From: "K0", Seq: c10h.Final}}, 2, c10h.KTrue, sum+71)
	return w.Seal(), rt, pre
}

func runEvict(shape string, n int, call int) (verdict string, accepted bool, harness string) {
	w, rt, pre := evictWorld(shape, n)
	s := c10h.NewSys(w, c10h.Policies["default"], false)
	defer func() { mergeObs(s); s.Close() }()
	for _, name := range pre {
		s.Apply(c10h.Ev(c10h.KPTNoOrphan, w.By[name].Idx))
		if s.Viol != "" || s.Harness != "" {
			return "", false, "building the pre-state: " + s.Viol + s.Harness
		}
		if id := w.By[name].Ref.ID; !s.MP.IsTransactionInPool(&id) {
			_, err := s.MP.CheckMempoolAcceptance(s.Tx(w.By[name].Idx))
			return "", false, fmt.Sprintf("pre-state transaction %s refused: %v", name, err)
		}
	}
	if s.MP.Count() != len(pre) {
		return "", false, fmt.Sprintf("pre-state has %d transactions, wanted %d", s.MP.Count(), len(pre))
	}
	if v := s.CheckState(false); v != "" {
		return "", false, "pre-state: " + v
	}
	s.Apply(c10h.Ev(call, rt.Idx))
	id := rt.Ref.ID
	if s.Viol != "" {
		return s.Viol, s.MP.IsTransactionInPool(&id), ""
	}
	return s.CheckState(false), s.MP.IsTransactionInPool(&id), ""
}

func evictLimit(r *ev.Run) {
	res := map[string]interface{}{}
	for _, shape := range []string{"chain", "fan", "fan2"} {
		for _, n := range []int{99, 100, 101, 102} {
			total := n
			if shape == "fan2" {
				n-- // the package below K0 is one smaller, B makes up for it
			}
			for _, call := range []int{c10h.KPTOrphan, c10h.KMAT} {
				v, acc, h := runEvict(shape, n, call)
				if h != "" {
					r.Broken("evict-limit %s/%d: %s", shape, n, h)
				}
				r.Eval(1)
				r.Trace(1)
				r.Nontrivial(fmt.Sprintf("evict/%s/%d/%d", shape, n, call))
				res[fmt.Sprintf("%s/%d/%s", shape, n, []string{"PT", "", "MAT"}[call])] = map[string]bool{"accepted": acc}
				if v != "" {
					r.Violation(fmt.Sprintf("evict-limit/%s/%s/n=%d", classOf(v), shape, n), fmt.Sprintf("replacement evicting %d transactions (%s): %s", n, shape, v),
						replay{Scenario: "evict-limit", Shape: shape, N: n})
				}
				if total <= 100 && !acc && v == "" {
					r.Broken("evict-limit %s/%d: a replacement on its exact fee threshold evicting %d <= 100 transactions was refused: the harness does not reach the limit", shape, n, n)
				}
			}
		}
	}
	r.Set("eviction_limit", res)
}

// ---------------------------------------------------------------------------
// a pooled spend of a coinbase that a reorganisation removes

func coinbaseReorg(r *ev.Run) {
	// history: MineEmpty (h5), MineEmpty (h6), submit X spending h5's coinbase
	// (mature at height 7 with the lab maturity of 2), Reorg[] (3 competing blocks
	// from the base tip).
	w := c10h.NewWorld(base, "cbreorg")
	h5 := base.Block(base.Tip, uint32(base.Tip.Height+1), nil)
	base.RegisterCoin("CB5", h5.Msg.Transactions[0], 0, c10h.KTrue)
	w.Add("X", []c10h.I{{From: "CB5", Seq: c10h.Final}}, 2, c10h.KTrue, 1000)
	w.ReorgSets = [][]string{{}}
	w.Seal()
	hist := []int{c10h.Ev(c10h.KBlock, c10h.BMineEmpty), c10h.Ev(c10h.KBlock, c10h.BMineEmpty), c10h.Ev(c10h.KPTNoOrphan, 0), c10h.Ev(c10h.KBlock, c10h.BReorg)}
	c10h.MaxBlockEvents = 3
	run := func() (string, bool) {
		s := c10h.NewSys(w, c10h.Policies["default"], false)
		defer func() { mergeObs(s); s.Close() }()
		pooled := false
		for i, e := range hist {
			if i == 2 {
				if _, err := s.MP.CheckMempoolAcceptance(s.Tx(0)); err != nil {
					return "HARNESS: X refused: " + err.Error(), false
				}
			}
			s.Apply(e)
			if i == 2 {
				id := w.By["X"].Ref.ID
				pooled = s.MP.IsTransactionInPool(&id)
			}
		}
		return s.Check(), pooled
	}
	v, pooled := run()
	if strings.HasPrefix(v, "HARNESS") {
		r.Broken("coinbase-reorg: %s", v)
	}
	if !pooled {
		fmt.Println("DEBUG verdict:", v)
		r.Broken("coinbase-reorg: the spend of a mature coinbase was not accepted, the scenario does not reach its point")
	}
	r.Eval(1)
	r.Trace(1)
	r.Nontrivial("cbreorg")
	if v != "" {
		for i := 0; i < 3; i++ {
			if v2, _ := run(); classOf(v2) != classOf(v) {
				r.Broken("coinbase-reorg verdict flips: %q vs %q", v, v2)
			}
		}
		r.Violation("reorg/coinbase-spend-survives-disconnect/"+classOf(v), "hist="+strings.Join(w.HistNames(hist), " ")+": "+v,
			replay{Scenario: "coinbase-reorg"})
	}
}

// ---------------------------------------------------------------------------
// free-running -race pass

func racePass(r *ev.Run) {
	bin := os.Getenv("C10_RACE_BIN")
	if bin == "" {
		r.Set("race_pass", "not run (C10_RACE_BIN unset)")
		return
	}
	iters := "150"
	if r.Thorough() {
		iters = "1500"
	}
	cmd := exec.Command(bin, iters)
	cmd.Env = append(os.Environ(), "GORACE=halt_on_error=0")
	out, err := cmd.CombinedOutput()
	txt := string(out)
	tail := txt
	if len(tail) > 400 {
		tail = tail[len(tail)-400:]
	}
	r.Eval(1)
	// every report: ================== / WARNING: DATA RACE / two access stacks /
	// goroutine creation stacks / ==================
	races := 0
	sites := map[string]int{}
	for _, blk := range strings.Split(txt, "==================") {
		if !strings.Contains(blk, "WARNING: DATA RACE") {
			continue
		}
		races++
		acc := blk
		if j := strings.Index(acc, "\nGoroutine "); j > 0 {
			acc = acc[:j] // the two access stacks only, not where the goroutines were created
		}
		site := raceSite(acc)
		sites[site]++
		if sites[site] > 1 {
			continue
		}
		rep := strings.TrimSpace(blk)
		if len(rep) > 3000 {
			rep = rep[:3000]
		}
		r.Violation("race/"+site, "data race reported by the free-running -race pass: "+strings.ReplaceAll(acc, "\n", " | "), replay{Scenario: "race", Report: rep})
	}
	for _, l := range strings.Split(txt, "\n") {
		if strings.HasPrefix(l, "INVARIANT ") {
			what := strings.TrimPrefix(l, "INVARIANT ")
			r.Violation("race-pass/"+classOf(what), "after the concurrent hammering (all goroutines joined): "+what, replay{Scenario: "race", Report: l})
		}
	}
	if !strings.Contains(txt, "race pass A:") && !strings.Contains(txt, "INVARIANT ") {
		r.Broken("race pass did not run: %v: %s", err, tail)
	}
	if err != nil && !strings.Contains(txt, "WARNING: DATA RACE") && !strings.Contains(txt, "INVARIANT ") {
		if r.Violations() > 0 {
			// the exhaustive part has already established violations on this
			// tree; the free-running pass tripping over the same broken pool
			// must not turn the verdict into "broken check"
			r.Cap(fmt.Sprintf("race pass did not complete (%v); not evaluated because the exhaustive part already reports violations: %s", err, strings.TrimSpace(tail)))
			return
		}
		r.Broken("race pass failed: %v: %s", err, tail)
	}
	r.Set("race_pass", map[string]interface{}{"bursts": iters, "race_reports": races, "sites": sites, "output_tail": strings.TrimSpace(tail)})
}

// raceSite names the first mempool/netsync/blockchain frame of the report.
func raceSite(rep string) string {
	for _, l := range strings.Split(rep, "\n") {
		l = strings.TrimSpace(l)
		if strings.HasPrefix(l, "github.com/btcsuite/btcd/") && !strings.Contains(l, "Verif") {
			f := strings.Fields(l)[0]
			f = strings.TrimPrefix(f, "github.com/btcsuite/btcd/")
			if i := strings.Index(f, "()"); i > 0 {
				f = f[:i]
			}
			return f
		}
	}
	return "unknown"
}

// ---------------------------------------------------------------------------

func main() {
	if f := os.Getenv("C10_PROFILE"); f != "" {
		fh, _ := os.Create(f)
		pprof.StartCPUProfile(fh)
		go func() { time.Sleep(20 * time.Second); pprof.StopCPUProfile(); fh.Close() }()
	}
	// chains come and go by the thousand, each with several 4 MiB leveldb buffers:
	// let the heap breathe instead of handing the pages back and faulting them in again
	debug.SetGCPercent(400)
	r := ev.Start("C10")
	r.Rule("BFS over histories of {ProcessTransaction(t,allowOrphan T/F), MaybeAcceptTransaction(t), RemoveTransaction(t,redeemers T/F), RemoveDoubleSpends(t), ProcessOrphans(t) for every universe transaction t; mine a block (empty / whole pool / fixed lists, incl. a conflicting and an already-pooled transaction); reorganise to a longer competing branch} on a real TxPool+BlockChain+SyncManager, one BFS per policy; CheckMempoolAcceptance of every universe transaction is probed in every state. A state is distinct by (policy, blocks above the base with their transactions, pool set, orphan set). Plus three grids outside the BFS: replacement fee / fee-rate thresholds +-1 satoshi, the 100/101 eviction limit, a coinbase spend across a reorganisation")
	r.Assume("ffldb/BlockChain queries (FetchUtxoView, BestSnapshot, CalcSequenceLock, CheckConnectBlockTemplate) do not change chain state: histories without block events run against a shared base chain instance that holds the same blocks a private one would (C03 covers the chain side)")
	r.Assume("two real systems with the same canonical state (blocks above the base with their transactions, pool set, orphan set) have the same futures - the premise of the BFS's deduplication. The explorer also uses it to save chain constructions: after a history with block events was replayed once, pool-call successors run on a fresh pool attached to that same chain instance, really filled by ProcessTransaction to the same canonical state (verified; otherwise the whole history is replayed); block-event successors always replay the whole history")
	r.Assume("script semantics and signature checking are C06/C07/C11's subject: most scenarios use anyone-can-spend outputs (AcceptNonStd), the standard-policy scenario uses P2WPKH/P2PKH spends signed with txscript's helpers")
	r.Assume("RemoveTransaction(t, removeRedeemers=false) is only issued when no pooled transaction spends an output of t (its contract: 't was confirmed'); tags, orphan expiry (15 min wall clock) and the free-transaction rate limiter's decay never come into play within one history")
	r.Assume("concurrency: every exported TxPool method holds mp.mtx for its whole duration (checked by reading mempool.go: Lock in RemoveOrphan, RemoveOrphansByTag, RemoveTransaction, RemoveDoubleSpends, MaybeAcceptTransaction, ProcessOrphans, ProcessTransaction; RLock in the getters and CheckMempoolAcceptance; LastUpdated is atomic), so interleavings of calls are exactly the sequential orders the BFS enumerates; netsync's per-block sequence of calls is applied atomically here; what the lock does not order is left to the free-running -race pass")
	if msg := refpool.SelfTest(); msg != "" {
		r.Broken("reference model self-test: %s", msg)
	}

	base = c10h.NewBase()
	base.InitPool(runtime.NumCPU() + 4)
	defer base.DrainPool()
	worlds["main"] = c10h.MainWorld(base, r.Thorough())
	worlds["std"] = c10h.StdWorld(base)
	worlds["wit"] = c10h.WitWorld(base)
	worlds["locks"] = c10h.LockWorld(base)

	if r.ReplayPath != "" {
		var rp replay
		r.LoadReplay(&rp)
		doReplay(r, rp)
		base.DrainPool()
		r.Finish(false)
	}

	budget := 200 * time.Second
	if r.Thorough() {
		budget = 12 * time.Minute
	}
	if v := os.Getenv("C10_DEV_BUDGET"); v != "" { // development aid only
		if d, err := time.ParseDuration(v); err == nil {
			budget = d
		}
	}
	r.SetBudget(budget)

	// grids first: they are cheap and exact
	gridSweep(r)
	evictLimit(r)
	coinbaseReorg(r)

	var cfgs []bfsCfg
	if r.Thorough() {
		cfgs = []bfsCfg{
			{"main", "default", 5, 3}, {"main", "default", 6, 2}, {"main", "nopriority", 4, 2}, {"main", "rejectrbf", 4, 2},
			{"main", "orphans0", 4, 2}, {"main", "orphans1", 4, 2}, {"main", "orphans2", 4, 2},
			{"std", "standard", 5, 2}, {"std", "std-orphan1", 4, 2}, {"wit", "standard", 5, 2}, {"locks", "default", 5, 3},
		}
	} else {
		cfgs = []bfsCfg{
			{"main", "default", 4, 2}, {"main", "nopriority", 3, 1}, {"main", "rejectrbf", 3, 1},
			{"main", "orphans0", 3, 1}, {"main", "orphans1", 3, 1}, {"main", "orphans2", 3, 1},
			{"std", "standard", 3, 2}, {"std", "std-orphan1", 3, 1}, {"wit", "standard", 4, 1}, {"locks", "default", 4, 2},
		}
	}
	if v := os.Getenv("C10_DEV_CFG"); v != "" { // development aid only: world,policy,depth,maxBlock
		var c bfsCfg
		f := strings.Split(v, ",")
		c.world, c.policy = f[0], f[1]
		fmt.Sscan(f[2], &c.depth)
		fmt.Sscan(f[3], &c.maxBlock)
		cfgs = []bfsCfg{c}
	}
	per := map[string]interface{}{}
	complete := true
	for _, c := range cfgs {
		if only := os.Getenv("C10_DEV_ONLY"); only != "" && only != c.world+"/"+c.policy {
			continue
		}
		if r.Expired() {
			r.Cap(fmt.Sprintf("%s/%s not started: time box", c.world, c.policy))
			complete = false
			continue
		}
		if !runBFS(r, c, per) {
			complete = false
		}
	}
	r.Set("bfs", per)

	racePass(r)

	obsMu.Lock()
	obs := map[string]int{}
	for k, v := range obsAll {
		obs[k] = v
	}
	obsMu.Unlock()
	r.Set("observations_outside_the_property", obs)
	if len(stuckNotes) > 0 {
		r.Set("observation_orphan_left_behind_samples", stuckNotes)
	}
	var names []string
	for _, t := range worlds["main"].Txs {
		names = append(names, fmt.Sprintf("%s(fee=%d,vsize=%d)", t.Ref.Name, t.Ref.Fee, t.Ref.VSize()))
	}
	var snames []string
	for _, t := range worlds["std"].Txs {
		snames = append(snames, fmt.Sprintf("%s(fee=%d,vsize=%d)", t.Ref.Name, t.Ref.Fee, t.Ref.VSize()))
	}
	r.Set("bounds", map[string]interface{}{
		"main_universe": names, "std_universe": snames,
		"events_per_state_main": len(worlds["main"].AllEvents()), "events_per_state_std": len(worlds["std"].AllEvents()),
		"policies":              []string{"default", "nopriority(DisableRelayPriority)", "rejectrbf", "orphans0", "orphans1", "orphans2(MaxOrphanTxSize=71)", "standard(AcceptNonStd=false)", "std-orphan1"},
		"min_relay_fee_per_kvb": c10h.MinRelayPerKB,
	})
	base.DrainPool()
	r.Finish(complete)
}

func doReplay(r *ev.Run, rp replay) {
	switch rp.Scenario {
	case "bfs":
		w := worlds[rp.World]
		pol, ok := c10h.Policies[rp.Policy]
		if w == nil || !ok {
			r.Broken("replay: unknown world/policy %q/%q", rp.World, rp.Policy)
		}
		var hist []int
		for _, n := range rp.Hist {
			e, ok := w.EvByName(n)
			if !ok {
				r.Broken("replay: unknown event %q", n)
			}
			hist = append(hist, e)
		}
		c10h.MaxBlockEvents = 99
		// retry until the replay goes through the recorded states (map-order choices)
		want := strings.Join(rp.Trace, "\n")
		var what string
		for i := 0; i < 200; i++ {
			g, tr := runHist(w, pol, hist)
			what = g
			if want == "" || strings.Join(tr, "\n") == want || (g != "" && i >= 20) {
				break
			}
		}
		r.Eval(1)
		if strings.HasPrefix(what, "HARNESS") {
			r.Broken("replay: %s", what)
		}
		if what != "" {
			r.Violation(classOf(what)+"@"+lastKind(w, hist), fmt.Sprintf("world=%s policy=%s hist=%s: %s", rp.World, rp.Policy, strings.Join(rp.Hist, " "), what), rp)
		}
	case "grid":
		v, _, h := runGridCase(*rp.Grid)
		if h != "" {
			r.Broken("replay grid: %s", h)
		}
		r.Eval(1)
		if v != "" {
			r.Violation("grid/"+classOf(v), fmt.Sprintf("%+v: %s", *rp.Grid, v), rp)
		}
	case "evict-limit":
		for _, call := range []int{c10h.KPTOrphan, c10h.KMAT} {
			v, _, h := runEvict(rp.Shape, rp.N, call)
			if h != "" {
				r.Broken("replay evict-limit: %s", h)
			}
			r.Eval(1)
			if v != "" {
				r.Violation(fmt.Sprintf("evict-limit/%s/%s/n=%d", classOf(v), rp.Shape, rp.N), v, rp)
			}
		}
	case "coinbase-reorg":
		coinbaseReorg(r)
	case "race":
		racePass(r)
	default:
		r.Broken("replay: unknown scenario %q", rp.Scenario)
	}
}
