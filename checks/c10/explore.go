package main

import (
	"runtime"
	"sync"

	c10h "verif/checks/c10/harness"
)

// explore is verif/engine/bfs.Run specialised for C10 (same semantics: a state is
// the shortest event history reaching it, successors are computed on fresh real
// systems, dedup on the canonical state, the oracle runs after every transition,
// violating states are reported and pruned) with one economy: a real chain that
// went through block events costs ~15 ms to build, so for a frontier state whose
// history contains block events the history is replayed ONCE, and every successor
// that is a pool call runs on a fork of that system (same chain instance, fresh
// pool really filled to the same canonical state, see Sys.Fork).  Successors that
// are block events, and everything Fork cannot reproduce, replay the full history.
type exploreModel struct {
	New      func() *c10h.Sys
	MaxDepth int
	Stop     func() bool
	OnCanon  func(string)
	Free     func(*c10h.Sys)
}

type exploreResult struct {
	States, Transitions, MaxDepth int
	Complete, DepthCapped         bool
	Violations                    []exploreViolation
	SampleHists                   [][]int
	Forked, Replayed              int
}

type exploreViolation struct {
	Hist []int
	What string
}

func explore(m exploreModel) exploreResult {
	var res exploreResult
	seen := map[string]bool{}
	var mu sync.Mutex
	build := func(hist []int) *c10h.Sys {
		s := m.New()
		for _, e := range hist {
			s.Apply(e)
		}
		return s
	}
	s0 := m.New()
	c0 := s0.Canon()
	m.OnCanon(c0)
	seen[c0] = true
	if w := s0.Check(); w != "" {
		res.Violations = append(res.Violations, exploreViolation{nil, w})
	}
	m.Free(s0)
	res.States = 1
	frontier := [][]int{{}}
	capped := false
	workers := runtime.NumCPU()
	for depth := 0; len(frontier) > 0; depth++ {
		if m.MaxDepth > 0 && depth >= m.MaxDepth {
			res.DepthCapped = true // every state has enabled events in this model
			break
		}
		if m.Stop() {
			capped = true
			break
		}
		var next [][]int
		var wg sync.WaitGroup
		idx := 0
		var imu sync.Mutex
		for w := 0; w < workers; w++ {
			wg.Add(1)
			go func() {
				defer wg.Done()
				for {
					imu.Lock()
					i := idx
					idx++
					imu.Unlock()
					if i >= len(frontier) {
						return
					}
					if m.Stop() {
						mu.Lock()
						capped = true
						mu.Unlock()
						return
					}
					h := frontier[i]
					root := build(h)
					if root.Viol != "" || root.Harness != "" {
						// a replay that took a different (map-order) turn and ran into trouble
						mu.Lock()
						if len(res.Violations) < 50 {
							res.Violations = append(res.Violations, exploreViolation{h, root.Check()})
						}
						mu.Unlock()
					}
					evs := root.Enabled()
					rootUsed := false
					for _, e := range evs {
						var s *c10h.Sys
						forked := false
						switch {
						case root.HasPrivateChain() && !c10h.IsBlockEvent(e):
							if s = root.Fork(); s != nil {
								forked = true
							} else {
								s = build(h)
							}
						case !root.HasPrivateChain() && !rootUsed:
							s, rootUsed = root, true
						default:
							s = build(h)
						}
						s.Apply(e)
						nh := append(append([]int(nil), h...), e)
						c := s.Canon()
						m.OnCanon(c)
						w := s.Check()
						if s != root {
							m.Free(s)
						}
						mu.Lock()
						res.Transitions++
						if forked {
							res.Forked++
						} else {
							res.Replayed++
						}
						if w != "" && len(res.Violations) < 50 {
							res.Violations = append(res.Violations, exploreViolation{nh, w})
						}
						if w != "" {
							seen[c] = true
							mu.Unlock()
							continue
						}
						if !seen[c] {
							seen[c] = true
							res.States++
							next = append(next, nh)
							if len(res.SampleHists) < 6 && len(nh) >= 3 {
								res.SampleHists = append(res.SampleHists, nh)
							}
						}
						mu.Unlock()
					}
					m.Free(root)
				}
			}()
		}
		wg.Wait()
		if len(next) > 0 {
			res.MaxDepth = depth + 1
		}
		frontier = next
		if capped {
			break
		}
	}
	res.Complete = !capped
	return res
}
