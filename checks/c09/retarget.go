package main

import (
	"fmt"
	"math/big"
	"strings"
	"time"

	"github.com/btcsuite/btcd/blockchain"
	"github.com/btcsuite/btcd/chaincfg/v2"
	"github.com/btcsuite/btcd/wire/v2"

	"verif/engine/ev"
	"verif/lab"
	"verif/ref/refpow"
)

const hdrVersion = 0x20000000

// Seg is N consecutive blocks with the same bits, each Dt seconds after its
// parent.
type Seg struct {
	N    int    `json:"n"`
	Bits uint32 `json:"bits"`
	Dt   int64  `json:"dt"`
}

// histCase: the header history (segments after genesis) and the time of the
// candidate block relative to the last block.
type histCase struct {
	Kind  string    `json:"kind"` // "hist"
	Spec  ParamSpec `json:"spec"`
	Segs  []Seg     `json:"segs"`
	NewDt int64     `json:"new_dt"`
}

func (c *histCase) key() string {
	var sb strings.Builder
	sb.WriteString(c.Spec.Name)
	for _, s := range c.Segs {
		fmt.Fprintf(&sb, "/%dx%08x+%d", s.N, s.Bits, s.Dt)
	}
	fmt.Fprintf(&sb, "/new+%d", c.NewDt)
	return sb.String()
}

type pair struct {
	n blockchain.VerifC09Node
	x *refpow.Index
	w *big.Int // reference cumulative work
}

// world is one chain instance (own params copy) for one parameter set.
type world struct {
	spec ParamSpec
	ip   *chaincfg.Params
	rp   *refpow.Params
	ch   *lab.Chain
	gen  pair
	memo map[string]pair
	r    *ev.Run
	// counters
	nodes, notDemanded int64
}

func newWorld(r *ev.Run, spec ParamSpec) *world {
	w := &world{spec: spec, ip: spec.implParams(), rp: spec.refParams(), memo: map[string]pair{}, r: r}
	ch, err := lab.NewChain(w.ip, lab.ChainOpts{})
	if err != nil {
		r.Broken("cannot create chain for %s: %v", spec.Name, err)
	}
	w.ch = ch
	g := ch.BC.VerifC09Genesis()
	gh := w.ip.GenesisBlock.Header
	w.gen = pair{n: g, x: &refpow.Index{Height: 0, Time: gh.Timestamp.Unix(), Bits: gh.Bits}, w: refpow.BlockProof(gh.Bits)}
	if g.IsNil() || g.Height() != 0 || g.Bits() != gh.Bits || g.Timestamp() != gh.Timestamp.Unix() {
		r.Broken("%s: genesis node does not match the configured genesis header", spec.Name)
	}
	w.checkChainCtx()
	w.checkExportedAtTip()
	return w
}

func (w *world) close() { w.ch.Destroy() }

// checkChainCtx: the retarget constants blockchain.New derived from the params
// must be Core's DifficultyAdjustmentInterval, timespan/4 and timespan*4.
func (w *world) checkChainCtx() {
	bc := w.ch.BC
	type f struct {
		name      string
		got, want int64
	}
	for _, x := range []f{
		{"BlocksPerRetarget", int64(bc.BlocksPerRetarget()), w.rp.Interval()},
		{"MinRetargetTimespan", bc.MinRetargetTimespan(), w.rp.TargetTimespan / 4},
		{"MaxRetargetTimespan", bc.MaxRetargetTimespan(), w.rp.TargetTimespan * 4},
	} {
		w.r.Eval(1)
		if x.got != x.want {
			w.r.Violation(fmt.Sprintf("ChainCtx/%s/%s", w.spec.Name, x.name),
				fmt.Sprintf("%s: BlockChain.%s() = %d, protocol value %d", w.spec.Name, x.name, x.got, x.want),
				map[string]interface{}{"kind": "chainctx", "spec": w.spec})
		}
	}
}

// checkExportedAtTip: the exported CalcNextRequiredDifficulty works on the best
// chain tip, which is the genesis block on these header-only chains.
func (w *world) checkExportedAtTip() {
	s := w.rp.TargetSpacing
	for _, dt := range []int64{1, s, 2 * s, 2*s + 1} {
		nt := w.gen.x.Time + dt
		want := refpow.GetNextWorkRequired(w.gen.x, nt, w.rp)
		if want.Wrapped {
			continue
		}
		var got uint32
		var err error
		pn := safe(func() { got, err = w.ch.BC.CalcNextRequiredDifficulty(time.Unix(nt, 0)) })
		w.r.Eval(1)
		if pn != nil || err != nil || got != want.Bits {
			w.r.Violation(fmt.Sprintf("CalcNextRequiredDifficulty/%s/genesis+%d", w.spec.Name, dt),
				fmt.Sprintf("%s: BlockChain.CalcNextRequiredDifficulty(genesis time + %d) = %#08x (err %v, panic %v), GetNextWorkRequired = %#08x", w.spec.Name, dt, got, err, pn, want.Bits),
				histCase{Kind: "hist", Spec: w.spec, NewDt: dt})
		}
	}
}

// build returns the tip of the history, creating (and memoising per segment
// prefix) detached block nodes through the production newBlockNode.  The work
// sum of every created node is compared with the reference on the way.
func (w *world) build(segs []Seg) pair {
	cur := w.gen
	key := ""
	for _, s := range segs {
		if s.N <= 0 {
			continue
		}
		key += fmt.Sprintf("|%d,%x,%d", s.N, s.Bits, s.Dt)
		if p, ok := w.memo[key]; ok {
			cur = p
			continue
		}
		for i := 0; i < s.N; i++ {
			t := cur.x.Time + s.Dt
			if t < 1 || t > 0xffffffff {
				w.r.Broken("%s: history leaves the uint32 time range", w.spec.Name)
			}
			n := blockchain.VerifC09Child(cur.n, hdrVersion, s.Bits, t, 0)
			x := &refpow.Index{Prev: cur.x, Height: cur.x.Height + 1, Time: t, Bits: s.Bits}
			proof := refpow.BlockProof(s.Bits)
			sum := new(big.Int).Add(cur.w, proof)
			w.nodes++
			if int64(n.Height()) != x.Height || n.Bits() != s.Bits || n.Timestamp() != t {
				w.r.Broken("%s: hook node fields differ from the header", w.spec.Name)
			}
			if got := n.WorkSum(); got.Cmp(sum) != 0 || (refpow.TargetInRange(s.Bits, refpow.Max256) && got.Cmp(cur.n.WorkSum()) <= 0) {
				w.r.Violation(fmt.Sprintf("workSum/%s/h=%d/bits=%08x", w.spec.Name, x.Height, s.Bits),
					fmt.Sprintf("%s: cumulative work at height %d (bits %#08x) = %s, parent %s, reference %s (must equal parent + GetBlockProof and strictly increase)",
						w.spec.Name, x.Height, s.Bits, got.Text(16), cur.n.WorkSum().Text(16), sum.Text(16)),
					histCase{Kind: "hist", Spec: w.spec, Segs: segs})
			}
			cur = pair{n: n, x: x, w: sum}
		}
		w.memo[key] = cur
	}
	return cur
}

// compactTarget: the positive target a compact value stands for (nil: none).
func compactTarget(bits uint32) *big.Int {
	v, neg, over := refpow.SetCompact(bits)
	if neg || over || v.Sign() <= 0 {
		return nil
	}
	return v
}

// evalHist runs one case; returns "" or (sub-check, description).
func (w *world) evalHist(c *histCase) (sub, what string) {
	p := w.build(c.Segs)
	newTime := p.x.Time + c.NewDt
	if newTime < 1 || newTime > 0xffffffff {
		return "", ""
	}
	want := refpow.GetNextWorkRequired(p.x, newTime, w.rp)
	if want.Wrapped {
		w.notDemanded++
		return "", ""
	}
	var got uint32
	var err error
	if pn := safe(func() { got, err = w.ch.BC.VerifC09NextRequired(p.n, time.Unix(newTime, 0)) }); pn != nil {
		return "NextRequired/panic", fmt.Sprintf("calcNextRequiredDifficulty panicked: %v", pn)
	}
	if err != nil {
		return "NextRequired", fmt.Sprintf("calcNextRequiredDifficulty(height %d, t=%d) failed: %v; protocol value %#08x", p.x.Height+1, newTime, err, want.Bits)
	}
	if got != want.Bits {
		return "NextRequired", fmt.Sprintf("calcNextRequiredDifficulty for height %d (last bits %#08x, last time %d, new time %d) = %#08x, GetNextWorkRequired = %#08x",
			p.x.Height+1, p.x.Bits, p.x.Time, newTime, got, want.Bits)
	}
	// header context with the required bits and with two wrong ones
	for _, bits := range []uint32{want.Bits, want.Bits ^ 1, want.Bits + 0x01000000} {
		hdr := wire.BlockHeader{Version: hdrVersion, PrevBlock: p.n.Hash(), Bits: bits, Timestamp: time.Unix(newTime, 0)}
		var cerr error
		if pn := safe(func() { cerr = w.ch.BC.VerifC09CheckHeaderContext(&hdr, p.n, blockchain.BFNone) }); pn != nil {
			return "HeaderContext/panic", fmt.Sprintf("CheckBlockHeaderContext panicked: %v", pn)
		}
		v := refpow.CheckHeader(p.x, newTime, bits, 1<<40, w.rp)
		wantOK := !(v.BadBits || v.TooOld || v.TimeWarp)
		if s, d := cmpHeaderVerdict(cerr, wantOK, v, false); s != "" {
			return "HeaderContext/" + s, fmt.Sprintf("CheckBlockHeaderContext(height %d, time %d (prev %d, mtp %d), bits %#08x): %s", p.x.Height+1, newTime, p.x.Time, p.x.MedianTimePast(), bits, d)
		}
	}
	return "", ""
}

// cmpHeaderVerdict compares an implementation error with the reference verdict:
// accept/reject must agree, and a rejection must carry an error code of one of
// the rules the reference says are broken.
func cmpHeaderVerdict(err error, wantOK bool, v refpow.HeaderVerdict, withSanity bool) (string, string) {
	if (err == nil) != wantOK {
		return "verdict", fmt.Sprintf("accepted=%v (err=%v), protocol verdict accepted=%v (%+v)", err == nil, err, wantOK, v)
	}
	if err == nil {
		return "", ""
	}
	re, ok := err.(blockchain.RuleError)
	if !ok {
		return "errtype", fmt.Sprintf("rejection is not a RuleError: %T %v", err, err)
	}
	allowed := map[blockchain.ErrorCode]bool{}
	if v.BadBits {
		allowed[blockchain.ErrUnexpectedDifficulty] = true
	}
	if v.TooOld {
		allowed[blockchain.ErrTimeTooOld] = true
	}
	if v.TimeWarp {
		allowed[blockchain.ErrTimewarpAttack] = true
	}
	if withSanity {
		if v.BadRange {
			allowed[blockchain.ErrUnexpectedDifficulty] = true
		}
		if v.TooNew {
			allowed[blockchain.ErrTimeTooNew] = true
		}
	}
	if !allowed[re.ErrorCode] {
		return "errcode", fmt.Sprintf("rejected with %v (%v) but the broken rules are %+v", re.ErrorCode, err, v)
	}
	return "", ""
}

func (w *world) runHist(c *histCase) {
	r := w.r
	sub, what := w.evalHist(c)
	r.Eval(1)
	r.Trace(1)
	r.Nontrivial("hist/" + c.key())
	if sub == "" {
		return
	}
	for i := 0; i < 3; i++ {
		w.memo = map[string]pair{} // rebuild from scratch
		if s2, _ := w.evalHist(c); s2 != sub {
			r.Broken("%s: verdict flipped on re-run (%q vs %q)", c.key(), sub, s2)
		}
	}
	cc := *c
	cc.Kind = "hist"
	cc.Segs = append([]Seg(nil), c.Segs...)
	r.Violation(sub+"/"+c.key(), w.spec.Name+": "+what, cc)
}

// targetsFor returns in-range compact targets for the parameter set, the pow
// limit first.
func (w *world) targetsFor() []uint32 {
	L := w.rp.PowLimit
	lb := refpow.GetCompact(L, false)
	if w.rp.NoRetargeting {
		// Only chains reachable under the rule: every block carries the limit.
		return []uint32{lb}
	}
	c := []uint32{lb,
		refpow.GetCompact(new(big.Int).Rsh(L, 1), false),
		refpow.GetCompact(new(big.Int).Div(L, big.NewInt(3)), false),
		refpow.GetCompact(new(big.Int).Div(L, big.NewInt(5)), false),
		refpow.GetCompact(new(big.Int).Rsh(L, 17), false),
		0x1c05a3f4, 0x1c387f6f, 0x1d00d86a, 0x1b0404cb, 0x1e0000ff, 0x1e0377ae, 0x1f7fffff, 0x207fffff,
		0x0600ffff, 0x05123456, 0x04123456, 0x03123456, 0x02008000, 0x01010000, 0x03000001, 0x1c7fffff, 0x1d008000,
	}
	seen := map[uint32]bool{}
	var out []uint32
	for _, b := range c {
		if seen[b] || !refpow.TargetInRange(b, L) {
			continue
		}
		seen[b] = true
		out = append(out, b)
	}
	return out
}

// genHist enumerates the histories for the world's parameter set.
func (w *world) genHist(thorough bool, emit func(*histCase)) {
	I := w.rp.Interval()
	s := w.rp.TargetSpacing
	T := w.rp.TargetTimespan
	tg := w.targetsFor()
	L := tg[0]
	A, B := L, L
	if len(tg) > 2 {
		A, B = tg[1], tg[2]
	}
	gbits := w.gen.x.Bits
	small := I <= 8

	// ---- retarget boundaries: candidate height k*I ------------------------
	spans := []int64{T/4 - 1, T / 4, T/4 + 1, T - 1, T, T + 1, 4*T - 1, 4 * T, 4*T + 1, 0, -1, -T, 2 * T, T / 2, T/3 + 1}
	ks := []int64{1, 2}
	if small {
		ks = append(ks, 3)
	}
	newDts := []int64{s, -601}
	if w.rp.EnforceBIP94 {
		newDts = []int64{-601, -600, -599, 1, s}
	}
	for _, k := range ks {
		firsts := []uint32{A, L}
		if w.rp.EnforceBIP94 {
			firsts = tg
		}
		if k == 1 {
			firsts = []uint32{gbits} // first block of the window is genesis
		}
		for _, fb := range firsts {
			var pre []Seg
			if k > 1 {
				prevBits := B
				if fb == B {
					prevBits = A
				}
				pre = []Seg{{N: int((k-1)*I - 1), Bits: prevBits, Dt: s}, {N: 1, Bits: fb, Dt: s}}
			}
			midBits := A
			if fb == A {
				midBits = B
			}
			mid := Seg{N: int(I - 2), Bits: midBits, Dt: s}
			lasts := tg
			if !thorough && !small && !w.rp.EnforceBIP94 && len(lasts) > 10 {
				lasts = lasts[:10]
			}
			for _, lb := range lasts {
				for _, span := range spans {
					dtLast := span - (I-2)*s
					if I < 2 {
						continue
					}
					nds := newDts
					if span != T && span != T/4-1 && lb != L {
						nds = newDts[len(newDts)-1:] // candidate time only matters for the header-context verdict
					}
					for _, nd := range nds {
						c := &histCase{Spec: w.spec, NewDt: nd}
						c.Segs = append(c.Segs, pre...)
						if mid.N > 0 {
							c.Segs = append(c.Segs, mid)
						}
						c.Segs = append(c.Segs, Seg{N: 1, Bits: lb, Dt: dtLast})
						emit(c)
					}
				}
			}
		}
	}

	// ---- inside a window: candidate height k*I+j+1, last block at k*I+j ------
	dts := []int64{2*s - 1, 2 * s, 2*s + 1, 1, s, 0, -7, 2*s + 1000}
	for _, k := range []int64{0, 1, 2} {
		starts := []uint32{A, L}
		if k == 0 {
			starts = []uint32{gbits}
		}
		for _, wb := range starts {
			var pre []Seg
			if k > 0 {
				prevBits := L
				if wb == L {
					prevBits = A
				}
				pre = []Seg{{N: int(k*I - 1), Bits: prevBits, Dt: s}, {N: 1, Bits: wb, Dt: s}}
			}
			var pats [][]Seg
			if small {
				// all patterns over {L, A, B} for the j blocks after the window start, j = 0..I-2
				alpha := []uint32{L, A, B}
				var rec func(cur []Seg, j int64)
				rec = func(cur []Seg, j int64) {
					pats = append(pats, append([]Seg(nil), cur...))
					if j == I-2 {
						return
					}
					for _, b := range alpha {
						rec(append(cur, Seg{N: 1, Bits: b, Dt: s}), j+1)
					}
				}
				rec(nil, 0)
			} else {
				for _, j := range []int64{0, 1, 2, 3, 7, I - 2} {
					for _, X := range []uint32{B, L} {
						for _, run := range []int64{0, 1, 2, 3, j} {
							if run > j {
								continue
							}
							pats = append(pats, []Seg{{N: int(j - run), Bits: X, Dt: s}, {N: int(run), Bits: L, Dt: s}})
						}
					}
				}
			}
			for _, pat := range pats {
				for _, nd := range dts {
					c := &histCase{Spec: w.spec, NewDt: nd}
					c.Segs = append(c.Segs, pre...)
					c.Segs = append(c.Segs, pat...)
					emit(c)
				}
			}
		}
	}
}

func retargetSection(r *ev.Run, specs []ParamSpec, workers int) {
	ev.Par(len(specs), workers, func(i int) {
		w := newWorld(r, specs[i])
		defer w.close()
		n := 0
		w.genHist(r.Thorough(), func(c *histCase) {
			if r.Violations() > 100 {
				return
			}
			w.runHist(c)
			n++
			if n == 7 && (specs[i].Name == "testnet4" || specs[i].Name == "w4/mindiff+bip94/l224/g1") {
				p := w.build(c.Segs)
				nt := p.x.Time + c.NewDt
				got, _ := w.ch.BC.VerifC09NextRequired(p.n, time.Unix(nt, 0))
				r.Sample(map[string]interface{}{"kind": "hist", "case": c.key(), "required_bits": fmt.Sprintf("%#08x", got)})
			}
		})
		r.Add("retarget_histories", int64(n))
		r.Add("retarget_nodes_built", w.nodes)
		r.Add("retarget_not_demanded_core_wraps", w.notDemanded)
	})
}
