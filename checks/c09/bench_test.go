package main

import "testing"

// BenchmarkSweepValue measures the per-value cost of the 2^32 sweep oracle.
func BenchmarkSweepValue(b *testing.B) {
	var s sweeper
	for i := 0; i < b.N; i++ {
		c := uint32(i) * 2654435761
		if !s.ok(c) {
			b.Fatal(c)
		}
	}
}

func BenchmarkSweepValueLowExp(b *testing.B) {
	var s sweeper
	for i := 0; i < b.N; i++ {
		c := (uint32(i)*2654435761)&0x00ffffff | uint32(i%0x22)<<24
		if !s.ok(c) {
			b.Fatal(c)
		}
	}
}
