package main

import (
	"fmt"
	"math/big"
	"time"

	"github.com/btcsuite/btcd/blockchain"
	"github.com/btcsuite/btcd/chainhash/v2"
	"github.com/btcsuite/btcd/wire/v2"

	"verif/engine/ev"
	"verif/lab"
	"verif/ref/refpow"
)

// Hdr is one header of a path: absolute time and bits.
type Hdr struct {
	Time int64  `json:"time"`
	Bits uint32 `json:"bits"`
}

// hdrCase: accepted path from genesis + one candidate header.
type hdrCase struct {
	Kind string    `json:"kind"` // "hdr"
	Spec ParamSpec `json:"spec"`
	Path []Hdr     `json:"path"`
	Cand Hdr       `json:"cand"`
}

func (c *hdrCase) key() string {
	s := c.Spec.Name
	for _, h := range c.Path {
		s += fmt.Sprintf("/%d:%08x", h.Time, h.Bits)
	}
	return s + fmt.Sprintf("/cand=%d:%08x", c.Cand.Time, c.Cand.Bits)
}

type hdrWorld struct {
	*world
	now    int64
	maxH   int64
	n      int64
	acc    int64
	capped bool
}

func mkHeader(prev chainhash.Hash, h Hdr) *wire.BlockHeader {
	return &wire.BlockHeader{Version: hdrVersion, PrevBlock: prev, Bits: h.Bits, Timestamp: time.Unix(h.Time, 0)}
}

// tryCandidate feeds one candidate header to the real ProcessBlockHeader and
// compares with the reference; returns whether it was accepted.
func (w *hdrWorld) tryCandidate(prevHash chainhash.Hash, prev *refpow.Index, prevWork *big.Int, path []Hdr, cand Hdr, replaying bool) (accepted bool, sub, what string) {
	v := refpow.CheckHeader(prev, cand.Time, cand.Bits, w.now, w.rp)
	if v.NotDefined {
		w.notDemanded++
		return false, "", ""
	}
	hdr := mkHeader(prevHash, cand)
	var err error
	if pn := safe(func() { _, err = w.ch.BC.ProcessBlockHeader(hdr, blockchain.BFNoPoWCheck, true) }); pn != nil {
		return false, "ProcessBlockHeader/panic", fmt.Sprintf("panic: %v", pn)
	}
	w.n++
	if s, d := cmpHeaderVerdict(err, v.OK(), v, true); s != "" {
		return err == nil, "ProcessBlockHeader/" + s, fmt.Sprintf("header at height %d time %d (prev %d, mtp %d, now %d) bits %#08x: %s",
			prev.Height+1, cand.Time, prev.Time, prev.MedianTimePast(), w.now, cand.Bits, d)
	}
	if err != nil {
		return false, "", ""
	}
	// accepted: the index node must carry parent work + GetBlockProof, strictly more than the parent
	hh := hdr.BlockHash()
	node := w.ch.BC.VerifC09LookupNode(&hh)
	if node.IsNil() {
		return true, "ProcessBlockHeader/index", "accepted header is not in the block index"
	}
	sum := new(big.Int).Add(prevWork, refpow.BlockProof(cand.Bits))
	if got := node.WorkSum(); got.Cmp(sum) != 0 || got.Cmp(prevWork) <= 0 {
		return true, "workSum", fmt.Sprintf("accepted header at height %d bits %#08x: cumulative work %s, parent %s, reference %s", prev.Height+1, cand.Bits, got.Text(16), prevWork.Text(16), sum.Text(16))
	}
	// The bound ProcessBlock applies to blocks that follow a checkpoint must
	// never exclude a difficulty the protocol itself requires.  This header was
	// accepted, so the chain up to it is valid: whichever of its ancestors is
	// taken as the checkpoint, calcEasiestDifficulty(ancestor bits, elapsed
	// time) has to be at least as easy as this header's bits (a necessary
	// condition; a node with that checkpoint would otherwise refuse a valid
	// chain).  Checked for the three nearest ancestors.
	// (Not demanded on minimum-difficulty networks, where the 20-minute rule
	// looks at the parent's timestamp while the bound measures time from the
	// checkpoint, nor for headers stamped at or before the ancestor's time.)
	if ct := compactTarget(cand.Bits); ct != nil && !w.rp.AllowMinDifficulty {
		for a, k := prev, 0; a != nil && k < 3; a, k = a.Prev, k+1 {
			d := cand.Time - a.Time
			if d <= 0 {
				continue
			}
			var eb uint32
			if pn := safe(func() { eb = w.ch.BC.VerifC09EasiestDifficulty(a.Bits, d) }); pn != nil {
				return true, "EasiestDifficulty/panic", fmt.Sprintf("calcEasiestDifficulty panicked: %v", pn)
			}
			if et := compactTarget(eb); et == nil || et.Cmp(ct) < 0 {
				return true, "EasiestDifficulty", fmt.Sprintf("calcEasiestDifficulty(bits %#08x of the block at height %d, %d s) = %#08x is harder than the bits %#08x of the valid header at height %d, %d s later: a node with a checkpoint at that block refuses this header",
					a.Bits, a.Height, d, eb, cand.Bits, prev.Height+1, d)
			}
		}
	}
	return true, "", ""
}

func uniqI64(in []int64) []int64 {
	seen := map[int64]bool{}
	var out []int64
	for _, v := range in {
		if v < 1 || v > 0xffffffff || seen[v] {
			continue
		}
		seen[v] = true
		out = append(out, v)
	}
	return out
}

func (w *hdrWorld) dfs(prevHash chainhash.Hash, prev *refpow.Index, prevWork *big.Int, path []Hdr) {
	if prev.Height >= w.maxH || w.r.Violations() > 100 {
		return
	}
	if w.r.Expired() {
		w.capped = true
		return
	}
	s := w.rp.TargetSpacing
	mtp := prev.MedianTimePast()
	L := refpow.GetCompact(w.rp.PowLimit, false)
	// times that are extended further (simplest first) and times only probed
	ext := uniqI64([]int64{prev.Time + s, mtp + 1, prev.Time + 2*s + 1})
	boundary := (prev.Height+1)%w.rp.Interval() == 0
	if boundary && w.rp.EnforceBIP94 {
		ext = uniqI64(append(ext, prev.Time-600))
	}
	probe := uniqI64([]int64{mtp, mtp - 1, prev.Time + 2*s, prev.Time - 600, prev.Time - 601, prev.Time - 599, w.now + 7200, w.now + 7201})
	isExt := map[int64]bool{}
	for _, t := range ext {
		isExt[t] = true
	}
	for _, t := range uniqI64(append(append([]int64{}, ext...), probe...)) {
		req := refpow.GetNextWorkRequired(prev, t, w.rp)
		bitsSet := []uint32{req.Bits, L, req.Bits ^ 1, req.Bits | 0x00800000, 0, 0xff123456, prev.Bits, req.Bits + 0x01000000}
		seen := map[uint32]bool{}
		for _, b := range bitsSet {
			if seen[b] {
				continue
			}
			seen[b] = true
			cand := Hdr{Time: t, Bits: b}
			acc, sub, what := w.tryCandidate(prevHash, prev, prevWork, path, cand, false)
			c := &hdrCase{Kind: "hdr", Spec: w.spec, Path: path, Cand: cand}
			w.r.Eval(1)
			w.r.Trace(1)
			w.r.Trans(1)
			w.r.Nontrivial("hdr/" + c.key())
			if sub != "" {
				cc := *c
				cc.Path = append([]Hdr(nil), path...)
				// re-run on fresh chains three times
				for i := 0; i < 3; i++ {
					if s2, _ := replayHdr(w.r, &cc); s2 != sub {
						w.r.Broken("%s: verdict flipped on re-run (%q vs %q)", cc.key(), sub, s2)
					}
				}
				w.r.Violation(sub+"/"+cc.key(), w.spec.Name+": "+what, cc)
				continue
			}
			if acc {
				w.acc++
				w.r.State(1)
				if isExt[t] && b == req.Bits {
					hh := mkHeader(prevHash, cand).BlockHash()
					nx := &refpow.Index{Prev: prev, Height: prev.Height + 1, Time: t, Bits: b}
					w.dfs(hh, nx, new(big.Int).Add(prevWork, refpow.BlockProof(b)), append(path, cand))
				}
			}
		}
	}
}

func newHdrWorld(r *ev.Run, spec ParamSpec) *hdrWorld {
	w := newWorld(r, spec)
	return &hdrWorld{world: w, now: lab.Now.Unix()}
}

// replayHdr re-executes one hdrCase on a fresh chain.
func replayHdr(r *ev.Run, c *hdrCase) (sub, what string) {
	w := newHdrWorld(r, c.Spec)
	defer w.close()
	prevHash := *w.ip.GenesisHash
	prev := w.gen.x
	work := w.gen.w
	for i, h := range c.Path {
		acc, s, d := w.tryCandidate(prevHash, prev, work, c.Path[:i], h, true)
		if s != "" {
			return s, d
		}
		if !acc {
			return "replay/path-rejected", fmt.Sprintf("path header %d (%+v) was rejected", i, h)
		}
		prevHash = mkHeader(prevHash, h).BlockHash()
		prev = &refpow.Index{Prev: prev, Height: prev.Height + 1, Time: h.Time, Bits: h.Bits}
		work = new(big.Int).Add(work, refpow.BlockProof(h.Bits))
	}
	_, s, d := w.tryCandidate(prevHash, prev, work, c.Path, c.Cand, true)
	return s, d
}

func headerSection(r *ev.Run, specs []ParamSpec, workers int) {
	ev.Par(len(specs), workers, func(i int) {
		spec := specs[i]
		w := newHdrWorld(r, spec)
		defer w.close()
		I := w.rp.Interval()
		// candidate headers are tried at heights 1..maxH
		switch {
		case I <= 2:
			w.maxH = int64(r.Pick(5, 7))
		case I == 3:
			w.maxH = 7
		case I == 4:
			w.maxH = int64(r.Pick(6, 7))
		default:
			w.maxH = I
		}
		w.dfs(*w.ip.GenesisHash, w.gen.x, w.gen.w, nil)
		if w.capped {
			r.Cap("header DFS for " + spec.Name + " cut by the time box")
		}
		r.Add("header_candidates", w.n)
		r.Add("header_accepted", w.acc)
		r.Add("header_not_demanded_core_wraps", w.notDemanded)
	})
}
