// C09 — PoW target, work, retarget and subsidy arithmetic match the protocol.
//
// Bounded exhaustive enumeration of the real btcd arithmetic against refpow, a
// math/big model written from Bitcoin Core's arith_uint256 / pow.cpp /
// validation.cpp:
//
//	compact   every exponent x boundary mantissas (quick) / all 2^32 compact
//	          values (thorough): CompactToBig, BigToCompact normal form, CalcWork,
//	          checkProofOfWork range verdict for 7 pow limits
//	targets   2^k, 2^k±1, byte-boundary patterns, both signs -> BigToCompact
//	retarget  calcNextRequiredDifficulty + CheckBlockHeaderContext on detached
//	          index-only header histories (hook) around retarget boundaries and
//	          inside windows for the six shipped networks and synthetic parameter
//	          sets with windows 2/3/4(/8)
//	headers   depth-first search over header sequences fed to the real
//	          ProcessBlockHeader (BFNoPoWCheck) on small-window networks
//	mtp       all timestamp sequences of 1..12(13) blocks over 3 values
//	subsidy   all halving boundaries for 12 intervals, every height for small
//	          ones, totals
//	pow       hash <= target on enumerated nonces, HashToBig
package main

import (
	"fmt"
	"math/big"
	"runtime"
	"time"

	"verif/engine/ev"
	"verif/ref/refpow"
)

func main() {
	r := ev.Start("C09")
	r.Rule("one case = one concrete input executed on btcd and compared with refpow: a compact value (all oracles), a signed 256-bit target, " +
		"a (parameter set, header history, candidate time[, candidate bits]) tuple, a timestamp sequence, an (interval, height) pair or a (bits, nonce) header; " +
		"distinct_nontrivial counts distinct case encodings of the grid/target/history/header/mtp/subsidy-boundary/pow-boundary cases (the 2^32 sweep and the every-height subsidy loops are counted in evaluations and in named counters only)")
	r.Assume("wire.BlockHeader.BlockHash (double SHA-256 of the 80-byte serialisation) is correct (property C08/C13)")
	r.Assume("refpow follows Bitcoin Core's arith_uint256/pow.cpp/validation.cpp; it is bound to Core's arith_uint256_tests and pow_tests vectors, the shipped workmath test vectors and the shipped genesis blocks before anything is compared")
	r.Assume("retarget results that depend on Core's 256-bit wrap-around (pow limits above 2^232, i.e. simnet/regtest-sized limits with retargeting) are not demanded and are counted as *_not_demanded_core_wraps")
	r.Assume("no-retarget parameter sets are explored on reachable histories only (every block carries the pow limit bits, as the rule itself enforces)")

	bindReference(r)

	if r.ReplayPath != "" {
		replay(r)
		r.Finish(false)
		return
	}

	thorough := r.Thorough()
	if thorough {
		r.SetBudget(12 * time.Minute)
	}
	workers := runtime.NumCPU()

	secs := map[string]float64{}
	timed := func(name string, f func()) {
		t0 := time.Now()
		f()
		secs[name] = float64(int(time.Since(t0).Seconds()*10)) / 10
	}
	specs := append(append([]ParamSpec{}, namedSpecs...), syntheticSpecs(thorough)...)
	var hspecs []ParamSpec
	for _, s := range syntheticSpecs(thorough) {
		// quick: all window-2 sets, the others with the 2^224-1 and 2^40-1 limits
		if thorough || s.TimespanS/s.SpacingS == 2 || s.PowLimitHex == limit224 || s.PowLimitHex == limit40 {
			hspecs = append(hspecs, s)
		}
	}

	timed("chaincfg", func() { chaincfgCheck(r) })
	timed("compact_grid", func() { compactGrid(r) })
	timed("targets", func() { targetsCheck(r) })
	timed("subsidy", func() { subsidySection(r) })
	timed("pow_hash", func() { powSection(r, r.Pick(1<<15, 1<<19)) })
	timed("mtp", func() { mtpSection(r, r.Pick(12, 13)) })
	timed("retarget", func() { retargetSection(r, specs, workers) })
	timed("header_dfs", func() { headerSection(r, hspecs, workers) })

	exhaustive := true
	if thorough {
		timed("compact_range_grid", func() { compactRangeGrid(r) })
		timed("subsidy_all_heights", func() { subsidyAllHeights(r) })
		timed("compact_sweep", func() { sweepAll(r) })
	}
	r.Set("section_wall_s", secs)

	names := make([]string, 0, len(specs))
	for _, s := range specs {
		names = append(names, s.Name)
	}
	r.Set("bounds", map[string]interface{}{
		"compact_grid":                        fmt.Sprintf("exponents 0..255 x %d mantissa/sign patterns, range verdict for %d pow limits", len(gridMantissas), len(rangeLimits)),
		"compact_sweep":                       map[bool]string{true: "all 2^32 compact values (see compact_sweep)", false: "not in quick"}[thorough],
		"targets":                             "0, 2^k-1, 2^k, 2^k+1 (k=0..256, capped at 2^256-1), 16 byte patterns x 32 byte offsets x 4 low-fill variants, both signs",
		"retarget_param_sets":                 names,
		"retarget_histories":                  "candidate heights k*I (k=1,2[,3]) with last/first bits from the in-range target list x actual timespans {T/4-1,T/4,T/4+1,T-1,T,T+1,4T-1,4T,4T+1,0,-1,-T,2T,T/2,T/3+1} x candidate times; candidate heights k*I+j+1 (k=0,1,2) with all {limit,A,B} bit patterns of the window prefix (small windows) or run-length shapes (2016 windows) x candidate time deltas {2s-1,2s,2s+1,1,s,0,-7,2s+1000}",
		"header_dfs":                          "ProcessBlockHeader: per node times {prev+s, mtp+1, prev+2s+1 (extended; prev-600 too at BIP94 boundaries), mtp, mtp-1, prev+2s, prev-600, prev-601, prev-599, now+7200, now+7201} x bits {required, limit, required^1, required|sign, 0, 0xff123456, prev bits, required+exp}; candidate heights 1..maxH, maxH = 5 (quick) / 7 (thorough) for window 2, 7 for window 3, 6/7 for window 4, 8 for window 8",
		"mtp":                                 fmt.Sprintf("all sequences of 1..%d timestamps from 3 values", r.Pick(12, 13)),
		"subsidy":                             "intervals {150,210000,1,2,3,1000,209999,210001,2^20,2^25,2^31-1,0}: heights k*I-1,k*I,k*I+1 (k=0..65), 2^31-1; every height 0..66*I+1 for I<=210001; thorough: all 2^31 heights for 210000 and 150",
		"pow_hash":                            fmt.Sprintf("10 bits values x nonces 0..%d x 3 limits", r.Pick(1<<15, 1<<19)),
		"max_pow_limit_for_retarget_equality": "2^232 (synthetic); simnet/regtest limits only where Core's arithmetic does not wrap",
	})
	_ = big.NewInt
	_ = refpow.Coin
	r.Finish(exhaustive)
}

// replay re-runs exactly one recorded case.
func replay(r *ev.Run) {
	var k struct {
		Kind string `json:"kind"`
	}
	r.LoadReplay(&k)
	switch k.Kind {
	case "compact":
		var c compactReplay
		r.LoadReplay(&c)
		reportCompact(r, c.Compact, true)
	case "target":
		var t targetReplay
		r.LoadReplay(&t)
		n, ok := new(big.Int).SetString(t.Target, 16)
		if !ok {
			r.Broken("bad target in replay")
		}
		if sub, what := checkTarget(n); sub != "" {
			r.Violation(fmt.Sprintf("%s/target=%s", sub, n.Text(16)), what, t)
		}
	case "hist":
		var c histCase
		r.LoadReplay(&c)
		w := newWorld(r, c.Spec)
		defer w.close()
		w.runHist(&c)
	case "hdr":
		var c hdrCase
		r.LoadReplay(&c)
		if sub, what := replayHdr(r, &c); sub != "" {
			r.Violation(sub+"/"+c.key(), c.Spec.Name+": "+what, c)
		}
	case "mtp":
		var m mtpReplay
		r.LoadReplay(&m)
		w := newWorld(r, mtpSpec(m.Times[0]))
		defer w.close()
		if sub, what := evalMTP(w, m.Times); sub != "" {
			r.Violation(fmt.Sprintf("%s/times=%v", sub, m.Times), what, m)
		}
	case "subsidy":
		var s subsidyReplay
		r.LoadReplay(&s)
		reportSubsidy(r, s.Interval, s.Height)
		if r.Violations() == 0 {
			subsidySection(r)
		}
	case "pow":
		var p powReplay
		r.LoadReplay(&p)
		lim, _ := new(big.Int).SetString(p.Limit, 16)
		if sub, what, _ := evalPow(p.Bits, p.Nonce, lim); sub != "" {
			r.Violation(fmt.Sprintf("%s/bits=%08x/nonce=%d/limit=%s", sub, p.Bits, p.Nonce, lim.Text(16)), what, p)
		}
	case "chaincfg":
		chaincfgCheck(r)
	case "chainctx":
		var c struct {
			Spec ParamSpec `json:"spec"`
		}
		r.LoadReplay(&c)
		w := newWorld(r, c.Spec)
		w.close()
	case "hashtobig":
		powSection(r, 1)
	default:
		r.Broken("unknown replay kind %q", k.Kind)
	}
}
