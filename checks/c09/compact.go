package main

import (
	"fmt"
	"math/big"
	"runtime"
	"sync/atomic"

	"github.com/btcsuite/btcd/blockchain"
	"github.com/btcsuite/btcd/wire/v2"

	"verif/engine/ev"
	"verif/ref/refpow"
)

// powLimits used for the range verdict.
var rangeLimits = []struct {
	name string
	v    *big.Int
}{
	{"mainnet", hexBig(limit224)},
	{"signet", hexBig(limitSig)},
	{"regtest", hexBig("7fffffffffffffffffffffffffffffffffffffffffffffffffffffffffffffff")},
	{"2^232", hexBig(limit232)},
	{"2^256-1", refpow.Max256},
	{"2^40-1", hexBig(limit40)},
	{"1", big.NewInt(1)},
}

type compactReplay struct {
	Kind    string `json:"kind"` // "compact"
	Compact uint32 `json:"compact"`
}

func safe(f func()) (panicked interface{}) {
	defer func() {
		if p := recover(); p != nil {
			panicked = p
		}
	}()
	f()
	return nil
}

// checkCompactValue runs every per-compact oracle on c.  withRange adds the
// proof-of-work range verdict for all rangeLimits.  Returns "" or the first
// discrepancy (sub-check name, description).
func checkCompactValue(c uint32, withRange bool) (sub, what string) {
	var n, w *big.Int
	var c2 uint32
	if p := safe(func() {
		n = blockchain.CompactToBig(c)
		c2 = blockchain.BigToCompact(n)
		w = blockchain.CalcWork(c)
	}); p != nil {
		return "panic", fmt.Sprintf("compact %#08x: panic %v", c, p)
	}
	val, neg, ovf := refpow.SetCompact(c)
	if !ovf {
		want := val
		if neg {
			want = new(big.Int).Neg(val)
		}
		if n.Cmp(want) != 0 {
			return "CompactToBig", fmt.Sprintf("CompactToBig(%#08x) = %s, protocol (SetCompact) value %s", c, n.Text(16), want.Text(16))
		}
		// normal form: BigToCompact(CompactToBig(c)) must be GetCompact of the value
		wantC := refpow.GetCompact(val, neg)
		if c2 != wantC {
			return "BigToCompact", fmt.Sprintf("BigToCompact(CompactToBig(%#08x)=%s) = %#08x, GetCompact gives %#08x", c, n.Text(16), c2, wantC)
		}
	} else {
		// Core: value does not fit 256 bits.  btcd's unbounded integer must at
		// least be outside the 256-bit range with the sign of the encoding.
		if n.BitLen() <= 256 || (n.Sign() < 0) != neg {
			return "CompactToBig", fmt.Sprintf("CompactToBig(%#08x) = %s but the encoded number overflows 256 bits (negative=%v)", c, n.Text(16), neg)
		}
	}
	wantW := refpow.BlockProof(c)
	if w.Cmp(wantW) != 0 {
		return "CalcWork", fmt.Sprintf("CalcWork(%#08x) = %s, GetBlockProof = %s", c, w.Text(16), wantW.Text(16))
	}
	if !neg && !ovf && val.Sign() > 0 && w.Sign() <= 0 {
		return "CalcWork", fmt.Sprintf("CalcWork(%#08x) = %s is not positive for a valid target", c, w.Text(16))
	}
	if withRange {
		// the numbers returned belong to the caller (btcd's own initBlockNode
		// accumulates the chain work into CalcWork's result in place): scribbling
		// on them must not change what later calls return
		n0 := new(big.Int).Set(n)
		n.Add(n, big.NewInt(1))
		w.Add(w, big.NewInt(1))
		if n2 := blockchain.CompactToBig(c); n2.Cmp(n0) != 0 {
			return "CompactToBig", fmt.Sprintf("CompactToBig(%#08x) = %s after the caller modified the number returned by an earlier call (%s then): results are shared", c, n2.Text(16), n0.Text(16))
		}
		if w2 := blockchain.CalcWork(c); w2.Cmp(wantW) != 0 {
			return "CalcWork", fmt.Sprintf("CalcWork(%#08x) = %s after the caller added 1 to the number returned by an earlier call, GetBlockProof = %s: results are shared between calls", c, w2.Text(16), wantW.Text(16))
		}
		hdr := wire.BlockHeader{Version: 1, Bits: c}
		for _, l := range rangeLimits {
			var err error
			if p := safe(func() { err = blockchain.VerifC09CheckProofOfWork(&hdr, l.v, blockchain.BFNoPoWCheck) }); p != nil {
				return "panic", fmt.Sprintf("checkProofOfWork(bits=%#08x, limit %s): panic %v", c, l.name, p)
			}
			want := refpow.TargetInRange(c, l.v)
			if (err == nil) != want {
				return "checkProofOfWork/range", fmt.Sprintf("checkProofOfWork(bits=%#08x, powLimit=%s) accepted=%v, protocol range verdict %v (err=%v)", c, l.name, err == nil, want, err)
			}
			if err != nil {
				if re, ok := err.(blockchain.RuleError); !ok || re.ErrorCode != blockchain.ErrUnexpectedDifficulty {
					return "checkProofOfWork/range", fmt.Sprintf("checkProofOfWork(bits=%#08x, powLimit=%s) error %v is not ErrUnexpectedDifficulty", c, l.name, err)
				}
			}
		}
	}
	return "", ""
}

func reportCompact(r *ev.Run, c uint32, withRange bool) {
	sub, what := checkCompactValue(c, withRange)
	if sub == "" {
		return
	}
	for i := 0; i < 3; i++ {
		s2, _ := checkCompactValue(c, withRange)
		if s2 != sub {
			r.Broken("compact %#08x: verdict flipped on re-run (%q vs %q)", c, sub, s2)
		}
	}
	r.Violation(fmt.Sprintf("%s/compact=%#08x", sub, c), what, compactReplay{Kind: "compact", Compact: c})
}

var gridMantissas = []uint32{0, 1, 0x7f, 0x80, 0xff, 0x100, 0x7fff, 0x8000, 0xffff, 0x10000, 0x7fffff, 0x800000, 0x800001, 0xffffff,
	0x008000, 0x00ffff, 0x010000, 0x123456, 0x923456, 0x00ff00, 0x80ffff, 0x8000ff, 0x800100}

// compactGrid: all 256 exponents x boundary mantissas (incl. sign bit), with
// the range verdict.
func compactGrid(r *ev.Run) {
	n := 0
	var sw sweeper
	for e := uint32(0); e < 256; e++ {
		for _, m := range gridMantissas {
			c := e<<24 | m
			reportCompact(r, c, true)
			if sub, _ := checkCompactValue(c, false); sw.ok(c) != (sub == "") {
				r.Broken("sweep oracle and refpow oracle disagree on compact %#08x", c)
			}
			r.Eval(1)
			r.Trace(1)
			r.Nontrivial(fmt.Sprintf("compact/%08x", c))
			n++
		}
	}
	r.Add("compact_grid_values", int64(n))
	r.Sample(map[string]interface{}{"kind": "compact", "compact": "0x1d00ffff", "CompactToBig": blockchain.CompactToBig(0x1d00ffff).Text(16), "CalcWork": blockchain.CalcWork(0x1d00ffff).Text(16)})
}

// compactRangeGrid (thorough): every exponent x every top mantissa byte
// (incl. sign) x boundary low-16-bit patterns, with the range verdict.
func compactRangeGrid(r *ev.Run) {
	lows := []uint32{0, 1, 2, 0x7f, 0x80, 0xff, 0x100, 0x101, 0x7fff, 0x8000, 0x8001, 0xff00, 0xfffe, 0xffff, 0xae00, 0x1234}
	var cnt int64
	ev.Par(256, runtime.NumCPU(), func(e int) {
		for hi := uint32(0); hi < 256; hi++ {
			for _, lo := range lows {
				c := uint32(e)<<24 | hi<<16 | lo
				reportCompact(r, c, true)
				atomic.AddInt64(&cnt, 1)
			}
		}
	})
	r.Eval(int(cnt))
	r.Trace(int(cnt))
	r.Add("compact_range_grid_values", cnt)
}

// targets: 2^k, 2^k±1 and byte-boundary patterns, both signs, 0 <= |n| < 2^256.
func targetList() []*big.Int {
	var out []*big.Int
	add := func(v *big.Int) {
		if v.Sign() < 0 || v.Cmp(refpow.Max256) > 0 {
			return
		}
		out = append(out, v)
	}
	one := big.NewInt(1)
	add(big.NewInt(0))
	for k := uint(0); k <= 256; k++ {
		p := new(big.Int).Lsh(one, k)
		add(new(big.Int).Sub(p, one))
		add(p)
		add(new(big.Int).Add(p, one))
	}
	pats := []int64{0x7fffff, 0x800000, 0x800001, 0xffffff, 0x7fff, 0x8000, 0xffff, 0x10000, 0x7f, 0x80, 0xff, 0x100, 0x0377ae, 0x7fffffff, 0x80000000, 0xffffffff}
	for j := uint(0); j <= 31; j++ {
		for _, m := range pats {
			v := new(big.Int).Lsh(big.NewInt(m), 8*j)
			add(v)
			// same with all lower bytes set / lowest bit set
			low := new(big.Int).Sub(new(big.Int).Lsh(one, 8*j), one)
			add(new(big.Int).Or(v, low))
			add(new(big.Int).Or(v, one))
			add(new(big.Int).Sub(v, one))
		}
	}
	return out
}

type targetReplay struct {
	Kind   string `json:"kind"` // "target"
	Target string `json:"target"`
}

// negInexact: a negative number that is not the exact image of a compact value
// (non-zero bits below the mantissa).  Decided by the reference alone.
func negInexact(n *big.Int) bool {
	if n.Sign() >= 0 {
		return false
	}
	wb, ok := refpow.SignedFromCompact(refpow.CompactFromSigned(n))
	return !ok || wb.Cmp(n) != 0
}

func checkTarget(n *big.Int) (sub, what string) {
	var c uint32
	var back *big.Int
	if p := safe(func() { c = blockchain.BigToCompact(n); back = blockchain.CompactToBig(c) }); p != nil {
		return "panic", fmt.Sprintf("BigToCompact(%s): panic %v", n.Text(16), p)
	}
	want := refpow.CompactFromSigned(n)
	if negInexact(n) {
		// Outside the property's domain (unsigned 256-bit targets and exact
		// images of compact values): only "does not panic" is demanded.
		return "", ""
	}
	if c != want {
		return "BigToCompact", fmt.Sprintf("BigToCompact(%s) = %#08x, GetCompact gives %#08x", n.Text(16), c, want)
	}
	// decoding the result gives n with everything below the top 3 (or 2) bytes cleared
	wb, ok := refpow.SignedFromCompact(want)
	if ok && back.Cmp(wb) != 0 {
		return "CompactToBig", fmt.Sprintf("CompactToBig(BigToCompact(%s)=%#08x) = %s, want %s", n.Text(16), c, back.Text(16), wb.Text(16))
	}
	return "", ""
}

func targetsCheck(r *ev.Run) {
	ts := targetList()
	cnt, skipped := 0, 0
	for _, t := range ts {
		for _, sgn := range []int{1, -1} {
			n := new(big.Int).Set(t)
			if sgn < 0 {
				if t.Sign() == 0 {
					continue
				}
				n.Neg(n)
			}
			orig := new(big.Int).Set(n)
			sub, what := checkTarget(n)
			if n.Cmp(orig) != 0 {
				sub, what = "BigToCompact/mutates-argument", fmt.Sprintf("BigToCompact modified its argument %s -> %s", orig.Text(16), n.Text(16))
				n = orig
			}
			if sub != "" {
				for i := 0; i < 3; i++ {
					if s2, _ := checkTarget(n); s2 != sub && sub != "BigToCompact/mutates-argument" {
						r.Broken("target %s: verdict flipped", n.Text(16))
					}
				}
				r.Violation(fmt.Sprintf("%s/target=%s", sub, n.Text(16)), what, targetReplay{Kind: "target", Target: n.Text(16)})
			}
			r.Eval(1)
			if negInexact(n) {
				skipped++
				continue
			}
			r.Trace(1)
			r.Nontrivial("target/" + n.Text(16))
			cnt++
		}
	}
	r.Add("bigtocompact_targets", int64(cnt))
	r.Add("info_negative_inexact_not_demanded", int64(skipped))
}

// sweeper is the allocation-free formulation of the per-compact oracle used by
// the 2^32 sweep: the same SetCompact / GetCompact / GetBlockProof steps as
// refpow, on scratch big.Ints.  Every disagreement is re-judged by the plain
// refpow oracle (checkCompactValue) before it is reported, and the two
// formulations are cross-checked on the whole quick grid.
type sweeper struct {
	want, tmp, not, den, q, rem big.Int
	cur                         uint32
}

var bigOne = big.NewInt(1)

func (s *sweeper) ok(c uint32) bool {
	s.cur = c
	n := blockchain.CompactToBig(c)
	c2 := blockchain.BigToCompact(n)
	w := blockchain.CalcWork(c)

	// SetCompact
	nSize := c >> 24
	nWord := c & 0x007fffff
	if nSize <= 3 {
		nWord >>= 8 * (3 - nSize)
	}
	neg := nWord != 0 && c&0x00800000 != 0
	ovf := nWord != 0 && (nSize > 34 || (nWord > 0xff && nSize > 33) || (nWord > 0xffff && nSize > 32))
	if ovf {
		return n.BitLen() > 256 && (n.Sign() < 0) == neg && w.Sign() == 0
	}
	s.want.SetUint64(uint64(nWord))
	if nSize > 3 {
		s.want.Lsh(&s.want, uint(8*(nSize-3)))
	}
	if n.CmpAbs(&s.want) != 0 || (n.Sign() < 0) != neg {
		return false
	}
	// GetCompact
	size := (s.want.BitLen() + 7) / 8
	var comp uint64
	if size <= 3 {
		comp = s.want.Uint64() << (8 * uint(3-size))
	} else {
		s.tmp.Rsh(&s.want, uint(8*(size-3)))
		comp = s.tmp.Uint64()
	}
	if comp&0x00800000 != 0 {
		comp >>= 8
		size++
	}
	comp |= uint64(size) << 24
	if neg && comp&0x007fffff != 0 {
		comp |= 0x00800000
	}
	if c2 != uint32(comp) {
		return false
	}
	// GetBlockProof
	if neg || s.want.Sign() == 0 {
		return w.Sign() == 0
	}
	s.not.Xor(&s.want, refpow.Max256)
	s.den.Add(&s.want, bigOne)
	s.q.QuoRem(&s.not, &s.den, &s.rem)
	s.q.Add(&s.q, bigOne)
	return w.Sign() > 0 && w.Cmp(&s.q) == 0
}

// sweepRange runs the sweeper over [lo, lo+n); a panic inside btcd is reported
// for the value being processed.
func sweepRange(r *ev.Run, s *sweeper, lo uint32, n uint32) {
	defer func() {
		if p := recover(); p != nil {
			reportCompact(r, s.cur, false)
			if r.Violations() == 0 {
				r.Broken("compact %#08x panicked in the sweep (%v) but not in the plain oracle", s.cur, p)
			}
		}
	}()
	for i := uint32(0); i < n; i++ {
		c := lo + i
		if !s.ok(c) {
			if sub, _ := checkCompactValue(c, false); sub == "" {
				r.Broken("sweep oracle and refpow oracle disagree on compact %#08x", c)
			}
			reportCompact(r, c, false)
			if r.Violations() > 50 {
				return
			}
		}
	}
}

// sweepAll: all 2^32 compact values, 4096 shards of 2^20 in numeric order
// (exponent ascending), conversions + work (no range verdict: it is a function
// of the CompactToBig value which is compared for every input; the verdict
// itself is enumerated on compactGrid / compactRangeGrid).
func sweepAll(r *ev.Run) {
	const shards = 4096
	var done [shards]int32
	var vals int64
	ev.Par(shards, runtime.NumCPU(), func(sh int) {
		if r.Expired() || r.Violations() > 50 {
			return
		}
		var s sweeper
		sweepRange(r, &s, uint32(sh)<<20, 1<<20)
		if r.Violations() > 50 {
			return
		}
		atomic.AddInt64(&vals, 1<<20)
		done[sh] = 1
	})
	nd := 0
	prefix := -1
	for sh := 0; sh < shards; sh++ {
		if done[sh] == 1 {
			nd++
		} else if prefix < 0 {
			prefix = sh
		}
	}
	r.Eval(int(vals))
	r.Trace(int(vals))
	r.Add("compact_sweep_values", vals)
	r.Set("compact_sweep", map[string]interface{}{"shards_total": shards, "shards_done": nd, "shard_size": 1 << 20,
		"complete": nd == shards})
	if nd != shards {
		r.Cap(fmt.Sprintf("compact sweep stopped by the time box (or after >50 violations): %d of %d shards (2^20 values each) done; every compact value below %#08x was covered", nd, shards, uint64(prefix)<<20))
	}
}
