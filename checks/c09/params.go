package main

import (
	"fmt"
	"math/big"
	"time"

	"github.com/btcsuite/btcd/chaincfg/v2"
	"github.com/btcsuite/btcd/wire/v2"

	"verif/lab"
	"verif/ref/refpow"
)

// ParamSpec is a JSON-able description of one network parameter set.  Named
// networks (Base != "synthetic") use btcd's shipped chaincfg params unchanged
// on the implementation side and Bitcoin Core's chainparams constants
// (coreTable) on the reference side.
type ParamSpec struct {
	Name        string `json:"name"`
	Base        string `json:"base"`
	PowLimitHex string `json:"pow_limit,omitempty"`
	TimespanS   int64  `json:"timespan_s,omitempty"`
	SpacingS    int64  `json:"spacing_s,omitempty"`
	MinDiff     bool   `json:"min_diff,omitempty"`
	NoRetarget  bool   `json:"no_retarget,omitempty"`
	BIP94       bool   `json:"bip94,omitempty"`
	GenesisBits uint32 `json:"genesis_bits,omitempty"`
	GenesisTime int64  `json:"genesis_time,omitempty"`
}

// coreNet is one row of Bitcoin Core's kernel/chainparams.cpp.
type coreNet struct {
	powLimitHex string
	timespan    int64
	spacing     int64
	allowMin    bool
	noRetarget  bool
	bip94       bool
	halving     int64
	// compareTimespan: regtest's nPowTargetTimespan differs between Core (1 day)
	// and btcd (14 days); with fPowNoRetargeting and an all-powLimit chain the
	// value is unobservable, so it is not compared.
	compareTimespan bool
}

var coreTable = map[string]coreNet{
	"mainnet":  {"00000000ffffffffffffffffffffffffffffffffffffffffffffffffffffffff", 14 * 24 * 3600, 600, false, false, false, 210000, true},
	"testnet3": {"00000000ffffffffffffffffffffffffffffffffffffffffffffffffffffffff", 14 * 24 * 3600, 600, true, false, false, 210000, true},
	"testnet4": {"00000000ffffffffffffffffffffffffffffffffffffffffffffffffffffffff", 14 * 24 * 3600, 600, true, false, true, 210000, true},
	"signet":   {"00000377ae000000000000000000000000000000000000000000000000000000", 14 * 24 * 3600, 600, false, false, false, 210000, true},
	"regtest":  {"7fffffffffffffffffffffffffffffffffffffffffffffffffffffffffffffff", 24 * 3600, 600, true, true, false, 150, false},
}

func btcdNamed(base string) *chaincfg.Params {
	switch base {
	case "mainnet":
		return &chaincfg.MainNetParams
	case "testnet3":
		return &chaincfg.TestNet3Params
	case "testnet4":
		return &chaincfg.TestNet4Params
	case "signet":
		return &chaincfg.SigNetParams
	case "regtest":
		return &chaincfg.RegressionNetParams
	case "simnet":
		return &chaincfg.SimNetParams
	}
	return nil
}

func hexBig(s string) *big.Int {
	v, ok := new(big.Int).SetString(s, 16)
	if !ok {
		panic("bad hex " + s)
	}
	return v
}

// implParams returns a private deep copy of the btcd parameter set.
func (s ParamSpec) implParams() *chaincfg.Params {
	if s.Base != "synthetic" {
		p := lab.CloneParams(btcdNamed(s.Base))
		p.Checkpoints = nil
		return p
	}
	p := lab.CloneParams(&chaincfg.RegressionNetParams)
	p.Name = "c09-" + s.Name
	p.Checkpoints = nil
	p.PowLimit = hexBig(s.PowLimitHex)
	// btcd wants the compact form of the limit configured next to it; it is
	// derived here with the reference (chaincfgCheck verifies the shipped ones).
	p.PowLimitBits = refpow.GetCompact(p.PowLimit, false)
	p.TargetTimespan = time.Duration(s.TimespanS) * time.Second
	p.TargetTimePerBlock = time.Duration(s.SpacingS) * time.Second
	p.RetargetAdjustmentFactor = 4
	p.ReduceMinDifficulty = s.MinDiff
	p.MinDiffReductionTime = 2 * p.TargetTimePerBlock
	p.PoWNoRetargeting = s.NoRetarget
	p.EnforceBIP94 = s.BIP94
	g := *p.GenesisBlock // copy of the regtest genesis block (shares the coinbase tx, read-only)
	g.Header.Bits = s.GenesisBits
	g.Header.Timestamp = time.Unix(s.GenesisTime, 0)
	gb := &wire.MsgBlock{Header: g.Header, Transactions: g.Transactions}
	h := gb.Header.BlockHash()
	p.GenesisBlock = gb
	p.GenesisHash = &h
	return p
}

// refParams returns the reference-side (Core) parameter set.
func (s ParamSpec) refParams() *refpow.Params {
	if s.Base == "synthetic" {
		return &refpow.Params{PowLimit: hexBig(s.PowLimitHex), TargetTimespan: s.TimespanS, TargetSpacing: s.SpacingS,
			AllowMinDifficulty: s.MinDiff, NoRetargeting: s.NoRetarget, EnforceBIP94: s.BIP94}
	}
	if s.Base == "simnet" {
		// btcd-only network: no Core row; the protocol rules are applied to its
		// own constants.
		p := btcdNamed("simnet")
		return &refpow.Params{PowLimit: new(big.Int).Set(p.PowLimit), TargetTimespan: int64(p.TargetTimespan / time.Second),
			TargetSpacing: int64(p.TargetTimePerBlock / time.Second), AllowMinDifficulty: p.ReduceMinDifficulty,
			NoRetargeting: p.PoWNoRetargeting, EnforceBIP94: p.EnforceBIP94}
	}
	c := coreTable[s.Base]
	ts := c.timespan
	if !c.compareTimespan {
		ts = int64(btcdNamed(s.Base).TargetTimespan / time.Second)
	}
	return &refpow.Params{PowLimit: hexBig(c.powLimitHex), TargetTimespan: ts, TargetSpacing: c.spacing,
		AllowMinDifficulty: c.allowMin, NoRetargeting: c.noRetarget, EnforceBIP94: c.bip94}
}

func (s ParamSpec) String() string { return s.Name }

var namedSpecs = []ParamSpec{
	{Name: "mainnet", Base: "mainnet"},
	{Name: "testnet3", Base: "testnet3"},
	{Name: "testnet4", Base: "testnet4"},
	{Name: "signet", Base: "signet"},
	{Name: "regtest", Base: "regtest"},
	{Name: "simnet", Base: "simnet"},
}

const (
	limit224 = "00000000ffffffffffffffffffffffffffffffffffffffffffffffffffffffff"
	limit232 = "0000000100000000000000000000000000000000000000000000000000000000" // exactly 2^232
	limitSig = "00000377ae000000000000000000000000000000000000000000000000000000"
	limit40  = "000000000000000000000000000000000000000000000000000000ffffffffff" // tiny synthetic limit (2^40-1)
)

// syntheticSpecs: small retarget windows (2, 4, 3 with a non-divisible
// timespan) x rule flags x pow limits x genesis bits (at / below the limit).
func syntheticSpecs(thorough bool) []ParamSpec {
	var out []ParamSpec
	type flag struct {
		n                string
		min, nore, bip94 bool
	}
	flags := []flag{
		{"plain", false, false, false},
		{"mindiff", true, false, false},
		{"mindiff+bip94", true, false, true},
		{"bip94", false, false, true},
		{"noretarget", false, true, false},
		{"noretarget+mindiff", true, true, false},
	}
	type win struct {
		n        string
		ts, spac int64
	}
	wins := []win{{"w2", 1200, 600}, {"w4", 2400, 600}, {"w3odd", 2003, 601}, {"w4short", 40, 10}}
	if thorough {
		wins = append(wins, win{"w8", 4800, 600}, win{"w2long", 7200, 3600})
	}
	limits := []struct{ n, hex string }{{"l224", limit224}, {"l232", limit232}, {"lsig", limitSig}, {"l40", limit40}}
	for _, w := range wins {
		for _, f := range flags {
			for li, l := range limits {
				// keep the product moderate: all limits for w2/w4, first two otherwise
				if li >= 2 && w.n != "w2" && w.n != "w4" {
					continue
				}
				lim := hexBig(l.hex)
				limBits := refpow.GetCompact(lim, false)
				gbits := []uint32{limBits}
				if !f.nore {
					// genesis below the limit (harder): limit/3
					gbits = append(gbits, refpow.GetCompact(new(big.Int).Div(lim, big.NewInt(3)), false))
				}
				for gi, gb := range gbits {
					out = append(out, ParamSpec{
						Name: fmt.Sprintf("%s/%s/%s/g%d", w.n, f.n, l.n, gi), Base: "synthetic",
						PowLimitHex: l.hex, TimespanS: w.ts, SpacingS: w.spac,
						MinDiff: f.min, NoRetarget: f.nore, BIP94: f.bip94,
						GenesisBits: gb, GenesisTime: 1_500_000_000,
					})
				}
			}
		}
	}
	return out
}
