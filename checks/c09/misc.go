package main

import (
	"fmt"
	"math"
	"math/big"
	"runtime"
	"sync/atomic"
	"time"

	"github.com/btcsuite/btcd/blockchain"
	"github.com/btcsuite/btcd/btcutil/v2"
	"github.com/btcsuite/btcd/chaincfg/v2"
	"github.com/btcsuite/btcd/chainhash/v2"
	"github.com/btcsuite/btcd/wire/v2"

	"verif/engine/ev"
	"verif/lab"
	"verif/ref/refpow"
)

// ---------------------------------------------------------------------------
// reference self-test against literal vectors (BROKEN on mismatch)

func bindReference(r *ev.Run) {
	// Bitcoin Core src/test/arith_uint256_tests.cpp, bignum_SetCompact.
	type sc struct {
		in       uint32
		valHex   string
		neg, ovf bool
		back     uint32 // GetCompact(value, neg)
	}
	vec := []sc{
		{0, "0", false, false, 0}, {0x00123456, "0", false, false, 0}, {0x01003456, "0", false, false, 0},
		{0x02000056, "0", false, false, 0}, {0x03000000, "0", false, false, 0}, {0x04000000, "0", false, false, 0},
		{0x00923456, "0", false, false, 0}, {0x01803456, "0", false, false, 0}, {0x02800056, "0", false, false, 0},
		{0x03800000, "0", false, false, 0}, {0x04800000, "0", false, false, 0},
		{0x01123456, "12", false, false, 0x01120000},
		{0x01fedcba, "7e", true, false, 0x01fe0000},
		{0x02123456, "1234", false, false, 0x02123400},
		{0x03123456, "123456", false, false, 0x03123456},
		{0x04123456, "12345600", false, false, 0x04123456},
		{0x04923456, "12345600", true, false, 0x04923456},
		{0x05009234, "92340000", false, false, 0x05009234},
		{0x20123456, "1234560000000000000000000000000000000000000000000000000000000000", false, false, 0x20123456},
	}
	for _, v := range vec {
		val, neg, ovf := refpow.SetCompact(v.in)
		if val.Text(16) != v.valHex || neg != v.neg || ovf != v.ovf {
			r.Broken("refpow.SetCompact(%#08x) = (%s,%v,%v), Core vector (%s,%v,%v)", v.in, val.Text(16), neg, ovf, v.valHex, v.neg, v.ovf)
		}
		if got := refpow.GetCompact(val, neg); got != v.back {
			r.Broken("refpow.GetCompact(%s,%v) = %#08x, Core vector %#08x", val.Text(16), neg, got, v.back)
		}
	}
	if _, neg, ovf := refpow.SetCompact(0xff123456); neg || !ovf {
		r.Broken("refpow.SetCompact(0xff123456) must overflow")
	}
	// Core: 0x80 -> 0x02008000
	if got := refpow.GetCompact(big.NewInt(0x80), false); got != 0x02008000 {
		r.Broken("refpow.GetCompact(0x80) = %#08x", got)
	}
	// /repo/blockchain/internal/workmath/difficulty_test.go literals
	if refpow.CompactFromSigned(big.NewInt(0)) != 0 || refpow.CompactFromSigned(big.NewInt(-1)) != 25231360 {
		r.Broken("refpow.CompactFromSigned disagrees with the shipped TestBigToCompact vectors")
	}
	if n, ok := refpow.SignedFromCompact(10000000); !ok || n.Sign() != 0 || refpow.BlockProof(10000000).Sign() != 0 {
		r.Broken("refpow disagrees with the shipped TestCompactToBig/TestCalcWork vectors")
	}
	// mainnet genesis chain work 0x100010001
	if refpow.BlockProof(0x1d00ffff).Text(16) != "100010001" {
		r.Broken("refpow.BlockProof(0x1d00ffff) = %s", refpow.BlockProof(0x1d00ffff).Text(16))
	}
	// Bitcoin Core src/test/pow_tests.cpp (real mainnet retargets)
	main := ParamSpec{Base: "mainnet"}.refParams()
	type rt struct {
		firstTime, lastTime int64
		height              int64
		bits, want          uint32
	}
	for _, v := range []rt{
		{1261130161, 1262152739, 32255, 0x1d00ffff, 0x1d00d86a},
		{1231006505, 1233061996, 2015, 0x1d00ffff, 0x1d00ffff},
		{1279008237, 1279297671, 68543, 0x1c05a3f4, 0x1c0168fd},
		{1263163443, 1269211443, 46367, 0x1c387f6f, 0x1d00e1fd},
	} {
		last := &refpow.Index{Height: v.height, Time: v.lastTime, Bits: v.bits}
		first := &refpow.Index{Height: v.height - 2015, Time: v.firstTime, Bits: v.bits}
		if got := refpow.CalculateNextWorkRequired(last, first, main); got.Bits != v.want || got.Wrapped {
			r.Broken("refpow.CalculateNextWorkRequired(height %d) = %#08x, Core pow_tests vector %#08x", v.height, got.Bits, v.want)
		}
	}
	// subsidy: the well known mainnet total and first halvings
	if refpow.TotalSubsidy(210000, math.MaxInt32).String() != "2099999997690000" {
		r.Broken("refpow.TotalSubsidy(210000) = %s", refpow.TotalSubsidy(210000, math.MaxInt32))
	}
	if refpow.BlockSubsidy(0, 210000) != 5000000000 || refpow.BlockSubsidy(209999, 210000) != 5000000000 || refpow.BlockSubsidy(210000, 210000) != 2500000000 ||
		refpow.BlockSubsidy(840000, 210000) != 312500000 || refpow.BlockSubsidy(64*210000, 210000) != 0 {
		r.Broken("refpow.BlockSubsidy disagrees with the known mainnet schedule")
	}
	// shipped genesis blocks (real, mined): hash must satisfy the reference PoW check
	for _, s := range namedSpecs {
		p := btcdNamed(s.Base)
		h := p.GenesisBlock.Header.BlockHash()
		if h != *p.GenesisHash {
			r.Broken("%s genesis hash mismatch", s.Name)
		}
		if !refpow.CheckProofOfWork(h, p.GenesisBlock.Header.Bits, s.refParams().PowLimit) {
			r.Broken("refpow.CheckProofOfWork rejects the shipped %s genesis block", s.Name)
		}
	}
	// median: 11 distinct times in scrambled order
	var x *refpow.Index
	for i, t := range []int64{50, 10, 40, 20, 110, 30, 100, 60, 90, 70, 80, 999} {
		x = &refpow.Index{Prev: x, Height: int64(i), Time: t}
	}
	if x.MedianTimePast() != 70 || x.Prev.MedianTimePast() != 60 {
		r.Broken("refpow.MedianTimePast self-test failed: %d %d", x.MedianTimePast(), x.Prev.MedianTimePast())
	}
}

// ---------------------------------------------------------------------------
// chaincfg: shipped network constants vs Core's chainparams

func chaincfgCheck(r *ev.Run) {
	bad := func(net, field, what string) {
		r.Violation("chaincfg/"+net+"/"+field, net+": "+what, map[string]interface{}{"kind": "chaincfg", "net": net, "field": field})
	}
	for _, s := range namedSpecs {
		p := btcdNamed(s.Base)
		r.Eval(1)
		r.Nontrivial("chaincfg/" + s.Name)
		if want := refpow.GetCompact(p.PowLimit, false); p.PowLimitBits != want {
			bad(s.Name, "PowLimitBits", fmt.Sprintf("PowLimitBits %#08x is not the compact form %#08x of PowLimit", p.PowLimitBits, want))
		}
		if p.RetargetAdjustmentFactor != 4 {
			bad(s.Name, "RetargetAdjustmentFactor", fmt.Sprintf("RetargetAdjustmentFactor %d, protocol 4", p.RetargetAdjustmentFactor))
		}
		if p.ReduceMinDifficulty && p.MinDiffReductionTime != 2*p.TargetTimePerBlock {
			bad(s.Name, "MinDiffReductionTime", fmt.Sprintf("MinDiffReductionTime %v, protocol 2*spacing = %v", p.MinDiffReductionTime, 2*p.TargetTimePerBlock))
		}
		if !refpow.TargetInRange(p.GenesisBlock.Header.Bits, p.PowLimit) {
			bad(s.Name, "GenesisBits", "genesis bits out of range")
		}
		c, ok := coreTable[s.Base]
		if !ok {
			continue
		}
		if p.PowLimit.Cmp(hexBig(c.powLimitHex)) != 0 {
			bad(s.Name, "PowLimit", fmt.Sprintf("PowLimit %s, Core %s", p.PowLimit.Text(16), c.powLimitHex))
		}
		if c.compareTimespan && int64(p.TargetTimespan/time.Second) != c.timespan {
			bad(s.Name, "TargetTimespan", fmt.Sprintf("TargetTimespan %v, Core %ds", p.TargetTimespan, c.timespan))
		}
		if int64(p.TargetTimePerBlock/time.Second) != c.spacing {
			bad(s.Name, "TargetTimePerBlock", fmt.Sprintf("TargetTimePerBlock %v, Core %ds", p.TargetTimePerBlock, c.spacing))
		}
		if p.ReduceMinDifficulty != c.allowMin {
			bad(s.Name, "ReduceMinDifficulty", fmt.Sprintf("ReduceMinDifficulty %v, Core fPowAllowMinDifficultyBlocks %v", p.ReduceMinDifficulty, c.allowMin))
		}
		if p.PoWNoRetargeting != c.noRetarget {
			bad(s.Name, "PoWNoRetargeting", fmt.Sprintf("PoWNoRetargeting %v, Core %v", p.PoWNoRetargeting, c.noRetarget))
		}
		if p.EnforceBIP94 != c.bip94 {
			bad(s.Name, "EnforceBIP94", fmt.Sprintf("EnforceBIP94 %v, Core %v", p.EnforceBIP94, c.bip94))
		}
		if int64(p.SubsidyReductionInterval) != c.halving {
			bad(s.Name, "SubsidyReductionInterval", fmt.Sprintf("SubsidyReductionInterval %d, Core %d", p.SubsidyReductionInterval, c.halving))
		}
	}
}

// ---------------------------------------------------------------------------
// median time past: ternary tree of timestamps

type mtpReplay struct {
	Kind  string  `json:"kind"` // "mtp"
	Times []int64 `json:"times"`
}

var mtpVals = []int64{1_500_000_010, 1_500_000_020, 1_500_000_030}

func mtpSpec(g int64) ParamSpec {
	return ParamSpec{Name: fmt.Sprintf("mtp/g=%d", g), Base: "synthetic", PowLimitHex: limit224, TimespanS: 1200, SpacingS: 600,
		GenesisBits: 0x1d00ffff, GenesisTime: g}
}

func evalMTP(w *world, times []int64) (sub, what string) {
	// times[0] is the genesis time
	n := w.gen.n
	x := w.gen.x
	for _, t := range times[1:] {
		n = blockchain.VerifC09Child(n, hdrVersion, 0x1d00ffff, t, 0)
		x = &refpow.Index{Prev: x, Height: x.Height + 1, Time: t, Bits: 0x1d00ffff}
	}
	return cmpMTP(n, x)
}

func cmpMTP(n blockchain.VerifC09Node, x *refpow.Index) (string, string) {
	var got time.Time
	if pn := safe(func() { got = blockchain.VerifC09MedianTime(n) }); pn != nil {
		return "CalcPastMedianTime/panic", fmt.Sprint(pn)
	}
	if want := x.MedianTimePast(); got.Unix() != want || got.Nanosecond() != 0 {
		return "CalcPastMedianTime", fmt.Sprintf("CalcPastMedianTime at height %d = %d, GetMedianTimePast = %d", x.Height, got.Unix(), want)
	}
	return "", ""
}

func mtpSection(r *ev.Run, depth int) {
	// jobs: genesis value x first two levels
	type job struct{ g, a, b int64 }
	var jobs []job
	for _, g := range mtpVals {
		for _, a := range mtpVals {
			for _, b := range mtpVals {
				jobs = append(jobs, job{g, a, b})
			}
		}
	}
	var total int64
	ev.Par(len(jobs), runtime.NumCPU(), func(i int) {
		j := jobs[i]
		w := newWorld(r, mtpSpec(j.g))
		defer w.close()
		times := []int64{j.g}
		cnt := int64(0)
		var rec func(n blockchain.VerifC09Node, x *refpow.Index)
		visit := func(n blockchain.VerifC09Node, x *refpow.Index) {
			cnt++
			key := make([]byte, 0, 16)
			key = append(key, 'm')
			for _, t := range times {
				key = append(key, byte(t-1_500_000_000))
			}
			r.NontrivialBytes(key)
			if sub, what := cmpMTP(n, x); sub != "" {
				tt := append([]int64(nil), times...)
				for k := 0; k < 3; k++ {
					if s2, _ := evalMTP(w, tt); s2 != sub {
						r.Broken("mtp verdict flipped")
					}
				}
				r.Violation(fmt.Sprintf("%s/times=%v", sub, tt), what, mtpReplay{Kind: "mtp", Times: tt})
			}
		}
		rec = func(n blockchain.VerifC09Node, x *refpow.Index) {
			if len(times) >= depth || r.Violations() > 100 {
				return
			}
			for _, t := range mtpVals {
				c := blockchain.VerifC09Child(n, hdrVersion, 0x1d00ffff, t, 0)
				cx := &refpow.Index{Prev: x, Height: x.Height + 1, Time: t, Bits: 0x1d00ffff}
				times = append(times, t)
				visit(c, cx)
				rec(c, cx)
				times = times[:len(times)-1]
			}
		}
		// the shared top of the tree is visited by the (a,b)==(first,first) job only
		first := mtpVals[0]
		if j.a == first && j.b == first {
			visit(w.gen.n, w.gen.x)
		}
		n1 := blockchain.VerifC09Child(w.gen.n, hdrVersion, 0x1d00ffff, j.a, 0)
		x1 := &refpow.Index{Prev: w.gen.x, Height: 1, Time: j.a, Bits: 0x1d00ffff}
		times = append(times, j.a)
		if j.b == first {
			visit(n1, x1)
		}
		n2 := blockchain.VerifC09Child(n1, hdrVersion, 0x1d00ffff, j.b, 0)
		x2 := &refpow.Index{Prev: x1, Height: 2, Time: j.b, Bits: 0x1d00ffff}
		times = append(times, j.b)
		visit(n2, x2)
		rec(n2, x2)
		atomic.AddInt64(&total, cnt)
	})
	r.Eval(int(total))
	r.Trace(int(total))
	r.Add("mtp_sequences", total)
	r.Sample(map[string]interface{}{"kind": "mtp", "values": mtpVals, "max_ancestors": depth})
}

// ---------------------------------------------------------------------------
// subsidy

type subsidyReplay struct {
	Kind     string `json:"kind"` // "subsidy"
	Interval int32  `json:"interval"`
	Height   int32  `json:"height"`
}

func evalSubsidy(interval, height int32) (sub, what string) {
	p := &chaincfg.Params{SubsidyReductionInterval: interval}
	var got int64
	if pn := safe(func() { got = blockchain.CalcBlockSubsidy(height, p) }); pn != nil {
		return "CalcBlockSubsidy/panic", fmt.Sprintf("CalcBlockSubsidy(%d, interval %d) panicked: %v", height, interval, pn)
	}
	if interval <= 0 {
		return "", "" // no protocol definition (Core divides by the interval)
	}
	if want := refpow.BlockSubsidy(int64(height), int64(interval)); got != want {
		return "CalcBlockSubsidy", fmt.Sprintf("CalcBlockSubsidy(height %d, interval %d) = %d, GetBlockSubsidy = %d", height, interval, got, want)
	}
	return "", ""
}

func reportSubsidy(r *ev.Run, interval, height int32) {
	sub, what := evalSubsidy(interval, height)
	if sub == "" {
		return
	}
	for i := 0; i < 3; i++ {
		if s2, _ := evalSubsidy(interval, height); s2 != sub {
			r.Broken("subsidy verdict flipped")
		}
	}
	r.Violation(fmt.Sprintf("%s/I=%d/h=%d", sub, interval, height), what, subsidyReplay{Kind: "subsidy", Interval: interval, Height: height})
}

func subsidySection(r *ev.Run) {
	intervals := []int32{150, 210000, 1, 2, 3, 1000, 209999, 210001, 1 << 20, 33554432, math.MaxInt32, 0}
	for _, s := range namedSpecs {
		intervals = append(intervals, btcdNamed(s.Base).SubsidyReductionInterval)
	}
	seenI := map[int32]bool{}
	var nb, nx int64
	for _, I := range intervals {
		if seenI[I] {
			continue
		}
		seenI[I] = true
		// halving boundaries k*I-1, k*I, k*I+1 for k = 0..65
		for k := int64(0); k <= 65; k++ {
			for d := int64(-1); d <= 1; d++ {
				h := k*int64(I) + d
				if h < 0 || h > math.MaxInt32 {
					continue
				}
				reportSubsidy(r, I, int32(h))
				r.Nontrivial(fmt.Sprintf("subsidy/%d/%d", I, h))
				nb++
			}
		}
		reportSubsidy(r, I, math.MaxInt32)
		nb++
		if I <= 0 {
			continue
		}
		// every height up to 66*I+1 (bounded), summing what the implementation pays
		lim := 66*int64(I) + 1
		if lim > 14_000_000 {
			lim = 14_000_000
		}
		if 64*int64(I) > lim && int64(I) > 210001 {
			// cannot sum all paying heights one by one: only the boundaries above
			continue
		}
		p := &chaincfg.Params{SubsidyReductionInterval: I}
		var sum int64
		for h := int64(0); h <= lim; h++ {
			got := blockchain.CalcBlockSubsidy(int32(h), p)
			if got != refpow.BlockSubsidy(h, int64(I)) {
				reportSubsidy(r, I, int32(h))
			}
			if got < 0 || sum+got < sum {
				r.Violation(fmt.Sprintf("CalcBlockSubsidy/total/I=%d", I), "subsidy sum overflows / negative subsidy", subsidyReplay{Kind: "subsidy", Interval: I, Height: int32(h)})
				break
			}
			sum += got
			nx++
		}
		// lim >= 64*I so every paying height was summed; beyond it the subsidy is 0 at
		// every boundary checked above (and at every height in thorough for mainnet)
		want := refpow.TotalSubsidy(int64(I), lim)
		if big.NewInt(sum).Cmp(want) != 0 {
			r.Violation(fmt.Sprintf("CalcBlockSubsidy/total/I=%d", I), fmt.Sprintf("sum of CalcBlockSubsidy over heights 0..%d with interval %d = %d, protocol %s", lim, I, sum, want), subsidyReplay{Kind: "subsidy", Interval: I})
		}
		if I <= 210000 && sum > 21_000_000*btcutil.SatoshiPerBitcoin {
			r.Violation(fmt.Sprintf("CalcBlockSubsidy/21M/I=%d", I), fmt.Sprintf("total subsidy %d exceeds 21M coins", sum), subsidyReplay{Kind: "subsidy", Interval: I})
		}
	}
	r.Eval(int(nb + nx))
	r.Trace(int(nb + nx))
	r.Add("subsidy_boundary_heights", nb)
	r.Add("subsidy_exhaustive_heights", nx)
	r.Sample(map[string]interface{}{"kind": "subsidy", "interval": 210000, "height": 210000, "CalcBlockSubsidy": blockchain.CalcBlockSubsidy(210000, &chaincfg.MainNetParams)})
}

// subsidyAllHeights (thorough): every int32 height for the mainnet and regtest intervals.
func subsidyAllHeights(r *ev.Run) {
	for _, I := range []int32{210000, 150} {
		p := &chaincfg.Params{SubsidyReductionInterval: I}
		const chunks = 2048
		var tot int64
		ev.Par(chunks, runtime.NumCPU(), func(c int) {
			lo := int64(c) << 20
			var s int64
			for h := lo; h < lo+1<<20; h++ {
				got := blockchain.CalcBlockSubsidy(int32(h), p)
				if got != refpow.BlockSubsidy(h, int64(I)) {
					reportSubsidy(r, I, int32(h))
					return
				}
				s += got
			}
			atomic.AddInt64(&tot, s)
		})
		if big.NewInt(tot).Cmp(refpow.TotalSubsidy(int64(I), math.MaxInt32)) != 0 || tot > 21_000_000*btcutil.SatoshiPerBitcoin {
			r.Violation(fmt.Sprintf("CalcBlockSubsidy/total-all/I=%d", I), fmt.Sprintf("sum over all 2^31 heights = %d, protocol %s", tot, refpow.TotalSubsidy(int64(I), math.MaxInt32)), subsidyReplay{Kind: "subsidy", Interval: I})
		}
		r.Eval(1 << 31)
		r.Trace(1 << 31)
		r.Add("subsidy_all_heights", 1<<31)
	}
}

// ---------------------------------------------------------------------------
// hash <= target and HashToBig

type powReplay struct {
	Kind  string `json:"kind"` // "pow"
	Bits  uint32 `json:"bits"`
	Nonce uint32 `json:"nonce"`
	Limit string `json:"limit"`
}

func evalPow(bits, nonce uint32, limit *big.Int) (sub, what string, boundary bool) {
	hdr := wire.BlockHeader{Version: 1, Bits: bits, Nonce: nonce, Timestamp: time.Unix(1_500_000_000, 0)}
	blk := btcutil.NewBlock(&wire.MsgBlock{Header: hdr})
	h := hdr.BlockHash()
	var err error
	var hb *big.Int
	if pn := safe(func() { err = blockchain.CheckProofOfWork(blk, limit); hb = blockchain.HashToBig(&h) }); pn != nil {
		return "CheckProofOfWork/panic", fmt.Sprint(pn), false
	}
	ha := refpow.HashToArith(h)
	if hb.Cmp(ha) != 0 {
		return "HashToBig", fmt.Sprintf("HashToBig(%s) = %s, UintToArith256 = %s", h, hb.Text(16), ha.Text(16)), false
	}
	want := refpow.CheckProofOfWork(h, bits, limit)
	if (err == nil) != want {
		return "CheckProofOfWork", fmt.Sprintf("CheckProofOfWork(hash %s, bits %#08x, limit %s) accepted=%v (err=%v), protocol %v", h, bits, limit.Text(16), err == nil, err, want), false
	}
	if err != nil {
		re, ok := err.(blockchain.RuleError)
		wantCode := blockchain.ErrHighHash
		if !refpow.TargetInRange(bits, limit) {
			wantCode = blockchain.ErrUnexpectedDifficulty
		}
		if !ok || re.ErrorCode != wantCode {
			return "CheckProofOfWork/errcode", fmt.Sprintf("CheckProofOfWork(bits %#08x) error %v, expected code %v", bits, err, wantCode), false
		}
	}
	// boundary: the hash agrees with the target on the target's significant bytes
	t, _, _ := refpow.SetCompact(bits)
	if t.Sign() > 0 {
		sh := uint(t.BitLen()+7) / 8 * 8
		if sh >= 16 {
			d := new(big.Int).Sub(new(big.Int).Rsh(ha, sh-16), new(big.Int).Rsh(t, sh-16))
			boundary = d.IsInt64() && d.Int64() >= -1 && d.Int64() <= 0
		}
	}
	return "", "", boundary
}

func powSection(r *ev.Run, nonces int) {
	bitsList := []uint32{0x20010000, 0x20008000, 0x20000100, 0x2000ffff, 0x207fffff, 0x2100ffff, 0x1f00ffff, 0x1d00ffff, 0x20800001, 0}
	limits := []*big.Int{refpow.Max256, hexBig("7fffffffffffffffffffffffffffffffffffffffffffffffffffffffffffffff"), hexBig(limit224)}
	var cnt, bnd int64
	ev.Par(len(bitsList), runtime.NumCPU(), func(i int) {
		bits := bitsList[i]
		for n := 0; n < nonces; n++ {
			for li, lim := range limits {
				if li > 0 && n >= nonces/16 {
					continue
				}
				sub, what, b := evalPow(bits, uint32(n), lim)
				atomic.AddInt64(&cnt, 1)
				if b && li == 0 {
					atomic.AddInt64(&bnd, 1)
					r.Nontrivial(fmt.Sprintf("pow/%08x/%d", bits, n))
				}
				if sub != "" {
					for k := 0; k < 3; k++ {
						if s2, _, _ := evalPow(bits, uint32(n), lim); s2 != sub {
							r.Broken("pow verdict flipped")
						}
					}
					r.Violation(fmt.Sprintf("%s/bits=%08x/nonce=%d/limit=%s", sub, bits, n, lim.Text(16)), what, powReplay{Kind: "pow", Bits: bits, Nonce: uint32(n), Limit: lim.Text(16)})
					return
				}
			}
		}
	})
	// HashToBig on structured hashes
	for pos := 0; pos < 32; pos++ {
		for _, v := range []byte{1, 0x80, 0xff} {
			var h chainhash.Hash
			h[pos] = v
			if pos < 31 {
				h[31-pos] |= 0x10
			}
			got := blockchain.HashToBig(&h)
			if want := refpow.HashToArith(h); got.Cmp(want) != 0 {
				r.Violation(fmt.Sprintf("HashToBig/pos=%d/v=%d", pos, v), fmt.Sprintf("HashToBig(%x) = %s, want %s", h[:], got.Text(16), want.Text(16)), map[string]interface{}{"kind": "hashtobig", "hash": fmt.Sprintf("%x", h[:])})
			}
			cnt++
		}
	}
	r.Eval(int(cnt))
	r.Trace(int(cnt))
	r.Add("pow_hash_checks", cnt)
	r.Add("pow_hash_at_target_boundary", bnd)
}

var _ = lab.Now
