// Package refpow is a deliberately naive math/big model of Bitcoin's
// proof-of-work arithmetic, written from Bitcoin Core's sources
// (arith_uint256.cpp: SetCompact/GetCompact; chain.cpp: GetBlockProof;
// pow.cpp: GetNextWorkRequired / CalculateNextWorkRequired /
// CheckProofOfWorkImpl; validation.cpp: GetBlockSubsidy and the header part of
// ContextualCheckBlockHeader; chain.h: GetMedianTimePast) and BIP94.
//
// It does not import any btcd package.  256-bit unsigned arithmetic
// (arith_uint256) is modelled by math/big with an explicit reduction mod 2^256
// after every operation that can overflow in Core; whenever such a reduction
// actually changed a value the result carries Wrapped=true so callers can tell
// "Core's answer depends on 256-bit wrap-around" (outside every real network).
package refpow

import (
	"math/big"
	"sort"
)

var (
	one    = big.NewInt(1)
	Two256 = new(big.Int).Lsh(one, 256)
	Max256 = new(big.Int).Sub(Two256, one)
)

func mod256(x *big.Int) (*big.Int, bool) {
	if x.Sign() >= 0 && x.Cmp(Two256) < 0 {
		return x, false
	}
	return new(big.Int).And(x, Max256), true
}

// SetCompact is arith_uint256::SetCompact: the 256-bit value (wrapped mod 2^256
// exactly like Core's <<=), and the negative / overflow flags.
func SetCompact(nCompact uint32) (val *big.Int, negative, overflow bool) {
	nSize := int(nCompact >> 24)
	nWord := nCompact & 0x007fffff
	if nSize <= 3 {
		nWord >>= 8 * uint(3-nSize)
		val = new(big.Int).SetUint64(uint64(nWord))
	} else {
		val = new(big.Int).SetUint64(uint64(nWord))
		val.Lsh(val, 8*uint(nSize-3))
		val, _ = mod256(val)
	}
	negative = nWord != 0 && (nCompact&0x00800000) != 0
	overflow = nWord != 0 && ((nSize > 34) ||
		(nWord > 0xff && nSize > 33) ||
		(nWord > 0xffff && nSize > 32))
	return
}

// GetCompact is arith_uint256::GetCompact(fNegative) for 0 <= v (v < 2^256 in
// Core; the formula is applied unchanged to any magnitude).
func GetCompact(v *big.Int, fNegative bool) uint32 {
	nSize := (v.BitLen() + 7) / 8
	var nCompact uint64
	if nSize <= 3 {
		nCompact = v.Uint64() << (8 * uint(3-nSize))
	} else {
		bn := new(big.Int).Rsh(v, 8*uint(nSize-3))
		nCompact = low64(bn)
	}
	// The 0x00800000 bit denotes the sign.  Thus, if it is already set,
	// divide the mantissa by 256 and increase the exponent.
	if nCompact&0x00800000 != 0 {
		nCompact >>= 8
		nSize++
	}
	nCompact |= uint64(nSize) << 24
	if fNegative && (nCompact&0x007fffff) != 0 {
		nCompact |= 0x00800000
	}
	return uint32(nCompact)
}

func low64(x *big.Int) uint64 {
	return new(big.Int).And(x, new(big.Int).SetUint64(^uint64(0))).Uint64()
}

// SignedFromCompact is the signed mathematical number btcd's CompactToBig
// documents, N = (-1)^sign * mantissa * 256^(exponent-3), expressed through
// Core's SetCompact.  ok is false when Core flags an overflow (the true value
// does not fit in 256 bits and Core's value is the wrapped one): the number is
// then not a protocol value and only "rejected as a target, zero work" is
// defined.
func SignedFromCompact(c uint32) (n *big.Int, ok bool) {
	v, neg, ovf := SetCompact(c)
	if ovf {
		return nil, false
	}
	if neg {
		return new(big.Int).Neg(v), true
	}
	return v, true
}

// CompactFromSigned is GetCompact applied to |n| with fNegative = n<0.
func CompactFromSigned(n *big.Int) uint32 {
	return GetCompact(new(big.Int).Abs(n), n.Sign() < 0)
}

// BlockProof is GetBlockProof: 0 for negative / overflowing / zero targets,
// otherwise (~target / (target+1)) + 1 in 256-bit arithmetic.
func BlockProof(nBits uint32) *big.Int {
	t, neg, ovf := SetCompact(nBits)
	if neg || ovf || t.Sign() == 0 {
		return new(big.Int)
	}
	not := new(big.Int).Xor(t, Max256) // ~target on 256 bits
	den := new(big.Int).Add(t, one)    // cannot wrap: a compact target is never 2^256-1
	q := new(big.Int).Div(not, den)
	q.Add(q, one)
	q, _ = mod256(q)
	return q
}

// TargetInRange is the bits part of CheckProofOfWorkImpl.
func TargetInRange(nBits uint32, powLimit *big.Int) bool {
	t, neg, ovf := SetCompact(nBits)
	if neg || t.Sign() == 0 || ovf || t.Cmp(powLimit) > 0 {
		return false
	}
	return true
}

// HashToArith is UintToArith256: the 32 hash bytes read as a little-endian
// number.
func HashToArith(h [32]byte) *big.Int {
	v := new(big.Int)
	for i := 31; i >= 0; i-- {
		v.Lsh(v, 8)
		v.Or(v, big.NewInt(int64(h[i])))
	}
	return v
}

// CheckProofOfWork is CheckProofOfWorkImpl.
func CheckProofOfWork(hash [32]byte, nBits uint32, powLimit *big.Int) bool {
	if !TargetInRange(nBits, powLimit) {
		return false
	}
	t, _, _ := SetCompact(nBits)
	return HashToArith(hash).Cmp(t) <= 0
}

// Params is the subset of Consensus::Params used by pow.cpp.
type Params struct {
	PowLimit           *big.Int
	TargetTimespan     int64 // nPowTargetTimespan (seconds)
	TargetSpacing      int64 // nPowTargetSpacing (seconds)
	AllowMinDifficulty bool  // fPowAllowMinDifficultyBlocks
	NoRetargeting      bool  // fPowNoRetargeting
	EnforceBIP94       bool  // enforce_BIP94
}

// Interval is DifficultyAdjustmentInterval().
func (p *Params) Interval() int64 { return p.TargetTimespan / p.TargetSpacing }

// Index is a CBlockIndex: height, header time and bits, and pprev.
type Index struct {
	Prev   *Index
	Height int64
	Time   int64
	Bits   uint32
}

// Ancestor is CBlockIndex::GetAncestor, the slow way.
func (x *Index) Ancestor(h int64) *Index {
	if h < 0 || h > x.Height {
		return nil
	}
	n := x
	for n != nil && n.Height != h {
		n = n.Prev
	}
	return n
}

// MedianTimePast is CBlockIndex::GetMedianTimePast (nMedianTimeSpan = 11).
func (x *Index) MedianTimePast() int64 {
	var ts []int64
	n := x
	for i := 0; i < 11 && n != nil; i++ {
		ts = append(ts, n.Time)
		n = n.Prev
	}
	sort.Slice(ts, func(i, j int) bool { return ts[i] < ts[j] })
	return ts[len(ts)/2]
}

// NextWork is the result of GetNextWorkRequired.
type NextWork struct {
	Bits uint32
	// Wrapped: Core's 256-bit product overflowed, or the timespan did not fit
	// the uint32 multiplier Core's operator*= takes; Core's answer is then an
	// artefact of its integer widths, not a protocol value.
	Wrapped bool
}

// GetNextWorkRequired is pow.cpp GetNextWorkRequired(pindexLast, pblock, params)
// with pblock->GetBlockTime() = newTime.  last must not be nil.
func GetNextWorkRequired(last *Index, newTime int64, p *Params) NextWork {
	nProofOfWorkLimit := GetCompact(p.PowLimit, false)
	interval := p.Interval()

	// Only change once per difficulty adjustment interval
	if (last.Height+1)%interval != 0 {
		if p.AllowMinDifficulty {
			// Special difficulty rule for testnet: if the new block's timestamp is
			// more than 2*10 minutes then allow mining of a min-difficulty block.
			if newTime > last.Time+p.TargetSpacing*2 {
				return NextWork{Bits: nProofOfWorkLimit}
			}
			// Return the last non-special-min-difficulty-rules-block
			idx := last
			for idx.Prev != nil && idx.Height%interval != 0 && idx.Bits == nProofOfWorkLimit {
				idx = idx.Prev
			}
			return NextWork{Bits: idx.Bits}
		}
		return NextWork{Bits: last.Bits}
	}

	// Go back by what we want to be 14 days worth of blocks
	nHeightFirst := last.Height - (interval - 1)
	first := last.Ancestor(nHeightFirst)
	if first == nil {
		panic("refpow: no first block of the retarget window")
	}
	return CalculateNextWorkRequired(last, first, p)
}

// CalculateNextWorkRequired is pow.cpp CalculateNextWorkRequired (first is the
// block at height last.Height-(interval-1)).
func CalculateNextWorkRequired(last, first *Index, p *Params) NextWork {
	if p.NoRetargeting {
		return NextWork{Bits: last.Bits}
	}
	// Limit adjustment step
	nActualTimespan := last.Time - first.Time
	if nActualTimespan < p.TargetTimespan/4 {
		nActualTimespan = p.TargetTimespan / 4
	}
	if nActualTimespan > p.TargetTimespan*4 {
		nActualTimespan = p.TargetTimespan * 4
	}

	// Retarget
	var bnNew *big.Int
	if p.EnforceBIP94 {
		// Special difficulty rule for Testnet4: use the first block of the
		// difficulty period.
		bnNew, _, _ = SetCompact(first.Bits)
	} else {
		bnNew, _, _ = SetCompact(last.Bits)
	}
	wrapped := false
	// bnNew *= nActualTimespan  (base_uint::operator*=(uint32_t))
	mul := uint32(nActualTimespan)
	if int64(mul) != nActualTimespan {
		wrapped = true
	}
	bnNew = new(big.Int).Mul(bnNew, new(big.Int).SetUint64(uint64(mul)))
	var w bool
	bnNew, w = mod256(bnNew)
	wrapped = wrapped || w
	// bnNew /= params.nPowTargetTimespan
	bnNew = new(big.Int).Div(bnNew, big.NewInt(p.TargetTimespan))
	if bnNew.Cmp(p.PowLimit) > 0 {
		bnNew = p.PowLimit
	}
	return NextWork{Bits: GetCompact(bnNew, false), Wrapped: wrapped}
}

// MaxTimewarp is MAX_TIMEWARP (BIP94).
const MaxTimewarp = 600

// MaxFutureBlockTime is MAX_FUTURE_BLOCK_TIME.
const MaxFutureBlockTime = 2 * 60 * 60

// HeaderVerdict lists which contextual header rules a candidate header
// (time, bits) on top of prev violates.
type HeaderVerdict struct {
	BadRange   bool // CheckProofOfWork range part (bits negative/zero/overflow/above limit)
	BadBits    bool // "bad-diffbits"
	TooOld     bool // "time-too-old"
	TimeWarp   bool // "time-timewarp-attack"
	TooNew     bool // "time-too-new"
	NotDefined bool // required bits depend on Core's integer wrap-around
}

func (v HeaderVerdict) OK() bool {
	return !(v.BadRange || v.BadBits || v.TooOld || v.TimeWarp || v.TooNew)
}

// CheckHeader is the bits/time part of CheckBlockHeader +
// ContextualCheckBlockHeader (no hash check, no version/checkpoint rules).
func CheckHeader(prev *Index, time int64, bits uint32, now int64, p *Params) HeaderVerdict {
	var v HeaderVerdict
	v.BadRange = !TargetInRange(bits, p.PowLimit)
	nw := GetNextWorkRequired(prev, time, p)
	v.NotDefined = nw.Wrapped
	v.BadBits = bits != nw.Bits
	v.TooOld = time <= prev.MedianTimePast()
	if p.EnforceBIP94 {
		nHeight := prev.Height + 1
		if nHeight%p.Interval() == 0 && time < prev.Time-MaxTimewarp {
			v.TimeWarp = true
		}
	}
	v.TooNew = time > now+MaxFutureBlockTime
	return v
}

// Coin is COIN.
const Coin = 100_000_000

// BlockSubsidy is GetBlockSubsidy.
func BlockSubsidy(nHeight int64, halvingInterval int64) int64 {
	halvings := nHeight / halvingInterval
	// Force block reward to zero when right shift is undefined.
	if halvings >= 64 {
		return 0
	}
	nSubsidy := int64(50 * Coin)
	// Subsidy is cut in half every halvingInterval blocks.
	nSubsidy >>= uint(halvings)
	return nSubsidy
}

// TotalSubsidy is the sum of BlockSubsidy over all heights 0..maxHeight, by
// eras (math/big; naive).
func TotalSubsidy(halvingInterval int64, maxHeight int64) *big.Int {
	tot := new(big.Int)
	for k := int64(0); k < 64; k++ {
		lo := k * halvingInterval
		if lo > maxHeight {
			break
		}
		hi := lo + halvingInterval - 1
		if hi > maxHeight {
			hi = maxHeight
		}
		n := big.NewInt(hi - lo + 1)
		tot.Add(tot, n.Mul(n, big.NewInt(BlockSubsidy(lo, halvingInterval))))
	}
	return tot
}
