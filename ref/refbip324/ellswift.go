package refbip324

import (
	"crypto/sha256"
	"encoding/binary"
	"math/big"
)

// XSwiftECBranch describes which path XSwiftEC took (for coverage accounting).
type XSwiftECBranch struct {
	UZero, TZero bool // u (resp. t) was replaced by 1
	Doubled      bool // g(u') == -t'^2, t'' = 2t'
	Candidate    int  // 0, 1, 2: which of the three candidate x values was returned
}

// XSwiftEC is the BIP324 decoding function. u and t are field elements in
// [0, p-1]. It always returns a valid x coordinate.
func XSwiftEC(u, t *big.Int) (*big.Int, XSwiftECBranch) {
	var br XSwiftECBranch
	u1 := new(big.Int).Set(u)
	if u1.Sign() == 0 {
		u1 = big.NewInt(1)
		br.UZero = true
	}
	t1 := new(big.Int).Set(t)
	if t1.Sign() == 0 {
		t1 = big.NewInt(1)
		br.TZero = true
	}
	t2 := t1
	if G(u1).Cmp(fNeg(fMul(t1, t1))) == 0 {
		t2 = fMul(big2, t1)
		br.Doubled = true
	}
	// X = (u'^3 + 7 - t''^2) / (2t'')
	X := fDiv(fSub(G(u1), fMul(t2, t2)), fMul(big2, t2))
	// Y = (X + t'') / (c u')
	Y := fDiv(fAdd(X, t2), fMul(C, u1))
	// candidates: u' + 4Y^2, (-X/Y - u')/2, (X/Y - u')/2
	XoverY := fDiv(X, Y)
	cands := []*big.Int{
		fAdd(u1, fMul(big4, fMul(Y, Y))),
		fDiv(fSub(fNeg(XoverY), u1), big2),
		fDiv(fSub(XoverY, u1), big2),
	}
	for i, x := range cands {
		if IsSquare(G(x)) {
			br.Candidate = i
			return x, br
		}
	}
	panic("refbip324: XSwiftEC found no valid x (impossible per BIP324)")
}

// XSwiftECInv is the BIP324 partial inverse: given x on the curve, non-zero u
// and case in 0..7 it returns t with XSwiftEC(u,t)=x, or nil (None).
func XSwiftECInv(x, u *big.Int, c int) *big.Int {
	var v, s *big.Int
	if c&2 == 0 {
		if IsSquare(G(fNeg(fAdd(x, u)))) { // lift_x(-x-u) succeeds
			return nil
		}
		v = new(big.Int).Set(x)
		den := fAdd(fAdd(fMul(u, u), fMul(u, v)), fMul(v, v))
		s = fNeg(fDiv(G(u), den))
	} else {
		s = fSub(x, u)
		if s.Sign() == 0 {
			return nil
		}
		// r = sqrt(-s(4(u^3+7) + 3u^2 s))
		inner := fAdd(fMul(big4, G(u)), fMul(fMul(big3, fMul(u, u)), s))
		r := Sqrt(fNeg(fMul(s, inner)))
		if r == nil {
			return nil
		}
		if c&1 == 1 && r.Sign() == 0 {
			return nil
		}
		v = fDiv(fSub(fDiv(r, s), u), big2)
	}
	w := Sqrt(s)
	if w == nil {
		return nil
	}
	oneMinusC := fSub(big1, C)
	onePlusC := fAdd(big1, C)
	switch c & 5 {
	case 0:
		return fNeg(fMul(w, fAdd(fDiv(fMul(u, oneMinusC), big2), v)))
	case 1:
		return fMul(w, fAdd(fDiv(fMul(u, onePlusC), big2), v))
	case 4:
		return fMul(w, fAdd(fDiv(fMul(u, oneMinusC), big2), v))
	default: // 5
		return fNeg(fMul(w, fAdd(fDiv(fMul(u, onePlusC), big2), v)))
	}
}

// SplitEncoding returns (u mod p, t mod p) of a 64-byte ElligatorSwift encoding.
func SplitEncoding(enc [64]byte) (*big.Int, *big.Int) {
	u := fMod(new(big.Int).SetBytes(enc[:32]))
	t := fMod(new(big.Int).SetBytes(enc[32:]))
	return u, t
}

// Decode returns the x coordinate encoded by a 64-byte ElligatorSwift encoding.
func Decode(enc [64]byte) *big.Int {
	u, t := SplitEncoding(enc)
	x, _ := XSwiftEC(u, t)
	return x
}

// EncodeWithU deterministically builds an encoding of x whose first 32 bytes are
// exactly uBytes (which must decode to a non-zero field element < p), trying
// cases startCase, startCase+1, ... ; ok=false if no case yields a t.
func EncodeWithU(x *big.Int, uBytes [32]byte, startCase int) (enc [64]byte, ok bool) {
	u := new(big.Int).SetBytes(uBytes[:])
	if u.Sign() == 0 || u.Cmp(P) >= 0 {
		return enc, false
	}
	for i := 0; i < 8; i++ {
		t := XSwiftECInv(x, u, (startCase+i)&7)
		if t == nil {
			continue
		}
		tb := Bytes32(t)
		copy(enc[:32], uBytes[:])
		copy(enc[32:], tb[:])
		return enc, true
	}
	return enc, false
}

// Encode deterministically builds an encoding of x from a seed (the analogue of
// XElligatorSwift with the randomness replaced by a hash chain).
func Encode(x *big.Int, seed []byte) [64]byte {
	for ctr := uint32(0); ; ctr++ {
		var cb [4]byte
		binary.LittleEndian.PutUint32(cb[:], ctr)
		h := sha256.Sum256(append(append([]byte("refbip324/u"), seed...), cb[:]...))
		if enc, ok := EncodeWithU(x, h, int(h[31])&7); ok {
			return enc
		}
	}
}

// ECDHXOnly computes bytes(x(priv * lift_x(XSwiftEC(u,t)))).
func ECDHXOnly(theirs [64]byte, priv *big.Int) [32]byte {
	x := Decode(theirs)
	px, py, ok := LiftX(x)
	if !ok {
		panic("refbip324: decoded x not on curve")
	}
	r := Mul(priv, Point{X: px, Y: py})
	if r.Inf {
		panic("refbip324: ECDH result at infinity")
	}
	return Bytes32(r.X)
}

// V2ECDH is BIP324's v2_ecdh.
func V2ECDH(priv *big.Int, theirs, ours [64]byte, initiating bool) [32]byte {
	xs := ECDHXOnly(theirs, priv)
	msg := make([]byte, 0, 160)
	if initiating {
		msg = append(msg, ours[:]...)
		msg = append(msg, theirs[:]...)
	} else {
		msg = append(msg, theirs[:]...)
		msg = append(msg, ours[:]...)
	}
	msg = append(msg, xs[:]...)
	return TaggedHash("bip324_ellswift_xonly_ecdh", msg)
}
