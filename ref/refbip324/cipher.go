package refbip324

import (
	"crypto/hmac"
	"crypto/sha256"
	"crypto/subtle"
	"encoding/binary"
)

// RekeyInterval is BIP324's REKEY_INTERVAL.
const RekeyInterval = 224

// chachaKeystream returns n bytes of the ChaCha20 (RFC 8439) keystream of
// (key, nonce) starting at byte offset 64*startBlock.
func chachaKeystream(key []byte, nonce [12]byte, startBlock uint32, n int) []byte {
	out := make([]byte, n)
	chachaXOR(out, out, key, nonce, startBlock)
	return out
}

// aeadSeal is RFC 8439 AEAD_CHACHA20_POLY1305 encryption composed by hand from
// the raw stream cipher and the raw one-time MAC.
func aeadSeal(key []byte, nonce [12]byte, aad, pt []byte) []byte {
	polyKey := chachaKeystream(key, nonce, 0, 32)
	out := make([]byte, len(pt)+16)
	chachaXOR(out[:len(pt)], pt, key, nonce, 1)
	tag := aeadTag(polyKey, aad, out[:len(pt)])
	copy(out[len(pt):], tag[:])
	return out
}

// aeadOpen is the matching decryption; ok=false on authentication failure.
func aeadOpen(key []byte, nonce [12]byte, aad, in []byte) ([]byte, bool) {
	if len(in) < 16 {
		return nil, false
	}
	ct, tagIn := in[:len(in)-16], in[len(in)-16:]
	polyKey := chachaKeystream(key, nonce, 0, 32)
	tag := aeadTag(polyKey, aad, ct)
	if subtle.ConstantTimeCompare(tag[:], tagIn) != 1 {
		return nil, false
	}
	pt := make([]byte, len(ct))
	chachaXOR(pt, ct, key, nonce, 1)
	return pt, true
}

// aeadTag is the RFC 8439 section 2.8 MAC over
// aad || pad16 || ct || pad16 || le64(len aad) || le64(len ct).
func aeadTag(polyKey, aad, ct []byte) [16]byte {
	var k [32]byte
	copy(k[:], polyKey)
	p := newPoly(k)
	// each section is zero-padded to a multiple of 16, so only whole blocks
	// are ever absorbed
	feed := func(b []byte) {
		full := len(b) / 16 * 16
		p.write(b[:full])
		if full < len(b) {
			var last [16]byte
			copy(last[:], b[full:])
			p.write(last[:])
		}
	}
	feed(aad)
	feed(ct)
	var l [16]byte
	binary.LittleEndian.PutUint64(l[0:8], uint64(len(aad)))
	binary.LittleEndian.PutUint64(l[8:16], uint64(len(ct)))
	p.write(l[:])
	return p.sum()
}

// FSChaCha20Poly1305 is BIP324's forward-secure AEAD wrapper.
type FSChaCha20Poly1305 struct {
	key     []byte
	Counter uint64 // packet_counter
}

// NewFSChaCha20Poly1305 starts at packet counter 0.
func NewFSChaCha20Poly1305(key []byte) *FSChaCha20Poly1305 {
	return &FSChaCha20Poly1305{key: append([]byte(nil), key...)}
}

func (f *FSChaCha20Poly1305) nonce() [12]byte {
	var n [12]byte
	binary.LittleEndian.PutUint32(n[0:4], uint32(f.Counter%RekeyInterval))
	binary.LittleEndian.PutUint64(n[4:12], f.Counter/RekeyInterval)
	return n
}

func (f *FSChaCha20Poly1305) advance(nonce [12]byte) {
	if (f.Counter+1)%RekeyInterval == 0 {
		rk := nonce
		rk[0], rk[1], rk[2], rk[3] = 0xff, 0xff, 0xff, 0xff
		f.key = aeadSeal(f.key, rk, nil, make([]byte, 32))[:32]
	}
	f.Counter++
}

// Encrypt seals one packet and advances the counter.
func (f *FSChaCha20Poly1305) Encrypt(aad, pt []byte) []byte {
	n := f.nonce()
	out := aeadSeal(f.key, n, aad, pt)
	f.advance(n)
	return out
}

// Decrypt opens one packet; on failure the state is left untouched.
func (f *FSChaCha20Poly1305) Decrypt(aad, ct []byte) ([]byte, bool) {
	n := f.nonce()
	pt, ok := aeadOpen(f.key, n, aad, ct)
	if !ok {
		return nil, false
	}
	f.advance(n)
	return pt, true
}

// FSChaCha20 is BIP324's forward-secure stream cipher for the length field.
type FSChaCha20 struct {
	key      []byte
	Chunk    uint64 // chunk_counter
	consumed int    // keystream bytes consumed under the current key
}

// NewFSChaCha20 starts at chunk counter 0.
func NewFSChaCha20(key []byte) *FSChaCha20 {
	return &FSChaCha20{key: append([]byte(nil), key...)}
}

func (f *FSChaCha20) keystream(n int) []byte {
	var nonce [12]byte
	binary.LittleEndian.PutUint64(nonce[4:12], f.Chunk/RekeyInterval)
	// regenerate from the start of the keystream every time (naive on purpose)
	ks := chachaKeystream(f.key, nonce, 0, f.consumed+n)
	out := ks[f.consumed:]
	f.consumed += n
	return out
}

// Crypt xors one chunk with the next keystream bytes and rekeys after every
// 224th chunk with the next 32 keystream bytes.
func (f *FSChaCha20) Crypt(chunk []byte) []byte {
	ks := f.keystream(len(chunk))
	out := make([]byte, len(chunk))
	for i := range chunk {
		out[i] = chunk[i] ^ ks[i]
	}
	if (f.Chunk+1)%RekeyInterval == 0 {
		nk := f.keystream(32)
		f.key = append([]byte(nil), nk...)
		f.consumed = 0
	}
	f.Chunk++
	return out
}

// hkdfExtract / hkdfExpand32: RFC 5869 with SHA-256, L = 32 (one block).
func hkdfExtract(salt, ikm []byte) []byte {
	m := hmac.New(sha256.New, salt)
	m.Write(ikm)
	return m.Sum(nil)
}

func hkdfExpand32(prk []byte, info string) []byte {
	m := hmac.New(sha256.New, prk)
	m.Write([]byte(info))
	m.Write([]byte{1})
	return m.Sum(nil)
}

// Keys is everything initialize_v2_transport derives.
type Keys struct {
	SessionID  []byte
	InitiatorL []byte
	InitiatorP []byte
	ResponderL []byte
	ResponderP []byte
	InitTerm   []byte // initiator garbage terminator (16)
	RespTerm   []byte // responder garbage terminator (16)
}

// DeriveKeys implements the key schedule; magic is the 4 network magic bytes as
// they appear on the wire (mainnet f9 be b4 d9).
func DeriveKeys(ecdhSecret []byte, magic [4]byte) Keys {
	salt := append([]byte("bitcoin_v2_shared_secret"), magic[:]...)
	prk := hkdfExtract(salt, ecdhSecret)
	gt := hkdfExpand32(prk, "garbage_terminators")
	return Keys{
		SessionID:  hkdfExpand32(prk, "session_id"),
		InitiatorL: hkdfExpand32(prk, "initiator_L"),
		InitiatorP: hkdfExpand32(prk, "initiator_P"),
		ResponderL: hkdfExpand32(prk, "responder_L"),
		ResponderP: hkdfExpand32(prk, "responder_P"),
		InitTerm:   gt[:16],
		RespTerm:   gt[16:],
	}
}
