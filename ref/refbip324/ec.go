// Package refbip324 is an independent, deliberately naive reference
// implementation of BIP324 (v2 encrypted transport) written from the BIP text:
// ElligatorSwift (XSwiftEC, XSwiftECInv, encoding, x-only ECDH) over a tiny
// math/big secp256k1, HKDF-SHA256 key derivation, FSChaCha20,
// FSChaCha20Poly1305, packet framing and the handshake byte layout.
//
// ChaCha20 and Poly1305 are written from RFC 8439 (self-tested against the RFC
// vectors and an arbitrary-precision definition at init).  Trusted primitives:
// crypto/sha256, crypto/hmac, math/big.  Nothing from btcd or x/crypto is
// imported.
package refbip324

import (
	"crypto/sha256"
	"math/big"
)

// Curve constants of secp256k1 (SEC 2).
var (
	P, _  = new(big.Int).SetString("fffffffffffffffffffffffffffffffffffffffffffffffffffffffefffffc2f", 16)
	N, _  = new(big.Int).SetString("fffffffffffffffffffffffffffffffebaaedce6af48a03bbfd25e8cd0364141", 16)
	Gx, _ = new(big.Int).SetString("79be667ef9dcbbac55a06295ce870b07029bfcdb2dce28d959f2815b16f81798", 16)
	Gy, _ = new(big.Int).SetString("483ada7726a3c4655da4fbfc0e1108a8fd17b448a68554199c47d08ffb10d4b8", 16)

	// C is the BIP324 constant c = sqrt(-3) mod p.
	C, _ = new(big.Int).SetString("0a2d2ba93507f1df233770c2a797962cc61f6d15da14ecd47d8d27ae1cd5f852", 16)

	big0 = big.NewInt(0)
	big1 = big.NewInt(1)
	big2 = big.NewInt(2)
	big3 = big.NewInt(3)
	big4 = big.NewInt(4)
	big7 = big.NewInt(7)

	sqrtExp = new(big.Int).Rsh(new(big.Int).Add(P, big1), 2) // (p+1)/4
	halfExp = new(big.Int).Rsh(new(big.Int).Sub(P, big1), 1) // (p-1)/2
)

func init() {
	// c^2 == -3 (mod p)
	if fAdd(fMul(C, C), big3).Sign() != 0 {
		panic("refbip324: c is not sqrt(-3)")
	}
	if !OnCurve(Gx, Gy) {
		panic("refbip324: G not on curve")
	}
}

func fMod(a *big.Int) *big.Int { return new(big.Int).Mod(a, P) }
func fAdd(a, b *big.Int) *big.Int {
	return fMod(new(big.Int).Add(a, b))
}
func fSub(a, b *big.Int) *big.Int {
	return fMod(new(big.Int).Sub(a, b))
}
func fNeg(a *big.Int) *big.Int { return fMod(new(big.Int).Neg(a)) }
func fMul(a, b *big.Int) *big.Int {
	return fMod(new(big.Int).Mul(a, b))
}

// fInv returns a^-1 mod p; a must be non-zero.
func fInv(a *big.Int) *big.Int {
	r := new(big.Int).ModInverse(fMod(a), P)
	if r == nil {
		panic("refbip324: inverse of zero")
	}
	return r
}
func fDiv(a, b *big.Int) *big.Int { return fMul(a, fInv(b)) }

// G evaluates g(x) = x^3 + 7 mod p.
func G(x *big.Int) *big.Int { return fAdd(fMul(fMul(x, x), x), big7) }

// IsSquare reports whether a is a quadratic residue mod p (0 counts as square).
func IsSquare(a *big.Int) bool {
	a = fMod(a)
	if a.Sign() == 0 {
		return true
	}
	return new(big.Int).Exp(a, halfExp, P).Cmp(big1) == 0
}

// Sqrt returns the BIP324 square root a^((p+1)/4) if a is square, else nil.
func Sqrt(a *big.Int) *big.Int {
	a = fMod(a)
	r := new(big.Int).Exp(a, sqrtExp, P)
	if fMul(r, r).Cmp(a) != 0 {
		return nil
	}
	return r
}

// OnCurve reports y^2 == x^3+7.
func OnCurve(x, y *big.Int) bool { return fMul(y, y).Cmp(G(x)) == 0 }

// LiftX returns the even-y point with the given x, or ok=false.
func LiftX(x *big.Int) (*big.Int, *big.Int, bool) {
	if x.Sign() < 0 || x.Cmp(P) >= 0 {
		return nil, nil, false
	}
	y := Sqrt(G(x))
	if y == nil {
		return nil, nil, false
	}
	if y.Bit(0) == 1 {
		y = fNeg(y)
	}
	return new(big.Int).Set(x), y, true
}

// Point is an affine point; Inf marks the point at infinity.
type Point struct {
	X, Y *big.Int
	Inf  bool
}

// Add returns a+b (affine chord-and-tangent).
func Add(a, b Point) Point {
	if a.Inf {
		return b
	}
	if b.Inf {
		return a
	}
	var lam *big.Int
	if a.X.Cmp(b.X) == 0 {
		if fAdd(a.Y, b.Y).Sign() == 0 {
			return Point{Inf: true}
		}
		// tangent: 3x^2 / 2y
		lam = fDiv(fMul(big3, fMul(a.X, a.X)), fMul(big2, a.Y))
	} else {
		lam = fDiv(fSub(b.Y, a.Y), fSub(b.X, a.X))
	}
	x3 := fSub(fSub(fMul(lam, lam), a.X), b.X)
	y3 := fSub(fMul(lam, fSub(a.X, x3)), a.Y)
	return Point{X: x3, Y: y3}
}

// Mul returns k*pt by plain double-and-add (k taken mod n).
func Mul(k *big.Int, pt Point) Point {
	k = new(big.Int).Mod(k, N)
	acc := Point{Inf: true}
	for i := k.BitLen() - 1; i >= 0; i-- {
		acc = Add(acc, acc)
		if k.Bit(i) == 1 {
			acc = Add(acc, pt)
		}
	}
	return acc
}

// PubX returns the x coordinate of priv*G. priv must be in [1, n-1].
func PubX(priv *big.Int) *big.Int {
	r := Mul(priv, Point{X: Gx, Y: Gy})
	if r.Inf {
		panic("refbip324: infinity public key")
	}
	return r.X
}

// Bytes32 is the 32-byte big-endian encoding.
func Bytes32(a *big.Int) [32]byte {
	var out [32]byte
	a.FillBytes(out[:])
	return out
}

// TaggedHash is BIP340's tagged hash: sha256(sha256(tag)||sha256(tag)||msg).
func TaggedHash(tag string, msg []byte) [32]byte {
	th := sha256.Sum256([]byte(tag))
	h := sha256.New()
	h.Write(th[:])
	h.Write(th[:])
	h.Write(msg)
	var out [32]byte
	copy(out[:], h.Sum(nil))
	return out
}
