package refbip324

import (
	"bytes"
	"crypto/sha256"
	"encoding/binary"
	"math/big"
	"math/bits"
)

// chachaBlock is the ChaCha20 block function of RFC 8439 section 2.3
// (32-bit block counter, 96-bit nonce), written directly from the RFC.
func chachaBlock(key []byte, nonce [12]byte, counter uint32) [64]byte {
	var st [16]uint32
	st[0], st[1], st[2], st[3] = 0x61707865, 0x3320646e, 0x79622d32, 0x6b206574
	for i := 0; i < 8; i++ {
		st[4+i] = binary.LittleEndian.Uint32(key[4*i:])
	}
	st[12] = counter
	for i := 0; i < 3; i++ {
		st[13+i] = binary.LittleEndian.Uint32(nonce[4*i:])
	}
	w := st
	for i := 0; i < 10; i++ {
		quarter(&w, 0, 4, 8, 12)
		quarter(&w, 1, 5, 9, 13)
		quarter(&w, 2, 6, 10, 14)
		quarter(&w, 3, 7, 11, 15)
		quarter(&w, 0, 5, 10, 15)
		quarter(&w, 1, 6, 11, 12)
		quarter(&w, 2, 7, 8, 13)
		quarter(&w, 3, 4, 9, 14)
	}
	var out [64]byte
	for i := 0; i < 16; i++ {
		binary.LittleEndian.PutUint32(out[4*i:], w[i]+st[i])
	}
	return out
}

func quarter(w *[16]uint32, a, b, c, d int) {
	w[a] += w[b]
	w[d] = bits.RotateLeft32(w[d]^w[a], 16)
	w[c] += w[d]
	w[b] = bits.RotateLeft32(w[b]^w[c], 12)
	w[a] += w[b]
	w[d] = bits.RotateLeft32(w[d]^w[a], 8)
	w[c] += w[d]
	w[b] = bits.RotateLeft32(w[b]^w[c], 7)
}

// chachaXOR writes src xor keystream(key, nonce, blocks startBlock..) to dst.
func chachaXOR(dst, src, key []byte, nonce [12]byte, startBlock uint32) {
	if len(key) != 32 {
		panic("refbip324: chacha20 key must be 32 bytes")
	}
	for off, ctr := 0, startBlock; off < len(src); off, ctr = off+64, ctr+1 {
		b := chachaBlock(key, nonce, ctr)
		n := len(src) - off
		if n > 64 {
			n = 64
		}
		for i := 0; i < n; i++ {
			dst[off+i] = src[off+i] ^ b[i]
		}
	}
}

var poly1305P = new(big.Int).Sub(new(big.Int).Lsh(big.NewInt(1), 130), big.NewInt(5))

func leInt(b []byte) *big.Int {
	r := make([]byte, len(b))
	for i := range b {
		r[len(b)-1-i] = b[i]
	}
	return new(big.Int).SetBytes(r)
}

// poly1305Big is RFC 8439 section 2.5 with arbitrary-precision integers: the
// definition.  It is only used to self-test the limb version below.
func poly1305Big(msg []byte, key [32]byte) [16]byte {
	rb := append([]byte(nil), key[:16]...)
	rb[3] &= 15
	rb[7] &= 15
	rb[11] &= 15
	rb[15] &= 15
	rb[4] &= 252
	rb[8] &= 252
	rb[12] &= 252
	r := leInt(rb)
	s := leInt(key[16:])
	acc := new(big.Int)
	blk := make([]byte, 17)
	for len(msg) > 0 {
		n := 16
		if len(msg) < n {
			n = len(msg)
		}
		copy(blk, msg[:n])
		blk[n] = 1
		acc.Add(acc, leInt(blk[:n+1]))
		acc.Mul(acc, r)
		acc.Mod(acc, poly1305P)
		msg = msg[n:]
	}
	acc.Add(acc, s)
	b := acc.Bytes() // big endian
	var tag [16]byte
	for i := 0; i < 16 && i < len(b); i++ {
		tag[i] = b[len(b)-1-i]
	}
	return tag
}

// poly is the same MAC with 64-bit limbs (h = h0 + h1*2^64 + h2*2^128).
type poly struct {
	r0, r1, s0, s1 uint64
	h0, h1, h2     uint64
}

func newPoly(key [32]byte) *poly {
	return &poly{
		r0: binary.LittleEndian.Uint64(key[0:8]) & 0x0FFFFFFC0FFFFFFF,
		r1: binary.LittleEndian.Uint64(key[8:16]) & 0x0FFFFFFC0FFFFFFC,
		s0: binary.LittleEndian.Uint64(key[16:24]),
		s1: binary.LittleEndian.Uint64(key[24:32]),
	}
}

// block absorbs one block: m0 + m1*2^64 + hi*2^128, then multiplies by r mod p.
func (p *poly) block(m0, m1, hi uint64) {
	var c uint64
	p.h0, c = bits.Add64(p.h0, m0, 0)
	p.h1, c = bits.Add64(p.h1, m1, c)
	p.h2 += c + hi

	h0r0hi, h0r0lo := bits.Mul64(p.h0, p.r0)
	h1r0hi, h1r0lo := bits.Mul64(p.h1, p.r0)
	_, h2r0lo := bits.Mul64(p.h2, p.r0) // h2 < 8, r0 < 2^60: no high word
	h0r1hi, h0r1lo := bits.Mul64(p.h0, p.r1)
	h1r1hi, h1r1lo := bits.Mul64(p.h1, p.r1)
	_, h2r1lo := bits.Mul64(p.h2, p.r1)

	// columns
	m1lo, cc := bits.Add64(h1r0lo, h0r1lo, 0)
	m1hi, _ := bits.Add64(h1r0hi, h0r1hi, cc)
	m2lo, cc := bits.Add64(h2r0lo, h1r1lo, 0)
	m2hi, _ := bits.Add64(0, h1r1hi, cc)
	m3lo := h2r1lo

	t0 := h0r0lo
	t1, cc := bits.Add64(m1lo, h0r0hi, 0)
	t2, cc := bits.Add64(m2lo, m1hi, cc)
	t3, _ := bits.Add64(m3lo, m2hi, cc)

	// reduce modulo 2^130 - 5: h = low130 + 5*(high) = low130 + 4*high + high
	p.h0, p.h1, p.h2 = t0, t1, t2&3
	clo, chi := t2&^3, t3 // = 4*high
	p.h0, cc = bits.Add64(p.h0, clo, 0)
	p.h1, cc = bits.Add64(p.h1, chi, cc)
	p.h2 += cc
	clo, chi = clo>>2|chi<<62, chi>>2 // = high
	p.h0, cc = bits.Add64(p.h0, clo, 0)
	p.h1, cc = bits.Add64(p.h1, chi, cc)
	p.h2 += cc
}

// write absorbs msg as RFC 8439 blocks (a trailing partial block gets the 0x01
// marker right after its last byte).
func (p *poly) write(msg []byte) {
	for len(msg) >= 16 {
		p.block(binary.LittleEndian.Uint64(msg[0:8]), binary.LittleEndian.Uint64(msg[8:16]), 1)
		msg = msg[16:]
	}
	if len(msg) > 0 {
		var b [16]byte
		copy(b[:], msg)
		b[len(msg)] = 1
		p.block(binary.LittleEndian.Uint64(b[0:8]), binary.LittleEndian.Uint64(b[8:16]), 0)
	}
}

func (p *poly) sum() [16]byte {
	h0, h1, h2 := p.h0, p.h1, p.h2
	// full reduction: subtract p = 2^130-5 if h >= p
	t0, b := bits.Sub64(h0, 0xFFFFFFFFFFFFFFFB, 0)
	t1, b := bits.Sub64(h1, 0xFFFFFFFFFFFFFFFF, b)
	_, b = bits.Sub64(h2, 3, b)
	if b == 0 {
		h0, h1 = t0, t1
	}
	var c uint64
	h0, c = bits.Add64(h0, p.s0, 0)
	h1, _ = bits.Add64(h1, p.s1, c)
	var out [16]byte
	binary.LittleEndian.PutUint64(out[0:8], h0)
	binary.LittleEndian.PutUint64(out[8:16], h1)
	return out
}

func poly1305Mac(msg []byte, key [32]byte) [16]byte {
	p := newPoly(key)
	p.write(msg)
	return p.sum()
}

func init() {
	// RFC 8439 section 2.5.2 test vector
	var k [32]byte
	copy(k[:], []byte{0x85, 0xd6, 0xbe, 0x78, 0x57, 0x55, 0x6d, 0x33, 0x7f, 0x44, 0x52, 0xfe, 0x42, 0xd5, 0x06, 0xa8,
		0x01, 0x03, 0x80, 0x8a, 0xfb, 0x0d, 0xb2, 0xfd, 0x4a, 0xbf, 0xf6, 0xaf, 0x41, 0x49, 0xf5, 0x1b})
	want := []byte{0xa8, 0x06, 0x1d, 0xc1, 0x30, 0x51, 0x36, 0xc6, 0xc2, 0x2b, 0x8b, 0xaf, 0x0c, 0x01, 0x27, 0xa9}
	msg := []byte("Cryptographic Forum Research Group")
	if t := poly1305Big(msg, k); !bytes.Equal(t[:], want) {
		panic("refbip324: poly1305Big fails RFC 8439 2.5.2")
	}
	// limb version == definition on structured and pseudo-random inputs,
	// including all-ones keys/messages that maximise carries
	for i := 0; i < 300; i++ {
		h := sha256.Sum256([]byte{byte(i), byte(i >> 8), 'k'})
		key := h
		var m []byte
		for j := 0; len(m) < i; j++ {
			hh := sha256.Sum256([]byte{byte(i), byte(j), 'm'})
			m = append(m, hh[:]...)
		}
		m = m[:i]
		switch i % 5 {
		case 1:
			for j := range key {
				key[j] = 0xff
			}
		case 2:
			for j := range m {
				m[j] = 0xff
			}
		case 3:
			for j := range key {
				key[j] = 0xff
			}
			for j := range m {
				m[j] = 0xff
			}
		}
		if poly1305Mac(m, key) != poly1305Big(m, key) {
			panic("refbip324: poly1305 limb implementation disagrees with the definition")
		}
	}
	// RFC 8439 section 2.3.2 ChaCha20 block vector
	var ck [32]byte
	for i := range ck {
		ck[i] = byte(i)
	}
	nonce := [12]byte{0, 0, 0, 9, 0, 0, 0, 0x4a, 0, 0, 0, 0}
	blk := chachaBlock(ck[:], nonce, 1)
	if blk[0] != 0x10 || blk[1] != 0xf1 || blk[2] != 0xe7 || blk[3] != 0xe4 || blk[63] != 0x4e {
		panic("refbip324: chacha20 block function fails RFC 8439 2.3.2")
	}
}
