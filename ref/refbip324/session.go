package refbip324

import (
	"bytes"
	"errors"
	"math/big"
)

const (
	// MaxGarbageLen is the largest garbage a peer may send.
	MaxGarbageLen = 4095
	// TermLen is the garbage terminator length.
	TermLen = 16
	// IgnoreBit is the header bit that marks decoy packets.
	IgnoreBit = 0x80
	// MaxContentsLen is 2^24-1.
	MaxContentsLen = 1<<24 - 1
)

// Errors of the receiving side.
var (
	ErrShort      = errors.New("refbip324: stream ended inside a packet")
	ErrAuth       = errors.New("refbip324: AEAD authentication failed")
	ErrNoTerm     = errors.New("refbip324: garbage terminator not found within 4095+16 bytes")
	ErrV1         = errors.New("refbip324: peer speaks v1")
	ErrNotStarted = errors.New("refbip324: endpoint has no keys yet")
)

// Endpoint is one side of a BIP324 connection.
type Endpoint struct {
	Initiating bool
	Magic      [4]byte
	Priv       *big.Int
	Ours       [64]byte // our ElligatorSwift encoding
	Garbage    []byte   // garbage we send after our key

	Theirs [64]byte
	K      Keys

	SendL, RecvL *FSChaCha20
	SendP, RecvP *FSChaCha20Poly1305
	SendTerm     []byte
	RecvTerm     []byte
}

// NewEndpoint prepares an endpoint with a fixed key, encoding and garbage.
func NewEndpoint(initiating bool, magic [4]byte, priv *big.Int, ours [64]byte, garbage []byte) *Endpoint {
	if len(garbage) > MaxGarbageLen {
		panic("refbip324: own garbage too long")
	}
	return &Endpoint{Initiating: initiating, Magic: magic, Priv: priv, Ours: ours, Garbage: garbage}
}

// FirstFlight is what is sent before the peer's key is known: key || garbage.
func (e *Endpoint) FirstFlight() []byte {
	out := append([]byte(nil), e.Ours[:]...)
	return append(out, e.Garbage...)
}

// V1Prefix is the 16 bytes a v1 peer would start with.
func V1Prefix(magic [4]byte) []byte {
	return append(append([]byte(nil), magic[:]...), []byte("version\x00\x00\x00\x00\x00")...)
}

// SetTheirs performs v2_ecdh and initialize_v2_transport.
func (e *Endpoint) SetTheirs(theirs [64]byte) {
	e.SetTheirsWithSecret(theirs, V2ECDH(e.Priv, theirs, e.Ours, e.Initiating))
}

// SetTheirsWithSecret is SetTheirs with the v2_ecdh output supplied by the
// caller (which must have obtained it from V2ECDH for exactly these inputs;
// lets a harness memoise the slow big-integer ECDH).
func (e *Endpoint) SetTheirsWithSecret(theirs [64]byte, secret [32]byte) {
	e.Theirs = theirs
	e.K = DeriveKeys(secret[:], e.Magic)
	if e.Initiating {
		e.SendL, e.SendP = NewFSChaCha20(e.K.InitiatorL), NewFSChaCha20Poly1305(e.K.InitiatorP)
		e.RecvL, e.RecvP = NewFSChaCha20(e.K.ResponderL), NewFSChaCha20Poly1305(e.K.ResponderP)
		e.SendTerm, e.RecvTerm = e.K.InitTerm, e.K.RespTerm
	} else {
		e.SendL, e.SendP = NewFSChaCha20(e.K.ResponderL), NewFSChaCha20Poly1305(e.K.ResponderP)
		e.RecvL, e.RecvP = NewFSChaCha20(e.K.InitiatorL), NewFSChaCha20Poly1305(e.K.InitiatorP)
		e.SendTerm, e.RecvTerm = e.K.RespTerm, e.K.InitTerm
	}
}

// EncPacket is v2_enc_packet with explicit ciphers (so that the same code can
// predict what the *peer* must emit).
func EncPacket(l *FSChaCha20, p *FSChaCha20Poly1305, contents, aad []byte, ignore bool) []byte {
	if len(contents) > MaxContentsLen {
		panic("refbip324: contents too long")
	}
	hdr := byte(0)
	if ignore {
		hdr = IgnoreBit
	}
	pt := append([]byte{hdr}, contents...)
	body := p.Encrypt(aad, pt)
	n := len(contents)
	encLen := l.Crypt([]byte{byte(n), byte(n >> 8), byte(n >> 16)})
	return append(encLen, body...)
}

// Enc encrypts one packet in our sending direction.
func (e *Endpoint) Enc(contents, aad []byte, ignore bool) []byte {
	return EncPacket(e.SendL, e.SendP, contents, aad, ignore)
}

// SecondFlight is terminator || decoys || version packet (AAD = our garbage on
// the first packet only).
func (e *Endpoint) SecondFlight(decoyLens []int, version []byte) (out []byte, packets [][]byte) {
	out = append(out, e.SendTerm...)
	aad := e.Garbage
	for _, n := range decoyLens {
		pk := e.Enc(make([]byte, n), aad, true)
		aad = nil
		packets = append(packets, pk)
		out = append(out, pk...)
	}
	pk := e.Enc(version, aad, false)
	packets = append(packets, pk)
	out = append(out, pk...)
	return out, packets
}

// FindTerminator scans a byte stream (positioned right after the peer's 64 key
// bytes) for term as the BIP prescribes: at most 4095 garbage bytes may precede
// it. short=true means the stream ended before a decision could be made.
func FindTerminator(stream, term []byte) (garbageLen int, found, short bool) {
	for g := 0; g <= MaxGarbageLen; g++ {
		if len(stream) < g+TermLen {
			return 0, false, true
		}
		if bytes.Equal(stream[g:g+TermLen], term) {
			return g, true, false
		}
	}
	return 0, false, false
}

// DecPacket decrypts one packet from the front of stream in our receiving
// direction: returns ignore flag, contents and the number of bytes consumed.
func (e *Endpoint) DecPacket(stream, aad []byte) (ignore bool, contents []byte, used int, err error) {
	if e.RecvL == nil {
		return false, nil, 0, ErrNotStarted
	}
	if len(stream) < 3 {
		return false, nil, 0, ErrShort
	}
	lb := e.RecvL.Crypt(stream[:3])
	n := int(lb[0]) | int(lb[1])<<8 | int(lb[2])<<16
	total := 3 + 1 + n + 16
	if len(stream) < total {
		return false, nil, 0, ErrShort
	}
	pt, ok := e.RecvP.Decrypt(aad, stream[3:total])
	if !ok {
		return false, nil, 0, ErrAuth
	}
	return pt[0]&IgnoreBit != 0, pt[1:], total, nil
}
