// Package c17tree is the deliberately naive reference model for property C17:
// a rooted tree given by a parent vector, and every block-index / chain-view /
// inventory query answered by plain parent-pointer walks.  Nodes are ints,
// -1 is "no node" (nil / unknown hash).  Nothing here calls btcd.
//
// Sources: the doc comments of blockchain.BlockLocator, LocateBlocks,
// LocateHeaders, HeightRange, HeightToHashRange, IntervalBlockHashes (which
// agree with Bitcoin's getblocks/getheaders handling: start after the first
// locator entry that is on the active chain, else after genesis; emit
// consecutive active-chain blocks until the stop hash was emitted or the limit
// is reached) and Bitcoin Core's CChain::GetLocator for the locator spacing.
package c17tree

// Tree is a rooted tree; node 0 is the root (genesis).
type Tree struct {
	Parent []int
	height []int   // memo of the naive link count (filled by New)
	paths  [][]int // memo of the naive root..x walk for every x (filled by New)
}

// New copies the parent vector (parents[0] is forced to -1).
func New(parents []int) *Tree {
	p := append([]int(nil), parents...)
	if len(p) > 0 {
		p[0] = -1
	}
	t := &Tree{Parent: p}
	hs := make([]int, len(p))
	for x := range p {
		hs[x] = t.countLinks(x)
	}
	t.height = hs
	t.paths = make([][]int, len(p))
	for x := range p {
		t.paths[x] = t.walk(x)
	}
	return t
}

// N is the number of nodes.
func (t *Tree) N() int { return len(t.Parent) }

// countLinks counts the parent links up to the root.
func (t *Tree) countLinks(x int) int {
	h := 0
	for y := t.Parent[x]; y != -1; y = t.Parent[y] {
		h++
	}
	return h
}

// Height is the number of parent links between x and the root.
func (t *Tree) Height(x int) int { return t.height[x] }

// Ancestor is the node at the given height on the path from x to the root, or
// -1 when height is negative or above x.
func (t *Tree) Ancestor(x int, height int64) int {
	if height < 0 || height > int64(t.Height(x)) {
		return -1
	}
	y := x
	for int64(t.Height(y)) != height {
		y = t.Parent[y]
	}
	return y
}

// RelativeAncestor is the node distance links above x (-1 if there is none;
// a negative distance has none either).
func (t *Tree) RelativeAncestor(x int, distance int64) int {
	return t.Ancestor(x, int64(t.Height(x))-distance)
}

// IsAncestor reports whether y is a proper ancestor of x.
func (t *Tree) IsAncestor(x, y int) bool {
	if y < 0 {
		return false
	}
	for z := t.Parent[x]; z != -1; z = t.Parent[z] {
		if z == y {
			return true
		}
	}
	return false
}

// Path is root..tip (empty for tip == -1).  The result is shared: read only.
func (t *Tree) Path(tip int) []int {
	if tip < 0 {
		return nil
	}
	return t.paths[tip]
}

// walk follows the parent links from tip to the root and reverses them.
func (t *Tree) walk(tip int) []int {
	var rev []int
	for y := tip; y != -1; y = t.Parent[y] {
		rev = append(rev, y)
	}
	out := make([]int, len(rev))
	for i, v := range rev {
		out[len(rev)-1-i] = v
	}
	return out
}

// On reports whether x lies on the path root..tip.
func (t *Tree) On(tip, x int) bool {
	if x < 0 {
		return false
	}
	for _, y := range t.Path(tip) {
		if y == x {
			return true
		}
	}
	return false
}

// Next is the successor of x on the path root..tip (-1 if x is not on it or is
// the tip).
func (t *Tree) Next(tip, x int) int {
	p := t.Path(tip)
	for i, y := range p {
		if y == x && x >= 0 {
			if i+1 < len(p) {
				return p[i+1]
			}
			return -1
		}
	}
	return -1
}

// AtHeight is the node of root..tip at height h (-1 if none).
func (t *Tree) AtHeight(tip int, h int64) int {
	p := t.Path(tip)
	if h < 0 || h >= int64(len(p)) {
		return -1
	}
	return p[h]
}

// FindFork is the last node common to root..tip and root..x (-1 if none).
func (t *Tree) FindFork(tip, x int) int {
	for y := x; y >= 0; y = t.Parent[y] {
		if t.On(tip, y) {
			return y
		}
	}
	return -1
}

// LocatorHeights lists the heights of a block locator for a block at height h:
// the block itself, then steps of 1 until 12 entries are present, after which
// every step is twice the previous one; heights clamp at 0 and the genesis block
// always terminates the list.  (BlockLocator doc comment: the locator for a block
// at height 17 is 17 16 15 14 13 12 11 10 9 8 7 6 4 0.)
func LocatorHeights(h int) []int {
	out := []int{h}
	for k := 1; out[len(out)-1] != 0; k++ {
		step := 1
		if k >= 12 {
			step = 1 << uint(k-11)
		}
		next := out[len(out)-1] - step
		if next < 0 {
			next = 0
		}
		out = append(out, next)
	}
	return out
}

// Locator is the block locator of node x as node ids.
func (t *Tree) Locator(x int) []int {
	if x < 0 {
		return nil
	}
	var out []int
	for _, h := range LocatorHeights(t.Height(x)) {
		out = append(out, t.Ancestor(x, int64(h)))
	}
	return out
}

// Locate answers getblocks/getheaders on the active chain root..tip.  locator
// entries and stop are node ids, -1 standing for a hash the index does not know.
//
//   - empty locator: the stop block itself if known (wherever it is), else nothing
//   - otherwise: start after the first locator entry on the active chain (after
//     genesis if there is none) and emit consecutive active-chain blocks until
//     max were emitted, the stop block was emitted, or the tip was emitted.
func (t *Tree) Locate(tip int, locator []int, stop int, max int) []int {
	if len(locator) == 0 {
		if stop >= 0 {
			return []int{stop}
		}
		return nil
	}
	start := 0
	for _, l := range locator {
		if l >= 0 && t.On(tip, l) {
			start = l
			break
		}
	}
	var out []int
	for x := t.Next(tip, start); x != -1 && len(out) < max; x = t.Next(tip, x) {
		out = append(out, x)
		if x == stop {
			break
		}
	}
	return out
}

// HeightRange: active-chain blocks with start <= height < end; error for
// start < 0 or end < start; end is limited to the tip height + 1.
func (t *Tree) HeightRange(tip int, start, end int64) ([]int, bool) {
	if start < 0 || end < start {
		return nil, true
	}
	var out []int
	for _, x := range t.Path(tip) {
		h := int64(t.Height(x))
		if h >= start && h < end {
			out = append(out, x)
		}
	}
	return out, false
}

// HeightToHashRange: the ancestors-or-self of end with height >= start, in
// ascending height.  Errors: end unknown, end not validated, start < 0, start
// above end's height, more than max results.
func (t *Tree) HeightToHashRange(start int64, end int, endValid bool, max int) ([]int, bool) {
	if end < 0 || !endValid || start < 0 || start > int64(t.Height(end)) {
		return nil, true
	}
	var out []int
	for _, x := range t.Path(end) {
		if int64(t.Height(x)) >= start {
			out = append(out, x)
		}
	}
	if len(out) > max {
		return nil, true
	}
	return out, false
}

// Interval: the ancestors-or-self of end whose height is a positive multiple of
// interval (interval >= 1), in ascending height.
func (t *Tree) Interval(end int, endValid bool, interval int) ([]int, bool) {
	if end < 0 || !endValid {
		return nil, true
	}
	var out []int
	for _, x := range t.Path(end) {
		h := t.Height(x)
		if h > 0 && h%interval == 0 {
			out = append(out, x)
		}
	}
	return out, false
}

// Tip describes one chain tip.
type Tip struct {
	Node, Height, BranchLen int
	Active                  bool
}

// ChainTips lists, among the nodes in present (nil: all), the active tip plus
// every node off the active chain that has no child; BranchLen is the distance
// to the fork point with the active chain.  Order: ascending node id.
func (t *Tree) ChainTips(tip int, present []bool) []Tip {
	var out []Tip
	for x := 0; x < t.N(); x++ {
		if present != nil && !present[x] {
			continue
		}
		if x == tip {
			out = append(out, Tip{x, t.Height(x), 0, true})
			continue
		}
		if t.On(tip, x) {
			continue
		}
		hasChild := false
		for c := 0; c < t.N(); c++ {
			if t.Parent[c] == x && (present == nil || present[c]) {
				hasChild = true
			}
		}
		if !hasChild {
			out = append(out, Tip{x, t.Height(x), t.Height(x) - t.Height(t.FindFork(tip, x)), false})
		}
	}
	return out
}
