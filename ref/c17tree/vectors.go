package c17tree

import (
	"fmt"
	"reflect"
)

// SelfTest runs the reference against ground truth shipped with btcd:
//
//   - the worked example in the BlockLocator doc comment (blockchain/chain.go)
//   - every literal case of TestLocateInventory, TestHeightToHashRange and
//     TestIntervalBlockHashes (blockchain/chain_test.go), transcribed to node ids
//   - the literal locators of TestChainView (blockchain/chainview_test.go)
//
// A non-nil error means the reference (not btcd) is wrong.
func SelfTest() error {
	// BlockLocator doc comment.
	if got, want := LocatorHeights(17), []int{17, 16, 15, 14, 13, 12, 11, 10, 9, 8, 7, 6, 4, 0}; !reflect.DeepEqual(got, want) {
		return fmt.Errorf("LocatorHeights(17) = %v, doc comment says %v", got, want)
	}
	// chainview_test.go TestChainView "chain0-chain1": tip at height 4 ->
	// locatorHashes(branch0Nodes, 4, 3, 2, 1, 0).
	if got, want := LocatorHeights(4), []int{4, 3, 2, 1, 0}; !reflect.DeepEqual(got, want) {
		return fmt.Errorf("LocatorHeights(4) = %v, shipped vector %v", got, want)
	}
	// "chain1-chain2": tip branch1Nodes[24] is at height 26 (branch1Nodes[k] has
	// height 2+k): branch1 indexes 24..13, 11, 7, then branch0 1, 0.
	if got, want := LocatorHeights(26), []int{26, 25, 24, 23, 22, 21, 20, 19, 18, 17, 16, 15, 13, 9, 1, 0}; !reflect.DeepEqual(got, want) {
		return fmt.Errorf("LocatorHeights(26) = %v, shipped vector %v", got, want)
	}
	if got, want := LocatorHeights(0), []int{0}; !reflect.DeepEqual(got, want) {
		return fmt.Errorf("LocatorHeights(0) = %v, want %v", got, want)
	}

	// genesis(0) -> 1 .. 18 (ids 1..18; branch0Nodes[i] = id i+1)
	//                 15 -> 16a(19) -> 17a(20) -> 18a(21, unvalidated)
	parents := make([]int, 22)
	for i := 1; i <= 18; i++ {
		parents[i] = i - 1
	}
	parents[19], parents[20], parents[21] = 15, 19, 20
	t := New(parents)
	tip := 18
	b0 := func(ix ...int) []int {
		var out []int
		for _, i := range ix {
			out = append(out, i+1)
		}
		return out
	}
	rng := func(a, b int) []int { // branch0Nodes[a..b]
		var out []int
		for i := a; i <= b; i++ {
			out = append(out, i+1)
		}
		return out
	}
	const unknown = -1
	remote := t.Locator(20) // remoteView.BlockLocator(nil), tip 17a
	if want := []int{20, 19, 15, 14, 13, 12, 11, 10, 9, 8, 7, 6, 4, 0}; !reflect.DeepEqual(remote, want) {
		return fmt.Errorf("locator(17a) = %v, doc comment says %v", remote, want)
	}
	past := t.Locator(13) // localView.BlockLocator(branch0Nodes[12])
	same := t.Locator(18)
	unrelated := []int{unknown, unknown, unknown, unknown, unknown}
	type lc struct {
		name string
		loc  []int
		stop int
		max  int
		want []int
	}
	cases := []lc{
		{"no locators, no stop", nil, unknown, 2000, nil},
		{"no locators, stop in side", nil, 20, 2000, []int{20}},
		{"no locators, stop in main", nil, 13, 2000, []int{13}},
		{"remote side chain, unknown stop", remote, unknown, 2000, b0(15, 16, 17)},
		{"remote side chain, stop in side", remote, 20, 2000, b0(15, 16, 17)},
		{"remote side chain, stop in main before", remote, 14, 2000, b0(15, 16, 17)},
		{"remote side chain, stop in main exact", remote, 15, 2000, b0(15, 16, 17)},
		{"remote side chain, stop in main after", remote, 16, 2000, b0(15)},
		{"remote side chain, stop in main after more", remote, 17, 2000, b0(15, 16)},
		{"remote main chain past, unknown stop", past, unknown, 2000, b0(13, 14, 15, 16, 17)},
		{"remote main chain past, stop in side", past, 20, 2000, b0(13, 14, 15, 16, 17)},
		{"remote main chain past, stop in main before", past, 12, 2000, b0(13, 14, 15, 16, 17)},
		{"remote main chain past, stop in main exact", past, 13, 2000, b0(13, 14, 15, 16, 17)},
		{"remote main chain past, stop in main after", past, 14, 2000, b0(13)},
		{"remote main chain past, stop in main after more", past, 16, 2000, b0(13, 14, 15)},
		{"remote main chain same, unknown stop", same, unknown, 2000, nil},
		{"remote main chain same, stop same point", same, 18, 2000, nil},
		{"remote unrelated chain", unrelated, unknown, 2000, rng(0, 17)},
		{"remote genesis", []int{1}, unknown, 3, b0(1, 2, 3)},
		{"weak locator, single known side block", []int{20}, unknown, 2000, rng(0, 17)},
		{"weak locator, multiple known side blocks", []int{20, 19}, unknown, 2000, rng(0, 17)},
		{"weak locator, multiple known side blocks, stop in main", []int{20, 19}, 6, 2000, rng(0, 5)},
	}
	for _, c := range cases {
		got := t.Locate(tip, c.loc, c.stop, c.max)
		if len(got) == 0 && len(c.want) == 0 {
			continue
		}
		if !reflect.DeepEqual(got, c.want) {
			return fmt.Errorf("TestLocateInventory %q: reference gives %v, shipped vector %v", c.name, got, c.want)
		}
	}

	valid := func(x int) bool { return x != 21 }
	type hc struct {
		name  string
		start int64
		end   int
		max   int
		want  []int
		err   bool
	}
	for _, c := range []hc{
		{"blocks below tip", 11, 15, 10, b0(10, 11, 12, 13, 14), false},
		{"blocks on main chain", 15, 18, 10, b0(14, 15, 16, 17), false},
		{"blocks on stale chain", 15, 20, 10, []int{15, 19, 20}, false},
		{"invalid start height", 19, 18, 10, nil, true},
		{"too many results", 1, 18, 10, nil, true},
		{"unvalidated block", 15, 21, 10, nil, true},
	} {
		got, err := t.HeightToHashRange(c.start, c.end, valid(c.end), c.max)
		if err != c.err || (!err && !reflect.DeepEqual(got, c.want)) {
			return fmt.Errorf("TestHeightToHashRange %q: reference gives %v err=%v, shipped vector %v err=%v", c.name, got, err, c.want, c.err)
		}
	}
	type ic struct {
		name     string
		end      int
		interval int
		want     []int
		err      bool
	}
	for _, c := range []ic{
		{"blocks on main chain", 18, 8, b0(7, 15), false},
		{"blocks on stale chain", 20, 8, []int{8, 19}, false},
		{"no results", 18, 20, nil, false},
		{"unvalidated block", 21, 8, nil, true},
	} {
		got, err := t.Interval(c.end, valid(c.end), c.interval)
		if err != c.err || (!err && !(len(got) == 0 && len(c.want) == 0) && !reflect.DeepEqual(got, c.want)) {
			return fmt.Errorf("TestIntervalBlockHashes %q: reference gives %v err=%v, shipped vector %v err=%v", c.name, got, err, c.want, c.err)
		}
	}

	// FindFork / Next doc-comment examples (chainview.go): genesis..8 with side
	// chain 6a 7a forking after 5: FindFork(7a) = 5, FindFork(7) = 7; Next(5) = 6,
	// Next(5a) = nil.
	p2 := []int{-1, 0, 1, 2, 3, 4, 5, 6, 7 /*6a*/, 5 /*7a*/, 9}
	t2 := New(p2)
	if f := t2.FindFork(8, 10); f != 5 {
		return fmt.Errorf("FindFork doc example: got %d want 5", f)
	}
	if f := t2.FindFork(8, 7); f != 7 {
		return fmt.Errorf("FindFork doc example (own branch): got %d want 7", f)
	}
	if n := t2.Next(8, 5); n != 6 {
		return fmt.Errorf("Next doc example: got %d want 6", n)
	}
	if n := t2.Next(8, 9); n != -1 {
		return fmt.Errorf("Next doc example (side node): got %d want -1", n)
	}
	return nil
}
