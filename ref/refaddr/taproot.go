package refaddr

import (
	"bytes"
	"crypto/sha256"
	"errors"
	"math/big"
)

// BIP340 tagged hash and the BIP341 script-tree commitments.

// TaggedHash is SHA256(SHA256(tag) ‖ SHA256(tag) ‖ msg...).
func TaggedHash(tag string, msgs ...[]byte) [32]byte {
	t := sha256.Sum256([]byte(tag))
	h := sha256.New()
	h.Write(t[:])
	h.Write(t[:])
	for _, m := range msgs {
		h.Write(m)
	}
	var out [32]byte
	copy(out[:], h.Sum(nil))
	return out
}

// CompactSize is Bitcoin's variable length integer.
func CompactSize(n uint64) []byte {
	switch {
	case n < 0xfd:
		return []byte{byte(n)}
	case n <= 0xffff:
		return []byte{0xfd, byte(n), byte(n >> 8)}
	case n <= 0xffffffff:
		return []byte{0xfe, byte(n), byte(n >> 8), byte(n >> 16), byte(n >> 24)}
	}
	b := []byte{0xff}
	for i := 0; i < 8; i++ {
		b = append(b, byte(n>>(8*uint(i))))
	}
	return b
}

// TapLeafHash = hash_TapLeaf(version ‖ compact_size(len(script)) ‖ script).
func TapLeafHash(version byte, script []byte) [32]byte {
	return TaggedHash("TapLeaf", []byte{version}, CompactSize(uint64(len(script))), script)
}

// TapBranchHash = hash_TapBranch(min(a,b) ‖ max(a,b)).
func TapBranchHash(a, b [32]byte) [32]byte {
	if bytes.Compare(a[:], b[:]) > 0 {
		a, b = b, a
	}
	return TaggedHash("TapBranch", a[:], b[:])
}

var (
	ErrTapKey     = errors.New("refaddr: taproot internal key is not a valid x coordinate")
	ErrTapTweak   = errors.New("refaddr: taproot tweak >= n or result at infinity")
	ErrTapControl = errors.New("refaddr: taproot control block malformed")
	ErrTapCommit  = errors.New("refaddr: taproot commitment mismatch")
)

// TapTweak is taproot_tweak_pubkey: Q = lift_x(internal) + int(hash_TapTweak(internal ‖ root))·G.
// root may be empty (key-path-only output).
func TapTweak(internalX []byte, root []byte) (outX [32]byte, odd bool, err error) {
	if len(internalX) != 32 {
		return outX, false, ErrTapKey
	}
	p, ok := LiftX(new(big.Int).SetBytes(internalX), false)
	if !ok {
		return outX, false, ErrTapKey
	}
	t := TaggedHash("TapTweak", internalX, root)
	tv := new(big.Int).SetBytes(t[:])
	if tv.Cmp(N) >= 0 {
		return outX, false, ErrTapTweak
	}
	q := Add(p, BaseMul(tv))
	if q.Inf() {
		return outX, false, ErrTapTweak
	}
	copy(outX[:], q.XOnly())
	return outX, q.Y.Bit(0) == 1, nil
}

// Tree is a binary script tree: a leaf (L == R == nil) or a branch.
type Tree struct {
	LeafVersion byte
	Script      []byte
	L, R        *Tree
}

func (t *Tree) IsLeaf() bool { return t.L == nil && t.R == nil }

// Hash is the node's TapLeaf / TapBranch hash.
func (t *Tree) Hash() [32]byte {
	if t.IsLeaf() {
		return TapLeafHash(t.LeafVersion, t.Script)
	}
	return TapBranchHash(t.L.Hash(), t.R.Hash())
}

// LeafProof is a leaf with its merkle path (sibling hashes, leaf upwards).
type LeafProof struct {
	Leaf *Tree
	Path [][32]byte
}

// Proofs returns all leaves in left-to-right order with their paths.
func (t *Tree) Proofs() []LeafProof {
	if t.IsLeaf() {
		return []LeafProof{{Leaf: t}}
	}
	lh, rh := t.L.Hash(), t.R.Hash()
	var out []LeafProof
	for _, p := range t.L.Proofs() {
		p.Path = append(append([][32]byte{}, p.Path...), rh)
		out = append(out, p)
	}
	for _, p := range t.R.Proofs() {
		p.Path = append(append([][32]byte{}, p.Path...), lh)
		out = append(out, p)
	}
	return out
}

// ControlBlock is (leaf_version | parity) ‖ internal key ‖ path.
func ControlBlock(leafVersion byte, outputOdd bool, internalX []byte, path [][32]byte) []byte {
	b := []byte{leafVersion & 0xfe}
	if outputOdd {
		b[0] |= 1
	}
	b = append(b, internalX...)
	for _, h := range path {
		b = append(b, h[:]...)
	}
	return b
}

// VerifyScriptPath is the BIP341 script-path commitment check for output key
// q (32 bytes), the revealed script and the control block.
func VerifyScriptPath(q []byte, script, control []byte) error {
	if len(control) < 33 || (len(control)-33)%32 != 0 || (len(control)-33)/32 > 128 {
		return ErrTapControl
	}
	m := (len(control) - 33) / 32
	p := control[1:33]
	v := control[0] & 0xfe
	k := TapLeafHash(v, script)
	for j := 0; j < m; j++ {
		var e [32]byte
		copy(e[:], control[33+32*j:65+32*j])
		k = TapBranchHash(k, e)
	}
	outX, odd, err := TapTweak(p, k[:])
	if err != nil {
		return err
	}
	if !bytes.Equal(outX[:], q) || odd != (control[0]&1 == 1) {
		return ErrTapCommit
	}
	return nil
}
