// Package refaddr is a deliberately naive, independent reference model of the
// Bitcoin address / key / script-template encodings, written from the
// specifications (Base58Check as in the original client, BIP173, BIP350,
// BIP32, BIP340/341, BIP141 script templates) with math/big only.
//
// It must not import any btcd package.
package refaddr

import (
	"crypto/sha256"
	"errors"
	"math/big"
)

// B58Alphabet is the Bitcoin base58 alphabet (no 0, O, I, l).
const B58Alphabet = "123456789ABCDEFGHJKLMNPQRSTUVWXYZabcdefghijkmnopqrstuvwxyz"

var big58 = big.NewInt(58)

// B58Encode: the byte string is a big-endian number written in base 58; every
// leading zero byte is written as one '1'.
func B58Encode(b []byte) string {
	zeros := 0
	for zeros < len(b) && b[zeros] == 0 {
		zeros++
	}
	x := new(big.Int).SetBytes(b)
	var rev []byte
	m := new(big.Int)
	for x.Sign() > 0 {
		x.DivMod(x, big58, m)
		rev = append(rev, B58Alphabet[m.Int64()])
	}
	out := make([]byte, 0, zeros+len(rev))
	for i := 0; i < zeros; i++ {
		out = append(out, '1')
	}
	for i := len(rev) - 1; i >= 0; i-- {
		out = append(out, rev[i])
	}
	return string(out)
}

// B58Decode is the inverse of B58Encode.  ok=false if the string contains a
// byte that is not in the alphabet.
func B58Decode(s string) ([]byte, bool) {
	x := new(big.Int)
	for i := 0; i < len(s); i++ {
		d := -1
		for j := 0; j < len(B58Alphabet); j++ {
			if B58Alphabet[j] == s[i] {
				d = j
			}
		}
		if d < 0 {
			return nil, false
		}
		x.Mul(x, big58)
		x.Add(x, big.NewInt(int64(d)))
	}
	zeros := 0
	for zeros < len(s) && s[zeros] == '1' {
		zeros++
	}
	return append(make([]byte, zeros), x.Bytes()...), true
}

// DSHA256 is SHA256(SHA256(b)).
func DSHA256(b []byte) [32]byte {
	h := sha256.Sum256(b)
	return sha256.Sum256(h[:])
}

// CheckEncode is Base58Check: version ‖ payload ‖ first 4 bytes of the double
// SHA-256 of (version ‖ payload), base58 encoded.
func CheckEncode(version byte, payload []byte) string {
	b := append([]byte{version}, payload...)
	c := DSHA256(b)
	return B58Encode(append(b, c[:4]...))
}

var (
	ErrB58Char     = errors.New("refaddr: non-base58 character")
	ErrB58Short    = errors.New("refaddr: base58check string too short")
	ErrB58Checksum = errors.New("refaddr: base58check checksum mismatch")
)

// CheckDecode is the inverse of CheckEncode.
func CheckDecode(s string) (version byte, payload []byte, err error) {
	b, ok := B58Decode(s)
	if !ok {
		return 0, nil, ErrB58Char
	}
	if len(b) < 5 {
		return 0, nil, ErrB58Short
	}
	body, ck := b[:len(b)-4], b[len(b)-4:]
	c := DSHA256(body)
	for i := 0; i < 4; i++ {
		if c[i] != ck[i] {
			return 0, nil, ErrB58Checksum
		}
	}
	return body[0], append([]byte{}, body[1:]...), nil
}
