package refaddr

import (
	"errors"
	"math/big"
	"sync"
)

// Tiny affine secp256k1 (y^2 = x^3 + 7 over F_p) with math/big.

func hexBig(s string) *big.Int {
	v, ok := new(big.Int).SetString(s, 16)
	if !ok {
		panic("refaddr: bad constant")
	}
	return v
}

var (
	P  = hexBig("FFFFFFFFFFFFFFFFFFFFFFFFFFFFFFFFFFFFFFFFFFFFFFFFFFFFFFFEFFFFFC2F")
	N  = hexBig("FFFFFFFFFFFFFFFFFFFFFFFFFFFFFFFEBAAEDCE6AF48A03BBFD25E8CD0364141")
	Gx = hexBig("79BE667EF9DCBBAC55A06295CE870B07029BFCDB2DCE28D959F2815B16F81798")
	Gy = hexBig("483ADA7726A3C4655DA4FBFC0E1108A8FD17B448A68554199C47D08FFB10D4B8")
)

// Point is an affine point; X == nil is the point at infinity.
type Point struct{ X, Y *big.Int }

// G is the generator.
func G() Point { return Point{new(big.Int).Set(Gx), new(big.Int).Set(Gy)} }

func (p Point) Inf() bool { return p.X == nil }

func (p Point) Equal(q Point) bool {
	if p.Inf() || q.Inf() {
		return p.Inf() && q.Inf()
	}
	return p.X.Cmp(q.X) == 0 && p.Y.Cmp(q.Y) == 0
}

// OnCurve reports y^2 == x^3 + 7 (mod p) with both coordinates in [0,p).
func (p Point) OnCurve() bool {
	if p.Inf() {
		return false
	}
	if p.X.Sign() < 0 || p.X.Cmp(P) >= 0 || p.Y.Sign() < 0 || p.Y.Cmp(P) >= 0 {
		return false
	}
	l := new(big.Int).Mul(p.Y, p.Y)
	l.Mod(l, P)
	r := new(big.Int).Exp(p.X, big.NewInt(3), P)
	r.Add(r, big.NewInt(7))
	r.Mod(r, P)
	return l.Cmp(r) == 0
}

// Add is the textbook affine group law.
func Add(a, b Point) Point {
	if a.Inf() {
		return b
	}
	if b.Inf() {
		return a
	}
	var lam *big.Int
	if a.X.Cmp(b.X) == 0 {
		s := new(big.Int).Add(a.Y, b.Y)
		s.Mod(s, P)
		if s.Sign() == 0 {
			return Point{} // a == -b
		}
		// doubling: lambda = 3x^2 / 2y
		num := new(big.Int).Mul(a.X, a.X)
		num.Mul(num, big.NewInt(3))
		den := new(big.Int).Lsh(a.Y, 1)
		den.ModInverse(den.Mod(den, P), P)
		lam = num.Mul(num, den)
	} else {
		num := new(big.Int).Sub(b.Y, a.Y)
		den := new(big.Int).Sub(b.X, a.X)
		den.ModInverse(den.Mod(den, P), P)
		lam = num.Mul(num, den)
	}
	lam.Mod(lam, P)
	x := new(big.Int).Mul(lam, lam)
	x.Sub(x, a.X)
	x.Sub(x, b.X)
	x.Mod(x, P)
	y := new(big.Int).Sub(a.X, x)
	y.Mul(y, lam)
	y.Sub(y, a.Y)
	y.Mod(y, P)
	return Point{x, y}
}

// Mul is double-and-add, k taken as a non-negative integer (not reduced).
func Mul(k *big.Int, p Point) Point {
	r := Point{}
	for i := k.BitLen() - 1; i >= 0; i-- {
		r = Add(r, r)
		if k.Bit(i) == 1 {
			r = Add(r, p)
		}
	}
	return r
}

var (
	gPowOnce sync.Once
	gPow     [256]Point // gPow[i] = 2^i * G
)

// BaseMul is k*G for 0 <= k < 2^256: the sum of the precomputed 2^i*G over the
// set bits of k (same result as Mul(k, G()), just without the doublings).
func BaseMul(k *big.Int) Point {
	gPowOnce.Do(func() {
		p := G()
		for i := 0; i < 256; i++ {
			gPow[i] = p
			p = Add(p, p)
		}
	})
	if k.Sign() < 0 || k.BitLen() > 256 {
		panic("refaddr: BaseMul scalar out of range")
	}
	r := Point{}
	for i := 0; i < k.BitLen(); i++ {
		if k.Bit(i) == 1 {
			r = Add(r, gPow[i])
		}
	}
	return r
}

// LiftX returns the point with the given x and the requested y parity.
func LiftX(x *big.Int, odd bool) (Point, bool) {
	if x.Sign() < 0 || x.Cmp(P) >= 0 {
		return Point{}, false
	}
	c := new(big.Int).Exp(x, big.NewInt(3), P)
	c.Add(c, big.NewInt(7))
	c.Mod(c, P)
	e := new(big.Int).Add(P, big.NewInt(1))
	e.Rsh(e, 2)
	y := new(big.Int).Exp(c, e, P)
	if new(big.Int).Exp(y, big.NewInt(2), P).Cmp(c) != 0 {
		return Point{}, false
	}
	if (y.Bit(0) == 1) != odd {
		y.Sub(P, y)
		y.Mod(y, P)
	}
	if (y.Bit(0) == 1) != odd { // y == 0 cannot happen on this curve
		return Point{}, false
	}
	return Point{new(big.Int).Set(x), y}, true
}

// Ser32 is the 32-byte big-endian encoding.
func Ser32(v *big.Int) []byte {
	b := v.Bytes()
	if len(b) > 32 {
		panic("refaddr: Ser32 overflow")
	}
	return append(make([]byte, 32-len(b)), b...)
}

// Compressed is SEC1 compressed (02/03 ‖ X).
func (p Point) Compressed() []byte {
	pre := byte(2)
	if p.Y.Bit(0) == 1 {
		pre = 3
	}
	return append([]byte{pre}, Ser32(p.X)...)
}

// Uncompressed is SEC1 uncompressed (04 ‖ X ‖ Y).
func (p Point) Uncompressed() []byte {
	return append(append([]byte{4}, Ser32(p.X)...), Ser32(p.Y)...)
}

// Hybrid is 06/07 ‖ X ‖ Y.
func (p Point) Hybrid() []byte {
	pre := byte(6)
	if p.Y.Bit(0) == 1 {
		pre = 7
	}
	return append(append([]byte{pre}, Ser32(p.X)...), Ser32(p.Y)...)
}

// XOnly is the BIP340 32-byte x coordinate.
func (p Point) XOnly() []byte { return Ser32(p.X) }

var ErrPubKey = errors.New("refaddr: invalid public key encoding")

// ParsePub parses compressed, uncompressed and hybrid SEC1 encodings.
func ParsePub(b []byte) (Point, error) {
	switch {
	case len(b) == 33 && (b[0] == 2 || b[0] == 3):
		p, ok := LiftX(new(big.Int).SetBytes(b[1:]), b[0] == 3)
		if !ok {
			return Point{}, ErrPubKey
		}
		return p, nil
	case len(b) == 65 && (b[0] == 4 || b[0] == 6 || b[0] == 7):
		p := Point{new(big.Int).SetBytes(b[1:33]), new(big.Int).SetBytes(b[33:])}
		if !p.OnCurve() {
			return Point{}, ErrPubKey
		}
		if b[0] != 4 && (p.Y.Bit(0) == 1) != (b[0] == 7) {
			return Point{}, ErrPubKey
		}
		return p, nil
	}
	return Point{}, ErrPubKey
}
