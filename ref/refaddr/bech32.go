package refaddr

import (
	"errors"
	"strings"
)

// Bech32 / Bech32m per BIP173 and BIP350 (transcribed from the reference
// pseudo code of the BIPs).

// Bech32Charset maps a 5-bit value to its character.
const Bech32Charset = "qpzry9x8gf2tvdw0s3jn54khce6mua7l"

// Spec selects the checksum constant.
type Spec int

const (
	SpecNone    Spec = 0
	SpecBech32  Spec = 1 // constant 1
	SpecBech32m Spec = 2 // constant 0x2bc830a3
)

func (s Spec) String() string {
	switch s {
	case SpecBech32:
		return "bech32"
	case SpecBech32m:
		return "bech32m"
	}
	return "none"
}

func specConst(s Spec) uint32 {
	if s == SpecBech32m {
		return 0x2bc830a3
	}
	return 1
}

func polymod(values []byte) uint32 {
	gen := [5]uint32{0x3b6a57b2, 0x26508e6d, 0x1ea119fa, 0x3d4233dd, 0x2a1462b3}
	chk := uint32(1)
	for _, v := range values {
		b := chk >> 25
		chk = (chk&0x1ffffff)<<5 ^ uint32(v)
		for i := 0; i < 5; i++ {
			if (b>>uint(i))&1 == 1 {
				chk ^= gen[i]
			}
		}
	}
	return chk
}

func hrpExpand(hrp string) []byte {
	var out []byte
	for i := 0; i < len(hrp); i++ {
		out = append(out, hrp[i]>>5)
	}
	out = append(out, 0)
	for i := 0; i < len(hrp); i++ {
		out = append(out, hrp[i]&31)
	}
	return out
}

// Bech32Encode encodes hrp (used as given, callers pass lower case) and 5-bit
// data with the checksum of the given spec.  ok=false if a data value is > 31.
func Bech32Encode(hrp string, data []byte, spec Spec) (string, bool) {
	for _, d := range data {
		if d > 31 {
			return "", false
		}
	}
	values := append(hrpExpand(hrp), data...)
	pm := polymod(append(values, 0, 0, 0, 0, 0, 0)) ^ specConst(spec)
	var sb strings.Builder
	sb.WriteString(hrp)
	sb.WriteByte('1')
	for _, d := range data {
		sb.WriteByte(Bech32Charset[d])
	}
	for i := 0; i < 6; i++ {
		sb.WriteByte(Bech32Charset[(pm>>uint(5*(5-i)))&31])
	}
	return sb.String(), true
}

var (
	ErrBechLen       = errors.New("refaddr: bech32 length")
	ErrBechChar      = errors.New("refaddr: bech32 character out of range")
	ErrBechMixed     = errors.New("refaddr: bech32 mixed case")
	ErrBechSep       = errors.New("refaddr: bech32 separator position")
	ErrBechData      = errors.New("refaddr: bech32 non-charset data character")
	ErrBechChecksum  = errors.New("refaddr: bech32 checksum")
	ErrSegwitHRP     = errors.New("refaddr: segwit hrp mismatch")
	ErrSegwitVersion = errors.New("refaddr: segwit witness version")
	ErrSegwitBits    = errors.New("refaddr: segwit bit conversion")
	ErrSegwitLen     = errors.New("refaddr: segwit program length")
	ErrSegwitSpec    = errors.New("refaddr: segwit version / checksum constant pairing")
)

// Bech32Decode decodes a bech32 or bech32m string.  maxLen is the maximum total
// length (90 for BIP173; <=0 means unlimited).  The returned hrp is lower case,
// data excludes the checksum.
func Bech32Decode(s string, maxLen int) (hrp string, data []byte, spec Spec, err error) {
	if maxLen > 0 && len(s) > maxLen {
		return "", nil, SpecNone, ErrBechLen
	}
	// hrp (>=1) + separator + 6 checksum characters.
	if len(s) < 8 {
		return "", nil, SpecNone, ErrBechLen
	}
	lower, upper := false, false
	for i := 0; i < len(s); i++ {
		c := s[i]
		if c < 33 || c > 126 {
			return "", nil, SpecNone, ErrBechChar
		}
		if c >= 'a' && c <= 'z' {
			lower = true
		}
		if c >= 'A' && c <= 'Z' {
			upper = true
		}
	}
	if lower && upper {
		return "", nil, SpecNone, ErrBechMixed
	}
	s = strings.ToLower(s)
	pos := strings.LastIndex(s, "1")
	if pos < 1 || pos+7 > len(s) {
		return "", nil, SpecNone, ErrBechSep
	}
	hrp = s[:pos]
	for i := pos + 1; i < len(s); i++ {
		d := strings.IndexByte(Bech32Charset, s[i])
		if d < 0 {
			return "", nil, SpecNone, ErrBechData
		}
		data = append(data, byte(d))
	}
	switch polymod(append(hrpExpand(hrp), data...)) {
	case 1:
		spec = SpecBech32
	case 0x2bc830a3:
		spec = SpecBech32m
	default:
		return "", nil, SpecNone, ErrBechChecksum
	}
	return hrp, data[:len(data)-6], spec, nil
}

// ConvertBits is the BIP173 reference convertbits (general power-of-2 base
// conversion).  ok=false for a value that does not fit into frombits, or (when
// not padding) for left-over bits that are non-zero or a whole input group.
func ConvertBits(data []byte, frombits, tobits uint, pad bool) ([]byte, bool) {
	acc, bits := uint(0), uint(0)
	ret := []byte{}
	maxv := uint(1)<<tobits - 1
	maxAcc := uint(1)<<(frombits+tobits-1) - 1
	for _, v := range data {
		if uint(v)>>frombits != 0 {
			return nil, false
		}
		acc = ((acc << frombits) | uint(v)) & maxAcc
		bits += frombits
		for bits >= tobits {
			bits -= tobits
			ret = append(ret, byte((acc>>bits)&maxv))
		}
	}
	if pad {
		if bits > 0 {
			ret = append(ret, byte((acc<<(tobits-bits))&maxv))
		}
	} else if bits >= frombits || (acc<<(tobits-bits))&maxv != 0 {
		return nil, false
	}
	return ret, true
}

// SegwitSpecFor returns the checksum spec BIP350 prescribes for a witness version.
func SegwitSpecFor(version byte) Spec {
	if version == 0 {
		return SpecBech32
	}
	return SpecBech32m
}

// SegwitEncodeRaw encodes without any validity rule (used to produce
// deliberately illegal strings): hrp, version value (5 bit), program, spec.
func SegwitEncodeRaw(hrp string, version byte, program []byte, spec Spec) string {
	d, _ := ConvertBits(program, 8, 5, true)
	s, _ := Bech32Encode(hrp, append([]byte{version}, d...), spec)
	return s
}

// SegwitDecodeAny applies the BIP173/BIP350 segwit address rules to s and
// returns the (lower case) hrp found in the string.
func SegwitDecodeAny(s string) (hrp string, version byte, program []byte, err error) {
	hrp, data, spec, err := Bech32Decode(s, 90)
	if err != nil {
		return "", 0, nil, err
	}
	if len(data) < 1 {
		return "", 0, nil, ErrSegwitVersion
	}
	prog, ok := ConvertBits(data[1:], 5, 8, false)
	if !ok {
		return "", 0, nil, ErrSegwitBits
	}
	if len(prog) < 2 || len(prog) > 40 {
		return "", 0, nil, ErrSegwitLen
	}
	if data[0] > 16 {
		return "", 0, nil, ErrSegwitVersion
	}
	if data[0] == 0 && len(prog) != 20 && len(prog) != 32 {
		return "", 0, nil, ErrSegwitLen
	}
	if (data[0] == 0 && spec != SpecBech32) || (data[0] != 0 && spec != SpecBech32m) {
		return "", 0, nil, ErrSegwitSpec
	}
	return hrp, data[0], prog, nil
}

// SegwitDecode is the BIP350 decode(hrp, addr).
func SegwitDecode(hrp, s string) (version byte, program []byte, err error) {
	got, v, p, err := SegwitDecodeAny(s)
	if err != nil {
		return 0, nil, err
	}
	if got != hrp {
		return 0, nil, ErrSegwitHRP
	}
	return v, p, nil
}

// SegwitEncode is the BIP350 encode(hrp, witver, witprog); ok=false if the
// result does not decode (illegal version / length).
func SegwitEncode(hrp string, version byte, program []byte) (string, bool) {
	s := SegwitEncodeRaw(hrp, version, program, SegwitSpecFor(version))
	v, p, err := SegwitDecode(hrp, s)
	if err != nil || v != version || string(p) != string(program) {
		return "", false
	}
	return s, true
}
