package refaddr

import (
	"crypto/hmac"
	"crypto/sha256"
	"crypto/sha512"
	"encoding/binary"
	"errors"
	"math/big"

	"golang.org/x/crypto/ripemd160" // hash primitive only
)

// Hash160 is RIPEMD160(SHA256(b)).
func Hash160(b []byte) []byte {
	s := sha256.Sum256(b)
	h := ripemd160.New()
	h.Write(s[:])
	return h.Sum(nil)
}

// ---------------------------------------------------------------- WIF

var ErrWIF = errors.New("refaddr: malformed WIF")

// WIFEncode: Base58Check(netID, key32 [‖ 0x01 if compressed]).
func WIFEncode(netID byte, key *big.Int, compressed bool) string {
	p := Ser32(key)
	if compressed {
		p = append(p, 1)
	}
	return CheckEncode(netID, p)
}

// WIFDecode accepts exactly the strings WIFEncode produces for keys in [1, n-1].
func WIFDecode(s string) (netID byte, key *big.Int, compressed bool, err error) {
	v, p, err := CheckDecode(s)
	if err != nil {
		return 0, nil, false, err
	}
	switch {
	case len(p) == 32:
	case len(p) == 33 && p[32] == 1:
		compressed = true
	default:
		return 0, nil, false, ErrWIF
	}
	k := new(big.Int).SetBytes(p[:32])
	if k.Sign() == 0 || k.Cmp(N) >= 0 {
		return 0, nil, false, ErrWIF
	}
	return v, k, compressed, nil
}

// ---------------------------------------------------------------- BIP32

// Hardened is 2^31.
const Hardened = uint32(0x80000000)

// XKey is a BIP32 extended key.  Priv == nil for an extended public key.
type XKey struct {
	Version  [4]byte
	Depth    byte
	ParentFP [4]byte
	Child    uint32
	Chain    [32]byte
	Priv     *big.Int
	Pub      Point
}

var (
	ErrBIP32Seed     = errors.New("refaddr: bip32 seed length / unusable seed")
	ErrBIP32Invalid  = errors.New("refaddr: bip32 invalid child (IL >= n or key zero / infinity)")
	ErrBIP32Hardened = errors.New("refaddr: bip32 hardened child of a public key")
	ErrBIP32Depth    = errors.New("refaddr: bip32 depth overflow")
	ErrBIP32Parse    = errors.New("refaddr: bip32 serialization invalid")
)

func hmac512(key, data []byte) []byte {
	m := hmac.New(sha512.New, key)
	m.Write(data)
	return m.Sum(nil)
}

// Master is BIP32 master key generation (seed of 128..512 bits).
func Master(seed []byte, privVersion [4]byte) (*XKey, error) {
	if len(seed) < 16 || len(seed) > 64 {
		return nil, ErrBIP32Seed
	}
	I := hmac512([]byte("Bitcoin seed"), seed)
	k := new(big.Int).SetBytes(I[:32])
	if k.Sign() == 0 || k.Cmp(N) >= 0 {
		return nil, ErrBIP32Seed
	}
	x := &XKey{Version: privVersion, Priv: k, Pub: BaseMul(k)}
	copy(x.Chain[:], I[32:])
	return x, nil
}

// Fingerprint is the first 4 bytes of HASH160(serP(K)).
func (k *XKey) Fingerprint() [4]byte {
	var f [4]byte
	copy(f[:], Hash160(k.Pub.Compressed()))
	return f
}

func ser32u(i uint32) []byte {
	var b [4]byte
	binary.BigEndian.PutUint32(b[:], i)
	return b[:]
}

// CKDpriv is the BIP32 private parent key -> private child key function.
func (k *XKey) CKDpriv(i uint32) (*XKey, error) {
	if k.Priv == nil {
		return nil, errors.New("refaddr: CKDpriv on a public key")
	}
	if k.Depth == 255 {
		return nil, ErrBIP32Depth
	}
	var data []byte
	if i >= Hardened {
		data = append([]byte{0}, Ser32(k.Priv)...)
	} else {
		data = k.Pub.Compressed()
	}
	data = append(data, ser32u(i)...)
	I := hmac512(k.Chain[:], data)
	il := new(big.Int).SetBytes(I[:32])
	if il.Cmp(N) >= 0 {
		return nil, ErrBIP32Invalid
	}
	ki := new(big.Int).Add(il, k.Priv)
	ki.Mod(ki, N)
	if ki.Sign() == 0 {
		return nil, ErrBIP32Invalid
	}
	c := &XKey{Version: k.Version, Depth: k.Depth + 1, ParentFP: k.Fingerprint(), Child: i, Priv: ki, Pub: BaseMul(ki)}
	copy(c.Chain[:], I[32:])
	return c, nil
}

// CKDpub is the BIP32 public parent key -> public child key function.
func (k *XKey) CKDpub(i uint32) (*XKey, error) {
	if i >= Hardened {
		return nil, ErrBIP32Hardened
	}
	if k.Depth == 255 {
		return nil, ErrBIP32Depth
	}
	data := append(k.Pub.Compressed(), ser32u(i)...)
	I := hmac512(k.Chain[:], data)
	il := new(big.Int).SetBytes(I[:32])
	if il.Cmp(N) >= 0 {
		return nil, ErrBIP32Invalid
	}
	ki := Add(BaseMul(il), k.Pub)
	if ki.Inf() {
		return nil, ErrBIP32Invalid
	}
	c := &XKey{Version: k.Version, Depth: k.Depth + 1, ParentFP: k.Fingerprint(), Child: i, Pub: ki}
	copy(c.Chain[:], I[32:])
	return c, nil
}

// Neuter is N((k, c)) -> (K, c) with the given public version bytes.
func (k *XKey) Neuter(pubVersion [4]byte) *XKey {
	c := *k
	c.Priv = nil
	c.Version = pubVersion
	return &c
}

// Serialize78 is the 78-byte BIP32 serialization.
func (k *XKey) Serialize78() []byte {
	b := append([]byte{}, k.Version[:]...)
	b = append(b, k.Depth)
	b = append(b, k.ParentFP[:]...)
	b = append(b, ser32u(k.Child)...)
	b = append(b, k.Chain[:]...)
	if k.Priv != nil {
		b = append(b, 0)
		b = append(b, Ser32(k.Priv)...)
	} else {
		b = append(b, k.Pub.Compressed()...)
	}
	return b
}

// String is base58(serialization ‖ 4 checksum bytes).
func (k *XKey) String() string {
	b := k.Serialize78()
	c := DSHA256(b)
	return B58Encode(append(b, c[:4]...))
}

// ParseXKey parses a serialized extended key (any version bytes).
func ParseXKey(s string) (*XKey, error) {
	b, ok := B58Decode(s)
	if !ok || len(b) != 82 {
		return nil, ErrBIP32Parse
	}
	c := DSHA256(b[:78])
	for i := 0; i < 4; i++ {
		if c[i] != b[78+i] {
			return nil, ErrBIP32Parse
		}
	}
	k := &XKey{Depth: b[4], Child: binary.BigEndian.Uint32(b[9:13])}
	copy(k.Version[:], b[0:4])
	copy(k.ParentFP[:], b[5:9])
	copy(k.Chain[:], b[13:45])
	kd := b[45:78]
	if kd[0] == 0 {
		k.Priv = new(big.Int).SetBytes(kd[1:])
		if k.Priv.Sign() == 0 || k.Priv.Cmp(N) >= 0 {
			return nil, ErrBIP32Parse
		}
		k.Pub = BaseMul(k.Priv)
	} else {
		if kd[0] != 2 && kd[0] != 3 {
			return nil, ErrBIP32Parse
		}
		p, err := ParsePub(kd)
		if err != nil {
			return nil, ErrBIP32Parse
		}
		k.Pub = p
	}
	return k, nil
}

// HMAC512 is HMAC-SHA512(key, data).
func HMAC512(key, data []byte) []byte { return hmac512(key, data) }
