package refaddr

import (
	"encoding/hex"
	"errors"
	"strings"
)

// Address kinds.
const (
	KindP2PKH  = "p2pkh"
	KindP2SH   = "p2sh"
	KindP2PK   = "p2pk"
	KindSegwit = "segwit"
)

// Net is the part of a network's parameters that matters for addresses (values
// are supplied by the caller from chaincfg: they are configuration, not logic).
type Net struct {
	Name   string
	P2PKH  byte
	P2SH   byte
	WIF    byte
	HRP    string
	HDPriv [4]byte
	HDPub  [4]byte
}

// Decoded is the reference's view of a decoded address string.
type Decoded struct {
	Kind    string
	NetID   byte   // base58 kinds and p2pk (the default net's p2pkh id)
	HRP     string // segwit
	Version byte   // segwit witness version
	Payload []byte // hash160 / witness program / serialized pubkey as given
}

var (
	ErrAddrUnknownNet = errors.New("refaddr: base58 version byte is not of the requested network")
	ErrAddrCollision  = errors.New("refaddr: p2pkh and p2sh ids of the network collide")
	ErrAddrSize       = errors.New("refaddr: base58 payload is not 20 bytes")
)

// DecodeAddress models the documented behaviour of address.DecodeAddress:
//  1. a string whose part up to and including the LAST '1' is (case-insensitively)
//     a registered segwit prefix is a segwit address (BIP173/350 rules);
//  2. a string of 66 / 130 characters is a hex encoded public key (pay-to-pubkey
//     on the default network);
//  3. everything else is Base58Check with a 20 byte payload whose version byte
//     must be the default network's P2PKH or P2SH id.
func DecodeAddress(s string, def Net, hrps []string) (*Decoded, error) {
	one := strings.LastIndexByte(s, '1')
	if one > 1 {
		pre := strings.ToLower(s[:one])
		for _, h := range hrps {
			if pre == h {
				hrp, v, prog, err := SegwitDecodeAny(s)
				if err != nil {
					return nil, err
				}
				return &Decoded{Kind: KindSegwit, HRP: hrp, Version: v, Payload: prog}, nil
			}
		}
	}
	if len(s) == 66 || len(s) == 130 {
		b, err := hex.DecodeString(s)
		if err != nil {
			return nil, err
		}
		if _, err := ParsePub(b); err != nil {
			return nil, err
		}
		return &Decoded{Kind: KindP2PK, NetID: def.P2PKH, Payload: b}, nil
	}
	v, p, err := CheckDecode(s)
	if err != nil {
		return nil, err
	}
	if len(p) != 20 {
		return nil, ErrAddrSize
	}
	switch {
	case v == def.P2PKH && v == def.P2SH:
		return nil, ErrAddrCollision
	case v == def.P2PKH:
		return &Decoded{Kind: KindP2PKH, NetID: v, Payload: p}, nil
	case v == def.P2SH:
		return &Decoded{Kind: KindP2SH, NetID: v, Payload: p}, nil
	}
	return nil, ErrAddrUnknownNet
}

// ---------------------------------------------------------------- script templates

func push(b []byte) []byte {
	if len(b) == 0 || len(b) > 75 {
		panic("refaddr: push length not used by any address template")
	}
	return append([]byte{byte(len(b))}, b...)
}

// ScriptP2PKH: OP_DUP OP_HASH160 <20> OP_EQUALVERIFY OP_CHECKSIG.
func ScriptP2PKH(h []byte) []byte {
	return append(append([]byte{0x76, 0xa9}, push(h)...), 0x88, 0xac)
}

// ScriptP2SH: OP_HASH160 <20> OP_EQUAL.
func ScriptP2SH(h []byte) []byte { return append(append([]byte{0xa9}, push(h)...), 0x87) }

// ScriptP2PK: <pubkey> OP_CHECKSIG.
func ScriptP2PK(pk []byte) []byte { return append(push(pk), 0xac) }

// ScriptWitness: OP_n <program> (BIP141); OP_0 = 0x00, OP_1..OP_16 = 0x51..0x60.
func ScriptWitness(version byte, prog []byte) []byte {
	op := byte(0)
	if version > 0 {
		op = 0x50 + version
	}
	return append([]byte{op}, push(prog)...)
}
