// Package refsighash is an independent, deliberately naive implementation of
// the three Bitcoin signature-digest algorithms, written from the protocol
// texts (Bitcoin Core SignatureHash / CTransactionSignatureSerializer for the
// legacy digest, BIP143 for witness v0, BIP341 + BIP342 for taproot key path
// and tapscript).  It builds the complete pre-image in a byte slice and hashes
// it with crypto/sha256; it shares no code with btcd's txscript or chainhash
// packages and only READS fields of wire.MsgTx.
package refsighash

import (
	"crypto/sha256"
	"errors"

	"github.com/btcsuite/btcd/wire/v2"
)

// Hash type constants (from the specifications).
const (
	All          = 1
	None         = 2
	Single       = 3
	AnyoneCanPay = 0x80
	opCodeSep    = 0xab
)

// PrevOut is the output spent by one input (taproot commits to all of them).
type PrevOut struct {
	Value    int64
	PkScript []byte
}

// ---------------------------------------------------------------- encoders --

func le16(b []byte, v uint16) []byte { return append(b, byte(v), byte(v>>8)) }
func le32(b []byte, v uint32) []byte {
	return append(b, byte(v), byte(v>>8), byte(v>>16), byte(v>>24))
}
func le64(b []byte, v uint64) []byte {
	for i := 0; i < 8; i++ {
		b = append(b, byte(v>>(8*uint(i))))
	}
	return b
}

// CompactSize appends Bitcoin's variable length integer.
func CompactSize(b []byte, n uint64) []byte {
	switch {
	case n < 0xfd:
		return append(b, byte(n))
	case n <= 0xffff:
		return le16(append(b, 0xfd), uint16(n))
	case n <= 0xffffffff:
		return le32(append(b, 0xfe), uint32(n))
	default:
		return le64(append(b, 0xff), n)
	}
}

func varBytes(b, s []byte) []byte { return append(CompactSize(b, uint64(len(s))), s...) }

func outpoint(b []byte, in *wire.TxIn) []byte {
	b = append(b, in.PreviousOutPoint.Hash[:]...)
	return le32(b, in.PreviousOutPoint.Index)
}

func txout(b []byte, value int64, script []byte) []byte {
	return varBytes(le64(b, uint64(value)), script)
}

func sha(b []byte) []byte  { h := sha256.Sum256(b); return h[:] }
func dsha(b []byte) []byte { return sha(sha(b)) }

// TaggedHash is BIP340's hash_tag(x) = SHA256(SHA256(tag) || SHA256(tag) || x).
func TaggedHash(tag string, msg []byte) [32]byte {
	t := sha([]byte(tag))
	b := append(append(append([]byte{}, t...), t...), msg...)
	return sha256.Sum256(b)
}

// ------------------------------------------------------------ script walk --

// splitOps walks a script opcode by opcode.  It returns the byte offsets at
// which each successfully decoded opcode starts, plus the offset at which
// decoding stopped (len(script) when the whole script decodes).
func splitOps(script []byte) (starts []int, stop int, ok bool) {
	i := 0
	for i < len(script) {
		op := script[i]
		n := 1
		switch {
		case op >= 1 && op <= 75:
			n = 1 + int(op)
		case op == 76:
			if i+2 > len(script) {
				return starts, i, false
			}
			n = 2 + int(script[i+1])
		case op == 77:
			if i+3 > len(script) {
				return starts, i, false
			}
			n = 3 + int(script[i+1]) + int(script[i+2])<<8
		case op == 78:
			if i+5 > len(script) {
				return starts, i, false
			}
			l := uint64(script[i+1]) | uint64(script[i+2])<<8 | uint64(script[i+3])<<16 | uint64(script[i+4])<<24
			if l > uint64(len(script)) {
				return starts, i, false
			}
			n = 5 + int(l)
		}
		if i+n > len(script) {
			return starts, i, false
		}
		starts = append(starts, i)
		i += n
	}
	return starts, i, true
}

// Parses reports whether the script decodes completely.
func Parses(script []byte) bool { _, _, ok := splitOps(script); return ok }

// StripCodeSeparators is what CTransactionSignatureSerializer::SerializeScriptCode
// does: every OP_CODESEPARATOR that is reached by opcode-wise decoding is
// dropped; bytes inside push data are untouched; when decoding fails the
// remainder of the script is kept verbatim.
func StripCodeSeparators(script []byte) []byte {
	starts, _, _ := splitOps(script)
	out := make([]byte, 0, len(script))
	prev := 0
	for _, s := range starts {
		if script[s] == opCodeSep {
			out = append(out, script[prev:s]...)
			prev = s + 1
		}
	}
	return append(out, script[prev:]...)
}

// CodeSepPositions returns the opcode positions (BIP342 numbering: index of the
// opcode within the script, counting every opcode incl. pushes as one) of all
// OP_CODESEPARATORs of a script that decodes.
func CodeSepPositions(script []byte) []uint32 {
	starts, _, _ := splitOps(script)
	var r []uint32
	for n, s := range starts {
		if script[s] == opCodeSep {
			r = append(r, uint32(n))
		}
	}
	return r
}

// ------------------------------------------------------------------ legacy --

// One is the digest "1" produced by the SIGHASH_SINGLE out-of-range bug.
func One() [32]byte { var h [32]byte; h[0] = 1; return h }

// LegacyPreimage returns the serialization that is double-hashed for the
// original (pre-segwit) digest, or nil for the SIGHASH_SINGLE bug case.
// scriptCode is the script being executed from the last executed
// OP_CODESEPARATOR with the signature pushes already removed by the caller
// (FindAndDelete is the caller's job in Core; btcd's CalcSignatureHash has the
// same contract).  hashType is the full 32 bit value that is appended.
func LegacyPreimage(scriptCode []byte, hashType uint32, tx *wire.MsgTx, idx int) []byte {
	base := hashType & 0x1f
	acp := hashType&AnyoneCanPay != 0
	if base == Single && idx >= len(tx.TxOut) {
		return nil
	}
	code := StripCodeSeparators(scriptCode)

	b := le32(nil, uint32(tx.Version))
	// inputs
	if acp {
		b = CompactSize(b, 1)
	} else {
		b = CompactSize(b, uint64(len(tx.TxIn)))
	}
	for i, in := range tx.TxIn {
		if acp && i != idx {
			continue
		}
		b = outpoint(b, in)
		if i == idx {
			b = varBytes(b, code)
		} else {
			b = CompactSize(b, 0)
		}
		if i != idx && (base == Single || base == None) {
			b = le32(b, 0)
		} else {
			b = le32(b, in.Sequence)
		}
	}
	// outputs
	switch base {
	case None:
		b = CompactSize(b, 0)
	case Single:
		b = CompactSize(b, uint64(idx+1))
		for i := 0; i <= idx; i++ {
			if i == idx {
				b = txout(b, tx.TxOut[i].Value, tx.TxOut[i].PkScript)
			} else {
				b = txout(b, -1, nil) // CTxOut(): nValue = -1, empty script
			}
		}
	default:
		b = CompactSize(b, uint64(len(tx.TxOut)))
		for _, o := range tx.TxOut {
			b = txout(b, o.Value, o.PkScript)
		}
	}
	b = le32(b, tx.LockTime)
	b = le32(b, hashType)
	return b
}

// Legacy returns the legacy digest.
func Legacy(scriptCode []byte, hashType uint32, tx *wire.MsgTx, idx int) [32]byte {
	pre := LegacyPreimage(scriptCode, hashType, tx, idx)
	if pre == nil {
		return One()
	}
	var h [32]byte
	copy(h[:], dsha(pre))
	return h
}

// ------------------------------------------------------------------ BIP143 --

// P2WPKHScriptCode is the BIP143 script code of a P2WPKH program:
// DUP HASH160 <20> EQUALVERIFY CHECKSIG.
func P2WPKHScriptCode(keyHash []byte) []byte {
	b := []byte{0x76, 0xa9, 0x14}
	b = append(b, keyHash...)
	return append(b, 0x88, 0xac)
}

// WitnessV0Preimage is the BIP143 pre-image.  scriptCode is serialized as is
// (no separator removal) with a compact-size length.
func WitnessV0Preimage(scriptCode []byte, hashType uint32, tx *wire.MsgTx, idx int, amount int64) []byte {
	base := hashType & 0x1f
	acp := hashType&AnyoneCanPay != 0
	zero := make([]byte, 32)

	hashPrevouts, hashSequence, hashOutputs := zero, zero, zero
	if !acp {
		var p []byte
		for _, in := range tx.TxIn {
			p = outpoint(p, in)
		}
		hashPrevouts = dsha(p)
	}
	if !acp && base != Single && base != None {
		var p []byte
		for _, in := range tx.TxIn {
			p = le32(p, in.Sequence)
		}
		hashSequence = dsha(p)
	}
	if base != Single && base != None {
		var p []byte
		for _, o := range tx.TxOut {
			p = txout(p, o.Value, o.PkScript)
		}
		hashOutputs = dsha(p)
	} else if base == Single && idx < len(tx.TxOut) {
		hashOutputs = dsha(txout(nil, tx.TxOut[idx].Value, tx.TxOut[idx].PkScript))
	}

	b := le32(nil, uint32(tx.Version))
	b = append(b, hashPrevouts...)
	b = append(b, hashSequence...)
	b = outpoint(b, tx.TxIn[idx])
	b = varBytes(b, scriptCode)
	b = le64(b, uint64(amount))
	b = le32(b, tx.TxIn[idx].Sequence)
	b = append(b, hashOutputs...)
	b = le32(b, tx.LockTime)
	b = le32(b, hashType)
	return b
}

// WitnessV0 returns the BIP143 digest.
func WitnessV0(scriptCode []byte, hashType uint32, tx *wire.MsgTx, idx int, amount int64) [32]byte {
	var h [32]byte
	copy(h[:], dsha(WitnessV0Preimage(scriptCode, hashType, tx, idx, amount)))
	return h
}

// ------------------------------------------------------------ BIP341 / 342 --

// TapscriptExt is the BIP342 message extension (ext_flag = 1).
type TapscriptExt struct {
	LeafHash   [32]byte
	KeyVersion byte
	CodeSepPos uint32
}

// TapLeafHash is hash_TapLeaf(leaf_version || compact_size(len(script)) || script).
func TapLeafHash(leafVersion byte, script []byte) [32]byte {
	return TaggedHash("TapLeaf", varBytes([]byte{leafVersion}, script))
}

// ErrHashType is returned for hash types that BIP341 does not define.
var ErrHashType = errors.New("refsighash: undefined taproot hash_type")

// ErrNoOutput is returned for SIGHASH_SINGLE without a matching output.
var ErrNoOutput = errors.New("refsighash: SIGHASH_SINGLE without corresponding output")

// ValidTaprootHashType implements the BIP341 hash_type validity rule.
func ValidTaprootHashType(ht uint32) bool {
	return ht <= 3 || (ht >= 0x81 && ht <= 0x83)
}

// TaprootSigMsg builds SigMsg(hash_type, ext_flag) || ext, WITHOUT the leading
// epoch byte.  prevouts[i] is the output spent by input i.  annex == nil means
// "no annex"; otherwise it is the full annex including the 0x50 prefix.
// ext == nil means key path spending (ext_flag 0).
func TaprootSigMsg(tx *wire.MsgTx, idx int, hashType uint32, prevouts []PrevOut, annex []byte, ext *TapscriptExt) ([]byte, error) {
	if !ValidTaprootHashType(hashType) {
		return nil, ErrHashType
	}
	if idx < 0 || idx >= len(tx.TxIn) || len(prevouts) != len(tx.TxIn) {
		return nil, errors.New("refsighash: bad index / prevouts")
	}
	outType := hashType & 3
	if hashType == 0 {
		outType = All
	}
	acp := hashType&AnyoneCanPay != 0

	b := []byte{byte(hashType)}
	b = le32(b, uint32(tx.Version))
	b = le32(b, tx.LockTime)
	if !acp {
		var po, am, sp, sq []byte
		for i, in := range tx.TxIn {
			po = outpoint(po, in)
			am = le64(am, uint64(prevouts[i].Value))
			sp = varBytes(sp, prevouts[i].PkScript)
			sq = le32(sq, in.Sequence)
		}
		b = append(b, sha(po)...)
		b = append(b, sha(am)...)
		b = append(b, sha(sp)...)
		b = append(b, sha(sq)...)
	}
	if outType == All {
		var p []byte
		for _, o := range tx.TxOut {
			p = txout(p, o.Value, o.PkScript)
		}
		b = append(b, sha(p)...)
	}
	extFlag := byte(0)
	if ext != nil {
		extFlag = 1
	}
	spendType := extFlag * 2
	if annex != nil {
		spendType++
	}
	b = append(b, spendType)
	if acp {
		b = outpoint(b, tx.TxIn[idx])
		b = le64(b, uint64(prevouts[idx].Value))
		b = varBytes(b, prevouts[idx].PkScript)
		b = le32(b, tx.TxIn[idx].Sequence)
	} else {
		b = le32(b, uint32(idx))
	}
	if annex != nil {
		b = append(b, sha(varBytes(nil, annex))...)
	}
	if outType == Single {
		if idx >= len(tx.TxOut) {
			return nil, ErrNoOutput
		}
		b = append(b, sha(txout(nil, tx.TxOut[idx].Value, tx.TxOut[idx].PkScript))...)
	}
	if ext != nil {
		b = append(b, ext.LeafHash[:]...)
		b = append(b, ext.KeyVersion)
		b = le32(b, ext.CodeSepPos)
	}
	return b, nil
}

// Taproot returns hash_TapSighash(0x00 || SigMsg || ext).
func Taproot(tx *wire.MsgTx, idx int, hashType uint32, prevouts []PrevOut, annex []byte, ext *TapscriptExt) ([32]byte, error) {
	m, err := TaprootSigMsg(tx, idx, hashType, prevouts, annex, ext)
	if err != nil {
		return [32]byte{}, err
	}
	return TaggedHash("TapSighash", append([]byte{0x00}, m...)), nil
}
