// Package refpool is the deliberately naive reference model of a transaction
// pool used by check C10.  It is written from the property text, BIP125 and the
// protocol definitions of fee, virtual size and dependency order; it shares no
// code with btcd's mempool package and never calls it.
//
// A pool is a plain set of transactions.  Everything (spender index, conflicts,
// descendants, signalling, topological order) is recomputed from scratch by
// quadratic scans each time it is needed.
package refpool

import (
	"fmt"
	"math/big"
	"sort"

	"github.com/btcsuite/btcd/chainhash/v2"
	"github.com/btcsuite/btcd/wire/v2"
)

// In is one input.
type In struct {
	Prev wire.OutPoint
	Seq  uint32
}

// Tx is the reference view of one transaction; every field is known to the
// builder by construction (the fee is sum(inputs) - sum(outputs) of values the
// builder chose itself).
type Tx struct {
	Name    string
	ID      chainhash.Hash
	Ins     []In
	OutVals []int64
	Fee     int64
	Size    int64 // total serialized size (with witness)
	Strip   int64 // serialized size without witness
}

// VSize is the BIP141 virtual size: ceil((3*stripped + total) / 4).
func (t *Tx) VSize() int64 { return (3*t.Strip + t.Size + 3) / 4 }

// Out returns the i-th outpoint created by t.
func (t *Tx) Out(i uint32) wire.OutPoint { return wire.OutPoint{Hash: t.ID, Index: i} }

// Pool is a set of transactions keyed by id.
type Pool map[chainhash.Hash]*Tx

// Clone copies the set.
func (p Pool) Clone() Pool {
	c := make(Pool, len(p))
	for k, v := range p {
		c[k] = v
	}
	return c
}

// Sorted returns the members ordered by name (deterministic iteration).
func (p Pool) Sorted() []*Tx {
	out := make([]*Tx, 0, len(p))
	for _, t := range p {
		out = append(out, t)
	}
	sort.Slice(out, func(i, j int) bool { return out[i].Name < out[j].Name })
	return out
}

// Names returns the sorted member names.
func (p Pool) Names() []string {
	var out []string
	for _, t := range p.Sorted() {
		out = append(out, t.Name)
	}
	return out
}

// Spenders returns, for every outpoint spent by a member, all members spending it.
func (p Pool) Spenders() map[wire.OutPoint][]*Tx {
	m := map[wire.OutPoint][]*Tx{}
	for _, t := range p.Sorted() {
		for _, in := range t.Ins {
			m[in.Prev] = append(m[in.Prev], t)
		}
	}
	return m
}

// DirectConflicts returns the members (other than t itself) that spend an
// outpoint t spends.
func (p Pool) DirectConflicts(t *Tx) Pool {
	out := Pool{}
	for _, m := range p {
		if m.ID == t.ID {
			continue
		}
		for _, a := range m.Ins {
			for _, b := range t.Ins {
				if a.Prev == b.Prev {
					out[m.ID] = m
				}
			}
		}
	}
	return out
}

// Children returns the members that spend an output of t.
func (p Pool) Children(t *Tx) Pool {
	out := Pool{}
	for _, m := range p {
		for _, a := range m.Ins {
			if a.Prev.Hash == t.ID {
				out[m.ID] = m
			}
		}
	}
	return out
}

// WithDescendants closes a set of members under "is spent by a member".
func (p Pool) WithDescendants(set Pool) Pool {
	out := set.Clone()
	for changed := true; changed; {
		changed = false
		for _, t := range out.Sorted() {
			for id, c := range p.Children(t) {
				if _, ok := out[id]; !ok {
					out[id] = c
					changed = true
				}
			}
		}
	}
	return out
}

// Evicted is what accepting t has to evict: its direct conflicts and all their
// pooled descendants.
func (p Pool) Evicted(t *Tx) Pool { return p.WithDescendants(p.DirectConflicts(t)) }

// Signals reports BIP125 replaceability of member t: explicit (an input with
// nSequence < 0xfffffffe) or inherited from an unconfirmed (= pooled) ancestor.
func (p Pool) Signals(t *Tx) bool { return p.signals(t, map[chainhash.Hash]bool{}) }

func (p Pool) signals(t *Tx, seen map[chainhash.Hash]bool) bool {
	if seen[t.ID] {
		return false
	}
	seen[t.ID] = true
	for _, in := range t.Ins {
		if in.Seq < 0xfffffffe {
			return true
		}
	}
	for _, in := range t.Ins {
		if par, ok := p[in.Prev.Hash]; ok && p.signals(par, seen) {
			return true
		}
	}
	return false
}

// MinRelayFee is the fee a transaction of the given virtual size owes at
// ratePerKB satoshi per 1000 virtual bytes: floor(size*rate/1000), but never 0
// when the rate is positive, capped at the 21e14 money supply.
func MinRelayFee(vsize, ratePerKB int64) int64 {
	const maxSatoshi = 21_000_000 * 100_000_000
	f := new(big.Int).Mul(big.NewInt(vsize), big.NewInt(ratePerKB))
	f.Div(f, big.NewInt(1000))
	if f.Sign() == 0 && ratePerKB > 0 {
		return ratePerKB
	}
	if f.Sign() < 0 || f.Cmp(big.NewInt(maxSatoshi)) > 0 {
		return maxSatoshi
	}
	return f.Int64()
}

// RateGreater reports feeA/sizeA > feeB/sizeB exactly.
func RateGreater(feeA, sizeA, feeB, sizeB int64) bool {
	l := new(big.Int).Mul(big.NewInt(feeA), big.NewInt(sizeB))
	r := new(big.Int).Mul(big.NewInt(feeB), big.NewInt(sizeA))
	return l.Cmp(r) > 0
}

// MaxEvictions is the property's bound on a replacement's eviction set.
const MaxEvictions = 100

// ReplacementProblems lists every way in which accepting t into p (which evicts
// p.Evicted(t)) breaks the replacement clause of the property:
//
//	"an accepted replacement pays at least the total fees of everything it
//	 evicts plus the relay fee for its own size, at a strictly higher fee rate
//	 than each evicted transaction, and evicts [...] at most 100 transactions"
//
// plus BIP125 rule 1 (every directly conflicting transaction is replaceable)
// and the RejectReplacement policy switch.  An empty result means the
// acceptance is allowed.  It returns nil when t conflicts with nothing.
func (p Pool) ReplacementProblems(t *Tx, minRelayPerKB int64, rejectReplacement bool) []string {
	direct := p.DirectConflicts(t)
	if len(direct) == 0 {
		return nil
	}
	var probs []string
	if rejectReplacement {
		probs = append(probs, "policy: replacement accepted although RejectReplacement is set")
	}
	for _, c := range direct.Sorted() {
		if !p.Signals(c) {
			probs = append(probs, fmt.Sprintf("rule1: directly conflicting %s does not signal replaceability (explicitly or through a pooled ancestor)", c.Name))
		}
	}
	ev := p.WithDescendants(direct)
	if len(ev) > MaxEvictions {
		probs = append(probs, fmt.Sprintf("evicts %d transactions, more than %d", len(ev), MaxEvictions))
	}
	var sum int64
	for _, e := range ev.Sorted() {
		sum += e.Fee
		if !RateGreater(t.Fee, t.VSize(), e.Fee, e.VSize()) {
			probs = append(probs, fmt.Sprintf("fee rate %d/%d is not strictly higher than that of evicted %s (%d/%d)", t.Fee, t.VSize(), e.Name, e.Fee, e.VSize()))
		}
	}
	need := sum + MinRelayFee(t.VSize(), minRelayPerKB)
	if t.Fee < need {
		probs = append(probs, fmt.Sprintf("fee %d is less than the evicted fees %d plus the relay fee %d for its %d vbytes", t.Fee, sum, need-sum, t.VSize()))
	}
	return probs
}

// Accept returns the pool after t is accepted (evicting what it must) and the
// evicted set.
func (p Pool) Accept(t *Tx) (Pool, Pool) {
	ev := p.Evicted(t)
	n := Pool{}
	for id, m := range p {
		if _, gone := ev[id]; !gone {
			n[id] = m
		}
	}
	n[t.ID] = t
	return n, ev
}

// Topo orders the members so that every member comes after the members whose
// outputs it spends (ties by name).  It fails on a cycle.
func (p Pool) Topo() ([]*Tx, error) {
	done := map[chainhash.Hash]bool{}
	var out []*Tx
	for len(out) < len(p) {
		progress := false
		for _, t := range p.Sorted() {
			if done[t.ID] {
				continue
			}
			ready := true
			for _, in := range t.Ins {
				if _, ok := p[in.Prev.Hash]; ok && !done[in.Prev.Hash] {
					ready = false
				}
			}
			if ready {
				done[t.ID] = true
				out = append(out, t)
				progress = true
			}
		}
		if !progress {
			return nil, fmt.Errorf("dependency cycle among pooled transactions")
		}
	}
	return out, nil
}

// SelfTest binds the model to ground truth: the literal vectors of btcd's
// TestCalcMinRequiredTxRelayFee (mempool/policy_test.go), the BIP125 signalling
// definition and BIP141's virtual size examples.  It returns a description of
// the first disagreement or "".
func SelfTest() string {
	const maxSat = 21_000_000 * 100_000_000
	vec := []struct{ size, rate, want int64 }{
		{250, 3, 3}, {100, 1000, 100}, {100000, 1000, 100000}, {100000, maxSat, maxSat},
		{1500, 5000, 7500}, {1500, 3000, 4500}, {782, 5000, 3910}, {782, 3000, 2346}, {782, 2550, 1994},
	}
	for _, v := range vec {
		if g := MinRelayFee(v.size, v.rate); g != v.want {
			return fmt.Sprintf("MinRelayFee(%d,%d)=%d, shipped vector says %d", v.size, v.rate, g, v.want)
		}
	}
	// BIP141: a transaction without witness has vsize == size; weight 4n+1 rounds up.
	if (&Tx{Size: 71, Strip: 71}).VSize() != 71 || (&Tx{Size: 222, Strip: 113}).VSize() != 141 {
		return "VSize disagrees with BIP141"
	}
	// BIP125 signalling: explicit < 0xfffffffe, inherited through pooled ancestors only.
	h := func(b byte) chainhash.Hash { return chainhash.Hash{b} }
	a := &Tx{Name: "a", ID: h(1), Ins: []In{{wire.OutPoint{Hash: h(9)}, 0xfffffffd}}}
	b := &Tx{Name: "b", ID: h(2), Ins: []In{{wire.OutPoint{Hash: h(1)}, 0xffffffff}}}
	c := &Tx{Name: "c", ID: h(3), Ins: []In{{wire.OutPoint{Hash: h(2)}, 0xfffffffe}}}
	n := &Tx{Name: "n", ID: h(4), Ins: []In{{wire.OutPoint{Hash: h(8)}, 0xfffffffe}}}
	p := Pool{a.ID: a, b.ID: b, c.ID: c, n.ID: n}
	if !p.Signals(a) || !p.Signals(b) || !p.Signals(c) || p.Signals(n) {
		return "Signals disagrees with BIP125 (explicit/inherited)"
	}
	q := Pool{b.ID: b, c.ID: c}
	if q.Signals(b) || q.Signals(c) {
		return "Signals: a confirmed (non-pooled) ancestor must not pass on replaceability"
	}
	if ev := p.Evicted(&Tx{Name: "a'", ID: h(5), Ins: []In{{wire.OutPoint{Hash: h(9)}, 0xffffffff}}}); len(ev) != 3 {
		return "Evicted: conflicts plus descendants"
	}
	if !RateGreater(101001, 101, 71000, 71) || RateGreater(101000, 101, 71000, 71) {
		return "RateGreater"
	}
	return ""
}
