package refscript

import (
	"math/big"

	"github.com/btcsuite/btcd/btcec/v2"
	"github.com/btcsuite/btcd/btcec/v2/ecdsa"
	"github.com/btcsuite/btcd/btcec/v2/schnorr"
)

// IsValidSignatureEncoding is BIP66's strict DER check (signature includes the
// trailing hash-type byte).
func IsValidSignatureEncoding(sig []byte) bool {
	if len(sig) < 9 || len(sig) > 73 {
		return false
	}
	if sig[0] != 0x30 {
		return false
	}
	if int(sig[1]) != len(sig)-3 {
		return false
	}
	lenR := int(sig[3])
	if 5+lenR >= len(sig) {
		return false
	}
	lenS := int(sig[5+lenR])
	if lenR+lenS+7 != len(sig) {
		return false
	}
	if sig[2] != 0x02 {
		return false
	}
	if lenR == 0 {
		return false
	}
	if sig[4]&0x80 != 0 {
		return false
	}
	if lenR > 1 && sig[4] == 0x00 && sig[5]&0x80 == 0 {
		return false
	}
	if sig[lenR+4] != 0x02 {
		return false
	}
	if lenS == 0 {
		return false
	}
	if sig[lenR+6]&0x80 != 0 {
		return false
	}
	if lenS > 1 && sig[lenR+6] == 0x00 && sig[lenR+7]&0x80 == 0 {
		return false
	}
	return true
}

var (
	curveN, _     = new(big.Int).SetString("fffffffffffffffffffffffffffffffebaaedce6af48a03bbfd25e8cd0364141", 16)
	curveHalfN, _ = new(big.Int).SetString("7fffffffffffffffffffffffffffffff5d576e7357a4501ddfe92f46681b20a0", 16)
)

// laxDERParse is Core's ecdsa_signature_parse_der_lax.  ok=false means the
// parser rejects; otherwise r, s are the 32-byte big-endian values, both zero
// when either overflowed.
func laxDERParse(in []byte) (r, s [32]byte, ok bool) {
	n := len(in)
	pos := 0
	if pos == n || in[pos] != 0x30 {
		return r, s, false
	}
	pos++
	if pos == n {
		return r, s, false
	}
	lenbyte := int(in[pos])
	pos++
	if lenbyte&0x80 != 0 {
		lenbyte -= 0x80
		if lenbyte > n-pos {
			return r, s, false
		}
		pos += lenbyte
	}
	readInt := func() (ipos, ilen int, ok bool) {
		if pos == n || in[pos] != 0x02 {
			return 0, 0, false
		}
		pos++
		if pos == n {
			return 0, 0, false
		}
		lb := int(in[pos])
		pos++
		if lb&0x80 != 0 {
			lb -= 0x80
			if lb > n-pos {
				return 0, 0, false
			}
			for lb > 0 && in[pos] == 0 {
				pos++
				lb--
			}
			if lb >= 4 {
				return 0, 0, false
			}
			ilen = 0
			for lb > 0 {
				ilen = ilen<<8 + int(in[pos])
				pos++
				lb--
			}
		} else {
			ilen = lb
		}
		if ilen > n-pos {
			return 0, 0, false
		}
		ipos = pos
		return ipos, ilen, true
	}
	rpos, rlen, ok1 := readInt()
	if !ok1 {
		return r, s, false
	}
	pos += rlen
	spos, slen, ok2 := readInt()
	if !ok2 {
		return r, s, false
	}
	overflow := false
	for rlen > 0 && in[rpos] == 0 {
		rlen--
		rpos++
	}
	if rlen > 32 {
		overflow = true
	} else {
		copy(r[32-rlen:], in[rpos:rpos+rlen])
	}
	for slen > 0 && in[spos] == 0 {
		slen--
		spos++
	}
	if slen > 32 {
		overflow = true
	} else {
		copy(s[32-slen:], in[spos:spos+slen])
	}
	if !overflow {
		if new(big.Int).SetBytes(r[:]).Cmp(curveN) >= 0 || new(big.Int).SetBytes(s[:]).Cmp(curveN) >= 0 {
			overflow = true
		}
	}
	if overflow {
		r, s = [32]byte{}, [32]byte{}
	}
	return r, s, true
}

// checkLowS is CPubKey::CheckLowS on the signature without its hash-type byte.
func checkLowS(sigNoHashType []byte) bool {
	_, s, ok := laxDERParse(sigNoHashType)
	if !ok {
		return false
	}
	return new(big.Int).SetBytes(s[:]).Cmp(curveHalfN) <= 0
}

type sigErr int

const (
	sigOK sigErr = iota
	errSigDER
	errSigHighS
	errSigHashType
	errPubKeyType
	errWitnessPubKeyType
)

// checkSignatureEncoding is Core's CheckSignatureEncoding.
func checkSignatureEncoding(sig []byte, flags Flags) sigErr {
	if len(sig) == 0 {
		return sigOK
	}
	if flags&(DERSIG|LOW_S|STRICTENC) != 0 && !IsValidSignatureEncoding(sig) {
		return errSigDER
	} else if flags&LOW_S != 0 {
		if !IsValidSignatureEncoding(sig) {
			return errSigDER
		}
		if !checkLowS(sig[:len(sig)-1]) {
			return errSigHighS
		}
	}
	if flags&STRICTENC != 0 {
		ht := sig[len(sig)-1] &^ sighashAnyoneCanPay
		if ht < sighashAll || ht > sighashSingle {
			return errSigHashType
		}
	}
	return sigOK
}

func isCompressedOrUncompressedPubKey(pk []byte) bool {
	if len(pk) < 33 {
		return false
	}
	switch pk[0] {
	case 0x04:
		return len(pk) == 65
	case 0x02, 0x03:
		return len(pk) == 33
	}
	return false
}

func isCompressedPubKey(pk []byte) bool {
	return len(pk) == 33 && (pk[0] == 0x02 || pk[0] == 0x03)
}

type sigVersion int

const (
	sigBase sigVersion = iota
	sigWitnessV0
	sigTaproot
	sigTapscript
)

// checkPubKeyEncoding is Core's CheckPubKeyEncoding.
func checkPubKeyEncoding(pk []byte, flags Flags, sv sigVersion) sigErr {
	if flags&STRICTENC != 0 && !isCompressedOrUncompressedPubKey(pk) {
		return errPubKeyType
	}
	if flags&WITNESS_PUBKEYTYPE != 0 && sv == sigWitnessV0 && !isCompressedPubKey(pk) {
		return errWitnessPubKeyType
	}
	return sigOK
}

// verifyECDSA is CPubKey::Verify: sig is without the hash-type byte.
func verifyECDSA(sig, pubkey []byte, digest [32]byte) bool {
	// CPubKey validity: length must match the header byte.
	if len(pubkey) == 0 {
		return false
	}
	switch pubkey[0] {
	case 2, 3:
		if len(pubkey) != 33 {
			return false
		}
	case 4, 6, 7:
		if len(pubkey) != 65 {
			return false
		}
	default:
		return false
	}
	pk, err := btcec.ParsePubKey(pubkey)
	if err != nil {
		return false
	}
	rb, sb, ok := laxDERParse(sig)
	if !ok {
		return false
	}
	var r, s btcec.ModNScalar
	if r.SetByteSlice(rb[:]) || s.SetByteSlice(sb[:]) {
		return false
	}
	if r.IsZero() || s.IsZero() {
		return false
	}
	// libsecp256k1 normalises S before verifying (high S is accepted here).
	if s.IsOverHalfOrder() {
		s.Negate()
	}
	return ecdsa.NewSignature(&r, &s).Verify(digest[:], pk)
}

// verifySchnorr is XOnlyPubKey::VerifySchnorr (64-byte sig, 32-byte key).
func verifySchnorr(sig, pubkey []byte, digest [32]byte) bool {
	if len(sig) != 64 || len(pubkey) != 32 {
		return false
	}
	pk, err := schnorr.ParsePubKey(pubkey)
	if err != nil {
		return false
	}
	sg, err := schnorr.ParseSignature(sig)
	if err != nil {
		return false
	}
	return sg.Verify(digest[:], pk)
}

// checkTapTweak is XOnlyPubKey::CheckTapTweak: output == lift_x(internal) +
// H_TapTweak(internal||merkleRoot)*G with the stated parity.
func checkTapTweak(output, internal []byte, merkleRoot [32]byte, parity bool) bool {
	if len(output) != 32 || len(internal) != 32 {
		return false
	}
	p, err := schnorr.ParsePubKey(internal)
	if err != nil {
		return false
	}
	msg := append(append([]byte{}, internal...), merkleRoot[:]...)
	t := TaggedHash("TapTweak", msg)
	var ts btcec.ModNScalar
	if ts.SetByteSlice(t[:]) {
		return false
	}
	var pj, tg, q btcec.JacobianPoint
	p.AsJacobian(&pj)
	btcec.ScalarBaseMultNonConst(&ts, &tg)
	btcec.AddNonConst(&pj, &tg, &q)
	if (q.X.IsZero() && q.Y.IsZero()) || q.Z.IsZero() {
		return false
	}
	q.ToAffine()
	xb := q.X.Bytes()
	if !bytesEqual(xb[:], output) {
		return false
	}
	return q.Y.IsOdd() == parity
}

// TaprootTweak computes the BIP341 output key for an x-only internal key and a
// merkle root (nil root: key-path-only commitment H(P)).  Used by the check to
// build spendable taproot outputs.
func TaprootTweak(internal []byte, merkleRoot []byte) (output [32]byte, parityOdd bool, ok bool) {
	p, err := schnorr.ParsePubKey(internal)
	if err != nil {
		return output, false, false
	}
	msg := append(append([]byte{}, internal...), merkleRoot...)
	t := TaggedHash("TapTweak", msg)
	var ts btcec.ModNScalar
	if ts.SetByteSlice(t[:]) {
		return output, false, false
	}
	var pj, tg, q btcec.JacobianPoint
	p.AsJacobian(&pj)
	btcec.ScalarBaseMultNonConst(&ts, &tg)
	btcec.AddNonConst(&pj, &tg, &q)
	if (q.X.IsZero() && q.Y.IsZero()) || q.Z.IsZero() {
		return output, false, false
	}
	q.ToAffine()
	return *q.X.Bytes(), q.Y.IsOdd(), true
}

// TapTweakScalar returns H_TapTweak(internal||root) (for tweaking private keys).
func TapTweakScalar(internal []byte, merkleRoot []byte) [32]byte {
	msg := append(append([]byte{}, internal...), merkleRoot...)
	return TaggedHash("TapTweak", msg)
}

// Hash160 is RIPEMD160(SHA256(b)).
func Hash160(b []byte) []byte {
	h := sha(b)
	return ripemd(h[:])
}

// Sha256 is a convenience export.
func Sha256(b []byte) [32]byte { return sha(b) }
