package refscript

import (
	"crypto/sha256"

	"github.com/btcsuite/btcd/wire/v2"
)

// The transaction is taken as a wire.MsgTx used purely as a data container: all
// serialisation below is done by hand from the fields.

func le32(b []byte, v uint32) []byte {
	return append(b, byte(v), byte(v>>8), byte(v>>16), byte(v>>24))
}
func le64(b []byte, v uint64) []byte {
	return append(b, byte(v), byte(v>>8), byte(v>>16), byte(v>>24), byte(v>>32), byte(v>>40), byte(v>>48), byte(v>>56))
}

func compactSize(b []byte, n uint64) []byte {
	switch {
	case n < 253:
		return append(b, byte(n))
	case n <= 0xffff:
		return append(b, 253, byte(n), byte(n>>8))
	case n <= 0xffffffff:
		return le32(append(b, 254), uint32(n))
	}
	return le64(append(b, 255), n)
}

func varBytes(b, s []byte) []byte { return append(compactSize(b, uint64(len(s))), s...) }

func serOutPoint(b []byte, in *wire.TxIn) []byte {
	b = append(b, in.PreviousOutPoint.Hash[:]...)
	return le32(b, in.PreviousOutPoint.Index)
}

func serTxOut(b []byte, value int64, script []byte) []byte {
	return varBytes(le64(b, uint64(value)), script)
}

func sha(b []byte) [32]byte { return sha256.Sum256(b) }
func dsha(b []byte) [32]byte {
	h := sha256.Sum256(b)
	return sha256.Sum256(h[:])
}

// TaggedHash is BIP340's tagged hash.
func TaggedHash(tag string, msg []byte) [32]byte {
	t := sha256.Sum256([]byte(tag))
	buf := make([]byte, 0, 64+len(msg))
	buf = append(buf, t[:]...)
	buf = append(buf, t[:]...)
	buf = append(buf, msg...)
	return sha256.Sum256(buf)
}

const (
	sighashAll          = 1
	sighashNone         = 2
	sighashSingle       = 3
	sighashAnyoneCanPay = 0x80
)

// serializeScriptCodeNoCodeSep writes the script with every OP_CODESEPARATOR
// instruction removed (CTransactionSignatureSerializer::SerializeScriptCode).
// An unparseable tail is kept verbatim.
func stripCodeSeparators(script []byte) []byte {
	out := make([]byte, 0, len(script))
	begin, pc := 0, 0
	for {
		op, _, next, ok := GetOp(script, pc)
		if !ok {
			break
		}
		pc = next
		if op == OP_CODESEPARATOR {
			out = append(out, script[begin:pc-1]...)
			begin = pc
		}
	}
	if begin != len(script) {
		out = append(out, script[begin:]...)
	}
	return out
}

// LegacySigHash is SignatureHash(..., SigVersion::BASE).  scriptCode must already
// have had FindAndDelete applied by the caller.
func LegacySigHash(scriptCode []byte, tx *wire.MsgTx, idx int, hashType uint32) [32]byte {
	var one [32]byte
	one[0] = 1
	if idx >= len(tx.TxIn) {
		return one
	}
	base := hashType & 0x1f
	if base == sighashSingle && idx >= len(tx.TxOut) {
		return one
	}
	anyone := hashType&sighashAnyoneCanPay != 0
	var b []byte
	b = le32(b, uint32(tx.Version))
	// inputs
	if anyone {
		b = compactSize(b, 1)
	} else {
		b = compactSize(b, uint64(len(tx.TxIn)))
	}
	for i, in := range tx.TxIn {
		if anyone && i != idx {
			continue
		}
		b = serOutPoint(b, in)
		if i == idx {
			b = varBytes(b, stripCodeSeparators(scriptCode))
		} else {
			b = compactSize(b, 0)
		}
		if i != idx && (base == sighashSingle || base == sighashNone) {
			b = le32(b, 0)
		} else {
			b = le32(b, in.Sequence)
		}
	}
	// outputs
	switch base {
	case sighashNone:
		b = compactSize(b, 0)
	case sighashSingle:
		b = compactSize(b, uint64(idx+1))
		for i := 0; i <= idx; i++ {
			if i == idx {
				b = serTxOut(b, tx.TxOut[i].Value, tx.TxOut[i].PkScript)
			} else {
				b = serTxOut(b, -1, nil)
			}
		}
	default:
		b = compactSize(b, uint64(len(tx.TxOut)))
		for _, o := range tx.TxOut {
			b = serTxOut(b, o.Value, o.PkScript)
		}
	}
	b = le32(b, tx.LockTime)
	b = le32(b, hashType)
	return dsha(b)
}

// WitnessV0SigHash is BIP143.
func WitnessV0SigHash(scriptCode []byte, tx *wire.MsgTx, idx int, hashType uint32, amount int64) [32]byte {
	base := hashType & 0x1f
	anyone := hashType&sighashAnyoneCanPay != 0
	var hashPrevouts, hashSequence, hashOutputs [32]byte
	if !anyone {
		var b []byte
		for _, in := range tx.TxIn {
			b = serOutPoint(b, in)
		}
		hashPrevouts = dsha(b)
	}
	if !anyone && base != sighashSingle && base != sighashNone {
		var b []byte
		for _, in := range tx.TxIn {
			b = le32(b, in.Sequence)
		}
		hashSequence = dsha(b)
	}
	if base != sighashSingle && base != sighashNone {
		var b []byte
		for _, o := range tx.TxOut {
			b = serTxOut(b, o.Value, o.PkScript)
		}
		hashOutputs = dsha(b)
	} else if base == sighashSingle && idx < len(tx.TxOut) {
		hashOutputs = dsha(serTxOut(nil, tx.TxOut[idx].Value, tx.TxOut[idx].PkScript))
	}
	var b []byte
	b = le32(b, uint32(tx.Version))
	b = append(b, hashPrevouts[:]...)
	b = append(b, hashSequence[:]...)
	b = serOutPoint(b, tx.TxIn[idx])
	b = varBytes(b, scriptCode)
	b = le64(b, uint64(amount))
	b = le32(b, tx.TxIn[idx].Sequence)
	b = append(b, hashOutputs[:]...)
	b = le32(b, tx.LockTime)
	b = le32(b, hashType)
	return dsha(b)
}

// TapExec is the per-input execution data BIP341/342 digests need.
type TapExec struct {
	AnnexPresent bool
	AnnexHash    [32]byte // sha256(compact_size(len) || annex)
	Tapscript    bool     // ext_flag 1
	TapLeafHash  [32]byte
	CodeSepPos   uint32
}

// TaprootSigHash is BIP341's SigMsg hash (SignatureHashSchnorr).  spent must hold
// the previous output of every input; ok=false for an invalid hash type, a
// SIGHASH_SINGLE without matching output, or missing spent outputs.
func TaprootSigHash(tx *wire.MsgTx, idx int, hashType byte, spent []*wire.TxOut, ex *TapExec) (h [32]byte, ok bool) {
	if len(spent) != len(tx.TxIn) || idx >= len(tx.TxIn) {
		return h, false
	}
	for _, s := range spent {
		if s == nil {
			return h, false
		}
	}
	if !(hashType <= 0x03 || (hashType >= 0x81 && hashType <= 0x83)) {
		return h, false
	}
	outType := hashType & 3
	if hashType == 0 {
		outType = sighashAll
	}
	inType := hashType & 0x80
	b := []byte{0x00} // epoch
	b = append(b, hashType)
	b = le32(b, uint32(tx.Version))
	b = le32(b, tx.LockTime)
	if inType != sighashAnyoneCanPay {
		var p, a, s, q []byte
		for i, in := range tx.TxIn {
			p = serOutPoint(p, in)
			a = le64(a, uint64(spent[i].Value))
			s = varBytes(s, spent[i].PkScript)
			q = le32(q, in.Sequence)
		}
		hp, ha, hs, hq := sha(p), sha(a), sha(s), sha(q)
		b = append(b, hp[:]...)
		b = append(b, ha[:]...)
		b = append(b, hs[:]...)
		b = append(b, hq[:]...)
	}
	if outType == sighashAll {
		var o []byte
		for _, out := range tx.TxOut {
			o = serTxOut(o, out.Value, out.PkScript)
		}
		ho := sha(o)
		b = append(b, ho[:]...)
	}
	var spendType byte
	if ex.Tapscript {
		spendType = 2
	}
	if ex.AnnexPresent {
		spendType |= 1
	}
	b = append(b, spendType)
	if inType == sighashAnyoneCanPay {
		b = serOutPoint(b, tx.TxIn[idx])
		b = serTxOut(b, spent[idx].Value, spent[idx].PkScript)
		b = le32(b, tx.TxIn[idx].Sequence)
	} else {
		b = le32(b, uint32(idx))
	}
	if ex.AnnexPresent {
		b = append(b, ex.AnnexHash[:]...)
	}
	if outType == sighashSingle {
		if idx >= len(tx.TxOut) {
			return h, false
		}
		ho := sha(serTxOut(nil, tx.TxOut[idx].Value, tx.TxOut[idx].PkScript))
		b = append(b, ho[:]...)
	}
	if ex.Tapscript {
		b = append(b, ex.TapLeafHash[:]...)
		b = append(b, 0x00) // key_version
		b = le32(b, ex.CodeSepPos)
	}
	return TaggedHash("TapSighash", b), true
}

// TapLeafHash is ComputeTapleafHash.
func TapLeafHash(leafVersion byte, script []byte) [32]byte {
	b := []byte{leafVersion}
	b = varBytes(b, script)
	return TaggedHash("TapLeaf", b)
}

// TapBranchHash hashes two children in lexicographic order.
func TapBranchHash(a, b [32]byte) [32]byte {
	less := false
	for i := 0; i < 32; i++ {
		if a[i] != b[i] {
			less = a[i] < b[i]
			break
		}
	}
	buf := make([]byte, 0, 64)
	if less {
		buf = append(append(buf, a[:]...), b[:]...)
	} else {
		buf = append(append(buf, b[:]...), a[:]...)
	}
	return TaggedHash("TapBranch", buf)
}

// WitnessSerializeSize is GetSerializeSize(witness.stack).
func WitnessSerializeSize(w [][]byte) int64 {
	n := int64(len(compactSize(nil, uint64(len(w)))))
	for _, e := range w {
		n += int64(len(compactSize(nil, uint64(len(e))))) + int64(len(e))
	}
	return n
}

// AnnexHash is sha256(compact_size(len(annex)) || annex) as committed by BIP341.
func AnnexHash(annex []byte) [32]byte { return sha(varBytes(nil, annex)) }
