package refscript

import "crypto/sha256"

func copyStack(s [][]byte) [][]byte {
	out := make([][]byte, len(s))
	copy(out, s)
	return out
}

// executeWitnessScript is Core's ExecuteWitnessScript.
func executeWitnessScript(stackIn [][]byte, script []byte, flags Flags, sv sigVersion, c *Checker, ex *execData) Err {
	stack := copyStack(stackIn)
	if sv == sigTapscript {
		// OP_SUCCESSx processing overrides everything, including stack element size limits.
		pc := 0
		for pc < len(script) {
			op, _, next, ok := GetOp(script, pc)
			if !ok {
				// not reached if an OP_SUCCESSx was found earlier
				return "BAD_OPCODE"
			}
			pc = next
			if IsOpSuccess(op) {
				if flags&DISCOURAGE_OP_SUCCESS != 0 {
					return "DISCOURAGE_OP_SUCCESS"
				}
				return ""
			}
		}
		if len(stack) > MaxStackSize {
			return "STACK_SIZE"
		}
	}
	for _, e := range stack {
		if len(e) > MaxScriptElementSize {
			return "PUSH_SIZE"
		}
	}
	if e := EvalScript(&stack, script, flags, c, sv, ex); e != "" {
		return e
	}
	if len(stack) != 1 {
		return "CLEANSTACK"
	}
	if !CastToBool(stack[0]) {
		return "EVAL_FALSE"
	}
	return ""
}

// verifyTaprootCommitment is Core's VerifyTaprootCommitment.
func verifyTaprootCommitment(control, program []byte, leafHash [32]byte, memo *TweakMemo) bool {
	k := leafHash
	for p := TaprootControlBaseSize; p+TaprootControlNodeSize <= len(control); p += TaprootControlNodeSize {
		var node [32]byte
		copy(node[:], control[p:p+32])
		k = TapBranchHash(k, node)
	}
	if memo == nil {
		return checkTapTweak(program, control[1:33], k, control[0]&1 == 1)
	}
	var key [129]byte
	copy(key[0:32], program)
	copy(key[32:64], control[1:33])
	copy(key[64:96], k[:])
	key[96] = control[0] & 1
	key[97] = byte(len(program))
	if memo.valid && memo.key == key {
		return memo.res
	}
	res := checkTapTweak(program, control[1:33], k, control[0]&1 == 1)
	memo.key, memo.valid, memo.res = key, true, res
	return res
}

// verifyWitnessProgram is Core's VerifyWitnessProgram.
func verifyWitnessProgram(witness [][]byte, version int, program []byte, flags Flags, c *Checker, isP2SH bool) Err {
	stack := witness
	ex := &execData{}
	if version == 0 {
		if len(program) == 32 {
			if len(stack) == 0 {
				return "WITNESS_PROGRAM_WITNESS_EMPTY"
			}
			script := stack[len(stack)-1]
			stack = stack[:len(stack)-1]
			h := sha256.Sum256(script)
			if !bytesEqual(h[:], program) {
				return "WITNESS_PROGRAM_MISMATCH"
			}
			return executeWitnessScript(stack, script, flags, sigWitnessV0, c, ex)
		} else if len(program) == 20 {
			if len(stack) != 2 {
				return "WITNESS_PROGRAM_MISMATCH"
			}
			script := []byte{OP_DUP, OP_HASH160, 20}
			script = append(script, program...)
			script = append(script, OP_EQUALVERIFY, OP_CHECKSIG)
			return executeWitnessScript(stack, script, flags, sigWitnessV0, c, ex)
		}
		return "WITNESS_PROGRAM_WRONG_LENGTH"
	} else if version == 1 && len(program) == 32 && !isP2SH {
		if flags&TAPROOT == 0 {
			return ""
		}
		if len(stack) == 0 {
			return "WITNESS_PROGRAM_WITNESS_EMPTY"
		}
		if len(stack) >= 2 && len(stack[len(stack)-1]) > 0 && stack[len(stack)-1][0] == AnnexTag {
			annex := stack[len(stack)-1]
			stack = stack[:len(stack)-1]
			ex.tap.AnnexHash = sha(varBytes(nil, annex))
			ex.tap.AnnexPresent = true
		}
		if len(stack) == 1 {
			// key path
			return c.checkSchnorrSignature(stack[0], program, sigTaproot, ex)
		}
		control := stack[len(stack)-1]
		script := stack[len(stack)-2]
		stack = stack[:len(stack)-2]
		if len(control) < TaprootControlBaseSize || len(control) > TaprootControlMaxSize ||
			(len(control)-TaprootControlBaseSize)%TaprootControlNodeSize != 0 {
			return "TAPROOT_WRONG_CONTROL_SIZE"
		}
		ex.tap.TapLeafHash = TapLeafHash(control[0]&TaprootLeafMask, script)
		if !verifyTaprootCommitment(control, program, ex.tap.TapLeafHash, c.Tweak) {
			return "WITNESS_PROGRAM_MISMATCH"
		}
		ex.tapleafHashInit = true
		if control[0]&TaprootLeafMask == TaprootLeafTapscript {
			ex.weightLeft = WitnessSerializeSize(witness) + ValidationWeightOffset
			ex.weightLeftInit = true
			return executeWitnessScript(stack, script, flags, sigTapscript, c, ex)
		}
		if flags&DISCOURAGE_UPGRADABLE_TAPROOT_VERSION != 0 {
			return "DISCOURAGE_UPGRADABLE_TAPROOT_VERSION"
		}
		return ""
	} else if !isP2SH && IsPayToAnchor(version, program) {
		return ""
	}
	if flags&DISCOURAGE_UPGRADABLE_WITNESS_PROGRAM != 0 {
		return "DISCOURAGE_UPGRADABLE_WITNESS_PROGRAM"
	}
	return ""
}

// VerifyScript is Core's VerifyScript.  It returns "" when the spend is valid,
// otherwise Core's script error name.  Flag combinations Core asserts against
// (CLEANSTACK without P2SH, WITNESS without P2SH) return "INVALID_FLAGS".
func VerifyScript(scriptSig, scriptPubKey []byte, witness [][]byte, flags Flags, c *Checker) Err {
	// Core asserts CLEANSTACK => P2SH && WITNESS.  CLEANSTACK without WITNESS is
	// still well defined by the code and is used by btcd's vector runner, so only
	// the P2SH requirement is enforced here.
	if flags&CLEANSTACK != 0 && flags&P2SH == 0 {
		return "INVALID_FLAGS"
	}
	if flags&WITNESS != 0 && flags&P2SH == 0 {
		return "INVALID_FLAGS"
	}
	hadWitness := false
	if flags&SIGPUSHONLY != 0 && !IsPushOnly(scriptSig) {
		return "SIG_PUSHONLY"
	}
	var stack, stackCopy [][]byte
	ex := &execData{}
	if e := EvalScript(&stack, scriptSig, flags, c, sigBase, ex); e != "" {
		return e
	}
	if flags&P2SH != 0 {
		stackCopy = copyStack(stack)
	}
	stack = copyStack(stack)
	if e := EvalScript(&stack, scriptPubKey, flags, c, sigBase, ex); e != "" {
		return e
	}
	if len(stack) == 0 {
		return "EVAL_FALSE"
	}
	if !CastToBool(stack[len(stack)-1]) {
		return "EVAL_FALSE"
	}

	if flags&WITNESS != 0 {
		if v, prog, ok := IsWitnessProgram(scriptPubKey); ok {
			hadWitness = true
			if len(scriptSig) != 0 {
				return "WITNESS_MALLEATED"
			}
			if e := verifyWitnessProgram(witness, v, prog, flags, c, false); e != "" {
				return e
			}
			stack = stack[:1]
		}
	}

	if flags&P2SH != 0 && IsPayToScriptHash(scriptPubKey) {
		if !IsPushOnly(scriptSig) {
			return "SIG_PUSHONLY"
		}
		stack = stackCopy
		if len(stack) == 0 {
			return "INTERNAL_P2SH_EMPTY_STACK" // unreachable (Core asserts)
		}
		redeem := stack[len(stack)-1]
		stack = copyStack(stack[:len(stack)-1])
		if e := EvalScript(&stack, redeem, flags, c, sigBase, ex); e != "" {
			return e
		}
		if len(stack) == 0 {
			return "EVAL_FALSE"
		}
		if !CastToBool(stack[len(stack)-1]) {
			return "EVAL_FALSE"
		}
		if flags&WITNESS != 0 {
			if v, prog, ok := IsWitnessProgram(redeem); ok {
				hadWitness = true
				if !bytesEqual(scriptSig, PushData(redeem)) {
					return "WITNESS_MALLEATED_P2SH"
				}
				if e := verifyWitnessProgram(witness, v, prog, flags, c, true); e != "" {
					return e
				}
				stack = stack[:1]
			}
		}
	}

	if flags&CLEANSTACK != 0 {
		if len(stack) != 1 {
			return "CLEANSTACK"
		}
	}
	if flags&WITNESS != 0 {
		if !hadWitness && len(witness) != 0 {
			return "WITNESS_UNEXPECTED"
		}
	}
	return ""
}
