package refscript

import (
	"math/big"

	"github.com/btcsuite/btcd/btcec/v2"
)

// This file holds emulations of btcd's known deviations.  They are used ONLY to
// label disagreements (Checker.Quirks != 0); the oracle never enables them.

// btcdBERParse mirrors btcec/ecdsa.parseSig(der=false) acceptance, including its
// byte-wide length arithmetic.  It returns the r and s magnitudes.
func btcdBERParse(sig []byte) (r, s *big.Int, ok bool) {
	if len(sig) < 8 {
		return nil, nil, false
	}
	if sig[0] != 0x30 {
		return nil, nil, false
	}
	siglen := sig[1]
	if int(siglen+2) > len(sig) || int(siglen+2) < 8 {
		return nil, nil, false
	}
	sig = sig[:siglen+2]
	idx := 2
	if sig[idx] != 0x02 {
		return nil, nil, false
	}
	idx++
	rLen := int(sig[idx])
	idx++
	if rLen <= 0 || rLen > len(sig)-idx-3 {
		return nil, nil, false
	}
	rb := sig[idx : idx+rLen]
	for len(rb) > 0 && rb[0] == 0 {
		rb = rb[1:]
	}
	if len(rb) > 32 {
		return nil, nil, false
	}
	r = new(big.Int).SetBytes(rb)
	if r.Cmp(curveN) >= 0 || r.Sign() == 0 {
		return nil, nil, false
	}
	idx += rLen
	if sig[idx] != 0x02 {
		return nil, nil, false
	}
	idx++
	sLen := int(sig[idx])
	idx++
	if sLen <= 0 || sLen > len(sig)-idx {
		return nil, nil, false
	}
	sb := sig[idx : idx+sLen]
	for len(sb) > 0 && sb[0] == 0 {
		sb = sb[1:]
	}
	if len(sb) > 32 {
		return nil, nil, false
	}
	s = new(big.Int).SetBytes(sb)
	if s.Cmp(curveN) >= 0 || s.Sign() == 0 {
		return nil, nil, false
	}
	idx += sLen
	if idx != len(sig) {
		return nil, nil, false
	}
	return r, s, true
}

func btcdBERAccepts(sig []byte) bool {
	_, _, ok := btcdBERParse(sig)
	return ok
}

// btcdSigParseFails: would btcd's signature parser (DER parser under
// DERSIG/STRICTENC, BER parser otherwise) reject this signature (without hash type)?
func btcdSigParseFails(sig []byte, flags Flags) bool {
	if flags&(DERSIG|STRICTENC) != 0 {
		// strict DER structure has been enforced already; only the value range can fail
		rb, sb, ok := laxDERParse(sig)
		if !ok {
			return true
		}
		zero := [32]byte{}
		return rb == zero || sb == zero
	}
	return !btcdBERAccepts(sig)
}

func btcdParseFails(sig, pubkey []byte, flags Flags) bool {
	if _, err := btcec.ParsePubKey(pubkey); err != nil {
		return true
	}
	return btcdSigParseFails(sig, flags)
}
