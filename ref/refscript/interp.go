package refscript

import (
	"crypto/sha1"
	"crypto/sha256"

	"github.com/btcsuite/btcd/wire/v2"
	"golang.org/x/crypto/ripemd160"
)

// Err is a Core-style script error name ("" on success).
type Err string

// Checker carries the spending context (GenericTransactionSignatureChecker).
type Checker struct {
	Tx     *wire.MsgTx
	Idx    int
	Amount int64
	// Spent holds the previous outputs of all inputs (needed for taproot digests);
	// nil entries / wrong length make taproot signature checks fail.
	Spent []*wire.TxOut
	// Tweak optionally memoises the last taproot commitment check (a pure
	// function of its inputs); nil disables.
	Tweak *TweakMemo
	// Quirks switches on emulations of known btcd deviations.  They are NEVER used
	// for the oracle (which runs with Quirks == 0); the check uses them only to
	// label a disagreement with the deviation that explains it.
	Quirks Quirks
}

// Quirks is a bit set of emulated btcd deviations from Core (classification only).
type Quirks uint32

const (
	// QuirkBtcdBER: without DERSIG/STRICTENC btcd parses signatures with its own
	// BER-ish parser (single-byte lengths, exact sequence length, no trailing bytes
	// inside the sequence) instead of Core's lax DER parser.
	QuirkBtcdBER Quirks = 1 << iota
	// QuirkNoFindAndDeleteEmptySig: btcd's removeOpcodeByData returns early for an
	// empty signature, Core's FindAndDelete removes every OP_0 from the script code.
	QuirkNoFindAndDeleteEmptySig
	// QuirkNullFailSkippedOnParseError: btcd's OP_CHECKSIG pushes false without the
	// NULLFAIL check when the public key or the (DER-valid) signature fails to parse.
	QuirkNullFailSkippedOnParseError
	// QuirkMultisigSkipsKeyEncoding: btcd's OP_CHECKMULTISIG moves to the next key
	// before checkPubKeyEncoding when the signature is empty or fails to parse.
	QuirkMultisigSkipsKeyEncoding
	// QuirkTapscriptEmptySigUnknownKey: btcd pushes an empty vector for an empty
	// signature before looking at the public key type (no DISCOURAGE_UPGRADABLE_PUBKEYTYPE).
	QuirkTapscriptEmptySigUnknownKey
)

// QuirkNames lists the quirks for reporting.
var QuirkNames = []struct {
	Q    Quirks
	Name string
}{
	{QuirkBtcdBER, "prebip66-ber-signature-parser"},
	{QuirkNoFindAndDeleteEmptySig, "findanddelete-ignores-empty-signature"},
	{QuirkNullFailSkippedOnParseError, "nullfail-skipped-when-key-or-sig-unparseable"},
	{QuirkMultisigSkipsKeyEncoding, "checkmultisig-skips-pubkey-encoding-check"},
	{QuirkTapscriptEmptySigUnknownKey, "tapscript-empty-sig-skips-unknown-pubkey-type"},
}

// TweakMemo is a one-entry memo for checkTapTweak.
type TweakMemo struct {
	key   [129]byte
	valid bool
	res   bool
}

type execData struct {
	tap             TapExec
	weightLeft      int64
	weightLeftInit  bool
	tapleafHashInit bool
}

func (c *Checker) checkLockTime(n int64) bool {
	txLock := int64(c.Tx.LockTime)
	if !((txLock < LockTimeThreshold && n < LockTimeThreshold) ||
		(txLock >= LockTimeThreshold && n >= LockTimeThreshold)) {
		return false
	}
	if n > txLock {
		return false
	}
	if c.Tx.TxIn[c.Idx].Sequence == SequenceFinal {
		return false
	}
	return true
}

func (c *Checker) checkSequence(n int64) bool {
	txSeq := int64(c.Tx.TxIn[c.Idx].Sequence)
	if uint32(c.Tx.Version) < 2 {
		return false
	}
	if txSeq&SequenceLockTimeDisableFlag != 0 {
		return false
	}
	const mask = SequenceLockTimeTypeFlag | SequenceLockTimeMask
	a := txSeq & mask
	b := n & mask
	if !((a < SequenceLockTimeTypeFlag && b < SequenceLockTimeTypeFlag) ||
		(a >= SequenceLockTimeTypeFlag && b >= SequenceLockTimeTypeFlag)) {
		return false
	}
	if b > a {
		return false
	}
	return true
}

// checkECDSASignature is GenericTransactionSignatureChecker::CheckECDSASignature.
func (c *Checker) checkECDSASignature(sigIn, pubkey, scriptCode []byte, sv sigVersion, flags Flags) bool {
	if len(sigIn) == 0 {
		return false
	}
	hashType := uint32(sigIn[len(sigIn)-1])
	sig := sigIn[:len(sigIn)-1]
	if c.Quirks&QuirkBtcdBER != 0 && flags&(DERSIG|STRICTENC) == 0 && !btcdBERAccepts(sig) {
		return false
	}
	var digest [32]byte
	if sv == sigWitnessV0 {
		digest = WitnessV0SigHash(scriptCode, c.Tx, c.Idx, hashType, c.Amount)
	} else {
		digest = LegacySigHash(scriptCode, c.Tx, c.Idx, hashType)
	}
	return verifyECDSA(sig, pubkey, digest)
}

// checkSchnorrSignature is GenericTransactionSignatureChecker::CheckSchnorrSignature.
func (c *Checker) checkSchnorrSignature(sig, pubkey []byte, sv sigVersion, ex *execData) Err {
	if len(sig) != 64 && len(sig) != 65 {
		return "SCHNORR_SIG_SIZE"
	}
	hashType := byte(0)
	if len(sig) == 65 {
		hashType = sig[64]
		sig = sig[:64]
		if hashType == 0 {
			return "SCHNORR_SIG_HASHTYPE"
		}
	}
	tap := ex.tap
	tap.Tapscript = sv == sigTapscript
	digest, ok := TaprootSigHash(c.Tx, c.Idx, hashType, c.Spent, &tap)
	if !ok {
		return "SCHNORR_SIG_HASHTYPE"
	}
	if !verifySchnorr(sig, pubkey, digest) {
		return "SCHNORR_SIG"
	}
	return ""
}

func sigErrName(e sigErr) Err {
	switch e {
	case errSigDER:
		return "SIG_DER"
	case errSigHighS:
		return "SIG_HIGH_S"
	case errSigHashType:
		return "SIG_HASHTYPE"
	case errPubKeyType:
		return "PUBKEYTYPE"
	case errWitnessPubKeyType:
		return "WITNESS_PUBKEYTYPE"
	}
	return ""
}

func evalChecksigPreTapscript(sig, pubkey, script []byte, codeBegin int, flags Flags, c *Checker, sv sigVersion) (bool, Err) {
	scriptCode := script[codeBegin:]
	if sv == sigBase && !(c.Quirks&QuirkNoFindAndDeleteEmptySig != 0 && len(sig) == 0) {
		var found int
		scriptCode, found = FindAndDelete(scriptCode, PushData(sig))
		if found > 0 && flags&CONST_SCRIPTCODE != 0 {
			return false, "SIG_FINDANDDELETE"
		}
	}
	if e := checkSignatureEncoding(sig, flags); e != sigOK {
		return false, sigErrName(e)
	}
	if e := checkPubKeyEncoding(pubkey, flags, sv); e != sigOK {
		return false, sigErrName(e)
	}
	success := c.checkECDSASignature(sig, pubkey, scriptCode, sv, flags)
	if !success && c.Quirks&QuirkNullFailSkippedOnParseError != 0 && len(sig) != 0 && btcdParseFails(sig[:len(sig)-1], pubkey, flags) {
		return false, ""
	}
	if !success && flags&NULLFAIL != 0 && len(sig) != 0 {
		return false, "SIG_NULLFAIL"
	}
	return success, ""
}

func evalChecksigTapscript(sig, pubkey []byte, ex *execData, flags Flags, c *Checker, sv sigVersion) (bool, Err) {
	success := len(sig) != 0
	if success {
		ex.weightLeft -= ValidationWeightPerSigopPassed
		if ex.weightLeft < 0 {
			return false, "TAPSCRIPT_VALIDATION_WEIGHT"
		}
	}
	if len(pubkey) == 0 {
		return false, "PUBKEYTYPE"
	} else if c.Quirks&QuirkTapscriptEmptySigUnknownKey != 0 && !success {
		return false, ""
	} else if len(pubkey) == 32 {
		if success {
			if e := c.checkSchnorrSignature(sig, pubkey, sv, ex); e != "" {
				return false, e
			}
		}
	} else {
		if flags&DISCOURAGE_UPGRADABLE_PUBKEYTYPE != 0 {
			return false, "DISCOURAGE_UPGRADABLE_PUBKEYTYPE"
		}
	}
	return success, ""
}

func evalChecksig(sig, pubkey, script []byte, codeBegin int, ex *execData, flags Flags, c *Checker, sv sigVersion) (bool, Err) {
	if sv == sigTapscript {
		return evalChecksigTapscript(sig, pubkey, ex, flags, c, sv)
	}
	return evalChecksigPreTapscript(sig, pubkey, script, codeBegin, flags, c, sv)
}

func boolBytes(b bool) []byte {
	if b {
		return []byte{1}
	}
	return []byte{}
}

// EvalScript is Core's EvalScript.  The stack is modified in place.
func EvalScript(stackp *[][]byte, script []byte, flags Flags, c *Checker, sv sigVersion, ex *execData) Err {
	stack := *stackp
	defer func() { *stackp = stack }()
	var altstack [][]byte
	var vfExec []bool
	allTrue := func() bool {
		for _, v := range vfExec {
			if !v {
				return false
			}
		}
		return true
	}
	if (sv == sigBase || sv == sigWitnessV0) && len(script) > MaxScriptSize {
		return "SCRIPT_SIZE"
	}
	nOpCount := 0
	requireMinimal := flags&MINIMALDATA != 0
	codeBegin := 0
	ex.tap.CodeSepPos = 0xffffffff
	top := func(i int) []byte { return stack[len(stack)+i] } // i negative
	pop := func() { stack = stack[:len(stack)-1] }
	push := func(v []byte) { stack = append(stack, v) }
	num := func(v []byte, max int) (int64, bool) { return DecodeNum(v, requireMinimal, max) }

	pc := 0
	for opcodePos := uint32(0); pc < len(script); opcodePos++ {
		fExec := allTrue()
		op, data, next, ok := GetOp(script, pc)
		if !ok {
			return "BAD_OPCODE"
		}
		pc = next
		if len(data) > MaxScriptElementSize {
			return "PUSH_SIZE"
		}
		if sv == sigBase || sv == sigWitnessV0 {
			if op > OP_16 {
				nOpCount++
				if nOpCount > MaxOpsPerScript {
					return "OP_COUNT"
				}
			}
		}
		switch op {
		case OP_CAT, OP_SUBSTR, OP_LEFT, OP_RIGHT, OP_INVERT, OP_AND, OP_OR, OP_XOR,
			OP_2MUL, OP_2DIV, OP_MUL, OP_DIV, OP_MOD, OP_LSHIFT, OP_RSHIFT:
			return "DISABLED_OPCODE"
		}
		if op == OP_CODESEPARATOR && sv == sigBase && flags&CONST_SCRIPTCODE != 0 {
			return "OP_CODESEPARATOR"
		}

		if fExec && op <= OP_PUSHDATA4 {
			if requireMinimal && !CheckMinimalPush(data, op) {
				return "MINIMALDATA"
			}
			push(data)
		} else if fExec || (OP_IF <= op && op <= OP_ENDIF) {
			switch op {
			case OP_1NEGATE, OP_1, OP_1 + 1, OP_1 + 2, OP_1 + 3, OP_1 + 4, OP_1 + 5, OP_1 + 6, OP_1 + 7,
				OP_1 + 8, OP_1 + 9, OP_1 + 10, OP_1 + 11, OP_1 + 12, OP_1 + 13, OP_1 + 14, OP_16:
				push(EncodeNum(int64(op) - (OP_1 - 1)))

			case OP_NOP:

			case OP_CHECKLOCKTIMEVERIFY:
				if flags&CHECKLOCKTIMEVERIFY == 0 {
					break
				}
				if len(stack) < 1 {
					return "INVALID_STACK_OPERATION"
				}
				n, ok := num(top(-1), 5)
				if !ok {
					return "UNKNOWN_ERROR"
				}
				if n < 0 {
					return "NEGATIVE_LOCKTIME"
				}
				if !c.checkLockTime(n) {
					return "UNSATISFIED_LOCKTIME"
				}

			case OP_CHECKSEQUENCEVERIFY:
				if flags&CHECKSEQUENCEVERIFY == 0 {
					break
				}
				if len(stack) < 1 {
					return "INVALID_STACK_OPERATION"
				}
				n, ok := num(top(-1), 5)
				if !ok {
					return "UNKNOWN_ERROR"
				}
				if n < 0 {
					return "NEGATIVE_LOCKTIME"
				}
				if n&SequenceLockTimeDisableFlag != 0 {
					break
				}
				if !c.checkSequence(n) {
					return "UNSATISFIED_LOCKTIME"
				}

			case OP_NOP1, OP_NOP4, OP_NOP5, OP_NOP6, OP_NOP7, OP_NOP8, OP_NOP9, OP_NOP10:
				if flags&DISCOURAGE_UPGRADABLE_NOPS != 0 {
					return "DISCOURAGE_UPGRADABLE_NOPS"
				}

			case OP_IF, OP_NOTIF:
				fValue := false
				if fExec {
					if len(stack) < 1 {
						return "UNBALANCED_CONDITIONAL"
					}
					v := top(-1)
					if sv == sigTapscript {
						if len(v) > 1 || (len(v) == 1 && v[0] != 1) {
							return "TAPSCRIPT_MINIMALIF"
						}
					}
					if sv == sigWitnessV0 && flags&MINIMALIF != 0 {
						if len(v) > 1 {
							return "MINIMALIF"
						}
						if len(v) == 1 && v[0] != 1 {
							return "MINIMALIF"
						}
					}
					fValue = CastToBool(v)
					if op == OP_NOTIF {
						fValue = !fValue
					}
					pop()
				}
				vfExec = append(vfExec, fValue)

			case OP_ELSE:
				if len(vfExec) == 0 {
					return "UNBALANCED_CONDITIONAL"
				}
				vfExec[len(vfExec)-1] = !vfExec[len(vfExec)-1]

			case OP_ENDIF:
				if len(vfExec) == 0 {
					return "UNBALANCED_CONDITIONAL"
				}
				vfExec = vfExec[:len(vfExec)-1]

			case OP_VERIFY:
				if len(stack) < 1 {
					return "INVALID_STACK_OPERATION"
				}
				if CastToBool(top(-1)) {
					pop()
				} else {
					return "VERIFY"
				}

			case OP_RETURN:
				return "OP_RETURN"

			case OP_TOALTSTACK:
				if len(stack) < 1 {
					return "INVALID_STACK_OPERATION"
				}
				altstack = append(altstack, top(-1))
				pop()

			case OP_FROMALTSTACK:
				if len(altstack) < 1 {
					return "INVALID_ALTSTACK_OPERATION"
				}
				push(altstack[len(altstack)-1])
				altstack = altstack[:len(altstack)-1]

			case OP_2DROP:
				if len(stack) < 2 {
					return "INVALID_STACK_OPERATION"
				}
				pop()
				pop()

			case OP_2DUP:
				if len(stack) < 2 {
					return "INVALID_STACK_OPERATION"
				}
				a, b := top(-2), top(-1)
				push(a)
				push(b)

			case OP_3DUP:
				if len(stack) < 3 {
					return "INVALID_STACK_OPERATION"
				}
				a, b, d := top(-3), top(-2), top(-1)
				push(a)
				push(b)
				push(d)

			case OP_2OVER:
				if len(stack) < 4 {
					return "INVALID_STACK_OPERATION"
				}
				a, b := top(-4), top(-3)
				push(a)
				push(b)

			case OP_2ROT:
				if len(stack) < 6 {
					return "INVALID_STACK_OPERATION"
				}
				a, b := top(-6), top(-5)
				n := len(stack)
				ns := append([][]byte{}, stack[:n-6]...)
				ns = append(ns, stack[n-4:]...)
				ns = append(ns, a, b)
				stack = ns

			case OP_2SWAP:
				if len(stack) < 4 {
					return "INVALID_STACK_OPERATION"
				}
				n := len(stack)
				stack[n-4], stack[n-2] = stack[n-2], stack[n-4]
				stack[n-3], stack[n-1] = stack[n-1], stack[n-3]

			case OP_IFDUP:
				if len(stack) < 1 {
					return "INVALID_STACK_OPERATION"
				}
				if CastToBool(top(-1)) {
					push(top(-1))
				}

			case OP_DEPTH:
				push(EncodeNum(int64(len(stack))))

			case OP_DROP:
				if len(stack) < 1 {
					return "INVALID_STACK_OPERATION"
				}
				pop()

			case OP_DUP:
				if len(stack) < 1 {
					return "INVALID_STACK_OPERATION"
				}
				push(top(-1))

			case OP_NIP:
				if len(stack) < 2 {
					return "INVALID_STACK_OPERATION"
				}
				n := len(stack)
				stack[n-2] = stack[n-1]
				pop()

			case OP_OVER:
				if len(stack) < 2 {
					return "INVALID_STACK_OPERATION"
				}
				push(top(-2))

			case OP_PICK, OP_ROLL:
				if len(stack) < 2 {
					return "INVALID_STACK_OPERATION"
				}
				nn, ok := num(top(-1), 4)
				if !ok {
					return "UNKNOWN_ERROR"
				}
				n := numToInt(nn)
				pop()
				if n < 0 || n >= len(stack) {
					return "INVALID_STACK_OPERATION"
				}
				idx := len(stack) - n - 1
				v := stack[idx]
				if op == OP_ROLL {
					ns := append([][]byte{}, stack[:idx]...)
					ns = append(ns, stack[idx+1:]...)
					stack = ns
				}
				push(v)

			case OP_ROT:
				if len(stack) < 3 {
					return "INVALID_STACK_OPERATION"
				}
				n := len(stack)
				stack[n-3], stack[n-2] = stack[n-2], stack[n-3]
				stack[n-2], stack[n-1] = stack[n-1], stack[n-2]

			case OP_SWAP:
				if len(stack) < 2 {
					return "INVALID_STACK_OPERATION"
				}
				n := len(stack)
				stack[n-2], stack[n-1] = stack[n-1], stack[n-2]

			case OP_TUCK:
				if len(stack) < 2 {
					return "INVALID_STACK_OPERATION"
				}
				n := len(stack)
				v := stack[n-1]
				ns := append([][]byte{}, stack[:n-2]...)
				ns = append(ns, v, stack[n-2], stack[n-1])
				stack = ns

			case OP_SIZE:
				if len(stack) < 1 {
					return "INVALID_STACK_OPERATION"
				}
				push(EncodeNum(int64(len(top(-1)))))

			case OP_EQUAL, OP_EQUALVERIFY:
				if len(stack) < 2 {
					return "INVALID_STACK_OPERATION"
				}
				eq := bytesEqual(top(-2), top(-1))
				pop()
				pop()
				push(boolBytes(eq))
				if op == OP_EQUALVERIFY {
					if eq {
						pop()
					} else {
						return "EQUALVERIFY"
					}
				}

			case OP_1ADD, OP_1SUB, OP_NEGATE, OP_ABS, OP_NOT, OP_0NOTEQUAL:
				if len(stack) < 1 {
					return "INVALID_STACK_OPERATION"
				}
				bn, ok := num(top(-1), 4)
				if !ok {
					return "UNKNOWN_ERROR"
				}
				switch op {
				case OP_1ADD:
					bn++
				case OP_1SUB:
					bn--
				case OP_NEGATE:
					bn = -bn
				case OP_ABS:
					if bn < 0 {
						bn = -bn
					}
				case OP_NOT:
					if bn == 0 {
						bn = 1
					} else {
						bn = 0
					}
				case OP_0NOTEQUAL:
					if bn != 0 {
						bn = 1
					} else {
						bn = 0
					}
				}
				pop()
				push(EncodeNum(bn))

			case OP_ADD, OP_SUB, OP_BOOLAND, OP_BOOLOR, OP_NUMEQUAL, OP_NUMEQUALVERIFY, OP_NUMNOTEQUAL,
				OP_LESSTHAN, OP_GREATERTHAN, OP_LESSTHANOREQUAL, OP_GREATERTHANOREQUAL, OP_MIN, OP_MAX:
				if len(stack) < 2 {
					return "INVALID_STACK_OPERATION"
				}
				a, ok1 := num(top(-2), 4)
				if !ok1 {
					return "UNKNOWN_ERROR"
				}
				b, ok2 := num(top(-1), 4)
				if !ok2 {
					return "UNKNOWN_ERROR"
				}
				var r int64
				b2i := func(v bool) int64 {
					if v {
						return 1
					}
					return 0
				}
				switch op {
				case OP_ADD:
					r = a + b
				case OP_SUB:
					r = a - b
				case OP_BOOLAND:
					r = b2i(a != 0 && b != 0)
				case OP_BOOLOR:
					r = b2i(a != 0 || b != 0)
				case OP_NUMEQUAL, OP_NUMEQUALVERIFY:
					r = b2i(a == b)
				case OP_NUMNOTEQUAL:
					r = b2i(a != b)
				case OP_LESSTHAN:
					r = b2i(a < b)
				case OP_GREATERTHAN:
					r = b2i(a > b)
				case OP_LESSTHANOREQUAL:
					r = b2i(a <= b)
				case OP_GREATERTHANOREQUAL:
					r = b2i(a >= b)
				case OP_MIN:
					if a < b {
						r = a
					} else {
						r = b
					}
				case OP_MAX:
					if a > b {
						r = a
					} else {
						r = b
					}
				}
				pop()
				pop()
				push(EncodeNum(r))
				if op == OP_NUMEQUALVERIFY {
					if CastToBool(top(-1)) {
						pop()
					} else {
						return "NUMEQUALVERIFY"
					}
				}

			case OP_WITHIN:
				if len(stack) < 3 {
					return "INVALID_STACK_OPERATION"
				}
				a, ok1 := num(top(-3), 4)
				if !ok1 {
					return "UNKNOWN_ERROR"
				}
				b, ok2 := num(top(-2), 4)
				if !ok2 {
					return "UNKNOWN_ERROR"
				}
				d, ok3 := num(top(-1), 4)
				if !ok3 {
					return "UNKNOWN_ERROR"
				}
				v := b <= a && a < d
				pop()
				pop()
				pop()
				push(boolBytes(v))

			case OP_RIPEMD160, OP_SHA1, OP_SHA256, OP_HASH160, OP_HASH256:
				if len(stack) < 1 {
					return "INVALID_STACK_OPERATION"
				}
				v := top(-1)
				var h []byte
				switch op {
				case OP_RIPEMD160:
					h = ripemd(v)
				case OP_SHA1:
					x := sha1.Sum(v)
					h = x[:]
				case OP_SHA256:
					x := sha256.Sum256(v)
					h = x[:]
				case OP_HASH160:
					x := sha256.Sum256(v)
					h = ripemd(x[:])
				case OP_HASH256:
					x := dsha(v)
					h = x[:]
				}
				pop()
				push(h)

			case OP_CODESEPARATOR:
				codeBegin = pc
				ex.tap.CodeSepPos = opcodePos

			case OP_CHECKSIG, OP_CHECKSIGVERIFY:
				if len(stack) < 2 {
					return "INVALID_STACK_OPERATION"
				}
				success, e := evalChecksig(top(-2), top(-1), script, codeBegin, ex, flags, c, sv)
				if e != "" {
					return e
				}
				pop()
				pop()
				push(boolBytes(success))
				if op == OP_CHECKSIGVERIFY {
					if success {
						pop()
					} else {
						return "CHECKSIGVERIFY"
					}
				}

			case OP_CHECKSIGADD:
				if sv == sigBase || sv == sigWitnessV0 {
					return "BAD_OPCODE"
				}
				if len(stack) < 3 {
					return "INVALID_STACK_OPERATION"
				}
				n, ok := num(top(-2), 4)
				if !ok {
					return "UNKNOWN_ERROR"
				}
				success, e := evalChecksig(top(-3), top(-1), script, codeBegin, ex, flags, c, sv)
				if e != "" {
					return e
				}
				pop()
				pop()
				pop()
				if success {
					n++
				}
				push(EncodeNum(n))

			case OP_CHECKMULTISIG, OP_CHECKMULTISIGVERIFY:
				if sv == sigTapscript {
					return "TAPSCRIPT_CHECKMULTISIG"
				}
				i := 1
				if len(stack) < i {
					return "INVALID_STACK_OPERATION"
				}
				kn, ok := num(top(-i), 4)
				if !ok {
					return "UNKNOWN_ERROR"
				}
				nKeys := numToInt(kn)
				if nKeys < 0 || nKeys > MaxPubKeysPerMultisig {
					return "PUBKEY_COUNT"
				}
				nOpCount += nKeys
				if nOpCount > MaxOpsPerScript {
					return "OP_COUNT"
				}
				i++
				ikey := i
				ikey2 := nKeys + 2
				i += nKeys
				if len(stack) < i {
					return "INVALID_STACK_OPERATION"
				}
				sn, ok := num(top(-i), 4)
				if !ok {
					return "UNKNOWN_ERROR"
				}
				nSigs := numToInt(sn)
				if nSigs < 0 || nSigs > nKeys {
					return "SIG_COUNT"
				}
				i++
				isig := i
				i += nSigs
				if len(stack) < i {
					return "INVALID_STACK_OPERATION"
				}
				scriptCode := script[codeBegin:]
				for k := 0; k < nSigs; k++ {
					if sv == sigBase && !(c.Quirks&QuirkNoFindAndDeleteEmptySig != 0 && len(top(-isig-k)) == 0) {
						var found int
						scriptCode, found = FindAndDelete(scriptCode, PushData(top(-isig-k)))
						if found > 0 && flags&CONST_SCRIPTCODE != 0 {
							return "SIG_FINDANDDELETE"
						}
					}
				}
				success := true
				for success && nSigs > 0 {
					sig := top(-isig)
					pk := top(-ikey)
					if e := checkSignatureEncoding(sig, flags); e != sigOK {
						return sigErrName(e)
					}
					skipKeyEnc := c.Quirks&QuirkMultisigSkipsKeyEncoding != 0 && (len(sig) == 0 || btcdSigParseFails(sig[:len(sig)-1], flags))
					if !skipKeyEnc {
						if e := checkPubKeyEncoding(pk, flags, sv); e != sigOK {
							return sigErrName(e)
						}
					}
					if c.checkECDSASignature(sig, pk, scriptCode, sv, flags) {
						isig++
						nSigs--
					}
					ikey++
					nKeys--
					if nSigs > nKeys {
						success = false
					}
				}
				for ; i > 1; i-- {
					if !success && flags&NULLFAIL != 0 && ikey2 == 0 && len(top(-1)) != 0 {
						return "SIG_NULLFAIL"
					}
					if ikey2 > 0 {
						ikey2--
					}
					pop()
				}
				if len(stack) < 1 {
					return "INVALID_STACK_OPERATION"
				}
				if flags&NULLDUMMY != 0 && len(top(-1)) != 0 {
					return "SIG_NULLDUMMY"
				}
				pop()
				push(boolBytes(success))
				if op == OP_CHECKMULTISIGVERIFY {
					if success {
						pop()
					} else {
						return "CHECKMULTISIGVERIFY"
					}
				}

			default:
				return "BAD_OPCODE"
			}
		}
		if len(stack)+len(altstack) > MaxStackSize {
			return "STACK_SIZE"
		}
	}
	if len(vfExec) != 0 {
		return "UNBALANCED_CONDITIONAL"
	}
	return ""
}

func ripemd(b []byte) []byte {
	h := ripemd160.New()
	h.Write(b)
	return h.Sum(nil)
}
